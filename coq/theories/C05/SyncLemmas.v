(* What one pass of syncJob (C05/Model.v sync_pods) does to the pod set (used by C06 and by C05/Partition.v),
   for every spec, pod set and fault set: exact pod set, idempotence,
   crash/restart convergence. *)
From Coq Require Import ZArith List Bool Lia Permutation.
From V Require Import C05.Model.
Import ListNotations.
Open Scope Z_scope.

Definition mark (p : pod) : pod := mkPod (p_task p) (p_idx p) (p_phase p) true (p_oos p).
Definition newpod (t : positive) (i : Z) : pod := mkPod t i PPending false false.

Lemma mark_idem : forall p, mark (mark p) = mark p.
Proof. reflexivity. Qed.

(* ---------- find_pod through the API operations ---------- *)
Lemma same_id_true : forall t i p, same_id t i p = true <-> p_task p = t /\ p_idx p = i.
Proof.
  intros. unfold same_id. rewrite andb_true_iff, Pos.eqb_eq, Z.eqb_eq. tauto.
Qed.

Lemma find_pod_some : forall t i l q, find_pod t i l = Some q -> In q l /\ p_task q = t /\ p_idx q = i.
Proof.
  intros t i l q H. unfold find_pod in H. apply find_some in H. destruct H as [H1 H2].
  apply same_id_true in H2. tauto.
Qed.

Lemma has_pod_find : forall t i l, has_pod t i l = match find_pod t i l with Some _ => true | None => false end.
Proof. reflexivity. Qed.

Lemma find_update : forall f t i t' i' l,
  (forall p, p_task (f p) = p_task p /\ p_idx (f p) = p_idx p) ->
  find_pod t i (update_pod t' i' f l) =
  option_map (fun p => if same_id t' i' p then f p else p) (find_pod t i l).
Proof.
  intros f t i t' i' l Hf. unfold find_pod, update_pod. induction l as [|p l IH]; cbn; auto.
  assert (E : same_id t i (if same_id t' i' p then f p else p) = same_id t i p).
  { destruct (same_id t' i' p); auto. unfold same_id. destruct (Hf p) as [-> ->]. reflexivity. }
  rewrite E. destruct (same_id t i p); auto.
Qed.

Lemma find_api_delete : forall t i t' i' l,
  find_pod t i (api_delete t' i' l) =
  option_map (fun q => if Pos.eqb t t' && Z.eqb i i' then mark q else q) (find_pod t i l).
Proof.
  intros. unfold api_delete. rewrite find_update by (intros p; split; reflexivity).
  destruct (find_pod t i l) as [q|] eqn:E; cbn; auto.
  apply find_pod_some in E. destruct E as (_ & <- & <-). reflexivity.
Qed.

Lemma find_insert : forall p t i l,
  has_pod (p_task p) (p_idx p) l = false ->
  find_pod t i (insert_pod p l) = if same_id t i p then Some p else find_pod t i l.
Proof.
  intros p t i l. unfold has_pod, find_pod. induction l as [|q l IH]; intros H; cbn.
  - reflexivity.
  - cbn in H. destruct (same_id (p_task p) (p_idx p) q) eqn:Eq; [discriminate|].
    destruct (id_lt (p_task p) (p_idx p) q); cbn.
    + reflexivity.
    + rewrite IH by exact H. destruct (same_id t i q) eqn:E1; auto.
      destruct (same_id t i p) eqn:E2; auto.
      apply same_id_true in E1, E2. destruct E1 as [A B], E2 as [C D].
      assert (X : same_id (p_task p) (p_idx p) q = true) by (apply same_id_true; split; congruence).
      congruence.
Qed.

(* ---------- ids stay unique ---------- *)
Lemma has_pod_false_notin : forall t i l, has_pod t i l = false -> ~ In (t, i) (pod_ids l).
Proof.
  intros t i l H Hin. unfold pod_ids in Hin. apply in_map_iff in Hin. destruct Hin as (p & E & Hp).
  inversion E; subst. unfold has_pod, find_pod in H.
  destruct (find (same_id (p_task p) (p_idx p)) l) eqn:F; [discriminate|].
  eapply find_none in F; eauto. unfold same_id in F. rewrite Pos.eqb_refl, Z.eqb_refl in F. discriminate.
Qed.

Lemma pod_ids_insert : forall p l, Permutation (pod_ids (insert_pod p l)) ((p_task p, p_idx p) :: pod_ids l).
Proof.
  induction l as [|q l IH]; cbn; auto.
  destruct (id_lt (p_task p) (p_idx p) q); cbn; auto.
  eapply perm_trans; [apply perm_skip, IH|apply perm_swap].
Qed.

Lemma pod_ids_update_pod : forall t i f l,
  (forall p, p_task (f p) = p_task p /\ p_idx (f p) = p_idx p) -> pod_ids (update_pod t i f l) = pod_ids l.
Proof.
  intros t i f l Hf. unfold pod_ids, update_pod. rewrite map_map. apply map_ext.
  intros p. destruct (same_id t i p); auto. destruct (Hf p) as [-> ->]. reflexivity.
Qed.

Lemma find_unique : forall l p, NoDup (pod_ids l) -> In p l -> find_pod (p_task p) (p_idx p) l = Some p.
Proof.
  induction l as [|q l IH]; intros p Hnd Hin; [destruct Hin|].
  cbn in Hnd. inversion Hnd as [|? ? Hnot Hnd']; subst. unfold find_pod. cbn.
  destruct Hin as [->|Hin].
  - unfold same_id. rewrite Pos.eqb_refl, Z.eqb_refl. reflexivity.
  - destruct (same_id (p_task p) (p_idx p) q) eqn:E.
    + apply same_id_true in E. destruct E as [A B]. exfalso. apply Hnot.
      unfold pod_ids. apply in_map_iff. exists p. split; auto. congruence.
    + apply IH; auto.
Qed.

(* ---------- pass 1 (counting) touches neither pods nor the error flag ---------- *)
Lemma count_kept_pods : forall fixed a p,
  a_pods (count_kept_gen fixed a p) = a_pods a /\ a_err (count_kept_gen fixed a p) = a_err a.
Proof. intros. unfold count_kept_gen. destruct (p_del p); [|destruct (fixed && p_oos p)]; split; reflexivity. Qed.

Lemma fold_count_kept : forall fixed l a,
  a_pods (fold_left (count_kept_gen fixed) l a) = a_pods a /\ a_err (fold_left (count_kept_gen fixed) l a) = a_err a.
Proof.
  induction l as [|p l IH]; intros a; cbn; auto.
  destruct (IH (count_kept_gen fixed a p)) as [A B]. destruct (count_kept_pods fixed a p) as [C D].
  split; congruence.
Qed.

Lemma pass1_pods : forall fixed view ts a,
  let a' := fold_left (fun a t => fold_left (count_kept_gen fixed) (kept t view) a) ts a in
  a_pods a' = a_pods a /\ a_err a' = a_err a.
Proof.
  induction ts as [|t ts IH]; intros a; cbn; auto.
  destruct (IH (fold_left (count_kept_gen fixed) (kept t view) a)) as [A B].
  destruct (fold_count_kept fixed (kept t view) a) as [C D]. split; congruence.
Qed.

(* ---------- pass 2 (creations) ---------- *)
Lemma create_one_find : forall F n a j t i,
  find_pod t i (a_pods (create_one F n a j)) =
  match find_pod t i (a_pods a) with
  | Some q => Some q
  | None => if Pos.eqb t n && Z.eqb i j && negb (fails_create F t i) then Some (newpod t i) else None
  end.
Proof.
  intros F n a j t i. unfold create_one.
  destruct (Pos.eqb t n && Z.eqb i j) eqn:Eid.
  - apply andb_true_iff in Eid. destruct Eid as [E1 E2]. apply Pos.eqb_eq in E1. apply Z.eqb_eq in E2. subst t i.
    cbn [andb]. destruct (fails_create F n j) eqn:Ef; cbn [negb a_pods].
    + destruct (find_pod n j (a_pods a)); reflexivity.
    + unfold api_create. rewrite has_pod_find. destruct (find_pod n j (a_pods a)) as [q|] eqn:Eq; cbn [a_pods].
      * exact Eq.
      * rewrite find_insert by (cbn; rewrite has_pod_find, Eq; reflexivity).
        unfold same_id. cbn. rewrite Pos.eqb_refl, Z.eqb_refl. reflexivity.
  - cbn [andb].
    assert (Hsame : find_pod t i (a_pods (if fails_create F n j then mkAcc (a_pods a) (a_cnt a) (a_term a) (a_tsc a) true
                                 else let '(l, created) := api_create n j (a_pods a) in
                                      if created then mkAcc l (cadd (a_cnt a) (cone PPending)) (a_term a) (tsc_add n (cone PPending) (a_tsc a)) (a_err a)
                                      else a)) = find_pod t i (a_pods a)).
    { destruct (fails_create F n j); cbn [a_pods]; auto.
      unfold api_create. destruct (has_pod n j (a_pods a)) eqn:Eh; cbn [a_pods]; auto.
      rewrite find_insert by (cbn; exact Eh). unfold same_id. cbn.
      rewrite (Pos.eqb_sym n t), (Z.eqb_sym j i), Eid. reflexivity. }
    rewrite Hsame. destruct (find_pod t i (a_pods a)); reflexivity.
Qed.

Lemma create_fold_find : forall F n L a t i,
  find_pod t i (a_pods (fold_left (create_one F n) L a)) =
  match find_pod t i (a_pods a) with
  | Some q => Some q
  | None => if Pos.eqb t n && existsb (Z.eqb i) L && negb (fails_create F t i) then Some (newpod t i) else None
  end.
Proof.
  induction L as [|j L IH]; intros a t i; cbn [fold_left existsb].
  - rewrite andb_false_r. cbn. destruct (find_pod t i (a_pods a)); reflexivity.
  - rewrite IH, create_one_find. destruct (find_pod t i (a_pods a)) as [q|]; auto.
    destruct (Pos.eqb t n); cbn [andb]; auto.
    destruct (Z.eqb i j); cbn [andb orb]; auto.
    destruct (negb (fails_create F t i)); cbn.
    + reflexivity.
    + rewrite andb_false_r. reflexivity.
Qed.

Definition wants (sp : spec) (view : list pod) (ts : list task) (t : positive) (i : Z) : bool :=
  existsb (fun k => Pos.eqb t (t_name k) && deps_met sp view k && existsb (Z.eqb i) (missing k view)) ts.

Lemma pass2_find : forall sp view F ts a t i,
  find_pod t i (a_pods (fold_left (fun a k => if deps_met sp view k
                                              then fold_left (create_one F (t_name k)) (missing k view) a else a) ts a)) =
  match find_pod t i (a_pods a) with
  | Some q => Some q
  | None => if wants sp view ts t i && negb (fails_create F t i) then Some (newpod t i) else None
  end.
Proof.
  induction ts as [|k ts IH]; intros a t i; cbn [fold_left wants existsb].
  - cbn. destruct (find_pod t i (a_pods a)); reflexivity.
  - rewrite IH. fold (wants sp view ts t i).
    destruct (deps_met sp view k); cbn [andb].
    + rewrite create_fold_find. destruct (find_pod t i (a_pods a)) as [q|]; auto.
      destruct (Pos.eqb t (t_name k)); cbn [andb orb]; auto.
      destruct (existsb (Z.eqb i) (missing k view)); cbn [andb orb]; auto.
      destruct (negb (fails_create F t i)); cbn; auto.
      rewrite andb_false_r. reflexivity.
    + rewrite andb_false_r. cbn [orb]. reflexivity.
Qed.

Lemma pass2_err_nofault : forall sp view ts a,
  a_err (fold_left (fun a k => if deps_met sp view k
                               then fold_left (create_one [] (t_name k)) (missing k view) a else a) ts a) = a_err a.
Proof.
  assert (C : forall n L a, a_err (fold_left (create_one [] n) L a) = a_err a).
  { induction L as [|j L IH]; intros a; cbn [fold_left]; auto. rewrite IH.
    unfold create_one. cbn [fails_create existsb]. unfold api_create.
    destruct (has_pod n j (a_pods a)); reflexivity. }
  induction ts as [|k ts IH]; intros a; cbn [fold_left]; auto.
  rewrite IH. destruct (deps_met sp view k); auto.
Qed.

(* ---------- pass 3 (deletions) ---------- *)
Lemma delete_one_find : forall F a p t i,
  find_pod t i (a_pods (delete_one F a p)) =
  option_map (fun q => if same_id t i p && negb (fails_delete F t i) then mark q else q) (find_pod t i (a_pods a)).
Proof.
  intros F a p t i. unfold delete_one.
  destruct (same_id t i p) eqn:Es.
  - apply same_id_true in Es. destruct Es as [<- <-]. cbn [andb].
    destruct (fails_delete F (p_task p) (p_idx p)); cbn [negb a_pods].
    + destruct (find_pod _ _ _); reflexivity.
    + rewrite find_api_delete. rewrite Pos.eqb_refl, Z.eqb_refl. reflexivity.
  - cbn [andb]. destruct (fails_delete F (p_task p) (p_idx p)); cbn [a_pods].
    + destruct (find_pod _ _ _); reflexivity.
    + rewrite find_api_delete. unfold same_id in Es.
      rewrite (Pos.eqb_sym t (p_task p)), (Z.eqb_sym i (p_idx p)), Es.
      destruct (find_pod _ _ _); reflexivity.
Qed.

Lemma delete_fold_find : forall F D a t i,
  find_pod t i (a_pods (fold_left (delete_one F) D a)) =
  option_map (fun q => if existsb (same_id t i) D && negb (fails_delete F t i) then mark q else q)
             (find_pod t i (a_pods a)).
Proof.
  induction D as [|p D IH]; intros a t i; cbn [fold_left existsb].
  - destruct (find_pod _ _ _); reflexivity.
  - rewrite IH, delete_one_find. destruct (find_pod t i (a_pods a)) as [q|]; cbn [option_map]; auto.
    destruct (same_id t i p); cbn [andb orb]; auto.
    destruct (negb (fails_delete F t i)); cbn [andb].
    + destruct (existsb (same_id t i) D); reflexivity.
    + rewrite andb_false_r. reflexivity.
Qed.

Lemma delete_fold_err_nofault : forall D a, a_err (fold_left (delete_one []) D a) = a_err a.
Proof. induction D as [|p D IH]; intros a; cbn [fold_left]; auto. rewrite IH. reflexivity. Qed.

(* ---------- which pods are deleted, which replicas are wanted ---------- *)
(* own surplus (index outside the task's replicas) or live out-of-sync *)
Definition doomed (sp : spec) (p : pod) : bool :=
  existsb (fun k => Pos.eqb (p_task p) (t_name k) && (negb (in_range k p) || (negb (p_del p) && p_oos p))) (s_tasks sp).

Lemma in_to_delete : forall sp view p, In p (to_delete sp view) <-> In p view /\ doomed sp p = true.
Proof.
  intros sp view p. unfold to_delete, doomed. rewrite in_flat_map, existsb_exists. split.
  - intros (k & Hk & Hin). apply in_app_or in Hin. unfold kept, surplus, task_pods in Hin.
    destruct Hin as [Hin|Hin]; repeat (apply filter_In in Hin; destruct Hin as [Hin ?]).
    + split; auto. exists k. split; auto.
      match goal with H : negb (p_del p) && p_oos p = true |- _ => rewrite H end.
      match goal with H : Pos.eqb (p_task p) (t_name k) = true |- _ => rewrite H end.
      rewrite orb_true_r. reflexivity.
    + split; auto. exists k. split; auto.
      match goal with H : negb (in_range k p) = true |- _ => rewrite H end.
      match goal with H : Pos.eqb (p_task p) (t_name k) = true |- _ => rewrite H end. reflexivity.
  - intros (Hin & k & Hk & Hc). exists k. split; auto. apply andb_true_iff in Hc. destruct Hc as [Hn Hc].
    apply in_or_app. unfold kept, surplus, task_pods.
    destruct (in_range k p) eqn:Er.
    + left. cbn in Hc. repeat (apply filter_In; split); auto.
    + right. repeat (apply filter_In; split); auto. rewrite Er. reflexivity.
Qed.

Lemma targeted_doomed : forall sp P t i, NoDup (pod_ids P) ->
  existsb (same_id t i) (to_delete sp P) = match find_pod t i P with Some q => doomed sp q | None => false end.
Proof.
  intros sp P t i Hnd. destruct (existsb (same_id t i) (to_delete sp P)) eqn:E.
  - apply existsb_exists in E. destruct E as (p & Hp & Hs). apply in_to_delete in Hp. destruct Hp as [Hin Hd].
    apply same_id_true in Hs. destruct Hs as [<- <-]. rewrite (find_unique P p Hnd Hin). auto.
  - destruct (find_pod t i P) as [q|] eqn:Ef; auto.
    destruct (doomed sp q) eqn:Ed; auto. exfalso.
    apply find_pod_some in Ef. destruct Ef as (Hin & Ht & Hi).
    assert (X : existsb (same_id t i) (to_delete sp P) = true).
    { apply existsb_exists. exists q. split; [apply in_to_delete; auto|apply same_id_true; auto]. }
    congruence.
Qed.

Lemma in_indices : forall n i, In i (indices n) <-> 0 <= i < n.
Proof.
  intros n i. unfold indices. rewrite in_map_iff. split.
  - intros (k & <- & Hk). apply in_seq in Hk. lia.
  - intros H. exists (Z.to_nat i). split; [lia|]. apply in_seq. lia.
Qed.

Lemma existsb_eqb_In : forall i L, existsb (Z.eqb i) L = true <-> In i L.
Proof.
  intros. rewrite existsb_exists. split.
  - intros (x & Hx & E). apply Z.eqb_eq in E. subst. auto.
  - intros H. exists i. split; auto. apply Z.eqb_refl.
Qed.

Lemma missing_spec : forall k view i,
  existsb (Z.eqb i) (missing k view) = (0 <=? i) && (i <? t_replicas k) && negb (has_pod (t_name k) i view).
Proof.
  intros k view i. apply eq_true_iff_eq. rewrite existsb_eqb_In. unfold missing. rewrite filter_In, in_indices.
  rewrite !andb_true_iff, Z.leb_le, Z.ltb_lt. tauto.
Qed.

(* replica (t, i) is wanted: some task named t has i among its replicas and its dependencies are met *)
Definition wanted (sp : spec) (view : list pod) (t : positive) (i : Z) : bool :=
  existsb (fun k => Pos.eqb t (t_name k) && deps_met sp view k && (0 <=? i) && (i <? t_replicas k)) (s_tasks sp).

Lemma wants_wanted : forall sp view t i, has_pod t i view = false -> wants sp view (s_tasks sp) t i = wanted sp view t i.
Proof.
  intros sp view t i Hh. unfold wants, wanted. induction (s_tasks sp) as [|k l IH]; cbn; auto.
  rewrite IH. f_equal. rewrite missing_spec.
  destruct (Pos.eqb t (t_name k)) eqn:E; cbn [andb]; auto.
  apply Pos.eqb_eq in E. subst t. rewrite Hh. cbn.
  destruct (deps_met sp view k); cbn; auto. rewrite andb_true_r. reflexivity.
Qed.

(* ---------- one pass of syncJob on a fresh view, any fault set ---------- *)
Theorem sync_pods_find : forall fixed sp P F, NoDup (pod_ids P) ->
  let a := sync_pods_gen fixed sp P P F in
  exists reached : bool, (F = [] -> reached = true /\ a_err a = false) /\
  forall t i,
    find_pod t i (a_pods a) =
    match find_pod t i P with
    | Some q => Some (if reached && doomed sp q && negb (fails_delete F t i) then mark q else q)
    | None => if wanted sp P t i && negb (fails_create F t i) then Some (newpod t i) else None
    end.
Proof.
  intros fixed sp P F Hnd. cbv zeta. unfold sync_pods_gen.
  set (a1 := fold_left (fun a t => fold_left (count_kept_gen fixed) (kept t P) a) (s_tasks sp) (mkAcc P c0 0 [] false)).
  destruct (pass1_pods fixed P (s_tasks sp) (mkAcc P c0 0 [] false)) as [Hp1 He1]. fold a1 in Hp1, He1. cbn in Hp1, He1.
  set (a2 := fold_left (fun a k => if deps_met sp P k then fold_left (create_one F (t_name k)) (missing k P) a else a)
                       (s_tasks sp) a1).
  assert (H2 : forall t i, find_pod t i (a_pods a2) =
            match find_pod t i P with
            | Some q => Some q
            | None => if wanted sp P t i && negb (fails_create F t i) then Some (newpod t i) else None end).
  { intros t i. unfold a2. rewrite pass2_find, Hp1. destruct (find_pod t i P) eqn:Ef; auto.
    rewrite wants_wanted; auto. rewrite has_pod_find, Ef. reflexivity. }
  destruct (a_err a2) eqn:Ee.
  - exists false. split.
    + intros ->. exfalso. unfold a2 in Ee. rewrite pass2_err_nofault, He1 in Ee. discriminate.
    + intros t i. rewrite H2. destruct (find_pod t i P); reflexivity.
  - exists true. split.
    + intros ->. split; auto. rewrite delete_fold_err_nofault. exact Ee.
    + intros t i. rewrite delete_fold_find, H2. destruct (find_pod t i P) as [q|] eqn:Ef; cbn [option_map andb].
      * rewrite targeted_doomed by exact Hnd. rewrite Ef. reflexivity.
      * destruct (wanted sp P t i && negb (fails_create F t i)); cbn [option_map]; auto.
        rewrite targeted_doomed by exact Hnd. rewrite Ef. reflexivity.
Qed.

(* ---------- pod names stay unique ---------- *)
Lemma create_one_nodup : forall F n a j, NoDup (pod_ids (a_pods a)) -> NoDup (pod_ids (a_pods (create_one F n a j))).
Proof.
  intros F n a j H. unfold create_one. destruct (fails_create F n j); auto.
  unfold api_create. destruct (has_pod n j (a_pods a)) eqn:Eh; cbn [a_pods]; auto.
  eapply Permutation_NoDup; [apply Permutation_sym, pod_ids_insert|]. cbn. constructor; auto.
  apply has_pod_false_notin; exact Eh.
Qed.

Lemma sync_pods_nodup : forall fixed sp view api F,
  NoDup (pod_ids api) -> NoDup (pod_ids (a_pods (sync_pods_gen fixed sp view api F))).
Proof.
  intros fixed sp view api F Hnd. unfold sync_pods_gen.
  set (a1 := fold_left _ (s_tasks sp) (mkAcc api c0 0 [] false)).
  assert (H1 : NoDup (pod_ids (a_pods a1))).
  { unfold a1. destruct (pass1_pods fixed view (s_tasks sp) (mkAcc api c0 0 [] false)) as [E _]. rewrite E. exact Hnd. }
  clearbody a1.
  assert (C : forall n L a, NoDup (pod_ids (a_pods a)) -> NoDup (pod_ids (a_pods (fold_left (create_one F n) L a)))).
  { induction L as [|j L IH]; intros a Ha; cbn [fold_left]; auto. apply IH, create_one_nodup, Ha. }
  assert (H2 : forall ts a, NoDup (pod_ids (a_pods a)) ->
            NoDup (pod_ids (a_pods (fold_left (fun a k => if deps_met sp view k
                      then fold_left (create_one F (t_name k)) (missing k view) a else a) ts a)))).
  { induction ts as [|k ts IH]; intros a Ha; cbn [fold_left]; auto. apply IH.
    destruct (deps_met sp view k); auto. }
  specialize (H2 (s_tasks sp) a1 H1).
  match goal with |- context [if a_err ?x then _ else _] => set (a2 := x) in * end. clearbody a2.
  destruct (a_err a2); auto.
  assert (D : forall L a, NoDup (pod_ids (a_pods a)) -> NoDup (pod_ids (a_pods (fold_left (delete_one F) L a)))).
  { induction L as [|p L IH]; intros a Ha; cbn [fold_left]; auto. apply IH. unfold delete_one.
    destruct (fails_delete F (p_task p) (p_idx p)); cbn [a_pods]; auto.
    unfold api_delete. rewrite pod_ids_update_pod by (intros q; split; reflexivity). exact Ha. }
  apply D, H2.
Qed.

(* ---------- any subset of the API calls of a pass went through ---------- *)
Definition partial (sp : spec) (P P' : list pod) : Prop :=
  forall t i,
    match find_pod t i P with
    | Some q => find_pod t i P' = Some q \/ (doomed sp q = true /\ find_pod t i P' = Some (mark q))
    | None => find_pod t i P' = None \/ (wanted sp P t i = true /\ find_pod t i P' = Some (newpod t i))
    end.

(* every fault set (= every crash point: the refused calls are those that did
   not happen) leaves such a state *)
Theorem faulty_sync_partial : forall fixed sp P F, NoDup (pod_ids P) ->
  partial sp P (a_pods (sync_pods_gen fixed sp P P F)).
Proof.
  intros fixed sp P F Hnd t i. destruct (sync_pods_find fixed sp P F Hnd) as (reached & _ & H).
  rewrite H. destruct (find_pod t i P) as [q|].
  - destruct (reached && doomed sp q && negb (fails_delete F t i)) eqn:E; auto.
    right. split; auto. apply andb_true_iff in E. destruct E as [E _]. apply andb_true_iff in E. tauto.
  - destruct (wanted sp P t i && negb (fails_create F t i)) eqn:E; auto.
    right. split; auto. apply andb_true_iff in E. tauto.
Qed.

(* dependencies look only at Running / Succeeded pods: marking and new Pending pods do not matter *)
Lemma existsb_ext' : forall {A} (f g : A -> bool) l, (forall x, f x = g x) -> existsb f l = existsb g l.
Proof. induction l; intros; cbn; auto. rewrite H, IHl; auto. Qed.
Lemma forallb_ext' : forall {A} (f g : A -> bool) l, (forall x, f x = g x) -> forallb f l = forallb g l.
Proof. induction l; intros; cbn; auto. rewrite H, IHl; auto. Qed.

Lemma partial_dep_ready : forall sp P P' d, partial sp P P' -> dep_ready sp P' d = dep_ready sp P d.
Proof.
  intros sp P P' d Hp. unfold dep_ready. destruct (find_task sp d) as [dt|]; auto.
  assert (E : forall i, match find_pod d i P' with
                        | Some p => match p_phase p with PRunning | PSucceeded => true | _ => false end
                        | None => false end =
                        match find_pod d i P with
                        | Some p => match p_phase p with PRunning | PSucceeded => true | _ => false end
                        | None => false end).
  { intros i. specialize (Hp d i). destruct (find_pod d i P) as [q|].
    - destruct Hp as [->|[_ ->]]; reflexivity.
    - destruct Hp as [->|[_ ->]]; reflexivity. }
  rewrite (filter_ext _ _ E). reflexivity.
Qed.

Lemma partial_deps_met : forall sp P P' k, partial sp P P' -> deps_met sp P' k = deps_met sp P k.
Proof.
  intros sp P P' k Hp. unfold deps_met. destruct (t_deps k) as [[any names]|]; auto.
  rewrite (existsb_ext' _ _ names (fun d => partial_dep_ready sp P P' d Hp)).
  rewrite (forallb_ext' _ _ names (fun d => partial_dep_ready sp P P' d Hp)). reflexivity.
Qed.

Lemma partial_wanted : forall sp P P' t i, partial sp P P' -> wanted sp P' t i = wanted sp P t i.
Proof.
  intros sp P P' t i Hp. unfold wanted. apply existsb_ext'. intros k.
  rewrite (partial_deps_met sp P P' k Hp). reflexivity.
Qed.

(* a wanted replica is never doomed when task names are unique *)
Lemma wanted_not_doomed : forall sp view t i,
  NoDup (map t_name (s_tasks sp)) -> wanted sp view t i = true -> doomed sp (newpod t i) = false.
Proof.
  intros sp view t i Hnd Hw. unfold wanted in Hw. apply existsb_exists in Hw. destruct Hw as (k & Hk & Hc).
  repeat (apply andb_true_iff in Hc; destruct Hc as [Hc ?]). apply Pos.eqb_eq in Hc.
  unfold doomed. destruct (existsb _ (s_tasks sp)) eqn:E; auto. exfalso.
  apply existsb_exists in E. destruct E as (k' & Hk' & Hc'). cbn in Hc'.
  apply andb_true_iff in Hc'. destruct Hc' as [Hn Hr]. apply Pos.eqb_eq in Hn.
  cbn in Hn. assert (Hnn : t_name k' = t_name k) by congruence.
  assert (k' = k).
  { clear - Hnd Hk Hk' Hnn. induction (s_tasks sp) as [|x l IH]; [destruct Hk|].
    cbn in Hnd. inversion Hnd as [|? ? Hnot Hnd']; subst.
    destruct Hk as [->|Hk], Hk' as [->|Hk']; auto.
    - exfalso. apply Hnot. rewrite <- Hnn. apply in_map. exact Hk'.
    - exfalso. apply Hnot. rewrite Hnn. apply in_map. exact Hk. }
  subst k'. rewrite orb_false_r in Hr. unfold in_range in Hr. cbn in Hr.
  match goal with A : (0 <=? i) = true, B : (i <? t_replicas k) = true |- _ => rewrite A, B in Hr end. discriminate.
Qed.

Definition pass (fixed : bool) (sp : spec) (P : list pod) : list pod := a_pods (sync_pods_gen fixed sp P P []).

(* ---------- exact pod set ---------- *)
Theorem sync_exact_pods : forall fixed sp P, NoDup (pod_ids P) ->
  a_err (sync_pods_gen fixed sp P P []) = false /\
  forall t i,
    find_pod t i (pass fixed sp P) =
    match find_pod t i P with
    | Some q => Some (if doomed sp q then mark q else q)     (* deleted: exactly the own surplus / out-of-sync pods *)
    | None => if wanted sp P t i then Some (newpod t i) else None   (* created: exactly desired minus existing *)
    end.
Proof.
  intros fixed sp P Hnd. destruct (sync_pods_find fixed sp P [] Hnd) as (reached & Hr & H).
  destruct (Hr eq_refl) as [-> He]. split; auto. intros t i. unfold pass. rewrite H. cbn.
  destruct (find_pod t i P) as [q|].
  - rewrite andb_true_r. reflexivity.
  - rewrite andb_true_r. reflexivity.
Qed.

(* ---------- restart after any partial pass converges ---------- *)
Theorem partial_converges : forall fixed sp P P',
  NoDup (map t_name (s_tasks sp)) -> NoDup (pod_ids P) -> NoDup (pod_ids P') -> partial sp P P' ->
  forall t i, find_pod t i (pass fixed sp P') = find_pod t i (pass fixed sp P).
Proof.
  intros fixed sp P P' Hts Hnd Hnd' Hp t i.
  destruct (sync_exact_pods fixed sp P Hnd) as [_ H]. destruct (sync_exact_pods fixed sp P' Hnd') as [_ H'].
  rewrite H, H'. pose proof (Hp t i) as Hti. destruct (find_pod t i P) as [q|].
  - destruct Hti as [->|[Hd ->]]; auto. rewrite Hd. destruct (doomed sp (mark q)); reflexivity.
  - destruct Hti as [->|[Hw ->]].
    + rewrite (partial_wanted sp P P' t i Hp). reflexivity.
    + rewrite Hw. rewrite (wanted_not_doomed sp P t i Hts Hw). reflexivity.
Qed.

(* ---------- idempotence ---------- *)
Theorem sync_idempotent : forall fixed sp P,
  NoDup (map t_name (s_tasks sp)) -> NoDup (pod_ids P) ->
  forall t i, find_pod t i (pass fixed sp (pass fixed sp P)) = find_pod t i (pass fixed sp P).
Proof.
  intros fixed sp P Hts Hnd. apply partial_converges; auto.
  - apply sync_pods_nodup; exact Hnd.
  - apply faulty_sync_partial; exact Hnd.
Qed.

(* the second pass reports no error either *)
Theorem sync_idempotent_noerr : forall fixed sp P, NoDup (pod_ids P) ->
  a_err (sync_pods_gen fixed sp (pass fixed sp P) (pass fixed sp P) []) = false.
Proof. intros. apply sync_exact_pods. apply sync_pods_nodup; assumption. Qed.

(* ---------- crash / partial failure, restart, retry ---------- *)
Theorem crash_restart_converges : forall fixed sp P F,
  NoDup (map t_name (s_tasks sp)) -> NoDup (pod_ids P) ->
  let crashed := a_pods (sync_pods_gen fixed sp P P F) in     (* API server after the interrupted pass *)
  forall t i, find_pod t i (pass fixed sp crashed) = find_pod t i (pass fixed sp P).
Proof.
  intros fixed sp P F Hts Hnd crashed. apply partial_converges; auto.
  - apply sync_pods_nodup; exact Hnd.
  - apply faulty_sync_partial; exact Hnd.
Qed.
