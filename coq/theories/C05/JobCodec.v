(* Token codec of the job-controller model (shared by C05 and C06): the format
   harness/internal/jobctl/history.go writes.  Glue, nothing proved. *)
From Coq Require Import ZArith List Bool.
From V Require Import Base.Codec C05.Model.
Import ListNotations.
Open Scope Z_scope.

Definition dEnum {A} (l : list A) : dec A :=
  let* n := dNat in match nth_error l n with Some a => ret a | None => fail end.

Definition all_events := [ENone; EAny; EPodFailed; EPodEvicted; EPodPending; EPodRunning; EUnknown;
                          ETaskCompleted; EOutOfSync; ECommandIssued; EJobUpdated; ETaskFailed].
Definition all_pphases := [PPending; PRunning; PSucceeded; PFailed; PUnknown].
Definition all_pgphases := [PgEmpty; PgPending; PgInqueue; PgRunning; PgUnknown; PgCompleted].

Definition dPhase := dEnum all_phases.
Definition dAction := dEnum all_actions.
Definition dEvent := dEnum all_events.
Definition dPPhase := dEnum all_pphases.
Definition dPgPhase := dEnum all_pgphases.

Fixpoint index_of {A} (eqb : A -> A -> bool) (a : A) (l : list A) : Z :=
  match l with [] => 0 | x :: r => if eqb a x then 0 else 1 + index_of eqb a r end.
Definition ePhase (p : phase) : list Z := [index_of phase_beq p all_phases].
Definition ePPhase (p : pphase) : list Z := [index_of pphase_beq p all_pphases].
Definition ePgPhase (p : pgphase) : list Z := [index_of pgphase_beq p all_pgphases].

Definition dPolicy : dec policy :=
  let* evs := dList dEvent in let* a := dAction in let* ex := dOpt dZ in let* tm := dZ in
  ret (mkPolicy evs a ex tm).

(* resources / priority of a task: used by C06 only *)
Record task_extra := mkExtra { x_cpu : Z; x_mem : Z; x_prio : Z }.

Definition dTask : dec (task * task_extra) :=
  let* n := dPos in let* rep := dZ in let* mn := dOpt dZ in let* ps := dList dPolicy in
  let* deps := dOpt (dPair dBool (dList dPos)) in
  let* cpu := dZ in let* mem := dZ in let* prio := dZ in
  ret (mkTask n rep mn ps deps, mkExtra cpu mem prio).

Definition dSpecX : dec (spec * list task_extra) :=
  let* ts := dList dTask in let* mn := dZ in let* ms := dOpt dZ in let* mr := dZ in let* ps := dList dPolicy in
  ret (mkSpec (map fst ts) mn ms mr ps, map snd ts).
Definition dSpec : dec spec := let* sx := dSpecX in ret (fst sx).

Definition dCounts : dec counts :=
  let* a := dZ in let* b := dZ in let* c := dZ in let* d := dZ in let* e := dZ in ret (mkC a b c d e).
Definition eCounts (c : counts) : list Z := [cP c; cR c; cS c; cF c; cU c].

Definition dStatus : dec status :=
  let* ph := dPhase in let* rt := dZ in let* ver := dZ in let* mn := dZ in let* c := dCounts in let* tm := dZ in
  let* tsc := dList (dPair dPos dCounts) in let* tn := dBool in let* rd := dBool in
  ret (mkStatus ph rt ver mn c tm tsc tn rd).
Definition eStatus (s : status) : list Z :=
  ePhase (st_phase s) ++ [st_retry s; st_version s; st_min s] ++ eCounts (st_cnt s) ++ [st_term s] ++
  eList (fun tc => Zpos (fst tc) :: eCounts (snd tc)) (st_tsc s) ++ eBool (st_tsc_nil s) ++ eBool (st_rundur s).

Definition dPod : dec pod :=
  let* t := dPos in let* i := dZ in let* ph := dPPhase in let* d := dBool in let* o := dBool in
  ret (mkPod t i ph d o).
Definition dPods : dec (list pod) :=
  let* l := dList dPod in ret (fold_right insert_pod [] l).
Definition ePod (p : pod) : list Z :=
  [Zpos (p_task p); p_idx p] ++ ePPhase (p_phase p) ++ eBool (p_del p) ++ eBool (p_oos p).
Definition ePods (l : list pod) : list Z := eList ePod l.

Definition dFault : dec fault :=
  let* k := dZ in let* a := dZ in let* b := dZ in
  match k with
  | 1 => if a <=? 0 then fail else ret (FCreate (Z.to_pos a) b)
  | 2 => if a <=? 0 then fail else ret (FDelete (Z.to_pos a) b)
  (* the pod DELETE refused with an explicit error class (21 Timeout, 22 ServerTimeout, 23 TooManyRequests,
     24 Conflict, 25 InternalError), not applied on the server: deleteJobPod treats every error other than
     NotFound alike, so the model does too *)
  | 21 | 22 | 23 | 24 | 25 => if a <=? 0 then fail else ret (FDelete (Z.to_pos a) b)
  | 3 => if a <=? 0 then fail else ret (FPatch (Z.to_pos a) b)
  | 4 => ret (FStatus a)
  | 5 | 6 => ret (FPgWrite k)
  (* the same four kinds for the give-up execution of handleJobError *)
  | 11 => if a <=? 0 then fail else ret (FGive (FCreate (Z.to_pos a) b))
  | 12 => if a <=? 0 then fail else ret (FGive (FDelete (Z.to_pos a) b))
  | 13 => if a <=? 0 then fail else ret (FGive (FPatch (Z.to_pos a) b))
  | 14 => ret (FGive (FStatus a))
  | _ => fail
  end.

Definition dReq : dec (req * list fault) :=
  let* ev := dEvent in let* a := dOpt dAction in let* t := dOpt dPos in let* p := dOpt (dPair dPos dZ) in
  let* ex := dZ in let* ver := dZ in let* uid := dZ in let* F := dList dFault in
  ret (mkReq ev a t p ex ver uid, F).

Definition dOp : dec op :=
  let* c := dZ in
  match c with
  | 1 => let* rf := dReq in ret (OReq (fst rf) (snd rf))
  | 2 => let* t := dPos in let* i := dZ in let* ph := dPPhase in ret (OPodPhase t i ph)
  | 3 => let* t := dPos in let* i := dZ in ret (OPodDeleting t i)
  | 4 => let* t := dPos in let* i := dZ in ret (OPodGone t i)
  | 5 => let* g := dPgPhase in ret (OPgPhase g)
  | 6 => ret OSyncJob
  | 7 => ret OSyncPods
  | 8 => ret OSyncPg
  | 9 => let* sp := dSpec in ret (OSetSpec sp)
  | 10 => ret ORestart
  | 11 => let* sp := dSpec in ret (OReplaceJob sp)
  | 12 => ret OJobDeleting
  | 13 => ret OStaleJob
  | 14 => ret OFire
  | 15 => let* t := dPos in let* i := dZ in let* race := dBool in ret (OResyncPod t i race)
  | _ => fail
  end.

Record history := mkHistory { h_spec : spec; h_st : status; h_pods : list pod; h_pg : option pgphase;
                             h_queue : bool; h_maxrq : Z; h_ops : list op }.

Definition dHistory : dec history :=
  let* sp := dSpec in let* st := dStatus in let* pods := dPods in let* pg := dOpt dPgPhase in
  (* one token: bit 0 = the job's queue is in the lister; the rest = maxRequeueNum + 1 (0: re-queue for ever) *)
  let* q := dZ in let* ops := dList dOp in
  if q <? 0 then fail else ret (mkHistory sp st pods pg (Z.odd q) (q / 2 - 1) ops).

(* what the harness observes after a step *)
Definition eObs (k : Z) (x : world * bool * bool) : list Z :=
  let '(w, err, wrote) := x in
  (* error flag: 1 = the request was re-queued, 2 = the controller gave up on it (handleJobError) *)
  [-100 - k] ++ [if err then (if q_gave (c_rq (v_ctl w)) then 2 else 1) else 0] ++ eBool wrote ++ eStatus (w_st w) ++ eStatus (v_st w) ++ ePods (w_pods w) ++
  eOpt ePgPhase (w_pg w).

Fixpoint eTrace (k : Z) (l : list (world * bool * bool)) : list Z :=
  match l with [] => [] | x :: r => eObs k x ++ eTrace (k + 1) r end.

Definition run_history (h : history) : list Z :=
  let w := init_world_m (h_maxrq h) (h_queue h) (h_spec h) (h_st h) (h_pods h) (h_pg h) in
  eTrace 1 ((w, false, false) :: trace w (h_ops h)).
