(* C05/C06 — executable model of the Volcano Job controller's reconciliation:
   pkg/controllers/job/state/ (all files) (per-phase action tables and status-update
   closures), job_controller_actions.go killPods (91-288) and syncJob (348-630),
   job_controller_util.go applyPolicies (182-284) / GetStateAction (432-444),
   job_controller.go processNextReq (337-409).

   Two views are modelled: what the API server holds (fields w_x) and what the
   controller sees through its job cache / listers (fields v_x).  The controller reads
   the v side, writes the w side; informer syncs copy w to v.  Definitions only. *)
From Coq Require Import ZArith List Bool.
Import ListNotations.
Open Scope Z_scope.

(* ---------- enumerations ---------- *)
Inductive phase := PhNone | PhPending | PhAborting | PhAborted | PhRunning | PhRestarting
                 | PhCompleting | PhCompleted | PhTerminating | PhTerminated | PhFailed.
Inductive action := ASync | AAbort | ARestartJob | ARestartTask | ARestartPod | ARestartPartition
                  | ATerminate | AComplete | AResume | AOther.
Inductive event := ENone | EAny | EPodFailed | EPodEvicted | EPodPending | EPodRunning | EUnknown
                 | ETaskCompleted | EOutOfSync | ECommandIssued | EJobUpdated | ETaskFailed.
Inductive pphase := PPending | PRunning | PSucceeded | PFailed | PUnknown.
Inductive pgphase := PgEmpty | PgPending | PgInqueue | PgRunning | PgUnknown | PgCompleted.

Scheme Equality for phase.
Scheme Equality for action.
Scheme Equality for event.
Scheme Equality for pphase.
Scheme Equality for pgphase.

Definition all_phases := [PhNone; PhPending; PhAborting; PhAborted; PhRunning; PhRestarting;
                          PhCompleting; PhCompleted; PhTerminating; PhTerminated; PhFailed].
Definition all_actions := [ASync; AAbort; ARestartJob; ARestartTask; ARestartPod; ARestartPartition;
                           ATerminate; AComplete; AResume; AOther].

(* ---------- job spec ---------- *)
Record policy := mkPolicy {
  pl_events : list event;       (* Events ++ [Event] *)
  pl_action : action;
  pl_exit : option Z;
  pl_timeout : Z }.             (* 0: no Timeout; 1: Timeout of duration 0 (acts at once); 2: a real Timeout (delayed action) *)

Record task := mkTask {
  t_name : positive;
  t_replicas : Z;
  t_min : option Z;
  t_policies : list policy;
  t_deps : option (bool * list positive) }.   (* DependsOn: (iteration = any, names) *)

Record spec := mkSpec {
  s_tasks : list task;
  s_min : Z;
  s_minsucc : option Z;
  s_maxretry : Z;
  s_policies : list policy }.

(* ---------- job status ---------- *)
Record counts := mkC { cP : Z; cR : Z; cS : Z; cF : Z; cU : Z }.
Definition c0 := mkC 0 0 0 0 0.
Definition cadd (a b : counts) :=
  mkC (cP a + cP b) (cR a + cR b) (cS a + cS b) (cF a + cF b) (cU a + cU b).
Definition cone (p : pphase) : counts :=
  match p with
  | PPending => mkC 1 0 0 0 0 | PRunning => mkC 0 1 0 0 0 | PSucceeded => mkC 0 0 1 0 0
  | PFailed => mkC 0 0 0 1 0 | PUnknown => mkC 0 0 0 0 1
  end.
Definition ctotal (c : counts) := cP c + cR c + cS c + cF c + cU c.

Record status := mkStatus {
  st_phase : phase;
  st_retry : Z;
  st_version : Z;
  st_min : Z;
  st_cnt : counts;
  st_term : Z;
  st_tsc : list (positive * counts);   (* TaskStatusCount, sorted by task, no all-zero entry *)
  st_tsc_nil : bool;                   (* the Go map is nil (matters to reflect.DeepEqual) *)
  st_rundur : bool }.                  (* RunningDuration is set (matters to reflect.DeepEqual) *)

Definition counts_eq_dec : forall a b : counts, {a = b} + {a <> b}.
Proof. decide equality; apply Z.eq_dec. Defined.
Definition status_eq_dec : forall a b : status, {a = b} + {a <> b}.
Proof.
  decide equality; try apply Bool.bool_dec; try apply Z.eq_dec; try apply counts_eq_dec;
    try apply phase_eq_dec.
  apply list_eq_dec. decide equality; [apply counts_eq_dec | apply Pos.eq_dec].
Defined.

Fixpoint tsc_add (t : positive) (c : counts) (m : list (positive * counts)) : list (positive * counts) :=
  match m with
  | [] => [(t, c)]
  | (t', c') :: r =>
      if Pos.eqb t t' then (t', cadd c' c) :: r
      else if Pos.ltb t t' then (t, c) :: m
      else (t', c') :: tsc_add t c r
  end.
Fixpoint tsc_get (t : positive) (m : list (positive * counts)) : option counts :=
  match m with
  | [] => None
  | (t', c') :: r => if Pos.eqb t t' then Some c' else tsc_get t r
  end.

(* ---------- pods ---------- *)
Record pod := mkPod { p_task : positive; p_idx : Z; p_phase : pphase; p_del : bool; p_oos : bool }.

Definition same_id (t : positive) (i : Z) (p : pod) : bool := Pos.eqb (p_task p) t && Z.eqb (p_idx p) i.
Definition id_lt (t : positive) (i : Z) (p : pod) : bool :=
  Pos.ltb t (p_task p) || (Pos.eqb t (p_task p) && Z.ltb i (p_idx p)).

Definition find_pod (t : positive) (i : Z) (l : list pod) : option pod := find (same_id t i) l.
Definition has_pod (t : positive) (i : Z) (l : list pod) : bool :=
  match find_pod t i l with Some _ => true | None => false end.

(* pods are kept sorted by (task, index): the harness sorts the same way *)
Fixpoint insert_pod (p : pod) (l : list pod) : list pod :=
  match l with
  | [] => [p]
  | q :: r => if id_lt (p_task p) (p_idx p) q then p :: l else q :: insert_pod p r
  end.
Definition update_pod (t : positive) (i : Z) (f : pod -> pod) (l : list pod) : list pod :=
  map (fun p => if same_id t i p then f p else p) l.
Definition remove_pod (t : positive) (i : Z) (l : list pod) : list pod :=
  filter (fun p => negb (same_id t i p)) l.

Definition pod_ids (l : list pod) : list (positive * Z) := map (fun p => (p_task p, p_idx p)) l.

(* the fake API server *)
Definition api_create (t : positive) (i : Z) (l : list pod) : list pod * bool (* created *) :=
  if has_pod t i l then (l, false) else (insert_pod (mkPod t i PPending false false) l, true).
Definition api_delete (t : positive) (i : Z) (l : list pod) : list pod :=
  update_pod t i (fun p => mkPod (p_task p) (p_idx p) (p_phase p) true (p_oos p)) l.
Definition api_patch_oos (t : positive) (i : Z) (l : list pod) : list pod :=
  update_pod t i (fun p => mkPod (p_task p) (p_idx p) (p_phase p) (p_del p) true) l.

(* how a pod should be counted: being deleted = terminating, else by phase *)
Definition classify (p : pod) : counts * Z :=
  if p_del p then (c0, 1) else (cone (p_phase p), 0).
Definition tally (l : list pod) : counts * Z :=
  fold_right (fun p acc => (cadd (fst (classify p)) (fst acc), snd (classify p) + snd acc)) (c0, 0) l.

(* ---------- delayed actions (policies with a timeout): job_controller.go 411-572 ---------- *)
Record dtimer := mkTimer {
  dt_id : Z;                            (* arming sequence number *)
  dt_pod : option (positive * Z);       (* req.PodName, the key of the controller's per-job map ("" = None) *)
  dt_event : event;
  dt_action : action;
  dt_task : option positive }.
Record delays := mkDelays {
  d_map : list dtimer;                  (* delayActionMap[job]: at most one entry per pod name *)
  d_queue : list (dtimer * bool);       (* every timer armed and not yet expired, oldest first; true = cancelled *)
  d_next : Z }.
Definition no_delays : delays := mkDelays [] [] 0.

(* ---------- requests ---------- *)
Record req := mkReq {
  r_event : event;
  r_action : option action;
  r_task : option positive;
  r_pod : option (positive * Z);
  r_exit : Z;
  r_version : Z;
  r_uid : Z }.     (* 0: the request names another job uid; 1: no uid; 2: this job's uid *)
Definition req_eq_dec : forall a b : req, {a = b} + {a <> b}.
Proof.
  decide equality; try apply Z.eq_dec; try apply event_eq_dec;
    try (decide equality; try apply action_eq_dec; try apply Pos.eq_dec; decide equality; try apply Z.eq_dec; apply Pos.eq_dec).
Defined.

(* the worker queue's rate limiter (handleJobError, job_controller.go 511-528): how often each
   request VALUE has been re-queued since it last succeeded; --max-requeue-num; and whether the
   step just taken ended by giving up *)
Record rqueue := mkRq {
  q_max : Z;                    (* maxRequeueNum: -1 = re-queue for ever *)
  q_cnt : list (req * Z);       (* NumRequeues per request (absent = 0) *)
  q_gave : bool }.
Definition no_rq (m : Z) : rqueue := mkRq m [] false.
Definition req_eqb (a b : req) : bool := if req_eq_dec a b then true else false.
Fixpoint rq_get (r : req) (l : list (req * Z)) : Z :=
  match l with [] => 0 | (r', n) :: t => if req_eqb r r' then n else rq_get r t end.
Definition rq_forget (r : req) (l : list (req * Z)) : list (req * Z) := filter (fun x => negb (req_eqb r (fst x))) l.
Definition rq_set (r : req) (n : Z) (l : list (req * Z)) : list (req * Z) := (r, n) :: rq_forget r l.

(* ---------- world ---------- *)
(* what else the controller's cache / listers know *)
Record ctl := mkCtl {
  c_job : bool;      (* the job cache holds the Job (else only a placeholder with pods, or nothing) *)
  c_dirty : bool;    (* the API server's job object changed since the informer last delivered it *)
  c_wdel : bool;     (* the job on the API server has a deletion timestamp *)
  c_vdel : bool;     (* ... and the cached copy shows it *)
  c_queue : bool;    (* the job's queue is in the queue lister *)
  c_delay : delays;  (* the controller's delayed actions *)
  c_rq : rqueue }.   (* the worker queue's requeue counters *)
Definition ctl_dirty (c : ctl) : ctl := mkCtl (c_job c) true (c_wdel c) (c_vdel c) (c_queue c) (c_delay c) (c_rq c).
Definition set_delay (w_ctl : ctl) (d : delays) : ctl :=
  mkCtl (c_job w_ctl) (c_dirty w_ctl) (c_wdel w_ctl) (c_vdel w_ctl) (c_queue w_ctl) d (c_rq w_ctl).
Definition ctl_rq (c : ctl) (q : rqueue) : ctl :=
  mkCtl (c_job c) (c_dirty c) (c_wdel c) (c_vdel c) (c_queue c) (c_delay c) q.

Record world := mkWorld {
  w_spec : spec;  v_spec : spec;          (* job spec: API server / job cache *)
  w_st : status;  v_st : status;          (* job status: API server / job cache *)
  w_pods : list pod;  v_pods : list pod;  (* pods: API server / job cache and pod lister *)
  w_pg : option pgphase;  v_pg : option pgphase;     (* PodGroup: API server / lister *)
  v_ctl : ctl }.

Definition set_st (w : world) (a b : status) : world :=
  mkWorld (w_spec w) (v_spec w) a b (w_pods w) (v_pods w) (w_pg w) (v_pg w) (v_ctl w).
Definition set_wpods (w : world) (l : list pod) : world :=
  mkWorld (w_spec w) (v_spec w) (w_st w) (v_st w) l (v_pods w) (w_pg w) (v_pg w) (v_ctl w).
Definition set_wpg (w : world) (g : option pgphase) : world :=
  mkWorld (w_spec w) (v_spec w) (w_st w) (v_st w) (w_pods w) (v_pods w) g (v_pg w) (v_ctl w).
(* a successful UpdateStatus: API server and (cc.cache.Update of the returned
   object, which carries the API server's current spec and deletion timestamp)
   the job cache; the informer has a new version of the job to deliver *)
Definition write (w : world) (s : status) : world :=
  mkWorld (w_spec w) (w_spec w) s s (w_pods w) (v_pods w) (w_pg w) (v_pg w)
          (mkCtl (c_job (v_ctl w)) true (c_wdel (v_ctl w)) (c_wdel (v_ctl w)) (c_queue (v_ctl w)) (c_delay (v_ctl w)) (c_rq (v_ctl w))).

(* ---------- faults ---------- *)
Inductive fault := FCreate (t : positive) (i : Z) | FDelete (t : positive) (i : Z)
                 | FPatch (t : positive) (i : Z) | FStatus (n : Z)
                 | FPgWrite (k : Z)    (* a PodGroup create/update is refused (law-only histories; ignored by this model) *)
                 | FGive (f : fault).  (* a fault of the give-up execution (handleJobError's TerminateJob), not of the request's own *)
(* the fault plan of the give-up execution: UpdateStatus indices start again at 0 *)
Definition giveup_faults (F : list fault) : list fault :=
  flat_map (fun f => match f with FGive g => [g] | _ => [] end) F.


Definition fails_create (F : list fault) (t : positive) (i : Z) : bool :=
  existsb (fun f => match f with FCreate t' i' => Pos.eqb t t' && Z.eqb i i' | _ => false end) F.
Definition fails_delete (F : list fault) (t : positive) (i : Z) : bool :=
  existsb (fun f => match f with FDelete t' i' => Pos.eqb t t' && Z.eqb i i' | _ => false end) F.
Definition fails_patch (F : list fault) (t : positive) (i : Z) : bool :=
  existsb (fun f => match f with FPatch t' i' => Pos.eqb t t' && Z.eqb i i' | _ => false end) F.
Definition fails_status (F : list fault) (n : Z) : bool :=
  existsb (fun f => match f with FStatus n' => Z.eqb n n' | _ => false end) F.

(* ---------- applyPolicies ---------- *)
Definition is_internal_event (e : event) : bool :=
  match e with EOutOfSync | ECommandIssued | EPodRunning => true | _ => false end.
Definition event_in (e : event) (l : list event) : bool := existsb (event_beq e) l.

Definition policy_hit (p : policy) (r : req) : bool :=
  (match pl_events p, r_event r with
   | [], _ => false
   | _, ENone => false
   | evs, e => (event_in e evs || event_in EAny evs) &&
               (negb (event_beq e EPodPending) || negb (Z.eqb (pl_timeout p) 0))
   end)
  || match pl_exit p with Some c => Z.eqb c (r_exit r) | None => false end.

Fixpoint first_policy (ps : list policy) (r : req) : option (action * bool) :=
  match ps with
  | [] => None
  | p :: rest => if policy_hit p r then Some (pl_action p, Z.eqb (pl_timeout p) 2) else first_policy rest r
  end.

Definition find_task (sp : spec) (t : positive) : option task :=
  find (fun ts => Pos.eqb (t_name ts) t) (s_tasks sp).

(* the action and whether it is delayed (delayAct.delay <> 0) *)
Definition apply_policies_d (sp : spec) (st : status) (r : req) : action * bool :=
  match r_action r with
  | Some a => (a, false)
  | None =>
    if is_internal_event (r_event r) then (ASync, false)
    else if Z.eqb (r_uid r) 0 then (ASync, false)
    else if Z.ltb (r_version r) (st_version st) then (ASync, false)
    else
      let joblevel := match first_policy (s_policies sp) r with Some a => a | None => (ASync, false) end in
      match r_task r with
      | Some t =>
          match find_task sp t with
          | Some ts => match first_policy (t_policies ts) r with Some a => a | None => joblevel end
          | None => joblevel
          end
      | None => joblevel
      end
  end.
Definition apply_policies (sp : spec) (st : status) (r : req) : action := fst (apply_policies_d sp st r).

(* ---------- state package : which function, which retain set, which status update ---------- *)
Inductive retain := RNone | RSoft.
Inductive kind := KSync | KKill (r : retain) | KTarget.
Inductive updfn := UNil | URestart | UTo (p : phase) | UPendingSync | URunningSync | URestarting
                 | UAlive (p : phase).

Definition is_restart_target (a : action) : bool :=
  match a with ARestartTask | ARestartPod | ARestartPartition => true | _ => false end.

Definition exec (p : phase) (a : action) : kind * updfn :=
  match p with
  | PhNone | PhPending =>                                   (* pending.go (NewState default) *)
      match a with
      | ARestartJob => (KKill RNone, URestart)
      | ARestartTask | ARestartPod | ARestartPartition => (KTarget, URestart)
      | AAbort => (KKill RSoft, UTo PhAborting)
      | AComplete => (KKill RSoft, UTo PhCompleting)
      | ATerminate => (KKill RSoft, UTo PhTerminating)
      | _ => (KSync, UPendingSync)
      end
  | PhRunning =>                                            (* running.go *)
      match a with
      | ARestartJob => (KKill RNone, URestart)
      | ARestartTask | ARestartPod | ARestartPartition => (KTarget, URestart)
      | AAbort => (KKill RSoft, UTo PhAborting)
      | ATerminate => (KKill RSoft, UTo PhTerminating)
      | AComplete => (KKill RSoft, UTo PhCompleting)
      | _ => (KSync, URunningSync)
      end
  | PhRestarting =>                                         (* restarting.go *)
      match a with
      | ASync => (KSync, URestarting)
      | ARestartTask | ARestartPod | ARestartPartition => (KTarget, URestarting)
      | _ => (KKill RNone, URestarting)
      end
  | PhAborting =>                                           (* aborting.go *)
      match a with
      | AResume => (KKill RSoft, URestart)
      | _ => (KKill RSoft, UAlive PhAborted)
      end
  | PhAborted =>                                            (* aborted.go *)
      match a with
      | AResume => (KKill RSoft, URestart)
      | _ => (KKill RSoft, UNil)
      end
  | PhCompleting => (KKill RSoft, UAlive PhCompleted)       (* completing.go *)
  | PhTerminating => (KKill RSoft, UAlive PhTerminated)     (* terminating.go *)
  | PhCompleted | PhTerminated | PhFailed => (KKill RSoft, UNil)   (* finished.go *)
  end.

Definition set_phase (s : status) (p : phase) : status :=
  mkStatus p (st_retry s) (st_version s) (st_min s) (st_cnt s) (st_term s) (st_tsc s) (st_tsc_nil s) (st_rundur s).
Definition set_phase_retry (s : status) (p : phase) (r : Z) : status :=
  mkStatus p r (st_version s) (st_min s) (st_cnt s) (st_term s) (st_tsc s) (st_tsc_nil s) (st_rundur s).
Definition set_version (s : status) (v : Z) : status :=
  mkStatus (st_phase s) (st_retry s) v (st_min s) (st_cnt s) (st_term s) (st_tsc s) (st_tsc_nil s) (st_rundur s).

Definition total_replicas (sp : spec) : Z := fold_right (fun t acc => t_replicas t + acc) 0 (s_tasks sp).
Definition total_task_min (sp : spec) : Z :=
  fold_right (fun t acc => (match t_min t with Some m => m | None => t_replicas t end) + acc) 0 (s_tasks sp).

(* running.go: some task with a minAvailable has fewer succeeded pods than that *)
Definition task_short (s : status) (t : task) : bool :=
  match t_min t with
  | None => false
  | Some m => match tsc_get (t_name t) (st_tsc s) with
              | Some c => Z.ltb (cS c) m
              | None => false
              end
  end.

Definition running_sync (sp : spec) (s : status) : status :=
  let n := total_replicas sp in
  let c := st_cnt s in
  if Z.eqb n 0 then s
  else if (match s_minsucc sp with Some m => Z.leb m (cS c) | None => false end) then set_phase s PhCompleted
  else if Z.eqb (cS c + cF c) n then
    if Z.leb (total_task_min sp) (s_min sp) && existsb (task_short s) (s_tasks sp) then set_phase s PhFailed
    else if (match s_minsucc sp with Some m => Z.ltb (cS c) m | None => false end) then set_phase s PhFailed
    else if Z.leb (s_min sp) (cS c) then set_phase s PhCompleted
    else set_phase s PhFailed
  else if Z.ltb (n - s_min sp) (cP c) then set_phase s PhPending
  else s.

Definition alive (s : status) : bool :=
  negb (Z.eqb (st_term s) 0) || negb (Z.eqb (cP (st_cnt s)) 0) || negb (Z.eqb (cR (st_cnt s)) 0).

(* sp is the spec of the job in the cache (ps.job.Job.Spec) *)
Definition apply_upd (u : updfn) (sp : spec) (s : status) : status :=
  match u with
  | UNil => s
  | URestart => set_phase_retry s PhRestarting (st_retry s + 1)
  | UTo p => set_phase s p
  | UPendingSync =>
      if Z.leb (s_min sp) (cR (st_cnt s) + cS (st_cnt s) + cF (st_cnt s)) then set_phase s PhRunning else s
  | URunningSync => running_sync sp s
  | URestarting =>
      if Z.leb (s_maxretry sp) (st_retry s) then set_phase s PhFailed
      else if Z.leb (st_min s) (total_replicas sp - st_term s) then set_phase s PhPending
      else s
  | UAlive p => if alive s then s else set_phase s p
  end.

(* ---------- killPods ---------- *)
Inductive target := TTask (t : option positive) | TPod (t : option positive) (p : option (positive * Z)) | TPartition.

Definition target_of (a : action) (r : req) : target :=
  match a with
  | ARestartTask => TTask (r_task r)
  | ARestartPod => TPod (r_task r) (r_pod r)
  | _ => TPartition   (* only reached for ARestartPartition; no task has a partition policy *)
  end.

Definition soft_retained (p : pod) : bool :=
  match p_phase p with PSucceeded | PFailed => true | _ => false end.

(* pods selected for killing, and the terminating count contributed by the selection loop *)
Definition kill_select (sp : spec) (st : status) (view : list pod) (rt : retain) (tg : option target)
  : list pod * Z :=
  match tg with
  | Some (TTask (Some t)) => (filter (fun p => Pos.eqb (p_task p) t) view, 0)
  | Some (TTask None) => ([], 0)
  | Some (TPod (Some t) (Some (t', i))) =>
      if Pos.eqb t t' then (filter (same_id t i) view, 0) else ([], 0)
  | Some (TPod _ _) => ([], 0)
  | Some TPartition => ([], 0)
  | None =>
      let last := Z.leb (s_maxretry sp - 1) (st_retry st) in
      let keep p := match rt with RSoft => soft_retained p | RNone => last && soft_retained p end in
      (filter (fun p => negb (p_del p) && negb (keep p)) view,
       Z.of_nat (length (filter p_del view)))
  end.

Definition any_fault (F : list fault) (kill : list pod) : bool :=
  existsb (fun p => fails_patch F (p_task p) (p_idx p) ||
                    (negb (p_del p) && fails_delete F (p_task p) (p_idx p))) kill.

(* API effects: patch every selected pod (unless the patch is refused), then
   delete those whose patch went through and which are not already terminating *)
Definition kill_effects (F : list fault) (kill : list pod) (api : list pod) : list pod :=
  fold_left (fun acc p =>
      let t := p_task p in let i := p_idx p in
      if fails_patch F t i then acc
      else let acc1 := api_patch_oos t i acc in
           if p_del p || fails_delete F t i then acc1 else api_delete t i acc1)
    kill api.

(* the per-task table of the live pods of a list *)
Definition tsc_of_pods (l : list pod) : list (positive * counts) :=
  fold_right (fun p m => if p_del p then m else tsc_add (p_task p) (cone (p_phase p)) m) [] l.

Definition in_kill (kill : list pod) (p : pod) : bool := existsb (same_id (p_task p) (p_idx p)) kill.

(* [fixed = true]: the code after "fix: killPods counts retained and non-target
   pods in the job status counters"; [fixed = false]: the code before it, which
   reached classifyAndAddUpPodBaseOnPhase only for pods whose deletion failed,
   i.e. never on the success path (defect F2). *)
Definition kill_pods_gen (fixed : bool) (w : world) (rt : retain) (tg : option target) (u : updfn) (F : list fault)
  : world * bool * bool (* error, status written *) :=
  if c_vdel (v_ctl w) then (w, false, false)   (* job.DeletionTimestamp != nil: "skip management process" *)
  else
  match tg with
  | Some TPartition => (w, false, false)    (* jobInfo.Partitions has no entry: "skip management process" *)
  | _ =>
    (* Job version is bumped only when job is killed -- on the cache's own object *)
    let vst := match tg with None => set_version (v_st w) (st_version (v_st w) + 1) | Some _ => v_st w end in
    let w1 := set_st w (w_st w) vst in
    let '(kill, term0) := kill_select (v_spec w) (v_st w) (v_pods w) rt tg in
    let w2 := set_wpods w1 (kill_effects F kill (w_pods w)) in
    if any_fault F kill then (w2, true, false)
    else
      (* pods that are not being killed: terminating if they have a deletion timestamp, else by phase *)
      let rest := filter (fun p => negb (in_kill kill p)) (v_pods w) in
      let cnt := if fixed then fst (tally rest) else c0 in
      let term := if fixed then Z.of_nat (length kill) + snd (tally rest) else term0 + Z.of_nat (length kill) in
      let tsc := if fixed then tsc_of_pods rest else [] in
      let s1 := mkStatus (st_phase vst) (st_retry vst) (st_version vst) (st_min vst) cnt term tsc false (st_rundur vst) in
      let s2 := apply_upd u (v_spec w) s1 in
      let s3 := mkStatus (st_phase s2) (st_retry s2) (st_version s2) (st_min s2) (st_cnt s2) (st_term s2)
                         (st_tsc s2) (st_tsc_nil s2) true in
      if fails_status F 0 then (w2, true, false)
      else
        let w3 := write w2 s3 in
        match tg with
        | None => (match v_pg w with Some _ => set_wpg w3 None | None => w3 end, false, true)
        | Some _ => (w3, false, true)
        end
  end.
Definition kill_pods := kill_pods_gen true.
Definition kill_pods_prefix := kill_pods_gen false.

(* ---------- syncJob ---------- *)
Definition pg_admitted (g : option pgphase) : bool :=
  match g with
  | Some PgEmpty | Some PgPending | None => false
  | Some _ => true
  end.

Definition in_range (t : task) (p : pod) : bool := Z.leb 0 (p_idx p) && Z.ltb (p_idx p) (t_replicas t).
Definition task_pods (t : task) (l : list pod) : list pod := filter (fun p => Pos.eqb (p_task p) (t_name t)) l.
Definition indices (n : Z) : list Z := map Z.of_nat (seq 0 (Z.to_nat n)).

(* isDependsOnPodsReady / waitDependsOnTaskMeetCondition, read from the pod lister *)
Definition dep_ready (sp : spec) (view : list pod) (d : positive) : bool :=
  match find_task sp d with
  | None => true    (* guard: dependsOn names a task of the job (the Go code would index Tasks[-1]) *)
  | Some dt =>
      let ok i := match find_pod d i view with
                  | Some p => match p_phase p with PRunning | PSucceeded => true | _ => false end
                  | None => false
                  end in
      let cnt := Z.of_nat (length (filter ok (indices (t_replicas dt)))) in
      match t_min dt with Some m => negb (Z.ltb cnt m) | None => true end
  end.
Definition deps_met (sp : spec) (view : list pod) (t : task) : bool :=
  match t_deps t with
  | None => true
  | Some (any, names) =>
      if any && Nat.ltb 1 (length names) then existsb (dep_ready sp view) names
      else forallb (dep_ready sp view) names
  end.

(* per task: replicas missing from the view / kept live pods / kept terminating / to delete *)
Definition missing (t : task) (view : list pod) : list Z :=
  filter (fun i => negb (has_pod (t_name t) i view)) (indices (t_replicas t)).
Definition kept (t : task) (view : list pod) : list pod := filter (in_range t) (task_pods t view).
Definition surplus (t : task) (view : list pod) : list pod := filter (fun p => negb (in_range t p)) (task_pods t view).

Record acc := mkAcc { a_pods : list pod; a_cnt : counts; a_term : Z; a_tsc : list (positive * counts); a_err : bool }.

(* [fixed = true]: after "fix: syncJob counts an out-of-sync pod once" a live
   out-of-sync pod is only handed to the deletion pass (and counted there as
   terminating); before, it was also counted by its phase. *)
Definition count_kept_gen (fixed : bool) (a : acc) (p : pod) : acc :=
  if p_del p then mkAcc (a_pods a) (a_cnt a) (a_term a + 1) (a_tsc a) (a_err a)
  else if fixed && p_oos p then a
  else mkAcc (a_pods a) (cadd (a_cnt a) (cone (p_phase p))) (a_term a)
             (tsc_add (p_task p) (cone (p_phase p)) (a_tsc a)) (a_err a).
Definition count_kept := count_kept_gen true.

Definition create_one (F : list fault) (t : positive) (a : acc) (i : Z) : acc :=
  if fails_create F t i then mkAcc (a_pods a) (a_cnt a) (a_term a) (a_tsc a) true
  else let '(l, created) := api_create t i (a_pods a) in
       if created then mkAcc l (cadd (a_cnt a) (cone PPending)) (a_term a) (tsc_add t (cone PPending) (a_tsc a)) (a_err a)
       else a.   (* AlreadyExists: skipped, not counted *)

Definition delete_one (F : list fault) (a : acc) (p : pod) : acc :=
  if fails_delete F (p_task p) (p_idx p) then mkAcc (a_pods a) (a_cnt a) (a_term a) (a_tsc a) true
  else mkAcc (api_delete (p_task p) (p_idx p) (a_pods a)) (a_cnt a) (a_term a + 1) (a_tsc a) (a_err a).

Definition to_delete (sp : spec) (view : list pod) : list pod :=
  flat_map (fun t => filter (fun p => negb (p_del p) && p_oos p) (kept t view) ++ surplus t view) (s_tasks sp).

Definition sync_pods_gen (fixed : bool) (sp : spec) (view api : list pod) (F : list fault) : acc :=
  (* pass 1: count the kept pods *)
  let a1 := fold_left (fun a t => fold_left (count_kept_gen fixed) (kept t view) a) (s_tasks sp)
                      (mkAcc api c0 0 [] false) in
  (* pass 2: creations *)
  let a2 := fold_left (fun a t => if deps_met sp view t then fold_left (create_one F (t_name t)) (missing t view) a else a)
                      (s_tasks sp) a1 in
  if a_err a2 then a2
  else (* pass 3: deletions *)
    fold_left (delete_one F) (to_delete sp view) a2.
Definition sync_pods := sync_pods_gen true.
Definition sync_pods_prefix := sync_pods_gen false.

(* createOrUpdatePodGroup: create when the lister has none (AlreadyExists tolerated) *)
Definition ensure_pg (w : world) : world :=
  match v_pg w, w_pg w with
  | None, None => set_wpg w (Some PgEmpty)
  | _, _ => w
  end.

(* Before "fix: initJobStatus returns a copy of the job it stored in the job
   cache" the local `job` of syncJob WAS the object just stored in the job cache,
   so the assignments to job.Status before the final UpdateStatus landed in the
   cache even when that call failed ([fixed = false]).  After the fix nothing
   reaches the cache without a successful update. *)
Definition leak (fixed : bool) (w : world) (init : bool) (s : status) : world :=
  if fixed then w else if init then set_st w (w_st w) s else w.

(* countJobPods ("fix: syncJob recounts the pods while the PodGroup is not admitted"): every pod the
   controller sees, terminating if it is being deleted, else by its phase; the per-task table is a fresh map *)
Definition recount (s : status) (view : list pod) : status :=
  mkStatus (st_phase s) (st_retry s) (st_version s) (st_min s) (fst (tally view)) (snd (tally view))
           (tsc_of_pods view) false (st_rundur s).
Definition set_tscnil (s : status) (b : bool) : status :=
  mkStatus (st_phase s) (st_retry s) (st_version s) (st_min s) (st_cnt s) (st_term s) (st_tsc s) b (st_rundur s).

(* [fixed]: see [leak]; [pgfix = false]: the code before the recount fix, which in the
   PodGroup-not-admitted branch wrote a phase change on top of whatever counters the status had *)
Definition sync_job_gen (fixed pgfix : bool) (w : world) (u : updfn) (F : list fault) : world * bool * bool :=
  let sp0 := v_spec w in   (* the spec of the job object the state closure holds (ps.job.Job) *)
  if c_vdel (v_ctl w) then (w, false, false)          (* job is terminating: skip *)
  else if negb (c_queue (v_ctl w)) then (w, true, false)   (* GetQueueInfo fails *)
  else
  (* initiateJob / initJobStatus *)
  let init := phase_beq (st_phase (v_st w)) PhNone in
  if init && fails_status F 0 then (w, true, false)
  else
    let js := if init then mkStatus PhPending (st_retry (v_st w)) (st_version (v_st w)) (s_min sp0) (st_cnt (v_st w))
                                     (st_term (v_st w)) (st_tsc (v_st w)) (st_tsc_nil (v_st w)) (st_rundur (v_st w))
              else v_st w in
    let w0 := if init then write w js else w in
    (* after initJobStatus syncJob goes on with the object UpdateStatus returned: the API server's current spec *)
    let sp := v_spec w0 in
    let nstat := if init then 1 else 0 in
    let w1 := ensure_pg w0 in
    if negb (pg_admitted (v_pg w1)) then
      let jc := if pgfix then recount js (v_pods w1) else js in
      let s' := apply_upd u sp0 jc in
      (* equality.Semantic.DeepEqual: a nil and an empty TaskStatusCount are the same *)
      if status_eq_dec (set_tscnil s' (st_tsc_nil js)) js then (w1, false, init)
      else if fails_status F nstat then (leak fixed w1 init s', true, init)
      else (write w1 s', false, true)
    else
      let a := sync_pods sp (v_pods w1) (w_pods w1) F in
      let w2 := set_wpods w1 (a_pods a) in
      if a_err a then (w2, true, init)
      else
        let ns := mkStatus (st_phase js) (st_retry js) (st_version js) (s_min sp) (a_cnt a) (a_term a) (a_tsc a) false false in
        let s' := apply_upd u sp0 ns in
        if status_eq_dec js s' then (w2, false, init)
        else if fails_status F nstat then (leak fixed w2 init s', true, init)
        else (write w2 s', false, true).
Definition sync_job := sync_job_gen true true.
Definition sync_job_prefix := sync_job_gen false true.      (* before fix 1b25f56 (cache leak) *)
Definition sync_job_pgprefix := sync_job_gen true false.    (* before the recount fix *)

(* ---------- delayed actions: cancel / arm / clean up ---------- *)
Definition key_eqb (a b : option (positive * Z)) : bool :=
  match a, b with
  | None, None => true
  | Some (t, i), Some (t', i') => Pos.eqb t t' && Z.eqb i i'
  | _, _ => false
  end.
Definition otask_eqb (a b : option positive) : bool :=
  match a, b with None, None => true | Some x, Some y => Pos.eqb x y | _, _ => false end.

(* cancel(): the timer never executes; the entry leaves the map *)
Definition cancel_timer (id : Z) (d : delays) : delays :=
  mkDelays (filter (fun t => negb (Z.eqb (dt_id t) id)) (d_map d))
           (map (fun tc => if Z.eqb (dt_id (fst tc)) id then (fst tc, true) else tc) (d_queue d))
           (d_next d).
Definition drop_delays (d : delays) : delays :=
  fold_left (fun acc t => cancel_timer (dt_id t) acc) (d_map d) d.

Definition is_pod_event (e : event) : bool :=
  match e with EPodPending | EPodRunning | EPodFailed | EPodEvicted => true | _ => false end.

(* CleanPodDelayActionsIfNeed (runs before the job is looked up in the cache) *)
Definition clean_pod_delay (d : delays) (r : req) : delays :=
  if is_pod_event (r_event r) && negb (event_beq (r_event r) EPodPending) then
    match find (fun t => key_eqb (dt_pod t) (r_pod r)) (d_map d) with
    | Some t =>
        if event_beq (dt_event t) EPodPending    (* the request's pod uid equals the stored one: same pod name *)
           || ((event_beq (dt_event t) EPodFailed || event_beq (dt_event t) EPodEvicted) && event_beq (r_event r) EPodRunning)
        then cancel_timer (dt_id t) d else d
    | None => d
    end
  else d.

(* AddDelayActionForJob: nothing happens when the pod name already has an entry with the same
   action; otherwise the entry is overwritten -- the overwritten timer keeps running and can no
   longer be cancelled *)
Definition add_delay (d : delays) (r : req) (a : action) : delays :=
  match find (fun t => key_eqb (dt_pod t) (r_pod r)) (d_map d) with
  | Some t => if action_beq (dt_action t) a then d
              else let n := mkTimer (d_next d) (r_pod r) (r_event r) a (r_task r) in
                   mkDelays (n :: filter (fun t => negb (key_eqb (dt_pod t) (r_pod r))) (d_map d))
                            (d_queue d ++ [(n, false)]) (d_next d + 1)
  | None => let n := mkTimer (d_next d) (r_pod r) (r_event r) a (r_task r) in
            mkDelays (n :: d_map d) (d_queue d ++ [(n, false)]) (d_next d + 1)
  end.

Inductive atype := TJob | TTaskA | TPodA | TPartA.
Definition action_type (a : action) : atype :=
  match a with
  | ARestartTask => TTaskA | ARestartPod => TPodA | ARestartPartition => TPartA | _ => TJob
  end.
Definition atype_eqb (x y : atype) : bool :=
  match x, y with TJob, TJob | TTaskA, TTaskA | TPodA, TPodA | TPartA, TPartA => true | _, _ => false end.
Definition is_internal_action (a : action) : bool := match a with ASync | AOther => true | _ => false end.

(* cleanupDelayActions: the entries of the same action type (and task / pod) are cancelled and forgotten *)
Definition cleanup_delays (d : delays) (a : action) (tk : option positive) (pk : option (positive * Z)) : delays :=
  fold_left (fun acc t =>
      if atype_eqb (action_type (dt_action t)) (action_type a) &&
         (match action_type a with
          | TTaskA => otask_eqb (dt_task t) tk
          | TPodA => key_eqb (dt_pod t) pk
          | _ => true
          end)
      then cancel_timer (dt_id t) acc else acc)
    (d_map d) d.

Definition with_delays (w : world) (d : delays) : world :=
  mkWorld (w_spec w) (v_spec w) (w_st w) (v_st w) (w_pods w) (v_pods w) (w_pg w) (v_pg w) (set_delay (v_ctl w) d).

(* state.NewState(jobInfo).Execute(action) on the CURRENT cache state *)
Definition execute (w : world) (a : action) (r : req) (F : list fault) : world * bool * bool :=
  match exec (st_phase (v_st w)) a with
  | (KSync, u) => sync_job w u F
  | (KKill rt, u) => kill_pods w rt None u F
  | (KTarget, u) => kill_pods w RNone (Some (target_of a r)) u F
  end.

(* ---------- processNextReq ---------- *)
Definition step_req (w : world) (r : req) (F : list fault) : world * bool * bool :=
  let w0 := with_delays w (clean_pod_delay (c_delay (v_ctl w)) r) in
  if negb (c_job (v_ctl w0)) then (w0, false, false)   (* cc.cache.Get fails ("job is not ready"): the request is dropped *)
  else
  let '(a, delayed) := apply_policies_d (v_spec w0) (v_st w0) r in
  if delayed then (with_delays w0 (add_delay (c_delay (v_ctl w0)) r a), false, false)
  else
    let '(w1, e, wr) := execute w0 a r F in
    if negb e && negb (is_internal_action a)
    then (with_delays w1 (cleanup_delays (c_delay (v_ctl w1)) a (r_task r) (r_pod r)), e, wr)
    else (w1, e, wr).

(* the oldest armed timer expires: unless it was cancelled its action is executed against the
   cache and the phase as they are NOW; then the delayed actions of its type are cleaned up,
   whether the execution failed or not *)
Definition fire (w : world) : world * bool * bool :=
  match d_queue (c_delay (v_ctl w)) with
  | [] => (w, false, false)
  | (t, cancelled) :: rest =>
      let w0 := with_delays w (mkDelays (d_map (c_delay (v_ctl w))) rest (d_next (c_delay (v_ctl w)))) in
      if cancelled then (w0, false, false)
      else if negb (c_job (v_ctl w0)) then (w0, false, false)     (* the entry stays in the map *)
      else
        let r := mkReq (dt_event t) None (dt_task t) (dt_pod t) 0 0 1 in
        let '(w1, e, wr) := execute w0 (dt_action t) r [] in
        (with_delays w1 (cleanup_delays (c_delay (v_ctl w1)) (dt_action t) (dt_task t) (dt_pod t)), false, wr)
  end.

(* ---------- the requeue budget (handleJobError) ----------
   processNextReq with its error path: an Execute that fails re-queues the request (rate limited)
   while NumRequeues(request) < maxRequeueNum or maxRequeueNum = -1; a success forgets the request;
   a request that is dropped (job not in the cache) or only arms a delayed action is neither counted
   nor forgotten.  With the budget exhausted the controller GIVES UP: it sends TerminateJobAction
   through the state object it built BEFORE the failed Execute -- the state of the phase the cache
   showed then, holding the job object and the pod view of then -- logs an error if that fails too,
   and drops the request without forgetting it. *)
Definition set_rq (w : world) (q : rqueue) : world :=
  mkWorld (w_spec w) (v_spec w) (w_st w) (v_st w) (w_pods w) (v_pods w) (w_pg w) (v_pg w) (ctl_rq (v_ctl w) q).
Definition executes (w : world) (r : req) : bool :=
  c_job (v_ctl w) && negb (snd (apply_policies_d (v_spec w) (v_st w) r)).
(* the failed Execute stored a new job object in the cache (first sync of a job: initJobStatus) and
   failed afterwards: the state object still holds the OLD object (status, spec, deletion timestamp) *)
Definition stale_view (w w1 : world) : world :=
  mkWorld (w_spec w1) (v_spec w) (w_st w1) (v_st w) (w_pods w1) (v_pods w1) (w_pg w1) (v_pg w1)
          (mkCtl (c_job (v_ctl w1)) (c_dirty (v_ctl w1)) (c_wdel (v_ctl w1)) (c_vdel (v_ctl w)) (c_queue (v_ctl w1))
                 (c_delay (v_ctl w1)) (c_rq (v_ctl w1))).
(* ... and what a failed give-up on that old object did to it never reaches the cache *)
Definition keep_view (w1 w2 : world) : world :=
  mkWorld (w_spec w2) (v_spec w1) (w_st w2) (v_st w1) (w_pods w2) (v_pods w2) (w_pg w2) (v_pg w2)
          (mkCtl (c_job (v_ctl w2)) (c_dirty (v_ctl w2)) (c_wdel (v_ctl w2)) (c_vdel (v_ctl w1)) (c_queue (v_ctl w2))
                 (c_delay (v_ctl w2)) (c_rq (v_ctl w2))).
(* ... and the POD VIEW of that state object is the JobInfo clone the failed Execute worked on:
   syncJob (PodGroup admitted) removes from the clone's maps every pod it matched with a replica
   index of the spec (what is left are the surplus pods); killPods on a task target works on the
   clone's map of that task and removes the pods whose out-of-sync patch was refused *)
Definition in_replicas (sp : spec) (p : pod) : bool :=
  match find_task sp (p_task p) with Some ts => in_range ts p | None => false end.
Definition view_after (w : world) (a : action) (r : req) (F : list fault) : list pod :=
  match exec (st_phase (v_st w)) a with
  | (KSync, _) =>
      let init := phase_beq (st_phase (v_st w)) PhNone in
      if c_vdel (v_ctl w) || negb (c_queue (v_ctl w)) || (init && fails_status F 0) || negb (pg_admitted (v_pg w))
      then v_pods w
      else filter (fun p => negb (in_replicas (if init then w_spec w else v_spec w) p)) (v_pods w)
  | (KKill _, _) => v_pods w
  | (KTarget, _) =>
      match target_of a r with
      | TTask (Some t) =>
          if c_vdel (v_ctl w) then v_pods w
          else filter (fun p => negb (Pos.eqb (p_task p) t && fails_patch F t (p_idx p))) (v_pods w)
      | _ => v_pods w
      end
  end.
Definition with_vpods (w : world) (l : list pod) : world :=
  mkWorld (w_spec w) (v_spec w) (w_st w) (v_st w) (w_pods w) l (w_pg w) (v_pg w) (v_ctl w).

(* the world the give-up execution sees *)
Definition giveup_world (w w1 : world) (wr : bool) (a : action) (r : req) (F : list fault) : world :=
  with_vpods (if wr then stale_view w w1 else w1) (view_after w a r F).
Definition give_up (w w1 : world) (wr : bool) (a : action) (r : req) (F : list fault) : world * bool * bool :=
  let '(w2, e2, wr2) := execute (giveup_world w w1 wr a r F) ATerminate r (giveup_faults F) in
  (* the cache's own pods are not touched by what happened to the clone *)
  (with_vpods (if wr && negb wr2 then keep_view w1 w2 else w2) (v_pods w1), e2, wr2).

Definition step_reqb (w : world) (r : req) (F : list fault) : world * bool * bool :=
  let q := c_rq (v_ctl w) in
  let '(w1, e, wr) := step_req w r F in
  if negb e then
    (set_rq w1 (mkRq (q_max q) (if executes w r then rq_forget r (q_cnt q) else q_cnt q) false), false, wr)
  else
    let n := rq_get r (q_cnt q) in
    if (q_max q =? -1) || (n <? q_max q) then
      (set_rq w1 (mkRq (q_max q) (rq_set r (n + 1) (q_cnt q)) false), true, wr)
    else
      let '(w2, _, wr2) := give_up w w1 wr (apply_policies (v_spec w) (v_st w) r) r F in
      (set_rq w2 (mkRq (q_max q) (q_cnt q) true), true, wr || wr2).

(* ---------- histories ---------- *)
Definition fresh_status : status := mkStatus PhNone 0 0 0 c0 0 [] true false.

Inductive op :=
| OReq (r : req) (F : list fault)
| OPodPhase (t : positive) (i : Z) (ph : pphase)     (* kubelet *)
| OPodDeleting (t : positive) (i : Z)                (* someone deletes the pod (graceful) *)
| OPodGone (t : positive) (i : Z)                    (* the pod object disappears *)
| OPgPhase (g : pgphase)                             (* scheduler *)
| OSyncJob | OSyncPods | OSyncPg                     (* informer deliveries *)
| OSetSpec (sp : spec)                               (* user updates the job spec *)
| ORestart                                           (* the controller process restarts: empty cache and listers *)
| OReplaceJob (sp : spec)                            (* the job is deleted and re-created under the same name; its old pods are still around *)
| OJobDeleting                                       (* the job gets a deletion timestamp *)
| OStaleJob                                          (* an older version of the job is delivered after a newer one *)
| OFire                                              (* the oldest pending delayed-action timer expires *)
| OResyncPod (t : positive) (i : Z) (race : bool).   (* the resync worker's syncTask for a pod queued after a failed delete;
                                                        race: the pod goes away and its delete event is handled between
                                                        the worker's GET and its cache.UpdatePod *)

Definition step (w : world) (o : op) : world * bool * bool :=
  match o with
  | OReq r F => step_reqb w r F
  | OPodPhase t i ph =>
      (set_wpods w (update_pod t i (fun p => mkPod (p_task p) (p_idx p) ph (p_del p) (p_oos p)) (w_pods w)), false, false)
  | OPodDeleting t i => (set_wpods w (api_delete t i (w_pods w)), false, false)
  | OPodGone t i => (set_wpods w (remove_pod t i (w_pods w)), false, false)
  | OPgPhase g => (match w_pg w with Some _ => set_wpg w (Some g) | None => w end, false, false)
  | OSyncJob =>
      (* addJob (cache.Add: SetJob on a placeholder keeps the pods registered before the job) /
         updateJob (ignored when the resourceVersion did not change) *)
      if c_job (v_ctl w) && negb (c_dirty (v_ctl w)) then (w, false, false)
      else (mkWorld (w_spec w) (w_spec w) (w_st w) (w_st w) (w_pods w) (v_pods w) (w_pg w) (v_pg w)
                    (mkCtl true false (c_wdel (v_ctl w)) (c_wdel (v_ctl w)) (c_queue (v_ctl w)) (c_delay (v_ctl w)) (c_rq (v_ctl w))), false, false)
  | OSyncPods => (mkWorld (w_spec w) (v_spec w) (w_st w) (v_st w) (w_pods w) (w_pods w) (w_pg w) (v_pg w) (v_ctl w), false, false)
  | OSyncPg => (mkWorld (w_spec w) (v_spec w) (w_st w) (v_st w) (w_pods w) (v_pods w) (w_pg w) (w_pg w) (v_ctl w), false, false)
  | OSetSpec sp => (mkWorld sp (v_spec w) (w_st w) (v_st w) (w_pods w) (v_pods w) (w_pg w) (v_pg w) (ctl_dirty (v_ctl w)), false, false)
  | ORestart =>
      (mkWorld (w_spec w) (v_spec w) (w_st w) (v_st w) (w_pods w) [] (w_pg w) None
               (mkCtl false true (c_wdel (v_ctl w)) false (c_queue (v_ctl w)) (drop_delays (c_delay (v_ctl w)))
                      (no_rq (q_max (c_rq (v_ctl w))))), false, false)   (* a new process: empty rate limiter *)
  | OReplaceJob sp =>
      (* deleteJob: cache.Delete drops the Job, keeps the pods; the new job has no status yet and
         its PodGroup name (job name + uid) is new *)
      (mkWorld sp (v_spec w) fresh_status (v_st w) (w_pods w) (v_pods w) None None
               (mkCtl false true false false (c_queue (v_ctl w)) (c_delay (v_ctl w))
                      (* requests that named the old job's uid are different request values from now on *)
                      (mkRq (q_max (c_rq (v_ctl w))) (filter (fun x => negb (r_uid (fst x) =? 2)) (q_cnt (c_rq (v_ctl w)))) false)), false, false)
  | OJobDeleting =>
      (mkWorld (w_spec w) (v_spec w) (w_st w) (v_st w) (w_pods w) (v_pods w) (w_pg w) (v_pg w)
               (mkCtl (c_job (v_ctl w)) true true (c_vdel (v_ctl w)) (c_queue (v_ctl w)) (c_delay (v_ctl w)) (c_rq (v_ctl w))), false, false)
  | OStaleJob => (w, false, false)   (* cache.Update refuses an older resourceVersion *)
  | OFire => fire w
  | OResyncPod t i race =>
      (* job_controller_resync.go syncTask: GET the pod; NotFound => cache.DeletePod; else cache.UpdatePod with the
         fetched object, which REFUSES a pod the job's cache does not hold ("can not find pod") *)
      match find_pod t i (w_pods w) with
      | None => (mkWorld (w_spec w) (v_spec w) (w_st w) (v_st w) (w_pods w) (remove_pod t i (v_pods w)) (w_pg w) (v_pg w) (v_ctl w), false, false)
      | Some p =>
          if race then (mkWorld (w_spec w) (v_spec w) (w_st w) (v_st w) (remove_pod t i (w_pods w)) (remove_pod t i (v_pods w))
                                (w_pg w) (v_pg w) (v_ctl w), false, false)
          else (mkWorld (w_spec w) (v_spec w) (w_st w) (v_st w) (w_pods w) (update_pod t i (fun _ => p) (v_pods w))
                        (w_pg w) (v_pg w) (v_ctl w), false, false)
      end
  end.

Definition run (w : world) (ops : list op) : world := fold_left (fun w o => fst (fst (step w o))) ops w.

(* the observations after each step, oldest first *)
Fixpoint trace (w : world) (ops : list op) : list (world * bool * bool) :=
  match ops with
  | [] => []
  | o :: r => let x := step w o in x :: trace (fst (fst x)) r
  end.

Definition init_ctl_m (maxrq : Z) (queue : bool) : ctl := mkCtl true false false false queue no_delays (no_rq maxrq).
Definition init_ctl := init_ctl_m (-1).
Definition init_world_m (maxrq : Z) (queue : bool) (sp : spec) (st : status) (pods : list pod) (pg : option pgphase) : world :=
  mkWorld sp sp st st pods pods pg pg (init_ctl_m maxrq queue).
Definition init_world_q := init_world_m (-1).
Definition init_world := init_world_q true.
