(* C05: after a successful pass of syncJob on a fresh pod view the counters it
   computes partition exactly the pods on the API server (positive part of the
   counters property, for the code after "fix: syncJob counts an out-of-sync
   pod once"). *)
From Coq Require Import ZArith List Bool Lia Permutation.
From V Require Import C05.Model C05.SyncLemmas.
Import ListNotations.
Open Scope Z_scope.

(* ---------- sums of (phase counters, terminating) ---------- *)
Definition T := (counts * Z)%type.
Definition tz : T := (c0, 0).
Definition tadd (x y : T) : T := (cadd (fst x) (fst y), snd x + snd y).
Definition one_term : T := (c0, 1).

Lemma tadd_comm : forall x y, tadd x y = tadd y x.
Proof. intros [[a b c d e] z] [[a' b' c' d' e'] z']. unfold tadd, cadd; cbn. f_equal; [f_equal|]; lia. Qed.
Lemma tadd_assoc : forall x y z, tadd x (tadd y z) = tadd (tadd x y) z.
Proof. intros [[a b c d e] z] [[a' b' c' d' e'] z'] [[a2 b2 c2 d2 e2] z2]. unfold tadd, cadd; cbn. f_equal; [f_equal|]; lia. Qed.
Lemma tadd_z_l : forall x, tadd tz x = x.
Proof. intros [[a b c d e] z]. reflexivity. Qed.
Lemma tadd_z_r : forall x, tadd x tz = x.
Proof. intros. rewrite tadd_comm. apply tadd_z_l. Qed.

Lemma T_ext : forall (a b c d e z a' b' c' d' e' z' : Z),
  a = a' -> b = b' -> c = c' -> d = d' -> e = e' -> z = z' -> (mkC a b c d e, z) = (mkC a' b' c' d' e', z').
Proof. intros; subst; reflexivity. Qed.

Fixpoint tsum {A} (h : A -> T) (l : list A) : T :=
  match l with [] => tz | x :: r => tadd (h x) (tsum h r) end.

Lemma tally_tsum : forall l, tally l = tsum classify l.
Proof.
  induction l as [|p l IH]; [reflexivity|]. cbn [tsum]. rewrite <- IH. reflexivity.
Qed.

Lemma tsum_app : forall {A} (h : A -> T) l1 l2, tsum h (l1 ++ l2) = tadd (tsum h l1) (tsum h l2).
Proof.
  induction l1 as [|x l1 IH]; intros; cbn.
  - rewrite tadd_z_l. reflexivity.
  - rewrite IH, tadd_assoc. reflexivity.
Qed.
Lemma tsum_perm : forall {A} (h : A -> T) l1 l2, Permutation l1 l2 -> tsum h l1 = tsum h l2.
Proof.
  induction 1; cbn; auto.
  - rewrite IHPermutation. reflexivity.
  - rewrite !tadd_assoc, (tadd_comm (h y) (h x)). reflexivity.
  - congruence.
Qed.
Lemma tsum_map : forall {A B} (h : B -> T) (f : A -> B) l, tsum h (map f l) = tsum (fun x => h (f x)) l.
Proof. induction l; cbn; congruence. Qed.
Lemma tsum_ext_in : forall {A} (h g : A -> T) l, (forall x, In x l -> h x = g x) -> tsum h l = tsum g l.
Proof.
  induction l as [|x l IH]; intros H; cbn; auto. rewrite H by (left; reflexivity).
  rewrite IH; auto. intros; apply H; right; assumption.
Qed.
Lemma tsum_filter : forall {A} (h : A -> T) f l, tsum h (filter f l) = tsum (fun x => if f x then h x else tz) l.
Proof.
  induction l as [|x l IH]; cbn; auto. destruct (f x); cbn; rewrite IH; auto. rewrite tadd_z_l. reflexivity.
Qed.
Lemma tsum_flat_map : forall {A B} (h : B -> T) (F : A -> list B) l,
  tsum h (flat_map F l) = tsum (fun k => tsum h (F k)) l.
Proof. induction l as [|k l IH]; cbn; auto. rewrite tsum_app, IH. reflexivity. Qed.
Lemma tsum_tadd : forall {A} (h g : A -> T) l, tsum (fun x => tadd (h x) (g x)) l = tadd (tsum h l) (tsum g l).
Proof.
  induction l as [|x l IH]; cbn.
  - rewrite tadd_z_l. reflexivity.
  - rewrite IH. rewrite !tadd_assoc. f_equal. rewrite <- !tadd_assoc. f_equal. apply tadd_comm.
Qed.
Lemma tsum_const_len : forall {A} (l : list A), tsum (fun _ => one_term) l = (c0, Z.of_nat (length l)).
Proof.
  induction l as [|x l IH]; cbn [tsum length]; auto.
  rewrite IH. unfold tadd, one_term, cadd, c0. cbn [fst snd cP cR cS cF cU].
  f_equal. lia.
Qed.

(* ---------- the three passes, on the accumulator's counters ---------- *)
Definition acc_t (a : acc) : T := (a_cnt a, a_term a).

(* what pass 1 adds for a kept pod (fixed code) *)
Definition c1 (p : pod) : T :=
  if p_del p then one_term else if p_oos p then tz else (cone (p_phase p), 0).

Lemma count_kept_t : forall a p, acc_t (count_kept_gen true a p) = tadd (acc_t a) (c1 p).
Proof.
  intros a p. unfold count_kept_gen, c1, acc_t. destruct (p_del p); cbn.
  - unfold tadd, one_term. cbn. f_equal. destruct (a_cnt a); unfold cadd, c0; cbn. f_equal; lia.
  - destruct (p_oos p); cbn.
    + rewrite tadd_z_r. reflexivity.
    + unfold tadd. cbn. f_equal. lia.
Qed.

Lemma fold_count_kept_t : forall l a, acc_t (fold_left (count_kept_gen true) l a) = tadd (acc_t a) (tsum c1 l).
Proof.
  induction l as [|p l IH]; intros a; cbn [fold_left tsum].
  - rewrite tadd_z_r. reflexivity.
  - rewrite IH, count_kept_t. rewrite tadd_assoc. reflexivity.
Qed.

Lemma pass1_t : forall view ts a,
  acc_t (fold_left (fun a t => fold_left (count_kept_gen true) (kept t view) a) ts a) =
  tadd (acc_t a) (tsum (fun k => tsum c1 (kept k view)) ts).
Proof.
  induction ts as [|k ts IH]; intros a; cbn [fold_left tsum].
  - rewrite tadd_z_r. reflexivity.
  - rewrite IH, fold_count_kept_t. rewrite tadd_assoc. reflexivity.
Qed.

(* pass 2 without faults: the new pods N, all Pending, none of them named like a pod of P *)
Definition created_ok (P : list pod) (N : list pod) : Prop :=
  Forall (fun p => ~ In (p_task p, p_idx p) (pod_ids P) /\ classify p = (cone PPending, 0)) N.

Lemma insert_pod_perm : forall p l, Permutation (insert_pod p l) (p :: l).
Proof.
  induction l as [|q l IH]; cbn; auto. destruct (id_lt (p_task p) (p_idx p) q); auto.
  eapply perm_trans; [apply perm_skip, IH|apply perm_swap].
Qed.

Lemma perm_pod_ids : forall l1 l2, Permutation l1 l2 -> Permutation (pod_ids l1) (pod_ids l2).
Proof. intros. unfold pod_ids. apply Permutation_map. assumption. Qed.


(* ---------- pass 2 ---------- *)
Lemma create_one_inv : forall P base n a j N,
  Permutation (a_pods a) (N ++ P) -> created_ok P N -> acc_t a = tadd base (tsum classify N) ->
  exists N', Permutation (a_pods (create_one [] n a j)) (N' ++ P) /\ created_ok P N' /\
             acc_t (create_one [] n a j) = tadd base (tsum classify N').
Proof.
  intros P base n a j N Hperm Hok Hacc. unfold create_one. cbn [fails_create existsb].
  unfold api_create. destruct (has_pod n j (a_pods a)) eqn:Eh.
  - exists N. auto.
  - exists (mkPod n j PPending false false :: N). cbn [a_pods]. repeat split.
    + eapply perm_trans; [apply insert_pod_perm|]. cbn. apply perm_skip. exact Hperm.
    + constructor; auto. cbn. split; [|reflexivity].
      intros Hin. apply has_pod_false_notin in Eh. apply Eh.
      apply (Permutation_in _ (Permutation_sym (perm_pod_ids _ _ Hperm))).
      unfold pod_ids. rewrite map_app. apply in_or_app. right. exact Hin.
    + unfold acc_t in *. cbn [a_cnt a_term tsum]. injection Hacc as Hc Ht.
      rewrite Hc, Ht. cbn [classify p_del p_phase]. unfold tadd. cbn [fst snd].
      destruct base as [[a0 b0 c0' d0 e0] z0]. destruct (tsum classify N) as [[a1 b1 c1' d1 e1] z1].
      unfold cadd, cone; cbn [fst snd cP cR cS cF cU]. apply T_ext; lia.
Qed.

Lemma pass2_inv : forall sp view P base ts a N,
  Permutation (a_pods a) (N ++ P) -> created_ok P N -> acc_t a = tadd base (tsum classify N) ->
  exists N', let a' := fold_left (fun a k => if deps_met sp view k
                                             then fold_left (create_one [] (t_name k)) (missing k view) a else a) ts a in
             Permutation (a_pods a') (N' ++ P) /\ created_ok P N' /\ acc_t a' = tadd base (tsum classify N').
Proof.
  intros sp view P base.
  assert (C : forall n L a N, Permutation (a_pods a) (N ++ P) -> created_ok P N -> acc_t a = tadd base (tsum classify N) ->
          exists N', Permutation (a_pods (fold_left (create_one [] n) L a)) (N' ++ P) /\ created_ok P N' /\
                     acc_t (fold_left (create_one [] n) L a) = tadd base (tsum classify N')).
  { induction L as [|j L IH]; intros a N H1 H2 H3; cbn [fold_left]; [exists N; auto|].
    destruct (create_one_inv P base n a j N H1 H2 H3) as (N1 & A & B & C0). apply (IH _ N1); auto. }
  induction ts as [|k ts IH]; intros a N H1 H2 H3; cbn [fold_left]; [exists N; auto|].
  destruct (deps_met sp view k).
  - destruct (C (t_name k) (missing k view) a N H1 H2 H3) as (N1 & A & B & C0). apply (IH _ N1); auto.
  - apply (IH a N); auto.
Qed.

(* ---------- pass 3 ---------- *)
Definition mD (D : list pod) (q : pod) : pod :=
  if existsb (same_id (p_task q) (p_idx q)) D then mark q else q.

Lemma same_id_sym : forall p q, same_id (p_task p) (p_idx p) q = same_id (p_task q) (p_idx q) p.
Proof. intros. unfold same_id. rewrite Pos.eqb_sym, Z.eqb_sym. reflexivity. Qed.

Lemma pass3_map : forall D a,
  a_pods (fold_left (delete_one []) D a) = map (mD D) (a_pods a) /\
  acc_t (fold_left (delete_one []) D a) = tadd (acc_t a) (tsum (fun _ => one_term) D).
Proof.
  induction D as [|d D IH]; intros a; cbn [fold_left tsum].
  - split; [|rewrite tadd_z_r; reflexivity]. unfold mD. cbn. rewrite map_id. reflexivity.
  - destruct (IH (delete_one [] a d)) as [A B]. rewrite A, B. unfold delete_one. cbn [fails_delete existsb a_pods].
    split.
    + unfold api_delete, update_pod. rewrite map_map. apply map_ext. intros q. unfold mD. cbn [existsb].
      rewrite (same_id_sym q d). destruct (same_id (p_task d) (p_idx d) q); cbn [orb p_task p_idx mark].
      * destruct (existsb _ D); reflexivity.
      * reflexivity.
    + unfold acc_t. cbn [a_cnt a_term]. unfold tadd, one_term. cbn [fst snd].
      destruct (tsum (fun _ : pod => (c0, 1)) D) as [[a1 b1 c1' d1 e1] z1]. destruct (a_cnt a) as [a0 b0 c0' d0 e0].
      unfold cadd, c0; cbn [fst snd cP cR cS cF cU]. apply T_ext; lia.
Qed.

(* ---------- per task ---------- *)
Definition hk (k : task) (p : pod) : T :=
  if in_range k p then (if p_del p then one_term else if p_oos p then one_term else (cone (p_phase p), 0))
  else one_term.

Lemma per_task : forall k P,
  tadd (tsum c1 (kept k P))
       (tsum (fun _ => one_term) (filter (fun p => negb (p_del p) && p_oos p) (kept k P) ++ surplus k P)) =
  tsum (hk k) (task_pods k P).
Proof.
  intros k P. unfold kept, surplus. set (L := task_pods k P).
  rewrite tsum_app, !tsum_filter, <- !tsum_tadd. apply tsum_ext_in. intros p _.
  unfold hk, c1. destruct (in_range k p); cbn [negb].
  - destruct (p_del p); cbn [negb andb].
    + rewrite !tadd_z_r. reflexivity.
    + destruct (p_oos p); rewrite ?tadd_z_r, ?tadd_z_l; reflexivity.
  - rewrite !tadd_z_l. reflexivity.
Qed.

(* ---------- every pod belongs to exactly one task ---------- *)
Lemma tsum_tz : forall {A} (l : list A), tsum (fun _ => tz) l = tz.
Proof. induction l; cbn; auto. rewrite IHl. reflexivity. Qed.

Lemma tsum_unique : forall (H : task -> T) ts k0 t,
  NoDup (map t_name ts) -> In k0 ts -> t_name k0 = t ->
  tsum (fun k => if Pos.eqb t (t_name k) then H k else tz) ts = H k0.
Proof.
  induction ts as [|x ts IH]; intros k0 t Hnd Hin Hn; [destruct Hin|].
  cbn in Hnd. inversion Hnd as [|? ? Hnot Hnd']; subst. cbn [tsum]. destruct Hin as [->|Hin].
  - rewrite Pos.eqb_refl.
    rewrite (tsum_ext_in _ (fun _ => tz)); [rewrite tsum_tz, tadd_z_r; reflexivity|].
    intros k Hk. destruct (Pos.eqb (t_name k0) (t_name k)) eqn:E; auto.
    apply Pos.eqb_eq in E. exfalso. apply Hnot. rewrite E. apply in_map. exact Hk.
  - destruct (Pos.eqb (t_name k0) (t_name x)) eqn:E.
    + apply Pos.eqb_eq in E. exfalso. apply Hnot. rewrite <- E. apply in_map. exact Hin.
    + rewrite tadd_z_l. apply IH; auto.
Qed.

Lemma tsum_partition : forall (H : task -> pod -> T) (g : pod -> T) ts P,
  NoDup (map t_name ts) ->
  (forall p, In p P -> exists k, In k ts /\ t_name k = p_task p) ->
  (forall k p, In k ts -> In p P -> t_name k = p_task p -> H k p = g p) ->
  tsum (fun k => tsum (H k) (task_pods k P)) ts = tsum g P.
Proof.
  intros H g ts P Hnd. induction P as [|p P IH]; intros Hex Hg.
  - cbn. apply tsum_tz.
  - cbn [tsum]. rewrite <- IH; [|intros; apply Hex; right; assumption|intros; apply Hg; auto; right; assumption].
    destruct (Hex p (or_introl eq_refl)) as (k0 & Hk0 & Hn0).
    rewrite <- (Hg k0 p Hk0 (or_introl eq_refl) Hn0).
    rewrite <- (tsum_unique (fun k => H k p) ts k0 (p_task p) Hnd Hk0 Hn0).
    rewrite <- tsum_tadd. apply tsum_ext_in. intros k _. unfold task_pods. cbn [filter].
    destruct (Pos.eqb (p_task p) (t_name k)); cbn [tsum]; [reflexivity|rewrite tadd_z_l; reflexivity].
Qed.

Lemma doomed_unique : forall sp p k,
  NoDup (map t_name (s_tasks sp)) -> In k (s_tasks sp) -> t_name k = p_task p ->
  doomed sp p = negb (in_range k p) || (negb (p_del p) && p_oos p).
Proof.
  intros sp p k. unfold doomed. induction (s_tasks sp) as [|x ts IH]; intros Hnd Hin Hn; [destruct Hin|].
  cbn in Hnd. inversion Hnd as [|? ? Hnot Hnd']; subst. cbn [existsb]. destruct Hin as [->|Hin].
  - rewrite Hn, Pos.eqb_refl. cbn [andb].
    assert (E : existsb (fun k0 => Pos.eqb (p_task p) (t_name k0) && (negb (in_range k0 p) || negb (p_del p) && p_oos p)) ts = false).
    { destruct (existsb _ ts) eqn:E; auto. exfalso. apply existsb_exists in E. destruct E as (k' & Hk' & Hc).
      apply andb_true_iff in Hc. destruct Hc as [Hc _]. apply Pos.eqb_eq in Hc. apply Hnot.
      rewrite Hn, Hc. apply in_map. exact Hk'. }
    rewrite E, orb_false_r. reflexivity.
  - destruct (Pos.eqb (p_task p) (t_name x)) eqn:E.
    + apply Pos.eqb_eq in E. exfalso. apply Hnot. rewrite <- E, <- Hn. apply in_map. exact Hin.
    + cbn [andb orb]. apply IH; auto.
Qed.

(* ---------- the theorem ---------- *)
Theorem sync_counters_partition : forall sp P,
  NoDup (map t_name (s_tasks sp)) -> NoDup (pod_ids P) ->
  (forall p, In p P -> exists k, In k (s_tasks sp) /\ t_name k = p_task p) ->
  let a := sync_pods sp P P [] in
  a_err a = false /\ (a_cnt a, a_term a) = tally (a_pods a).
Proof.
  intros sp P Hts Hnd Hown a.
  assert (Herr : a_err a = false) by (apply (sync_exact_pods true sp P Hnd)).
  split; auto. revert Herr. unfold a, sync_pods, sync_pods_gen.
  set (a1 := fold_left (fun a t => fold_left (count_kept_gen true) (kept t P) a) (s_tasks sp) (mkAcc P c0 0 [] false)).
  destruct (pass1_pods true P (s_tasks sp) (mkAcc P c0 0 [] false)) as [Hp1 He1]. fold a1 in Hp1, He1. cbn in Hp1, He1.
  pose proof (pass1_t P (s_tasks sp) (mkAcc P c0 0 [] false)) as Ht1. fold a1 in Ht1.
  change (acc_t (mkAcc P c0 0 [] false)) with tz in Ht1. rewrite tadd_z_l in Ht1.
  set (base := tsum (fun k => tsum c1 (kept k P)) (s_tasks sp)) in *.
  destruct (pass2_inv sp P P base (s_tasks sp) a1 []) as (N & Hperm & Hok & Hacc2).
  { rewrite Hp1. cbn. apply Permutation_refl. }
  { constructor. }
  { rewrite Ht1. cbn. rewrite tadd_z_r. reflexivity. }
  cbv zeta in Hperm, Hacc2.
  set (a2 := fold_left (fun a k => if deps_met sp P k then fold_left (create_one [] (t_name k)) (missing k P) a else a)
                       (s_tasks sp) a1) in *.
  assert (Ee : a_err a2 = false) by (unfold a2; rewrite pass2_err_nofault; exact He1).
  rewrite Ee. intros _.
  destruct (pass3_map (to_delete sp P) a2) as [Hp3 Ht3].
  change (a_cnt ?x, a_term ?x) with (acc_t x). rewrite Ht3, Hp3, Hacc2.
  rewrite tally_tsum, tsum_map, (tsum_perm _ _ _ Hperm), tsum_app.
  (* the new pods are not touched by the deletions *)
  assert (HN : tsum (fun x => classify (mD (to_delete sp P) x)) N = tsum classify N).
  { apply tsum_ext_in. intros p Hp. unfold mD.
    destruct (existsb (same_id (p_task p) (p_idx p)) (to_delete sp P)) eqn:E; auto. exfalso.
    apply existsb_exists in E. destruct E as (d & Hd & Hs). apply in_to_delete in Hd. destruct Hd as [Hd _].
    apply same_id_true in Hs. destruct Hs as [A B].
    unfold created_ok in Hok. rewrite Forall_forall in Hok. destruct (Hok p Hp) as [Hnot _]. apply Hnot.
    unfold pod_ids. apply in_map_iff. exists d. split; auto. congruence. }
  rewrite HN.
  (* the pods that existed *)
  assert (HP : tadd base (tsum (fun _ => one_term) (to_delete sp P)) =
               tsum (fun x => classify (mD (to_delete sp P) x)) P).
  { unfold base, to_delete. rewrite tsum_flat_map, <- tsum_tadd.
    rewrite (tsum_ext_in _ (fun k => tsum (hk k) (task_pods k P))) by (intros k _; apply per_task).
    apply tsum_partition; auto. intros k p Hk Hp Hn.
    unfold mD. fold (to_delete sp P). rewrite (targeted_doomed sp P _ _ Hnd), (find_unique P p Hnd Hp).
    rewrite (doomed_unique sp p k Hts Hk Hn). unfold hk, classify.
    destruct (in_range k p); cbn [negb orb].
    - destruct (p_del p) eqn:Ed; cbn [negb andb]; [rewrite Ed; reflexivity|].
      destruct (p_oos p); cbn [mark p_del]; [reflexivity|rewrite Ed; reflexivity].
    - reflexivity. }
  rewrite <- HP. rewrite (tadd_comm base (tsum classify N)), <- tadd_assoc. reflexivity.
Qed.

(* ---------- on the world: a successful syncJob with an admitted PodGroup and a fresh pod view ---------- *)
From V Require Import C05.Laws C05.Lemmas.

Theorem counters_partition_sync : forall w u w' wr,
  sync_job w u [] = (w', false, wr) ->
  c_vdel (v_ctl w) = false ->
  pg_admitted (v_pg w) = true -> st_phase (v_st w) <> PhNone ->
  v_pods w = w_pods w -> v_st w = w_st w ->
  NoDup (map t_name (s_tasks (v_spec w))) -> NoDup (pod_ids (w_pods w)) ->
  (forall p, In p (w_pods w) -> exists k, In k (s_tasks (v_spec w)) /\ t_name k = p_task p) ->
  (st_cnt (w_st w'), st_term (w_st w')) = tally (w_pods w').
Proof.
  intros w u w' wr H Hdel Hpg Hph Hfresh Hst Hts Hnd Hown.
  destruct (sync_counters_partition (v_spec w) (w_pods w) Hts Hnd Hown) as [Herr Hpart]. cbv zeta in Herr, Hpart.
  unfold sync_job, sync_job_gen in H. rewrite Hdel in H.
  destruct (c_queue (v_ctl w)); cbn [negb] in H; [|discriminate].
  destruct (phase_beq (st_phase (v_st w)) PhNone) eqn:Ei.
  { apply phase_beq_true in Ei. contradiction. }
  cbn [andb] in H. rewrite pj7, Hpg in H. cbn [negb] in H. rewrite pj6, pj5, Hfresh in H.
  set (a := sync_pods (v_spec w) (w_pods w) (w_pods w) []) in *. rewrite Herr in H.
  match type of H with context [status_eq_dec ?x ?y] => destruct (status_eq_dec x y) as [Heq|Hne] end.
  - inversion H; subst. fin. rewrite <- Hst, Heq, apply_upd_cnt, apply_upd_term. cbn. exact Hpart.
  - cbn [fails_status existsb] in H. inversion H; subst. fin. rewrite apply_upd_cnt, apply_upd_term. cbn. exact Hpart.
Qed.

Example counters_partition_sync_nonvacuous :
  let sp := mkSpec [mkTask 1 2 (Some 1) [] None; mkTask 2 1 None [] None] 2 None 3 [] in
  let pods := [mkPod 1 0 PSucceeded false false; mkPod 1 1 PRunning false true; mkPod 1 2 PRunning false false;
               mkPod 2 0 PFailed true false] in
  let w := init_world sp (mkStatus PhRunning 0 0 2 c0 0 [] false false) pods (Some PgRunning) in
  NoDup (map t_name (s_tasks sp)) /\ NoDup (pod_ids pods) /\
  (forall p, In p pods -> exists k, In k (s_tasks sp) /\ t_name k = p_task p) /\
  exists w', sync_job w URunningSync [] = (w', false, true) /\
             st_cnt (w_st w') = mkC 0 0 1 0 0 /\ st_term (w_st w') = 3 /\ length (w_pods w') = 4%nat.
Proof.
  cbv zeta. split; [repeat constructor; cbn; intuition congruence|].
  split; [repeat constructor; cbn; intuition congruence|].
  split.
  - intros p Hp. cbn in Hp.
    repeat (destruct Hp as [<-|Hp]; [cbn; eauto 6|]). destruct Hp.
  - eexists. split; [vm_compute; reflexivity|]. repeat split.
Qed.

(* ---------- the (fixed) killPods path ---------- *)
(* what the patch-then-delete of pod p does to an element q of the API server's list *)
Definition hkill (p q : pod) : pod :=
  let q1 := if same_id (p_task p) (p_idx p) q then mkPod (p_task q) (p_idx q) (p_phase q) (p_del q) true else q in
  if p_del p then q1
  else if same_id (p_task p) (p_idx p) q1 then mkPod (p_task q1) (p_idx q1) (p_phase q1) true (p_oos q1) else q1.
Definition kfun (kill : list pod) (q : pod) : pod := fold_left (fun q p => hkill p q) kill q.

Lemma kill_effects_map : forall kill api, kill_effects [] kill api = map (kfun kill) api.
Proof.
  unfold kill_effects. induction kill as [|p kill IH]; intros api; cbn [fold_left].
  - unfold kfun. cbn. rewrite map_id. reflexivity.
  - rewrite IH. cbn [fails_patch fails_delete existsb]. rewrite orb_false_r.
    unfold kfun at 2. cbn [fold_left]. fold (kfun kill).
    destruct (p_del p) eqn:Ed.
    + unfold api_patch_oos, update_pod. rewrite map_map. apply map_ext. intros q. unfold hkill. rewrite Ed. reflexivity.
    + unfold api_delete, api_patch_oos, update_pod. rewrite !map_map. apply map_ext. intros q. unfold hkill. rewrite Ed. reflexivity.
Qed.

Lemma hkill_id : forall p q, p_task (hkill p q) = p_task q /\ p_idx (hkill p q) = p_idx q.
Proof.
  intros. unfold hkill. destruct (same_id (p_task p) (p_idx p) q); destruct (p_del p); cbn;
    try (split; reflexivity); match goal with |- context [if ?c then _ else _] => destruct c end; split; reflexivity.
Qed.
Lemma hkill_del_mono : forall p q, p_del q = true -> p_del (hkill p q) = true.
Proof.
  intros p q H. unfold hkill. destruct (same_id (p_task p) (p_idx p) q); destruct (p_del p); cbn; auto;
    match goal with |- context [if ?c then _ else _] => destruct c end; cbn; auto.
Qed.
Lemma hkill_other : forall p q, same_id (p_task p) (p_idx p) q = false -> hkill p q = q.
Proof. intros p q H. unfold hkill. rewrite H. destruct (p_del p); auto. rewrite H. reflexivity. Qed.
Lemma hkill_self : forall p q, same_id (p_task p) (p_idx p) q = true -> (p_del p = true -> p_del q = true) ->
  p_del (hkill p q) = true.
Proof.
  intros p q H E. destruct (p_del p) eqn:Ed.
  - apply hkill_del_mono. auto.
  - unfold hkill. rewrite H, Ed. unfold same_id in *. cbn. rewrite H. reflexivity.
Qed.

Lemma kfun_id : forall kill q, p_task (kfun kill q) = p_task q /\ p_idx (kfun kill q) = p_idx q.
Proof.
  unfold kfun. induction kill as [|p kill IH]; intros q; cbn [fold_left]; auto.
  destruct (IH (hkill p q)) as [A B]. destruct (hkill_id p q) as [C D]. split; congruence.
Qed.
Lemma kfun_del_mono : forall kill q, p_del q = true -> p_del (kfun kill q) = true.
Proof.
  unfold kfun. induction kill as [|p kill IH]; intros q H; cbn [fold_left]; auto. apply IH, hkill_del_mono, H.
Qed.
Lemma kfun_other : forall kill q, in_kill kill q = false -> kfun kill q = q.
Proof.
  unfold kfun, in_kill. induction kill as [|p kill IH]; intros q H; cbn [fold_left]; auto.
  cbn [existsb] in H. apply orb_false_iff in H. destruct H as [H1 H2].
  rewrite hkill_other by (rewrite same_id_sym; exact H1). apply IH; exact H2.
Qed.
Lemma kfun_member_gen : forall kill q q',
  In q kill -> p_task q' = p_task q -> p_idx q' = p_idx q -> (p_del q = true -> p_del q' = true) ->
  p_del (kfun kill q') = true.
Proof.
  unfold kfun. induction kill as [|p kill IH]; intros q q' Hin Ht Hi Hd; [destruct Hin|]. cbn [fold_left].
  destruct Hin as [->|Hin].
  - apply kfun_del_mono. apply hkill_self; auto.
    unfold same_id. rewrite Ht, Hi, Pos.eqb_refl, Z.eqb_refl. reflexivity.
  - destruct (hkill_id p q') as [A B]. apply (IH q); auto; try congruence.
    intros E. apply hkill_del_mono. auto.
Qed.
Lemma kfun_member : forall kill q, In q kill -> p_del (kfun kill q) = true.
Proof. intros. apply (kfun_member_gen kill q q); auto. Qed.

Lemma filter_false : forall {A} (l : list A), filter (fun _ => false) l = [].
Proof. induction l; cbn; auto. Qed.

Lemma kill_select_filter : forall sp st view rt tg,
  exists g, fst (kill_select sp st view rt tg) = filter g view.
Proof.
  intros sp st view rt tg. unfold kill_select.
  destruct tg as [[[t|]|[t|] [[t' i]|]|]|]; cbn [fst];
    try (exists (fun _ => false); rewrite filter_false; reflexivity);
    try (eexists; reflexivity).
  destruct (Pos.eqb t t'); cbn [fst]; [eexists; reflexivity|exists (fun _ => false); rewrite filter_false; reflexivity].
Qed.

Lemma any_fault_nil : forall kill, any_fault [] kill = false.
Proof. unfold any_fault. induction kill as [|p kill IH]; cbn; auto. rewrite andb_false_r. exact IH. Qed.

Lemma in_kill_filter : forall g P q, NoDup (pod_ids P) -> In q P -> in_kill (filter g P) q = g q.
Proof.
  intros g P q Hnd Hin. unfold in_kill. destruct (g q) eqn:Eg.
  - apply existsb_exists. exists q. split; [apply filter_In; auto|].
    unfold same_id. rewrite Pos.eqb_refl, Z.eqb_refl. reflexivity.
  - destruct (existsb _ (filter g P)) eqn:E; auto. exfalso.
    apply existsb_exists in E. destruct E as (p & Hp & Hs). apply filter_In in Hp. destruct Hp as [Hp Hg].
    apply same_id_true in Hs. destruct Hs as [A B].
    pose proof (find_unique P p Hnd Hp) as F1. pose proof (find_unique P q Hnd Hin) as F2.
    rewrite A, B in F1. rewrite F1 in F2. inversion F2; subst. congruence.
Qed.

Lemma tsum_split : forall {A} (h : A -> T) (g : A -> bool) l,
  tsum (fun x => if g x then one_term else h x) l =
  tadd (tsum (fun _ => one_term) (filter g l)) (tsum h (filter (fun x => negb (g x)) l)).
Proof.
  intros. rewrite !tsum_filter, <- tsum_tadd. apply tsum_ext_in. intros x _.
  destruct (g x); cbn [negb]; [rewrite tadd_z_r|rewrite tadd_z_l]; reflexivity.
Qed.

Lemma kill_pods_success_shape : forall w rt tg u w',
  kill_pods w rt tg u [] = (w', false, true) ->
  exists kill, (exists g, kill = filter g (v_pods w)) /\
    w_pods w' = kill_effects [] kill (w_pods w) /\
    let rest := filter (fun p => negb (in_kill kill p)) (v_pods w) in
    st_cnt (w_st w') = fst (tally rest) /\ st_term (w_st w') = Z.of_nat (length kill) + snd (tally rest).
Proof.
  intros w rt tg u w' H. unfold kill_pods, kill_pods_gen in H.
  destruct (c_vdel (v_ctl w)); [inversion H|].
  destruct tg as [[t|t p|]|].
  all: try (destruct (kill_select _ _ _ _ _) as [kill term0] eqn:Hsel;
            rewrite any_fault_nil in H; cbn [fails_status existsb] in H).
  all: try (inversion H; fail).
  all: exists kill; split;
    [match type of Hsel with kill_select ?a ?b ?c ?d ?e = _ =>
       destruct (kill_select_filter a b c d e) as [g Hg]; rewrite Hsel in Hg; exists g; exact Hg end|].
  all: inversion H; subst; clear H.
  all: try match goal with |- context [match ?g with Some _ => _ | None => _ end] => destruct g end.
  all: cbn; rewrite apply_upd_cnt, apply_upd_term; cbn; auto.
Qed.

(* every successful kill (job, task or pod target; any retain rule; any update
   function) with a fresh pod view: the written counters partition the pods *)
Theorem kill_counters_partition : forall w rt tg u w',
  kill_pods w rt tg u [] = (w', false, true) ->
  v_pods w = w_pods w -> NoDup (pod_ids (w_pods w)) ->
  (st_cnt (w_st w'), st_term (w_st w')) = tally (w_pods w').
Proof.
  intros w rt tg u w' H Hfresh Hnd.
  destruct (kill_pods_success_shape w rt tg u w' H) as (kill & (g & Hg) & Hp & Hc & Ht).
  rewrite Hfresh in *. set (P := w_pods w) in *.
  rewrite Hc, Ht, Hp, kill_effects_map, (tally_tsum (map (kfun kill) P)), tsum_map.
  rewrite (tsum_ext_in _ (fun q => if g q then one_term else classify q)).
  - rewrite tsum_split, tsum_const_len, <- Hg.
    assert (Er : filter (fun p => negb (in_kill kill p)) P = filter (fun x => negb (g x)) P).
    { apply filter_ext_in. intros q Hq. rewrite Hg, (in_kill_filter g P q Hnd Hq). reflexivity. }
    rewrite Er, <- tally_tsum. destruct (tally (filter (fun x => negb (g x)) P)) as [[a b c d e] z].
    unfold tadd, cadd, c0. cbn [fst snd cP cR cS cF cU]. apply T_ext; lia.
  - intros q Hq. pose proof (in_kill_filter g P q Hnd Hq) as Ek. rewrite <- Hg in Ek.
    destruct (g q) eqn:Eg.
    + unfold classify. rewrite kfun_member; auto. rewrite Hg. apply filter_In. auto.
    + rewrite kfun_other by exact Ek. reflexivity.
Qed.

(* ---------- FULL strength: every path, every written status ---------- *)
Definition owned (sp : spec) (P : list pod) : Prop :=
  forall p, In p P -> exists k, In k (s_tasks sp) /\ t_name k = p_task p.

Lemma sync_pods_nofault_noerr : forall fixed sp view api, a_err (sync_pods_gen fixed sp view api []) = false.
Proof.
  intros. unfold sync_pods_gen.
  destruct (pass1_pods fixed view (s_tasks sp) (mkAcc api c0 0 [] false)) as [_ He1]. cbn in He1.
  match goal with |- context [if a_err ?x then _ else _] => set (a2 := x) end.
  assert (Ee : a_err a2 = false) by (unfold a2; rewrite pass2_err_nofault; exact He1).
  rewrite Ee. rewrite delete_fold_err_nofault. exact Ee.
Qed.

(* syncJob, all four cases (job without a phase or not, PodGroup admitted or not) *)
Theorem sync_job_counters_partition : forall w u w' wr,
  sync_job w u [] = (w', false, wr) -> wr = true \/ c_vdel (v_ctl w) = false ->
  v_pods w = w_pods w -> v_st w = w_st w -> v_spec w = w_spec w ->
  NoDup (map t_name (s_tasks (v_spec w))) -> NoDup (pod_ids (w_pods w)) -> owned (v_spec w) (w_pods w) ->
  (st_cnt (w_st w'), st_term (w_st w')) = tally (w_pods w').
Proof.
  intros w u w' wr H Hwr Hfresh Hst Hspec Hts Hnd Hown.
  destruct (sync_counters_partition (v_spec w) (w_pods w) Hts Hnd Hown) as [Herr Hpart]. cbv zeta in Herr, Hpart.
  unfold sync_job, sync_job_gen in H.
  destruct (c_vdel (v_ctl w)) eqn:Edel.
  { inversion H; subst. destruct Hwr; discriminate. }
  destruct (c_queue (v_ctl w)); cbn [negb] in H; [|discriminate].
  cbn [fails_status existsb andb] in H. rewrite andb_false_r in H.
  destruct (phase_beq (st_phase (v_st w)) PhNone) eqn:Ei.
  - (* first sync of a job without a phase: the initial status is written first *)
    set (js := mkStatus PhPending _ _ _ _ _ _ _ _) in *.
    rewrite pj7, pj6, pj5 in H. cbn [write v_pg v_pods w_pods v_spec] in H. rewrite <- Hspec, Hfresh in H.
    destruct (pg_admitted (v_pg w)); cbn [negb] in H.
    + set (a := sync_pods (v_spec w) (w_pods w) (w_pods w) []) in *. rewrite Herr in H.
      match type of H with context [status_eq_dec ?x ?y] => destruct (status_eq_dec x y) as [Heq|Hne] end.
      * inversion H; subst. fin. rewrite Heq, apply_upd_cnt, apply_upd_term. cbn. exact Hpart.
      * inversion H; subst. fin. rewrite apply_upd_cnt, apply_upd_term. cbn. exact Hpart.
    + match type of H with context [status_eq_dec ?x ?y] => destruct (status_eq_dec x y) as [Heq|Hne] end.
      * inversion H; subst. fin. rewrite <- Heq. cbn [set_tscnil st_cnt st_term].
        rewrite apply_upd_cnt, apply_upd_term. cbn. destruct (tally (w_pods w)); reflexivity.
      * inversion H; subst. fin. rewrite apply_upd_cnt, apply_upd_term. cbn. destruct (tally (w_pods w)); reflexivity.
  - rewrite pj7, pj6, pj5, Hfresh in H.
    destruct (pg_admitted (v_pg w)); cbn [negb] in H.
    + set (a := sync_pods (v_spec w) (w_pods w) (w_pods w) []) in *. rewrite Herr in H.
      match type of H with context [status_eq_dec ?x ?y] => destruct (status_eq_dec x y) as [Heq|Hne] end.
      * inversion H; subst. fin. rewrite <- Hst, Heq, apply_upd_cnt, apply_upd_term. cbn. exact Hpart.
      * inversion H; subst. fin. rewrite apply_upd_cnt, apply_upd_term. cbn. exact Hpart.
    + match type of H with context [status_eq_dec ?x ?y] => destruct (status_eq_dec x y) as [Heq|Hne] end.
      * inversion H; subst. fin. rewrite <- Hst, <- Heq. cbn [set_tscnil st_cnt st_term].
        rewrite apply_upd_cnt, apply_upd_term. cbn. destruct (tally (w_pods w)); reflexivity.
      * inversion H; subst. fin. rewrite apply_upd_cnt, apply_upd_term. cbn. destruct (tally (w_pods w)); reflexivity.
Qed.

(* the same for a sync that WROTE a status, without assuming that the cached status equals the API server's
   (second audit N2: after a failed job-level kill the cached version is ahead and no delivery repairs that) *)
Theorem sync_job_written_partition : forall w u w',
  sync_job w u [] = (w', false, true) ->
  v_pods w = w_pods w -> v_spec w = w_spec w ->
  NoDup (map t_name (s_tasks (v_spec w))) -> NoDup (pod_ids (w_pods w)) -> owned (v_spec w) (w_pods w) ->
  (st_cnt (w_st w'), st_term (w_st w')) = tally (w_pods w').
Proof.
  intros w u w' H Hfresh Hspec Hts Hnd Hown.
  destruct (sync_counters_partition (v_spec w) (w_pods w) Hts Hnd Hown) as [Herr Hpart]. cbv zeta in Herr, Hpart.
  unfold sync_job, sync_job_gen in H.
  destruct (c_vdel (v_ctl w)) eqn:Edel.
  { discriminate. }
  destruct (c_queue (v_ctl w)); cbn [negb] in H; [|discriminate].
  cbn [fails_status existsb andb] in H. rewrite andb_false_r in H.
  destruct (phase_beq (st_phase (v_st w)) PhNone) eqn:Ei.
  - (* first sync of a job without a phase: the initial status is written first *)
    set (js := mkStatus PhPending _ _ _ _ _ _ _ _) in *.
    rewrite pj7, pj6, pj5 in H. cbn [write v_pg v_pods w_pods v_spec] in H. rewrite <- Hspec, Hfresh in H.
    destruct (pg_admitted (v_pg w)); cbn [negb] in H.
    + set (a := sync_pods (v_spec w) (w_pods w) (w_pods w) []) in *. rewrite Herr in H.
      match type of H with context [status_eq_dec ?x ?y] => destruct (status_eq_dec x y) as [Heq|Hne] end.
      * inversion H; subst. fin. rewrite Heq, apply_upd_cnt, apply_upd_term. cbn. exact Hpart.
      * inversion H; subst. fin. rewrite apply_upd_cnt, apply_upd_term. cbn. exact Hpart.
    + match type of H with context [status_eq_dec ?x ?y] => destruct (status_eq_dec x y) as [Heq|Hne] end.
      * inversion H; subst. fin. rewrite <- Heq. cbn [set_tscnil st_cnt st_term].
        rewrite apply_upd_cnt, apply_upd_term. cbn. destruct (tally (w_pods w)); reflexivity.
      * inversion H; subst. fin. rewrite apply_upd_cnt, apply_upd_term. cbn. destruct (tally (w_pods w)); reflexivity.
  - rewrite pj7, pj6, pj5, Hfresh in H.
    destruct (pg_admitted (v_pg w)); cbn [negb] in H.
    + set (a := sync_pods (v_spec w) (w_pods w) (w_pods w) []) in *. rewrite Herr in H.
      match type of H with context [status_eq_dec ?x ?y] => destruct (status_eq_dec x y) as [Heq|Hne] end.
      * discriminate.
      * inversion H; subst. fin. rewrite apply_upd_cnt, apply_upd_term. cbn. exact Hpart.
    + match type of H with context [status_eq_dec ?x ?y] => destruct (status_eq_dec x y) as [Heq|Hne] end.
      * discriminate.
      * inversion H; subst. fin. rewrite apply_upd_cnt, apply_upd_term. cbn. destruct (tally (w_pods w)); reflexivity.
Qed.


(* the premise of the counters theorems.  The cached STATUS need not equal the API server's (it cannot, after a
   failed job-level kill: the cached version is ahead until the next successful write) *)
Definition fresh_all (w : world) : Prop :=
  v_pods w = w_pods w /\ v_spec w = w_spec w /\
  NoDup (map t_name (s_tasks (v_spec w))) /\ NoDup (pod_ids (w_pods w)) /\ owned (v_spec w) (w_pods w).

(* without injected faults an executed action fails only before anything is written *)
Lemma execute_nofault : forall w a r w' e wr, execute w a r [] = (w', e, wr) -> wr = true -> e = false.
Proof.
  intros w a r w' e wr H Hwr. subst wr. unfold execute in H.
  destruct (exec (st_phase (v_st w)) a) as [[|rt|] u].
  - unfold sync_job, sync_job_gen in H.
    destruct (c_vdel (v_ctl w)); [inversion H|].
    destruct (c_queue (v_ctl w)); cbn [negb] in H; [|inversion H].
    cbn [fails_status existsb andb] in H. rewrite andb_false_r in H.
    cbv zeta in H. unfold sync_pods in H. rewrite ?sync_pods_nofault_noerr in H.
    repeat match type of H with
           | context [if ?c then _ else _] => destruct c
           end; inversion H; reflexivity.
  - unfold kill_pods, kill_pods_gen in H. destruct (c_vdel (v_ctl w)); [inversion H; reflexivity|].
    destruct (kill_select _ _ _ _ _) as [kill term0]. rewrite any_fault_nil in H.
    cbn [fails_status existsb] in H. destruct (v_pg w); inversion H; reflexivity.
  - unfold kill_pods, kill_pods_gen in H. destruct (c_vdel (v_ctl w)); [inversion H; reflexivity|].
    destruct (target_of a r) as [t|t p|]; try (inversion H; reflexivity).
    all: destruct (kill_select _ _ _ _ _) as [kill term0]; rewrite any_fault_nil in H;
      cbn [fails_status existsb] in H; inversion H; reflexivity.
Qed.

(* every action the controller executes on a fresh view, whatever the phase and the action:
   if a status was written it partitions the pods *)
Theorem execute_counters_partition : forall w a r w' e wr,
  execute w a r [] = (w', e, wr) -> wr = true -> fresh_all w ->
  (st_cnt (w_st w'), st_term (w_st w')) = tally (w_pods w').
Proof.
  intros w a r w' e wr H Hwr (Hfresh & Hspec & Hts & Hnd & Hown).
  pose proof (execute_nofault _ _ _ _ _ _ H Hwr) as He. subst e wr. unfold execute in H.
  destruct (exec (st_phase (v_st w)) a) as [[|rt|] u].
  - apply (sync_job_written_partition w u w' H); auto.
  - apply (kill_counters_partition w rt None u w' H Hfresh Hnd).
  - apply (kill_counters_partition w RNone _ u w' H Hfresh Hnd).
Qed.

(* the FULL-strength statement: after every processed request that wrote a status ... *)
Theorem counters_partition : forall w r w' e wr,
  step_req w r [] = (w', e, wr) -> wr = true -> fresh_all w ->
  (st_cnt (w_st w'), st_term (w_st w')) = tally (w_pods w').
Proof.
  intros w r w' e wr H Hwr Hf. unfold step_req in H.
  set (w0 := with_delays w (clean_pod_delay (c_delay (v_ctl w)) r)) in *.
  destruct (c_job (v_ctl w0)); cbn [negb] in H; [|inversion H; subst; discriminate].
  destruct (apply_policies_d (v_spec w0) (v_st w0) r) as [a delayed].
  destruct delayed; [inversion H; subst; discriminate|].
  destruct (execute w0 a r []) as [[w1 e1] wr1] eqn:Hx.
  assert (Hp : wr1 = true -> (st_cnt (w_st w1), st_term (w_st w1)) = tally (w_pods w1)).
  { intros ->. apply (execute_counters_partition w0 a r w1 e1 true Hx eq_refl). exact Hf. }
  destruct (negb e1 && negb (is_internal_action a)); inversion H; subst; cbn; auto.
Qed.

(* ... and after every delayed action that expired and wrote a status *)
Theorem counters_partition_fire : forall w w' e wr,
  fire w = (w', e, wr) -> wr = true -> fresh_all w ->
  (st_cnt (w_st w'), st_term (w_st w')) = tally (w_pods w').
Proof.
  intros w w' e wr H Hwr Hf. unfold fire in H.
  destruct (d_queue (c_delay (v_ctl w))) as [|[t cancelled] rest]; [inversion H; subst; discriminate|].
  set (w0 := with_delays w _) in *.
  destruct cancelled; [inversion H; subst; discriminate|].
  destruct (c_job (v_ctl w0)); cbn [negb] in H; [|inversion H; subst; discriminate].
  destruct (execute w0 (dt_action t) _ []) as [[w1 e1] wr1] eqn:Hx.
  inversion H; subst. cbn.
  apply (execute_counters_partition w0 _ _ w1 e1 true Hx eq_refl). exact Hf.
Qed.

Example counters_partition_nonvacuous :
  fresh_all f2_world /\ fresh_all pgpending_world /\
  (exists w', step_req f2_world sync_req [] = (w', false, true)) /\
  (exists w', step_req pgpending_world sync_req [] = (w', false, true)).
Proof.
  assert (F : forall sp st pods pg, NoDup (map t_name (s_tasks sp)) -> NoDup (pod_ids pods) -> owned sp pods ->
              fresh_all (init_world sp st pods pg)) by (intros; repeat split; auto).
  split; [apply F; [repeat constructor; cbn; tauto|repeat constructor; cbn; tauto|]|].
  - intros p [<-|[]]. exists (mkTask 1 1 (Some 1) [] None). split; [left; reflexivity|reflexivity].
  - split; [apply F; [repeat constructor; cbn; tauto|constructor|intros p []]|].
    split; eexists; vm_compute; reflexivity.
Qed.

(* ---------- the executable counters law means the clause ---------- *)
Theorem partition_ok_sound : forall s pods,
  partition_ok s pods = true -> (st_cnt s, st_term s) = tally pods.
Proof.
  intros s pods H. unfold partition_ok in H. repeat (apply andb_true_iff in H; destruct H as [H ?]).
  unfold counts_eqb in H. destruct (counts_eq_dec (st_cnt s) (fst (tally pods))) as [E|]; [|discriminate].
  match goal with H1 : (st_term s =? snd (tally pods)) = true |- _ => apply Z.eqb_eq in H1; rewrite E, H1 end.
  destruct (tally pods); reflexivity.
Qed.

(* ---------- an expired delayed action with retryCount >= maxRetry: a written status is Failed ---------- *)
Theorem maxretry_fails_fire_written : forall w w' e wr,
  fire w = (w', e, wr) ->
  st_phase (v_st w) = PhRestarting -> s_maxretry (v_spec w) <= st_retry (v_st w) -> wr = true ->
  st_phase (v_st w') = PhFailed /\ st_phase (w_st w') = PhFailed.
Proof.
  intros w w' e wr H Hre Hmax Hwr. unfold fire in H.
  destruct (d_queue (c_delay (v_ctl w))) as [|[t cancelled] rest]; [inversion H; subst; discriminate|].
  set (w0 := with_delays w _) in *.
  destruct cancelled; [inversion H; subst; discriminate|].
  destruct (c_job (v_ctl w0)); cbn [negb] in H; [|inversion H; subst; discriminate].
  destruct (execute w0 (dt_action t) _ []) as [[w1 e1] wr1] eqn:Hx.
  inversion H; subst. pose proof (execute_nofault _ _ _ _ _ _ Hx eq_refl) as He1.
  pose proof (execute_outcome _ _ _ _ _ _ _ Hx) as O.
  destruct (maxretry_fails_gen w0 (dt_action t) w1 e1 true O Hre Hmax) as [_ Hw]. cbn. exact (Hw eq_refl He1).
Qed.

(* ---------- overlapping executions (a timer racing the worker for the same job) ----------
   The goroutine of an expired delayed action and the worker share no lock; what arbitrates two
   overlapping executions in a cluster is the API server's resourceVersion check on UpdateStatus: the
   later writer holds a stale object and is refused.  An execution all of whose status updates are
   refused -- whatever (stale) view it started from, whatever it did to pods -- leaves the status on
   the API server exactly as it was. *)
(* (second audit N1: the first version of this theorem assumed [forall n, fails_status F n = true], which
   no finite fault list satisfies.)  An Execute makes at most two status updates, and the second only
   after the first went through (initJobStatus of a job without a phase); so "every status update of the
   execution is refused" is: the first one it attempts -- index 0 -- is refused. *)
Theorem refused_status_writer : forall w a r F w' e wr,
  execute w a r F = (w', e, wr) -> fails_status F 0 = true ->
  w_st w' = w_st w /\ wr = false.
Proof.
  intros w a r F w' e wr H H0. unfold execute in H.
  destruct (exec (st_phase (v_st w)) a) as [[|rt|] u].
  - unfold sync_job, sync_job_gen in H.
    destruct (c_vdel (v_ctl w)); [inversion H; auto|].
    destruct (c_queue (v_ctl w)); cbn [negb] in H; [|inversion H; auto].
    rewrite H0 in H. rewrite andb_true_r in H.
    destruct (phase_beq (st_phase (v_st w)) PhNone); [inversion H; auto|].
    cbv zeta in H. rewrite ?H0 in H.
    repeat match type of H with context [if ?c then _ else _] => destruct c end;
      inversion H; subst; cbn; autorewrite with proj; auto.
  - unfold kill_pods, kill_pods_gen in H. destruct (c_vdel (v_ctl w)); [inversion H; auto|].
    destruct (kill_select _ _ _ _ _) as [kill term0]. rewrite H0 in H.
    destruct (any_fault F kill); inversion H; subst; cbn; auto.
  - unfold kill_pods, kill_pods_gen in H. destruct (c_vdel (v_ctl w)); [inversion H; auto|].
    destruct (target_of a r) as [t|t p|]; try (inversion H; auto; fail).
    all: destruct (kill_select _ _ _ _ _) as [kill term0]; rewrite H0 in H;
      destruct (any_fault F kill); inversion H; subst; cbn; auto.
Qed.

Theorem refused_status_writer_req : forall w r F w' e wr,
  step_req w r F = (w', e, wr) -> fails_status F 0 = true -> w_st w' = w_st w /\ wr = false.
Proof.
  intros w r F w' e wr H HF. unfold step_req in H.
  set (w0 := with_delays w (clean_pod_delay (c_delay (v_ctl w)) r)) in *.
  destruct (c_job (v_ctl w0)); cbn [negb] in H; [|inversion H; subst; auto].
  destruct (apply_policies_d (v_spec w0) (v_st w0) r) as [a delayed].
  destruct delayed; [inversion H; subst; auto|].
  destruct (execute w0 a r F) as [[w1 e1] wr1] eqn:Hx.
  destruct (refused_status_writer _ _ _ _ _ _ _ Hx HF) as [A B].
  destruct (negb e1 && negb (is_internal_action a)); inversion H; subst; cbn; auto.
Qed.

(* non-vacuity: a Running job with a Running pod; a RestartJob command and a plain sync that has a
   status to write, each with its status update refused: the pods are touched (the kill deletes the
   pod), the API server's status is not *)
Example refused_status_writer_example :
  let sp := mkSpec [mkTask 1 1 (Some 1) [] None] 1 None 3 [] in
  let w := init_world sp (mkStatus PhRunning 0 0 1 c0 0 [] false false) [mkPod 1 0 PRunning false false] (Some PgRunning) in
  fails_status [FStatus 0] 0 = true /\
  (exists w', step_req w (mkReq ECommandIssued (Some ARestartJob) None None 0 0 1) [FStatus 0] = (w', true, false) /\
              w_st w' = w_st w /\ w_pods w' = [mkPod 1 0 PRunning true true]) /\
  (exists w', step_req w (mkReq EOutOfSync None None None 0 0 1) [FStatus 0] = (w', true, false) /\ w_st w' = w_st w) /\
  (exists w', step_req w (mkReq EOutOfSync None None None 0 0 1) [] = (w', false, true) /\ w_st w' <> w_st w).
Proof.
  cbv zeta. split; [reflexivity|]. split; [eexists; split; [vm_compute; reflexivity|split; reflexivity]|].
  split; [eexists; split; [vm_compute; reflexivity|reflexivity]|].
  eexists; split; [vm_compute; reflexivity|]. vm_compute. discriminate.
Qed.

(* ---------- the same with processNextReq's error path (requeue budget, give-up) ---------- *)
(* a request processed without an error never reaches handleJobError: the full-strength statement
   carries over; a step that ends by giving up reports an error and nothing is claimed about its counters
   (the give-up execution works on the pod view the failed Execute left behind) *)
Theorem counters_partition_reqb : forall w r w' wr,
  step_reqb w r [] = (w', false, wr) -> wr = true -> fresh_all w ->
  (st_cnt (w_st w'), st_term (w_st w')) = tally (w_pods w').
Proof.
  intros w r w' wr H Hwr Hfr.
  destruct (step_reqb_cases _ _ _ _ _ _ H) as [w1 q Hs ->|w1 wr1 w2 e2 wr2 q Hs Hx -> He _]; [|discriminate].
  exact (counters_partition _ _ _ _ _ Hs Hwr Hfr).
Qed.

(* ---------- where the premise [fresh_all] comes from (second audit N2 / N4) ---------- *)
(* every initial world of a history with unique task names, unique pod names and no foreign pod *)
Lemma fresh_all_init : forall m q sp st pods pg,
  NoDup (map t_name (s_tasks sp)) -> NoDup (pod_ids pods) -> owned sp pods ->
  fresh_all (init_world_m m q sp st pods pg).
Proof. intros. repeat split; auto. Qed.

(* ... and every world right after the informers delivered the job and the pods, whatever the controller's
   views were before (stale, empty after a restart, cached version ahead after a failed kill), provided
   the job object is delivered at all: it changed since the last delivery, or is not in the cache, or
   the cached spec is the current one already *)
Lemma fresh_all_after_deliveries : forall w,
  NoDup (map t_name (s_tasks (w_spec w))) -> NoDup (pod_ids (w_pods w)) -> owned (w_spec w) (w_pods w) ->
  c_dirty (v_ctl w) = true \/ c_job (v_ctl w) = false \/ v_spec w = w_spec w ->
  fresh_all (run w [OSyncJob; OSyncPods]).
Proof.
  intros w Hts Hnd Hown Hd. unfold run. cbn [fold_left step].
  destruct (c_job (v_ctl w) && negb (c_dirty (v_ctl w))) eqn:E; cbn [fst]; unfold fresh_all; cbn.
  - apply andb_true_iff in E. destruct E as [E1 E2]. apply negb_true_iff in E2.
    destruct Hd as [Hd|[Hd|Hd]]; try congruence. rewrite Hd. repeat split; auto.
  - repeat split; auto.
Qed.

(* the two together with the step theorem: the first written, fault-free request after such a delivery *)
Theorem counters_partition_after_deliveries : forall w r w' e wr,
  NoDup (map t_name (s_tasks (w_spec w))) -> NoDup (pod_ids (w_pods w)) -> owned (w_spec w) (w_pods w) ->
  c_dirty (v_ctl w) = true \/ c_job (v_ctl w) = false \/ v_spec w = w_spec w ->
  step_req (run w [OSyncJob; OSyncPods]) r [] = (w', e, wr) -> wr = true ->
  (st_cnt (w_st w'), st_term (w_st w')) = tally (w_pods w').
Proof.
  intros w r w' e wr Hts Hnd Hown Hd H Hwr.
  exact (counters_partition _ _ _ _ _ H Hwr (fresh_all_after_deliveries w Hts Hnd Hown Hd)).
Qed.

(* the reviewer's state: a RestartJob whose pod deletion is refused leaves the cached version ahead of the
   API server's; after the deliveries the cached status still differs, yet the premise holds and the
   retried restart partitions *)
Example fresh_all_version_ahead :
  let sp := mkSpec [mkTask 1 2 (Some 2) [] None] 2 None 3 [] in
  let w := init_world sp (mkStatus PhRunning 0 0 2 (mkC 0 2 0 0 0) 0 [] false false)
             [mkPod 1 0 PRunning false false; mkPod 1 1 PRunning false false] (Some PgRunning) in
  let rq := mkReq ECommandIssued (Some ARestartJob) None None 0 0 1 in
  let w1 := run w [OReq rq [FDelete 1 0]; OSyncJob; OSyncPods; OSyncPg] in
  v_st w1 <> w_st w1 /\ fresh_all w1 /\
  exists w2, step_req w1 rq [] = (w2, false, true) /\ (st_cnt (w_st w2), st_term (w_st w2)) = tally (w_pods w2).
Proof.
  cbv zeta. split; [vm_compute; discriminate|]. split.
  - unfold fresh_all. vm_compute. repeat split; auto; try (repeat constructor; cbn; intuition discriminate).
    intros p [<-|[<-|[]]]; eexists; (split; [left; reflexivity|reflexivity]).
  - eexists. split; vm_compute; reflexivity.
Qed.
