(* C05: after a successful pass of syncJob on a fresh pod view the counters it
   computes partition exactly the pods on the API server (positive part of the
   counters property, for the code after "fix: syncJob counts an out-of-sync
   pod once"). *)
From Coq Require Import ZArith List Bool Lia Permutation.
From V Require Import C05.Model C05.SyncLemmas.
Import ListNotations.
Open Scope Z_scope.

(* ---------- sums of (phase counters, terminating) ---------- *)
Definition T := (counts * Z)%type.
Definition tz : T := (c0, 0).
Definition tadd (x y : T) : T := (cadd (fst x) (fst y), snd x + snd y).
Definition one_term : T := (c0, 1).

Lemma tadd_comm : forall x y, tadd x y = tadd y x.
Proof. intros [[a b c d e] z] [[a' b' c' d' e'] z']. unfold tadd, cadd; cbn. f_equal; [f_equal|]; lia. Qed.
Lemma tadd_assoc : forall x y z, tadd x (tadd y z) = tadd (tadd x y) z.
Proof. intros [[a b c d e] z] [[a' b' c' d' e'] z'] [[a2 b2 c2 d2 e2] z2]. unfold tadd, cadd; cbn. f_equal; [f_equal|]; lia. Qed.
Lemma tadd_z_l : forall x, tadd tz x = x.
Proof. intros [[a b c d e] z]. reflexivity. Qed.
Lemma tadd_z_r : forall x, tadd x tz = x.
Proof. intros. rewrite tadd_comm. apply tadd_z_l. Qed.

Fixpoint tsum {A} (h : A -> T) (l : list A) : T :=
  match l with [] => tz | x :: r => tadd (h x) (tsum h r) end.

Lemma tally_tsum : forall l, tally l = tsum classify l.
Proof.
  induction l as [|p l IH]; [reflexivity|]. cbn [tsum]. rewrite <- IH. reflexivity.
Qed.

Lemma tsum_app : forall {A} (h : A -> T) l1 l2, tsum h (l1 ++ l2) = tadd (tsum h l1) (tsum h l2).
Proof.
  induction l1 as [|x l1 IH]; intros; cbn.
  - rewrite tadd_z_l. reflexivity.
  - rewrite IH, tadd_assoc. reflexivity.
Qed.
Lemma tsum_perm : forall {A} (h : A -> T) l1 l2, Permutation l1 l2 -> tsum h l1 = tsum h l2.
Proof.
  induction 1; cbn; auto.
  - rewrite IHPermutation. reflexivity.
  - rewrite !tadd_assoc, (tadd_comm (h y) (h x)). reflexivity.
  - congruence.
Qed.
Lemma tsum_map : forall {A B} (h : B -> T) (f : A -> B) l, tsum h (map f l) = tsum (fun x => h (f x)) l.
Proof. induction l; cbn; congruence. Qed.
Lemma tsum_ext_in : forall {A} (h g : A -> T) l, (forall x, In x l -> h x = g x) -> tsum h l = tsum g l.
Proof.
  induction l as [|x l IH]; intros H; cbn; auto. rewrite H by (left; reflexivity).
  rewrite IH; auto. intros; apply H; right; assumption.
Qed.
Lemma tsum_filter : forall {A} (h : A -> T) f l, tsum h (filter f l) = tsum (fun x => if f x then h x else tz) l.
Proof.
  induction l as [|x l IH]; cbn; auto. destruct (f x); cbn; rewrite IH; auto. rewrite tadd_z_l. reflexivity.
Qed.
Lemma tsum_flat_map : forall {A B} (h : B -> T) (F : A -> list B) l,
  tsum h (flat_map F l) = tsum (fun k => tsum h (F k)) l.
Proof. induction l as [|k l IH]; cbn; auto. rewrite tsum_app, IH. reflexivity. Qed.
Lemma tsum_tadd : forall {A} (h g : A -> T) l, tsum (fun x => tadd (h x) (g x)) l = tadd (tsum h l) (tsum g l).
Proof.
  induction l as [|x l IH]; cbn.
  - rewrite tadd_z_l. reflexivity.
  - rewrite IH. rewrite !tadd_assoc. f_equal. rewrite <- !tadd_assoc. f_equal. apply tadd_comm.
Qed.
Lemma tsum_const_len : forall {A} (l : list A), tsum (fun _ => one_term) l = (c0, Z.of_nat (length l)).
Proof.
  induction l as [|x l IH]; cbn [tsum length]; auto.
  rewrite IH. unfold tadd, one_term, cadd, c0. cbn [fst snd cP cR cS cF cU].
  f_equal. lia.
Qed.

(* ---------- the three passes, on the accumulator's counters ---------- *)
Definition acc_t (a : acc) : T := (a_cnt a, a_term a).

(* what pass 1 adds for a kept pod (fixed code) *)
Definition c1 (p : pod) : T :=
  if p_del p then one_term else if p_oos p then tz else (cone (p_phase p), 0).

Lemma count_kept_t : forall a p, acc_t (count_kept_gen true a p) = tadd (acc_t a) (c1 p).
Proof.
  intros a p. unfold count_kept_gen, c1, acc_t. destruct (p_del p); cbn.
  - unfold tadd, one_term. cbn. f_equal. destruct (a_cnt a); unfold cadd, c0; cbn. f_equal; lia.
  - destruct (p_oos p); cbn.
    + rewrite tadd_z_r. reflexivity.
    + unfold tadd. cbn. f_equal. lia.
Qed.

Lemma fold_count_kept_t : forall l a, acc_t (fold_left (count_kept_gen true) l a) = tadd (acc_t a) (tsum c1 l).
Proof.
  induction l as [|p l IH]; intros a; cbn [fold_left tsum].
  - rewrite tadd_z_r. reflexivity.
  - rewrite IH, count_kept_t. rewrite tadd_assoc. reflexivity.
Qed.

Lemma pass1_t : forall view ts a,
  acc_t (fold_left (fun a t => fold_left (count_kept_gen true) (kept t view) a) ts a) =
  tadd (acc_t a) (tsum (fun k => tsum c1 (kept k view)) ts).
Proof.
  induction ts as [|k ts IH]; intros a; cbn [fold_left tsum].
  - rewrite tadd_z_r. reflexivity.
  - rewrite IH, fold_count_kept_t. rewrite tadd_assoc. reflexivity.
Qed.

(* pass 2 without faults: the new pods N, all Pending, none of them named like a pod of P *)
Definition created_ok (P : list pod) (N : list pod) : Prop :=
  Forall (fun p => ~ In (p_task p, p_idx p) (pod_ids P) /\ classify p = (cone PPending, 0)) N.

Lemma insert_pod_perm : forall p l, Permutation (insert_pod p l) (p :: l).
Proof.
  induction l as [|q l IH]; cbn; auto. destruct (id_lt (p_task p) (p_idx p) q); auto.
  eapply perm_trans; [apply perm_skip, IH|apply perm_swap].
Qed.

Lemma perm_pod_ids : forall l1 l2, Permutation l1 l2 -> Permutation (pod_ids l1) (pod_ids l2).
Proof. intros. unfold pod_ids. apply Permutation_map. assumption. Qed.

