(* C18 — proofs about the model of C18/Model.v. *)
From Coq Require Import ZArith List Bool Lia ZifyBool.
From V Require Import C18.Model.
Import ListNotations.
Open Scope Z_scope.

Lemma sec_pos : 0 < sec.
Proof. reflexivity. Qed.

(* ------------------------------------------------------------------ *)
(* Garbage collector                                                   *)
(* ------------------------------------------------------------------ *)

(* a job is due at [now]: finished, TTL set, not being deleted, finish time
   recorded and finish + ttl <= now *)
Definition gc_due (j : gjob) (now : Z) : Prop :=
  finished (g_phase j) = true /\ g_deleting j = false /\
  exists ttl fin, g_ttl j = Some ttl /\ g_finish j = Some fin /\ fin + ttl * sec <= now.

Lemma process_ttl_expired : forall j now,
  process_ttl j now = TtlExpired <-> gc_due j now.
Proof.
  intros j now. unfold process_ttl, time_left, needs_cleanup, gc_due.
  destruct (g_deleting j), (g_ttl j) as [ttl|], (finished (g_phase j)), (g_finish j) as [f|]; cbn;
    try (split; [discriminate | intros (? & ? & ? & ? & ? & ? & ?); congruence]).
  - destruct (Z.leb_spec (f + ttl * sec - now) 0); split; try discriminate; intros H'.
    + repeat split; auto. exists ttl, f. repeat split; auto. lia.
    + reflexivity.
    + destruct H' as (_ & _ & t' & f' & E1 & E2 & ?). inversion E1; inversion E2; subst. lia.
Qed.

Lemma process_ttl_requeue : forall j now d,
  process_ttl j now = TtlRequeue d <->
  finished (g_phase j) = true /\ g_deleting j = false /\
  exists ttl fin, g_ttl j = Some ttl /\ g_finish j = Some fin /\
                  now < fin + ttl * sec /\ d = fin + ttl * sec - now.
Proof.
  intros j now d. unfold process_ttl, time_left, needs_cleanup.
  destruct (g_deleting j), (g_ttl j) as [ttl|], (finished (g_phase j)), (g_finish j) as [f|]; cbn;
    try (split; [discriminate | intros (? & ? & ? & ? & ? & ? & ?); congruence]).
  destruct (Z.leb_spec (f + ttl * sec - now) 0); split; try discriminate; intros H'.
  - destruct H' as (_ & _ & t' & f' & E1 & E2 & ? & ?). inversion E1; inversion E2; subst. lia.
  - inversion H'; subst. repeat split; auto. exists ttl, f. repeat split; auto. lia.
  - destruct H' as (_ & _ & t' & f' & E1 & E2 & ? & ?). inversion E1; inversion E2; subst. reflexivity.
Qed.

(* main: a delete is only issued for a fresh object that is due at the second
   clock reading, and it carries that object's UID; the lister's copy was due
   at the first reading *)
Theorem gc_only_when_due : forall lj fresh now1 now2 uid,
  go_delete (process_job lj fresh now1 now2) = Some uid ->
  exists j f, lj = Some j /\ fresh = Some f /\ gc_due j now1 /\ gc_due f now2 /\ uid = g_uid f /\
              go_requeues (process_job lj fresh now1 now2) = [] /\
              go_err (process_job lj fresh now1 now2) = false.
Proof.
  intros lj fresh now1 now2 uid. unfold process_job.
  destruct lj as [j|]; [|discriminate].
  destruct (process_ttl j now1) eqn:E1; try discriminate.
  destruct fresh as [f|]; [|discriminate].
  destruct (process_ttl f now2) eqn:E2; try discriminate.
  cbn. intros H; inversion H; subst.
  exists j, f. split; [reflexivity|]. split; [reflexivity|].
  split; [now apply process_ttl_expired|]. split; [now apply process_ttl_expired|]. auto.
Qed.

(* otherwise: an eligible object that is not yet due is re-queued after
   exactly finish + ttl - now, and nothing is deleted *)
Theorem gc_requeue_exact : forall j fresh now1 now2 ttl fin,
  finished (g_phase j) = true -> g_deleting j = false ->
  g_ttl j = Some ttl -> g_finish j = Some fin -> now1 < fin + ttl * sec ->
  process_job (Some j) fresh now1 now2 = mkGcOut [fin + ttl * sec - now1] None false.
Proof.
  intros j fresh now1 now2 ttl fin Hf Hd Ht Hfi Hlt. unfold process_job.
  assert (E : process_ttl j now1 = TtlRequeue (fin + ttl * sec - now1)).
  { apply process_ttl_requeue. repeat split; auto. exists ttl, fin. auto. }
  now rewrite E.
Qed.

(* the same for the fresh copy when the lister's copy looked due *)
Theorem gc_requeue_exact_fresh : forall j f now1 now2 ttl fin,
  gc_due j now1 ->
  finished (g_phase f) = true -> g_deleting f = false ->
  g_ttl f = Some ttl -> g_finish f = Some fin -> now2 < fin + ttl * sec ->
  process_job (Some j) (Some f) now1 now2 = mkGcOut [fin + ttl * sec - now2] None false.
Proof.
  intros j f now1 now2 ttl fin Hj Hf Hd Ht Hfi Hlt. unfold process_job.
  apply process_ttl_expired in Hj. rewrite Hj.
  assert (E : process_ttl f now2 = TtlRequeue (fin + ttl * sec - now2)).
  { apply process_ttl_requeue. repeat split; auto. exists ttl, fin. auto. }
  now rewrite E.
Qed.

(* the exact boundary: due iff finish + ttl <= now (so -1 ns is not, 0 is) *)
Theorem gc_boundary : forall j now ttl fin,
  finished (g_phase j) = true -> g_deleting j = false ->
  g_ttl j = Some ttl -> g_finish j = Some fin ->
  (process_ttl j now = TtlExpired <-> fin + ttl * sec <= now).
Proof.
  intros j now ttl fin Hf Hd Ht Hfi. rewrite process_ttl_expired. unfold gc_due. split.
  - intros (_ & _ & t' & f' & E1 & E2 & ?). congruence.
  - intros. repeat split; auto. exists ttl, fin. auto.
Qed.

(* jobs that are not finished, have no TTL or are being deleted are left alone *)
Theorem gc_ignores_live : forall j fresh now1 now2,
  finished (g_phase j) = false \/ g_ttl j = None \/ g_deleting j = true ->
  process_job (Some j) fresh now1 now2 = gc_nothing.
Proof.
  intros j fresh now1 now2 H. unfold process_job, process_ttl, needs_cleanup.
  destruct (g_deleting j), (g_ttl j), (finished (g_phase j)); cbn; try reflexivity;
    destruct H as [H|[H|H]]; discriminate.
Qed.

(* the finish time is the RECORDED one (status.state.lastTransitionTime): the
   creation time plays no role whatsoever ... *)
Theorem gc_creation_irrelevant : forall lj fresh now1 now2 c1 c2,
  let recreate c (j : gjob) := mkGjob (g_uid j) (g_phase j) (g_ttl j) (g_deleting j) (g_finish j) c in
  process_job (option_map (recreate c1) lj) (option_map (recreate c2) fresh) now1 now2 =
  process_job lj fresh now1 now2.
Proof. intros [j|] [f|] now1 now2 c1 c2; reflexivity. Qed.

(* ... and a job without a recorded finish time is never collected, whatever
   its phase, TTL, age and the clock: jobFinishTime fails, processTTL returns
   the error (before any enqueueAfter), processJob hands it to the rate-limited
   retry of handleErr *)
Theorem gc_no_finish_time_never_collected : forall lj f now1 now2,
  g_finish f = None ->
  go_delete (process_job lj (Some f) now1 now2) = None.
Proof.
  intros lj f now1 now2 Hf.
  destruct (go_delete (process_job lj (Some f) now1 now2)) as [uid|] eqn:E; [|reflexivity].
  apply gc_only_when_due in E.
  destruct E as (j & f' & _ & Ef & _ & (_ & _ & ttl & fin & _ & Hfin & _) & _).
  inversion Ef; subst. congruence.
Qed.

Theorem gc_no_finish_time_error : forall j fresh now1 now2,
  finished (g_phase j) = true -> g_deleting j = false -> g_ttl j <> None -> g_finish j = None ->
  process_job (Some j) fresh now1 now2 = mkGcOut [] None true.
Proof.
  intros j fresh now1 now2 Hp Hd Ht Hf. unfold process_job, process_ttl, time_left, needs_cleanup.
  rewrite Hd, Hf. destruct (g_ttl j); [|congruence]. rewrite Hp. reflexivity.
Qed.

Theorem gc_no_finish_time_error_fresh : forall j f now1 now2,
  gc_due j now1 ->
  finished (g_phase f) = true -> g_deleting f = false -> g_ttl f <> None -> g_finish f = None ->
  process_job (Some j) (Some f) now1 now2 = mkGcOut [] None true.
Proof.
  intros j f now1 now2 Hj Hp Hd Ht Hf. unfold process_job.
  apply process_ttl_expired in Hj. rewrite Hj.
  unfold process_ttl, time_left, needs_cleanup.
  rewrite Hd, Hf. destruct (g_ttl f); [|congruence]. rewrite Hp. reflexivity.
Qed.

(* ------------------------------------------------------------------ *)
(* Cron: schedule choice                                               *)
(* ------------------------------------------------------------------ *)

Lemma sec_div_exact : forall k, (k * sec) / sec = k.
Proof. intros. apply Z.div_mul. discriminate. Qed.

Lemma round_sec_exact : forall k, round_sec_s (k * sec) = k.
Proof.
  intros k. unfold round_sec_s.
  assert (Hs : sec / 2 = 500000000) by reflexivity. rewrite Hs.
  assert (Hs2 : sec = 1000000000) by reflexivity.
  destruct (Z.leb_spec 0 (k * sec)).
  - symmetry. apply (Z.div_unique _ _ _ 500000000); lia.
  - assert (E : (- (k * sec) + 500000000) / sec = - k).
    { symmetry. apply (Z.div_unique _ _ _ 500000000); lia. }
    rewrite E. lia.
Qed.

Section Choice.
Variable next : Z -> Z.

Definition sched (s : Z) : Prop := exists u, next u = s.

(* next t is the LEAST schedule point after t; points are whole seconds *)
Hypothesis next_gt : forall t, t < next t.
Hypothesis next_least : forall t s, sched s -> t < s -> next t <= s.
Hypothesis next_sec : forall t, exists k, next t = k * sec.

Lemma no_point_between : forall m now, now < next m -> forall s, sched s -> m < s -> now < s.
Proof. intros m now H s Hs Hm. specialize (next_least m s Hs Hm). lia. Qed.

Lemma mr_loop_sound : forall now lb fuel t most r,
  sched t -> lb < t ->
  (forall m, most = Some m -> sched m /\ lb < m /\ m <= now /\ next m = t) ->
  mr_loop next fuel now t most = Some r ->
  forall m, r = Some m -> sched m /\ lb < m /\ m <= now /\ now < next m.
Proof.
  intros now lb fuel. induction fuel as [|k IH]; intros t most r Ht Hlb Hm; cbn [mr_loop].
  - destruct (Z.ltb_spec now t); [|discriminate].
    intros E m Hr. inversion E; subst. destruct (Hm m eq_refl) as (? & ? & ? & ?). repeat split; auto. lia.
  - destruct (Z.ltb_spec now t).
    + intros E m Hr. inversion E; subst. destruct (Hm m eq_refl) as (? & ? & ? & ?). repeat split; auto. lia.
    + intros E. eapply IH; [| |  | exact E].
      * now exists t.
      * pose proof (next_gt t). lia.
      * intros m Em. inversion Em; subst. repeat split; auto.
Qed.

Lemma catch_up_start : forall t1 t2 now,
  (exists a, t1 = a * sec) -> (exists b, t2 = b * sec) -> t1 < t2 -> t2 <= now ->
  1 <= round_sec_s (t2 - t1) /\
  t1 <= t1 + ((now - t1) / sec / round_sec_s (t2 - t1) + 1 - 2) * round_sec_s (t2 - t1) * sec.
Proof.
  intros t1 t2 now [a Ha] [b Hb] Hlt Hle. subst.
  replace (b * sec - a * sec) with ((b - a) * sec) by lia.
  rewrite round_sec_exact.
  pose proof sec_pos as Hs.
  assert (Hba : 1 <= b - a) by nia.
  split; [lia|].
  assert (He : b - a <= (now - a * sec) / sec).
  { apply Z.div_le_lower_bound; lia. }
  assert (Hq : 1 <= (now - a * sec) / sec / (b - a)).
  { apply Z.div_le_lower_bound; lia. }
  nia.
Qed.

(* main: the chosen time is a schedule point, after the earliest time, not
   after now, and no schedule point lies in (t, now] *)
Theorem most_recent_sound : forall fuel created last deadline now incl e t m,
  most_recent next fuel created last deadline now incl = (e, MrOk (Some t) m) ->
  e = earliest_time created last deadline now incl /\
  sched t /\ e < t /\ t <= now /\ (forall s, sched s -> t < s -> now < s).
Proof.
  intros fuel created last deadline now incl e t m. unfold most_recent.
  set (e0 := earliest_time created last deadline now incl).
  set (t1 := next e0). set (t2 := next t1).
  destruct (Z.ltb_spec now t1); [intros E; inversion E|].
  destruct (Z.ltb_spec now t2).
  - intros E; inversion E; subst. split; [reflexivity|]. split; [now exists e0|].
    split; [apply next_gt|]. split; [assumption|]. now apply no_point_between.
  - assert (Hlt : t1 < t2) by apply next_gt.
    destruct (catch_up_start t1 t2 now (next_sec e0) (next_sec t1) Hlt H0) as [Htb Hpe].
    fold t1 t2.
    destruct (Z.ltb_spec (round_sec_s (t2 - t1)) 1); [lia|].
    set (pe := t1 + ((now - t1) / sec / round_sec_s (t2 - t1) + 1 - 2) * round_sec_s (t2 - t1) * sec) in *.
    destruct (mr_loop next fuel now (next pe) None) as [most|] eqn:EL; [|intros E; inversion E].
    intros E; inversion E; subst. split; [reflexivity|].
    assert (He : e0 < next pe). { pose proof (next_gt e0) as G1. pose proof (next_gt pe) as G2. fold t1 in G1. lia. }
    destruct (mr_loop_sound now e0 fuel (next pe) None (Some t)) with (m := t)
      as (Hs & Hl & Hn & Hx); auto.
    + now exists pe.
    + intros ? Hd; discriminate.
    + repeat split; auto. now apply no_point_between.
Qed.

Theorem cron_choice_sound : forall fuel created last deadline now t,
  next_schedule_time next fuel created last deadline now = NsOk (Some t) ->
  let e := earliest_time created last deadline now true in
  sched t /\ e < t /\ t <= now /\ (forall s, sched s -> t < s -> now < s).
Proof.
  intros fuel created last deadline now t. unfold next_schedule_time.
  destruct (most_recent next fuel created last deadline now true) as [e r] eqn:E. cbn [snd].
  destruct r as [| |[t'|] m]; try discriminate.
  destruct (Z.ltb_spec now t'); [discriminate|]. intros H'; inversion H'; subst.
  apply most_recent_sound in E. destruct E as (-> & ?). assumption.
Qed.

(* the earliest time is never before the last schedule time *)
Lemma earliest_ge_last : forall created l deadline now incl,
  l <= earliest_time created (Some l) deadline now incl.
Proof.
  intros. unfold earliest_time. destruct incl; [|lia]. destruct deadline; [|lia].
  destruct (Z.ltb_spec l (now - z * sec)); lia.
Qed.

Lemma earliest_ge_created : forall created deadline now incl,
  created <= earliest_time created None deadline now incl.
Proof.
  intros. unfold earliest_time. destruct incl; [|lia]. destruct deadline; [|lia].
  destruct (Z.ltb_spec created (now - z * sec)); lia.
Qed.

(* ---------------- completeness for constant-period schedules ---------------- *)
Section Regular.
Variable p : Z.   (* the period in seconds *)
Hypothesis p_pos : 0 < p.
Hypothesis next_regular : forall s, sched s -> next s = s + p * sec.

Lemma regular_iter : forall s, sched s -> forall k, 0 <= k ->
  sched (s + k * (p * sec)) /\ next (s + k * (p * sec)) = s + (k + 1) * (p * sec).
Proof.
  intros s Hs k Hk. pattern k. apply natlike_ind; [| |assumption].
  - replace (s + 0 * (p * sec)) with s by lia. split; auto. rewrite next_regular; auto. lia.
  - intros x Hx [IH1 IH2]. unfold Z.succ.
    assert (S1 : sched (s + (x + 1) * (p * sec))). { exists (s + x * (p * sec)). exact IH2. }
    split; auto. rewrite next_regular; auto. lia.
Qed.

Theorem cron_choice_complete_regular : forall fuel created last deadline now,
  (2 <= fuel)%nat ->
  let e := earliest_time created last deadline now true in
  (exists s, sched s /\ e < s /\ s <= now) ->
  exists t, next_schedule_time next fuel created last deadline now = NsOk (Some t).
Proof.
  intros fuel created last deadline now Hfuel e (s & Hs & Hes & Hsn).
  unfold next_schedule_time, most_recent. fold e.
  set (t1 := next e). set (t2 := next t1).
  assert (Ht1 : t1 <= s) by (apply next_least; auto).
  destruct (Z.ltb_spec now t1); [lia|].
  destruct (Z.ltb_spec now t2).
  - cbn [snd]. destruct (Z.ltb_spec now t1); [lia|]. now exists t1.
  - assert (S1 : sched t1) by now exists e.
    assert (E2 : t2 = t1 + p * sec) by (apply next_regular; auto).
    pose proof sec_pos as Hsec.
    replace (t2 - t1) with (p * sec) by lia. rewrite round_sec_exact.
    destruct (Z.ltb_spec p 1); [lia|].
    set (E := (now - t1) / sec).
    assert (HE1 : E * sec <= now - t1 < (E + 1) * sec).
    { unfold E. pose proof (Z.mul_div_le (now - t1) sec Hsec).
      pose proof (Z.mul_succ_div_gt (now - t1) sec Hsec). lia. }
    assert (HEp : p <= E). { unfold E. apply Z.div_le_lower_bound; lia. }
    set (q := E / p).
    assert (Hq : q * p <= E < (q + 1) * p).
    { unfold q. pose proof (Z.mul_div_le E p p_pos). pose proof (Z.mul_succ_div_gt E p p_pos). lia. }
    assert (Hq1 : 1 <= q) by (unfold q; apply Z.div_le_lower_bound; lia).
    replace (t1 + (q + 1 - 2) * p * sec) with (t1 + (q - 1) * (p * sec)) by lia.
    destruct (regular_iter t1 S1 (q - 1)) as [Sp Np]; [lia|].
    rewrite Np. replace (q - 1 + 1) with q by lia.
    destruct (regular_iter t1 S1 q) as [Sq Nq]; [lia|].
    destruct fuel as [|[|f]]; [lia|lia|].
    cbn [mr_loop].
    destruct (Z.ltb_spec now (t1 + q * (p * sec))); [nia|].
    rewrite Nq.
    assert (Hgt : now < t1 + (q + 1) * (p * sec)) by nia.
    assert (Hb : (now <? t1 + (q + 1) * (p * sec)) = true) by (apply Z.ltb_lt; exact Hgt).
    destruct f; cbn [mr_loop]; rewrite Hb; cbn [snd];
      (destruct (Z.ltb_spec now (t1 + q * (p * sec))); [lia|]); eexists; reflexivity.
Qed.
End Regular.
End Choice.

(* ------------------------------------------------------------------ *)
(* Cron: the controller                                                 *)
(* ------------------------------------------------------------------ *)

Lemma fold_left_inv : forall {A B} (P : A -> Prop) (f : A -> B -> A) l a,
  P a -> (forall a b, P a -> P (f a b)) -> P (fold_left f l a).
Proof. intros A B P f l. induction l; cbn; auto. Qed.

Lemma del_active_incl : forall a u, incl (del_active a u) a.
Proof. intros a u x Hx. unfold del_active in Hx. apply filter_In in Hx. tauto. Qed.

Lemma remove_job_incl : forall js n, incl (remove_job js n) js.
Proof. intros js n x Hx. unfold remove_job in Hx. apply filter_In in Hx. tauto. Qed.

Lemma find_job_In : forall js n j, find_job js n = Some j -> In j js /\ j_name j = n.
Proof.
  induction js as [|k r IH]; cbn; [discriminate|]. intros n j.
  destruct (Z.eqb_spec (j_name k) n).
  - intros E; inversion E; subst. auto.
  - intros E. apply IH in E. tauto.
Qed.

Lemma insert_job_In : forall j js x, In x (insert_job j js) -> x = j \/ In x js.
Proof.
  induction js as [|k r IH]; cbn; intros x.
  - intros [H|[]]; auto.
  - destruct (j_name j <=? j_name k); cbn.
    + intros [H|H]; auto.
    + intros [H|H]; auto. apply IH in H. tauto.
Qed.

Lemma as_cur_del : forall s u,
  as_cur (as_del s u) = as_cur s \/
  as_cur (as_del s u) = filter (fun r => negb (r_uid r =? u)) (as_cur s).
Proof.
  intros s u. unfold as_del.
  set (kept := filter (fun r => negb (r_uid r =? u)) (as_cur s)).
  destruct (length kept <? alen s)%nat; [right|left; reflexivity].
  unfold as_cur at 1. cbn [bk alen].
  rewrite firstn_app, Nat.sub_diag, firstn_all. cbn. apply app_nil_r.
Qed.

Lemma as_del_incl : forall s u, incl (as_cur (as_del s u)) (as_cur s).
Proof.
  intros s u. destruct (as_cur_del s u) as [E|E]; rewrite E; [apply incl_refl|].
  intros x Hx. apply filter_In in Hx. tauto.
Qed.

Lemma as_cur_of : forall a, as_cur (as_of a) = a.
Proof. intros. unfold as_cur, as_of. cbn. apply firstn_all. Qed.

Lemma ins_sorted_incl : forall j l x, In x (ins_sorted j l) -> x = j \/ In x l.
Proof.
  induction l as [|k r IH]; cbn; intros x.
  - intros [H|[]]; auto.
  - destruct (job_less k j); cbn; intros [H|H]; auto. apply IH in H. tauto.
Qed.

Lemma sort_jobs_incl : forall l, incl (sort_jobs l) l.
Proof.
  induction l as [|j r IH]; cbn; [apply incl_refl|].
  intros x Hx. apply ins_sorted_incl in Hx. destruct Hx; [left; auto|right; auto].
Qed.

Lemma firstn_incl : forall {A} n (l : list A), incl (firstn n l) l.
Proof. intros A n l x Hx. rewrite <- (firstn_skipn n l). apply in_or_app. auto. Qed.

Section Controller.
Variable next : Z -> Z.
Variable lenient : bool.
Hypothesis next_gt : forall t, t < next t.
Hypothesis next_sec : forall t, exists k, next t = k * sec.

(* only [earliest < t] is needed below; it does not use leastness *)
Lemma chosen_after_earliest : forall fuel created last deadline now t,
  next_schedule_time next fuel created last deadline now = NsOk (Some t) ->
  earliest_time created last deadline now true < t /\ t <= now.
Proof.
  intros fuel created last deadline now t. unfold next_schedule_time, most_recent.
  set (e0 := earliest_time created last deadline now true).
  set (t1 := next e0). set (t2 := next t1).
  destruct (Z.ltb_spec now t1); [discriminate|].
  destruct (Z.ltb_spec now t2); cbn [snd].
  - destruct (Z.ltb_spec now t1); [discriminate|]. intros E; inversion E; subst. split; [apply next_gt|lia].
  - assert (Hlt : t1 < t2) by apply next_gt.
    destruct (catch_up_start t1 t2 now (next_sec e0) (next_sec t1) Hlt H0) as [Htb Hpe].
    destruct (Z.ltb_spec (round_sec_s (t2 - t1)) 1); [lia|].
    set (pe := t1 + ((now - t1) / sec / round_sec_s (t2 - t1) + 1 - 2) * round_sec_s (t2 - t1) * sec) in *.
    destruct (mr_loop next fuel now (next pe) None) as [[m|]|] eqn:EL; cbn [snd]; try discriminate.
    destruct (Z.ltb_spec now m); [discriminate|]. intros E; inversion E; subst.
    assert (G : forall fuel x most r, e0 < x ->
              (forall y, most = Some y -> e0 < y) ->
              mr_loop next fuel now x most = Some r -> forall y, r = Some y -> e0 < y).
    { clear - next_gt. induction fuel as [|k IH]; intros x most r Hx Hm; cbn [mr_loop].
      - destruct (now <? x); [|discriminate]. intros E y Hy. inversion E; subst. auto.
      - destruct (now <? x).
        + intros E y Hy. inversion E; subst. auto.
        + apply IH. * pose proof (next_gt x). lia. * intros y Hy. inversion Hy; subst. auto. }
    split; [|assumption].
    eapply (G fuel (next pe) None); [| |exact EL|reflexivity].
    + pose proof (next_gt e0) as G1. pose proof (next_gt pe) as G2. fold t1 in G1. lia.
    + intros ? Hd; discriminate.
Qed.

Lemma chosen_after_last : forall fuel created l deadline now t,
  next_schedule_time next fuel created (Some l) deadline now = NsOk (Some t) -> l < t.
Proof.
  intros. apply chosen_after_earliest in H. pose proof (earliest_ge_last created l deadline now true). lia.
Qed.

(* ---- fin ---- *)
Lemma fin_spec : forall fuel spec now hd st' jobs' uid' upd cr rd a b c o,
  fin next fuel spec now hd st' jobs' uid' upd cr rd = (a, b, c, o) ->
  a = st' /\ b = jobs' /\ c = uid' /\ o_creates o = cr /\ o_status o = st' /\ o_upd o = upd /\
  o_hist_deletes o = hd /\ o_repl_deletes o = rd /\ (o_err o = E_OK \/ o_err o = E_FUEL).
Proof.
  intros until o. unfold fin.
  destruct (requeue_after next fuel (c_created spec) (st_last st') (c_deadline spec) now);
    intros E; inversion E; subst; cbn; repeat split; auto.
Qed.

(* ---- Replace loop and the policy ---- *)
Lemma replace_loop_incl : forall idx s jobs dels upd s' jobs' dels' upd' ok,
  replace_loop idx s jobs dels upd = (s', jobs', dels', upd', ok) ->
  incl (as_cur s') (as_cur s) /\ incl jobs' jobs.
Proof.
  induction idx as [|i rest IH]; cbn; intros until ok.
  - intros E; inversion E; subst. split; apply incl_refl.
  - destruct (nth_error (bk s) i) as [r|]; [|intros E; inversion E; subst; split; apply incl_refl].
    destruct (find_job jobs (r_name r)) as [j|]; [|intros E; inversion E; subst; split; apply incl_refl].
    intros E. apply IH in E. destruct E as [E1 E2]. split.
    + eapply incl_tran; [exact E1|apply as_del_incl].
    + eapply incl_tran; [exact E2|apply remove_job_incl].
Qed.

Lemma apply_policy_spec : forall spec st jobs upd0 skip st1 jobs1 rd upd1 ok,
  apply_policy spec st jobs upd0 = (skip, st1, jobs1, rd, upd1, ok) ->
  incl (st_active st1) (st_active st) /\ incl jobs1 jobs /\ st_last st1 = st_last st /\
  (c_policy spec = Forbid -> skip = false -> st_active st = []).
Proof.
  intros until ok. unfold apply_policy. destruct (c_policy spec).
  - intros E; inversion E; subst. repeat split; try apply incl_refl. discriminate.
  - destruct (st_active st) eqn:Ea; intros E; inversion E; subst; rewrite ?Ea;
      repeat split; try apply incl_refl; auto. discriminate.
  - destruct (replace_loop (seq 0 (length (st_active st))) (as_of (st_active st)) jobs [] false)
      as [[[[s j'] d'] u'] o'] eqn:ER.
    intros E; inversion E; subst. apply replace_loop_incl in ER. rewrite as_cur_of in ER.
    cbn. repeat split; try tauto. discriminate.
Qed.

(* ---- what a reconcile can start, and what it does to lastScheduleTime ---- *)
Definition uid_ok (n : Z) (a : list jref) (js : list job) : Prop :=
  Forall (fun r => r_uid r < n) a /\ Forall (fun j => j_uid j < n) js.

Lemma uid_ok_incl : forall n a js a' js', uid_ok n a js -> incl a' a -> incl js' js -> uid_ok n a' js'.
Proof. intros n a js a' js' [H1 H2] I1 I2. split; eapply incl_Forall; eauto. Qed.

Lemma uid_ok_mono : forall n m a js, uid_ok n a js -> n <= m -> uid_ok m a js.
Proof.
  intros n m a js [H1 H2] L. split; eapply Forall_impl; try eassumption; cbn; intros; lia.
Qed.

Lemma in_active_false : forall a n, Forall (fun r => r_uid r < n) a -> in_active a n = false.
Proof.
  intros a n H. unfold in_active. induction H; cbn; auto.
  rewrite IHForall. destruct (Z.eqb_spec (r_uid x) n); [lia|reflexivity].
Qed.

Definition starts (o : rout) (t : Z) : Prop := o_creates o = [(job_name_of t, t)].

Lemma create_job_spec : forall fuel spec now hd fc t st1 jobs1 uid upd1 rd st' jobs' uid' o,
  create_job next lenient fuel spec now hd fc t st1 jobs1 uid upd1 rd = (st', jobs', uid', o) ->
  uid_ok uid (st_active st1) jobs1 ->
  o_status o = st' /\ o_hist_deletes o = hd /\ o_repl_deletes o = rd /\
  uid <= uid' /\ uid_ok uid' (st_active st') jobs' /\
  ((o_creates o = [] /\ (st_last st' = st_last st1 \/ (st_last st' = Some t /\ o_upd o = true))) \/
   (starts o t /\ st_last st' = Some t /\ o_upd o = true /\ (o_err o = E_OK \/ o_err o = E_FUEL) /\
    st_active st' = st_active st1 ++ [mkRef (job_name_of t) uid])).
Proof.
  intros until o. intros E Hok. unfold create_job in E.
  assert (Same : forall upd,
    fin next fuel spec now hd st1 jobs1 uid upd [] rd = (st', jobs', uid', o) ->
    o_status o = st' /\ o_hist_deletes o = hd /\ o_repl_deletes o = rd /\
    uid <= uid' /\ uid_ok uid' (st_active st') jobs' /\
    ((o_creates o = [] /\ (st_last st' = st_last st1 \/ (st_last st' = Some t /\ o_upd o = true))) \/
     (starts o t /\ st_last st' = Some t /\ o_upd o = true /\ (o_err o = E_OK \/ o_err o = E_FUEL) /\
      st_active st' = st_active st1 ++ [mkRef (job_name_of t) uid]))).
  { intros upd E'. apply fin_spec in E'. destruct E' as (-> & -> & -> & Ec & Es & Eu & Eh & Er & Ee).
    split; [auto|]. split; [auto|]. split; [auto|]. split; [lia|]. split; [exact Hok|].
    left. split; auto. }
  destruct fc.
  { inversion E; subst; cbn. split; [auto|]. split; [auto|]. split; [auto|]. split; [lia|]. split; [exact Hok|].
    left. auto. }
  destruct (find_job jobs1 (job_name_of t)) as [ex|] eqn:EF.
  - destruct (negb lenient).
    { inversion E; subst; cbn. split; [auto|]. split; [auto|]. split; [auto|]. split; [lia|]. split; [exact Hok|].
      left. auto. }
    apply find_job_In in EF. destruct EF as [Hin _].
    assert (Hex : j_uid ex < uid). { destruct Hok as [_ H2]. rewrite Forall_forall in H2. auto. }
    destruct (j_owner ex); try (eapply Same; exact E).
    destruct (finished (j_phase ex)); [eapply Same; exact E|].
    destruct (in_active (st_active st1) (j_uid ex)); [eapply Same; exact E|].
    apply fin_spec in E; destruct E as (-> & -> & -> & Ec & Es & Eu & Eh & Er & Ee).
    split; [auto|]. split; [auto|]. split; [auto|]. split; [lia|]. split.
    + split; [|apply Hok]. cbn. apply Forall_app. split; [apply Hok|]. constructor; [cbn; lia|constructor].
    + left. split; auto.
  - assert (Hfresh : in_active (st_active st1) uid = false) by (apply in_active_false; apply Hok).
    rewrite Hfresh in E.
    apply fin_spec in E; destruct E as (-> & -> & -> & Ec & Es & Eu & Eh & Er & Ee).
    split; [auto|]. split; [auto|]. split; [auto|]. split; [lia|]. split.
    + split.
      * cbn. apply Forall_app. split.
        -- eapply Forall_impl; [|apply Hok]. cbn; intros; lia.
        -- constructor; [cbn; lia|constructor].
      * rewrite Forall_forall. intros x Hx. apply insert_job_In in Hx. destruct Hx as [->|Hx]; [cbn; lia|].
        destruct Hok as [_ H2]. rewrite Forall_forall in H2. specialize (H2 x Hx). lia.
    + right. repeat split; auto.
Qed.

Lemma decide_spec : forall fuel spec st jobs uid now fc upd0 hd st' jobs' uid' o,
  decide next lenient fuel spec st jobs uid now fc upd0 hd = (st', jobs', uid', o) ->
  uid_ok uid (st_active st) jobs ->
  o_status o = st' /\ o_hist_deletes o = hd /\ uid <= uid' /\ uid_ok uid' (st_active st') jobs' /\
  ((o_creates o = [] /\
    (st_last st' = st_last st \/
     exists t, next_schedule_time next fuel (c_created spec) (st_last st) (c_deadline spec) now = NsOk (Some t) /\
               st_last st' = Some t /\ o_upd o = true)) \/
   (exists t, starts o t /\
              next_schedule_time next fuel (c_created spec) (st_last st) (c_deadline spec) now = NsOk (Some t) /\
              c_suspend spec = false /\ (c_policy spec = Forbid -> st_active st = []) /\
              st_last st' = Some t /\ o_upd o = true /\ (o_err o = E_OK \/ o_err o = E_FUEL) /\
              (c_policy spec = Forbid -> st_active st' = [mkRef (job_name_of t) uid]))).
Proof.
  intros until o. intros E Hok. unfold decide in E.
  destruct (c_suspend spec) eqn:Esus.
  { inversion E; subst; cbn. split; [auto|]. split; [auto|]. split; [lia|]. split; [exact Hok|]. left. auto. }
  destruct (c_tz_ok spec) eqn:Etz; cbn [negb] in E.
  2:{ inversion E; subst; cbn. split; [auto|]. split; [auto|]. split; [lia|]. split; [exact Hok|]. left. auto. }
  destruct (next_schedule_time next fuel (c_created spec) (st_last st) (c_deadline spec) now) as [| |[t|]] eqn:EN.
  { inversion E; subst; cbn. split; [auto|]. split; [auto|]. split; [lia|]. split; [exact Hok|]. left. auto. }
  { inversion E; subst; cbn. split; [auto|]. split; [auto|]. split; [lia|]. split; [exact Hok|]. left. auto. }
  2:{ apply fin_spec in E; destruct E as (-> & -> & -> & Ec & Es & Eu & Eh & Er & Ee).
      split; [auto|]. split; [auto|]. split; [lia|]. split; [exact Hok|]. left. auto. }
  destruct (in_active_by_name (st_active st) (job_name_of t) ||
            match st_last st with Some l => l =? t | None => false end).
  { apply fin_spec in E; destruct E as (-> & -> & -> & Ec & Es & Eu & Eh & Er & Ee).
    split; [auto|]. split; [auto|]. split; [lia|]. split; [exact Hok|]. left. auto. }
  destruct (apply_policy spec st jobs upd0) as [[[[[skip st1] jobs1] rd] upd1] ok] eqn:EP.
  apply apply_policy_spec in EP. destruct EP as (I1 & I2 & EL & HF).
  assert (Hok1 : uid_ok uid (st_active st1) jobs1) by (eapply uid_ok_incl; eauto).
  destruct ok; cbn [negb] in E.
  2:{ inversion E; subst; cbn. split; [auto|]. split; [auto|]. split; [lia|]. split; [exact Hok1|]. left. auto. }
  destruct skip.
  { apply fin_spec in E; destruct E as (-> & -> & -> & Ec & Es & Eu & Eh & Er & Ee).
    split; [auto|]. split; [auto|]. split; [lia|]. split; [exact Hok1|]. left. auto. }
  apply create_job_spec in E; auto.
  destruct E as (Es & Eh & Er & Hu & Hok' & [[Ec HL]|(Hs & HL & Hupd & He & Ha)]).
  - split; [auto|]. split; [auto|]. split; [lia|]. split; [exact Hok'|].
    left. split; auto. rewrite EL in HL. destruct HL as [HL|[HL HU]]; auto.
    right. exists t. auto.
  - split; [auto|]. split; [auto|]. split; [lia|]. split; [exact Hok'|].
    right. exists t. split; [auto|]. split; [auto|]. split; [auto|].
    split; [intros HFb; exact (HF HFb eq_refl)|]. split; [auto|]. split; [auto|]. split; [auto|].
    intros HFb. rewrite Ha. specialize (HF HFb eq_refl).
    assert (H0 : st_active st1 = []).
    { destruct (st_active st1) as [|x r]; auto. specialize (I1 x (or_introl eq_refl)). rewrite HF in I1. destruct I1. }
    rewrite H0. reflexivity.
Qed.

(* ---- the clean-up half ---- *)
Lemma pf_step_inv : forall acc j st upd succ failed,
  pf_step acc j = (st, upd, succ, failed) ->
  let '(st0, upd0, succ0, failed0) := acc in
  st_last st = st_last st0 /\ incl (st_active st) (st_active st0) /\
  (forall x, In x succ -> In x succ0 \/ (x = j /\ j_phase j = PhCompleted)) /\
  (forall x, In x failed -> In x failed0 \/ (x = j /\ j_phase j = PhFailed)).
Proof.
  intros [[[st0 upd0] succ0] failed0] j st upd succ failed. unfold pf_step.
  assert (Close : forall st1 succ1 failed1 upd1,
    st_last st1 = st_last st0 -> incl (st_active st1) (st_active st0) ->
    (forall x, In x succ1 -> In x succ0 \/ (x = j /\ j_phase j = PhCompleted)) ->
    (forall x, In x failed1 -> In x failed0 \/ (x = j /\ j_phase j = PhFailed)) ->
    (st1, upd1, succ1, failed1) = (st, upd, succ, failed) ->
    st_last st = st_last st0 /\ incl (st_active st) (st_active st0) /\
    (forall x, In x succ -> In x succ0 \/ (x = j /\ j_phase j = PhCompleted)) /\
    (forall x, In x failed -> In x failed0 \/ (x = j /\ j_phase j = PhFailed))).
  { intros ? ? ? ? ? ? ? ? E; inversion E; subst; auto. }
  assert (App : forall (l : list job) ph, j_phase j = ph ->
                forall x, In x (l ++ [j]) -> In x l \/ (x = j /\ j_phase j = ph)).
  { intros l ph Hp x Hx. apply in_app_or in Hx. destruct Hx as [Hx|[Hx|[]]]; auto. }
  intros E.
  destruct (st_last_success st0) as [ls|] eqn:Els; destruct (j_finish j) as [f|] eqn:Efin;
    destruct (in_active (st_active st0) (j_uid j)) eqn:Eia; destruct (j_phase j) eqn:Ep;
    cbn [finished] in E; cbn -[Z.ltb after_ls] in E;
    repeat (rewrite ?Els in E; cbn -[Z.ltb after_ls] in E);
    repeat match type of E with context [if ?b then _ else _] => destruct b end;
    cbn -[Z.ltb after_ls] in E;
    (eapply Close; [| | | |exact E]); cbn; auto; try apply incl_refl; try apply del_active_incl;
    try (apply App; assumption).
Qed.

Lemma delete_each_spec : forall victims st jobs dels upd st' jobs' dels' upd',
  delete_each victims st jobs dels upd = (st', jobs', dels', upd') ->
  st_last st' = st_last st /\ incl (st_active st') (st_active st) /\ incl jobs' jobs /\
  dels' = dels ++ map j_name victims.
Proof.
  induction victims as [|v r IH]; cbn; intros until upd'.
  - intros E; inversion E; subst. repeat split; try apply incl_refl. now rewrite app_nil_r.
  - destruct (find_job jobs (j_name v)); intros E; apply IH in E;
      destruct E as (E1 & E2 & E3 & E4); subst; cbn in *; rewrite <- app_assoc; cbn; repeat split; auto.
    + eapply incl_tran; [exact E2|apply del_active_incl].
    + eapply incl_tran; [exact E3|apply remove_job_incl].
Qed.

Lemma remove_oldest_spec : forall js limit st jobs dels upd st' jobs' dels' upd',
  remove_oldest js limit st jobs dels upd = (st', jobs', dels', upd') ->
  st_last st' = st_last st /\ incl (st_active st') (st_active st) /\ incl jobs' jobs /\
  exists vs, incl vs js /\ dels' = dels ++ map j_name vs.
Proof.
  intros until upd'. unfold remove_oldest. destruct limit as [mx|].
  2:{ intros E; inversion E; subst. repeat split; try apply incl_refl. exists []. split; [intros ? []|now rewrite app_nil_r]. }
  destruct (Z.of_nat (length js) - mx <=? 0).
  { intros E; inversion E; subst. repeat split; try apply incl_refl. exists []. split; [intros ? []|now rewrite app_nil_r]. }
  intros E. apply delete_each_spec in E. destruct E as (E1 & E2 & E3 & E4). repeat split; auto.
  eexists. split; [|exact E4]. eapply incl_tran; [apply firstn_incl|apply sort_jobs_incl].
Qed.

Definition is_hist_victim (jobs : list job) (name : Z) : Prop :=
  exists j, In j jobs /\ j_name j = name /\ j_owner j = OwnThis /\
            (j_phase j = PhCompleted \/ j_phase j = PhFailed).

Lemma mine_of_In : forall jobs j, In j (mine_of jobs) -> In j jobs /\ j_owner j = OwnThis.
Proof.
  intros jobs j H. unfold mine_of in H. apply filter_In in H. destruct H as [H1 H2].
  destruct (j_owner j); try discriminate. auto.
Qed.

Lemma process_finished_spec : forall spec st jobs st' jobs' hd upd,
  process_finished spec st (mine_of jobs) jobs = (st', jobs', hd, upd) ->
  st_last st' = st_last st /\ incl (st_active st') (st_active st) /\ incl jobs' jobs /\
  Forall (is_hist_victim jobs) hd.
Proof.
  intros until upd. unfold process_finished.
  destruct (fold_left pf_step (mine_of jobs) (st, false, [], [])) as [[[st1 upd1] succ] failed] eqn:EF.
  assert (Inv : st_last st1 = st_last st /\ incl (st_active st1) (st_active st) /\
                (forall x, In x succ -> In x (mine_of jobs) /\ j_phase x = PhCompleted) /\
                (forall x, In x failed -> In x (mine_of jobs) /\ j_phase x = PhFailed)).
  { assert (G : forall l acc, incl l (mine_of jobs) ->
      (let '(s0, _, su0, fa0) := acc in
       st_last s0 = st_last st /\ incl (st_active s0) (st_active st) /\
       (forall x, In x su0 -> In x (mine_of jobs) /\ j_phase x = PhCompleted) /\
       (forall x, In x fa0 -> In x (mine_of jobs) /\ j_phase x = PhFailed)) ->
      let '(s1, _, su1, fa1) := fold_left pf_step l acc in
       st_last s1 = st_last st /\ incl (st_active s1) (st_active st) /\
       (forall x, In x su1 -> In x (mine_of jobs) /\ j_phase x = PhCompleted) /\
       (forall x, In x fa1 -> In x (mine_of jobs) /\ j_phase x = PhFailed)).
    { induction l as [|j r IH]; cbn; intros acc Hl Hacc; [exact Hacc|].
      apply IH; [intros x Hx; apply Hl; right; auto|].
      destruct (pf_step acc j) as [[[s1 u1] su1] fa1] eqn:EP.
      pose proof (pf_step_inv acc j s1 u1 su1 fa1 EP) as P.
      destruct acc as [[[s0 u0] su0] fa0]. destruct Hacc as (A1 & A2 & A3 & A4). destruct P as (P1 & P2 & P3 & P4).
      split; [congruence|]. split; [eapply incl_tran; eauto|]. split.
      - intros x Hx. destruct (P3 x Hx) as [H|[-> H]]; auto. split; auto. apply Hl. left; auto.
      - intros x Hx. destruct (P4 x Hx) as [H|[-> H]]; auto. split; auto. apply Hl. left; auto. }
    specialize (G (mine_of jobs) (st, false, [], []) (incl_refl _)). rewrite EF in G. apply G.
    split; [reflexivity|]. split; [apply incl_refl|]. split; intros ? []. }
  destruct Inv as (I1 & I2 & I3 & I4).
  destruct (c_fail_limit spec) as [fl|] eqn:Efl, (c_succ_limit spec) as [sl|] eqn:Esl.
  4:{ intros E; inversion E; subst. repeat split; auto. apply incl_refl. }
  all: destruct (remove_oldest succ _ st1 jobs [] upd1) as [[[st2 jobs2] dels2] upd2] eqn:ER1;
    intros ER2; apply remove_oldest_spec in ER1; apply remove_oldest_spec in ER2;
    destruct ER1 as (A1 & A2 & A3 & vs1 & V1 & D1); destruct ER2 as (B1 & B2 & B3 & vs2 & V2 & D2);
    (split; [congruence|]); (split; [eapply incl_tran; [exact B2|eapply incl_tran; eauto]|]);
    (split; [eapply incl_tran; eauto|]);
    subst; cbn; rewrite Forall_app; split; rewrite Forall_forall; intros n Hn;
    apply in_map_iff in Hn; destruct Hn as (v & <- & Hv).
  all: try (apply V1 in Hv; apply I3 in Hv; destruct Hv as [Hv Hp]; apply mine_of_In in Hv;
            exists v; repeat split; try tauto).
  all: try (apply V2 in Hv; apply I4 in Hv; destruct Hv as [Hv Hp]; apply mine_of_In in Hv;
            exists v; repeat split; try tauto).
Qed.

Lemma clean_stale_incl : forall lister mine a a' upd,
  clean_stale lister mine a = (a', upd) -> incl a' a.
Proof.
  intros lister mine a a' upd. unfold clean_stale.
  destruct (fold_left (stale_step lister (map j_uid mine)) (seq 0 (length a)) (as_of a, false)) as [s u] eqn:EF.
  intros E; inversion E; subst.
  assert (G : incl (as_cur (fst (fold_left (stale_step lister (map j_uid mine)) (seq 0 (length a)) (as_of a, false)))) a).
  { apply (fold_left_inv (fun acc : aslice * bool => incl (as_cur (fst acc)) a)).
    - cbn [fst]. rewrite as_cur_of. apply incl_refl.
    - intros [s0 u0] i H. cbn [fst] in *. unfold stale_step.
      destruct (nth_error (bk s0) i) as [r|]; [|exact H].
      destruct (existsb (Z.eqb (r_uid r)) (map j_uid mine)); [exact H|].
      destruct (find_job lister (r_name r)) as [j|].
      + destruct (j_uid j =? r_uid r); [exact H|]. cbn [fst]. eapply incl_tran; [apply as_del_incl|exact H].
      + cbn [fst]. eapply incl_tran; [apply as_del_incl|exact H]. }
  rewrite EF in G. exact G.
Qed.

Lemma cleanup_spec : forall spec st jobs st' jobs' hd upd,
  cleanup spec st jobs = (st', jobs', hd, upd) ->
  st_last st' = st_last st /\ incl (st_active st') (st_active st) /\ incl jobs' jobs /\
  Forall (is_hist_victim jobs) hd.
Proof.
  intros until upd. unfold cleanup.
  destruct (process_finished spec st (mine_of jobs) jobs) as [[[st1 jobs1] hd1] upd1] eqn:EP.
  destruct (clean_stale jobs (mine_of jobs) (st_active st1)) as [a2 upd2] eqn:EC.
  intros E; inversion E; subst. apply process_finished_spec in EP. apply clean_stale_incl in EC.
  destruct EP as (P1 & P2 & P3 & P4). cbn. repeat split; auto. eapply incl_tran; eauto.
Qed.

(* ---- one reconcile ---- *)
Definition last_le (a b : option Z) : Prop :=
  match a with Some x => exists y, b = Some y /\ x <= y | None => True end.
Definition last_lt (a : option Z) (t : Z) : Prop :=
  match a with Some x => x < t | None => True end.

Definition state_ok (s : cstate) : Prop :=
  uid_ok (s_next_uid s) (st_active (s_status s)) (s_jobs s).

Lemma reconcile_spec : forall fuel s now fc s' o,
  reconcile next lenient fuel s now fc = (s', o) -> state_ok s -> o_err o <> E_FUEL ->
  state_ok s' /\ s_spec s' = s_spec s /\
  last_le (st_last (s_status s)) (st_last (s_status s')) /\
  Forall (is_hist_victim (s_jobs s)) (o_hist_deletes o) /\
  (o_creates o = [] \/
   exists t, starts o t /\ last_lt (st_last (s_status s)) t /\ t <= now /\
             earliest_time (c_created (s_spec s)) (st_last (s_status s)) (c_deadline (s_spec s)) now true < t /\
             st_last (s_status s') = Some t /\
             c_suspend (s_spec s) = false /\
             (c_policy (s_spec s) = Forbid ->
              st_active (s_status s') = [mkRef (job_name_of t) (s_next_uid s)])).
Proof.
  intros fuel s now fc s' o. unfold reconcile.
  destruct (cleanup (s_spec s) (s_status s) (s_jobs s)) as [[[st1 jobs1] hd] upd1] eqn:EC.
  destruct (decide next lenient fuel (s_spec s) st1 jobs1 (s_next_uid s) now fc upd1 hd)
    as [[[st2 jobs2] uid2] o2] eqn:ED.
  intros E Hok Hfuel; inversion E; subst; clear E.
  apply cleanup_spec in EC. destruct EC as (C1 & C2 & C3 & C4).
  assert (Hok1 : uid_ok (s_next_uid s) (st_active st1) jobs1) by (eapply uid_ok_incl; eauto).
  apply decide_spec in ED; auto.
  destruct ED as (Ds & Dh & Du & Dok & Dc).
  assert (LL : forall x, st_last (s_status s) = Some x -> forall t,
             next_schedule_time next fuel (c_created (s_spec s)) (st_last st1) (c_deadline (s_spec s)) now = NsOk (Some t) -> x < t).
  { intros x Hx t Ht. rewrite C1, Hx in Ht. now apply chosen_after_last in Ht. }
  unfold state_ok. cbn [s_next_uid s_status s_jobs s_spec].
  split.
  { destruct ((o_err o =? E_OK) && o_upd o); [exact Dok|].
    destruct Dok as [_ D2]. split; [|exact D2].
    eapply Forall_impl; [|apply Hok]. cbn; intros; lia. }
  split; [reflexivity|].
  rewrite Dh. split; [|split; [exact C4|]].
  - destruct ((o_err o =? E_OK) && o_upd o).
    + unfold last_le. destruct (st_last (s_status s)) as [x|] eqn:Ex; [|exact I].
      destruct Dc as [[_ [HL|(t & Ht & HL & _)]]|(t & _ & Ht & _ & _ & HL & _)].
      * exists x. rewrite HL, C1. split; auto. lia.
      * exists t. split; auto. specialize (LL x eq_refl t Ht). lia.
      * exists t. split; auto. specialize (LL x eq_refl t Ht). lia.
    + unfold last_le. destruct (st_last (s_status s)) as [x|]; [|exact I]. exists x. split; auto. lia.
  - destruct Dc as [[Hc _]|(t & Hs & Ht & Hsus & HF & HL & Hupd & He & HA)]; [left; exact Hc|].
    right. exists t.
    assert (Eok : o_err o = E_OK) by (destruct He; [assumption|contradiction]).
    rewrite Eok, Hupd. cbn.
    pose proof Ht as Ht'. rewrite C1 in Ht'. apply chosen_after_earliest in Ht'.
    repeat split; auto; try tauto.
    unfold last_lt. destruct (st_last (s_status s)) as [x|] eqn:Ex; [|exact I]. eapply LL; eauto.
Qed.

(* ---- histories ---- *)
Lemma step_spec : forall fuel s op s' out,
  step next lenient fuel s op = (s', out) -> state_ok s ->
  (forall o, out = Some o -> o_err o <> E_FUEL) ->
  state_ok s' /\ last_le (st_last (s_status s)) (st_last (s_status s')) /\
  match out with
  | None => True
  | Some o =>
    o_creates o = [] \/
    exists t, starts o t /\ last_lt (st_last (s_status s)) t /\ st_last (s_status s') = Some t
  end.
Proof.
  intros fuel s op s' out. destruct op; cbn [step].
  - destruct (reconcile next lenient fuel s now fail_create) as [s1 r] eqn:ER.
    intros E Hok Hf; inversion E; subst. apply reconcile_spec in ER; auto.
    destruct ER as (R1 & R2 & R3 & R4 & R5). split; [exact R1|]. split; [exact R3|].
    destruct R5 as [R5|(t & ? & ? & ? & ? & ? & ?)]; [left; auto|right; exists t; auto].
  - intros E Hok _; inversion E; subst. unfold state_ok in *. cbn. split; [|split; auto].
    + destruct Hok as [H1 H2]. split; auto. rewrite Forall_forall in *. intros x Hx.
      apply in_map_iff in Hx. destruct Hx as (j & <- & Hj). specialize (H2 j Hj).
      destruct (j_name j =? name); cbn; auto.
    + unfold last_le. destruct (st_last (s_status s)); auto. eexists; split; eauto. lia.
  - intros E Hok _; inversion E; subst. unfold state_ok in *. cbn. split; [|split; auto].
    + eapply uid_ok_incl; eauto; [apply incl_refl|apply remove_job_incl].
    + unfold last_le. destruct (st_last (s_status s)); auto. eexists; split; eauto. lia.
  - destruct (find_job (s_jobs s) name).
    + intros E Hok _; inversion E; subst. split; auto. split; auto.
      unfold last_le. destruct (st_last (s_status s')); auto. eexists; split; eauto. lia.
    + intros E Hok _; inversion E; subst. unfold state_ok in *. cbn. split; [|split; auto].
      * destruct Hok as [H1 H2]. split.
        -- eapply Forall_impl; [|exact H1]. cbn; intros; lia.
        -- rewrite Forall_forall in *. intros x Hx. apply insert_job_In in Hx.
           destruct Hx as [->|Hx]; [cbn; lia|]. specialize (H2 x Hx). lia.
      * unfold last_le. destruct (st_last (s_status s)); auto. eexists; split; eauto. lia.
  - intros E Hok _; inversion E; subst. unfold state_ok in *. cbn. split; auto. split; auto.
    unfold last_le. destruct (st_last (s_status s)); auto. eexists; split; eauto. lia.
  - intros E Hok _; inversion E; subst. unfold state_ok in *. cbn. split; auto. split; auto.
    unfold last_le. destruct (st_last (s_status s)); auto. eexists; split; eauto. lia.
Qed.

Fixpoint increasing_from (lo : option Z) (l : list Z) : Prop :=
  match l with
  | [] => True
  | x :: r => last_lt lo x /\ increasing_from (Some x) r
  end.

Lemma increasing_from_weaken : forall l a b, last_le a b -> increasing_from b l -> increasing_from a l.
Proof.
  destruct l as [|x r]; cbn; auto. intros a b Hab [H1 H2]. split; auto.
  unfold last_le, last_lt in *. destruct a as [ya|]; auto. destruct Hab as (y & -> & Hy). lia.
Qed.

Lemma increasing_from_NoDup : forall l lo, increasing_from lo l -> NoDup l /\ forall x, In x l -> last_lt lo x.
Proof.
  induction l as [|x r IH]; cbn; intros lo H.
  - split; [constructor|intros ? []].
  - destruct H as [H1 H2]. destruct (IH _ H2) as [N1 N2]. split.
    + constructor; auto. intros Hin. specialize (N2 x Hin). cbn in N2. lia.
    + intros y [<-|Hy]; auto. specialize (N2 y Hy). unfold last_lt in *. cbn in N2.
      destruct lo; auto. lia.
Qed.

(* main: over every history of reconciles (at arbitrary instants - in
   particular at non-decreasing ones) interleaved with job completions,
   deletions, foreign creations, suspend and policy changes, the schedule times
   for which a Create succeeded are strictly increasing: each schedule point
   starts at most one job *)
Theorem run_created_increasing : forall fuel ops s s' outs,
  run next lenient fuel s ops = (s', outs) -> state_ok s ->
  Forall (fun o => o_err o <> E_FUEL) outs ->
  increasing_from (st_last (s_status s)) (created_times outs).
Proof.
  intros fuel. induction ops as [|op r IH]; cbn [run]; intros s s' outs.
  - intros E; inversion E; subst. cbn. auto.
  - destruct (step next lenient fuel s op) as [s1 out] eqn:ES.
    destruct (run next lenient fuel s1 r) as [s2 outs2] eqn:ER.
    intros E Hok Hf; inversion E; subst; clear E.
    assert (Hf2 : Forall (fun o => o_err o <> E_FUEL) outs2 /\ forall o, out = Some o -> o_err o <> E_FUEL).
    { destruct out; [inversion Hf; subst; split; auto; intros ? Eo; inversion Eo; subst; auto|
                     split; auto; intros ? Eo; discriminate]. }
    destruct Hf2 as [Hf2 Hf1].
    apply step_spec in ES; auto. destruct ES as (Hok1 & HL & Hout).
    specialize (IH _ _ _ ER Hok1 Hf2).
    destruct out as [o|]; [|eapply increasing_from_weaken; eauto].
    unfold created_times. cbn [flat_map]. fold (created_times outs2).
    destruct Hout as [Hc|(t & Hs & Hlt & Hlast)].
    + rewrite Hc. cbn. eapply increasing_from_weaken; eauto.
    + unfold starts in Hs. rewrite Hs. cbn. split; auto. rewrite Hlast in IH. exact IH.
Qed.

Theorem cron_at_most_once : forall fuel ops s s' outs,
  run next lenient fuel s ops = (s', outs) -> state_ok s ->
  Forall (fun o => o_err o <> E_FUEL) outs ->
  NoDup (created_times outs).
Proof.
  intros. eapply increasing_from_NoDup. eapply run_created_increasing; eauto.
Qed.

(* suspended: no job is started, whatever the state *)
Theorem cron_respects_suspend : forall fuel s now fc s' o,
  reconcile next lenient fuel s now fc = (s', o) -> c_suspend (s_spec s) = true -> o_creates o = [].
Proof.
  intros fuel s now fc s' o. unfold reconcile.
  destruct (cleanup (s_spec s) (s_status s) (s_jobs s)) as [[[st1 jobs1] hd] upd1].
  unfold decide. intros E Hs. rewrite Hs in E. inversion E; subst. reflexivity.
Qed.

(* Forbid: a job is started only when the active list (after the finished and
   stale references have been dropped) is empty *)
Theorem cron_forbid : forall fuel spec st jobs uid now fc upd0 hd st' jobs' uid' o,
  decide next lenient fuel spec st jobs uid now fc upd0 hd = (st', jobs', uid', o) ->
  c_policy spec = Forbid -> st_active st <> [] -> o_creates o = [].
Proof.
  intros until o. unfold decide. intros E HF Hne.
  destruct (c_suspend spec); [inversion E; subst; reflexivity|].
  destruct (c_tz_ok spec); cbn [negb] in E; [|inversion E; subst; reflexivity].
  destruct (next_schedule_time next fuel (c_created spec) (st_last st) (c_deadline spec) now) as [| |[t|]];
    try (inversion E; subst; reflexivity);
    try (apply fin_spec in E; tauto).
  destruct (in_active_by_name (st_active st) (job_name_of t) || _); [apply fin_spec in E; tauto|].
  unfold apply_policy in E. rewrite HF in E.
  destruct (st_active st); [contradiction|]. cbn in E. apply fin_spec in E. tauto.
Qed.

End Controller.

(* history limits delete only finished runs of this CronJob *)
Lemma decide_hd : forall next lenient fuel spec st jobs uid now fc upd0 hd st' jobs' uid' o,
  decide next lenient fuel spec st jobs uid now fc upd0 hd = (st', jobs', uid', o) -> o_hist_deletes o = hd.
Proof.
  intros until o. unfold decide, create_job, fin. intros E.
  repeat match type of E with context [match ?x with _ => _ end] => destruct x end;
    inversion E; reflexivity.
Qed.

Theorem history_deletes_finished_only : forall next lenient fuel s now fc s' o,
  reconcile next lenient fuel s now fc = (s', o) ->
  Forall (is_hist_victim (s_jobs s)) (o_hist_deletes o).
Proof.
  intros next lenient fuel s now fc s' o. unfold reconcile.
  destruct (cleanup (s_spec s) (s_status s) (s_jobs s)) as [[[st1 jobs1] hd] upd1] eqn:EC.
  destruct (decide next lenient fuel (s_spec s) st1 jobs1 (s_next_uid s) now fc upd1 hd)
    as [[[st2 jobs2] uid2] o2] eqn:ED.
  intros E; inversion E; subst. apply decide_hd in ED. rewrite ED.
  apply cleanup_spec in EC. tauto.
Qed.

(* ------------------------------------------------------------------ *)
(* An irregular schedule: the incompleteness witness (DESIGN F8)       *)
(* ------------------------------------------------------------------ *)

(* points at seconds 100k and 100k+1 *)
Definition nxs (s : Z) : Z := if s mod 100 =? 0 then s + 1 else (s / 100 + 1) * 100.
Definition next_pairs (t : Z) : Z := nxs (t / sec) * sec.

Lemma nxs_gt : forall s, s + 1 <= nxs s.
Proof. intros s. unfold nxs. destruct (Z.eqb_spec (s mod 100) 0); [lia|]. Z.div_mod_to_equations. lia. Qed.

Lemma nxs_point : forall s, nxs s mod 100 = 0 \/ nxs s mod 100 = 1.
Proof.
  intros s. unfold nxs. destruct (Z.eqb_spec (s mod 100) 0).
  - right. Z.div_mod_to_equations. lia.
  - left. apply Z_mod_mult.
Qed.

Lemma nxs_least : forall q k, (k mod 100 = 0 \/ k mod 100 = 1) -> q < k -> nxs q <= k.
Proof.
  intros q k Hk Hq. unfold nxs. destruct (Z.eqb_spec (q mod 100) 0); [lia|].
  Z.div_mod_to_equations. lia.
Qed.

Lemma next_pairs_gt : forall t, t < next_pairs t.
Proof.
  intros t. unfold next_pairs. pose proof (nxs_gt (t / sec)). pose proof sec_pos.
  pose proof (Z.mul_succ_div_gt t sec H0). nia.
Qed.

Lemma next_pairs_least : forall t s, sched next_pairs s -> t < s -> next_pairs t <= s.
Proof.
  intros t s [u <-] Hlt. unfold next_pairs in *. pose proof sec_pos.
  assert (Hq : t / sec < nxs (u / sec)). { apply Z.div_lt_upper_bound; lia. }
  pose proof (nxs_least (t / sec) (nxs (u / sec)) (nxs_point _) Hq). nia.
Qed.

Lemma next_pairs_sec : forall t, exists k, next_pairs t = k * sec.
Proof. intros t. eexists. reflexivity. Qed.

(* with an irregular schedule the choice is NOT complete: unmet schedule points
   exist in (earliest, now] and yet nothing is chosen (a missed start) *)
Theorem cron_complete_refuted :
  exists next, (forall t, t < next t) /\ (forall t s, sched next s -> t < s -> next t <= s) /\
               (forall t, exists k, next t = k * sec) /\
  exists fuel created last deadline now,
    (exists s, sched next s /\ earliest_time created last deadline now true < s /\ s <= now) /\
    next_schedule_time next fuel created last deadline now = NsOk None.
Proof.
  exists next_pairs. split; [exact next_pairs_gt|]. split; [exact next_pairs_least|]. split; [exact next_pairs_sec|].
  exists 10%nat, (- sec), None, None, (150 * sec). split.
  - exists (100 * sec). split; [exists (50 * sec); vm_compute; reflexivity|]. vm_compute. split; [reflexivity|discriminate].
  - vm_compute. reflexivity.
Qed.

(* ------------------------------------------------------------------ *)
(* Non-vacuity                                                          *)
(* ------------------------------------------------------------------ *)

Definition ex_spec : cspec := mkSpec (- sec) false Forbid None (Some 1) (Some 1) true.
Definition ex_state : cstate :=
  mkState ex_spec (mkStatus None [] None)
          [mkJob 7 1 OwnThis PhCompleted (Some 5) (Some 6); mkJob 8 2 OwnThis PhCompleted (Some 6) (Some 7)] 3.

(* a well-formed state; two reconciles start two different schedule points,
   the second only after the first run has finished (Forbid), and the history
   limit removes exactly the older finished job *)
Example controller_nonvacuous :
  state_ok ex_state /\
  let '(s', outs) := run next_pairs false 10 ex_state
                         [OpReconcile (100 * sec) false; OpReconcile (200 * sec) false;
                          OpFinish 1 PhCompleted (Some (200 * sec)); OpReconcile (200 * sec + 5) false] in
  created_times outs = [100 * sec; 200 * sec] /\
  map o_hist_deletes outs = [[7]; []; [8]] /\
  Forall (fun o => o_err o <> E_FUEL) outs.
Proof.
  split.
  - split; repeat constructor.
  - vm_compute. split; [reflexivity|]. split; [reflexivity|].
    repeat constructor; discriminate.
Qed.

Example gc_nonvacuous :
  let j := mkGjob 1 PhCompleted (Some 10) false (Some (5 * sec)) (Some 0) in
  gc_due j (15 * sec) /\ ~ gc_due j (15 * sec - 1) /\
  process_job (Some j) (Some j) (15 * sec) (15 * sec) = mkGcOut [] (Some 1) false /\
  process_job (Some j) (Some j) (15 * sec - 1) (15 * sec - 1) = mkGcOut [1] None false.
Proof.
  cbv zeta. split; [|split; [|split; vm_compute; reflexivity]].
  - repeat split. exists 10, (5 * sec). repeat split. vm_compute. discriminate.
  - intros (_ & _ & ttl & fin & E1 & E2 & H). inversion E1; inversion E2; subst. vm_compute in H. apply H. reflexivity.
Qed.

(* ------------------------------------------------------------------ *)
(* The zone the schedule is evaluated in                                *)
(* ------------------------------------------------------------------ *)

(* main: whenever spec.timeZone is set and loads (and the schedule string does
   not embed a zone of its own), the string handed to the parser carries it and
   the schedule is evaluated in it - for EVERY schedule kind *)
Theorem cron_zone_is_spec : forall (k : skind) (z : Z),
  validate_tz (TzLoads z) = true /\
  format_schedule (TzLoads z) (mkSstr k None) = FmtPrefixed z /\
  zone_used (TzLoads z) (mkSstr k None) = ZNamed z.
Proof. intros k z. repeat split. Qed.

(* the complete case table: embedded zone, else spec.timeZone, else local *)
Theorem cron_zone_cases : forall tz s,
  zone_used tz s =
  match ss_embedded s with
  | Some e => ZNamed e
  | None => match tz with TzLoads z => ZNamed z | _ => ZLocal end
  end.
Proof. intros tz [k [e|]]; destruct tz; reflexivity. Qed.

(* the kind of the schedule never matters *)
Theorem cron_zone_kind_irrelevant : forall tz k1 k2 e,
  format_schedule tz (mkSstr k1 e) = format_schedule tz (mkSstr k2 e) /\
  zone_used tz (mkSstr k1 e) = zone_used tz (mkSstr k2 e).
Proof. intros tz k1 k2 [e|]; destruct tz; split; reflexivity. Qed.

(* a zone that does not load: nothing is ever started *)
Theorem cron_invalid_zone_no_start : forall next lenient fuel s now fc s' o,
  reconcile next lenient fuel s now fc = (s', o) -> c_tz_ok (s_spec s) = false -> o_creates o = [].
Proof.
  intros next lenient fuel s now fc s' o. unfold reconcile.
  destruct (cleanup (s_spec s) (s_status s) (s_jobs s)) as [[[st1 jobs1] hd] upd1].
  unfold decide. intros E Hs. rewrite Hs in E. cbn [negb] in E.
  destruct (c_suspend (s_spec s)); inversion E; subst; reflexivity.
Qed.

(* ------------------------------------------------------------------ *)
(* The laws speak about the same predicates                             *)
(* ------------------------------------------------------------------ *)
From V Require Import C18.Laws.

Lemma law_time_left_model : forall j since, law_time_left j since (time_left j since) = true.
Proof.
  intros j since. unfold law_time_left, expiry, time_left, needs_cleanup.
  destruct (g_ttl j), (g_finish j), (finished (g_phase j)); cbn; auto. apply Z.eqb_refl.
Qed.

Lemma law_history_NoDup : forall l, law_history l = true -> NoDup l.
Proof.
  unfold law_history. intros l H.
  assert (G : forall l, increasing l = true -> NoDup l /\ forall x y r, l = x :: r -> In y r -> x < y).
  { induction l0 as [|a r IH]; [split; [constructor|discriminate]|].
    intros Hi. destruct r as [|b r'].
    - split; [constructor; [intros []|constructor]|]. intros x y r0 E Hy. inversion E; subst. destruct Hy.
    - cbn [increasing] in Hi. apply andb_prop in Hi. destruct Hi as [Hab Hr].
      destruct (IH Hr) as [N1 N2]. apply Z.ltb_lt in Hab.
      assert (L : forall y, In y (b :: r') -> a < y).
      { intros y [<-|Hy]; auto. specialize (N2 b y r' eq_refl Hy). lia. }
      split.
      + constructor; auto. intros Hin. specialize (L a Hin). lia.
      + intros x y r0 E Hy. inversion E; subst. auto. }
  apply G; auto.
Qed.

(* a delete accepted by the law is justified exactly as in gc_only_when_due *)
Lemma law_gc_delete : forall lj fresh lo hi uid rqs,
  law_gc lj fresh lo hi (Some uid) rqs = true ->
  exists f, fresh = Some f /\ gc_due f hi /\ uid = g_uid f.
Proof.
  intros lj fresh lo hi uid rqs. unfold law_gc. intros H.
  apply andb_prop in H. destruct H as [H _]. apply andb_prop in H. destruct H as [H _].
  destruct fresh as [f|]; [|discriminate]. exists f. split; auto.
  apply andb_prop in H. destruct H as [H Hu]. apply andb_prop in H. destruct H as [Hd He].
  unfold expiry in He. unfold gc_due.
  destruct (g_ttl f) as [ttl|] eqn:Et; [|discriminate].
  destruct (g_finish f) as [fi|] eqn:Ef; [|discriminate].
  destruct (finished (g_phase f)) eqn:Eph; [|discriminate].
  split; [split; [reflexivity|]|lia]. split; [destruct (g_deleting f); [discriminate|reflexivity]|].
  exists ttl, fi. repeat split; auto. lia.
Qed.

Lemma law_zone_model : forall tz s,
  law_zone tz s (format_schedule tz s) (validate_tz tz)
           (match ss_kind s, validate_tz tz with
            | KEvery, _ => None | _, false => None | _, true => Some (zone_used tz s) end) = true.
Proof.
  intros tz [k [e|]]; destruct tz, k; cbn; rewrite ?Z.eqb_refl; reflexivity.
Qed.

(* the law on observed behaviour accepts the model (one clock reading) *)
Lemma law_gc_no_finish_model : forall lj fresh now,
  let o := process_job lj fresh now now in
  law_gc_no_finish lj fresh now (go_delete o) (go_requeues o) (go_err o) = true.
Proof.
  intros lj fresh now. cbv zeta. unfold law_gc_no_finish, eligible_no_finish, expiry, process_job,
    process_ttl, time_left, needs_cleanup, is_some.
  destruct lj as [j|]; [|destruct fresh; reflexivity].
  destruct (g_deleting j), (g_ttl j) as [t|], (finished (g_phase j)), (g_finish j) as [fi|]; cbn;
    try (destruct fresh; reflexivity).
  destruct (Z.leb_spec (fi + t * sec - now) 0); cbn.
  - destruct fresh as [f|]; cbn; [|reflexivity].
    destruct (g_deleting f), (g_ttl f) as [t'|], (finished (g_phase f)), (g_finish f) as [fi'|]; cbn;
      rewrite ?andb_true_r, ?andb_false_r; try reflexivity;
      try (destruct (fi + t * sec <=? now); reflexivity).
    destruct (fi' + t' * sec - now <=? 0); cbn; rewrite ?andb_false_r; reflexivity.
  - destruct fresh as [f|]; cbn; [|reflexivity].
    destruct (Z.leb_spec (fi + t * sec) now); [lia|]. cbn. reflexivity.
Qed.
