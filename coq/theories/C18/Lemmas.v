(* C18 — proofs about the model of C18/Model.v. *)
From Coq Require Import ZArith List Bool Lia ZifyBool.
From V Require Import C18.Model.
Import ListNotations.
Open Scope Z_scope.

Lemma sec_pos : 0 < sec.
Proof. reflexivity. Qed.

(* ------------------------------------------------------------------ *)
(* Garbage collector                                                   *)
(* ------------------------------------------------------------------ *)

(* a job is due at [now]: finished, TTL set, not being deleted, finish time
   recorded and finish + ttl <= now *)
Definition gc_due (j : gjob) (now : Z) : Prop :=
  finished (g_phase j) = true /\ g_deleting j = false /\
  exists ttl fin, g_ttl j = Some ttl /\ g_finish j = Some fin /\ fin + ttl * sec <= now.

Lemma process_ttl_expired : forall j now,
  process_ttl j now = TtlExpired <-> gc_due j now.
Proof.
  intros j now. unfold process_ttl, time_left, needs_cleanup, gc_due.
  destruct (g_deleting j), (g_ttl j) as [ttl|], (finished (g_phase j)), (g_finish j) as [f|]; cbn;
    try (split; [discriminate | intros (? & ? & ? & ? & ? & ? & ?); congruence]).
  - destruct (Z.leb_spec (f + ttl * sec - now) 0); split; try discriminate; intros H'.
    + repeat split; auto. exists ttl, f. repeat split; auto. lia.
    + reflexivity.
    + destruct H' as (_ & _ & t' & f' & E1 & E2 & ?). inversion E1; inversion E2; subst. lia.
Qed.

Lemma process_ttl_requeue : forall j now d,
  process_ttl j now = TtlRequeue d <->
  finished (g_phase j) = true /\ g_deleting j = false /\
  exists ttl fin, g_ttl j = Some ttl /\ g_finish j = Some fin /\
                  now < fin + ttl * sec /\ d = fin + ttl * sec - now.
Proof.
  intros j now d. unfold process_ttl, time_left, needs_cleanup.
  destruct (g_deleting j), (g_ttl j) as [ttl|], (finished (g_phase j)), (g_finish j) as [f|]; cbn;
    try (split; [discriminate | intros (? & ? & ? & ? & ? & ? & ?); congruence]).
  destruct (Z.leb_spec (f + ttl * sec - now) 0); split; try discriminate; intros H'.
  - destruct H' as (_ & _ & t' & f' & E1 & E2 & ? & ?). inversion E1; inversion E2; subst. lia.
  - inversion H'; subst. repeat split; auto. exists ttl, f. repeat split; auto. lia.
  - destruct H' as (_ & _ & t' & f' & E1 & E2 & ? & ?). inversion E1; inversion E2; subst. reflexivity.
Qed.

(* main: a delete is only issued for a fresh object that is due at the second
   clock reading, and it carries that object's UID; the lister's copy was due
   at the first reading *)
Theorem gc_only_when_due : forall lj fresh now1 now2 uid,
  go_delete (process_job lj fresh now1 now2) = Some uid ->
  exists j f, lj = Some j /\ fresh = Some f /\ gc_due j now1 /\ gc_due f now2 /\ uid = g_uid f /\
              go_requeues (process_job lj fresh now1 now2) = [] /\
              go_err (process_job lj fresh now1 now2) = false.
Proof.
  intros lj fresh now1 now2 uid. unfold process_job.
  destruct lj as [j|]; [|discriminate].
  destruct (process_ttl j now1) eqn:E1; try discriminate.
  destruct fresh as [f|]; [|discriminate].
  destruct (process_ttl f now2) eqn:E2; try discriminate.
  cbn. intros H; inversion H; subst.
  exists j, f. split; [reflexivity|]. split; [reflexivity|].
  split; [now apply process_ttl_expired|]. split; [now apply process_ttl_expired|]. auto.
Qed.

(* otherwise: an eligible object that is not yet due is re-queued after
   exactly finish + ttl - now, and nothing is deleted *)
Theorem gc_requeue_exact : forall j fresh now1 now2 ttl fin,
  finished (g_phase j) = true -> g_deleting j = false ->
  g_ttl j = Some ttl -> g_finish j = Some fin -> now1 < fin + ttl * sec ->
  process_job (Some j) fresh now1 now2 = mkGcOut [fin + ttl * sec - now1] None false.
Proof.
  intros j fresh now1 now2 ttl fin Hf Hd Ht Hfi Hlt. unfold process_job.
  assert (E : process_ttl j now1 = TtlRequeue (fin + ttl * sec - now1)).
  { apply process_ttl_requeue. repeat split; auto. exists ttl, fin. auto. }
  now rewrite E.
Qed.

(* the same for the fresh copy when the lister's copy looked due *)
Theorem gc_requeue_exact_fresh : forall j f now1 now2 ttl fin,
  gc_due j now1 ->
  finished (g_phase f) = true -> g_deleting f = false ->
  g_ttl f = Some ttl -> g_finish f = Some fin -> now2 < fin + ttl * sec ->
  process_job (Some j) (Some f) now1 now2 = mkGcOut [fin + ttl * sec - now2] None false.
Proof.
  intros j f now1 now2 ttl fin Hj Hf Hd Ht Hfi Hlt. unfold process_job.
  apply process_ttl_expired in Hj. rewrite Hj.
  assert (E : process_ttl f now2 = TtlRequeue (fin + ttl * sec - now2)).
  { apply process_ttl_requeue. repeat split; auto. exists ttl, fin. auto. }
  now rewrite E.
Qed.

(* the exact boundary: due iff finish + ttl <= now (so -1 ns is not, 0 is) *)
Theorem gc_boundary : forall j now ttl fin,
  finished (g_phase j) = true -> g_deleting j = false ->
  g_ttl j = Some ttl -> g_finish j = Some fin ->
  (process_ttl j now = TtlExpired <-> fin + ttl * sec <= now).
Proof.
  intros j now ttl fin Hf Hd Ht Hfi. rewrite process_ttl_expired. unfold gc_due. split.
  - intros (_ & _ & t' & f' & E1 & E2 & ?). congruence.
  - intros. repeat split; auto. exists ttl, fin. auto.
Qed.

(* jobs that are not finished, have no TTL or are being deleted are left alone *)
Theorem gc_ignores_live : forall j fresh now1 now2,
  finished (g_phase j) = false \/ g_ttl j = None \/ g_deleting j = true ->
  process_job (Some j) fresh now1 now2 = gc_nothing.
Proof.
  intros j fresh now1 now2 H. unfold process_job, process_ttl, needs_cleanup.
  destruct (g_deleting j), (g_ttl j), (finished (g_phase j)); cbn; try reflexivity;
    destruct H as [H|[H|H]]; discriminate.
Qed.

(* the finish time is the RECORDED one (status.state.lastTransitionTime): the
   creation time plays no role whatsoever ... *)
Theorem gc_creation_irrelevant : forall lj fresh now1 now2 c1 c2,
  let recreate c (j : gjob) := mkGjob (g_uid j) (g_phase j) (g_ttl j) (g_deleting j) (g_finish j) c in
  process_job (option_map (recreate c1) lj) (option_map (recreate c2) fresh) now1 now2 =
  process_job lj fresh now1 now2.
Proof. intros [j|] [f|] now1 now2 c1 c2; reflexivity. Qed.

(* ... and a job without a recorded finish time is never collected, whatever
   its phase, TTL, age and the clock: jobFinishTime fails, processTTL returns
   the error (before any enqueueAfter), processJob hands it to the rate-limited
   retry of handleErr *)
Theorem gc_no_finish_time_never_collected : forall lj f now1 now2,
  g_finish f = None ->
  go_delete (process_job lj (Some f) now1 now2) = None.
Proof.
  intros lj f now1 now2 Hf.
  destruct (go_delete (process_job lj (Some f) now1 now2)) as [uid|] eqn:E; [|reflexivity].
  apply gc_only_when_due in E.
  destruct E as (j & f' & _ & Ef & _ & (_ & _ & ttl & fin & _ & Hfin & _) & _).
  inversion Ef; subst. congruence.
Qed.

Theorem gc_no_finish_time_error : forall j fresh now1 now2,
  finished (g_phase j) = true -> g_deleting j = false -> g_ttl j <> None -> g_finish j = None ->
  process_job (Some j) fresh now1 now2 = mkGcOut [] None true.
Proof.
  intros j fresh now1 now2 Hp Hd Ht Hf. unfold process_job, process_ttl, time_left, needs_cleanup.
  rewrite Hd, Hf. destruct (g_ttl j); [|congruence]. rewrite Hp. reflexivity.
Qed.

Theorem gc_no_finish_time_error_fresh : forall j f now1 now2,
  gc_due j now1 ->
  finished (g_phase f) = true -> g_deleting f = false -> g_ttl f <> None -> g_finish f = None ->
  process_job (Some j) (Some f) now1 now2 = mkGcOut [] None true.
Proof.
  intros j f now1 now2 Hj Hp Hd Ht Hf. unfold process_job.
  apply process_ttl_expired in Hj. rewrite Hj.
  unfold process_ttl, time_left, needs_cleanup.
  rewrite Hd, Hf. destruct (g_ttl f); [|congruence]. rewrite Hp. reflexivity.
Qed.

(* ------------------------------------------------------------------ *)
(* Cron: schedule choice                                               *)
(* ------------------------------------------------------------------ *)

Lemma sec_div_exact : forall k, (k * sec) / sec = k.
Proof. intros. apply Z.div_mul. discriminate. Qed.

Lemma round_sec_exact : forall k, round_sec_s (k * sec) = k.
Proof.
  intros k. unfold round_sec_s.
  assert (Hs : sec / 2 = 500000000) by reflexivity. rewrite Hs.
  assert (Hs2 : sec = 1000000000) by reflexivity.
  destruct (Z.leb_spec 0 (k * sec)).
  - symmetry. apply (Z.div_unique _ _ _ 500000000); lia.
  - assert (E : (- (k * sec) + 500000000) / sec = - k).
    { symmetry. apply (Z.div_unique _ _ _ 500000000); lia. }
    rewrite E. lia.
Qed.

Section Choice.
Variable next : Z -> Z.
(* the hypotheses on [next] are only needed up to an instant [hi] that bounds
   every argument the code passes to it (earliest time and now): a finite
   schedule table ([next_tbl], which answers the zero time past its last point)
   and robfig/cron (which gives up after five years) satisfy them on such a
   window although not for all t *)
Variable hi : Z.

Definition sched (s : Z) : Prop := exists u, u <= hi /\ next u = s.

(* next t is the LEAST schedule point after t; points are whole seconds *)
Hypothesis next_gt : forall t, t <= hi -> t < next t.
Hypothesis next_least : forall t s, t <= hi -> sched s -> t < s -> next t <= s.
Hypothesis next_sec : forall t, t <= hi -> exists k, next t = k * sec.

Lemma no_point_between : forall m now, m <= hi -> now < next m -> forall s, sched s -> m < s -> now < s.
Proof. intros m now Hm H s Hs Hms. pose proof (next_least m s Hm Hs Hms). lia. Qed.

Lemma mr_loop_sound : forall now lb, now <= hi -> forall fuel t most r,
  sched t -> lb < t ->
  (forall m, most = Some m -> sched m /\ lb < m /\ m <= now /\ next m = t) ->
  mr_loop next fuel now t most = Some r ->
  forall m, r = Some m -> sched m /\ lb < m /\ m <= now /\ now < next m.
Proof.
  intros now lb Hnow fuel. induction fuel as [|k IH]; intros t most r Ht Hlb Hm; cbn [mr_loop].
  - destruct (Z.ltb_spec now t); [|discriminate].
    intros E m Hr. inversion E; subst. destruct (Hm m eq_refl) as (? & ? & ? & ?). repeat split; auto. lia.
  - destruct (Z.ltb_spec now t).
    + intros E m Hr. inversion E; subst. destruct (Hm m eq_refl) as (? & ? & ? & ?). repeat split; auto. lia.
    + intros E. eapply IH; [| |  | exact E].
      * exists t. split; [lia|reflexivity].
      * pose proof (next_gt t ltac:(lia)). lia.
      * intros m Em. inversion Em; subst. repeat split; auto.
Qed.

Lemma catch_up_start : forall t1 t2 now,
  (exists a, t1 = a * sec) -> (exists b, t2 = b * sec) -> t1 < t2 -> t2 <= now ->
  1 <= round_sec_s (t2 - t1) /\
  t1 <= t1 + ((now - t1) / sec / round_sec_s (t2 - t1) + 1 - 2) * round_sec_s (t2 - t1) * sec <= now.
Proof.
  intros t1 t2 now [a Ha] [b Hb] Hlt Hle. subst.
  replace (b * sec - a * sec) with ((b - a) * sec) by lia.
  rewrite round_sec_exact.
  pose proof sec_pos as Hs.
  assert (Hba : 1 <= b - a) by nia.
  split; [lia|].
  set (E := (now - a * sec) / sec).
  assert (HE : E * sec <= now - a * sec).
  { unfold E. pose proof (Z.mul_div_le (now - a * sec) sec Hs). lia. }
  assert (He : b - a <= E).
  { unfold E. apply Z.div_le_lower_bound; lia. }
  assert (Hq : 1 <= E / (b - a)).
  { apply Z.div_le_lower_bound; lia. }
  assert (Hq2 : E / (b - a) * (b - a) <= E).
  { pose proof (Z.mul_div_le E (b - a) ltac:(lia)). lia. }
  split; nia.
Qed.

(* main: the chosen time is a schedule point, after the earliest time, not
   after now, and no schedule point lies in (t, now] *)
Theorem most_recent_sound : forall fuel created last deadline now incl e t m,
  earliest_time created last deadline now incl <= hi -> now <= hi ->
  most_recent next fuel created last deadline now incl = (e, MrOk (Some t) m) ->
  e = earliest_time created last deadline now incl /\
  sched t /\ e < t /\ t <= now /\ (forall s, sched s -> t < s -> now < s).
Proof.
  intros fuel created last deadline now incl e t m. unfold most_recent.
  set (e0 := earliest_time created last deadline now incl).
  set (t1 := next e0). set (t2 := next t1). intros He0 Hnow.
  destruct (Z.ltb_spec now t1); [intros E; inversion E|].
  assert (Ht1 : t1 <= hi) by lia.
  destruct (Z.ltb_spec now t2).
  - intros E; inversion E; subst. split; [reflexivity|]. split; [exists e0; auto|].
    split; [apply next_gt; auto|]. split; [assumption|]. apply no_point_between; auto.
  - assert (Hlt : t1 < t2) by (apply next_gt; auto).
    destruct (catch_up_start t1 t2 now (next_sec e0 He0) (next_sec t1 Ht1) Hlt H0) as [Htb Hpe].
    fold t1 t2.
    destruct (Z.ltb_spec (round_sec_s (t2 - t1)) 1); [lia|].
    set (pe := t1 + ((now - t1) / sec / round_sec_s (t2 - t1) + 1 - 2) * round_sec_s (t2 - t1) * sec) in *.
    assert (Hpehi : pe <= hi) by lia.
    destruct (mr_loop next fuel now (next pe) None) as [most|] eqn:EL; [|intros E; inversion E].
    intros E; inversion E; subst. split; [reflexivity|].
    assert (He : e0 < next pe).
    { pose proof (next_gt e0 He0) as G1. pose proof (next_gt pe Hpehi) as G2. fold t1 in G1. lia. }
    destruct (mr_loop_sound now e0 Hnow fuel (next pe) None (Some t)) with (m := t)
      as (Hs & Hl & Hn & Hx); auto.
    + exists pe. auto.
    + intros ? Hd; discriminate.
    + repeat split; auto. apply no_point_between; auto. lia.
Qed.

Theorem cron_choice_sound : forall fuel created last deadline now t,
  earliest_time created last deadline now true <= hi -> now <= hi ->
  next_schedule_time next fuel created last deadline now = NsOk (Some t) ->
  let e := earliest_time created last deadline now true in
  sched t /\ e < t /\ t <= now /\ (forall s, sched s -> t < s -> now < s).
Proof.
  intros fuel created last deadline now t He Hnow. unfold next_schedule_time.
  destruct (most_recent next fuel created last deadline now true) as [e r] eqn:E. cbn [snd].
  destruct r as [| |[t'|] m]; try discriminate.
  destruct (Z.ltb_spec now t'); [discriminate|]. intros H'; inversion H'; subst.
  apply most_recent_sound in E; auto. destruct E as (-> & ?). assumption.
Qed.

(* the loop fuel that suffices: one step per whole second between the start
   of the catch-up and now *)
Lemma mr_loop_fuel : forall now, now <= hi -> forall fuel t most,
  (exists k, t = k * sec) ->
  (Z.to_nat ((now - t) / sec + 1) <= fuel)%nat \/ now < t ->
  mr_loop next fuel now t most <> None.
Proof.
  intros now Hnow fuel. induction fuel as [|f IH]; intros t most [k Hk] Hf; cbn [mr_loop].
  - destruct (Z.ltb_spec now t); [discriminate|]. exfalso.
    destruct Hf as [Hf|Hf]; [|lia]. pose proof sec_pos.
    assert (0 <= (now - t) / sec) by (apply Z.div_pos; lia). lia.
  - destruct (Z.ltb_spec now t); [discriminate|].
    pose proof sec_pos as Hs.
    destruct (next_sec t ltac:(lia)) as [k' Hk']. pose proof (next_gt t ltac:(lia)) as Hgt.
    apply IH; [eauto|].
    destruct (Z.ltb_spec now (next t)); [right; assumption|left].
    destruct Hf as [Hf|Hf]; [|lia].
    assert (Hstep : (now - next t) / sec + 1 <= (now - t) / sec).
    { subst t. rewrite Hk' in *. assert (k + 1 <= k') by nia.
      replace (now - k * sec) with ((now - k' * sec) + (k' - k) * sec) by lia.
      rewrite Z.div_add by lia. lia. }
    assert (0 <= (now - next t) / sec) by (apply Z.div_pos; lia).
    lia.
Qed.

Theorem most_recent_fuel_enough : forall fuel created last deadline now incl,
  earliest_time created last deadline now incl <= hi -> now <= hi ->
  (Z.to_nat ((now - earliest_time created last deadline now incl) / sec + 1) <= fuel)%nat ->
  snd (most_recent next fuel created last deadline now incl) <> MrFuel.
Proof.
  intros fuel created last deadline now incl. unfold most_recent.
  set (e0 := earliest_time created last deadline now incl).
  set (t1 := next e0). set (t2 := next t1). intros He0 Hnow Hfuel.
  destruct (Z.ltb_spec now t1); [cbn; discriminate|].
  assert (Ht1 : t1 <= hi) by lia.
  destruct (Z.ltb_spec now t2); [cbn; discriminate|].
  assert (Hlt : t1 < t2) by (apply next_gt; auto).
  destruct (catch_up_start t1 t2 now (next_sec e0 He0) (next_sec t1 Ht1) Hlt H0) as [Htb Hpe].
  fold t1 t2.
  destruct (Z.ltb_spec (round_sec_s (t2 - t1)) 1); [lia|].
  set (pe := t1 + ((now - t1) / sec / round_sec_s (t2 - t1) + 1 - 2) * round_sec_s (t2 - t1) * sec) in *.
  assert (Hpehi : pe <= hi) by lia.
  destruct (mr_loop next fuel now (next pe) None) as [most|] eqn:EL; [cbn; discriminate|].
  exfalso. revert EL. apply mr_loop_fuel; auto.
  pose proof (next_gt e0 He0) as G1. pose proof (next_gt pe Hpehi) as G2. fold t1 in G1.
  destruct (Z.ltb_spec now (next pe)); [right; assumption|left].
  pose proof sec_pos as Hs.
  assert ((now - next pe) / sec <= (now - e0) / sec) by (apply Z.div_le_mono; lia).
  assert (0 <= (now - next pe) / sec) by (apply Z.div_pos; lia).
  lia.
Qed.

(* the earliest time is never before the last schedule time *)
Lemma earliest_ge_last : forall created l deadline now incl,
  l <= earliest_time created (Some l) deadline now incl.
Proof.
  intros. unfold earliest_time. destruct incl; [|lia]. destruct deadline; [|lia].
  destruct (Z.ltb_spec l (now - z * sec)); lia.
Qed.

Lemma earliest_ge_created : forall created deadline now incl,
  created <= earliest_time created None deadline now incl.
Proof.
  intros. unfold earliest_time. destruct incl; [|lia]. destruct deadline; [|lia].
  destruct (Z.ltb_spec created (now - z * sec)); lia.
Qed.

(* ---------------- completeness for constant-period schedules ---------------- *)
Section Regular.
Variable p : Z.   (* the period in seconds *)
Hypothesis p_pos : 0 < p.
Hypothesis next_regular : forall s, s <= hi -> sched s -> next s = s + p * sec.

Lemma regular_iter : forall s, sched s -> forall k, 0 <= k -> s + k * (p * sec) <= hi ->
  sched (s + k * (p * sec)) /\ next (s + k * (p * sec)) = s + (k + 1) * (p * sec).
Proof.
  intros s Hs k Hk. pattern k. apply natlike_ind; [| |assumption].
  - intros Hb. replace (s + 0 * (p * sec)) with s in * by lia. split; auto. rewrite next_regular; auto. lia.
  - intros x Hx IH Hb. unfold Z.succ in *. pose proof sec_pos.
    destruct IH as [IH1 IH2]; [nia|].
    assert (S1 : sched (s + (x + 1) * (p * sec))). { exists (s + x * (p * sec)). split; [nia|exact IH2]. }
    split; auto. rewrite next_regular; auto. lia.
Qed.

Theorem cron_choice_complete_regular : forall fuel created last deadline now,
  (2 <= fuel)%nat ->
  let e := earliest_time created last deadline now true in
  e <= hi -> now <= hi ->
  (exists s, sched s /\ e < s /\ s <= now) ->
  exists t, next_schedule_time next fuel created last deadline now = NsOk (Some t).
Proof.
  intros fuel created last deadline now Hfuel e Hehi Hnow (s & Hs & Hes & Hsn).
  unfold next_schedule_time, most_recent. fold e.
  set (t1 := next e). set (t2 := next t1).
  assert (Ht1 : t1 <= s) by (apply next_least; auto).
  destruct (Z.ltb_spec now t1); [lia|].
  destruct (Z.ltb_spec now t2).
  - cbn [snd]. destruct (Z.ltb_spec now t1); [lia|]. now exists t1.
  - assert (S1 : sched t1) by (exists e; auto).
    assert (E2 : t2 = t1 + p * sec) by (apply next_regular; auto; lia).
    pose proof sec_pos as Hsec.
    replace (t2 - t1) with (p * sec) by lia. rewrite round_sec_exact.
    destruct (Z.ltb_spec p 1); [lia|].
    set (E := (now - t1) / sec).
    assert (HE1 : E * sec <= now - t1 < (E + 1) * sec).
    { unfold E. pose proof (Z.mul_div_le (now - t1) sec Hsec).
      pose proof (Z.mul_succ_div_gt (now - t1) sec Hsec). lia. }
    assert (HEp : p <= E). { unfold E. apply Z.div_le_lower_bound; lia. }
    set (q := E / p).
    assert (Hq : q * p <= E < (q + 1) * p).
    { unfold q. pose proof (Z.mul_div_le E p p_pos). pose proof (Z.mul_succ_div_gt E p p_pos). lia. }
    assert (Hq1 : 1 <= q) by (unfold q; apply Z.div_le_lower_bound; lia).
    replace (t1 + (q + 1 - 2) * p * sec) with (t1 + (q - 1) * (p * sec)) by lia.
    destruct (regular_iter t1 S1 (q - 1)) as [Sp Np]; [lia|nia|].
    rewrite Np. replace (q - 1 + 1) with q by lia.
    destruct (regular_iter t1 S1 q) as [Sq Nq]; [lia|nia|].
    destruct fuel as [|[|f]]; [lia|lia|].
    cbn [mr_loop].
    destruct (Z.ltb_spec now (t1 + q * (p * sec))); [nia|].
    rewrite Nq.
    assert (Hgt : now < t1 + (q + 1) * (p * sec)) by nia.
    assert (Hb : (now <? t1 + (q + 1) * (p * sec)) = true) by (apply Z.ltb_lt; exact Hgt).
    destruct f; cbn [mr_loop]; rewrite Hb; cbn [snd];
      (destruct (Z.ltb_spec now (t1 + q * (p * sec))); [lia|]); eexists; reflexivity.
Qed.
End Regular.
End Choice.

(* ------------------------------------------------------------------ *)
(* Cron: the controller                                                 *)
(* ------------------------------------------------------------------ *)

Lemma fold_left_inv : forall {A B} (P : A -> Prop) (f : A -> B -> A) l a,
  P a -> (forall a b, P a -> P (f a b)) -> P (fold_left f l a).
Proof. intros A B P f l. induction l; cbn; auto. Qed.

Lemma del_active_incl : forall a u, incl (del_active a u) a.
Proof. intros a u x Hx. unfold del_active in Hx. apply filter_In in Hx. tauto. Qed.

Lemma remove_job_incl : forall js n, incl (remove_job js n) js.
Proof. intros js n x Hx. unfold remove_job in Hx. apply filter_In in Hx. tauto. Qed.

Lemma find_job_In : forall js n j, find_job js n = Some j -> In j js /\ j_name j = n.
Proof.
  induction js as [|k r IH]; cbn; [discriminate|]. intros n j.
  destruct (Z.eqb_spec (j_name k) n).
  - intros E; inversion E; subst. auto.
  - intros E. apply IH in E. tauto.
Qed.

Lemma insert_job_In : forall j js x, In x (insert_job j js) -> x = j \/ In x js.
Proof.
  induction js as [|k r IH]; cbn; intros x.
  - intros [H|[]]; auto.
  - destruct (j_name j <=? j_name k); cbn.
    + intros [H|H]; auto.
    + intros [H|H]; auto. apply IH in H. tauto.
Qed.

Lemma as_cur_del : forall s u,
  as_cur (as_del s u) = as_cur s \/
  as_cur (as_del s u) = filter (fun r => negb (r_uid r =? u)) (as_cur s).
Proof.
  intros s u. unfold as_del.
  set (kept := filter (fun r => negb (r_uid r =? u)) (as_cur s)).
  destruct (length kept <? alen s)%nat; [right|left; reflexivity].
  unfold as_cur at 1. cbn [bk alen].
  rewrite firstn_app, Nat.sub_diag, firstn_all. cbn. apply app_nil_r.
Qed.

Lemma as_del_incl : forall s u, incl (as_cur (as_del s u)) (as_cur s).
Proof.
  intros s u. destruct (as_cur_del s u) as [E|E]; rewrite E; [apply incl_refl|].
  intros x Hx. apply filter_In in Hx. tauto.
Qed.

Lemma as_cur_of : forall a, as_cur (as_of a) = a.
Proof. intros. unfold as_cur, as_of. cbn. apply firstn_all. Qed.

Lemma ins_sorted_incl : forall j l x, In x (ins_sorted j l) -> x = j \/ In x l.
Proof.
  induction l as [|k r IH]; cbn; intros x.
  - intros [H|[]]; auto.
  - destruct (job_less k j); cbn; intros [H|H]; auto. apply IH in H. tauto.
Qed.

Lemma sort_jobs_incl : forall l, incl (sort_jobs l) l.
Proof.
  induction l as [|j r IH]; cbn; [apply incl_refl|].
  intros x Hx. apply ins_sorted_incl in Hx. destruct Hx; [left; auto|right; auto].
Qed.

Lemma firstn_incl : forall {A} n (l : list A), incl (firstn n l) l.
Proof. intros A n l x Hx. rewrite <- (firstn_skipn n l). apply in_or_app. auto. Qed.

Section Controller.
Variable next : Z -> Z.
Variable lenient : bool.
(* as in Section Choice: only up to an instant [hi] that bounds the creation
   time, the last schedule time and every now of the history *)
Variable hi : Z.
Hypothesis next_gt : forall t, t <= hi -> t < next t.
Hypothesis next_sec : forall t, t <= hi -> exists k, next t = k * sec.

(* only [earliest < t] is needed below; it does not use leastness *)
Lemma chosen_after_earliest : forall fuel created last deadline now t,
  earliest_time created last deadline now true <= hi -> now <= hi ->
  next_schedule_time next fuel created last deadline now = NsOk (Some t) ->
  earliest_time created last deadline now true < t /\ t <= now.
Proof.
  intros fuel created last deadline now t. unfold next_schedule_time, most_recent.
  set (e0 := earliest_time created last deadline now true).
  set (t1 := next e0). set (t2 := next t1). intros He0 Hnow.
  destruct (Z.ltb_spec now t1); [discriminate|].
  assert (Ht1 : t1 <= hi) by lia.
  destruct (Z.ltb_spec now t2); cbn [snd].
  - destruct (Z.ltb_spec now t1); [discriminate|]. intros E; inversion E; subst. split; [apply next_gt; auto|lia].
  - assert (Hlt : t1 < t2) by (apply next_gt; auto).
    destruct (catch_up_start t1 t2 now (next_sec e0 He0) (next_sec t1 Ht1) Hlt H0) as [Htb Hpe].
    destruct (Z.ltb_spec (round_sec_s (t2 - t1)) 1); [lia|].
    set (pe := t1 + ((now - t1) / sec / round_sec_s (t2 - t1) + 1 - 2) * round_sec_s (t2 - t1) * sec) in *.
    destruct (mr_loop next fuel now (next pe) None) as [[m|]|] eqn:EL; cbn [snd]; try discriminate.
    destruct (Z.ltb_spec now m); [discriminate|]. intros E; inversion E; subst.
    assert (G : forall fuel x most r, e0 < x ->
              (forall y, most = Some y -> e0 < y) ->
              mr_loop next fuel now x most = Some r -> forall y, r = Some y -> e0 < y).
    { clear - next_gt Hnow. induction fuel as [|k IH]; intros x most r Hx Hm; cbn [mr_loop].
      - destruct (now <? x); [|discriminate]. intros E y Hy. inversion E; subst. auto.
      - destruct (Z.ltb_spec now x).
        + intros E y Hy. inversion E; subst. auto.
        + apply IH. * pose proof (next_gt x ltac:(lia)). lia. * intros y Hy. inversion Hy; subst. auto. }
    split; [|assumption].
    eapply (G fuel (next pe) None); [| |exact EL|reflexivity].
    + pose proof (next_gt e0 He0) as G1. pose proof (next_gt pe ltac:(lia)) as G2. fold t1 in G1. lia.
    + intros ? Hd; discriminate.
Qed.

Lemma chosen_after_last : forall fuel created l deadline now t,
  earliest_time created (Some l) deadline now true <= hi -> now <= hi ->
  next_schedule_time next fuel created (Some l) deadline now = NsOk (Some t) -> l < t.
Proof.
  intros. apply chosen_after_earliest in H1; auto. pose proof (earliest_ge_last created l deadline now true). lia.
Qed.

(* everything the controller passes to [next] stays below [hi] *)
Definition bounded (s : cstate) : Prop :=
  c_created (s_spec s) <= hi /\
  (forall l, st_last (s_status s) = Some l -> l <= hi) /\
  (forall d, c_deadline (s_spec s) = Some d -> 0 <= d).

Lemma earliest_le_hi : forall created last deadline now incl,
  created <= hi -> (forall l, last = Some l -> l <= hi) -> (forall d, deadline = Some d -> 0 <= d) ->
  now <= hi -> earliest_time created last deadline now incl <= hi.
Proof.
  intros created last deadline now incl Hc Hl Hd Hn. unfold earliest_time. pose proof sec_pos.
  assert (match last with Some l => l | None => created end <= hi).
  { destruct last as [l|]; auto. }
  destruct incl; [|assumption]. destruct deadline as [d|]; [|assumption].
  specialize (Hd d eq_refl). destruct (Z.ltb_spec (match last with Some l => l | None => created end) (now - d * sec)); nia.
Qed.

(* ---- fin ---- *)
Lemma fin_spec : forall fuel spec now hd st' jobs' uid' upd cr rd a b c o,
  fin next fuel spec now hd st' jobs' uid' upd cr rd = (a, b, c, o) ->
  a = st' /\ b = jobs' /\ c = uid' /\ o_creates o = cr /\ o_status o = st' /\ o_upd o = upd /\
  o_hist_deletes o = hd /\ o_repl_deletes o = rd /\ (o_err o = E_OK \/ o_err o = E_FUEL).
Proof.
  intros until o. unfold fin.
  destruct (requeue_after next fuel (c_created spec) (st_last st') (c_deadline spec) now);
    intros E; inversion E; subst; cbn; repeat split; auto.
Qed.

(* ---- Replace loop and the policy ---- *)
Lemma replace_loop_incl : forall idx s jobs dels upd s' jobs' dels' upd' ok,
  replace_loop idx s jobs dels upd = (s', jobs', dels', upd', ok) ->
  incl (as_cur s') (as_cur s) /\ incl jobs' jobs.
Proof.
  induction idx as [|i rest IH]; cbn; intros until ok.
  - intros E; inversion E; subst. split; apply incl_refl.
  - destruct (nth_error (bk s) i) as [r|]; [|intros E; inversion E; subst; split; apply incl_refl].
    destruct (find_job jobs (r_name r)) as [j|]; [|intros E; inversion E; subst; split; apply incl_refl].
    intros E. apply IH in E. destruct E as [E1 E2]. split.
    + eapply incl_tran; [exact E1|apply as_del_incl].
    + eapply incl_tran; [exact E2|apply remove_job_incl].
Qed.

Lemma apply_policy_spec : forall spec st jobs upd0 skip st1 jobs1 rd upd1 ok,
  apply_policy spec st jobs upd0 = (skip, st1, jobs1, rd, upd1, ok) ->
  incl (st_active st1) (st_active st) /\ incl jobs1 jobs /\ st_last st1 = st_last st /\
  (c_policy spec = Forbid -> skip = false -> st_active st = []).
Proof.
  intros until ok. unfold apply_policy. destruct (c_policy spec).
  - intros E; inversion E; subst. repeat split; try apply incl_refl. discriminate.
  - destruct (st_active st) eqn:Ea; intros E; inversion E; subst; rewrite ?Ea;
      repeat split; try apply incl_refl; auto. discriminate.
  - destruct (replace_loop (seq 0 (length (st_active st))) (as_of (st_active st)) jobs [] false)
      as [[[[s j'] d'] u'] o'] eqn:ER.
    intros E; inversion E; subst. apply replace_loop_incl in ER. rewrite as_cur_of in ER.
    cbn. repeat split; try tauto. discriminate.
Qed.

(* ---- what a reconcile can start, and what it does to lastScheduleTime ---- *)
Definition uid_ok (n : Z) (a : list jref) (js : list job) : Prop :=
  Forall (fun r => r_uid r < n) a /\ Forall (fun j => j_uid j < n) js.

Lemma uid_ok_incl : forall n a js a' js', uid_ok n a js -> incl a' a -> incl js' js -> uid_ok n a' js'.
Proof. intros n a js a' js' [H1 H2] I1 I2. split; eapply incl_Forall; eauto. Qed.

Lemma uid_ok_mono : forall n m a js, uid_ok n a js -> n <= m -> uid_ok m a js.
Proof.
  intros n m a js [H1 H2] L. split; eapply Forall_impl; try eassumption; cbn; intros; lia.
Qed.

Lemma in_active_false : forall a n, Forall (fun r => r_uid r < n) a -> in_active a n = false.
Proof.
  intros a n H. unfold in_active. induction H; cbn; auto.
  rewrite IHForall. destruct (Z.eqb_spec (r_uid x) n); [lia|reflexivity].
Qed.

Definition starts (o : rout) (t : Z) : Prop := o_creates o = [(job_name_of t, t)].

Lemma create_job_spec : forall fuel spec now hd fc t st1 jobs1 uid upd1 rd st' jobs' uid' o,
  create_job next lenient fuel spec now hd fc t st1 jobs1 uid upd1 rd = (st', jobs', uid', o) ->
  uid_ok uid (st_active st1) jobs1 ->
  o_status o = st' /\ o_hist_deletes o = hd /\ o_repl_deletes o = rd /\
  uid <= uid' /\ uid_ok uid' (st_active st') jobs' /\
  ((o_creates o = [] /\ (st_last st' = st_last st1 \/ (st_last st' = Some t /\ o_upd o = true))) \/
   (starts o t /\ st_last st' = Some t /\ o_upd o = true /\ (o_err o = E_OK \/ o_err o = E_FUEL) /\
    st_active st' = st_active st1 ++ [mkRef (job_name_of t) uid])).
Proof.
  intros until o. intros E Hok. unfold create_job in E.
  assert (Same : forall upd,
    fin next fuel spec now hd st1 jobs1 uid upd [] rd = (st', jobs', uid', o) ->
    o_status o = st' /\ o_hist_deletes o = hd /\ o_repl_deletes o = rd /\
    uid <= uid' /\ uid_ok uid' (st_active st') jobs' /\
    ((o_creates o = [] /\ (st_last st' = st_last st1 \/ (st_last st' = Some t /\ o_upd o = true))) \/
     (starts o t /\ st_last st' = Some t /\ o_upd o = true /\ (o_err o = E_OK \/ o_err o = E_FUEL) /\
      st_active st' = st_active st1 ++ [mkRef (job_name_of t) uid]))).
  { intros upd E'. apply fin_spec in E'. destruct E' as (-> & -> & -> & Ec & Es & Eu & Eh & Er & Ee).
    split; [auto|]. split; [auto|]. split; [auto|]. split; [lia|]. split; [exact Hok|].
    left. split; auto. }
  destruct fc.
  { inversion E; subst; cbn. split; [auto|]. split; [auto|]. split; [auto|]. split; [lia|]. split; [exact Hok|].
    left. auto. }
  destruct (find_job jobs1 (job_name_of t)) as [ex|] eqn:EF.
  - destruct (negb lenient).
    { inversion E; subst; cbn. split; [auto|]. split; [auto|]. split; [auto|]. split; [lia|]. split; [exact Hok|].
      left. auto. }
    apply find_job_In in EF. destruct EF as [Hin _].
    assert (Hex : j_uid ex < uid). { destruct Hok as [_ H2]. rewrite Forall_forall in H2. auto. }
    destruct (j_owner ex); try (eapply Same; exact E).
    destruct (finished (j_phase ex)); [eapply Same; exact E|].
    destruct (in_active (st_active st1) (j_uid ex)); [eapply Same; exact E|].
    apply fin_spec in E; destruct E as (-> & -> & -> & Ec & Es & Eu & Eh & Er & Ee).
    split; [auto|]. split; [auto|]. split; [auto|]. split; [lia|]. split.
    + split; [|apply Hok]. cbn. apply Forall_app. split; [apply Hok|]. constructor; [cbn; lia|constructor].
    + left. split; auto.
  - assert (Hfresh : in_active (st_active st1) uid = false) by (apply in_active_false; apply Hok).
    rewrite Hfresh in E.
    apply fin_spec in E; destruct E as (-> & -> & -> & Ec & Es & Eu & Eh & Er & Ee).
    split; [auto|]. split; [auto|]. split; [auto|]. split; [lia|]. split.
    + split.
      * cbn. apply Forall_app. split.
        -- eapply Forall_impl; [|apply Hok]. cbn; intros; lia.
        -- constructor; [cbn; lia|constructor].
      * rewrite Forall_forall. intros x Hx. apply insert_job_In in Hx. destruct Hx as [->|Hx]; [cbn; lia|].
        destruct Hok as [_ H2]. rewrite Forall_forall in H2. specialize (H2 x Hx). lia.
    + right. repeat split; auto.
Qed.

Lemma decide_spec : forall fuel spec st jobs uid now fc upd0 hd st' jobs' uid' o,
  decide next lenient fuel spec st jobs uid now fc upd0 hd = (st', jobs', uid', o) ->
  uid_ok uid (st_active st) jobs ->
  o_status o = st' /\ o_hist_deletes o = hd /\ uid <= uid' /\ uid_ok uid' (st_active st') jobs' /\
  ((o_creates o = [] /\
    (st_last st' = st_last st \/
     exists t, next_schedule_time next fuel (c_created spec) (st_last st) (c_deadline spec) now = NsOk (Some t) /\
               st_last st' = Some t /\ o_upd o = true)) \/
   (exists t, starts o t /\
              next_schedule_time next fuel (c_created spec) (st_last st) (c_deadline spec) now = NsOk (Some t) /\
              c_suspend spec = false /\ (c_policy spec = Forbid -> st_active st = []) /\
              st_last st' = Some t /\ o_upd o = true /\ (o_err o = E_OK \/ o_err o = E_FUEL) /\
              (c_policy spec = Forbid -> st_active st' = [mkRef (job_name_of t) uid]))).
Proof.
  intros until o. intros E Hok. unfold decide in E.
  destruct (c_suspend spec) eqn:Esus.
  { inversion E; subst; cbn. split; [auto|]. split; [auto|]. split; [lia|]. split; [exact Hok|]. left. auto. }
  destruct (c_tz_ok spec) eqn:Etz; cbn [negb] in E.
  2:{ inversion E; subst; cbn. split; [auto|]. split; [auto|]. split; [lia|]. split; [exact Hok|]. left. auto. }
  destruct (next_schedule_time next fuel (c_created spec) (st_last st) (c_deadline spec) now) as [| |[t|]] eqn:EN.
  { inversion E; subst; cbn. split; [auto|]. split; [auto|]. split; [lia|]. split; [exact Hok|]. left. auto. }
  { inversion E; subst; cbn. split; [auto|]. split; [auto|]. split; [lia|]. split; [exact Hok|]. left. auto. }
  2:{ apply fin_spec in E; destruct E as (-> & -> & -> & Ec & Es & Eu & Eh & Er & Ee).
      split; [auto|]. split; [auto|]. split; [lia|]. split; [exact Hok|]. left. auto. }
  destruct (in_active_by_name (st_active st) (job_name_of t) ||
            match st_last st with Some l => l =? t | None => false end).
  { apply fin_spec in E; destruct E as (-> & -> & -> & Ec & Es & Eu & Eh & Er & Ee).
    split; [auto|]. split; [auto|]. split; [lia|]. split; [exact Hok|]. left. auto. }
  destruct (apply_policy spec st jobs upd0) as [[[[[skip st1] jobs1] rd] upd1] ok] eqn:EP.
  apply apply_policy_spec in EP. destruct EP as (I1 & I2 & EL & HF).
  assert (Hok1 : uid_ok uid (st_active st1) jobs1) by (eapply uid_ok_incl; eauto).
  destruct ok; cbn [negb] in E.
  2:{ inversion E; subst; cbn. split; [auto|]. split; [auto|]. split; [lia|]. split; [exact Hok1|]. left. auto. }
  destruct skip.
  { apply fin_spec in E; destruct E as (-> & -> & -> & Ec & Es & Eu & Eh & Er & Ee).
    split; [auto|]. split; [auto|]. split; [lia|]. split; [exact Hok1|]. left. auto. }
  apply create_job_spec in E; auto.
  destruct E as (Es & Eh & Er & Hu & Hok' & [[Ec HL]|(Hs & HL & Hupd & He & Ha)]).
  - split; [auto|]. split; [auto|]. split; [lia|]. split; [exact Hok'|].
    left. split; auto. rewrite EL in HL. destruct HL as [HL|[HL HU]]; auto.
    right. exists t. auto.
  - split; [auto|]. split; [auto|]. split; [lia|]. split; [exact Hok'|].
    right. exists t. split; [auto|]. split; [auto|]. split; [auto|].
    split; [intros HFb; exact (HF HFb eq_refl)|]. split; [auto|]. split; [auto|]. split; [auto|].
    intros HFb. rewrite Ha. specialize (HF HFb eq_refl).
    assert (H0 : st_active st1 = []).
    { destruct (st_active st1) as [|x r]; auto. specialize (I1 x (or_introl eq_refl)). rewrite HF in I1. destruct I1. }
    rewrite H0. reflexivity.
Qed.

(* ---- the clean-up half ---- *)
Lemma pf_step_inv : forall acc j st upd succ failed,
  pf_step acc j = (st, upd, succ, failed) ->
  let '(st0, upd0, succ0, failed0) := acc in
  st_last st = st_last st0 /\ incl (st_active st) (st_active st0) /\
  (forall x, In x succ -> In x succ0 \/ (x = j /\ j_phase j = PhCompleted)) /\
  (forall x, In x failed -> In x failed0 \/ (x = j /\ j_phase j = PhFailed)).
Proof.
  intros [[[st0 upd0] succ0] failed0] j st upd succ failed. unfold pf_step.
  assert (Close : forall st1 succ1 failed1 upd1,
    st_last st1 = st_last st0 -> incl (st_active st1) (st_active st0) ->
    (forall x, In x succ1 -> In x succ0 \/ (x = j /\ j_phase j = PhCompleted)) ->
    (forall x, In x failed1 -> In x failed0 \/ (x = j /\ j_phase j = PhFailed)) ->
    (st1, upd1, succ1, failed1) = (st, upd, succ, failed) ->
    st_last st = st_last st0 /\ incl (st_active st) (st_active st0) /\
    (forall x, In x succ -> In x succ0 \/ (x = j /\ j_phase j = PhCompleted)) /\
    (forall x, In x failed -> In x failed0 \/ (x = j /\ j_phase j = PhFailed))).
  { intros ? ? ? ? ? ? ? ? E; inversion E; subst; auto. }
  assert (App : forall (l : list job) ph, j_phase j = ph ->
                forall x, In x (l ++ [j]) -> In x l \/ (x = j /\ j_phase j = ph)).
  { intros l ph Hp x Hx. apply in_app_or in Hx. destruct Hx as [Hx|[Hx|[]]]; auto. }
  intros E.
  destruct (st_last_success st0) as [ls|] eqn:Els; destruct (j_finish j) as [f|] eqn:Efin;
    destruct (in_active (st_active st0) (j_uid j)) eqn:Eia; destruct (j_phase j) eqn:Ep;
    cbn [finished] in E; cbn -[Z.ltb after_ls] in E;
    repeat (rewrite ?Els in E; cbn -[Z.ltb after_ls] in E);
    repeat match type of E with context [if ?b then _ else _] => destruct b end;
    cbn -[Z.ltb after_ls] in E;
    (eapply Close; [| | | |exact E]); cbn; auto; try apply incl_refl; try apply del_active_incl;
    try (apply App; assumption).
Qed.

Lemma delete_each_spec : forall victims st jobs dels upd st' jobs' dels' upd',
  delete_each victims st jobs dels upd = (st', jobs', dels', upd') ->
  st_last st' = st_last st /\ incl (st_active st') (st_active st) /\ incl jobs' jobs /\
  dels' = dels ++ map j_name victims.
Proof.
  induction victims as [|v r IH]; cbn; intros until upd'.
  - intros E; inversion E; subst. repeat split; try apply incl_refl. now rewrite app_nil_r.
  - destruct (find_job jobs (j_name v)); intros E; apply IH in E;
      destruct E as (E1 & E2 & E3 & E4); subst; cbn in *; rewrite <- app_assoc; cbn; repeat split; auto.
    + eapply incl_tran; [exact E2|apply del_active_incl].
    + eapply incl_tran; [exact E3|apply remove_job_incl].
Qed.

Lemma remove_oldest_spec : forall js limit st jobs dels upd st' jobs' dels' upd',
  remove_oldest js limit st jobs dels upd = (st', jobs', dels', upd') ->
  st_last st' = st_last st /\ incl (st_active st') (st_active st) /\ incl jobs' jobs /\
  exists vs, incl vs js /\ dels' = dels ++ map j_name vs.
Proof.
  intros until upd'. unfold remove_oldest. destruct limit as [mx|].
  2:{ intros E; inversion E; subst. repeat split; try apply incl_refl. exists []. split; [intros ? []|now rewrite app_nil_r]. }
  destruct (Z.of_nat (length js) - mx <=? 0).
  { intros E; inversion E; subst. repeat split; try apply incl_refl. exists []. split; [intros ? []|now rewrite app_nil_r]. }
  intros E. apply delete_each_spec in E. destruct E as (E1 & E2 & E3 & E4). repeat split; auto.
  eexists. split; [|exact E4]. eapply incl_tran; [apply firstn_incl|apply sort_jobs_incl].
Qed.

Definition is_hist_victim (jobs : list job) (name : Z) : Prop :=
  exists j, In j jobs /\ j_name j = name /\ j_owner j = OwnThis /\
            (j_phase j = PhCompleted \/ j_phase j = PhFailed).

Lemma mine_of_In : forall jobs j, In j (mine_of jobs) -> In j jobs /\ j_owner j = OwnThis.
Proof.
  intros jobs j H. unfold mine_of in H. apply filter_In in H. destruct H as [H1 H2].
  destruct (j_owner j); try discriminate. auto.
Qed.

Lemma process_finished_spec : forall spec st jobs st' jobs' hd upd,
  process_finished spec st (mine_of jobs) jobs = (st', jobs', hd, upd) ->
  st_last st' = st_last st /\ incl (st_active st') (st_active st) /\ incl jobs' jobs /\
  Forall (is_hist_victim jobs) hd.
Proof.
  intros until upd. unfold process_finished.
  destruct (fold_left pf_step (mine_of jobs) (st, false, [], [])) as [[[st1 upd1] succ] failed] eqn:EF.
  assert (Inv : st_last st1 = st_last st /\ incl (st_active st1) (st_active st) /\
                (forall x, In x succ -> In x (mine_of jobs) /\ j_phase x = PhCompleted) /\
                (forall x, In x failed -> In x (mine_of jobs) /\ j_phase x = PhFailed)).
  { assert (G : forall l acc, incl l (mine_of jobs) ->
      (let '(s0, _, su0, fa0) := acc in
       st_last s0 = st_last st /\ incl (st_active s0) (st_active st) /\
       (forall x, In x su0 -> In x (mine_of jobs) /\ j_phase x = PhCompleted) /\
       (forall x, In x fa0 -> In x (mine_of jobs) /\ j_phase x = PhFailed)) ->
      let '(s1, _, su1, fa1) := fold_left pf_step l acc in
       st_last s1 = st_last st /\ incl (st_active s1) (st_active st) /\
       (forall x, In x su1 -> In x (mine_of jobs) /\ j_phase x = PhCompleted) /\
       (forall x, In x fa1 -> In x (mine_of jobs) /\ j_phase x = PhFailed)).
    { induction l as [|j r IH]; cbn; intros acc Hl Hacc; [exact Hacc|].
      apply IH; [intros x Hx; apply Hl; right; auto|].
      destruct (pf_step acc j) as [[[s1 u1] su1] fa1] eqn:EP.
      pose proof (pf_step_inv acc j s1 u1 su1 fa1 EP) as P.
      destruct acc as [[[s0 u0] su0] fa0]. destruct Hacc as (A1 & A2 & A3 & A4). destruct P as (P1 & P2 & P3 & P4).
      split; [congruence|]. split; [eapply incl_tran; eauto|]. split.
      - intros x Hx. destruct (P3 x Hx) as [H|[-> H]]; auto. split; auto. apply Hl. left; auto.
      - intros x Hx. destruct (P4 x Hx) as [H|[-> H]]; auto. split; auto. apply Hl. left; auto. }
    specialize (G (mine_of jobs) (st, false, [], []) (incl_refl _)). rewrite EF in G. apply G.
    split; [reflexivity|]. split; [apply incl_refl|]. split; intros ? []. }
  destruct Inv as (I1 & I2 & I3 & I4).
  destruct (c_fail_limit spec) as [fl|] eqn:Efl, (c_succ_limit spec) as [sl|] eqn:Esl.
  4:{ intros E; inversion E; subst. repeat split; auto. apply incl_refl. }
  all: destruct (remove_oldest succ _ st1 jobs [] upd1) as [[[st2 jobs2] dels2] upd2] eqn:ER1;
    intros ER2; apply remove_oldest_spec in ER1; apply remove_oldest_spec in ER2;
    destruct ER1 as (A1 & A2 & A3 & vs1 & V1 & D1); destruct ER2 as (B1 & B2 & B3 & vs2 & V2 & D2);
    (split; [congruence|]); (split; [eapply incl_tran; [exact B2|eapply incl_tran; eauto]|]);
    (split; [eapply incl_tran; eauto|]);
    subst; cbn; rewrite Forall_app; split; rewrite Forall_forall; intros n Hn;
    apply in_map_iff in Hn; destruct Hn as (v & <- & Hv).
  all: try (apply V1 in Hv; apply I3 in Hv; destruct Hv as [Hv Hp]; apply mine_of_In in Hv;
            exists v; repeat split; try tauto).
  all: try (apply V2 in Hv; apply I4 in Hv; destruct Hv as [Hv Hp]; apply mine_of_In in Hv;
            exists v; repeat split; try tauto).
Qed.

Lemma clean_stale_incl : forall lister mine a a' upd,
  clean_stale lister mine a = (a', upd) -> incl a' a.
Proof.
  intros lister mine a a' upd. unfold clean_stale.
  destruct (fold_left (stale_step lister (map j_uid mine)) (seq 0 (length a)) (as_of a, false)) as [s u] eqn:EF.
  intros E; inversion E; subst.
  assert (G : incl (as_cur (fst (fold_left (stale_step lister (map j_uid mine)) (seq 0 (length a)) (as_of a, false)))) a).
  { apply (fold_left_inv (fun acc : aslice * bool => incl (as_cur (fst acc)) a)).
    - cbn [fst]. rewrite as_cur_of. apply incl_refl.
    - intros [s0 u0] i H. cbn [fst] in *. unfold stale_step.
      destruct (nth_error (bk s0) i) as [r|]; [|exact H].
      destruct (existsb (Z.eqb (r_uid r)) (map j_uid mine)); [exact H|].
      destruct (find_job lister (r_name r)) as [j|].
      + destruct (j_uid j =? r_uid r); [exact H|]. cbn [fst]. eapply incl_tran; [apply as_del_incl|exact H].
      + cbn [fst]. eapply incl_tran; [apply as_del_incl|exact H]. }
  rewrite EF in G. exact G.
Qed.

Lemma cleanup_spec : forall spec st jobs st' jobs' hd upd,
  cleanup spec st jobs = (st', jobs', hd, upd) ->
  st_last st' = st_last st /\ incl (st_active st') (st_active st) /\ incl jobs' jobs /\
  Forall (is_hist_victim jobs) hd.
Proof.
  intros until upd. unfold cleanup.
  destruct (process_finished spec st (mine_of jobs) jobs) as [[[st1 jobs1] hd1] upd1] eqn:EP.
  destruct (clean_stale jobs (mine_of jobs) (st_active st1)) as [a2 upd2] eqn:EC.
  intros E; inversion E; subst. apply process_finished_spec in EP. apply clean_stale_incl in EC.
  destruct EP as (P1 & P2 & P3 & P4). cbn. repeat split; auto. eapply incl_tran; eauto.
Qed.

(* ---- one reconcile ---- *)
Definition last_le (a b : option Z) : Prop :=
  match a with Some x => exists y, b = Some y /\ x <= y | None => True end.
Definition last_lt (a : option Z) (t : Z) : Prop :=
  match a with Some x => x < t | None => True end.

Definition state_ok (s : cstate) : Prop :=
  uid_ok (s_next_uid s) (st_active (s_status s)) (s_jobs s).

Lemma reconcile_spec : forall fuel s now fc s' o,
  reconcile next lenient fuel s now fc = (s', o) -> state_ok s -> o_err o <> E_FUEL ->
  bounded s -> now <= hi ->
  state_ok s' /\ bounded s' /\ s_spec s' = s_spec s /\
  last_le (st_last (s_status s)) (st_last (s_status s')) /\
  Forall (is_hist_victim (s_jobs s)) (o_hist_deletes o) /\
  (o_creates o = [] \/
   exists t, starts o t /\ last_lt (st_last (s_status s)) t /\ t <= now /\
             earliest_time (c_created (s_spec s)) (st_last (s_status s)) (c_deadline (s_spec s)) now true < t /\
             st_last (s_status s') = Some t /\
             c_suspend (s_spec s) = false /\
             (c_policy (s_spec s) = Forbid ->
              st_active (s_status s') = [mkRef (job_name_of t) (s_next_uid s)])).
Proof.
  intros fuel s now fc s' o. unfold reconcile.
  destruct (cleanup (s_spec s) (s_status s) (s_jobs s)) as [[[st1 jobs1] hd] upd1] eqn:EC.
  destruct (decide next lenient fuel (s_spec s) st1 jobs1 (s_next_uid s) now fc upd1 hd)
    as [[[st2 jobs2] uid2] o2] eqn:ED.
  intros E Hok Hfuel (Bc & Bl & Bd) Hnow; inversion E; subst; clear E.
  apply cleanup_spec in EC. destruct EC as (C1 & C2 & C3 & C4).
  assert (Hok1 : uid_ok (s_next_uid s) (st_active st1) jobs1) by (eapply uid_ok_incl; eauto).
  apply decide_spec in ED; auto.
  destruct ED as (Ds & Dh & Du & Dok & Dc).
  assert (Hehi : earliest_time (c_created (s_spec s)) (st_last (s_status s)) (c_deadline (s_spec s)) now true <= hi)
    by (apply earliest_le_hi; auto).
  assert (LL : forall x, st_last (s_status s) = Some x -> forall t,
             next_schedule_time next fuel (c_created (s_spec s)) (st_last st1) (c_deadline (s_spec s)) now = NsOk (Some t) -> x < t).
  { intros x Hx t Ht. rewrite C1, Hx in Ht. rewrite Hx in Hehi. now apply chosen_after_last in Ht. }
  assert (LH : forall t,
             next_schedule_time next fuel (c_created (s_spec s)) (st_last st1) (c_deadline (s_spec s)) now = NsOk (Some t) -> t <= hi).
  { intros t Ht. rewrite C1 in Ht. apply chosen_after_earliest in Ht; auto. lia. }
  unfold state_ok. cbn [s_next_uid s_status s_jobs s_spec].
  split.
  { destruct ((o_err o =? E_OK) && o_upd o); [exact Dok|].
    destruct Dok as [_ D2]. split; [|exact D2].
    eapply Forall_impl; [|apply Hok]. cbn; intros; lia. }
  split.
  { unfold bounded. cbn [s_spec s_status]. split; [exact Bc|]. split; [|exact Bd].
    destruct ((o_err o =? E_OK) && o_upd o); [|exact Bl].
    intros l Hl.
    destruct Dc as [[_ [HL|(t & Ht & HL & _)]]|(t & _ & Ht & _ & _ & HL & _)].
    - rewrite HL, C1 in Hl. auto.
    - rewrite HL in Hl. inversion Hl; subst. auto.
    - rewrite HL in Hl. inversion Hl; subst. auto. }
  split; [reflexivity|].
  rewrite Dh. split; [|split; [exact C4|]].
  - destruct ((o_err o =? E_OK) && o_upd o).
    + unfold last_le. destruct (st_last (s_status s)) as [x|] eqn:Ex; [|exact I].
      destruct Dc as [[_ [HL|(t & Ht & HL & _)]]|(t & _ & Ht & _ & _ & HL & _)].
      * exists x. rewrite HL, C1. split; auto. lia.
      * exists t. split; auto. specialize (LL x eq_refl t Ht). lia.
      * exists t. split; auto. specialize (LL x eq_refl t Ht). lia.
    + unfold last_le. destruct (st_last (s_status s)) as [x|]; [|exact I]. exists x. split; auto. lia.
  - destruct Dc as [[Hc _]|(t & Hs & Ht & Hsus & HF & HL & Hupd & He & HA)]; [left; exact Hc|].
    right. exists t.
    assert (Eok : o_err o = E_OK) by (destruct He; [assumption|contradiction]).
    rewrite Eok, Hupd. cbn.
    pose proof Ht as Ht'. rewrite C1 in Ht'. apply chosen_after_earliest in Ht'; auto.
    repeat split; auto; try tauto.
    unfold last_lt. destruct (st_last (s_status s)) as [x|] eqn:Ex; [|exact I]. eapply LL; eauto.
Qed.

(* ---- histories ---- *)
Definition op_ok (o : op) : Prop :=
  match o with
  | OpReconcile now _ => now <= hi
  | OpDeadline (Some d) => 0 <= d
  | _ => True
  end.

Lemma last_le_refl : forall a, last_le a a.
Proof. intros [x|]; cbn; auto. exists x. split; auto. lia. Qed.

Lemma step_spec : forall fuel s op s' out,
  step next lenient fuel s op = (s', out) -> state_ok s -> bounded s -> op_ok op ->
  (forall o, out = Some o -> o_err o <> E_FUEL) ->
  state_ok s' /\ bounded s' /\ last_le (st_last (s_status s)) (st_last (s_status s')) /\
  match out with
  | None => True
  | Some o =>
    o_creates o = [] \/
    exists t, starts o t /\ last_lt (st_last (s_status s)) t /\ st_last (s_status s') = Some t
  end.
Proof.
  intros fuel s op s' out. destruct op; cbn [step op_ok].
  - destruct (reconcile next lenient fuel s now fail_create) as [s1 r] eqn:ER.
    intros E Hok Hb Hop Hf; inversion E; subst. apply reconcile_spec in ER; auto.
    destruct ER as (R1 & RB & R2 & R3 & R4 & R5). split; [exact R1|]. split; [exact RB|]. split; [exact R3|].
    destruct R5 as [R5|(t & ? & ? & ? & ? & ? & ?)]; [left; auto|right; exists t; auto].
  - intros E Hok Hb _ _; inversion E; subst. unfold state_ok, bounded in *. cbn.
    split; [|split; [exact Hb|split; [apply last_le_refl|auto]]].
    destruct Hok as [H1 H2]. split; auto. rewrite Forall_forall in *. intros x Hx.
    apply in_map_iff in Hx. destruct Hx as (j & <- & Hj). specialize (H2 j Hj).
    destruct (j_name j =? name); cbn; auto.
  - intros E Hok Hb _ _; inversion E; subst. unfold state_ok, bounded in *. cbn.
    split; [|split; [exact Hb|split; [apply last_le_refl|auto]]].
    eapply uid_ok_incl; eauto; [apply incl_refl|apply remove_job_incl].
  - destruct (find_job (s_jobs s) name).
    + intros E Hok Hb _ _; inversion E; subst. split; auto. split; auto. split; [apply last_le_refl|auto].
    + intros E Hok Hb _ _; inversion E; subst. unfold state_ok, bounded in *. cbn.
      split; [|split; [exact Hb|split; [apply last_le_refl|auto]]].
      destruct Hok as [H1 H2]. split.
      * eapply Forall_impl; [|exact H1]. cbn; intros; lia.
      * rewrite Forall_forall in *. intros x Hx. apply insert_job_In in Hx.
        destruct Hx as [->|Hx]; [cbn; lia|]. specialize (H2 x Hx). lia.
  - intros E Hok Hb _ _; inversion E; subst. unfold state_ok, bounded in *. cbn.
    split; auto. split; [exact Hb|]. split; [apply last_le_refl|auto].
  - intros E Hok Hb _ _; inversion E; subst. unfold state_ok, bounded in *. cbn.
    split; auto. split; [exact Hb|]. split; [apply last_le_refl|auto].
  - intros E Hok (Bc & Bl & Bd) Hop _; inversion E; subst. unfold state_ok, bounded in *. cbn.
    split; auto. split; [|split; [apply last_le_refl|auto]].
    split; [exact Bc|]. split; [exact Bl|]. intros d0 Hd0. subst d. exact Hop.
  - intros E Hok Hb _ _; inversion E; subst. unfold state_ok, bounded in *. cbn.
    split; auto. split; [exact Hb|]. split; [apply last_le_refl|auto].
Qed.

Fixpoint increasing_from (lo : option Z) (l : list Z) : Prop :=
  match l with
  | [] => True
  | x :: r => last_lt lo x /\ increasing_from (Some x) r
  end.

Lemma increasing_from_weaken : forall l a b, last_le a b -> increasing_from b l -> increasing_from a l.
Proof.
  destruct l as [|x r]; cbn; auto. intros a b Hab [H1 H2]. split; auto.
  unfold last_le, last_lt in *. destruct a as [ya|]; auto. destruct Hab as (y & -> & Hy). lia.
Qed.

Lemma increasing_from_NoDup : forall l lo, increasing_from lo l -> NoDup l /\ forall x, In x l -> last_lt lo x.
Proof.
  induction l as [|x r IH]; cbn; intros lo H.
  - split; [constructor|intros ? []].
  - destruct H as [H1 H2]. destruct (IH _ H2) as [N1 N2]. split.
    + constructor; auto. intros Hin. specialize (N2 x Hin). cbn in N2. lia.
    + intros y [<-|Hy]; auto. specialize (N2 y Hy). unfold last_lt in *. cbn in N2.
      destruct lo; auto. lia.
Qed.

(* main: over every history of reconciles (at arbitrary instants - in
   particular at non-decreasing ones) interleaved with job completions,
   deletions, foreign creations, suspend and policy changes, the schedule times
   for which a Create succeeded are strictly increasing: each schedule point
   starts at most one job *)
Theorem run_created_increasing : forall fuel ops s s' outs,
  run next lenient fuel s ops = (s', outs) -> state_ok s -> bounded s -> Forall op_ok ops ->
  Forall (fun o => o_err o <> E_FUEL) outs ->
  increasing_from (st_last (s_status s)) (created_times outs).
Proof.
  intros fuel. induction ops as [|op r IH]; cbn [run]; intros s s' outs.
  - intros E; inversion E; subst. cbn. auto.
  - destruct (step next lenient fuel s op) as [s1 out] eqn:ES.
    destruct (run next lenient fuel s1 r) as [s2 outs2] eqn:ER.
    intros E Hok Hb Hops Hf; inversion E; subst; clear E.
    inversion Hops as [|? ? Hop Hops']; subst.
    assert (Hf2 : Forall (fun o => o_err o <> E_FUEL) outs2 /\ forall o, out = Some o -> o_err o <> E_FUEL).
    { destruct out; [inversion Hf; subst; split; auto; intros ? Eo; inversion Eo; subst; auto|
                     split; auto; intros ? Eo; discriminate]. }
    destruct Hf2 as [Hf2 Hf1].
    apply step_spec in ES; auto. destruct ES as (Hok1 & Hb1 & HL & Hout).
    specialize (IH _ _ _ ER Hok1 Hb1 Hops' Hf2).
    destruct out as [o|]; [|eapply increasing_from_weaken; eauto].
    unfold created_times. cbn [flat_map]. fold (created_times outs2).
    destruct Hout as [Hc|(t & Hs & Hlt & Hlast)].
    + rewrite Hc. cbn. eapply increasing_from_weaken; eauto.
    + unfold starts in Hs. rewrite Hs. cbn. split; auto. rewrite Hlast in IH. exact IH.
Qed.

Theorem cron_at_most_once : forall fuel ops s s' outs,
  run next lenient fuel s ops = (s', outs) -> state_ok s -> bounded s -> Forall op_ok ops ->
  Forall (fun o => o_err o <> E_FUEL) outs ->
  NoDup (created_times outs).
Proof.
  intros. eapply increasing_from_NoDup. eapply run_created_increasing; eauto.
Qed.

(* suspended: no job is started, whatever the state *)
Theorem cron_respects_suspend : forall fuel s now fc s' o,
  reconcile next lenient fuel s now fc = (s', o) -> c_suspend (s_spec s) = true -> o_creates o = [].
Proof.
  intros fuel s now fc s' o. unfold reconcile.
  destruct (cleanup (s_spec s) (s_status s) (s_jobs s)) as [[[st1 jobs1] hd] upd1].
  unfold decide. intros E Hs. rewrite Hs in E. inversion E; subst. reflexivity.
Qed.

(* Forbid: a job is started only when the active list (after the finished and
   stale references have been dropped) is empty *)
Theorem cron_forbid : forall fuel spec st jobs uid now fc upd0 hd st' jobs' uid' o,
  decide next lenient fuel spec st jobs uid now fc upd0 hd = (st', jobs', uid', o) ->
  c_policy spec = Forbid -> st_active st <> [] -> o_creates o = [].
Proof.
  intros until o. unfold decide. intros E HF Hne.
  destruct (c_suspend spec); [inversion E; subst; reflexivity|].
  destruct (c_tz_ok spec); cbn [negb] in E; [|inversion E; subst; reflexivity].
  destruct (next_schedule_time next fuel (c_created spec) (st_last st) (c_deadline spec) now) as [| |[t|]];
    try (inversion E; subst; reflexivity);
    try (apply fin_spec in E; tauto).
  destruct (in_active_by_name (st_active st) (job_name_of t) || _); [apply fin_spec in E; tauto|].
  unfold apply_policy in E. rewrite HF in E.
  destruct (st_active st); [contradiction|]. cbn in E. apply fin_spec in E. tauto.
Qed.

End Controller.

(* history limits delete only finished runs of this CronJob *)
Lemma decide_hd : forall next lenient fuel spec st jobs uid now fc upd0 hd st' jobs' uid' o,
  decide next lenient fuel spec st jobs uid now fc upd0 hd = (st', jobs', uid', o) -> o_hist_deletes o = hd.
Proof.
  intros until o. unfold decide, create_job, fin. intros E.
  repeat match type of E with context [match ?x with _ => _ end] => destruct x end;
    inversion E; reflexivity.
Qed.

Theorem history_deletes_finished_only : forall next lenient fuel s now fc s' o,
  reconcile next lenient fuel s now fc = (s', o) ->
  Forall (is_hist_victim (s_jobs s)) (o_hist_deletes o).
Proof.
  intros next lenient fuel s now fc s' o. unfold reconcile.
  destruct (cleanup (s_spec s) (s_status s) (s_jobs s)) as [[[st1 jobs1] hd] upd1] eqn:EC.
  destruct (decide next lenient fuel (s_spec s) st1 jobs1 (s_next_uid s) now fc upd1 hd)
    as [[[st2 jobs2] uid2] o2] eqn:ED.
  intros E; inversion E; subst. apply decide_hd in ED. rewrite ED.
  apply cleanup_spec in EC. tauto.
Qed.

(* ------------------------------------------------------------------ *)
(* An irregular schedule: the incompleteness witness (DESIGN F8)       *)
(* ------------------------------------------------------------------ *)

(* points at seconds 100k and 100k+1 *)
Definition nxs (s : Z) : Z := if s mod 100 =? 0 then s + 1 else (s / 100 + 1) * 100.
Definition next_pairs (t : Z) : Z := nxs (t / sec) * sec.

Lemma nxs_gt : forall s, s + 1 <= nxs s.
Proof. intros s. unfold nxs. destruct (Z.eqb_spec (s mod 100) 0); [lia|]. Z.div_mod_to_equations. lia. Qed.

Lemma nxs_point : forall s, nxs s mod 100 = 0 \/ nxs s mod 100 = 1.
Proof.
  intros s. unfold nxs. destruct (Z.eqb_spec (s mod 100) 0).
  - right. Z.div_mod_to_equations. lia.
  - left. apply Z_mod_mult.
Qed.

Lemma nxs_least : forall q k, (k mod 100 = 0 \/ k mod 100 = 1) -> q < k -> nxs q <= k.
Proof.
  intros q k Hk Hq. unfold nxs. destruct (Z.eqb_spec (q mod 100) 0); [lia|].
  Z.div_mod_to_equations. lia.
Qed.

Lemma next_pairs_gt : forall t, t < next_pairs t.
Proof.
  intros t. unfold next_pairs. pose proof (nxs_gt (t / sec)). pose proof sec_pos.
  pose proof (Z.mul_succ_div_gt t sec H0). nia.
Qed.

Lemma next_pairs_least : forall hi t s, sched next_pairs hi s -> t < s -> next_pairs t <= s.
Proof.
  intros hi t s [u [_ <-]] Hlt. unfold next_pairs in *. pose proof sec_pos.
  assert (Hq : t / sec < nxs (u / sec)). { apply Z.div_lt_upper_bound; lia. }
  pose proof (nxs_least (t / sec) (nxs (u / sec)) (nxs_point _) Hq). nia.
Qed.

Lemma next_pairs_sec : forall t, exists k, next_pairs t = k * sec.
Proof. intros t. eexists. reflexivity. Qed.

(* with an irregular schedule the choice is NOT complete: unmet schedule points
   exist in (earliest, now] and yet nothing is chosen (a missed start) *)
Theorem cron_complete_refuted :
  exists next, (forall t, t < next t) /\ (forall hi t s, sched next hi s -> t < s -> next t <= s) /\
               (forall t, exists k, next t = k * sec) /\
  exists fuel created last deadline now,
    (exists s, sched next now s /\ earliest_time created last deadline now true < s /\ s <= now) /\
    next_schedule_time next fuel created last deadline now = NsOk None.
Proof.
  exists next_pairs. split; [exact next_pairs_gt|]. split; [exact next_pairs_least|]. split; [exact next_pairs_sec|].
  exists 10%nat, (- sec), None, None, (150 * sec). split.
  - exists (100 * sec). split; [exists (50 * sec); vm_compute; split; [discriminate|reflexivity]|].
    vm_compute. split; [reflexivity|discriminate].
  - vm_compute. reflexivity.
Qed.

(* ------------------------------------------------------------------ *)
(* Non-vacuity                                                          *)
(* ------------------------------------------------------------------ *)

Definition ex_spec : cspec := mkSpec (- sec) false Forbid None (Some 1) (Some 1) true.
Definition ex_state : cstate :=
  mkState ex_spec (mkStatus None [] None)
          [mkJob 7 1 OwnThis PhCompleted (Some 5) (Some 6); mkJob 8 2 OwnThis PhCompleted (Some 6) (Some 7)] 3.

(* a well-formed state; two reconciles start two different schedule points,
   the second only after the first run has finished (Forbid), and the history
   limit removes exactly the older finished job *)
Example controller_nonvacuous :
  state_ok ex_state /\
  let '(s', outs) := run next_pairs false 10 ex_state
                         [OpReconcile (100 * sec) false; OpReconcile (200 * sec) false;
                          OpFinish 1 PhCompleted (Some (200 * sec)); OpReconcile (200 * sec + 5) false] in
  created_times outs = [100 * sec; 200 * sec] /\
  map o_hist_deletes outs = [[7]; []; [8]] /\
  Forall (fun o => o_err o <> E_FUEL) outs.
Proof.
  split.
  - split; repeat constructor.
  - vm_compute. split; [reflexivity|]. split; [reflexivity|].
    repeat constructor; discriminate.
Qed.

Example gc_nonvacuous :
  let j := mkGjob 1 PhCompleted (Some 10) false (Some (5 * sec)) (Some 0) in
  gc_due j (15 * sec) /\ ~ gc_due j (15 * sec - 1) /\
  process_job (Some j) (Some j) (15 * sec) (15 * sec) = mkGcOut [] (Some 1) false /\
  process_job (Some j) (Some j) (15 * sec - 1) (15 * sec - 1) = mkGcOut [1] None false.
Proof.
  cbv zeta. split; [|split; [|split; vm_compute; reflexivity]].
  - repeat split. exists 10, (5 * sec). repeat split. vm_compute. discriminate.
  - intros (_ & _ & ttl & fin & E1 & E2 & H). inversion E1; inversion E2; subst. vm_compute in H. apply H. reflexivity.
Qed.

(* ------------------------------------------------------------------ *)
(* The zone the schedule is evaluated in                                *)
(* ------------------------------------------------------------------ *)

(* main: whenever spec.timeZone is set and loads (and the schedule string does
   not embed a zone of its own), the string handed to the parser carries it and
   the schedule is evaluated in it - for EVERY schedule kind *)
Theorem cron_zone_is_spec : forall (k : skind) (z : Z),
  validate_tz (TzLoads z) = true /\
  format_schedule (TzLoads z) (mkSstr k None) = FmtPrefixed z /\
  zone_used (TzLoads z) (mkSstr k None) = ZNamed z.
Proof. intros k z. repeat split. Qed.

(* the complete case table: embedded zone, else spec.timeZone, else local *)
Theorem cron_zone_cases : forall tz s,
  zone_used tz s =
  match ss_embedded s with
  | Some e => ZNamed e
  | None => match tz with TzLoads z => ZNamed z | _ => ZLocal end
  end.
Proof. intros tz [k [e|]]; destruct tz; reflexivity. Qed.

(* the kind of the schedule never matters *)
Theorem cron_zone_kind_irrelevant : forall tz k1 k2 e,
  format_schedule tz (mkSstr k1 e) = format_schedule tz (mkSstr k2 e) /\
  zone_used tz (mkSstr k1 e) = zone_used tz (mkSstr k2 e).
Proof. intros tz k1 k2 [e|]; destruct tz; split; reflexivity. Qed.

(* a zone that does not load: nothing is ever started *)
Theorem cron_invalid_zone_no_start : forall next lenient fuel s now fc s' o,
  reconcile next lenient fuel s now fc = (s', o) -> c_tz_ok (s_spec s) = false -> o_creates o = [].
Proof.
  intros next lenient fuel s now fc s' o. unfold reconcile.
  destruct (cleanup (s_spec s) (s_status s) (s_jobs s)) as [[[st1 jobs1] hd] upd1].
  unfold decide. intros E Hs. rewrite Hs in E. cbn [negb] in E.
  destruct (c_suspend (s_spec s)); inversion E; subst; reflexivity.
Qed.

(* ------------------------------------------------------------------ *)
(* The laws speak about the same predicates                             *)
(* ------------------------------------------------------------------ *)
From V Require Import C18.Laws.

Lemma law_time_left_model : forall j since, law_time_left j since (time_left j since) = true.
Proof.
  intros j since. unfold law_time_left, expiry, time_left, needs_cleanup.
  destruct (g_ttl j), (g_finish j), (finished (g_phase j)); cbn; auto. apply Z.eqb_refl.
Qed.

Lemma law_history_NoDup : forall l, law_history l = true -> NoDup l.
Proof.
  unfold law_history. intros l H.
  assert (G : forall l, increasing l = true -> NoDup l /\ forall x y r, l = x :: r -> In y r -> x < y).
  { induction l0 as [|a r IH]; [split; [constructor|discriminate]|].
    intros Hi. destruct r as [|b r'].
    - split; [constructor; [intros []|constructor]|]. intros x y r0 E Hy. inversion E; subst. destruct Hy.
    - cbn [increasing] in Hi. apply andb_prop in Hi. destruct Hi as [Hab Hr].
      destruct (IH Hr) as [N1 N2]. apply Z.ltb_lt in Hab.
      assert (L : forall y, In y (b :: r') -> a < y).
      { intros y [<-|Hy]; auto. specialize (N2 b y r' eq_refl Hy). lia. }
      split.
      + constructor; auto. intros Hin. specialize (L a Hin). lia.
      + intros x y r0 E Hy. inversion E; subst. auto. }
  apply G; auto.
Qed.

(* a delete accepted by the law is justified exactly as in gc_only_when_due *)
Lemma law_gc_delete : forall lj fresh lo hi uid rqs,
  law_gc lj fresh lo hi (Some uid) rqs = true ->
  exists f, fresh = Some f /\ gc_due f hi /\ uid = g_uid f.
Proof.
  intros lj fresh lo hi uid rqs. unfold law_gc. intros H.
  apply andb_prop in H. destruct H as [H _]. apply andb_prop in H. destruct H as [H _].
  destruct fresh as [f|]; [|discriminate]. exists f. split; auto.
  apply andb_prop in H. destruct H as [H Hu]. apply andb_prop in H. destruct H as [Hd He].
  unfold expiry in He. unfold gc_due.
  destruct (g_ttl f) as [ttl|] eqn:Et; [|discriminate].
  destruct (g_finish f) as [fi|] eqn:Ef; [|discriminate].
  destruct (finished (g_phase f)) eqn:Eph; [|discriminate].
  split; [split; [reflexivity|]|lia]. split; [destruct (g_deleting f); [discriminate|reflexivity]|].
  exists ttl, fi. repeat split; auto. lia.
Qed.

Lemma law_zone_model : forall tz s,
  law_zone tz s (format_schedule tz s) (validate_tz tz)
           (match ss_kind s, validate_tz tz with
            | KEvery, _ => None | _, false => None | _, true => Some (zone_used tz s) end) = true.
Proof.
  intros tz [k [e|]]; destruct tz, k; cbn; rewrite ?Z.eqb_refl; reflexivity.
Qed.

(* the law on observed behaviour accepts the model (one clock reading) *)
Lemma law_gc_no_finish_model : forall lj fresh now,
  let o := process_job lj fresh now now in
  law_gc_no_finish lj fresh now (go_delete o) (go_requeues o) (go_err o) = true.
Proof.
  intros lj fresh now. cbv zeta. unfold law_gc_no_finish, eligible_no_finish, expiry, process_job,
    process_ttl, time_left, needs_cleanup, is_some.
  destruct lj as [j|]; [|destruct fresh; reflexivity].
  destruct (g_deleting j), (g_ttl j) as [t|], (finished (g_phase j)), (g_finish j) as [fi|]; cbn;
    try (destruct fresh; reflexivity).
  destruct (Z.leb_spec (fi + t * sec - now) 0); cbn.
  - destruct fresh as [f|]; cbn; [|reflexivity].
    destruct (g_deleting f), (g_ttl f) as [t'|], (finished (g_phase f)), (g_finish f) as [fi'|]; cbn;
      rewrite ?andb_true_r, ?andb_false_r; try reflexivity;
      try (destruct (fi + t * sec <=? now); reflexivity).
    destruct (fi' + t' * sec - now <=? 0); cbn; rewrite ?andb_false_r; reflexivity.
  - destruct fresh as [f|]; cbn; [|reflexivity].
    destruct (Z.leb_spec (fi + t * sec) now); [lia|]. cbn. reflexivity.
Qed.

(* ------------------------------------------------------------------ *)
(* The schedule table the correspondence runs with meets the (windowed) *)
(* hypotheses, and the fuel the entry point gives is enough             *)
(* ------------------------------------------------------------------ *)

Definition tbl_ok (tbl : list Z) : Prop :=
  increasing tbl = true /\ Forall (fun p => exists k, p = k * sec) tbl.

Lemma increasing_tail : forall a l, increasing (a :: l) = true ->
  increasing l = true /\ Forall (fun q => a < q) l.
Proof.
  intros a l. revert a. induction l as [|b r IH]; intros a H; [split; [reflexivity|constructor]|].
  cbn [increasing] in H. apply andb_prop in H. destruct H as [Hab Hr]. apply Z.ltb_lt in Hab.
  split; [exact Hr|]. destruct (IH b Hr) as [_ F]. constructor; [exact Hab|].
  eapply Forall_impl; [|exact F]. cbn; intros; lia.
Qed.

(* next_tbl answers the first table point after t, when there is one *)
Lemma next_tbl_spec : forall tbl t, increasing tbl = true -> (exists p, In p tbl /\ t < p) ->
  In (next_tbl tbl t) tbl /\ t < next_tbl tbl t /\ forall q, In q tbl -> t < q -> next_tbl tbl t <= q.
Proof.
  induction tbl as [|a r IH]; intros t Hinc (p & Hp & Hlt); [destruct Hp|].
  destruct (increasing_tail a r Hinc) as [Hr Ha]. cbn [next_tbl].
  destruct (Z.ltb_spec t a).
  - split; [left; reflexivity|]. split; [assumption|].
    intros q [<-|Hq] Hq2; [lia|]. rewrite Forall_forall in Ha. specialize (Ha q Hq). lia.
  - assert (Hex : exists p, In p r /\ t < p).
    { destruct Hp as [<-|Hp]; [lia|]. exists p. auto. }
    destruct (IH t Hr Hex) as (I1 & I2 & I3). split; [right; exact I1|]. split; [exact I2|].
    intros q [<-|Hq] Hq2; [lia|]. auto.
Qed.

Theorem next_tbl_window : forall tbl hi, tbl_ok tbl -> (exists p, In p tbl /\ hi < p) ->
  (forall t, t <= hi -> t < next_tbl tbl t) /\
  (forall t s, t <= hi -> sched (next_tbl tbl) hi s -> t < s -> next_tbl tbl t <= s) /\
  (forall t, t <= hi -> exists k, next_tbl tbl t = k * sec).
Proof.
  intros tbl hi [Hinc Hsec] (p & Hp & Hhi).
  assert (Hex : forall t, t <= hi -> exists p, In p tbl /\ t < p) by (intros t Ht; exists p; split; [auto|lia]).
  split; [|split].
  - intros t Ht. apply next_tbl_spec; auto.
  - intros t s Ht (u & Hu & <-) Hlt.
    destruct (next_tbl_spec tbl u Hinc (Hex u Hu)) as (I1 & _ & _).
    destruct (next_tbl_spec tbl t Hinc (Hex t Ht)) as (_ & _ & L). apply L; auto.
  - intros t Ht. destruct (next_tbl_spec tbl t Hinc (Hex t Ht)) as (I1 & _ & _).
    rewrite Forall_forall in Hsec. apply Hsec; auto.
Qed.

(* fuel: every iteration of the catch-up loop moves to a later table point *)
Definition later (t : Z) (tbl : list Z) : nat := length (filter (fun p => t <? p) tbl).

Lemma later_step : forall tbl t u, In u tbl -> t < u -> (later u tbl < later t tbl)%nat.
Proof.
  unfold later. induction tbl as [|a r IH]; intros t u Hu Hlt; [destruct Hu|].
  assert (Mono : forall l : list Z, (length (filter (fun p => Z.ltb u p) l) <= length (filter (fun p => Z.ltb t p) l))%nat).
  { induction l as [|x l IHl]; cbn; [lia|].
    destruct (Z.ltb_spec u x), (Z.ltb_spec t x); cbn; lia. }
  cbn. destruct Hu as [<-|Hu].
  - rewrite Z.ltb_irrefl. destruct (Z.ltb_spec t a); [|lia]. cbn. specialize (Mono r). lia.
  - specialize (IH t u Hu Hlt). destruct (Z.ltb_spec u a), (Z.ltb_spec t a); cbn; lia.
Qed.

Lemma mr_loop_tbl_fuel : forall tbl now, increasing tbl = true -> (exists p, In p tbl /\ now < p) ->
  forall fuel t most, (later t tbl < fuel)%nat \/ now < t -> mr_loop (next_tbl tbl) fuel now t most <> None.
Proof.
  intros tbl now Hinc (p & Hp & Hnow). induction fuel as [|f IH]; intros t most Hf; cbn [mr_loop].
  - destruct (Z.ltb_spec now t); [discriminate|]. destruct Hf; lia.
  - destruct (Z.ltb_spec now t); [discriminate|].
    destruct (next_tbl_spec tbl t Hinc) as (I1 & I2 & _); [exists p; split; [auto|lia]|].
    apply IH. destruct (Z.ltb_spec now (next_tbl tbl t)); [right; assumption|left].
    pose proof (later_step tbl t _ I1 I2). destruct Hf; lia.
Qed.

Lemma later_le : forall t tbl, (later t tbl <= length tbl)%nat.
Proof. intros t tbl. unfold later. induction tbl as [|a r IH]; cbn; [lia|]. destruct (t <? a); cbn; lia. Qed.

Theorem most_recent_tbl_no_fuel : forall tbl created last deadline now incl,
  increasing tbl = true -> (exists p, In p tbl /\ now < p) ->
  snd (most_recent (next_tbl tbl) (S (S (S (length tbl)))) created last deadline now incl) <> MrFuel.
Proof.
  intros tbl created last deadline now incl Hinc Hex. unfold most_recent.
  set (e0 := earliest_time created last deadline now incl).
  set (t1 := next_tbl tbl e0). set (t2 := next_tbl tbl t1).
  destruct (now <? t1); [cbn; discriminate|].
  destruct (now <? t2); [cbn; discriminate|].
  destruct (round_sec_s (t2 - t1) <? 1); [cbn; discriminate|].
  match goal with |- context [mr_loop ?n ?f ?a ?b ?c] => destruct (mr_loop n f a b c) eqn:EL end;
    [cbn; discriminate|].
  exfalso. revert EL. apply mr_loop_tbl_fuel; auto. left.
  match goal with |- (later ?x _ < _)%nat => pose proof (later_le x tbl) end. lia.
Qed.

Lemma nst_tbl_no_fuel : forall tbl c l d now,
  increasing tbl = true -> (exists p, In p tbl /\ now < p) ->
  next_schedule_time (next_tbl tbl) (S (S (S (length tbl)))) c l d now <> NsFuel.
Proof.
  intros tbl c l d now Hi Hex. unfold next_schedule_time.
  pose proof (most_recent_tbl_no_fuel tbl c l d now true Hi Hex) as H.
  destruct (snd (most_recent (next_tbl tbl) (S (S (S (length tbl)))) c l d now true)) as [| |[t|] m];
    try discriminate; [congruence|]. destruct (now <? t); discriminate.
Qed.

Lemma requeue_tbl_some : forall tbl c l d now,
  increasing tbl = true -> (exists p, In p tbl /\ now < p) ->
  requeue_after (next_tbl tbl) (S (S (S (length tbl)))) c l d now <> None.
Proof.
  intros tbl c l d now Hi Hex. unfold requeue_after.
  pose proof (most_recent_tbl_no_fuel tbl c l d now false Hi Hex) as H.
  destruct (most_recent (next_tbl tbl) (S (S (S (length tbl)))) c l d now false) as [e [| |[t|] [| |]]];
    cbn in H; try discriminate; congruence.
Qed.

Lemma decide_tbl_no_fuel : forall tbl lenient spec st jobs uid now fc upd0 hd st' jobs' uid' o,
  increasing tbl = true -> (exists p, In p tbl /\ now < p) ->
  decide (next_tbl tbl) lenient (S (S (S (length tbl)))) spec st jobs uid now fc upd0 hd = (st', jobs', uid', o) ->
  o_err o <> E_FUEL.
Proof.
  intros until o. intros Hi Hex E.
  pose proof (nst_tbl_no_fuel tbl (c_created spec) (st_last st) (c_deadline spec) now Hi Hex) as N.
  assert (R : forall l, requeue_after (next_tbl tbl) (S (S (S (length tbl)))) (c_created spec) l (c_deadline spec) now <> None)
    by (intros; apply requeue_tbl_some; auto).
  unfold decide, create_job, fin in E.
  repeat match type of E with
         | context [match ?x with _ => _ end] => destruct x eqn:?
         end;
    inversion E; subst; cbn [o_err];
    try (intro HH; cbv in HH; discriminate HH);
    try congruence;
    try (exfalso; eapply R; eassumption).
Qed.

Lemma run_tbl_no_fuel : forall tbl lenient hi, increasing tbl = true -> (exists p, In p tbl /\ hi < p) ->
  forall ops s s' outs,
  run (next_tbl tbl) lenient (S (S (S (length tbl)))) s ops = (s', outs) -> Forall (op_ok hi) ops ->
  Forall (fun o => o_err o <> E_FUEL) outs.
Proof.
  intros tbl lenient hi Hi (p & Hp & Hhi). induction ops as [|op r IH]; cbn [run]; intros s s' outs.
  - intros E _; inversion E; subst. constructor.
  - destruct (step (next_tbl tbl) lenient (S (S (S (length tbl)))) s op) as [s1 out] eqn:ES.
    destruct (run (next_tbl tbl) lenient (S (S (S (length tbl)))) s1 r) as [s2 outs2] eqn:ER.
    intros E Hops; inversion E; subst; clear E. inversion Hops as [|? ? Hop Hops']; subst.
    specialize (IH _ _ _ ER Hops').
    destruct out as [o|]; [|exact IH]. constructor; [|exact IH].
    destruct op; cbn [step] in ES; try (inversion ES; fail);
      try (destruct (find_job (s_jobs s) name); inversion ES; fail).
    unfold reconcile in ES.
    destruct (cleanup (s_spec s) (s_status s) (s_jobs s)) as [[[st1 jobs1] hd] upd1].
    destruct (decide (next_tbl tbl) lenient (S (S (S (length tbl)))) (s_spec s) st1 jobs1 (s_next_uid s) now fail_create upd1 hd)
      as [[[st2 jobs2] uid2] o2] eqn:ED.
    inversion ES; subst. eapply decide_tbl_no_fuel; [exact Hi| |exact ED].
    exists p. split; [auto|]. cbn in Hop. lia.
Qed.

(* the instantiation the correspondence runs: a schedule table that extends
   beyond every instant of the history, the entry point's fuel - and no fuel
   hypothesis left *)
Theorem cron_at_most_once_tbl : forall tbl lenient hi ops s s' outs,
  tbl_ok tbl -> (exists p, In p tbl /\ hi < p) ->
  run (next_tbl tbl) lenient (S (S (S (length tbl)))) s ops = (s', outs) ->
  state_ok s -> bounded hi s -> Forall (op_ok hi) ops ->
  NoDup (created_times outs).
Proof.
  intros tbl lenient hi ops s s' outs Hok Hex ER Hs Hb Hops.
  destruct (next_tbl_window tbl hi Hok Hex) as (G & _ & S).
  eapply (cron_at_most_once (next_tbl tbl) lenient hi G S); eauto.
  eapply run_tbl_no_fuel; eauto. apply Hok.
Qed.

(* ------------------------------------------------------------------ *)
(* Live runs: a reference to an unfinished job of this CronJob survives  *)
(* the clean-up, so Forbid holds against it; adoption by name            *)
(* ------------------------------------------------------------------ *)

Definition uids_unique (jobs : list job) : Prop :=
  forall a b, In a jobs -> In b jobs -> j_uid a = j_uid b -> a = b.

Lemma del_active_keeps : forall a u r, In r a -> r_uid r <> u -> In r (del_active a u).
Proof.
  intros a u r Hr Hu. unfold del_active. apply filter_In. split; auto.
  destruct (Z.eqb_spec (r_uid r) u); [contradiction|reflexivity].
Qed.

Lemma pf_step_active : forall acc j st upd succ failed,
  pf_step acc j = (st, upd, succ, failed) ->
  let '(st0, _, _, _) := acc in
  st_active st = st_active st0 \/
  (finished (j_phase j) = true /\ st_active st = del_active (st_active st0) (j_uid j)).
Proof.
  intros [[[st0 upd0] succ0] failed0] j st upd succ failed. unfold pf_step.
  assert (Close : forall st1 succ1 failed1 upd1,
    (st_active st1 = st_active st0 \/
     (finished (j_phase j) = true /\ st_active st1 = del_active (st_active st0) (j_uid j))) ->
    (st1, upd1, succ1, failed1) = (st, upd, succ, failed) ->
    st_active st = st_active st0 \/
    (finished (j_phase j) = true /\ st_active st = del_active (st_active st0) (j_uid j))).
  { intros ? ? ? ? ? E; inversion E; subst; auto. }
  intros E.
  destruct (st_last_success st0) as [ls|] eqn:Els; destruct (j_finish j) as [f|] eqn:Efin;
    destruct (in_active (st_active st0) (j_uid j)) eqn:Eia; destruct (j_phase j) eqn:Ep;
    cbn [finished] in E; cbn -[Z.ltb after_ls] in E;
    repeat (rewrite ?Els in E; cbn -[Z.ltb after_ls] in E);
    repeat match type of E with context [if ?b then _ else _] => destruct b end;
    cbn -[Z.ltb after_ls] in E;
    (eapply Close; [|exact E]); cbn; auto.
Qed.

Lemma pf_fold_gen : forall l acc,
  let '(s1, _, su1, fa1) := fold_left pf_step l acc in
  let '(s0, _, su0, fa0) := acc in
  (forall x, In x su1 \/ In x fa1 -> In x su0 \/ In x fa0 \/ (In x l /\ finished (j_phase x) = true)) /\
  (forall r, In r (st_active s0) ->
             (forall j, In j l -> finished (j_phase j) = true -> j_uid j <> r_uid r) -> In r (st_active s1)).
Proof.
  induction l as [|j r IH]; intros [[[s0 u0] su0] fa0]; cbn [fold_left].
  - split; [tauto|auto].
  - destruct (pf_step (s0, u0, su0, fa0) j) as [[[sa ua] sua] faa] eqn:EP.
    specialize (IH (sa, ua, sua, faa)).
    destruct (fold_left pf_step r (sa, ua, sua, faa)) as [[[s1 u1] su1] fa1].
    destruct IH as [IH1 IH2].
    pose proof (pf_step_inv _ _ _ _ _ _ EP) as (_ & _ & P3 & P4).
    pose proof (pf_step_active _ _ _ _ _ _ EP) as PA. cbn in PA.
    split.
    + intros x Hx. destruct (IH1 x Hx) as [H|[H|[H1 H2]]].
      * destruct (P3 x H) as [H'|[-> Hp]]; [auto|]. right; right. split; [left; auto|]. now rewrite Hp.
      * destruct (P4 x H) as [H'|[-> Hp]]; [auto|]. right; right. split; [left; auto|]. now rewrite Hp.
      * right; right. split; [right; auto|auto].
    + intros rf Hr Hsafe. apply IH2.
      * destruct PA as [->|[Hf ->]]; [exact Hr|]. apply del_active_keeps; auto.
        intro Heq. apply (Hsafe j (or_introl eq_refl) Hf). auto.
      * intros j' Hj'. apply Hsafe. right; auto.
Qed.

Lemma delete_each_keeps : forall victims st jobs dels upd st' jobs' dels' upd' r,
  delete_each victims st jobs dels upd = (st', jobs', dels', upd') ->
  In r (st_active st) -> (forall v, In v victims -> j_uid v <> r_uid r) -> In r (st_active st').
Proof.
  induction victims as [|v vs IH]; cbn; intros until r.
  - intros E; inversion E; subst. auto.
  - intros E Hr Hs. destruct (find_job jobs (j_name v)); eapply IH in E; eauto.
    cbn. apply del_active_keeps; auto. intro Heq. apply (Hs v); auto.
Qed.

Lemma remove_oldest_keeps : forall js limit st jobs dels upd st' jobs' dels' upd' r,
  remove_oldest js limit st jobs dels upd = (st', jobs', dels', upd') ->
  In r (st_active st) -> (forall v, In v js -> j_uid v <> r_uid r) -> In r (st_active st').
Proof.
  intros until r. unfold remove_oldest. destruct limit as [mx|]; [|intros E; inversion E; subst; auto].
  destruct (Z.of_nat (length js) - mx <=? 0); [intros E; inversion E; subst; auto|].
  intros E Hr Hs. eapply delete_each_keeps; eauto.
  intros v Hv. apply Hs. apply sort_jobs_incl. eapply firstn_incl; eauto.
Qed.

Lemma process_finished_keeps : forall spec st jobs st' jobs' hd upd r,
  process_finished spec st (mine_of jobs) jobs = (st', jobs', hd, upd) ->
  In r (st_active st) ->
  (forall j, In j jobs -> finished (j_phase j) = true -> j_uid j <> r_uid r) ->
  In r (st_active st').
Proof.
  intros until r. unfold process_finished.
  pose proof (pf_fold_gen (mine_of jobs) (st, false, [], [])) as G.
  destruct (fold_left pf_step (mine_of jobs) (st, false, [], [])) as [[[st1 upd1] succ] failed].
  destruct G as [G1 G2]. intros E Hr Hsafe.
  assert (Hr1 : In r (st_active st1)).
  { apply G2; auto. intros j Hj. apply Hsafe. apply mine_of_In in Hj. tauto. }
  assert (Hv : forall v, In v succ \/ In v failed -> j_uid v <> r_uid r).
  { intros v Hv. destruct (G1 v Hv) as [[]|[[]|[Hm Hf]]]. apply Hsafe; auto. apply mine_of_In in Hm. tauto. }
  destruct (c_fail_limit spec), (c_succ_limit spec);
    try (inversion E; subst; exact Hr1);
    destruct (remove_oldest succ _ st1 jobs [] upd1) as [[[st2 jobs2] dels2] upd2] eqn:ER1;
    eapply remove_oldest_keeps in E; eauto; eapply remove_oldest_keeps; eauto.
Qed.

Lemma as_del_keeps : forall s u r, In r (as_cur s) -> r_uid r <> u -> In r (as_cur (as_del s u)).
Proof.
  intros s u r Hr Hu. destruct (as_cur_del s u) as [->| ->]; auto.
  apply filter_In. split; auto. destruct (Z.eqb_spec (r_uid r) u); [contradiction|reflexivity].
Qed.

Lemma clean_stale_keeps : forall lister mine a a' upd r,
  clean_stale lister mine a = (a', upd) -> In r a -> In (r_uid r) (map j_uid mine) -> In r a'.
Proof.
  intros lister mine a a' upd r. unfold clean_stale.
  destruct (fold_left (stale_step lister (map j_uid mine)) (seq 0 (length a)) (as_of a, false)) as [s u] eqn:EF.
  intros E Hr Hm; inversion E; subst.
  assert (G : In r (as_cur (fst (fold_left (stale_step lister (map j_uid mine)) (seq 0 (length a)) (as_of a, false))))).
  { apply (fold_left_inv (fun acc : aslice * bool => In r (as_cur (fst acc)))).
    - cbn [fst]. rewrite as_cur_of. exact Hr.
    - intros [s0 u0] i H. cbn [fst] in *. unfold stale_step.
      destruct (nth_error (bk s0) i) as [r'|]; [|exact H].
      destruct (existsb (Z.eqb (r_uid r')) (map j_uid mine)) eqn:Eex; [exact H|].
      assert (Hne : r_uid r <> r_uid r').
      { intro Heq. assert (existsb (Z.eqb (r_uid r')) (map j_uid mine) = true); [|congruence].
        apply existsb_exists. exists (r_uid r). split; auto. rewrite Heq. apply Z.eqb_refl. }
      destruct (find_job lister (r_name r')) as [j|].
      + destruct (j_uid j =? r_uid r'); [exact H|]. cbn [fst]. apply as_del_keeps; auto.
      + cbn [fst]. apply as_del_keeps; auto. }
  rewrite EF in G. exact G.
Qed.

(* a reference to a live run (an unfinished job of this CronJob on the server,
   UIDs being unique) survives both halves of the clean-up *)
Lemma cleanup_keeps_live : forall spec st jobs st' jobs' hd upd r j,
  cleanup spec st jobs = (st', jobs', hd, upd) -> uids_unique jobs ->
  In r (st_active st) -> In j jobs -> j_owner j = OwnThis -> finished (j_phase j) = false ->
  j_uid j = r_uid r -> In r (st_active st').
Proof.
  intros until j. unfold cleanup.
  destruct (process_finished spec st (mine_of jobs) jobs) as [[[st1 jobs1] hd1] upd1] eqn:EP.
  destruct (clean_stale jobs (mine_of jobs) (st_active st1)) as [a2 upd2] eqn:EC.
  intros E Hu Hr Hj Ho Hf Hid; inversion E; subst. cbn.
  eapply clean_stale_keeps; eauto.
  - eapply process_finished_keeps; eauto.
    intros j' Hj' Hf' Heq. assert (j' = j) by (apply Hu; auto; congruence). subst. congruence.
  - apply in_map_iff. exists j. split; auto. unfold mine_of. apply filter_In. split; auto. now rewrite Ho.
Qed.

(* Forbid against live runs: whatever status the reconcile starts from (fresh
   or stale), if it references an unfinished job of this CronJob that is on the
   server, no job is started *)
Lemma cleanup2_keeps_live : forall spec st srv jobs st' jobs' hd upd r j,
  cleanup2 spec st srv jobs = (st', jobs', hd, upd) -> uids_unique jobs ->
  In r (st_active st) -> In j jobs -> j_owner j = OwnThis -> finished (j_phase j) = false ->
  j_uid j = r_uid r -> In r (st_active st').
Proof.
  intros until j. unfold cleanup2.
  destruct (process_finished spec st (mine_of jobs) jobs) as [[[st1 jobs1] hd1] upd1] eqn:EP.
  intros E Hu Hr Hj Ho Hf Hid.
  assert (Hr1 : In r (st_active st1)).
  { eapply process_finished_keeps; eauto.
    intros j' Hj' Hf' Heq. assert (j' = j) by (apply Hu; auto; congruence). subst. congruence. }
  destruct (switched (mine_of jobs) (st_active st1) srv).
  - destruct (clean_stale jobs (mine_of jobs) srv). inversion E; subst. exact Hr1.
  - destruct (clean_stale jobs (mine_of jobs) (st_active st1)) as [a2 upd2] eqn:EC.
    inversion E; subst. cbn. eapply clean_stale_keeps; eauto.
    apply in_map_iff. exists j. split; auto. unfold mine_of. apply filter_In. split; auto. now rewrite Ho.
Qed.

Theorem cron_forbid_live : forall next lenient fuel s st_in ok now fc s' o r j,
  reconcile_from next lenient fuel s st_in ok now fc = (s', o) ->
  c_policy (s_spec s) = Forbid -> uids_unique (s_jobs s) ->
  In r (st_active st_in) -> In j (s_jobs s) -> j_owner j = OwnThis -> finished (j_phase j) = false ->
  j_uid j = r_uid r ->
  o_creates o = [].
Proof.
  intros until j. unfold reconcile_from.
  destruct (cleanup2 (s_spec s) st_in (st_active (s_status s)) (s_jobs s)) as [[[st1 jobs1] hd] upd1] eqn:EC.
  destruct (decide next lenient fuel (s_spec s) st1 jobs1 (s_next_uid s) now fc upd1 hd)
    as [[[st2 jobs2] uid2] o2] eqn:ED.
  intros E HF Hu Hr Hj Ho Hf Hid; inversion E; subst.
  eapply cron_forbid; [exact ED|exact HF|].
  pose proof (cleanup2_keeps_live _ _ _ _ _ _ _ _ r j EC Hu Hr Hj Ho Hf Hid) as Hin.
  intro Hnil. rewrite Hnil in Hin. destruct Hin.
Qed.

(* adoption by name: createJob hits AlreadyExists on a job that this CronJob
   owns and that is still unfinished (and the job client can fetch it): nothing
   is created, the job is referenced in status.active afterwards, and - unless
   it was referenced already - lastScheduleTime is set and the update requested *)
Theorem cron_adoption : forall next fuel spec now hd t st1 jobs1 uid upd1 rd st' jobs' uid' o ex,
  create_job next true fuel spec now hd false t st1 jobs1 uid upd1 rd = (st', jobs', uid', o) ->
  find_job jobs1 (job_name_of t) = Some ex -> j_owner ex = OwnThis -> finished (j_phase ex) = false ->
  o_creates o = [] /\ jobs' = jobs1 /\
  In (mkRef (job_name_of t) (j_uid ex)) (st_active st') \/
  (o_creates o = [] /\ jobs' = jobs1 /\ in_active (st_active st1) (j_uid ex) = true /\ st_active st' = st_active st1).
Proof.
  intros until ex. intros E Hf Ho Hu. unfold create_job in E. rewrite Hf, Ho, Hu in E. cbn [negb] in E.
  destruct (in_active (st_active st1) (j_uid ex)) eqn:Ea;
    unfold fin in E;
    match type of E with context [match ?x with _ => _ end] => destruct x end;
    inversion E; subst; cbn.
  - right. auto.
  - right. auto.
  - left. repeat split; auto. apply in_or_app. right. left. reflexivity.
  - left. repeat split; auto. apply in_or_app. right. left. reflexivity.
Qed.

Theorem cron_adoption_records : forall next fuel spec now hd t st1 jobs1 uid upd1 rd st' jobs' uid' o ex,
  create_job next true fuel spec now hd false t st1 jobs1 uid upd1 rd = (st', jobs', uid', o) ->
  find_job jobs1 (job_name_of t) = Some ex -> j_owner ex = OwnThis -> finished (j_phase ex) = false ->
  in_active (st_active st1) (j_uid ex) = false ->
  st_last st' = Some t /\ o_upd o = true /\ (o_err o = E_OK \/ o_err o = E_FUEL) /\ o_status o = st'.
Proof.
  intros until ex. intros E Hf Ho Hu Ha. unfold create_job in E. rewrite Hf, Ho, Hu, Ha in E. cbn [negb] in E.
  apply fin_spec in E. destruct E as (-> & -> & -> & Ec & Es & Eu & Eh & Er & Ee). cbn. auto.
Qed.

(* foreign or finished conflicting jobs stay report-only: nothing is created,
   nothing is recorded *)
Theorem cron_conflict_foreign : forall next lenient fuel spec now hd t st1 jobs1 uid upd1 rd st' jobs' uid' o ex,
  create_job next lenient fuel spec now hd false t st1 jobs1 uid upd1 rd = (st', jobs', uid', o) ->
  find_job jobs1 (job_name_of t) = Some ex -> (j_owner ex <> OwnThis \/ finished (j_phase ex) = true) ->
  o_creates o = [] /\ st' = st1 /\ jobs' = jobs1.
Proof.
  intros until ex. intros E Hf Hc. unfold create_job in E. rewrite Hf in E.
  destruct lenient; cbn [negb] in E; [|inversion E; subst; auto].
  destruct (j_owner ex) eqn:Eo; try (apply fin_spec in E; destruct E as (-> & -> & -> & Ec & _); auto).
  destruct (finished (j_phase ex)) eqn:Ef; [apply fin_spec in E; destruct E as (-> & -> & -> & Ec & _); auto|].
  destruct Hc as [Hc|Hc]; [contradiction|discriminate].
Qed.

(* ------------------------------------------------------------------ *)
(* No orphans over histories: every unfinished job of this CronJob on   *)
(* the server is referenced in status.active                            *)
(* ------------------------------------------------------------------ *)

Definition live (j : job) : Prop := j_owner j = OwnThis /\ finished (j_phase j) = false.

Definition no_orphan (a : list jref) (jobs : list job) : Prop :=
  forall j, In j jobs -> live j -> exists r, In r a /\ r_uid r = j_uid j.

Lemma uids_unique_incl : forall js js', uids_unique js -> incl js' js -> uids_unique js'.
Proof. intros js js' H I a b Ha Hb. apply H; auto. Qed.

Lemma remove_job_name : forall js n j, In j (remove_job js n) -> j_name j <> n.
Proof.
  intros js n j H. unfold remove_job in H. apply filter_In in H. destruct H as [_ H].
  destruct (Z.eqb_spec (j_name j) n); [discriminate|assumption].
Qed.

Lemma replace_loop_keeps : forall idx s jobs dels upd s' jobs' dels' upd' ok r,
  replace_loop idx s jobs dels upd = (s', jobs', dels', upd', ok) -> uids_unique jobs ->
  In r (as_cur s) -> (exists j, In j jobs' /\ j_uid j = r_uid r) -> In r (as_cur s').
Proof.
  induction idx as [|i rest IH]; cbn; intros until r.
  - intros E; inversion E; subst. auto.
  - destruct (nth_error (bk s) i) as [r'|]; [|intros E; inversion E; subst; auto].
    destruct (find_job jobs (r_name r')) as [j'|] eqn:EF; [|intros E; inversion E; subst; auto].
    intros E Hu Hr (j & Hj & Hid).
    pose proof (replace_loop_incl _ _ _ _ _ _ _ _ _ _ E) as [_ I2].
    eapply IH; [exact E| | |exists j; auto].
    + eapply uids_unique_incl; [exact Hu|apply remove_job_incl].
    + apply as_del_keeps; auto. intro Heq.
      apply find_job_In in EF. destruct EF as [Hj' Hn'].
      assert (Hjr : In j (remove_job jobs (r_name r'))) by (apply I2; auto).
      assert (j = j') by (apply Hu; auto; [apply (remove_job_incl _ _ _ Hjr)|congruence]).
      subst. apply remove_job_name in Hjr. contradiction.
Qed.

Lemma apply_policy_keeps : forall spec st jobs upd0 skip st1 jobs1 rd upd1 ok r,
  apply_policy spec st jobs upd0 = (skip, st1, jobs1, rd, upd1, ok) -> uids_unique jobs ->
  In r (st_active st) -> (exists j, In j jobs1 /\ j_uid j = r_uid r) -> In r (st_active st1).
Proof.
  intros until r. unfold apply_policy. destruct (c_policy spec).
  - intros E; inversion E; subst; auto.
  - destruct (st_active st) eqn:Ea; intros E Hu Hr Hex; inversion E; subst; rewrite Ea; exact Hr.
  - destruct (replace_loop (seq 0 (length (st_active st))) (as_of (st_active st)) jobs [] false)
      as [[[[s j'] d'] u'] o'] eqn:ER.
    intros E Hu Hr Hex; inversion E; subst. cbn.
    eapply replace_loop_keeps; eauto. now rewrite as_cur_of.
Qed.

(* what createJob does to the server and to status.active *)
Lemma create_job_shape : forall next lenient fuel spec now hd fc t st1 jobs1 uid upd1 rd st' jobs' uid' o,
  create_job next lenient fuel spec now hd fc t st1 jobs1 uid upd1 rd = (st', jobs', uid', o) ->
  (forall r, In r (st_active st1) -> In r (st_active st')) /\
  (jobs' = jobs1 \/
   (jobs' = insert_job (mkJob (job_name_of t) uid OwnThis PhOther (Some now) None) jobs1 /\
    (in_active (st_active st1) uid = false -> In (mkRef (job_name_of t) uid) (st_active st')))).
Proof.
  intros until o. unfold create_job, fin. intros E.
  repeat match type of E with
         | context [match ?x with _ => _ end] => destruct x eqn:?
         end;
    inversion E; subst; cbn; (split; [intros; try apply in_or_app; auto|]); auto;
    right; split; auto; intros; try congruence; apply in_or_app; right; left; reflexivity.
Qed.

Lemma create_job_creates : forall next lenient fuel spec now hd fc t st1 jobs1 uid upd1 rd st' jobs' uid' o,
  create_job next lenient fuel spec now hd fc t st1 jobs1 uid upd1 rd = (st', jobs', uid', o) ->
  o_creates o = [] -> jobs' = jobs1.
Proof.
  intros until o. unfold create_job, fin. intros E.
  repeat match type of E with
         | context [match ?x with _ => _ end] => destruct x eqn:?
         end;
    inversion E; subst; cbn; intros; auto; discriminate.
Qed.

Lemma decide_keeps : forall next lenient fuel spec st jobs uid now fc upd0 hd st' jobs' uid' o,
  decide next lenient fuel spec st jobs uid now fc upd0 hd = (st', jobs', uid', o) ->
  uids_unique jobs -> uid_ok uid (st_active st) jobs ->
  (forall r j, In r (st_active st) -> In j jobs -> In j jobs' -> j_uid j = r_uid r -> In r (st_active st')) /\
  (exists nj, j_uid nj = uid /\
     forall j, In j jobs' -> In j jobs \/ (j = nj /\ exists r, In r (st_active st') /\ r_uid r = uid)) /\
  (o_creates o = [] -> incl jobs' jobs).
Proof.
  intros until o. intros E Hu Hok. unfold decide in E.
  pose (dummy := mkJob 0 uid OwnNone PhOther None None).
  assert (Same : forall st2 jobs2 o2, (forall r, In r (st_active st) -> In r (st_active st2)) -> incl jobs2 jobs ->
    (forall r j, In r (st_active st) -> In j jobs -> In j jobs2 -> j_uid j = r_uid r -> In r (st_active st2)) /\
    (exists nj, j_uid nj = uid /\
       forall j, In j jobs2 -> In j jobs \/ (j = nj /\ exists r, In r (st_active st2) /\ r_uid r = uid)) /\
    (o_creates o2 = [] -> incl jobs2 jobs)).
  { intros st2 jobs2 o2 H1 H2. split; [intros; auto|]. split; [|auto].
    exists dummy. split; [reflexivity|]. intros j Hj; left; auto. }
  destruct (c_suspend spec); [inversion E; subst; apply Same; auto; apply incl_refl|].
  destruct (negb (c_tz_ok spec)); [inversion E; subst; apply Same; auto; apply incl_refl|].
  destruct (next_schedule_time next fuel (c_created spec) (st_last st) (c_deadline spec) now) as [| |[t|]];
    try (inversion E; subst; apply Same; auto; apply incl_refl);
    try (apply fin_spec in E; destruct E as (-> & -> & -> & _); apply Same; auto; apply incl_refl).
  destruct (in_active_by_name (st_active st) (job_name_of t) || _);
    [apply fin_spec in E; destruct E as (-> & -> & -> & _); apply Same; auto; apply incl_refl|].
  destruct (apply_policy spec st jobs upd0) as [[[[[skip st1] jobs1] rd] upd1] ok] eqn:EP.
  pose proof (apply_policy_spec _ _ _ _ _ _ _ _ _ _ EP) as (I1 & I2 & _ & _).
  pose proof (fun r => apply_policy_keeps _ _ _ _ _ _ _ _ _ _ r EP Hu) as K.
  assert (Same1 : forall st2 o2, (forall r, In r (st_active st1) -> In r (st_active st2)) ->
    (forall r j, In r (st_active st) -> In j jobs -> In j jobs1 -> j_uid j = r_uid r -> In r (st_active st2)) /\
    (exists nj, j_uid nj = uid /\
       forall j, In j jobs1 -> In j jobs \/ (j = nj /\ exists r, In r (st_active st2) /\ r_uid r = uid)) /\
    (o_creates o2 = [] -> incl jobs1 jobs)).
  { intros st2 o2 H1. split; [|split; [|auto]].
    - intros r j Hr Hj Hj1 Hid. apply H1. apply K; auto. exists j. auto.
    - exists dummy. split; [reflexivity|]. intros j Hj. left. auto. }
  destruct ok; cbn [negb] in E; [|inversion E; subst; apply Same1; auto].
  destruct skip; [apply fin_spec in E; destruct E as (-> & -> & -> & _); apply Same1; auto|].
  pose proof (create_job_creates _ _ _ _ _ _ _ _ _ _ _ _ _ _ _ _ _ E) as CC.
  pose proof (create_job_shape _ _ _ _ _ _ _ _ _ _ _ _ _ _ _ _ _ E) as [S1 [->|[-> S2]]].
  - apply Same1; auto.
  - assert (Hfresh : in_active (st_active st1) uid = false).
    { apply in_active_false. eapply incl_Forall; [exact I1|apply Hok]. }
    specialize (S2 Hfresh). split; [|split].
    + intros r j Hr Hj Hj' Hid. apply S1. apply K; auto. exists j. split; auto.
      apply insert_job_In in Hj'. destruct Hj' as [->|Hj']; [|exact Hj'].
      exfalso. destruct Hok as [_ H2]. rewrite Forall_forall in H2. specialize (H2 _ Hj). cbn in H2. lia.
    + eexists. split; [|intros j Hj; apply insert_job_In in Hj; destruct Hj as [->|Hj];
                         [right; split; [reflexivity|]; eexists; split; [exact S2|reflexivity]|left; auto]].
      reflexivity.
    + intros Hc. rewrite (CC Hc). exact I2.
Qed.

Definition inv_live (s : cstate) : Prop :=
  state_ok s /\ uids_unique (s_jobs s) /\ no_orphan (st_active (s_status s)) (s_jobs s).

(* the environment events of a history that cannot create an orphan or revive
   a finished run: everything except adding an unfinished job owned by this
   CronJob behind the controller's back and moving a job back to an unfinished phase *)
Definition op_no_orphan (o : op) : Prop :=
  match o with
  | OpAdd _ OwnThis PhOther _ _ => False
  | OpFinish _ PhOther _ => False
  | _ => True
  end.

Lemma reconcile_inv_live : forall next lenient fuel s now fc s' o,
  reconcile next lenient fuel s now fc = (s', o) -> inv_live s -> o_err o <> E_FUEL ->
  inv_live s' /\
  (c_policy (s_spec s) = Forbid -> o_creates o <> [] -> forall j, In j (s_jobs s) -> ~ live j).
Proof.
  intros next lenient fuel s now fc s' o. unfold reconcile.
  destruct (cleanup (s_spec s) (s_status s) (s_jobs s)) as [[[st1 jobs1] hd] upd1] eqn:EC.
  destruct (decide next lenient fuel (s_spec s) st1 jobs1 (s_next_uid s) now fc upd1 hd)
    as [[[st2 jobs2] uid2] o2] eqn:ED.
  intros E (Hok & Hu & Hno) Hfuel; inversion E; subst; clear E.
  pose proof (cleanup_spec _ _ _ _ _ _ _ EC) as (C1 & C2 & C3 & C4).
  assert (Hok1 : uid_ok (s_next_uid s) (st_active st1) jobs1) by (eapply uid_ok_incl; eauto).
  assert (Hu1 : uids_unique jobs1) by (eapply uids_unique_incl; eauto).
  pose proof (decide_spec next lenient _ _ _ _ _ _ _ _ _ _ _ _ _ ED Hok1) as (Ds & Dh & Du & Dok & Dc).
  pose proof (decide_keeps _ _ _ _ _ _ _ _ _ _ _ _ _ _ _ ED Hu1 Hok1) as (K1 & (nj & Hnj & K2) & K3).
  assert (Hlt : forall x, In x jobs1 -> j_uid x < s_next_uid s).
  { destruct Hok1 as [_ H2]. rewrite Forall_forall in H2. exact H2. }
  (* references of live old jobs survive the clean-up *)
  assert (L1 : forall j, In j jobs1 -> live j -> exists r, In r (st_active st1) /\ r_uid r = j_uid j).
  { intros j Hj Hl. destruct (Hno j (C3 _ Hj) Hl) as (r & Hr & Hid). exists r. split; auto.
    destruct Hl. eapply cleanup_keeps_live; eauto. }
  split.
  - unfold inv_live, state_ok. cbn [s_next_uid s_status s_jobs s_spec].
    split; [|split].
    + destruct ((o_err o =? E_OK) && o_upd o); [exact Dok|].
      destruct Dok as [_ D2]. split; [|exact D2].
      eapply Forall_impl; [|apply Hok]. cbn; intros; lia.
    + intros a b Ha Hb Hid. destruct (K2 a Ha) as [Ha'|[-> _]], (K2 b Hb) as [Hb'|[-> _]]; auto.
      * exfalso. specialize (Hlt _ Ha'). lia.
      * exfalso. specialize (Hlt _ Hb'). lia.
    + intros j Hj Hl.
      destruct ((o_err o =? E_OK) && o_upd o) eqn:Ep.
      * destruct (K2 j Hj) as [Hj1|[-> (r & Hr & Hru)]].
        -- destruct (L1 j Hj1 Hl) as (r & Hr & Hid). exists r. split; auto. eapply K1; eauto.
        -- exists r. split; auto. congruence.
      * (* nothing was written: then nothing was created either *)
        destruct Dc as [[Hc _]|(t & Hs & _ & _ & _ & _ & Hupd & He & _)].
        -- apply Hno; auto. apply C3. apply K3; auto.
        -- exfalso. assert (Eok : o_err o = E_OK) by (destruct He; [assumption|contradiction]).
           rewrite Eok, Hupd in Ep. cbn in Ep. discriminate.
  - intros HF Hcr j Hj Hl.
    destruct Dc as [[Hc _]|(t & Hs & _ & _ & HFa & _)]; [contradiction|].
    specialize (HFa HF).
    destruct (Hno j Hj Hl) as (r & Hr & Hid). destruct Hl as [Hl1 Hl2].
    pose proof (cleanup_keeps_live _ _ _ _ _ _ _ r j EC Hu Hr Hj Hl1 Hl2 (eq_sym Hid)) as Hin.
    rewrite HFa in Hin. destruct Hin.
Qed.

Lemma step_inv_live : forall next lenient fuel s op s' out,
  step next lenient fuel s op = (s', out) -> inv_live s -> op_no_orphan op ->
  (forall o, out = Some o -> o_err o <> E_FUEL) -> inv_live s'.
Proof.
  intros next lenient fuel s op s' out. destruct op; cbn [step op_no_orphan].
  - destruct (reconcile next lenient fuel s now fail_create) as [s1 r] eqn:ER.
    intros E Hi _ Hf; inversion E; subst. eapply reconcile_inv_live; eauto.
  - intros E (Hok & Hu & Hno) Hop _; inversion E; subst. unfold inv_live, state_ok in *. cbn.
    set (f := fun j : job => if j_name j =? name then mkJob (j_name j) (j_uid j) (j_owner j) p (j_created j) at_ else j).
    assert (Fu : forall j, j_uid (f j) = j_uid j) by (intros j; unfold f; destruct (j_name j =? name); reflexivity).
    split; [|split].
    + destruct Hok as [H1 H2]. split; auto. rewrite Forall_forall in *. intros x Hx.
      apply in_map_iff in Hx. destruct Hx as (j & <- & Hj). rewrite Fu. auto.
    + intros a b Ha Hb Hid. apply in_map_iff in Ha. apply in_map_iff in Hb.
      destruct Ha as (ja & <- & Hja), Hb as (jb & <- & Hjb). rewrite !Fu in Hid.
      now rewrite (Hu ja jb Hja Hjb Hid).
    + intros x Hx [Hl1 Hl2]. apply in_map_iff in Hx. destruct Hx as (j & <- & Hj).
      rewrite Fu. unfold f in Hl1, Hl2. destruct (j_name j =? name).
      * cbn in Hl2. destruct p; [contradiction|discriminate|discriminate|discriminate].
      * apply Hno; auto. split; auto.
  - intros E (Hok & Hu & Hno) _ _; inversion E; subst. unfold inv_live, state_ok in *. cbn.
    split; [|split].
    + eapply uid_ok_incl; eauto; [apply incl_refl|apply remove_job_incl].
    + eapply uids_unique_incl; eauto. apply remove_job_incl.
    + intros j Hj Hl. apply Hno; auto. eapply remove_job_incl; eauto.
  - destruct (find_job (s_jobs s) name); [intros E Hi _ _; inversion E; subst; exact Hi|].
    intros E (Hok & Hu & Hno) Hop _; inversion E; subst. unfold inv_live, state_ok in *. cbn.
    assert (Hlt : forall x, In x (s_jobs s) -> j_uid x < s_next_uid s).
    { destruct Hok as [_ H2]. rewrite Forall_forall in H2. exact H2. }
    split; [|split].
    + destruct Hok as [H1 H2]. split.
      * eapply Forall_impl; [|exact H1]. cbn; intros; lia.
      * rewrite Forall_forall in *. intros x Hx. apply insert_job_In in Hx.
        destruct Hx as [->|Hx]; [cbn; lia|]. specialize (H2 x Hx). lia.
    + intros a b Ha Hb Hid. apply insert_job_In in Ha. apply insert_job_In in Hb.
      destruct Ha as [->|Ha], Hb as [->|Hb]; auto; cbn in Hid; exfalso.
      * specialize (Hlt _ Hb). lia.
      * specialize (Hlt _ Ha). lia.
    + intros j Hj [Hl1 Hl2]. apply insert_job_In in Hj. destruct Hj as [->|Hj]; [|apply Hno; auto; split; auto].
      cbn in Hl1, Hl2. subst o. destruct p; [contradiction|discriminate|discriminate|discriminate].
  - intros E Hi _ _; inversion E; subst. exact Hi.
  - intros E Hi _ _; inversion E; subst. exact Hi.
  - intros E Hi _ _; inversion E; subst. exact Hi.
  - intros E Hi _ _; inversion E; subst. exact Hi.
Qed.

Lemma run_inv_live : forall next lenient fuel ops s s' outs,
  run next lenient fuel s ops = (s', outs) -> inv_live s -> Forall op_no_orphan ops ->
  Forall (fun o => o_err o <> E_FUEL) outs -> inv_live s'.
Proof.
  intros next lenient fuel. induction ops as [|op r IH]; cbn [run]; intros s s' outs.
  - intros E Hi _ _; inversion E; subst. exact Hi.
  - destruct (step next lenient fuel s op) as [s1 out] eqn:ES.
    destruct (run next lenient fuel s1 r) as [s2 outs2] eqn:ER.
    intros E Hi Hops Hf; inversion E; subst; clear E. inversion Hops as [|? ? Hop Hops']; subst.
    assert (Hf2 : Forall (fun o => o_err o <> E_FUEL) outs2 /\ forall o, out = Some o -> o_err o <> E_FUEL).
    { destruct out; [inversion Hf; subst; split; auto; intros ? Eo; inversion Eo; subst; auto|
                     split; auto; intros ? Eo; discriminate]. }
    destruct Hf2 as [Hf2 Hf1].
    eapply IH; eauto. eapply step_inv_live; eauto.
Qed.

(* main (live-run form of the Forbid clause): in every history without orphans
   planted behind the controller's back, a reconcile under Forbid starts a job
   only when no unfinished job of this CronJob exists on the server *)
Theorem cron_forbid_no_live_run : forall next lenient fuel pre s0 s1 outs1 now fc s2 o,
  inv_live s0 -> Forall op_no_orphan pre ->
  run next lenient fuel s0 pre = (s1, outs1) -> Forall (fun o => o_err o <> E_FUEL) outs1 ->
  reconcile next lenient fuel s1 now fc = (s2, o) -> o_err o <> E_FUEL ->
  c_policy (s_spec s1) = Forbid -> o_creates o <> [] ->
  forall j, In j (s_jobs s1) -> ~ live j.
Proof.
  intros until o. intros Hi Hops ER Hf E Hfo HF Hc.
  pose proof (run_inv_live _ _ _ _ _ _ _ ER Hi Hops Hf) as Hi1.
  eapply reconcile_inv_live; eauto.
Qed.

(* ------------------------------------------------------------------ *)
(* Stale reads and lost status writes (sync reads the informer cache and *)
(* swallows a failed UpdateStatus): what still holds, and what does not  *)
(* ------------------------------------------------------------------ *)

Definition names_unique (jobs : list job) : Prop := NoDup (map j_name jobs).

Lemma names_remove : forall jobs n, names_unique jobs -> names_unique (remove_job jobs n).
Proof.
  unfold names_unique, remove_job. induction jobs as [|j r IH]; cbn; intros n H; [constructor|].
  inversion H; subst. destruct (negb (j_name j =? n)); cbn; auto. constructor; auto.
  intro Hin. apply H2. apply in_map_iff in Hin. destruct Hin as (x & Hx & Hf). apply filter_In in Hf.
  apply in_map_iff. exists x. tauto.
Qed.

Lemma find_job_none : forall jobs n, find_job jobs n = None -> ~ In n (map j_name jobs).
Proof.
  induction jobs as [|j r IH]; cbn; intros n H; [tauto|].
  destruct (Z.eqb_spec (j_name j) n); [discriminate|]. intros [Hx|Hx]; [contradiction|]. eapply IH; eauto.
Qed.

Lemma names_insert : forall jobs j, names_unique jobs -> find_job jobs (j_name j) = None ->
  names_unique (insert_job j jobs).
Proof.
  unfold names_unique. intros jobs j Hn Hf. apply find_job_none in Hf.
  assert (P : forall l, NoDup (map j_name l) -> ~ In (j_name j) (map j_name l) -> NoDup (map j_name (insert_job j l))).
  { induction l as [|k r IH]; cbn; intros Hl Hj; [constructor; [tauto|constructor]|].
    destruct (j_name j <=? j_name k); cbn; [constructor; auto|].
    inversion Hl; subst. constructor; [|apply IH; tauto].
    intro Hin. apply in_map_iff in Hin. destruct Hin as (x & Hx & Hi). apply insert_job_In in Hi.
    destruct Hi as [->|Hi]; [apply Hj; left; congruence|]. apply H1. apply in_map_iff. exists x. tauto. }
  apply P; auto.
Qed.

Lemma delete_each_names : forall victims st jobs dels upd st' jobs' dels' upd',
  delete_each victims st jobs dels upd = (st', jobs', dels', upd') -> names_unique jobs -> names_unique jobs'.
Proof.
  induction victims as [|v r IH]; cbn; intros until upd'.
  - intros E; inversion E; subst; auto.
  - destruct (find_job jobs (j_name v)); intros E H; eapply IH in E; eauto. now apply names_remove.
Qed.

Lemma remove_oldest_names : forall js limit st jobs dels upd st' jobs' dels' upd',
  remove_oldest js limit st jobs dels upd = (st', jobs', dels', upd') -> names_unique jobs -> names_unique jobs'.
Proof.
  intros until upd'. unfold remove_oldest. destruct limit; [|intros E; inversion E; subst; auto].
  destruct (_ <=? 0); [intros E; inversion E; subst; auto|]. apply delete_each_names.
Qed.

Lemma cleanup_names : forall spec st jobs st' jobs' hd upd,
  cleanup spec st jobs = (st', jobs', hd, upd) -> names_unique jobs -> names_unique jobs'.
Proof.
  intros until upd. unfold cleanup, process_finished.
  destruct (fold_left pf_step (mine_of jobs) (st, false, [], [])) as [[[st1 upd1] succ] failed].
  destruct (c_fail_limit spec), (c_succ_limit spec);
    try (destruct (remove_oldest succ _ st1 jobs [] upd1) as [[[st2 jobs2] dels2] upd2] eqn:E1;
         destruct (remove_oldest failed _ st2 jobs2 dels2 upd2) as [[[st3 jobs3] dels3] upd3] eqn:E2;
         destruct (clean_stale jobs (mine_of jobs) (st_active st3));
         intros E H; inversion E; subst;
         eapply remove_oldest_names; [exact E2|]; eapply remove_oldest_names; eauto).
  destruct (clean_stale jobs (mine_of jobs) (st_active st1)). intros E H; inversion E; subst; auto.
Qed.

Lemma replace_loop_names : forall idx s jobs dels upd s' jobs' dels' upd' ok,
  replace_loop idx s jobs dels upd = (s', jobs', dels', upd', ok) -> names_unique jobs -> names_unique jobs'.
Proof.
  induction idx as [|i rest IH]; cbn; intros until ok.
  - intros E; inversion E; subst; auto.
  - destruct (nth_error (bk s) i) as [r|]; [|intros E; inversion E; subst; auto].
    destruct (find_job jobs (r_name r)); [|intros E; inversion E; subst; auto].
    intros E H. eapply IH in E; eauto. now apply names_remove.
Qed.

(* a Create succeeds only when no job of that name is on the server at that
   moment - whatever status the reconcile started from *)
Theorem cron_create_needs_free_name :
  forall next lenient fuel spec now hd fc t st1 jobs1 uid upd1 rd st' jobs' uid' o nm t',
  create_job next lenient fuel spec now hd fc t st1 jobs1 uid upd1 rd = (st', jobs', uid', o) ->
  In (nm, t') (o_creates o) ->
  nm = job_name_of t /\ t' = t /\ find_job jobs1 nm = None /\
  jobs' = insert_job (mkJob nm uid OwnThis PhOther (Some now) None) jobs1.
Proof.
  intros until t'. unfold create_job, fin. intros E.
  repeat match type of E with
         | context [match ?x with _ => _ end] => destruct x eqn:?
         end;
    inversion E; subst; cbn; intros Hin; try (destruct Hin; fail);
    destruct Hin as [Hin|[]]; inversion Hin; subst; auto.
Qed.

Lemma decide_names : forall next lenient fuel spec st jobs uid now fc upd0 hd st' jobs' uid' o,
  decide next lenient fuel spec st jobs uid now fc upd0 hd = (st', jobs', uid', o) ->
  names_unique jobs -> names_unique jobs'.
Proof.
  intros until o. unfold decide, apply_policy. intros E H.
  destruct (c_suspend spec); [inversion E; subst; auto|].
  destruct (negb (c_tz_ok spec)); [inversion E; subst; auto|].
  destruct (next_schedule_time next fuel (c_created spec) (st_last st) (c_deadline spec) now) as [| |[t|]];
    try (inversion E; subst; auto; fail);
    try (apply fin_spec in E; destruct E as (_ & -> & _); auto; fail).
  destruct (in_active_by_name (st_active st) (job_name_of t) || _);
    [apply fin_spec in E; destruct E as (_ & -> & _); auto|].
  assert (P : forall skip st1 jobs1 rd upd1 ok, names_unique jobs1 ->
    (if negb ok then (st1, jobs1, uid, mkOut None upd1 E_REPLACE [] hd rd st1)
     else if (skip : bool) then fin next fuel spec now hd st1 jobs1 uid upd1 [] rd
     else create_job next lenient fuel spec now hd fc t st1 jobs1 uid upd1 rd) = (st', jobs', uid', o) ->
    names_unique jobs').
  { intros skip st1 jobs1 rd upd1 ok H1 E1. destruct ok; cbn [negb] in E1; [|inversion E1; subst; auto].
    destruct skip; [apply fin_spec in E1; destruct E1 as (_ & -> & _); auto|].
    destruct (o_creates o) as [|[nm t'] l] eqn:Ec.
    - rewrite (create_job_creates _ _ _ _ _ _ _ _ _ _ _ _ _ _ _ _ _ E1 Ec). auto.
    - destruct (cron_create_needs_free_name _ _ _ _ _ _ _ _ _ _ _ _ _ _ _ _ _ nm t' E1) as (_ & _ & Hf & ->);
        [rewrite Ec; left; reflexivity|]. apply names_insert; auto. }
  destruct (c_policy spec).
  - cbv beta iota zeta in E. exact (P false st jobs [] upd0 true H E).
  - destruct (st_active st); cbv beta iota zeta in E.
    + exact (P false st jobs [] upd0 true H E).
    + exact (P true st jobs [] upd0 true H E).
  - destruct (replace_loop (seq 0 (length (st_active st))) (as_of (st_active st)) jobs [] false)
      as [[[[s j'] d'] u'] o'] eqn:ER.
    cbv beta iota zeta in E.
    eapply (P false _ j' d' _ o'); [|exact E]. eapply replace_loop_names; eauto.
Qed.

Lemma cleanup2_names : forall spec st srv jobs st' jobs' hd upd,
  cleanup2 spec st srv jobs = (st', jobs', hd, upd) -> names_unique jobs -> names_unique jobs'.
Proof.
  intros until upd. unfold cleanup2, process_finished.
  destruct (fold_left pf_step (mine_of jobs) (st, false, [], [])) as [[[st1 upd1] succ] failed].
  destruct (c_fail_limit spec), (c_succ_limit spec);
    try (destruct (remove_oldest succ _ st1 jobs [] upd1) as [[[st2 jobs2] dels2] upd2] eqn:E1;
         destruct (remove_oldest failed _ st2 jobs2 dels2 upd2) as [[[st3 jobs3] dels3] upd3] eqn:E2;
         destruct (switched (mine_of jobs) (st_active st3) srv);
         [destruct (clean_stale jobs (mine_of jobs) srv)|destruct (clean_stale jobs (mine_of jobs) (st_active st3))];
         intros E H; inversion E; subst;
         (eapply remove_oldest_names; [exact E2|]; eapply remove_oldest_names; eauto)).
  destruct (switched (mine_of jobs) (st_active st1) srv);
    [destruct (clean_stale jobs (mine_of jobs) srv)|destruct (clean_stale jobs (mine_of jobs) (st_active st1))];
    intros E H; inversion E; subst; auto.
Qed.

Lemma reconcile_from_names : forall next lenient fuel s st_in ok now fc s' o,
  reconcile_from next lenient fuel s st_in ok now fc = (s', o) ->
  names_unique (s_jobs s) -> names_unique (s_jobs s').
Proof.
  intros until o. unfold reconcile_from.
  destruct (cleanup2 (s_spec s) st_in (st_active (s_status s)) (s_jobs s)) as [[[st1 jobs1] hd] upd1] eqn:EC.
  destruct (decide next lenient fuel (s_spec s) st1 jobs1 (s_next_uid s) now fc upd1 hd)
    as [[[st2 jobs2] uid2] o2] eqn:ED.
  intros E H; inversion E; subst. cbn. eapply decide_names; eauto. eapply cleanup2_names; eauto.
Qed.

Lemma cleanup3_names : forall spec st srv lister jobs st' jobs' hd upd,
  cleanup3 spec st srv lister jobs = (st', jobs', hd, upd) -> names_unique jobs -> names_unique jobs'.
Proof.
  intros until upd. unfold cleanup3, process_finished.
  destruct (fold_left pf_step (mine_of lister) (st, false, [], [])) as [[[st1 upd1] succ] failed].
  destruct (c_fail_limit spec), (c_succ_limit spec);
    try (destruct (remove_oldest succ _ st1 jobs [] upd1) as [[[st2 jobs2] dels2] upd2] eqn:E1;
         destruct (remove_oldest failed _ st2 jobs2 dels2 upd2) as [[[st3 jobs3] dels3] upd3] eqn:E2;
         destruct (switched (mine_of lister) (st_active st3) srv);
         [destruct (clean_stale lister (mine_of lister) srv)|destruct (clean_stale lister (mine_of lister) (st_active st3))];
         intros E H; inversion E; subst;
         (eapply remove_oldest_names; [exact E2|]; eapply remove_oldest_names; eauto)).
  destruct (switched (mine_of lister) (st_active st1) srv);
    [destruct (clean_stale lister (mine_of lister) srv)|destruct (clean_stale lister (mine_of lister) (st_active st1))];
    intros E H; inversion E; subst; auto.
Qed.

Lemma reconcile_lag_names : forall next lenient fuel s st_in lister ok now fc s' o,
  reconcile_lag next lenient fuel s st_in lister ok now fc = (s', o) ->
  names_unique (s_jobs s) -> names_unique (s_jobs s').
Proof.
  intros until o. unfold reconcile_lag.
  destruct (cleanup3 (s_spec s) st_in (st_active (s_status s)) lister (s_jobs s)) as [[[st1 jobs1] hd] upd1] eqn:EC.
  destruct (decide next lenient fuel (s_spec s) st1 jobs1 (s_next_uid s) now fc upd1 hd)
    as [[[st2 jobs2] uid2] o2] eqn:ED.
  intros E H; inversion E; subst. cbn. eapply decide_names; eauto. eapply cleanup3_names; eauto.
Qed.

(* with the lister showing the server's jobs, the lagged clean-up is the one above *)
Lemma cleanup3_same : forall spec st srv jobs, cleanup3 spec st srv jobs jobs = cleanup2 spec st srv jobs.
Proof. reflexivity. Qed.

Lemma reconcile_names : forall next lenient fuel s now fc s' o,
  reconcile next lenient fuel s now fc = (s', o) ->
  names_unique (s_jobs s) -> names_unique (s_jobs s').
Proof.
  intros until o. unfold reconcile.
  destruct (cleanup (s_spec s) (s_status s) (s_jobs s)) as [[[st1 jobs1] hd] upd1] eqn:EC.
  destruct (decide next lenient fuel (s_spec s) st1 jobs1 (s_next_uid s) now fc upd1 hd)
    as [[[st2 jobs2] uid2] o2] eqn:ED.
  intros E H; inversion E; subst. cbn. eapply decide_names; eauto. eapply cleanup_names; eauto.
Qed.

(* over EVERY history - fresh reconciles, reconciles that start from an
   arbitrary older status, lost status writes, environment events - the server
   never holds two jobs of one name, i.e. of one schedule minute: this, not
   lastScheduleTime, is the protection that survives stale reads *)
Theorem cron_stale_one_job_per_name : forall next lenient fuel ops s s' outs,
  run2 next lenient fuel s ops = (s', outs) -> names_unique (s_jobs s) -> names_unique (s_jobs s').
Proof.
  intros next lenient fuel. induction ops as [|op r IH]; cbn [run2]; intros s s' outs.
  - intros E H; inversion E; subst; auto.
  - destruct (step2 next lenient fuel s op) as [s1 out] eqn:ES.
    destruct (run2 next lenient fuel s1 r) as [s2 outs2] eqn:ER.
    intros E H; inversion E; subst. eapply IH; [exact ER|]. clear IH ER E.
    destruct op as [o|st_in lister ok now fc|st_in ok now fc|now fc]; cbn [step2] in ES.
    + destruct o; cbn [step] in ES.
      * destruct (reconcile next lenient fuel s now fail_create) as [sx rx] eqn:E1. inversion ES; subst.
        eapply reconcile_names; eauto.
      * inversion ES; subst. cbn. unfold names_unique in *. rewrite map_map.
        erewrite map_ext; [exact H|]. intros j; cbn. destruct (j_name j =? name); reflexivity.
      * inversion ES; subst. cbn. now apply names_remove.
      * destruct (find_job (s_jobs s) name) eqn:Ef; inversion ES; subst; auto. cbn.
        apply names_insert; auto.
      * inversion ES; subst; auto.
      * inversion ES; subst; auto.
      * inversion ES; subst; auto.
      * inversion ES; subst; auto.
    + destruct (reconcile_lag next lenient fuel s _ lister ok now fc) as [sx rx] eqn:E1. inversion ES; subst.
      eapply reconcile_lag_names; eauto.
    + destruct (reconcile_from next lenient fuel s st_in ok now fc) as [sx rx] eqn:E1. inversion ES; subst.
      eapply reconcile_from_names; eauto.
    + destruct (reconcile_from next lenient fuel s (s_status s) false now fc) as [sx rx] eqn:E1. inversion ES; subst.
      eapply reconcile_from_names; eauto.
Qed.

(* ... whereas "each schedule time starts at most one job" is FALSE once a
   status write is lost: the job of T finishes, the history limit removes it,
   and the next reconcile - whose lastScheduleTime never recorded T - starts T again *)
Theorem cron_at_most_once_lost_write_refuted :
  exists (s : cstate) (ops : list op2),
    state_ok s /\ names_unique (s_jobs s) /\
    let '(_, outs) := run2 next_pairs false 10 s ops in
    created_times outs = [100 * sec; 100 * sec] /\ Forall (fun o => o_err o <> E_FUEL) outs.
Proof.
  exists (mkState (mkSpec (- sec) false Allow None (Some 0) (Some 0) true) (mkStatus None [] None) [] 1).
  exists [Stale (mkStatus None [] None) false (100 * sec) false;
          Fresh (OpFinish 1 PhCompleted (Some (100 * sec + 5)));
          Fresh (OpReconcile (100 * sec + 9) false)].
  split; [split; constructor|]. split; [constructor|].
  vm_compute. split; [reflexivity|]. repeat constructor; discriminate.
Qed.

(* "@every d" (d whole seconds): the closed form meets the two hypotheses the
   history theorems need (leastness is false for it: no fixed points) *)
Lemma next_every_ok : forall k, 1 <= k ->
  (forall t, t < next_every (k * sec) t) /\ (forall t, exists k', next_every (k * sec) t = k' * sec).
Proof.
  intros k Hk. pose proof sec_pos as Hs. split; intros t; unfold next_every.
  - pose proof (Z.mod_pos_bound t sec Hs). nia.
  - exists (t / sec + k). pose proof (Z.div_mod t sec ltac:(lia)). lia.
Qed.

Theorem cron_at_most_once_every : forall k lenient fuel ops s s' outs hi,
  1 <= k ->
  run (next_every (k * sec)) lenient fuel s ops = (s', outs) -> state_ok s -> bounded hi s -> Forall (op_ok hi) ops ->
  Forall (fun o => o_err o <> E_FUEL) outs ->
  NoDup (created_times outs).
Proof.
  intros k lenient fuel ops s s' outs hi Hk. destruct (next_every_ok k Hk) as [G S].
  apply (cron_at_most_once (next_every (k * sec)) lenient hi); auto.
Qed.

(* ------------------------------------------------------------------ *)
(* What the boolean laws mean (Prop-level soundness)                    *)
(* ------------------------------------------------------------------ *)

Lemma mem_In : forall x l, mem x l = true <-> In x l.
Proof.
  intros x l. unfold mem. rewrite existsb_exists. split.
  - intros (y & Hy & E). apply Z.eqb_eq in E. now subst.
  - intros H. exists x. split; auto. apply Z.eqb_refl.
Qed.

(* law 110, a chosen time: it is a point of the table, after the earliest time,
   not after now, and no table point lies in (t, now] *)
Lemma law_choice_sound : forall tbl created last deadline now t,
  law_choice tbl created last deadline now (Some t) = true ->
  In t tbl /\ earliest_time created last deadline now true < t /\ t <= now /\
  forall p, In p tbl -> t < p -> now < p.
Proof.
  intros tbl created last deadline now t H. unfold law_choice in H.
  repeat (apply andb_prop in H; destruct H as [H ?]).
  apply mem_In in H. split; [exact H|]. split; [lia|]. split; [lia|].
  intros p Hp Hlt. rewrite forallb_forall in H0. specialize (H0 p Hp).
  destruct (Z.ltb_spec t p); [|lia]. cbn in H0. lia.
Qed.

(* law 110, nothing chosen on a constant-period table: no table point is unmet *)
Lemma law_choice_none_sound : forall tbl created last deadline now,
  law_choice tbl created last deadline now None = true -> regular tbl = true ->
  forall p, In p tbl -> ~ (earliest_time created last deadline now true < p <= now).
Proof.
  intros tbl created last deadline now H Hr p Hp [H1 H2]. unfold law_choice in H. rewrite Hr in H.
  rewrite forallb_forall in H. specialize (H p Hp).
  destruct (Z.ltb_spec (earliest_time created last deadline now true) p), (Z.leb_spec p now); cbn in H; try discriminate; lia.
Qed.

(* law 111: the table is a well-formed schedule table and every recorded answer
   of the real Next is what the table-based [next] answers - the windowed
   hypotheses of the theorems then follow by next_tbl_window *)
Lemma law_table_sound : forall tbl qs, law_table tbl qs = true -> tbl <> [] ->
  tbl_ok tbl /\ forall a r, In (a, r) qs -> a < r /\ r = next_tbl tbl a.
Proof.
  intros tbl qs H Hne. unfold law_table in H.
  apply andb_prop in H. destruct H as [H Hq]. apply andb_prop in H. destruct H as [Hi Hs].
  assert (Hok : tbl_ok tbl).
  { split; [exact Hi|]. rewrite Forall_forall. intros p Hp. rewrite forallb_forall in Hs.
    specialize (Hs p Hp). apply Z.eqb_eq in Hs. exists (p / sec).
    pose proof (Z.div_mod p sec ltac:(discriminate)). lia. }
  split; [exact Hok|]. destruct tbl as [|p0 tl]; [contradiction|].
  intros a r Hin. rewrite forallb_forall in Hq. specialize (Hq (a, r) Hin). cbn beta iota in Hq.
  repeat (apply andb_prop in Hq; destruct Hq as [Hq ?]).
  apply mem_In in H1. assert (a < r) by lia. split; [assumption|].
  destruct (next_tbl_spec (p0 :: tl) a Hi) as (N1 & N2 & N3); [exists r; auto|].
  rewrite forallb_forall in H. specialize (H _ N1).
  destruct (Z.ltb_spec a (next_tbl (p0 :: tl) a)); [|lia]. cbn [negb orb] in H.
  apply Z.leb_le in H. specialize (N3 r H1 H2). lia.
Qed.

(* law 121, the clauses of the property on one observed reconcile *)
Lemma law_reconcile_sound : forall tbl o, law_reconcile tbl o = true ->
  (c_suspend (b_spec o) = true -> b_creates o = []) /\
  (c_tz_ok (b_spec o) = false -> b_creates o = []) /\
  (length (b_creates o) <= 1)%nat /\
  (forall nm t, In (nm, t) (b_creates o) ->
     In t tbl /\
     earliest_time (c_created (b_spec o)) (b_last o) (c_deadline (b_spec o)) (b_now o) true < t /\
     t <= b_now o /\ (forall p, In p tbl -> t < p -> b_now o < p) /\
     nm = job_name_of t /\ last_lt (b_last o) t) /\
  law_adoption o = true.
Proof.
  intros tbl o H. unfold law_reconcile in H. rewrite !andb_true_iff in H.
  destruct H as ((((L1 & L2) & L3) & L4) & L9).
  split; [|split; [|split; [|split]]]; auto.
  - intros Hs. rewrite Hs in L1. destruct (b_creates o); [reflexivity|discriminate].
  - intros Hs. rewrite Hs in L2. destruct (b_creates o); [reflexivity|discriminate].
  - apply Nat.leb_le. assumption.
  - intros nm t Hin. rewrite forallb_forall in L4. specialize (L4 _ Hin). cbn beta iota in L4.
    rewrite !andb_true_iff in L4. destruct L4 as (((A1 & A2) & A3) & A4).
    apply law_choice_sound in A1. destruct A1 as (A & B & C & D).
    repeat split; auto.
    + apply Z.eqb_eq in A2. exact A2.
    + unfold last_lt. destruct (b_last o); [lia|exact I].
Qed.

(* law 123: a Delete issued without fetching the job hits a finished run of this CronJob *)
Lemma law_deletes_sound : forall o nm, law_deletes o = true -> In (nm, false) (b_deletes o) ->
  forall j, find_job (b_jobs o) nm = Some j -> j_owner j = OwnThis /\ finished (j_phase j) = true.
Proof.
  intros o nm H Hin j Hf. unfold law_deletes in H. apply andb_prop in H. destruct H as [H _].
  rewrite forallb_forall in H. specialize (H _ Hin). cbn beta iota in H. rewrite Hf in H.
  destruct (j_owner j), (j_phase j); try discriminate; auto.
Qed.

(* law 122, Forbid in the live-run form on the API server's jobs *)
Lemma law_forbid_live_sound : forall o, law_forbid_live o = true ->
  c_policy (b_spec o) = Forbid -> b_creates o <> [] ->
  (forall j, In j (b_jobs o) -> j_owner j = OwnThis -> finished (j_phase j) = false ->
             In (j_uid j) (b_known o) -> In (j_name j) (map fst (b_deletes o))) /\
  (forall r j, In r (b_active o) -> find_job (b_jobs o) (r_name r) = Some j -> j_uid j = r_uid r ->
               finished (j_phase j) = true \/ In (r_name r) (map fst (b_deletes o))).
Proof.
  intros o L10 HF Hc. unfold law_forbid_live in L10. rewrite HF in L10.
  destruct (b_creates o) as [|[nm t] l]; [contradiction|].
  rewrite !andb_true_iff in L10. destruct L10 as ((A & B) & _). split.
  - intros j Hj Ho Hu Hk.
    destruct (mem (j_name j) (map fst (b_deletes o))) eqn:Ed; [apply mem_In; exact Ed|].
    exfalso. assert (Hin : In j (live_known o)).
    { unfold live_known. apply filter_In. split; auto. rewrite Ho, Hu, Ed. cbn.
      apply mem_In in Hk. rewrite Hk. reflexivity. }
    destruct (live_known o); [destruct Hin|discriminate].
  - intros r j Hr Hf Hid. rewrite forallb_forall in B. specialize (B r Hr).
    rewrite Hf in B. apply orb_prop in B. destruct B as [B|B]; [|right; apply mem_In; exact B].
    apply orb_prop in B. destruct B as [B|B]; [|left; exact B].
    rewrite Hid, Z.eqb_refl in B. discriminate.
Qed.

(* law 121, adoption clause: an AlreadyExists on an unfinished job of this
   CronJob that can be fetched leaves it referenced, and recorded unless it was *)
Lemma law_adoption_sound : forall o nm t j, law_adoption o = true ->
  In (nm, t) (b_conflicts o) -> find_job (b_jobs o) nm = Some j ->
  mem nm (map fst (b_deletes o)) = false ->
  j_owner j = OwnThis -> finished (j_phase j) = false -> b_lenient o = true ->
  b_creates o = [] /\ b_err o = 0 /\
  (exists r, In r (b_active_after o) /\ r_name r = nm /\ r_uid r = j_uid j) /\
  ((exists r, In r (b_active o) /\ r_uid r = j_uid j) \/ (b_last_after o = Some t /\ b_upd o = true)).
Proof.
  intros o nm t j H Hin Hf Hd Ho Hu Hl. unfold law_adoption in H. rewrite forallb_forall in H.
  specialize (H _ Hin). cbn beta iota in H. rewrite Hf, Hd, Ho, Hu, Hl in H.
  rewrite !andb_true_iff in H. destruct H as (A1 & (A2 & A3) & A4).
  split; [destruct (b_creates o); [reflexivity|discriminate]|].
  split; [apply Z.eqb_eq; assumption|]. split.
  - apply existsb_exists in A3. destruct A3 as (r & Hr & E). apply andb_prop in E. destruct E as [E1 E2].
    exists r. rewrite Z.eqb_eq in E1, E2. auto.
  - apply orb_prop in A4. destruct A4 as [E|E].
    + left. apply existsb_exists in E. destruct E as (r & Hr & E). exists r. rewrite Z.eqb_eq in E. auto.
    + right. apply andb_prop in E. destruct E as [E1 E2]. destruct (b_last_after o); [|discriminate].
      apply Z.eqb_eq in E1. subst. auto.
Qed.

(* ------------------------------------------------------------------ *)
(* formatSchedule against an independent specification                  *)
(* ------------------------------------------------------------------ *)

(* written without the modelled function: which zone the property text means *)
Inductive zone_spec : tzspec -> sstr -> zone -> Prop :=
| ZS_embedded : forall tz k e, zone_spec tz (mkSstr k (Some e)) (ZNamed e)
| ZS_field : forall k z, zone_spec (TzLoads z) (mkSstr k None) (ZNamed z)
| ZS_local : forall k, zone_spec TzNil (mkSstr k None) ZLocal
| ZS_rejected : forall k, zone_spec TzInvalid (mkSstr k None) ZLocal.

Theorem cron_zone_meets_spec : forall tz s z, zone_used tz s = z <-> zone_spec tz s z.
Proof.
  intros tz [k [e|]] z; split.
  - intros <-. destruct tz; cbn; constructor.
  - intros H; inversion H; subst; reflexivity.
  - intros <-. destruct tz; cbn; constructor.
  - intros H; inversion H; subst; reflexivity.
Qed.

(* the UID precondition of the Delete is the FRESH copy's: relabelling the
   lister's copy changes nothing *)
Theorem gc_uid_is_the_fresh_copys : forall lj fresh now1 now2 u,
  let relabel (j : gjob) := mkGjob u (g_phase j) (g_ttl j) (g_deleting j) (g_finish j) (g_created j) in
  process_job (option_map relabel lj) fresh now1 now2 = process_job lj fresh now1 now2.
Proof. intros [j|] fresh now1 now2 u; reflexivity. Qed.

(* ------------------------------------------------------------------ *)
(* Forbid is NOT kept once the controller's view is stale                *)
(* ------------------------------------------------------------------ *)

Definition live_owned (jobs : list job) : list job :=
  filter (fun j => match j_owner j with OwnThis => true | _ => false end && negb (finished (j_phase j))) jobs.

(* job-lister lag (handler 164 / 266 read the informer, not the API server):
   the run of 100 s is started and recorded; a reconcile whose job lister does
   not show that job yet drops the reference as stale and writes the status;
   at 200 s nothing blocks: a second run starts next to the first, under Forbid,
   with every status write successful *)
Theorem cron_forbid_lister_lag_refuted :
  exists (s : cstate) (ops : list op2),
    state_ok s /\ c_policy (s_spec s) = Forbid /\
    let '(s', outs) := run2 next_pairs false 10 s ops in
    created_times outs = [100 * sec; 200 * sec] /\
    length (live_owned (s_jobs s')) = 2%nat /\ Forall (fun o => o_err o <> E_FUEL) outs.
Proof.
  exists (mkState (mkSpec (- sec) false Forbid None None None true) (mkStatus None [] None) [] 1).
  exists [Fresh (OpReconcile (100 * sec + 5) false);
          Lagged None [] true (100 * sec + 6) false;
          Fresh (OpReconcile (200 * sec + 5) false)].
  split; [split; constructor|]. split; [reflexivity|].
  vm_compute. split; [reflexivity|]. split; [reflexivity|]. repeat constructor; discriminate.
Qed.

(* lost status write: the run of 100 s is started but never recorded; at 200 s
   a second run starts next to it, under Forbid *)
Theorem cron_forbid_lost_write_refuted :
  exists (s : cstate) (ops : list op2),
    state_ok s /\ c_policy (s_spec s) = Forbid /\
    let '(s', outs) := run2 next_pairs false 10 s ops in
    created_times outs = [100 * sec; 200 * sec] /\
    length (live_owned (s_jobs s')) = 2%nat /\ Forall (fun o => o_err o <> E_FUEL) outs.
Proof.
  exists (mkState (mkSpec (- sec) false Forbid None None None true) (mkStatus None [] None) [] 1).
  exists [LostWrite (100 * sec + 5) false; Fresh (OpReconcile (200 * sec + 5) false)].
  split; [split; constructor|]. split; [reflexivity|].
  vm_compute. split; [reflexivity|]. split; [reflexivity|]. repeat constructor; discriminate.
Qed.

(* the time a reconcile starts IS the latest schedule point (clause 3 lifted
   from nextScheduleTime to the reconcile) *)
Theorem cron_reconcile_starts_latest : forall (next : Z -> Z) (lenient : bool) (hi : Z),
  (forall t, t <= hi -> t < next t) ->
  (forall t s, t <= hi -> sched next hi s -> t < s -> next t <= s) ->
  (forall t, t <= hi -> exists k, next t = k * sec) ->
  forall fuel s now fc s' o t,
  reconcile next lenient fuel s now fc = (s', o) -> state_ok s -> bounded hi s -> now <= hi ->
  starts o t ->
  sched next hi t /\ (forall p, sched next hi p -> t < p -> now < p) /\
  earliest_time (c_created (s_spec s)) (st_last (s_status s)) (c_deadline (s_spec s)) now true < t /\ t <= now.
Proof.
  intros next lenient hi G L S fuel s now fc s' o t. unfold reconcile.
  destruct (cleanup (s_spec s) (s_status s) (s_jobs s)) as [[[st1 jobs1] hd] upd1] eqn:EC.
  destruct (decide next lenient fuel (s_spec s) st1 jobs1 (s_next_uid s) now fc upd1 hd)
    as [[[st2 jobs2] uid2] o2] eqn:ED.
  intros E Hok (Bc & Bl & Bd) Hnow Hs; inversion E; subst; clear E.
  apply cleanup_spec in EC. destruct EC as (C1 & C2 & C3 & C4).
  assert (Hok1 : uid_ok (s_next_uid s) (st_active st1) jobs1) by (eapply uid_ok_incl; eauto).
  apply decide_spec in ED; auto. destruct ED as (_ & _ & _ & _ & Dc).
  destruct Dc as [[Hc _]|(t' & Hs' & Ht & _)].
  - unfold starts in Hs. rewrite Hc in Hs. discriminate.
  - unfold starts in Hs, Hs'. rewrite Hs in Hs'. inversion Hs'; subst t'. rewrite C1 in Ht.
    apply (cron_choice_sound next hi G L S) in Ht; auto.
    + cbv zeta in Ht. tauto.
    + apply (earliest_le_hi hi); auto.
Qed.

(* non-vacuity of the instantiated theorems *)
Definition ex_tbl : list Z := [100 * sec; 200 * sec; 300 * sec; 400 * sec].

Example table_nonvacuous :
  tbl_ok ex_tbl /\ (exists p, In p ex_tbl /\ 250 * sec < p) /\
  bounded (250 * sec) ex_state /\ inv_live ex_state /\
  Forall (op_ok (250 * sec)) [OpReconcile (100 * sec) false; OpReconcile (200 * sec + 5) false] /\
  let '(_, outs) := run (next_tbl ex_tbl) false (S (S (S (length ex_tbl)))) ex_state
                        [OpReconcile (100 * sec) false; OpReconcile (200 * sec + 5) false] in
  created_times outs = [100 * sec].
Proof.
  split; [split; [reflexivity|repeat constructor; eexists; reflexivity]|].
  split; [exists (300 * sec); split; [cbn; tauto|reflexivity]|].
  split; [split; [discriminate|split; intros ? H; discriminate H]|].
  split.
  { split; [split; repeat constructor|]. split.
    - intros a b [<-|[<-|[]]] [<-|[<-|[]]] H; try reflexivity; discriminate H.
    - intros j [<-|[<-|[]]] [_ H]; discriminate H. }
  split; [repeat constructor; discriminate|].
  vm_compute. reflexivity.
Qed.

(* a constant-period schedule meeting the hypotheses of the completeness theorem on a window *)
Example regular_nonvacuous :
  (forall t s, t <= 250 * sec -> sched (next_tbl ex_tbl) (250 * sec) s -> t < s -> next_tbl ex_tbl t <= s) /\
  (forall s, s <= 250 * sec -> sched (next_tbl ex_tbl) (250 * sec) s -> next_tbl ex_tbl s = s + 100 * sec) /\
  exists t, next_schedule_time (next_tbl ex_tbl) 2 0 None None (250 * sec) = NsOk (Some t).
Proof.
  assert (Hok : tbl_ok ex_tbl) by (split; [reflexivity|repeat constructor; eexists; reflexivity]).
  assert (Hex : exists p, In p ex_tbl /\ 250 * sec < p) by (exists (300 * sec); split; [cbn; tauto|reflexivity]).
  destruct (next_tbl_window ex_tbl (250 * sec) Hok Hex) as (_ & L & _).
  split; [exact L|]. split.
  - intros s Hs (u & Hu & <-). unfold ex_tbl in *. cbn [next_tbl] in *.
    repeat match goal with |- context [?a <? ?b] => destruct (Z.ltb_spec a b) end;
      repeat match goal with H : context [?a <? ?b] |- _ => destruct (Z.ltb_spec a b) end;
      unfold sec, zero_time in *; lia.
  - eexists. vm_compute. reflexivity.
Qed.
