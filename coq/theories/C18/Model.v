(* C18 — executable model of the time-driven controllers.

   Time is [Z] NANOSECONDS since the Unix epoch (Go: time.Time.UnixNano, not
   truncated to int64); durations are nanoseconds; TTLs, starting deadlines and
   [time.Duration.Seconds] results are whole seconds.  [sec] = 10^9.

   GC   : pkg/controllers/garbagecollector/garbagecollector.go 189-309
   cron : pkg/controllers/cronjob/cronjob_controller_util.go 84-206 (schedule
          choice), 208-235, 289-320; cronjob_controller.go 219-308
          (syncCronJob) with the persistence rule of sync (203-216);
          cronjob_controller_handler.go 183-440.
   [cron.Schedule.Next] is the Section variable [next]; nothing is assumed about
   it in this file (definitions only, no proofs). *)
From Coq Require Import ZArith List Bool.
Import ListNotations.
Open Scope Z_scope.

Definition sec : Z := 1000000000.
Definition ms100 : Z := 100000000.

(* Job phases: only the three finished ones matter *)
Inductive phase := PhOther | PhCompleted | PhFailed | PhTerminated.

Definition finished (p : phase) : bool :=
  match p with PhOther => false | _ => true end.

(* ------------------------------------------------------------------ *)
(* Garbage collector                                                   *)
(* ------------------------------------------------------------------ *)

Record gjob := mkGjob {
  g_uid : Z;
  g_phase : phase;
  g_ttl : option Z;        (* spec.ttlSecondsAfterFinished (int32, seconds) *)
  g_deleting : bool;       (* metadata.deletionTimestamp != nil *)
  g_finish : option Z;     (* status.state.lastTransitionTime; None = zero time *)
  g_created : option Z;    (* metadata.creationTimestamp; carried so that the theorems can say the
                              code does NOT read it: the finish time is the recorded one or nothing *)
}.

(* needsCleanup, 267-269 *)
Definition needs_cleanup (j : gjob) : bool :=
  match g_ttl j with Some _ => finished (g_phase j) | None => false end.

(* timeLeft, 290-301 with getFinishAndExpireTime 277-288 and jobFinishTime
   304-309; None = one of the two errors *)
Definition time_left (j : gjob) (since : Z) : option Z :=
  if needs_cleanup j then
    match g_ttl j, g_finish j with
    | Some ttl, Some f => Some (f + ttl * sec - since)
    | _, _ => None
    end
  else None.

Inductive ttl_res := TtlIgnore | TtlErr | TtlExpired | TtlRequeue (d : Z).

(* processTTL, 245-264, reading the clock as [now] *)
Definition process_ttl (j : gjob) (now : Z) : ttl_res :=
  if g_deleting j || negb (needs_cleanup j) then TtlIgnore
  else match time_left j now with
       | None => TtlErr
       | Some d => if d <=? 0 then TtlExpired else TtlRequeue d
       end.

Record gc_out := mkGcOut {
  go_requeues : list Z;        (* enqueueAfter durations, in order *)
  go_delete : option Z;        (* Delete issued, with this UID precondition *)
  go_err : bool;
}.

Definition gc_nothing := mkGcOut [] None false.

(* processJob, 189-241: [lj] is what the lister returns (None = NotFound),
   [fresh] what the API server returns; the clock is read once per processTTL *)
Definition process_job (lj fresh : option gjob) (now1 now2 : Z) : gc_out :=
  match lj with
  | None => gc_nothing
  | Some j =>
    match process_ttl j now1 with
    | TtlErr => mkGcOut [] None true
    | TtlIgnore => gc_nothing
    | TtlRequeue d => mkGcOut [d] None false
    | TtlExpired =>
      match fresh with
      | None => gc_nothing
      | Some f =>
        match process_ttl f now2 with
        | TtlErr => mkGcOut [] None true
        | TtlIgnore => gc_nothing
        | TtlRequeue d => mkGcOut [d] None false
        | TtlExpired => mkGcOut [] (Some (g_uid f)) false
        end
      end
    end
  end.

(* addJob / updateJob, 117-133: enqueue immediately? *)
Definition gc_enqueues (j : gjob) : bool := negb (g_deleting j) && needs_cleanup j.

(* ------------------------------------------------------------------ *)
(* Cron: records                                                       *)
(* ------------------------------------------------------------------ *)

Record jref := mkRef { r_name : Z; r_uid : Z }.

Inductive owner := OwnNone | OwnThis | OwnOther.

Record job := mkJob {
  j_name : Z;               (* "<cronjob>-<j_name>" *)
  j_uid : Z;
  j_owner : owner;          (* controller reference *)
  j_phase : phase;
  j_created : option Z;     (* creationTimestamp; None = zero *)
  j_finish : option Z;      (* status.state.lastTransitionTime; None = zero *)
}.

Inductive policy := Allow | Forbid | Replace.

Record cspec := mkSpec {
  c_created : Z;
  c_suspend : bool;
  c_policy : policy;
  c_deadline : option Z;      (* startingDeadlineSeconds *)
  c_succ_limit : option Z;
  c_fail_limit : option Z;
  c_tz_ok : bool;             (* spec.timeZone is nil or loads (validateTZandSchedule 321-333) *)
}.

Record cstatus := mkStatus {
  st_last : option Z;                    (* lastScheduleTime *)
  st_active : list jref;
  st_last_success : option (option Z);   (* nil | pointer to (zero | time) *)
}.

Definition set_active (st : cstatus) (a : list jref) : cstatus :=
  mkStatus (st_last st) a (st_last_success st).

(* inActiveList 210-221 / inActiveListByName 225-235 *)
Definition in_active (a : list jref) (uid : Z) : bool := existsb (fun r => r_uid r =? uid) a.
Definition in_active_by_name (a : list jref) (name : Z) : bool := existsb (fun r => r_name r =? name) a.

(* A Go slice over a backing array: [deleteFromActiveList] (302-320) compacts
   in place and re-slices with a capped capacity, so a [range] loop that started
   on the old slice header keeps reading the (partly overwritten) backing array. *)
Record aslice := mkSlice { bk : list jref; alen : nat }.
Definition as_of (a : list jref) : aslice := mkSlice a (length a).
Definition as_cur (s : aslice) : list jref := firstn (alen s) (bk s).
Definition as_del (s : aslice) (uid : Z) : aslice :=
  let kept := filter (fun r => negb (r_uid r =? uid)) (as_cur s) in
  if (length kept <? alen s)%nat
  then mkSlice (kept ++ skipn (length kept) (bk s)) (length kept)
  else s.

Definition del_active (a : list jref) (uid : Z) : list jref :=
  filter (fun r => negb (r_uid r =? uid)) a.

(* the fake API server / lister view of jobs: association by name *)
Fixpoint find_job (jobs : list job) (name : Z) : option job :=
  match jobs with
  | [] => None
  | j :: r => if j_name j =? name then Some j else find_job r name
  end.
Definition remove_job (jobs : list job) (name : Z) : list job :=
  filter (fun j => negb (j_name j =? name)) jobs.
Fixpoint insert_job (j : job) (jobs : list job) : list job :=
  match jobs with
  | [] => [j]
  | k :: r => if j_name j <=? j_name k then j :: jobs else k :: insert_job j r
  end.

(* byJobCreationTimestamp.Less, 289-300 *)
Definition job_less (a b : job) : bool :=
  match j_created a, j_created b with
  | None, Some _ => false
  | Some _, None => true
  | None, None => j_name a <? j_name b
  | Some x, Some y => if x =? y then j_name a <? j_name b else x <? y
  end.
Fixpoint ins_sorted (j : job) (l : list job) : list job :=
  match l with
  | [] => [j]
  | k :: r => if job_less k j then k :: ins_sorted j r else j :: l
  end.
Definition sort_jobs (l : list job) : list job := fold_right ins_sorted [] l.

(* ------------------------------------------------------------------ *)
(* Cron: schedule choice, parametric in cron.Schedule.Next             *)
(* ------------------------------------------------------------------ *)

Inductive missed := MNone | MFew | MMany.
Inductive mr_res :=
| MrErr                                   (* "time difference between two schedules is less than 1 second" *)
| MrFuel                                  (* model artefact: loop fuel exhausted *)
| MrOk (t : option Z) (m : missed).
Inductive ns_res := NsErr | NsFuel | NsOk (t : option Z).

(* int64(d.Round(time.Second).Seconds()): half away from zero *)
Definition round_sec_s (d : Z) : Z :=
  if 0 <=? d then (d + sec / 2) / sec else - ((- d + sec / 2) / sec).

Definition min_dur : Z := - 2 ^ 63.
Definition max_dur : Z := 2 ^ 63 - 1.
(* time.Time.Sub saturates *)
Definition sat_dur (d : Z) : Z :=
  if d <? min_dur then min_dur else if max_dur <? d then max_dur else d.

Definition earliest_time (created : Z) (last deadline : option Z) (now : Z) (incl : bool) : Z :=
  let e0 := match last with Some l => l | None => created end in
  if incl then
    match deadline with
    | Some d => let sd := now - d * sec in if e0 <? sd then sd else e0
    | None => e0
    end
  else e0.

Section WithNext.
Variable next : Z -> Z.

(* the catch-up loop, util 131-133; [None] = fuel exhausted *)
Fixpoint mr_loop (fuel : nat) (now t : Z) (most : option Z) : option (option Z) :=
  if now <? t then Some most
  else match fuel with
       | O => None
       | S k => mr_loop k now (next t) (Some t)
       end.

(* mostRecentScheduleTime, util 84-164 *)
Definition most_recent (fuel : nat) (created : Z) (last deadline : option Z) (now : Z) (incl : bool)
  : Z * mr_res :=
  let e := earliest_time created last deadline now incl in
  let t1 := next e in
  let t2 := next t1 in
  if now <? t1 then (e, MrOk None MNone)
  else if now <? t2 then (e, MrOk (Some t1) MNone)
  else
    let tb := round_sec_s (t2 - t1) in
    if tb <? 1 then (e, MrErr)
    else
      let elapsed := (now - t1) / sec in
      let n := elapsed / tb + 1 in
      let pe := t1 + (n - 2) * tb * sec in
      match mr_loop fuel now (next pe) None with
      | None => (e, MrFuel)
      | Some most => (e, MrOk most (if 100 <? n then MMany else if 0 <? n then MFew else MNone))
      end.

(* nextScheduleTime, util 193-206 *)
Definition next_schedule_time (fuel : nat) (created : Z) (last deadline : option Z) (now : Z) : ns_res :=
  match snd (most_recent fuel created last deadline now true) with
  | MrErr => NsErr
  | MrFuel => NsFuel
  | MrOk None _ => NsOk None
  | MrOk (Some t) _ => if now <? t then NsOk None else NsOk (Some t)
  end.

(* nextScheduleTimeDuration, util 171-188; None = fuel exhausted *)
Definition requeue_after (fuel : nat) (created : Z) (last deadline : option Z) (now : Z) : option Z :=
  let '(e, r) := most_recent fuel created last deadline now false in
  match r with
  | MrFuel => None
  | MrErr => Some (sat_dur (next now + ms100 - now))
  | MrOk (Some t) _ => Some (sat_dur (next t + ms100 - now))
  | MrOk None MNone => Some (sat_dur (next e + ms100 - now))
  | MrOk None _ => Some (sat_dur (next now + ms100 - now))
  end.

(* ------------------------------------------------------------------ *)
(* Cron: one reconcile                                                 *)
(* ------------------------------------------------------------------ *)

Record cstate := mkState {
  s_spec : cspec;
  s_status : cstatus;        (* what the API server / lister holds *)
  s_jobs : list job;         (* API server = lister view, sorted by name *)
  s_next_uid : Z;            (* UIDs handed out by the (fake) API server *)
}.

(* error classes of syncCronJob *)
Definition E_OK : Z := 0.
Definition E_SCHED : Z := 1.     (* nextScheduleTime error *)
Definition E_REPLACE : Z := 2.   (* Replace: Get of an active job failed *)
Definition E_CREATE : Z := 3.    (* Create failed (injected) *)
Definition E_TZ : Z := 5.        (* validateTZandSchedule: spec.timeZone does not load *)
Definition E_CONFLICT : Z := 4.  (* AlreadyExists, and the conflicting job could not be fetched *)
Definition E_FUEL : Z := 9.      (* model artefact *)

(* createJob fetches the conflicting job with jobTemplate.Namespace, which
   getJobFromTemplate never sets.  With an empty namespace the generated client
   (client-go gentype: NamespaceIfScoped(ns, ns != "")) sends a cluster-scoped
   GET .../jobs/<name>, which an API server answers 404 for a namespaced
   resource (older clients refuse the request before sending it): against a
   real API server the adoption branch (395-421) therefore always ends in an
   error ("disappeared after creation conflict").  [lenient] = the job client
   ignores the namespace, as the fake of the package's own tests does. *)
Variable lenient : bool.

Record rout := mkOut {
  o_requeue : option Z;
  o_upd : bool;
  o_err : Z;
  o_creates : list (Z * Z);     (* successful Create calls: (job name, schedule time) *)
  o_hist_deletes : list Z;      (* Delete calls of removeOldestJobs (names) *)
  o_repl_deletes : list Z;      (* Delete calls of the Replace policy (names) *)
  o_status : cstatus;           (* the in-memory cronJob.Status when syncCronJob returns *)
}.

(* processFinishedJobs 183-235, loop body *)
Definition after_ls (f : Z) (cur : option Z) : bool :=
  match cur with None => true | Some c => c <? f end.

Definition pf_step (acc : cstatus * bool * list job * list job) (j : job)
  : cstatus * bool * list job * list job :=
  let '(st, upd, succ, failed) := acc in
  if finished (j_phase j) then
    let '(st1, upd1) :=
      if in_active (st_active st) (j_uid j)
      then (set_active st (del_active (st_active st) (j_uid j)), true) else (st, upd) in
    match j_phase j with
    | PhCompleted =>
      let ft := j_finish j in
      let '(st2, upd2) :=
        match st_last_success st1 with
        | None => (mkStatus (st_last st1) (st_active st1) (Some ft), true)
        | Some _ => (st1, upd1)
        end in
      let '(st3, upd3) :=
        match ft, st_last_success st2 with
        | Some f, Some cur =>
          if after_ls f cur then (mkStatus (st_last st2) (st_active st2) (Some (Some f)), true)
          else (st2, upd2)
        | _, _ => (st2, upd2)
        end in
      (st3, upd3, succ ++ [j], failed)
    | PhFailed => (st1, upd1, succ, failed ++ [j])
    | _ => (st1, upd1, succ, failed)
    end
  else acc.

(* removeOldestJobs 300-315 + deleteJobByClient 319-345 against the server *)
Fixpoint delete_each (victims : list job) (st : cstatus) (jobs : list job) (dels : list Z) (upd : bool)
  : cstatus * list job * list Z * bool :=
  match victims with
  | [] => (st, jobs, dels, upd)
  | v :: r =>
    match find_job jobs (j_name v) with
    | None => delete_each r st jobs (dels ++ [j_name v]) upd   (* Delete answered NotFound *)
    | Some _ =>
      delete_each r (set_active st (del_active (st_active st) (j_uid v)))
                  (remove_job jobs (j_name v)) (dels ++ [j_name v]) true
    end
  end.

Definition remove_oldest (js : list job) (limit : option Z) (st : cstatus) (jobs : list job)
           (dels : list Z) (upd : bool) : cstatus * list job * list Z * bool :=
  match limit with
  | None => (st, jobs, dels, upd)
  | Some mx =>
    let n := Z.of_nat (length js) - mx in
    if n <=? 0 then (st, jobs, dels, upd)
    else delete_each (firstn (Z.to_nat n) (sort_jobs js)) st jobs dels upd
  end.

Definition process_finished (spec : cspec) (st : cstatus) (mine : list job) (jobs : list job)
  : cstatus * list job * list Z * bool :=
  let '(st1, upd1, succ, failed) := fold_left pf_step mine (st, false, [], []) in
  match c_fail_limit spec, c_succ_limit spec with
  | None, None => (st1, jobs, [], upd1)
  | _, _ =>
    let '(st2, jobs2, dels2, upd2) := remove_oldest succ (c_succ_limit spec) st1 jobs [] upd1 in
    remove_oldest failed (c_fail_limit spec) st2 jobs2 dels2 upd2
  end.

(* processCtlJobAndActiveJob 239-293, second loop (the first loop only emits
   events when the CronJob handed in is the API server's copy) *)
Definition stale_step (lister : list job) (ctrl : list Z) (acc : aslice * bool) (i : nat) : aslice * bool :=
  let '(s, upd) := acc in
  match nth_error (bk s) i with
  | None => acc
  | Some r =>
    if existsb (Z.eqb (r_uid r)) ctrl then acc
    else match find_job lister (r_name r) with
         | None => (as_del s (r_uid r), true)
         | Some j => if j_uid j =? r_uid r then acc else (as_del s (r_uid r), true)
         end
  end.

Definition clean_stale (lister mine : list job) (a : list jref) : list jref * bool :=
  let '(s, upd) := fold_left (stale_step lister (map j_uid mine)) (seq 0 (length a)) (as_of a, false) in
  (as_cur s, upd).

(* processConcurrencyPolicy 348-380, Replace branch; error = Get failed *)
Fixpoint replace_loop (idx : list nat) (s : aslice) (jobs : list job) (dels : list Z) (upd : bool)
  : aslice * list job * list Z * bool * bool (* ok *) :=
  match idx with
  | [] => (s, jobs, dels, upd, true)
  | i :: rest =>
    match nth_error (bk s) i with
    | None => (s, jobs, dels, upd, true)
    | Some r =>
      match find_job jobs (r_name r) with
      | None => (s, jobs, dels, upd, false)
      | Some j => replace_loop rest (as_del s (j_uid j)) (remove_job jobs (r_name r)) (dels ++ [r_name r]) true
      end
    end
  end.

(* Unix()/60 of a schedule time *)
Definition job_name_of (t : Z) : Z := Z.quot (t / sec) 60.

(* every "t := nextScheduleTimeDuration(...); return t, updateStatus, nil" exit *)
Definition fin (fuel : nat) (spec : cspec) (now : Z) (hd : list Z)
           (st' : cstatus) (jobs' : list job) (uid' : Z) (upd : bool) (cr : list (Z * Z)) (rd : list Z)
  : cstatus * list job * Z * rout :=
  match requeue_after fuel (c_created spec) (st_last st') (c_deadline spec) now with
  | None => (st', jobs', uid', mkOut None upd E_FUEL cr hd rd st')
  | Some d => (st', jobs', uid', mkOut (Some d) upd E_OK cr hd rd st')
  end.

(* processConcurrencyPolicy 348-380: (requeue instead of creating, status,
   server jobs, Replace deletes, update flag, ok) *)
Definition apply_policy (spec : cspec) (st : cstatus) (jobs : list job) (upd0 : bool)
  : bool * cstatus * list job * list Z * bool * bool :=
  match c_policy spec with
  | Allow => (false, st, jobs, [], upd0, true)
  | Forbid =>
    match st_active st with
    | [] => (false, st, jobs, [], upd0, true)
    | _ => (true, st, jobs, [], upd0, true)
    end
  | Replace =>
    let '(s, jobs', dels, updr, ok) :=
      replace_loop (seq 0 (length (st_active st))) (as_of (st_active st)) jobs [] false in
    (false, set_active st (as_cur s), jobs', dels, upd0 || updr, ok)
  end.

(* createJob 381-440 and the bookkeeping of syncCronJob 286-307 *)
Definition create_job (fuel : nat) (spec : cspec) (now : Z) (hd : list Z) (fail_create : bool)
           (t : Z) (st1 : cstatus) (jobs1 : list job) (uid : Z) (upd1 : bool) (rd : list Z)
  : cstatus * list job * Z * rout :=
  let nm := job_name_of t in
  if fail_create then (st1, jobs1, uid, mkOut None upd1 E_CREATE [] hd rd st1)
  else
    match find_job jobs1 nm with
    | Some ex =>
      (* AlreadyExists *)
      if negb lenient then (st1, jobs1, uid, mkOut None upd1 E_CONFLICT [] hd rd st1) else
      match j_owner ex with
      | OwnThis =>
        if finished (j_phase ex) then fin fuel spec now hd st1 jobs1 uid upd1 [] rd
        else if in_active (st_active st1) (j_uid ex) then fin fuel spec now hd st1 jobs1 uid upd1 [] rd
        else
          let st2 := mkStatus (Some t) (st_active st1 ++ [mkRef nm (j_uid ex)]) (st_last_success st1) in
          fin fuel spec now hd st2 jobs1 uid true [] rd
      | _ => fin fuel spec now hd st1 jobs1 uid upd1 [] rd
      end
    | None =>
      let j := mkJob nm uid OwnThis PhOther (Some now) None in
      let jobs2 := insert_job j jobs1 in
      if in_active (st_active st1) uid then fin fuel spec now hd st1 jobs2 (uid + 1) upd1 [(nm, t)] rd
      else
        let st2 := mkStatus (Some t) (st_active st1 ++ [mkRef nm uid]) (st_last_success st1) in
        fin fuel spec now hd st2 jobs2 (uid + 1) true [(nm, t)] rd
    end.

(* the part of syncCronJob after the clean-up (235-307): [st] is the status
   after processFinishedJobs / processCtlJobAndActiveJob, [jobs] the server *)
Definition decide (fuel : nat) (spec : cspec) (st : cstatus) (jobs : list job) (uid : Z)
           (now : Z) (fail_create : bool) (upd0 : bool) (hd : list Z)
  : cstatus * list job * Z * rout :=
  if c_suspend spec then (st, jobs, uid, mkOut None upd0 E_OK [] hd [] st)
  else if negb (c_tz_ok spec) then (st, jobs, uid, mkOut None upd0 E_TZ [] hd [] st)
  else
    match next_schedule_time fuel (c_created spec) (st_last st) (c_deadline spec) now with
    | NsErr => (st, jobs, uid, mkOut None upd0 E_SCHED [] hd [] st)
    | NsFuel => (st, jobs, uid, mkOut None upd0 E_FUEL [] hd [] st)
    | NsOk None => fin fuel spec now hd st jobs uid upd0 [] []
    | NsOk (Some t) =>
      if in_active_by_name (st_active st) (job_name_of t) ||
         match st_last st with Some l => l =? t | None => false end
      then fin fuel spec now hd st jobs uid upd0 [] []
      else
        let '(skip, st1, jobs1, rd, upd1, ok) := apply_policy spec st jobs upd0 in
        if negb ok then (st1, jobs1, uid, mkOut None upd1 E_REPLACE [] hd rd st1)
        else if skip then fin fuel spec now hd st1 jobs1 uid upd1 [] rd
        else create_job fuel spec now hd fail_create t st1 jobs1 uid upd1 rd
    end.

Definition mine_of (jobs : list job) : list job :=
  filter (fun j => match j_owner j with OwnThis => true | _ => false end) jobs.

(* clean-up half of syncCronJob (224-233): returns the status, the server's
   jobs, the history deletes and the update flag *)
Definition cleanup (spec : cspec) (st : cstatus) (jobs : list job) : cstatus * list job * list Z * bool :=
  let mine := mine_of jobs in
  let '(st1, jobs1, hd, upd1) := process_finished spec st mine jobs in
  (* the lister is the informer's view: it still shows the jobs just deleted *)
  let '(a2, upd2) := clean_stale jobs mine (st_active st1) in
  (set_active st1 a2, jobs1, hd, upd1 || upd2).

(* one reconcile = sync (172-217) with lister == API server at its start:
   the mutated status is written back only when syncCronJob reports no error
   and asks for it *)
Definition reconcile (fuel : nat) (s : cstate) (now : Z) (fail_create : bool) : cstate * rout :=
  let '(st1, jobs1, hd, upd1) := cleanup (s_spec s) (s_status s) (s_jobs s) in
  let '(st2, jobs2, uid2, o) := decide fuel (s_spec s) st1 jobs1 (s_next_uid s) now fail_create upd1 hd in
  let persisted := if (o_err o =? E_OK) && o_upd o then st2 else s_status s in
  (mkState (s_spec s) persisted jobs2 uid2, o).

(* ------------------------------------------------------------------ *)
(* Histories                                                           *)
(* ------------------------------------------------------------------ *)

Inductive op :=
| OpReconcile (now : Z) (fail_create : bool)
| OpFinish (name : Z) (p : phase) (at_ : option Z)     (* the job controller moves a job to a phase *)
| OpDelete (name : Z)                                   (* someone deletes a job *)
| OpAdd (name : Z) (o : owner) (p : phase) (created finish : option Z)  (* someone creates a job *)
| OpSuspend (b : bool)
| OpPolicy (p : policy)
| OpDeadline (d : option Z)                             (* spec.startingDeadlineSeconds is edited *)
| OpLimits (sl fl : option Z).                          (* the history limits are edited *)

Definition set_spec (s : cstate) (sp : cspec) : cstate :=
  mkState sp (s_status s) (s_jobs s) (s_next_uid s).

Definition step (fuel : nat) (s : cstate) (o : op) : cstate * option rout :=
  match o with
  | OpReconcile now fc => let '(s', r) := reconcile fuel s now fc in (s', Some r)
  | OpFinish name p at_ =>
    (mkState (s_spec s) (s_status s)
       (map (fun j => if j_name j =? name
                      then mkJob (j_name j) (j_uid j) (j_owner j) p (j_created j) at_ else j) (s_jobs s))
       (s_next_uid s), None)
  | OpDelete name => (mkState (s_spec s) (s_status s) (remove_job (s_jobs s) name) (s_next_uid s), None)
  | OpAdd name ow p cr fi =>
    match find_job (s_jobs s) name with
    | Some _ => (s, None)
    | None => (mkState (s_spec s) (s_status s)
                 (insert_job (mkJob name (s_next_uid s) ow p cr fi) (s_jobs s)) (s_next_uid s + 1), None)
    end
  | OpSuspend b =>
    let sp := s_spec s in
    (set_spec s (mkSpec (c_created sp) b (c_policy sp) (c_deadline sp) (c_succ_limit sp) (c_fail_limit sp) (c_tz_ok sp)), None)
  | OpPolicy p =>
    let sp := s_spec s in
    (set_spec s (mkSpec (c_created sp) (c_suspend sp) p (c_deadline sp) (c_succ_limit sp) (c_fail_limit sp) (c_tz_ok sp)), None)
  | OpDeadline d =>
    let sp := s_spec s in
    (set_spec s (mkSpec (c_created sp) (c_suspend sp) (c_policy sp) d (c_succ_limit sp) (c_fail_limit sp) (c_tz_ok sp)), None)
  | OpLimits sl fl =>
    let sp := s_spec s in
    (set_spec s (mkSpec (c_created sp) (c_suspend sp) (c_policy sp) (c_deadline sp) sl fl (c_tz_ok sp)), None)
  end.

(* run a history, collecting the outputs of the reconciles in order *)
Fixpoint run (fuel : nat) (s : cstate) (ops : list op) : cstate * list rout :=
  match ops with
  | [] => (s, [])
  | o :: r =>
    let '(s1, out) := step fuel s o in
    let '(s2, outs) := run fuel s1 r in
    (s2, match out with Some x => x :: outs | None => outs end)
  end.

Definition created_times (outs : list rout) : list Z :=
  flat_map (fun o => map snd (o_creates o)) outs.

(* ------------------------------------------------------------------ *)
(* Histories with stale reads and lost status writes                    *)
(* ------------------------------------------------------------------ *)

(* sync (172-217) reads the CronJob from the informer cache (179) and swallows a
   failed UpdateStatus (211-213: it returns nil, syncErr with syncErr == nil):
   a reconcile may start from ANY older status [st_in], and its write-back may
   be lost.  The JOBS the clean-up sees also come from an informer: the list of
   jobs of this CronJob (getJobsByCronJob, handler 164) and the look-up of an
   active reference (handler 266) read cc.jobLister - not the API server, where
   upstream Kubernetes does a live GET - so they may lag behind as well
   ([cleanup3] / [Lagged] below; [cleanup2] is the case lister = API server).
   Only Create, the Replace look-up and the deletes go through the job client
   and see the server as it is. *)
(* processCtlJobAndActiveJob, first loop (243-260), which matters once the
   status handed in can be older than the API server's: for an unfinished job
   of this CronJob that the status does not reference the controller re-reads
   the CronJob from the API server, and if THAT copy references it, it rebinds
   its local variable (`cronJob = cjCopy`): the second loop then runs over - and
   edits - the discarded copy, so the caller's status.active is left as it is and
   only the update flag survives *)
Definition switched (mine : list job) (a srv : list jref) : bool :=
  existsb (fun j => negb (finished (j_phase j)) && negb (in_active a (j_uid j)) && in_active srv (j_uid j)) mine.

Definition cleanup2 (spec : cspec) (st : cstatus) (srv : list jref) (jobs : list job)
  : cstatus * list job * list Z * bool :=
  let mine := mine_of jobs in
  let '(st1, jobs1, hd, upd1) := process_finished spec st mine jobs in
  if switched mine (st_active st1) srv
  then let '(_, upd2) := clean_stale jobs mine srv in (st1, jobs1, hd, upd1 || upd2)
  else let '(a2, upd2) := clean_stale jobs mine (st_active st1) in (set_active st1 a2, jobs1, hd, upd1 || upd2).

Definition reconcile_from (fuel : nat) (s : cstate) (st_in : cstatus) (persist_ok : bool)
           (now : Z) (fail_create : bool) : cstate * rout :=
  let '(st1, jobs1, hd, upd1) := cleanup2 (s_spec s) st_in (st_active (s_status s)) (s_jobs s) in
  let '(st2, jobs2, uid2, o) := decide fuel (s_spec s) st1 jobs1 (s_next_uid s) now fail_create upd1 hd in
  let persisted := if (o_err o =? E_OK) && o_upd o && persist_ok then st2 else s_status s in
  (mkState (s_spec s) persisted jobs2 uid2, o).

(* the clean-up with a job lister that may differ from the API server's jobs:
   the jobs of this CronJob, their phases and the look-up of active references
   are the LISTER's (an older snapshot: a job just created is missing, a job
   already deleted or finished still shows as it was); deletes hit the server *)
Definition cleanup3 (spec : cspec) (st : cstatus) (srv : list jref) (lister jobs : list job)
  : cstatus * list job * list Z * bool :=
  let mine := mine_of lister in
  let '(st1, jobs1, hd, upd1) := process_finished spec st mine jobs in
  if switched mine (st_active st1) srv
  then let '(_, upd2) := clean_stale lister mine srv in (st1, jobs1, hd, upd1 || upd2)
  else let '(a2, upd2) := clean_stale lister mine (st_active st1) in (set_active st1 a2, jobs1, hd, upd1 || upd2).

Definition reconcile_lag (fuel : nat) (s : cstate) (st_in : cstatus) (lister : list job) (persist_ok : bool)
           (now : Z) (fail_create : bool) : cstate * rout :=
  let '(st1, jobs1, hd, upd1) := cleanup3 (s_spec s) st_in (st_active (s_status s)) lister (s_jobs s) in
  let '(st2, jobs2, uid2, o) := decide fuel (s_spec s) st1 jobs1 (s_next_uid s) now fail_create upd1 hd in
  let persisted := if (o_err o =? E_OK) && o_upd o && persist_ok then st2 else s_status s in
  (mkState (s_spec s) persisted jobs2 uid2, o).

Inductive op2 :=
| Fresh (o : op)
| Lagged (st_in : option cstatus) (lister : list job) (persist_ok : bool) (now : Z) (fail_create : bool)
    (* the job lister shows [lister]; the status is the current one (None) or an older one *)
| Stale (st_in : cstatus) (persist_ok : bool) (now : Z) (fail_create : bool)
| LostWrite (now : Z) (fail_create : bool).   (* reads the current status, its write-back is lost *)

Definition step2 (fuel : nat) (s : cstate) (o : op2) : cstate * option rout :=
  match o with
  | Fresh o => step fuel s o
  | Stale st_in ok now fc => let '(s', r) := reconcile_from fuel s st_in ok now fc in (s', Some r)
  | LostWrite now fc => let '(s', r) := reconcile_from fuel s (s_status s) false now fc in (s', Some r)
  | Lagged st_in lister ok now fc =>
    let '(s', r) := reconcile_lag fuel s (match st_in with Some st => st | None => s_status s end) lister ok now fc in
    (s', Some r)
  end.

Fixpoint run2 (fuel : nat) (s : cstate) (ops : list op2) : cstate * list rout :=
  match ops with
  | [] => (s, [])
  | o :: r =>
    let '(s1, out) := step2 fuel s o in
    let '(s2, outs) := run2 fuel s1 r in
    (s2, match out with Some x => x :: outs | None => outs end)
  end.

End WithNext.

(* ------------------------------------------------------------------ *)
(* formatSchedule (util 61-76) / validateTZandSchedule (util 321-333):   *)
(* which time zone the schedule handed to the cron parser is evaluated in *)
(* ------------------------------------------------------------------ *)

Inductive tzspec :=
| TzNil                    (* spec.timeZone == nil *)
| TzLoads (z : Z)          (* names a zone time.LoadLocation knows (zone id) *)
| TzInvalid.               (* does not load *)

(* the three grammars cron.ParseStandard accepts after an optional TZ= prefix *)
Inductive skind := KFive | KEvery | KDescriptor.

Record sstr := mkSstr {
  ss_kind : skind;
  ss_embedded : option Z;  (* the string itself starts with TZ=<zone> / CRON_TZ=<zone> *)
}.

Inductive fmt_res := FmtAsIs | FmtPrefixed (z : Z).   (* "TZ=<z> <schedule>" *)

Definition format_schedule (tz : tzspec) (s : sstr) : fmt_res :=
  match ss_embedded s with
  | Some _ => FmtAsIs                       (* strings.Contains(schedule, "TZ") *)
  | None => match tz with TzLoads z => FmtPrefixed z | _ => FmtAsIs end
  end.

Inductive zone := ZLocal | ZNamed (z : Z).

(* the Location of the parsed schedule: the TZ= prefix of the formatted string
   if there is one, else time.Local (= the zone of the time argument) *)
Definition zone_used (tz : tzspec) (s : sstr) : zone :=
  match format_schedule tz s with
  | FmtPrefixed z => ZNamed z
  | FmtAsIs => match ss_embedded s with Some z => ZNamed z | None => ZLocal end
  end.

(* validateTZandSchedule refuses a zone that does not load, before parsing *)
Definition validate_tz (tz : tzspec) : bool :=
  match tz with TzInvalid => false | _ => true end.

(* ------------------------------------------------------------------ *)
(* A schedule given by the table of its points                          *)
(* ------------------------------------------------------------------ *)

(* time.Time{} (year 1) in Unix nanoseconds: what robfig/cron answers when no
   time matches within five years *)
Definition zero_time : Z := -62135596800 * sec.

(* cron.ConstantDelaySchedule ("@every d", d whole seconds): no fixed points,
   the next activation is d after the argument rounded down to the second *)
Definition next_every (p : Z) (t : Z) : Z := t - t mod sec + p.

Fixpoint next_tbl (tbl : list Z) (t : Z) : Z :=
  match tbl with
  | [] => zero_time
  | p :: r => if t <? p then p else next_tbl r t
  end.

Inductive sched := STable (tbl : list Z) | SEvery (p : Z).
Definition next_of (s : sched) : Z -> Z :=
  match s with STable tbl => next_tbl tbl | SEvery p => next_every p end.
