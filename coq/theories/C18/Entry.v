(* Entry point of the C18 correspondence: selector + tokens -> tokens.
   Selectors < 100: run the model; >= 100: evaluate a law on the
   implementation's results.  Field tags (-100-i) locate a disagreement. *)
From Coq Require Import ZArith List Bool.
From V Require Import Base.Codec C18.Model C18.Laws.
Import ListNotations.
Open Scope Z_scope.

Definition tag (i : Z) : list Z := [-100 - i].

(* ---------- decoders ---------- *)
Definition dPhase : dec phase :=
  let* x := dZ in
  if x =? 0 then ret PhOther else if x =? 1 then ret PhCompleted
  else if x =? 2 then ret PhFailed else if x =? 3 then ret PhTerminated else fail.
Definition dOwner : dec owner :=
  let* x := dZ in
  if x =? 0 then ret OwnNone else if x =? 1 then ret OwnThis else if x =? 2 then ret OwnOther else fail.
Definition dPolicy : dec policy :=
  let* x := dZ in
  if x =? 0 then ret Allow else if x =? 1 then ret Forbid else if x =? 2 then ret Replace else fail.

Definition dGjob : dec gjob :=
  let* u := dZ in let* p := dPhase in let* ttl := dOpt dZ in let* d := dBool in let* f := dOpt dZ in
  let* c := dOpt dZ in
  ret (mkGjob u p ttl d f c).

Definition dRef : dec jref := let* n := dZ in let* u := dZ in ret (mkRef n u).
Definition dJob : dec job :=
  let* n := dZ in let* u := dZ in let* o := dOwner in let* p := dPhase in
  let* c := dOpt dZ in let* f := dOpt dZ in ret (mkJob n u o p c f).
Definition dSpec : dec cspec :=
  let* cr := dZ in let* su := dBool in let* po := dPolicy in let* dl := dOpt dZ in
  let* sl := dOpt dZ in let* fl := dOpt dZ in let* tz := dBool in ret (mkSpec cr su po dl sl fl tz).
Definition dStatus : dec cstatus :=
  let* l := dOpt dZ in let* a := dList dRef in let* ls := dOpt (dOpt dZ) in ret (mkStatus l a ls).

(* the schedule: two tokens the model ignores (schedule id, zone id), then the table *)
Definition dTable : dec (list Z) := let* _ := dZ in let* _ := dZ in dList dZ.

(* for the model: ids, then kind 0 = table of points, 1 = "@every" period (ns) *)
Definition dSched : dec sched :=
  let* _ := dZ in let* _ := dZ in let* k := dZ in
  if k =? 0 then let* t := dList dZ in ret (STable t)
  else if k =? 1 then let* p := dZ in (if p <? sec then fail else ret (SEvery p))
  else fail.

Definition dTz : dec tzspec :=
  let* k := dZ in
  if k =? 0 then ret TzNil else if k =? 1 then let* z := dZ in ret (TzLoads z)
  else if k =? 2 then ret TzInvalid else fail.
Definition dKind : dec skind :=
  let* k := dZ in
  if k =? 0 then ret KFive else if k =? 1 then ret KEvery else if k =? 2 then ret KDescriptor else fail.
(* two ids the model ignores (schedule id, zone id), then what it sees of them *)
Definition dZoneCase : dec (tzspec * sstr) :=
  let* _ := dZ in let* _ := dZ in
  let* tz := dTz in let* k := dKind in let* e := dOpt dZ in ret (tz, mkSstr k e).
Definition dFmt : dec fmt_res :=
  let* k := dZ in if k =? 0 then ret FmtAsIs else if k =? 1 then let* z := dZ in ret (FmtPrefixed z) else fail.
Definition dZone : dec zone :=
  let* k := dZ in if k =? 0 then ret ZLocal else if k =? 1 then let* z := dZ in ret (ZNamed z) else fail.
Definition eFmt (f : fmt_res) : list Z := match f with FmtAsIs => [0] | FmtPrefixed z => [1; z] end.
Definition eZone (z : zone) : list Z := match z with ZLocal => [0] | ZNamed z => [1; z] end.

Definition dOp : dec op :=
  let* k := dZ in
  if k =? 0 then let* n := dZ in let* f := dBool in ret (OpReconcile n f)
  else if k =? 1 then let* n := dZ in let* p := dPhase in let* a := dOpt dZ in ret (OpFinish n p a)
  else if k =? 2 then let* n := dZ in ret (OpDelete n)
  else if k =? 3 then let* n := dZ in let* _ := dZ (* uid: the server assigns it *) in let* o := dOwner in let* p := dPhase in
                      let* c := dOpt dZ in let* f := dOpt dZ in ret (OpAdd n o p c f)
  else if k =? 4 then let* b := dBool in ret (OpSuspend b)
  else if k =? 5 then let* p := dPolicy in ret (OpPolicy p)
  else if k =? 7 then let* d := dOpt dZ in ret (OpDeadline d)
  else if k =? 8 then let* sl := dOpt dZ in let* fl := dOpt dZ in ret (OpLimits sl fl)
  else fail.

(* a history event: kind 6 = a reconcile that starts from the given (older)
   status and whose write-back may be lost; everything else is a fresh event *)
Definition dOp2 : dec op2 := fun l =>
  match l with
  | 6 :: r => (let* st := dStatus in let* ok := dBool in let* n := dZ in let* f := dBool in
               ret (Stale st ok n f)) r
  | 9 :: r => (let* n := dZ in let* f := dBool in ret (LostWrite n f)) r
  | 10 :: r => (let* st := dOpt dStatus in let* li := dList dJob in let* ok := dBool in let* n := dZ in
                let* f := dBool in ret (Lagged st li ok n f)) r
  | _ => (let* o := dOp in ret (Fresh o)) l
  end.

(* the real Next answers time.Time{} when nothing matches; it does not fit an
   int64 nanosecond count, so it travels as this sentinel *)
Definition zero_tok : Z := - 2 ^ 62.
Definition dTime : dec Z := let* x := dZ in ret (if x =? zero_tok then zero_time else x).
Definition eTime (t : Z) : list Z := [if t =? zero_time then zero_tok else t].

(* ---------- encoders ---------- *)
Definition eZ (x : Z) : list Z := [x].
Definition eMissed (m : missed) : list Z :=
  match m with MNone => [0] | MFew => [1] | MMany => [2] end.
Definition eRef (r : jref) : list Z := [r_name r; r_uid r].
Definition ePhase (p : phase) : list Z :=
  match p with PhOther => [0] | PhCompleted => [1] | PhFailed => [2] | PhTerminated => [3] end.
Definition eOwner (o : owner) : list Z :=
  match o with OwnNone => [0] | OwnThis => [1] | OwnOther => [2] end.
Definition eJob (j : job) : list Z :=
  [j_name j; j_uid j] ++ eOwner (j_owner j) ++ ePhase (j_phase j) ++ eOpt eZ (j_created j) ++ eOpt eZ (j_finish j).
Definition eStatus (st : cstatus) : list Z :=
  eOpt eZ (st_last st) ++ eList eRef (st_active st) ++ eOpt (eOpt eZ) (st_last_success st).
Definition ePairZ (p : Z * Z) : list Z := [fst p; snd p].

Definition eMr (r : mr_res) : list Z :=
  match r with
  | MrErr => [0]
  | MrFuel => [9]
  | MrOk t m => 1 :: eOpt eZ t ++ eMissed m
  end.
Definition eNs (r : ns_res) : list Z :=
  match r with NsErr => [0] | NsFuel => [9] | NsOk t => 1 :: eOpt eZ t end.

Definition eGcOut (o : gc_out) : list Z :=
  tag 1 ++ eBool (go_err o) ++
  tag 2 ++ eNat (length (go_requeues o)) ++
  tag 3 ++ eOpt eZ (go_delete o).

Definition eOut (o : rout) : list Z :=
  tag 1 ++ eOpt eZ (o_requeue o) ++
  tag 2 ++ eBool (o_upd o) ++
  tag 3 ++ eZ (o_err o) ++
  tag 4 ++ eList ePairZ (o_creates o) ++
  tag 5 ++ eList eZ (o_hist_deletes o ++ o_repl_deletes o) ++
  tag 6 ++ eStatus (o_status o).

Definition fuel_of (s : sched) : nat :=
  match s with STable tbl => S (S (S (length tbl))) | SEvery _ => 8%nat end.

(* the table must be a plausible schedule, else the case is malformed *)
Definition table_ok (s : sched) : bool :=
  match s with STable tbl => increasing tbl | SEvery _ => true end.

Definition dObs : dec robs :=
  let* sp := dSpec in let* l := dOpt dZ in let* a := dList dRef in let* js := dList dJob in
  let* now := dZ in let* cr := dList (dPair dZ dZ) in let* dl := dList (dPair dZ dBool) in let* aa := dList dRef in
  let* cf := dList (dPair dZ dZ) in let* len := dBool in let* er := dZ in let* la := dOpt dZ in let* up := dBool in
  let* lg := dBool in let* kn := dList dZ in
  ret (mkObs sp l a js now cr dl aa cf len er la up lg kn).

Definition entry (sel : Z) (toks : list Z) : list Z :=
  match sel with
  (* --- garbage collector --- *)
  | 1 => match run_dec (dPair dGjob dZ) toks with
         | Some (j, since) => eOpt eZ (time_left j since)
         | None => bad_input end
  | 3 => match run_dec (dPair (dOpt dGjob) (dOpt dGjob)) toks with
         | Some (lj, fr) => eGcOut (process_job lj fr 0 0)
         | None => bad_input end
  | 4 => match run_dec dGjob toks with
         | Some j => eBool (gc_enqueues j) ++ eBool (needs_cleanup j)
         | None => bad_input end
  (* --- cron: schedule choice --- *)
  | 10 => match run_dec (let* tbl := dSched in let* cr := dZ in let* l := dOpt dZ in let* d := dOpt dZ in
                         let* now := dZ in let* incl := dBool in ret (tbl, cr, l, d, now, incl)) toks with
          | Some (tbl, cr, l, d, now, incl) =>
            if table_ok tbl then
              let '(e, r) := most_recent (next_of tbl) (fuel_of tbl) cr l d now incl in
              tag 1 ++ eZ e ++ tag 2 ++ eMr r ++
              tag 3 ++ eNs (next_schedule_time (next_of tbl) (fuel_of tbl) cr l d now) ++
              tag 4 ++ eOpt eZ (requeue_after (next_of tbl) (fuel_of tbl) cr l d now)
            else bad_input
          | None => bad_input end
  (* --- cron: the zone of the schedule --- *)
  | 12 => match run_dec dZoneCase toks with
          | Some (tz, s) =>
            tag 1 ++ eFmt (format_schedule tz s) ++
            tag 2 ++ eBool (validate_tz tz) ++
            tag 3 ++ (match ss_kind s, validate_tz tz with
                      | KEvery, _ => [0]
                      | _, false => [0]
                      | _, true => 1 :: eZone (zone_used tz s)
                      end)
          | None => bad_input end
  (* --- cron: a history of reconciles and environment events --- *)
  | 20 => match run_dec (let* tbl := dSched in let* len := dBool in let* sp := dSpec in let* st := dStatus in
                         let* js := dList dJob in let* u := dZ in let* ops := dList dOp2 in
                         ret (tbl, len, sp, st, js, u, ops)) toks with
          | Some (tbl, len, sp, st, js, u, ops) =>
            if table_ok tbl then
              let '(s, outs) := run2 (next_of tbl) len (fuel_of tbl) (mkState sp st js u) ops in
              eNat (length outs) ++ flat_map (fun o => tag 0 ++ eOut o) outs ++
              tag 7 ++ eStatus (s_status s) ++ tag 8 ++ eList eJob (s_jobs s) ++ tag 9 ++ eZ (s_next_uid s)
            else bad_input
          | None => bad_input end
  (* --- laws on the implementation's results --- *)
  | 101 => match run_dec (let* j := dGjob in let* s := dZ in let* g := dOpt dZ in ret (j, s, g)) toks with
           | Some (j, s, g) => eBool (law_time_left j s g) | None => bad_input end
  | 103 => match run_dec (let* lj := dOpt dGjob in let* fr := dOpt dGjob in let* lo := dZ in let* hi := dZ in
                          let* del := dOpt dZ in let* rq := dList dZ in let* err := dBool in
                          ret (lj, fr, lo, hi, del, rq, err)) toks with
           | Some (lj, fr, lo, hi, del, rq, err) =>
             eBool (law_gc lj fr lo hi del rq && law_gc_no_finish lj fr lo del rq err)
           | None => bad_input end
  | 110 => match run_dec (let* tbl := dTable in let* cr := dZ in let* l := dOpt dZ in let* d := dOpt dZ in
                          let* now := dZ in let* ch := dOpt dZ in ret (tbl, cr, l, d, now, ch)) toks with
           | Some (tbl, cr, l, d, now, ch) => eBool (law_choice tbl cr l d now ch) | None => bad_input end
  | 111 => match run_dec (dPair dTable (dList (dPair dTime dTime))) toks with
           | Some (tbl, qs) => eBool (law_table tbl qs) | None => bad_input end
  | 112 => match run_dec (let* c := dZoneCase in let* f := dFmt in let* v := dBool in let* z := dOpt dZone in
                          ret (c, f, v, z)) toks with
           | Some ((tz, s), f, v, z) => eBool (law_zone tz s f v z) | None => bad_input end
  | 120 => match run_dec (dList dZ) toks with
           | Some cr => eBool (law_history cr) | None => bad_input end
  | 121 => match run_dec (dPair dTable dObs) toks with
           | Some (tbl, o) => eBool (law_reconcile tbl o) | None => bad_input end
  | 123 => match run_dec (dPair dTable dObs) toks with
           | Some (_, o) => eBool (law_deletes o) | None => bad_input end
  | 122 => match run_dec (dPair dTable dObs) toks with
           | Some (_, o) => eBool (law_forbid_live o) | None => bad_input end
  | _ => bad_input
  end.
