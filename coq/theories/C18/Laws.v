(* Executable forms of the C18 guarantees, evaluated on what the IMPLEMENTATION
   did.  They read record fields, the schedule table and the observed API calls;
   none of them calls process_job / most_recent / reconcile. *)
From Coq Require Import ZArith List Bool.
From V Require Import C18.Model.
Import ListNotations.
Open Scope Z_scope.

Definition is_some {A} (o : option A) : bool := match o with Some _ => true | None => false end.

(* ---------------- garbage collector ---------------- *)

(* absolute expiry of a job that is eligible for clean-up *)
Definition expiry (j : gjob) : option Z :=
  match g_ttl j, g_finish j with
  | Some ttl, Some f => if finished (g_phase j) then Some (f + ttl * sec) else None
  | _, _ => None
  end.

(* timeLeft(j, since) answered [got] (None = error) *)
Definition law_time_left (j : gjob) (since : Z) (got : option Z) : bool :=
  match expiry j, got with
  | Some e, Some d => d =? e - since
  | None, None => true
  | _, _ => false
  end.

(* processJob ran while the clock moved from [lo] to [hi]; it issued
   [del] (UID precondition, 0 = none given) and the requeues [rqs] *)
Definition law_gc (lj fresh : option gjob) (lo hi : Z) (del : option Z) (rqs : list Z) : bool :=
  (* a delete is justified by the FRESH object, whose UID it carries *)
  match del with
  | None => true
  | Some uid =>
    match fresh with
    | None => false
    | Some f =>
      negb (g_deleting f) &&
      match expiry f with Some e => e <=? hi | None => false end &&
      (uid =? g_uid f)
    end
  end &&
  (* every requeue is the remaining TTL of one of the two objects at some
     instant of the call *)
  forallb (fun d =>
    (0 <? d) &&
    existsb (fun oj => match oj with
                       | Some j => match expiry j with
                                   | Some e => (e - hi <=? d) && (d <=? e - lo)
                                   | None => false end
                       | None => false end) [lj; fresh]) rqs &&
  (* a job whose TTL has not run out is neither deleted nor forgotten *)
  match lj with
  | Some j =>
    match expiry j with
    | Some e => if negb (g_deleting j) && (hi <? e)
                then negb (is_some del) && negb (match rqs with [] => true | _ => false end)
                else true
    | None => true
    end
  | None => true
  end.

(* the finish time is the RECORDED one: an object that is otherwise eligible
   (finished, TTL set, not being deleted) but carries no
   status.state.lastTransitionTime is never deleted and never re-queued with a
   delay - whatever its creation time; when it is the lister's copy (or the
   lister's copy was due and it is the fresh one) the call reports the error *)
Definition eligible_no_finish (j : gjob) : bool :=
  finished (g_phase j) && is_some (g_ttl j) && negb (g_deleting j) && negb (is_some (g_finish j)).

Definition law_gc_no_finish (lj fresh : option gjob) (lo : Z) (del : option Z) (rqs : list Z) (err : bool) : bool :=
  let quiet_error := err && negb (is_some del) && match rqs with [] => true | _ => false end in
  match lj with
  | Some j =>
    if eligible_no_finish j then quiet_error
    else
      match fresh, expiry j with
      | Some f, Some e =>
        (* the lister's copy was due before the call began, so the fresh copy was examined *)
        if negb (g_deleting j) && (e <=? lo) && eligible_no_finish f then quiet_error else true
      | _, _ => true
      end
  | None => true
  end &&
  match fresh, del with
  | Some f, Some _ => is_some (g_finish f)
  | _, _ => true
  end.

(* ---------------- cron: schedule choice ---------------- *)

Fixpoint increasing (l : list Z) : bool :=
  match l with
  | a :: ((b :: _) as r) => (a <? b) && increasing r
  | _ => true
  end.

Fixpoint const_gap (g : Z) (l : list Z) : bool :=
  match l with
  | a :: ((b :: _) as r) => (b - a =? g) && const_gap g r
  | _ => true
  end.

(* the table shows a constant-period schedule *)
Definition regular (tbl : list Z) : bool :=
  match tbl with
  | a :: b :: _ => const_gap (b - a) tbl
  | _ => false
  end.

Definition mem (x : Z) (l : list Z) : bool := existsb (Z.eqb x) l.

(* [chosen] = what nextScheduleTime returned (None also on error) *)
Definition law_choice (tbl : list Z) (created : Z) (last deadline : option Z) (now : Z)
           (chosen : option Z) : bool :=
  let e := earliest_time created last deadline now true in
  match chosen with
  | Some t =>
    mem t tbl && (e <? t) && (t <=? now) &&
    forallb (fun p => negb (t <? p) || (now <? p)) tbl
  | None =>
    if regular tbl then forallb (fun p => negb ((e <? p) && (p <=? now))) tbl else true
  end.

(* the three hypotheses on [next], on the table and on every answer the real
   cron.Schedule.Next gave during the case *)
Definition law_table (tbl : list Z) (queries : list (Z * Z)) : bool :=
  increasing tbl && forallb (fun p => p mod sec =? 0) tbl &&
  match tbl with
  | [] => forallb (fun q => snd q =? zero_time) queries
  | _ =>
    forallb (fun q =>
      let '(a, r) := q in
      (a <? r) && mem r tbl && (r mod sec =? 0) &&
      forallb (fun p => negb (a <? p) || (r <=? p)) tbl) queries
  end.

(* ---------------- cron: the zone the schedule is evaluated in ---------------- *)

(* observed: the string formatSchedule produced (as is / "TZ=<z> <schedule>"),
   whether validateTZandSchedule accepted the CronJob, and - when it did and the
   parsed schedule is a wall-clock one - the Location of the parsed schedule.
   spec.timeZone, when it is set and loads, is the zone for EVERY schedule
   kind; an embedded TZ=/CRON_TZ= wins (upstream warns and ignores the field);
   no zone at all means the controller's local zone; a zone that does not load
   is refused *)
Definition zone_eqb (a b : zone) : bool :=
  match a, b with
  | ZLocal, ZLocal => true
  | ZNamed x, ZNamed y => x =? y
  | _, _ => false
  end.

Definition law_zone (tz : tzspec) (s : sstr) (fmt : fmt_res) (valid : bool) (zn : option zone) : bool :=
  let want_zone z :=
    match ss_kind s, valid with
    | KEvery, _ => match zn with None => true | Some _ => false end
    | _, false => match zn with None => true | Some _ => false end
    | _, true => match zn with Some o => zone_eqb o z | None => false end
    end in
  Bool.eqb valid (match tz with TzInvalid => false | _ => true end) &&
  match ss_embedded s, tz with
  | Some e, _ => match fmt with FmtAsIs => true | _ => false end && want_zone (ZNamed e)
  | None, TzLoads z => match fmt with FmtPrefixed z' => z' =? z | _ => false end && want_zone (ZNamed z)
  | None, TzNil => match fmt with FmtAsIs => true | _ => false end && want_zone ZLocal
  | None, TzInvalid => match fmt with FmtAsIs => true | _ => false end &&
                       match zn with None => true | Some _ => false end
  end.

(* ---------------- cron: one reconcile, as observed ---------------- *)

Record robs := mkObs {
  b_spec : cspec;
  b_last : option Z;            (* status.lastScheduleTime before *)
  b_active : list jref;         (* status.active before *)
  b_jobs : list job;            (* API server before *)
  b_now : Z;
  b_creates : list (Z * Z);     (* (name, schedule time) of successful creates *)
  b_deletes : list (Z * bool);  (* Delete calls: name, and whether the controller had just
                                   fetched that job (the Replace path does, removeOldestJobs does not) *)
  b_active_after : list jref;   (* in-memory status.active after *)
  b_conflicts : list (Z * Z);   (* Create calls answered AlreadyExists: (name, schedule time) *)
  b_lenient : bool;             (* the job client can fetch a job without a namespace *)
  b_err : Z;                    (* error class of syncCronJob *)
  b_last_after : option Z;      (* in-memory status.lastScheduleTime after *)
  b_upd : bool;                 (* syncCronJob asked for a status update *)
  b_lagged : bool;              (* the job lister of this reconcile was an older snapshot *)
  b_known : list Z;             (* UIDs of the jobs this controller started or adopted in the history,
                                   or was handed in the initial status.active *)
}.

Definition count_phase (p : phase) (jobs : list job) : Z :=
  Z.of_nat (length (filter (fun j => match j_owner j, j_phase j, p with
                                     | OwnThis, PhCompleted, PhCompleted => true
                                     | OwnThis, PhFailed, PhFailed => true
                                     | _, _, _ => false end) jobs)).

Definition hist_deletes (o : robs) : list Z :=
  map fst (filter (fun d => negb (snd d)) (b_deletes o)).

Definition deleted_of (p : phase) (o : robs) : Z :=
  count_phase p (filter (fun j => mem (j_name j) (hist_deletes o)) (b_jobs o)).

Definition within_limit (lim : option Z) (p : phase) (o : robs) : bool :=
  match lim with
  | None => deleted_of p o =? 0
  | Some mx => deleted_of p o <=? Z.max 0 (count_phase p (b_jobs o) - mx)
  end.

(* adoption by name: a Create answered AlreadyExists starts nothing; when the
   conflicting job is an unfinished job of this CronJob (and can be fetched) it
   is referenced in status.active afterwards and - unless it was referenced
   before - lastScheduleTime records its schedule time and the status update is
   requested, so that Forbid and the already-processed check hold from then on;
   a foreign or finished conflicting job is only reported *)
Definition law_adoption (o : robs) : bool :=
  forallb (fun c : Z * Z =>
    let '(nm, t) := c in
    match b_creates o with [] => true | _ => false end &&
    match find_job (b_jobs o) nm with
    | None => mem nm (map fst (b_creates o))   (* cannot conflict with nothing *)
    | Some j =>
      if mem nm (map fst (b_deletes o)) then true
      else
        match j_owner j with
        | OwnThis =>
          if finished (j_phase j) then true
          else if b_lenient o then
            (b_err o =? 0) &&
            existsb (fun r => (r_name r =? nm) && (r_uid r =? j_uid j)) (b_active_after o) &&
            (existsb (fun r => r_uid r =? j_uid j) (b_active o) ||
             (match b_last_after o with Some l => l =? t | None => false end && b_upd o))
          else negb (b_err o =? 0)
        | _ => true
        end
    end) (b_conflicts o).

(* Forbid in the live-run form, judged on the API SERVER's jobs at the time of
   the reconcile: a job is started only when no run this controller started
   (or adopted, or was handed) is still unfinished on the server.  Orphans
   somebody else planted are report-only in the code and are not counted. *)
Definition live_known (o : robs) : list job :=
  filter (fun j => match j_owner j with OwnThis => true | _ => false end &&
                   negb (finished (j_phase j)) && mem (j_uid j) (b_known o) &&
                   negb (mem (j_name j) (map fst (b_deletes o)))) (b_jobs o).

Definition law_forbid_live (o : robs) : bool :=
  match c_policy (b_spec o), b_creates o with
  | Forbid, (nm, _) :: _ =>
    match live_known o with [] => true | _ => false end &&
    (* and, as the code sees it: no run referenced by the status it started from is still
       unfinished, and the new job is the only reference afterwards *)
    forallb (fun r => match find_job (b_jobs o) (r_name r) with
                      | Some j => negb (j_uid j =? r_uid r) || finished (j_phase j) ||
                                  mem (r_name r) (map fst (b_deletes o))   (* removed by this reconcile *)
                      | None => true end) (b_active o) &&
    match b_active_after o with [r] => r_name r =? nm | _ => false end
  | _, _ => true
  end.

(* history limits delete only finished runs (law 123), judged on the API
   server's jobs: a Delete the controller issues without having fetched the job
   (removeOldestJobs) hits a finished run of this CronJob - Completed or Failed,
   and no more of them than exceed the limit, when the lister is current; any
   finished phase and no count when the lister lags (it may show an older phase
   and jobs that are gone); a fetched Delete is the Replace policy's *)
Definition law_deletes (o : robs) : bool :=
  let sp := b_spec o in
  forallb (fun d : Z * bool =>
    let '(nm, fetched) := d in
    match find_job (b_jobs o) nm with
    | Some j =>
      if fetched then
        match c_policy sp with
        | Replace => existsb (fun r => r_name r =? nm) (b_active o) && negb (c_suspend sp)
        | _ => false end
      else
        match j_owner j, j_phase j with
        | OwnThis, PhCompleted => true
        | OwnThis, PhFailed => true
        | OwnThis, PhTerminated => b_lagged o
        | _, _ => false
        end
    | None => true   (* answered NotFound (a lagging lister still showed the job): nothing is deleted *)
    end) (b_deletes o) &&
  (b_lagged o ||
   (within_limit (c_succ_limit sp) PhCompleted o && within_limit (c_fail_limit sp) PhFailed o)).

Definition law_reconcile (tbl : list Z) (o : robs) : bool :=
  let sp := b_spec o in
  (* never while suspended; at most one start per reconcile *)
  (if c_suspend sp then match b_creates o with [] => true | _ => false end else true) &&
  (if c_tz_ok sp then true else match b_creates o with [] => true | _ => false end) &&
  (length (b_creates o) <=? 1)%nat &&
  (* the started time is the latest schedule point after the previous run
     (or creation, raised by the deadline) and not after now; its name is new *)
  forallb (fun c =>
    let '(nm, t) := c in
    law_choice tbl (c_created sp) (b_last o) (c_deadline sp) (b_now o) (Some t) &&
    (nm =? Z.quot (t / sec) 60) &&
    match b_last o with Some l => l <? t | None => true end &&
    (negb (is_some (find_job (b_jobs o) nm)) || mem nm (map fst (b_deletes o)))) (b_creates o) &&
  law_adoption o.

(* a whole history: every schedule point started at most once, in order *)
Definition law_history (created : list Z) : bool := increasing created.
