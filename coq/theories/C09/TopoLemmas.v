(* Soundness of topoSort (Kahn's algorithm with in-degree counting, as written
   in util.go) for every graph, and sufficiency of the fuel. *)
From Coq Require Import ZArith List Bool Lia Permutation Relations.
From V Require Import C09.Model.
Import ListNotations.
Open Scope Z_scope.

(* ---------- generic list facts ---------- *)
Lemma memb_In x l : memb x l = true <-> In x l.
Proof.
  unfold memb. rewrite existsb_exists. split.
  - intros (y & Hy & E). apply Z.eqb_eq in E. now subst.
  - intros H. exists x. split; auto. apply Z.eqb_refl.
Qed.
Lemma memb_false x l : memb x l = false <-> ~ In x l.
Proof. rewrite <- memb_In. destruct (memb x l); split; congruence. Qed.

Lemma dedup_In l : forall seen x, In x (dedup l seen) <-> In x l /\ ~ In x seen.
Proof.
  induction l as [|a l IH]; intros seen x; simpl.
  - tauto.
  - destruct (memb a seen) eqn:E.
    + apply memb_In in E. rewrite IH.
      assert (a = x -> In x seen) by (intros <-; auto). tauto.
    + apply memb_false in E. simpl. rewrite IH. simpl.
      assert (a = x -> ~ In x seen) by (intros <-; auto).
      destruct (Z.eq_dec a x); tauto.
Qed.
Lemma dedup_NoDup l : forall seen, NoDup (dedup l seen).
Proof.
  induction l as [|a l IH]; intros seen; simpl; [constructor|].
  destruct (memb a seen); auto. constructor; auto.
  rewrite dedup_In. simpl. tauto.
Qed.

Lemma NoDup_app_intro {A} (a b : list A) :
  NoDup a -> NoDup b -> (forall x, In x a -> ~ In x b) -> NoDup (a ++ b).
Proof.
  induction a as [|x a IH]; simpl; intros Ha Hb H; auto.
  inversion Ha; subst. constructor.
  - rewrite in_app_iff. intros [?|?]; [auto|]. eapply H; eauto.
  - apply IH; auto.
Qed.
Lemma NoDup_app_l {A} (a b : list A) : NoDup (a ++ b) -> NoDup a.
Proof. induction a; simpl; intros H; [constructor|]. inversion H; subst. constructor; auto. rewrite in_app_iff in *. tauto. Qed.
Lemma NoDup_filter {A} (f : A -> bool) l : NoDup l -> NoDup (filter f l).
Proof.
  induction l as [|a l IH]; simpl; intros H; [constructor|]. inversion H; subst.
  destruct (f a); auto. constructor; auto. rewrite filter_In. tauto.
Qed.

(* ---------- relax ---------- *)
Lemma relax_spec : forall ss st dg st' dg',
  NoDup ss -> relax ss st dg = (st', dg') ->
  st' = rev (filter (fun i => dg i =? 1) ss) ++ st /\
  forall n, dg' n = if memb n ss then dg n - 1 else dg n.
Proof.
  induction ss as [|i r IH]; intros st dg st' dg' ND H; simpl in H.
  - inversion H; subst. split; auto.
  - inversion ND as [|? ? Hi NDr]; subst.
    apply IH in H; auto. destruct H as [Hs Hd]. split.
    + subst st'. simpl.
      assert (E : filter (fun k => upd dg i (dg i - 1) k =? 1) r = filter (fun k => dg k =? 1) r).
      { apply filter_ext_in. intros a Ha. unfold upd.
        destruct (a =? i) eqn:Eai; auto. apply Z.eqb_eq in Eai. subst. contradiction. }
      rewrite E.
      replace (dg i - 1 =? 0) with (dg i =? 1) by (destruct (dg i =? 1) eqn:E1; symmetry;
        [apply Z.eqb_eq in E1; apply Z.eqb_eq; lia | apply Z.eqb_neq in E1; apply Z.eqb_neq; lia]).
      destruct (dg i =? 1); simpl; auto. rewrite <- app_assoc. auto.
    + intros n. rewrite Hd. simpl. unfold upd.
      destruct (n =? i) eqn:Eni.
      * apply Z.eqb_eq in Eni. subst n.
        rewrite (proj2 (memb_false i r) Hi). simpl. auto.
      * simpl. destruct (memb n r); auto.
Qed.

(* ---------- the invariant of the outer loop ---------- *)
Section Kahn.
Variable g : graph.
Let names := gnames g.

Fixpoint resp (rs : list Z) : Prop :=
  match rs with
  | [] => True
  | n :: r => (forall ds, In (n, ds) g -> incl ds r) /\ resp r
  end.

Definition npred (rs : list Z) (n : Z) : nat :=
  length (filter (fun p => memb n (succs g p)) rs).

Record Inv (stack : list Z) (deg : Z -> Z) (rs : list Z) : Prop := {
  inv_nodup : NoDup (rs ++ stack);
  inv_names : forall n, In n (rs ++ stack) -> In n names;
  inv_deg : forall n, deg n = deg0 g n - Z.of_nat (npred rs n);
  inv_le : forall n, In n (rs ++ stack) -> deg n <= 0;
  inv_resp : NoDup names ->
             resp rs /\ forall n, In n stack -> forall ds, In (n, ds) g -> incl ds rs }.

Lemma succs_In out n : In n (succs g out) <-> exists ds, In (n, ds) g /\ In out ds.
Proof.
  unfold succs. rewrite dedup_In. rewrite in_map_iff. split.
  - intros [([n' ds] & E & H) _]. simpl in E. subst. apply filter_In in H.
    destruct H as [H1 H2]. simpl in H2. apply memb_In in H2. eauto.
  - intros (ds & H1 & H2). split; [|simpl; tauto]. exists (n, ds). split; auto.
    apply filter_In. split; auto. simpl. now apply memb_In.
Qed.
Lemma succs_names out n : In n (succs g out) -> In n names.
Proof. rewrite succs_In. intros (ds & H & _). unfold names, gnames. apply in_map_iff. exists (n, ds). auto. Qed.
Lemma succs_NoDup out : NoDup (succs g out).
Proof. apply dedup_NoDup. Qed.

Lemma node_unique : NoDup names -> forall n ds ds', In (n, ds) g -> In (n, ds') g -> ds = ds'.
Proof.
  unfold names, gnames. induction g as [|[m d] g' IH]; simpl; intros ND n ds ds' H1 H2; [tauto|].
  inversion ND; subst.
  assert (F : forall x, In (m, x) g' -> False).
  { intros x Hx. apply H3. apply in_map_iff. exists (m, x). auto. }
  destruct H1 as [E1|H1], H2 as [E2|H2].
  - congruence.
  - inversion E1; subst. exfalso; eauto.
  - inversion E2; subst. exfalso; eauto.
  - eauto.
Qed.

Lemma deg0_unique : NoDup names -> forall n ds, In (n, ds) g -> deg0 g n = Z.of_nat (length ds).
Proof.
  intros ND n ds H. unfold deg0.
  destruct (find (fun nd => fst nd =? n) (rev g)) as [[m d]|] eqn:E.
  - apply find_some in E. destruct E as [E1 E2]. simpl in E2. apply Z.eqb_eq in E2. subst m.
    apply in_rev in E1. simpl. rewrite (node_unique ND _ _ _ H E1). auto.
  - exfalso. eapply find_none in E; [|apply in_rev; rewrite rev_involutive; exact H].
    simpl in E. rewrite Z.eqb_refl in E. discriminate.
Qed.

Lemma Inv_init :
  Inv (filter (fun n => deg0 g n =? 0) (dedup names [])) (deg0 g) [].
Proof.
  constructor; simpl.
  - apply NoDup_filter, dedup_NoDup.
  - intros n H. apply filter_In in H. destruct H as [H _]. apply dedup_In in H. tauto.
  - intros n. unfold npred. simpl. lia.
  - intros n H. apply filter_In in H. destruct H as [_ H]. apply Z.eqb_eq in H. lia.
  - intros ND. split; auto. intros n H ds Hd. apply filter_In in H. destruct H as [_ H].
    apply Z.eqb_eq in H. rewrite (deg0_unique ND _ _ Hd) in H.
    destruct ds; simpl in H; [intros x []|lia].
Qed.

Lemma Inv_step out rest deg rs st' dg' :
  Inv (out :: rest) deg rs -> relax (succs g out) rest deg = (st', dg') ->
  Inv st' dg' (out :: rs).
Proof.
  intros I H. apply relax_spec in H; [|apply succs_NoDup]. destruct H as [Hs Hd]. subst st'.
  set (new := filter (fun i => deg i =? 1) (succs g out)).
  assert (Hnew : forall x, In x new -> deg x = 1 /\ In x (succs g out)).
  { intros x Hx. apply filter_In in Hx. destruct Hx as [H1 H2]. apply Z.eqb_eq in H2. auto. }
  assert (Hfresh : forall x, In x new -> ~ In x (rs ++ out :: rest)).
  { intros x Hx Hin. apply Hnew in Hx. apply (inv_le _ _ _ I) in Hin. lia. }
  assert (Hperm : Permutation ((out :: rs) ++ rev new ++ rest) (new ++ rs ++ out :: rest)).
  { simpl. transitivity (out :: (new ++ rs) ++ rest).
    - constructor. rewrite app_assoc. apply Permutation_app_tail.
      rewrite Permutation_app_comm. apply Permutation_app_tail. symmetry. apply Permutation_rev.
    - rewrite (app_assoc new rs (out :: rest)). apply Permutation_middle. }
  constructor.
  - eapply Permutation_NoDup; [symmetry; exact Hperm|].
    apply NoDup_app_intro; [apply NoDup_filter, succs_NoDup|apply (inv_nodup _ _ _ I)|exact Hfresh].
  - intros n Hn. eapply Permutation_in in Hn; [|exact Hperm]. apply in_app_iff in Hn.
    destruct Hn as [Hn|Hn]; [apply Hnew in Hn; eapply succs_names; apply Hn|apply (inv_names _ _ _ I); auto].
  - intros n. rewrite Hd, (inv_deg _ _ _ I). unfold npred. simpl.
    destruct (memb n (succs g out)); simpl; lia.
  - intros n Hn. eapply Permutation_in in Hn; [|exact Hperm]. apply in_app_iff in Hn.
    rewrite Hd. destruct Hn as [Hn|Hn].
    + apply Hnew in Hn. destruct Hn as [H1 H2]. rewrite (proj2 (memb_In _ _) H2). lia.
    + apply (inv_le _ _ _ I) in Hn. destruct (memb n (succs g out)); lia.
  - intros ND. destruct (inv_resp _ _ _ I ND) as [R S]. split.
    + simpl. split; auto. intros ds Hds. apply (S out); simpl; auto.
    + intros n Hn ds Hds. apply in_app_iff in Hn. destruct Hn as [Hn|Hn].
      * apply in_rev in Hn. destruct (Hnew _ Hn) as [Hdeg Hsucc].
        (* counting: all of ds has been output *)
        assert (Hmem : forall p, memb n (succs g p) = memb p ds).
        { intros p. destruct (memb p ds) eqn:E.
          - apply memb_In. apply succs_In. exists ds. split; auto. now apply memb_In.
          - apply memb_false. intros Hc. apply succs_In in Hc. destruct Hc as (ds' & H1 & H2).
            rewrite (node_unique ND _ _ _ H1 Hds) in H2. apply memb_false in E. contradiction. }
        pose proof (inv_deg _ _ _ I n) as Hdg. rewrite Hdeg, (deg0_unique ND _ _ Hds) in Hdg.
        unfold npred in Hdg.
        rewrite (filter_ext _ (fun p => memb p ds) Hmem) in Hdg.
        set (F := filter (fun p => memb p ds) (out :: rs)).
        assert (Hout : In out ds).
        { apply succs_In in Hsucc. destruct Hsucc as (ds' & H1 & H2).
          now rewrite <- (node_unique ND _ _ _ H1 Hds). }
        assert (LF : length F = length ds).
        { unfold F. simpl. rewrite (proj2 (memb_In _ _) Hout). simpl. lia. }
        assert (NDF : NoDup F).
        { apply NoDup_filter. pose proof (inv_nodup _ _ _ I) as N.
          apply NoDup_app_l with (b := rest). eapply Permutation_NoDup; [|exact N].
          rewrite <- Permutation_middle. simpl. reflexivity. }
        assert (IF : incl F ds).
        { intros x Hx. apply filter_In in Hx. now apply memb_In. }
        assert (ID : incl ds F).
        { apply NoDup_length_incl; auto. lia. }
        intros x Hx. apply ID in Hx. apply filter_In in Hx. tauto.
      * intros x Hx. right. eapply S; eauto. simpl. auto.
Qed.

Lemma kahn_inv : forall fuel stack deg rs rs',
  Inv stack deg rs -> kahn fuel g stack deg rs = Some rs' -> exists deg', Inv [] deg' rs'.
Proof.
  induction fuel as [|f IH]; intros stack deg rs rs' I H; destruct stack as [|out rest]; simpl in H.
  - inversion H; subst. eauto.
  - discriminate.
  - inversion H; subst. eauto.
  - destruct (relax (succs g out) rest deg) as [st' dg'] eqn:E.
    eapply IH; [|exact H]. eapply Inv_step; eauto.
Qed.

Lemma Inv_length stack deg rs : Inv stack deg rs -> (length rs + length stack <= length g)%nat.
Proof.
  intros I. rewrite <- app_length.
  replace (length g) with (length names) by apply map_length.
  apply NoDup_incl_length; [apply (inv_nodup _ _ _ I)|]. intros x. apply (inv_names _ _ _ I).
Qed.

Lemma kahn_fuel : forall fuel stack deg rs,
  Inv stack deg rs -> (length g < length rs + fuel)%nat -> kahn fuel g stack deg rs <> None.
Proof.
  induction fuel as [|f IH]; intros stack deg rs I L; destruct stack as [|out rest]; simpl; try discriminate.
  - apply Inv_length in I. simpl in I. lia.
  - destruct (relax (succs g out) rest deg) as [st' dg'] eqn:E.
    apply IH; [eapply Inv_step; eauto|simpl; lia].
Qed.
(* ---- any iteration order (Go ranges over maps: the initial stack and the
   successors of a popped task come in an unspecified order) ---- *)
Lemma Inv_ext st st2 dg dg2 rs :
  Permutation st st2 -> (forall n, dg n = dg2 n) -> Inv st dg rs -> Inv st2 dg2 rs.
Proof.
  intros P E I. constructor.
  - eapply Permutation_NoDup; [|apply (inv_nodup _ _ _ I)]. now apply Permutation_app_head.
  - intros n Hn. apply (inv_names _ _ _ I). eapply Permutation_in; [|exact Hn].
    apply Permutation_app_head. now symmetry.
  - intros n. rewrite <- E. apply (inv_deg _ _ _ I).
  - intros n Hn. rewrite <- E. apply (inv_le _ _ _ I). eapply Permutation_in; [|exact Hn].
    apply Permutation_app_head. now symmetry.
  - intros ND. destruct (inv_resp _ _ _ I ND) as [R S]. split; auto.
    intros n Hn. apply S. eapply Permutation_in; [symmetry; exact P|exact Hn].
Qed.

Lemma Permutation_filter_Z (f : Z -> bool) l l' : Permutation l l' -> Permutation (filter f l) (filter f l').
Proof.
  induction 1; simpl; auto.
  - destruct (f x); auto.
  - destruct (f x), (f y); auto. constructor.
  - etransitivity; eauto.
Qed.
Lemma memb_perm n l l' : Permutation l l' -> memb n l = memb n l'.
Proof.
  intros P. destruct (memb n l') eqn:E.
  - apply memb_In. apply memb_In in E. eapply Permutation_in; [symmetry; exact P|exact E].
  - apply memb_false. apply memb_false in E. intros C. apply E. eapply Permutation_in; eauto.
Qed.

Lemma Inv_step_any s1 out s2 deg rs ss st' dg' :
  Inv (s1 ++ out :: s2) deg rs -> Permutation ss (succs g out) ->
  relax ss (s1 ++ s2) deg = (st', dg') -> Inv st' dg' (out :: rs).
Proof.
  intros I P H.
  assert (I1 : Inv (out :: s1 ++ s2) deg rs).
  { eapply Inv_ext; [|reflexivity|exact I]. symmetry. apply Permutation_middle. }
  destruct (relax (succs g out) (s1 ++ s2) deg) as [st0 dg0] eqn:E0.
  pose proof (Inv_step _ _ _ _ _ _ I1 E0) as I2.
  apply relax_spec in E0; [|apply succs_NoDup]. destruct E0 as [S0 D0].
  apply relax_spec in H; [|eapply Permutation_NoDup; [symmetry; exact P|apply succs_NoDup]].
  destruct H as [S1 D1].
  eapply Inv_ext; [| |exact I2].
  - subst. apply Permutation_app_tail. rewrite <- !Permutation_rev.
    apply Permutation_filter_Z. now symmetry.
  - intros n. rewrite D0, D1. now rewrite (memb_perm n _ _ P).
Qed.
End Kahn.

(* a run of topoSort with every choice left open: which stack element is popped
   next (covers every initial order and every push order) and in which order the
   successors are visited *)
Inductive krun (g : graph) : list Z -> (Z -> Z) -> list Z -> list Z -> Prop :=
| kr_done deg rs : krun g [] deg rs rs
| kr_step s1 out s2 deg rs ss st' dg' final :
    Permutation ss (succs g out) -> relax ss (s1 ++ s2) deg = (st', dg') ->
    krun g st' dg' (out :: rs) final -> krun g (s1 ++ out :: s2) deg rs final.

Lemma krun_inv g : forall st deg rs final, krun g st deg rs final ->
  Inv g st deg rs -> exists deg', Inv g [] deg' final.
Proof.
  induction 1 as [deg rs|s1 out s2 deg rs ss st' dg' final P R K IH]; intros I; eauto.
  apply IH. eapply Inv_step_any; eauto.
Qed.

(* the model's deterministic run is one of them *)
Lemma kahn_is_krun g : forall fuel st deg rs final,
  kahn fuel g st deg rs = Some final -> krun g st deg rs final.
Proof.
  induction fuel as [|f IH]; intros st deg rs final H; destruct st as [|out rest]; simpl in H; try discriminate.
  - inversion H; subst. constructor.
  - inversion H; subst. constructor.
  - destruct (relax (succs g out) rest deg) as [st' dg'] eqn:E.
    apply (kr_step g [] out rest deg rs (succs g out) st' dg' final); auto.
Qed.

(* ---------- the specification ---------- *)
Definition before (l : list Z) (a b : Z) : Prop :=
  exists l1 l2, l = l1 ++ b :: l2 /\ In a l1.

(* order lists every task once and every task after all its dependencies,
   which are tasks themselves *)
Definition topo_order (g : graph) (order : list Z) : Prop :=
  NoDup (gnames g) /\ Permutation order (gnames g) /\
  forall n ds d, In (n, ds) g -> In d ds -> In d (gnames g) /\ before order d n.

Lemma resp_before g : forall rs, resp g rs ->
  forall n ds d, In (n, ds) g -> In n rs -> In d ds -> In d rs /\ before (rev rs) d n.
Proof.
  induction rs as [|m r IH]; simpl; intros R n ds d Hn Hin Hd; [tauto|].
  destruct R as [R1 R2]. destruct (Z.eq_dec m n) as [->|Ne].
  - pose proof (R1 _ Hn _ Hd) as Hr. split; auto.
    exists (rev r), []. split; auto. now apply -> in_rev.
  - destruct Hin as [?|Hin]; [contradiction|].
    destruct (IH R2 _ _ _ Hn Hin Hd) as [H1 (l1 & l2 & E & Hl)]. split; auto.
    exists l1, (l2 ++ [m]). rewrite E, <- app_assoc. simpl. auto.
Qed.

Lemma Inv_final_order g deg' rs :
  Inv g [] deg' rs -> length rs = length g -> topo_order g (rev rs).
Proof.
  intros I L.
  pose proof (inv_nodup _ _ _ _ I) as ND. rewrite app_nil_r in ND.
  assert (Incl : incl rs (gnames g)).
  { intros x Hx. apply (inv_names _ _ _ _ I). rewrite app_nil_r. auto. }
  assert (Len : length (gnames g) = length rs) by (unfold gnames; rewrite map_length; auto).
  assert (NDn : NoDup (gnames g)) by (eapply NoDup_incl_NoDup; eauto; lia).
  assert (P : Permutation rs (gnames g)) by (apply NoDup_Permutation_bis; auto; lia).
  destruct (inv_resp _ _ _ _ I NDn) as [R _].
  split; auto. split.
  - rewrite <- P. symmetry. apply Permutation_rev.
  - intros n ds d Hn Hd.
    assert (Hin : In n rs).
    { eapply Permutation_in; [symmetry; exact P|]. apply in_map_iff. exists (n, ds). auto. }
    destruct (resp_before g rs R _ _ _ Hn Hin Hd) as [H1 H2]. split; auto.
Qed.

Theorem toposort_sound : forall g order, topo g = TopoOk order -> topo_order g order.
Proof.
  intros g order H. unfold topo in H.
  destruct (kahn _ g _ _ []) as [rs|] eqn:K; [|discriminate].
  destruct (Nat.eqb (length rs) (length g)) eqn:L; [|discriminate].
  inversion H; subst order. apply Nat.eqb_eq in L.
  apply kahn_inv in K; [|apply Inv_init]. destruct K as [deg' I].
  now apply (Inv_final_order g deg' rs).
Qed.

(* the same for EVERY iteration order the Go maps may produce: whatever order the
   initial zero-in-degree tasks are stacked in, whichever stack element is taken and in
   whatever order successors are visited, a run that outputs as many tasks as the job
   has (isDag = true) outputs a topological order *)
Theorem toposort_sound_any_order : forall g st0 final,
  Permutation st0 (filter (fun n => deg0 g n =? 0) (dedup (gnames g) [])) ->
  krun g st0 (deg0 g) [] final -> length final = length g ->
  topo_order g (rev final).
Proof.
  intros g st0 final P K L.
  apply krun_inv in K.
  - destruct K as [deg' I]. now apply (Inv_final_order g deg' final).
  - eapply Inv_ext; [symmetry; exact P|reflexivity|apply Inv_init].
Qed.

Theorem toposort_fuel_sufficient : forall g, topo g <> TopoFuel.
Proof.
  intros g. unfold topo.
  destruct (kahn _ g _ _ []) as [rs|] eqn:K.
  - destruct (Nat.eqb _ _); discriminate.
  - exfalso. revert K. apply kahn_fuel; [apply Inv_init|simpl; lia].
Qed.

(* ---------- corollaries: every dangling reference and every cycle is rejected ---------- *)
Definition edge (g : graph) (a b : Z) : Prop := exists ds, In (b, ds) g /\ In a ds.  (* b dependsOn a *)

Fixpoint idx (x : Z) (l : list Z) : nat :=
  match l with [] => O | y :: r => if x =? y then O else S (idx x r) end.
Lemma idx_in x l r : In x l -> idx x (l ++ r) = idx x l /\ (idx x l < length l)%nat.
Proof.
  induction l as [|y l IH]; simpl; [tauto|]. intros H.
  destruct (x =? y) eqn:E; [split; auto; lia|].
  destruct H as [->|H]; [rewrite Z.eqb_refl in E; discriminate|].
  destruct (IH H). split; lia.
Qed.
Lemma idx_notin x l r : ~ In x l -> idx x (l ++ x :: r) = length l.
Proof.
  induction l as [|y l IH]; simpl; intros H; [now rewrite Z.eqb_refl|].
  destruct (x =? y) eqn:E; [apply Z.eqb_eq in E; subst; tauto|]. rewrite IH; auto.
Qed.
Lemma before_idx l a b : NoDup l -> before l a b -> (idx a l < idx b l)%nat.
Proof.
  intros ND (l1 & l2 & -> & Ha).
  destruct (idx_in a l1 (b :: l2) Ha) as [E1 E2]. rewrite E1.
  rewrite idx_notin; auto. apply NoDup_remove_2 in ND. rewrite in_app_iff in ND. tauto.
Qed.

(* what an order with these properties means for the graph: every reference
   exists and there is no cycle *)
Lemma topo_order_closed_acyclic g order : topo_order g order ->
  (forall n ds d, In (n, ds) g -> In d ds -> In d (gnames g)) /\
  (forall x, ~ clos_trans Z (edge g) x x).
Proof.
  intros (NDn & P & T). split.
  - intros n ds d Hn Hd. apply (T _ _ _ Hn Hd).
  - intros x C.
    assert (NDo : NoDup order) by (eapply Permutation_NoDup; [symmetry; exact P|auto]).
    assert (L : forall a b, clos_trans Z (edge g) a b -> (idx a order < idx b order)%nat).
    { induction 1 as [a b (ds & H1 & H2)|a b c _ IH1 _ IH2]; [|lia].
      apply before_idx; auto. apply (T _ _ _ H1 H2). }
    apply L in C. lia.
Qed.

(* no iteration order lets a cyclic or dangling graph through *)
Corollary toposort_any_order_rejects : forall g st0 final,
  Permutation st0 (filter (fun n => deg0 g n =? 0) (dedup (gnames g) [])) ->
  krun g st0 (deg0 g) [] final -> length final = length g ->
  (forall n ds d, In (n, ds) g -> In d ds -> In d (gnames g)) /\
  (forall x, ~ clos_trans Z (edge g) x x).
Proof. intros. eapply topo_order_closed_acyclic. eapply toposort_sound_any_order; eauto. Qed.

Theorem toposort_rejects_dangling : forall g n ds d,
  In (n, ds) g -> In d ds -> ~ In d (gnames g) -> is_dag g = false.
Proof.
  intros g n ds d Hn Hd Hnot. unfold is_dag. destruct (topo g) as [order| |] eqn:T; auto.
  apply toposort_sound in T. destruct T as (_ & _ & T). destruct (T _ _ _ Hn Hd). contradiction.
Qed.

Theorem toposort_rejects_cycle : forall g x,
  clos_trans Z (edge g) x x -> is_dag g = false.
Proof.
  intros g x C. unfold is_dag. destruct (topo g) as [order| |] eqn:T; auto.
  apply toposort_sound in T. destruct T as (NDn & P & T).
  assert (NDo : NoDup order) by (eapply Permutation_NoDup; [symmetry; exact P|auto]).
  assert (L : forall a b, clos_trans Z (edge g) a b -> (idx a order < idx b order)%nat).
  { induction 1 as [a b (ds & H1 & H2)|a b c _ IH1 _ IH2]; [|lia].
    apply before_idx; auto. apply (T _ _ _ H1 H2). }
  apply L in C. lia.
Qed.

(* an accepted graph also has no dependency listed twice: the in-degree counts
   list entries while the edge map is a set *)
Example toposort_duplicate_dependency_rejected :
  is_dag [(1, []); (2, [1; 1])] = false /\ is_dag [(1, []); (2, [1])] = true.
Proof. vm_compute. auto. Qed.
