(* Entry point of the C09 correspondence: selector + tokens -> tokens. *)
From Coq Require Import ZArith List Bool.
From V Require Import Base.Codec C09.Model C09.Laws.
Import ListNotations.
Open Scope Z_scope.

Definition tag (i : Z) : list Z := [-100 - i].

(* ---------- decoders ---------- *)
(* int32 fields of the API types: a number outside int32 cannot reach the webhook (JSON
   decoding of the request fails), so such a token list is undecodable input *)
Definition dI32 : dec Z := let* x := dZ in if (min32 <=? x) && (x <=? max32) then ret x else fail.
Definition dPolicy : dec policy :=
  let* a := dZ in let* e := dZ in let* es := dList dZ in let* x := dOpt dI32 in let* t := dZ in
  ret (mkPolicy a e es x t).
Definition dPart : dec part :=
  let* a := dI32 in let* b := dI32 in let* c := dI32 in let* d := dZ in ret (mkPart a b c d).
Definition dTask : dec task :=
  let* n := dZ in let* r := dI32 in let* m := dOpt dI32 in
  let* tid := dZ in let* hn := dBool in let* dns := dZ in
  let* ps := dList dPolicy in let* mr := dI32 in
  let* dp := dOpt (dPair (dList dZ) dZ) in let* pp := dOpt dPart in
  ret (mkTask n r m (mkTmpl tid hn dns) ps mr dp pp).
Definition dVol : dec volume :=
  let* a := dZ in let* b := dZ in let* c := dOpt dZ in ret (mkVol a b c).
Definition dPlugin : dec plugin :=
  let* a := dZ in let* b := dZ in let* c := dZ in ret (mkPlugin a b c).
Definition dJob : dec job :=
  let* n := dZ in let* ts := dList dTask in let* ma := dI32 in let* ps := dList dPolicy in
  let* vs := dList dVol in let* pl := dOpt (dList dPlugin) in
  let* q := dZ in let* s := dZ in let* mr := dI32 in let* pr := dZ in let* nt := dZ in let* rest := dZ in
  let* tm := dBool in
  ret (mkJob n ts ma ps vs pl q s mr pr nt rest tm).
Definition dQueue : dec queue :=
  let* a := dZ in let* b := dZ in let* c := dZ in let* t := dBool in ret (mkQueue a b c t).

(* oracle answers travel as the lists of ids the Kubernetes validator rejects:
   names invalid as a pod-template name, job names / task names that make the
   pod name invalid, template ids, claim names *)
Definition dOracles : dec oracles :=
  let* bad_sub := dList dZ in let* bad_jq := dList dZ in let* bad_tq := dList dZ in
  let* bad_tm := dList dZ in let* bad_pv := dList dZ in
  ret (mkOracles
         (fun n k => negb (memb n bad_sub) && negb (memb k bad_tm))
         (fun j t _ => negb (memb j bad_jq) && negb (memb t bad_tq))
         (fun j => negb (memb j bad_jq))
         (fun c => negb (memb c bad_pv))).

Definition dGraph : dec graph := dList (dPair dZ (dList dZ)).

(* ---------- encoders ---------- *)
Definition eZ (x : Z) : list Z := [x].
Definition ePolicy (p : policy) : list Z :=
  [p_action p; p_event p] ++ eList eZ (p_events p) ++ eOpt eZ (p_exit p) ++ [p_timeout p].
Definition ePart (p : part) : list Z := [pp_total p; pp_size p; pp_min p; pp_nt p].
Definition eTask (t : task) : list Z :=
  [t_name t; t_replicas t] ++ eOpt eZ (t_minavail t) ++
  [tm_id (t_tmpl t)] ++ eBool (tm_hostnet (t_tmpl t)) ++ [tm_dns (t_tmpl t)] ++
  eList ePolicy (t_policies t) ++ [t_maxretry t] ++
  eOpt (fun d => eList eZ (fst d) ++ [snd d]) (t_deps t) ++ eOpt ePart (t_part t).
Definition eVol (v : volume) : list Z := [v_mount v; v_cname v] ++ eOpt eZ (v_claim v).
Definition ePlugin (p : plugin) : list Z := [pl_name p; pl_master p; pl_args p].

(* the Go side lists a plugin map by ascending plugin id *)
Fixpoint ins_plugin (p : plugin) (l : list plugin) : list plugin :=
  match l with
  | [] => [p]
  | q :: r => if pl_name p <=? pl_name q then p :: l else q :: ins_plugin p r
  end.
Definition sort_plugins (l : list plugin) : list plugin := fold_right ins_plugin [] l.

Definition eJob (j : job) : list Z :=
  tag 1 ++ [j_name j] ++
  tag 2 ++ eList eTask (j_tasks j) ++
  tag 3 ++ [j_minavail j] ++
  tag 4 ++ eList ePolicy (j_policies j) ++
  tag 5 ++ eList eVol (j_volumes j) ++
  tag 6 ++ eOpt (fun l => eList ePlugin (sort_plugins l)) (j_plugins j) ++
  tag 7 ++ [j_queue j; j_sched j; j_maxretry j; j_prio j; j_nt j; j_rest j] ++ eBool (j_term j).

Definition entry (sel : Z) (toks : list Z) : list Z :=
  match sel with
  (* CREATE through /jobs/validate *)
  | 1 => match run_dec (let* o := dOracles in let* qs := dList dQueue in let* j := dJob in
                        let* _ := dZ in ret (o, qs, j)) toks with
         | Some (o, qs, j) => eBool (validate_create o qs j)
         | None => bad_input end
  (* /jobs/mutate: the patched object *)
  | 2 => match run_dec (dPair dZ dJob) toks with
         | Some (d, j) => eJob (mutate d j)
         | None => bad_input end
  (* a history of UPDATE requests against a stored object *)
  | 3 => match run_dec (let* o := dOracles in let* j := dJob in let* us := dList dJob in ret (o, j, us)) toks with
         | Some (_, j, us) => eList eBool (update_verdicts j us)
         | None => bad_input end
  (* the API-server order: mutate, then validate the patched object *)
  | 4 => match run_dec (let* o := dOracles in let* qs := dList dQueue in let* d := dZ in
                        let* j := dJob in let* _ := dZ in ret (o, qs, d, j)) toks with
         | Some (o, qs, d, j) => eBool (validate_create o qs (mutate d j))
         | None => bad_input end
  (* topoSort on a bare graph (hook) *)
  | 5 => match run_dec dGraph toks with
         | Some g => eBool (is_dag g)
         | None => bad_input end
  (* ---- laws on the implementation's own results: must answer [1] ---- *)
  | 101 => match run_dec (let* o := dOracles in let* qs := dList dQueue in let* j := dJob in
                          let* a := dBool in ret (o, qs, j, a)) toks with
           | Some (o, qs, j, a) => eBool (law_create o qs j a)
           | None => bad_input end
  | 102 => match run_dec (let* j := dJob in let* m1 := dJob in let* m2 := dJob in ret (j, m1, m2)) toks with
           | Some (j, m1, m2) => eBool (law_mutate j m1 m2)
           | None => bad_input end
  | 103 => match run_dec (let* j := dJob in let* v0 := dBool in let* v1 := dBool in ret (j, v0, v1)) toks with
           | Some (j, v0, v1) => eBool (law_default_valid j v0 v1)
           | None => bad_input end
  | 104 => match run_dec (let* o := dJob in let* n := dJob in let* a := dBool in ret (o, n, a)) toks with
           | Some (o, n, a) => eBool (law_update o n a)
           | None => bad_input end
  | 105 => match run_dec (let* g := dGraph in let* d := dBool in let* o := dList dZ in ret (g, d, o)) toks with
           | Some (g, d, o) => eBool (law_topo g d o)
           | None => bad_input end
  | 107 => match run_dec (let* o := dOracles in let* a := dJob in let* b := dJob in let* v := dBool in ret (o, a, b, v)) toks with
           | Some (o, a, b, v) => eBool (law_update_claimname o a b v)
           | None => bad_input end
  | 106 => match run_dec (dPair dOracles dJob) toks with
           | Some (o, j) => eBool (law_persist o j)
           | None => bad_input end
  | _ => bad_input
  end.
