(* Executable forms of the C09 clauses, evaluated on what the real webhooks
   answered.  They are written independently of the modelled functions
   (pairwise comparisons instead of the seen-maps, layer peeling instead of
   Kahn's in-degree counting, field-by-field comparison instead of
   normalise-and-DeepEqual). *)
From Coq Require Import ZArith List Bool.
From V Require Import C09.Model.
Import ListNotations.
Open Scope Z_scope.

Fixpoint nodupb (l : list Z) : bool :=
  match l with [] => true | x :: r => negb (memb x r) && nodupb r end.

(* ---- dependency graph: acyclic and closed, by peeling ready layers ---- *)
Definition ready (done : list Z) (nd : Z * list Z) : bool :=
  forallb (fun d => memb d done) (snd nd).
Fixpoint peel (n : nat) (g : graph) (done : list Z) : bool :=
  match n with
  | O => is_nil g
  | S k =>
    match g with
    | [] => true
    | _ => let '(r, w) := partition (ready done) g in
           match r with [] => false | _ => peel k w (map fst r ++ done) end
    end
  end.
Definition deps_ok_b (g : graph) : bool := peel (length g) g [].

(* ---- lifecycle policies ---- *)
Definition pol_events (p : policy) : list Z :=
  p_events p ++ (if p_event p =? 0 then [] else [p_event p]).
Definition pol_shape_ok (p : policy) : bool :=
  if has_event p
  then negb (is_some (p_exit p)) && forallb event_allowed (pol_events p) && action_allowed (p_action p)
  else match p_exit p with Some c => negb (c =? 0) | None => false end.
Fixpoint pol_disjoint (ps : list policy) : bool :=
  match ps with
  | [] => true
  | p :: r => forallb (fun q => forallb (fun e => negb (memb e (pol_events q))) (pol_events p)) r
              && pol_disjoint r
  end.
Definition pol_codes (ps : list policy) : list Z :=
  flat_map (fun p => match p_exit p with Some c => [c] | None => [] end) ps.
Definition policies_wf_b (ps : list policy) : bool :=
  forallb pol_shape_ok ps && pol_disjoint ps && nodupb (pol_codes ps) &&
  (let all := flat_map pol_events ps in implb (memb EV_ANY all) (forallb (Z.eqb EV_ANY) all)).

(* ---- volumes ---- *)
Definition vol_shape_ok (O : oracles) (v : volume) : bool :=
  negb (v_mount v =? 0) &&
  match v_claim v with
  | Some _ => v_cname v =? 0
  | None => negb (v_cname v =? 0) && o_pv O (v_cname v)
  end.
(* the form that survives updates: the controller may fill in the claim name *)
Definition vol_shape_weak (O : oracles) (v : volume) : bool :=
  negb (v_mount v =? 0) &&
  match v_claim v with
  | Some _ => true
  | None => negb (v_cname v =? 0) && o_pv O (v_cname v)
  end.
Definition volumes_wf_b (O : oracles) (strong : bool) (vs : list volume) : bool :=
  forallb (if strong then vol_shape_ok O else vol_shape_weak O) vs && nodupb (map v_mount vs).

(* ---- queue ----
   the queue exists (some object carries the name), is Open, is not root, and NO
   queue object of the table, terminating (q_term) or not, names it as parent *)
Definition queue_wf_b (qs : list queue) (qn : Z) : bool :=
  existsb (fun q => (q_name q =? qn) && (q_state q =? ST_OPEN)) qs &&
  negb (qn =? Q_ROOT) && forallb (fun q => negb (q_parent q =? qn)) qs.

(* ---- tasks ---- *)
Fixpoint indexed {A} (i : nat) (l : list A) : list (nat * A) :=
  match l with [] => [] | x :: r => (i, x) :: indexed (S i) r end.
Definition sumZ (l : list Z) : Z := fold_right Z.add 0 l.

Definition part_wf_b (t : task) : bool :=
  match t_part t with
  | None => true
  | Some p => (0 <? pp_total p) && (0 <? pp_size p) &&
              (t_replicas t =? wrap32 (pp_total p * pp_size p)) &&
              match t_minavail t with
              | Some m => implb (0 <? pp_min p) (m =? wrap32 (pp_min p * pp_size p))
              | None => true
              end && negb (pp_nt p =? NT_CONFLICT)
  end.
Definition task_wf_b (O : oracles) (jn : Z) (it : nat * task) : bool :=
  let t := snd it in
  match t_minavail t with Some m => m <=? t_replicas t | None => true end &&
  o_tmpl O (t_name t) (tm_id (t_tmpl t)) && o_pod O jn (t_name t) (fst it) &&
  policies_wf_b (t_policies t) && part_wf_b t.

(* the part of the property that is about the job object alone *)
Definition holds_intrinsic (O : oracles) (strong : bool) (j : job) : bool :=
  let ts := j_tasks j in
  negb (is_nil ts) && nodupb (map t_name ts) &&
  forallb (task_wf_b O (j_name j)) (indexed 0 ts) &&
  implb (forallb (fun t => 0 <=? t_replicas t) ts) (j_minavail j <=? sumZ (map t_replicas ts)) &&
  implb (existsb (fun t => is_some (t_deps t)) ts) (deps_ok_b (graph_of ts)) &&
  policies_wf_b (j_policies j) && volumes_wf_b O strong (j_volumes j) &&
  forallb (fun p => plugin_known (pl_name p)) (plugins_of j) &&
  match mpi_plugin j with
  | Some p => memb (mpi_master_name p) (map t_name ts)
  | None => true
  end &&
  negb (j_nt j =? NT_CONFLICT) && o_job O (j_name j).

Definition holds_create (O : oracles) (qs : list queue) (j : job) : bool :=
  holds_intrinsic O true j && queue_wf_b qs (j_queue j).

(* law 101: what the real /jobs/validate allowed on CREATE satisfies every clause *)
Definition law_create (O : oracles) (qs : list queue) (j : job) (allowed : bool) : bool :=
  implb allowed (holds_create O qs j).

(* ---- defaulting ---- *)
Definition deps_eq_dec : forall a b : option (list Z * Z), {a = b} + {a <> b}.
Proof. repeat decide equality. Defined.
Definition part_eq_dec : forall a b : option part, {a = b} + {a <> b}.
Proof. repeat decide equality. Defined.
Definition sb {P Q : Prop} (d : {P} + {Q}) : bool := if d then true else false.

Definition opt_filled (a b : option Z) : bool :=   (* b is set; if a was set, b = a *)
  match a, b with
  | Some x, Some y => x =? y
  | None, Some _ => true
  | _, None => false
  end.

(* m is t with nothing but defaults filled in *)
Definition task_defaulted (i : nat) (t m : task) : bool :=
  (if t_name t =? 0 then t_name m =? default_name i else t_name m =? t_name t) &&
  (t_replicas m =? t_replicas t) && opt_filled (t_minavail t) (t_minavail m) &&
  (tm_id (t_tmpl m) =? tm_id (t_tmpl t)) && Bool.eqb (tm_hostnet (t_tmpl m)) (tm_hostnet (t_tmpl t)) &&
  (if tm_dns (t_tmpl t) =? 0 then implb (tm_hostnet (t_tmpl t)) (negb (tm_dns (t_tmpl m) =? 0))
   else tm_dns (t_tmpl m) =? tm_dns (t_tmpl t)) &&
  (if t_maxretry t =? 0 then negb (t_maxretry m =? 0) else t_maxretry m =? t_maxretry t) &&
  sb (list_eq_dec policy_eq_dec (t_policies m) (t_policies t)) &&
  sb (deps_eq_dec (t_deps m) (t_deps t)) && sb (part_eq_dec (t_part m) (t_part t)).

Fixpoint tasks_defaulted (i : nat) (ts ms : list task) : bool :=
  match ts, ms with
  | [], [] => true
  | t :: tr, m :: mr => task_defaulted i t m && tasks_defaulted (S i) tr mr
  | _, _ => false
  end.

Definition plugin_names (j : job) : list Z := map pl_name (plugins_of j).

(* law 102: j = request object, m1 = j with the webhook's patch applied,
   m2 = m1 with the patch of a second pass applied.  Defaulting is idempotent
   (m2 = m1), only fills unset fields, and leaves no defaultable field unset. *)
Definition law_mutate (j m1 m2 : job) : bool :=
  sb (job_eq_dec m1 m2) &&
  tasks_defaulted 0 (j_tasks j) (j_tasks m1) &&
  (if j_queue j =? 0 then negb (j_queue m1 =? 0) else j_queue m1 =? j_queue j) &&
  (if j_sched j =? 0 then true else j_sched m1 =? j_sched j) &&
  (if j_maxretry j =? 0 then negb (j_maxretry m1 =? 0) else j_maxretry m1 =? j_maxretry j) &&
  (if j_minavail j =? 0 then true else j_minavail m1 =? j_minavail j) &&
  sb (list_eq_dec policy_eq_dec (j_policies m1) (j_policies j)) &&
  sb (list_eq_dec volume_eq_dec (j_volumes m1) (j_volumes j)) &&
  Bool.eqb (is_some (j_plugins m1)) (is_some (j_plugins j)) &&
  forallb (fun p => existsb (fun q => sb (plugin_eq_dec p q)) (plugins_of m1)) (plugins_of j) &&
  forallb (fun n => memb n (plugin_names j) || (n =? PL_SVC) || (n =? PL_SSH)) (plugin_names m1) &&
  (j_prio m1 =? j_prio j) && (j_nt m1 =? j_nt j) && (j_rest m1 =? j_rest j) && (j_name m1 =? j_name j).

(* the numeric side conditions of default_preserves_validity, on the
   defaulted object: per-task minAvailable within [0, replicas], replicas
   with an int32 total *)
Definition defaults_in_range (m : job) : bool :=
  forallb (fun t => (0 <=? task_min t) && (task_min t <=? t_replicas t)) (j_tasks m) &&
  (sumZ (map t_replicas (j_tasks m)) <=? max32).

(* the same side conditions stated on the REQUEST (before defaulting), without the
   "minAvailable <= replicas" clause for explicit values (validation of the
   prefilled request already gives it): replicas >= 0 and an explicit
   minAvailable >= 0 (both CRD minimums), a minAvailable that will be derived from
   a partition policy fits: 0 <= minPartitions*partitionSize <= replicas, and the
   total of replicas is an int32 *)
Definition task_in_range (t : task) : bool :=
  (0 <=? t_replicas t) &&
  match t_minavail t with
  | Some m => 0 <=? m
  | None => match t_part t with
            | Some p => if 0 <? pp_min p
                        then (0 <=? pp_min p * pp_size p) && (pp_min p * pp_size p <=? t_replicas t)
                        else true
            | None => true
            end
  end.
Definition request_in_range (j : job) : bool :=
  forallb task_in_range (j_tasks j) && (sumZ (map t_replicas (j_tasks j)) <=? max32).

(* law 103: j = the request, v0 = real verdict on the request with only names and
   queue filled in, v1 = real verdict on the real defaulted object *)
Definition law_default_valid (j : job) (v0 v1 : bool) : bool :=
  implb (v0 && request_in_range j) v1.

(* ---- updates ---- *)
Definition task_update_ok (o n : task) : bool :=
  sb (task_eq_dec
     (mkTask (t_name o) (t_replicas n) (t_minavail n) (t_tmpl o) (t_policies o) (t_maxretry o)
             (t_deps o) (t_part o)) n) &&
  (0 <=? t_replicas n) &&
  match t_minavail n with Some m => (0 <=? m) && (m <=? t_replicas n) | None => true end &&
  part_wf_b n.
Fixpoint tasks_update_ok (os ns : list task) : bool :=
  match os, ns with
  | [], [] => true
  | o :: orest, n :: nrest => task_update_ok o n && tasks_update_ok orest nrest
  | _, _ => false
  end.
Definition vol_update_ok (o n : volume) : bool :=
  (v_mount n =? v_mount o) &&
  match v_claim o, v_claim n with
  | Some a, Some b => a =? b                       (* claim name free *)
  | None, None => v_cname n =? v_cname o
  | _, _ => false
  end.
Fixpoint vols_update_ok (os ns : list volume) : bool :=
  match os, ns with
  | [], [] => true
  | o :: orest, n :: nrest => vol_update_ok o n && vols_update_ok orest nrest
  | _, _ => false
  end.
Definition plugins_same (a b : option (list plugin)) : bool :=
  sb (list_eq_dec plugin_eq_dec (match a with Some l => l | None => [] end)
                                (match b with Some l => l | None => [] end)).

(* law 104: an admitted UPDATE changed nothing but replicas, minAvailable
   (task and job), priorityClassName (and controller-filled claim names), and
   the new numbers satisfy the replica invariants *)
Definition law_update (old new : job) (allowed : bool) : bool :=
  implb allowed
    (tasks_update_ok (j_tasks old) (j_tasks new) &&
     vols_update_ok (j_volumes old) (j_volumes new) &&
     sb (list_eq_dec policy_eq_dec (j_policies new) (j_policies old)) &&
     plugins_same (j_plugins old) (j_plugins new) &&
     (j_queue new =? j_queue old) && (j_sched new =? j_sched old) &&
     (j_maxretry new =? j_maxretry old) && (j_nt new =? j_nt old) && (j_rest new =? j_rest old) &&
     (0 <=? j_minavail new) && (j_minavail new <=? sumZ (map t_replicas (j_tasks new))) &&
     negb (j_nt new =? NT_CONFLICT)).

(* law 107: the one deviation of law 104 / update_spec from "only replicas, minAvailable,
   priority class": the claim name of a volume that has an inline volumeClaim.  By design the
   job controller fills it in (createJobIOIfNotExist: empty -> generated name, written with an
   UPDATE); that write, with a name CREATE's validator accepts, is allowed here.  Any other change
   of it (a name ValidatePersistentVolumeName rejects, re-pointing a filled name, clearing it) is
   not. *)
Definition vol_fill_ok (O : oracles) (o n : volume) : bool :=
  match v_claim o, v_claim n with
  | Some _, Some _ => (v_cname n =? v_cname o) || ((v_cname o =? 0) && o_pv O (v_cname n))
  | _, _ => true
  end.
Fixpoint vols_fill_ok (O : oracles) (os ns : list volume) : bool :=
  match os, ns with
  | o :: orest, n :: nrest => vol_fill_ok O o n && vols_fill_ok O orest nrest
  | _, _ => true
  end.
Definition law_update_claimname (O : oracles) (old new : job) (allowed : bool) : bool :=
  implb allowed (vols_fill_ok O (j_volumes old) (j_volumes new)).

(* law 106: after every admitted update of a job that was admitted on create,
   the object still satisfies the job-intrinsic clauses (weak volume form) *)
Definition law_persist (O : oracles) (j : job) : bool := holds_intrinsic O false j.

(* law 105: the real topoSort's answer on a graph *)
Fixpoint before_all (order : list Z) (seen : list Z) (g : graph) : bool :=
  match order with
  | [] => true
  | n :: r =>
    forallb (fun nd => implb (fst nd =? n) (forallb (fun d => memb d seen) (snd nd))) g &&
    before_all r (n :: seen) g
  end.
Definition law_topo (g : graph) (isdag : bool) (order : list Z) : bool :=
  if isdag
  then nodupb order && Nat.eqb (length order) (length g) &&
       forallb (fun n => memb n (gnames g)) order && before_all order [] g &&
       nodupb (gnames g) && deps_ok_b g
  else is_nil order.
