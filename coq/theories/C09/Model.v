(* C09 — executable model of volcano's job admission webhooks.
   Definitions only (proofs are in Lemmas.v / TopoLemmas.v).

   Modelled code (pinned /repo):
     pkg/webhooks/admission/jobs/validate/admit_job.go   validateJobCreate 120-237,
        validateJobUpdate 239-304, validatePartitionPolicy 306-325, validateNetworkTopology 327-332
     pkg/webhooks/admission/jobs/validate/util.go        validatePolicies 62-123, getEventList /
        removeDuplicates 125-144, validateIO 169-194, topoSort 198-230, makeGraph 232-253
     pkg/webhooks/admission/jobs/mutate/mutate_job.go    createPatch 115-267
     pkg/webhooks/router/indexer.go                      GetQueuesByParent (both paths: same answer)
     pkg/controllers/job/helpers/helpers.go              GetTaskIndexUnderJob, MakePodName (oracle arg)

   Strings are numbers (the harness keeps the name tables); 0 is the empty
   string.  int32 arithmetic wraps (wrap32).  Kubernetes library validators are
   the fields of an [oracles] record (a Section Variable in every theorem). *)
From Coq Require Import ZArith List Bool.
Import ListNotations.
Open Scope Z_scope.

(* ---------- int32 ---------- *)
Definition wrap32 (x : Z) : Z := (x + 2147483648) mod 4294967296 - 2147483648.
Definition max32 : Z := 2147483647.
Definition min32 : Z := -2147483648.

(* ---------- fixed name tables (mirrored by the harness) ---------- *)
(* events: 1 "*", 2..8 the other externally allowed events, 9..11 internal
   events (OutOfSync, CommandIssued, PodRunning: in the map with value false),
   everything else (incl. 0 = "") unknown *)
Definition EV_ANY : Z := 1.
Definition event_allowed (e : Z) : bool := (1 <=? e) && (e <=? 8).
(* actions: 1..8 allowed, 9..13 internal, others unknown *)
Definition action_allowed (a : Z) : bool := (1 <=? a) && (a <=? 8).
(* job plugins: 1 ssh 2 env 3 svc 4 tensorflow 5 mpi 6 pytorch 7 hcclrank 8 ray *)
Definition PL_SSH : Z := 1.
Definition PL_SVC : Z := 3.
Definition PL_TF : Z := 4.
Definition PL_MPI : Z := 5.
Definition PL_PYTORCH : Z := 6.
Definition PL_RAY : Z := 8.
Definition plugin_known (p : Z) : bool := (1 <=? p) && (p <=? 8).
(* task names: 1 = "master" (mpi.DefaultMaster); 1000+i = "default<i>" *)
Definition NAME_MASTER : Z := 1.
Definition default_name (i : nat) : Z := 1000 + Z.of_nat i.
(* queues: 1 = "root", 2 = "default"; queue state 1 = Open *)
Definition Q_ROOT : Z := 1.
Definition Q_DEFAULT : Z := 2.
Definition ST_OPEN : Z := 1.
(* DNS policy 1 = ClusterFirstWithHostNet *)
Definition DNS_CFWHN : Z := 1.
Definition DEFAULT_MAX_RETRY : Z := 3.
(* network topology summary: 3 = HighestTierAllowed and HighestTierName both set *)
Definition NT_CONFLICT : Z := 3.
Definition ARGS_UNPARSABLE : Z := 99.

(* ---------- abstract objects ---------- *)
Record policy := mkPolicy {
  p_action : Z; p_event : Z; p_events : list Z; p_exit : option Z;
  p_timeout : Z }.   (* opaque: admission never branches on it, DeepEqual sees it *)
Record part := mkPart { pp_total : Z; pp_size : Z; pp_min : Z; pp_nt : Z }.
(* pod template: opaque content id (incl. the task's topologyPolicy) + the two
   fields the mutating webhook touches *)
Record tmpl := mkTmpl { tm_id : Z; tm_hostnet : bool; tm_dns : Z }.
Record task := mkTask {
  t_name : Z; t_replicas : Z; t_minavail : option Z; t_tmpl : tmpl;
  t_policies : list policy; t_maxretry : Z;
  t_deps : option (list Z * Z);        (* DependsOn: nil | (names, iteration) *)
  t_part : option part }.
Record volume := mkVol { v_mount : Z; v_cname : Z; v_claim : option Z }.
(* plugin: name, "--master=<task>" argument of the mpi plugin (0 = absent), other
   args (opaque id; ARGS_UNPARSABLE = the list starts with a flag the mpi plugin's
   FlagSet rejects, so parsing stops and --master keeps its default) *)
Record plugin := mkPlugin { pl_name : Z; pl_master : Z; pl_args : Z }.
Record job := mkJob {
  j_name : Z;                           (* metadata.name, not part of the spec *)
  j_tasks : list task; j_minavail : Z; j_policies : list policy;
  j_volumes : list volume; j_plugins : option (list plugin);
  j_queue : Z; j_sched : Z; j_maxretry : Z; j_prio : Z;
  j_nt : Z;                             (* spec.networkTopology summary *)
  j_rest : Z;                           (* every other spec field, opaque *)
  j_term : bool }.                      (* metadata.deletionTimestamp set (Terminating); like j_name
                                           not part of the spec: AdmitJobs never reads it *)
(* q_term: metadata.deletionTimestamp is set (the object is terminating but still
   served by the lister / informer).  Neither QueueLister.Get nor GetQueuesByParent
   looks at it, so no function below reads it: a terminating child is a child. *)
Record queue := mkQueue { q_name : Z; q_state : Z; q_parent : Z; q_term : bool }.

(* Kubernetes-library answers *)
Record oracles := mkOracles {
  o_tmpl : Z -> Z -> bool;          (* task name, template id: ValidatePodTemplate + topology policy *)
  o_pod : Z -> Z -> nat -> bool;    (* IsQualifiedName (MakePodName job task index) *)
  o_job : Z -> bool;                (* IsQualifiedName job.Name *)
  o_pv : Z -> bool }.               (* ValidatePersistentVolumeName claimName *)

(* ---------- small helpers ---------- *)
Definition memb (x : Z) (l : list Z) : bool := existsb (Z.eqb x) l.
Definition is_some {A} (o : option A) : bool := match o with Some _ => true | None => false end.
Definition is_nil {A} (l : list A) : bool := match l with [] => true | _ => false end.
Fixpoint dedup (l : list Z) (seen : list Z) : list Z :=
  match l with
  | [] => []
  | x :: r => if memb x seen then dedup r seen else x :: dedup r (x :: seen)
  end.
Definition deps_of (t : task) : list Z :=
  match t_deps t with Some (l, _) => l | None => [] end.
Definition sum32 (l : list Z) : Z := fold_left (fun a x => wrap32 (a + x)) l 0.

(* ---------- validatePolicies (util.go 62-123) ---------- *)
Definition has_event (p : policy) : bool := negb (p_event p =? 0) || negb (is_nil (p_events p)).
(* getEventList: Events ++ [Event], first occurrences kept *)
Definition event_list (p : policy) : list Z :=
  dedup (p_events p ++ (if p_event p =? 0 then [] else [p_event p])) [].

(* inner loop over one policy's events; None = an error was appended (break) *)
Fixpoint ev_loop (es : list Z) (action : Z) (seen : list Z) : option (list Z) :=
  match es with
  | [] => Some seen
  | e :: r =>
    if negb (event_allowed e) then None
    else if negb (action_allowed action) then None
    else if memb e seen then None
    else ev_loop r action (e :: seen)
  end.

Fixpoint pol_loop (ps : list policy) (evs codes : list Z) : option (list Z) :=
  match ps with
  | [] => Some evs
  | p :: r =>
    if has_event p && is_some (p_exit p) then None
    else if negb (has_event p) && negb (is_some (p_exit p)) then None
    else if has_event p then
      match ev_loop (event_list p) (p_action p) evs with
      | None => None
      | Some evs' => pol_loop r evs' codes
      end
    else match p_exit p with
         | None => None
         | Some c => if c =? 0 then None else if memb c codes then None
                     else pol_loop r evs (c :: codes)
         end
  end.

Definition policies_ok (ps : list policy) : bool :=
  match pol_loop ps [] [] with
  | None => false
  | Some evs => negb (memb EV_ANY evs && (1 <? Z.of_nat (length evs)))
  end.

(* ---------- validateIO (util.go 169-194) ---------- *)
Fixpoint vol_loop (O : oracles) (vs : list volume) (seen : list Z) : bool :=
  match vs with
  | [] => true
  | v :: r =>
    if v_mount v =? 0 then false
    else if memb (v_mount v) seen then false
    else if negb (is_some (v_claim v)) && (v_cname v =? 0) then false
    else if negb (v_cname v =? 0) && is_some (v_claim v) then false
    else if negb (v_cname v =? 0) && negb (o_pv O (v_cname v)) then false
    else vol_loop O r (v_mount v :: seen)
  end.
Definition volumes_ok (O : oracles) (vs : list volume) : bool := vol_loop O vs [].

(* ---------- topoSort / makeGraph (util.go 198-253) ----------
   The graph view of a job: (task name, dependsOn names) per task. *)
Definition graph := list (Z * list Z).
Definition graph_of (ts : list task) : graph := map (fun t => (t_name t, deps_of t)) ts.
Definition gnames (g : graph) : list Z := map fst g.

(* inDegree after makeGraph: the entry of a name is reset by every task that
   carries it, so the last one wins; one increment per listed dependency
   (duplicates counted) *)
Definition deg0 (g : graph) (n : Z) : Z :=
  match find (fun nd => fst nd =? n) (rev g) with
  | Some nd => Z.of_nat (length (snd nd))
  | None => 0
  end.
(* keys of graph[out]: the names of the tasks that list [out] (a set) *)
Definition succs (g : graph) (out : Z) : list Z :=
  dedup (map fst (filter (fun nd => memb out (snd nd)) g)) [].

Definition upd (f : Z -> Z) (k v : Z) : Z -> Z := fun x => if x =? k then v else f x.

(* inner loop of topoSort: inDegree[in]--, push when it reaches 0.  (The
   "connected" flag is always true here: every name is popped at most once.) *)
Fixpoint relax (ss : list Z) (stack : list Z) (deg : Z -> Z) : list Z * (Z -> Z) :=
  match ss with
  | [] => (stack, deg)
  | i :: r =>
    let d := deg i - 1 in
    relax r (if d =? 0 then i :: stack else stack) (upd deg i d)
  end.

(* outer loop; [rsorted] is sortedTasks in reverse; None = fuel exhausted *)
Fixpoint kahn (fuel : nat) (g : graph) (stack : list Z) (deg : Z -> Z) (rsorted : list Z)
  : option (list Z) :=
  match stack with
  | [] => Some rsorted
  | out :: rest =>
    match fuel with
    | O => None
    | S f => let '(stack', deg') := relax (succs g out) rest deg in
             kahn f g stack' deg' (out :: rsorted)
    end
  end.

Inductive topo_result := TopoOk (order : list Z) | TopoNotDag | TopoFuel.

Definition topo (g : graph) : topo_result :=
  let names := dedup (gnames g) [] in       (* keys of inDegree *)
  let stack := filter (fun n => deg0 g n =? 0) names in
  match kahn (S (length g)) g stack (deg0 g) [] with
  | None => TopoFuel
  | Some rs => if Nat.eqb (length rs) (length g) then TopoOk (rev rs) else TopoNotDag
  end.
Definition is_dag (g : graph) : bool :=
  match topo g with TopoOk _ => true | _ => false end.

(* ---------- validatePartitionPolicy / validateNetworkTopology ---------- *)
Definition part_arith_ok (t : task) (p : part) : bool :=
  if pp_total p <=? 0 then false
  else if pp_size p <=? 0 then false
  else if negb (t_replicas t =? wrap32 (pp_total p * pp_size p)) then false
  else match t_minavail t with
       | Some m => if (0 <? pp_min p) && negb (wrap32 (pp_min p * pp_size p) =? m) then false else true
       | None => true
       end.
Definition partition_ok (t : task) : bool :=
  match t_part t with
  | None => true
  | Some p => part_arith_ok t p && negb (pp_nt p =? NT_CONFLICT)
  end.

Definition minavail_le_replicas (t : task) : bool :=
  match t_minavail t with Some m => m <=? t_replicas t | None => true end.

(* ---------- validateJobCreate (admit_job.go 120-237) ---------- *)
Record tl_state := mkTl { tl_bad : bool; tl_total : Z; tl_hasdeps : bool; tl_seen : list Z }.

(* everything the loop body appends to the message for one task, except the
   duplicate-name case which breaks out of the loop *)
Definition task_body_ok (O : oracles) (jn : Z) (idx : nat) (t : task) : bool :=
  policies_ok (t_policies t) && o_pod O jn (t_name t) idx &&
  o_tmpl O (t_name t) (tm_id (t_tmpl t)) && partition_ok t.

Fixpoint task_loop (O : oracles) (jn : Z) (idx : nat) (ts : list task) (st : tl_state) : tl_state :=
  match ts with
  | [] => st
  | t :: r =>
    let hd := tl_hasdeps st || is_some (t_deps t) in
    let bad1 := tl_bad st || negb (minavail_le_replicas t) in
    let total := wrap32 (tl_total st + t_replicas t) in
    if memb (t_name t) (tl_seen st)
    then mkTl true total hd (tl_seen st)                     (* break *)
    else task_loop O jn (S idx) r
           (mkTl (bad1 || negb (task_body_ok O jn idx t)) total hd (t_name t :: tl_seen st))
  end.

Definition mpi_plugin (j : job) : option plugin :=
  match j_plugins j with
  | None => None
  | Some l => find (fun p => pl_name p =? PL_MPI) l
  end.
Definition mpi_master_name (p : plugin) : Z :=
  if (pl_master p =? 0) || (pl_args p =? ARGS_UNPARSABLE) then NAME_MASTER else pl_master p.
Definition mpi_ok (j : job) : bool :=
  match mpi_plugin j with
  | None => true
  | Some p => existsb (fun t => t_name t =? mpi_master_name p) (j_tasks j)
  end.
Definition plugins_of (j : job) : list plugin :=
  match j_plugins j with Some l => l | None => [] end.

Definition queue_ok (qs : list queue) (qn : Z) : bool :=
  match find (fun q => q_name q =? qn) qs with
  | None => false
  | Some q => (q_state q =? ST_OPEN) && negb (q_name q =? Q_ROOT) &&
              negb (existsb (fun c => q_parent c =? q_name q) qs)
  end.

Definition validate_create (O : oracles) (qs : list queue) (j : job) : bool :=
  if is_nil (j_tasks j) then false
  else if negb (mpi_ok j) then false
  else
    let st := task_loop O (j_name j) 0 (j_tasks j) (mkTl false 0 false []) in
    negb (j_nt j =? NT_CONFLICT) && negb (tl_bad st) && o_job O (j_name j) &&
    negb (tl_total st <? j_minavail j) && policies_ok (j_policies j) &&
    forallb (fun p => plugin_known (pl_name p)) (plugins_of j) &&
    volumes_ok O (j_volumes j) && queue_ok qs (j_queue j) &&
    (negb (tl_hasdeps st) || is_dag (graph_of (j_tasks j))).

(* ---------- createPatch (mutate_job.go 115-267): the patched object ---------- *)
Definition mutate_task (idx : nat) (t : task) : task :=
  let tm := t_tmpl t in
  mkTask
    (if t_name t =? 0 then default_name idx else t_name t)
    (t_replicas t)
    (match t_minavail t with
     | Some m => Some m
     | None => match t_part t with
               | Some p => if 0 <? pp_min p then Some (wrap32 (pp_min p * pp_size p))
                           else Some (t_replicas t)
               | None => Some (t_replicas t)
               end
     end)
    (if tm_hostnet tm && (tm_dns tm =? 0) then mkTmpl (tm_id tm) true DNS_CFWHN else tm)
    (t_policies t)
    (if t_maxretry t =? 0 then DEFAULT_MAX_RETRY else t_maxretry t)
    (t_deps t) (t_part t).

Fixpoint mutate_tasks (idx : nat) (ts : list task) : list task :=
  match ts with
  | [] => []
  | t :: r => mutate_task idx t :: mutate_tasks (S idx) r
  end.

Definition task_min (t : task) : Z :=
  match t_minavail t with Some m => m | None => t_replicas t end.

Definition has_plugin (n : Z) (l : list plugin) : bool := existsb (fun p => pl_name p =? n) l.
Definition add_plugin (n : Z) (l : list plugin) : list plugin :=
  if has_plugin n l then l else l ++ [mkPlugin n 0 0].
Definition mutate_plugins (l : list plugin) : list plugin :=
  let l1 := if has_plugin PL_TF l || has_plugin PL_MPI l || has_plugin PL_PYTORCH l || has_plugin PL_RAY l
            then add_plugin PL_SVC l else l in
  if has_plugin PL_MPI l then add_plugin PL_SSH l1 else l1.

(* dsched = GenerateSchedulerName(config.SchedulerNames) *)
Definition mutate (dsched : Z) (j : job) : job :=
  let ts := mutate_tasks 0 (j_tasks j) in
  mkJob (j_name j) ts
    (if j_minavail j =? 0 then sum32 (map task_min ts) else j_minavail j)
    (j_policies j) (j_volumes j)
    (match j_plugins j with None => None | Some l => Some (mutate_plugins l) end)
    (if j_queue j =? 0 then Q_DEFAULT else j_queue j)
    (if j_sched j =? 0 then dsched else j_sched j)
    (if j_maxretry j =? 0 then DEFAULT_MAX_RETRY else j_maxretry j)
    (j_prio j) (j_nt j) (j_rest j) (j_term j).

(* ---------- validateJobUpdate (admit_job.go 239-304) ---------- *)
Definition update_task_ok (t : task) : bool :=
  (0 <=? t_replicas t) &&
  match t_minavail t with Some m => (0 <=? m) && (m <=? t_replicas t) | None => true end &&
  partition_ok t.

(* the copy-back normalisation: new gets old's mutable fields *)
Fixpoint norm_tasks (olds news : list task) : list task :=
  match olds, news with
  | o :: orest, n :: nrest =>
    mkTask (t_name n) (t_replicas o) (t_minavail o) (t_tmpl n) (t_policies n) (t_maxretry n)
           (t_deps n) (t_part n) :: norm_tasks orest nrest
  | _, _ => []
  end.
Definition norm_vol (v : volume) : volume :=
  match v_claim v with Some c => mkVol (v_mount v) 0 (Some c) | None => v end.

Definition policy_eq_dec : forall a b : policy, {a = b} + {a <> b}.
Proof. repeat decide equality. Defined.
Definition task_eq_dec : forall a b : task, {a = b} + {a <> b}.
Proof. repeat decide equality. Defined.
Definition volume_eq_dec : forall a b : volume, {a = b} + {a <> b}.
Proof. repeat decide equality. Defined.
Definition plugin_eq_dec : forall a b : plugin, {a = b} + {a <> b}.
Proof. repeat decide equality. Defined.

(* the spec as Semantic.DeepEqual sees it: metadata dropped, nil and empty
   plugin maps identified *)
Definition spec_view (j : job) : job :=
  mkJob 0 (j_tasks j) (j_minavail j) (j_policies j) (j_volumes j)
        (match j_plugins j with Some [] => None | x => x end)
        (j_queue j) (j_sched j) (j_maxretry j) (j_prio j) (j_nt j) (j_rest j) false.
Definition job_eq_dec : forall a b : job, {a = b} + {a <> b}.
Proof. repeat decide equality. Defined.

Definition normalize_new (old new : job) : job :=
  mkJob 0 (norm_tasks (j_tasks old) (j_tasks new)) (j_minavail old) (j_policies new)
        (map norm_vol (j_volumes new)) (j_plugins new) (j_queue new) (j_sched new)
        (j_maxretry new) (j_prio old) (j_nt new) (j_rest new) false.
Definition normalize_old (old : job) : job :=
  mkJob 0 (j_tasks old) (j_minavail old) (j_policies old) (map norm_vol (j_volumes old))
        (j_plugins old) (j_queue old) (j_sched old) (j_maxretry old) (j_prio old) (j_nt old)
        (j_rest old) false.

Definition validate_update (old new : job) : bool :=
  forallb update_task_ok (j_tasks new) &&
  negb (sum32 (map t_replicas (j_tasks new)) <? j_minavail new) &&
  (0 <=? j_minavail new) &&
  negb (j_nt new =? NT_CONFLICT) &&
  Nat.eqb (length (j_tasks old)) (length (j_tasks new)) &&
  (if job_eq_dec (spec_view (normalize_new old new)) (spec_view (normalize_old old))
   then true else false).

(* histories: an admitted update replaces the stored object, a denied one
   leaves it *)
Fixpoint apply_updates (cur : job) (us : list job) : job :=
  match us with
  | [] => cur
  | u :: r => if validate_update cur u then apply_updates u r else apply_updates cur r
  end.
Fixpoint update_verdicts (cur : job) (us : list job) : list bool :=
  match us with
  | [] => []
  | u :: r => let ok := validate_update cur u in ok :: update_verdicts (if ok then u else cur) r
  end.
