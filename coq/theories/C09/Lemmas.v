(* Proofs about the admission model: soundness of CREATE admission. *)
From Coq Require Import ZArith List Bool Lia Permutation.
From V Require Import C09.Model C09.Laws C09.TopoLemmas.
Import ListNotations.
Open Scope Z_scope.

Ltac splits := repeat match goal with |- _ /\ _ => split end.

(* ---------- int32 ---------- *)
Lemma wrap32_ge x : min32 <= wrap32 x.
Proof. unfold wrap32, min32. pose proof (Z.mod_pos_bound (x + 2147483648) 4294967296). lia. Qed.
Lemma wrap32_le x : min32 <= x -> wrap32 x <= x.
Proof. unfold wrap32, min32. intros H. pose proof (Z.mod_le (x + 2147483648) 4294967296). lia. Qed.
Lemma wrap32_id x : min32 <= x <= max32 -> wrap32 x = x.
Proof. unfold wrap32, min32, max32. intros H. rewrite Z.mod_small; lia. Qed.

Lemma fold_wrap_le : forall l a, min32 <= a -> (forall x, In x l -> 0 <= x) ->
  fold_left (fun a x => wrap32 (a + x)) l a <= a + sumZ l.
Proof.
  induction l as [|x l IH]; simpl; intros a Ha H; [lia|].
  assert (0 <= x) by auto.
  pose proof (IH (wrap32 (a + x)) (wrap32_ge _) (fun y Hy => H y (or_intror Hy))).
  pose proof (wrap32_le (a + x)). unfold min32 in *. lia.
Qed.
Lemma sum32_le_sumZ l : (forall x, In x l -> 0 <= x) -> sum32 l <= sumZ l.
Proof. intros H. unfold sum32. pose proof (fold_wrap_le l 0 ltac:(unfold min32; lia) H). lia. Qed.

Lemma sumZ_nonneg l : (forall x, In x l -> 0 <= x) -> 0 <= sumZ l.
Proof.
  induction l as [|a l IH]; simpl; intros H; [lia|].
  assert (0 <= a) by (apply H; auto). assert (0 <= sumZ l) by (apply IH; intros; apply H; auto). lia.
Qed.

Lemma fold_wrap_exact : forall l a, 0 <= a -> (forall x, In x l -> 0 <= x) -> a + sumZ l <= max32 ->
  fold_left (fun a x => wrap32 (a + x)) l a = a + sumZ l.
Proof.
  induction l as [|x l IH]; simpl; intros a Ha H L; [lia|].
  assert (0 <= x) by auto.
  assert (0 <= sumZ l) by (apply sumZ_nonneg; intros; apply H; simpl; auto).
  rewrite wrap32_id by (unfold min32, max32 in *; lia).
  rewrite IH; auto; lia.
Qed.
Lemma sum32_exact l : (forall x, In x l -> 0 <= x) -> sumZ l <= max32 -> sum32 l = sumZ l.
Proof. intros. unfold sum32. rewrite fold_wrap_exact; auto; lia. Qed.

(* ---------- lifecycle policies ---------- *)
Record policy_wf (p : policy) : Prop := {
  pw_excl : has_event p = true -> p_exit p = None;                  (* no event together with an exit code *)
  pw_some : has_event p = true \/ exists c, p_exit p = Some c /\ c <> 0;   (* not empty; exit code <> 0 *)
  pw_events : has_event p = true ->
              (forall e, In e (pol_events p) -> event_allowed e = true) /\
              action_allowed (p_action p) = true }.

Fixpoint disjoint_pols (ps : list policy) : Prop :=
  match ps with
  | [] => True
  | p :: r => (forall q e, In q r -> In e (pol_events p) -> ~ In e (pol_events q)) /\ disjoint_pols r
  end.

Record policies_wf (ps : list policy) : Prop := {
  pws_each : Forall policy_wf ps;
  pws_disjoint : disjoint_pols ps;              (* no event in two different policies *)
  pws_codes : NoDup (pol_codes ps);             (* no exit code twice *)
  pws_any : forall p q e, In p ps -> In EV_ANY (pol_events p) -> In q ps -> In e (pol_events q) -> e = EV_ANY }.

Lemma event_list_In p e : In e (event_list p) <-> In e (pol_events p).
Proof. unfold event_list, pol_events. rewrite dedup_In. simpl. tauto. Qed.

Lemma has_event_nonempty p : has_event p = true -> pol_events p <> [].
Proof.
  unfold has_event, pol_events. destruct (p_event p =? 0); simpl.
  - destruct (p_events p); simpl; [discriminate|]. intros _. discriminate.
  - intros _. destruct (p_events p); discriminate.
Qed.
Lemma no_event_empty p : has_event p = false -> pol_events p = [].
Proof.
  unfold has_event, pol_events. destruct (p_event p =? 0); simpl; [|discriminate].
  destruct (p_events p); simpl; [auto|discriminate].
Qed.

Lemma ev_loop_spec : forall es a seen seen',
  ev_loop es a seen = Some seen' ->
  (es <> [] -> action_allowed a = true) /\
  (forall e, In e es -> event_allowed e = true /\ ~ In e seen) /\
  (forall x, In x seen' <-> In x seen \/ In x es) /\
  length seen' = (length seen + length es)%nat.
Proof.
  induction es as [|e r IH]; intros a seen seen' H; simpl in H.
  - inversion H; subst. splits.
    + intros C. exfalso. apply C. reflexivity.
    + intros e [].
    + intros x. simpl. tauto.
    + simpl. lia.
  - destruct (event_allowed e) eqn:E1; simpl in H; [|discriminate].
    destruct (action_allowed a) eqn:E2; simpl in H; [|discriminate].
    destruct (memb e seen) eqn:E3; [discriminate|]. apply memb_false in E3.
    apply IH in H. destruct H as (_ & H2 & H3 & H4). splits.
    + intros _. auto.
    + intros e' [<-|He]; [split; auto|]. destruct (H2 _ He) as [X Y]. split; auto.
      intros C. apply Y. simpl. auto.
    + intros x. rewrite H3. simpl. tauto.
    + rewrite H4. simpl. lia.
Qed.

Lemma pol_loop_spec : forall ps evs codes evs',
  pol_loop ps evs codes = Some evs' ->
  Forall policy_wf ps /\ disjoint_pols ps /\ NoDup (pol_codes ps) /\
  (forall c, In c (pol_codes ps) -> ~ In c codes) /\
  (forall p e, In p ps -> In e (pol_events p) -> ~ In e evs) /\
  (forall x, In x evs' <-> In x evs \/ exists p, In p ps /\ In x (pol_events p)) /\
  (length evs <= length evs')%nat.
Proof.
  induction ps as [|p r IH]; intros evs codes evs' H; simpl in H.
  - inversion H; subst. splits.
    + constructor.
    + exact I.
    + constructor.
    + intros c [].
    + intros p e [].
    + intros x. split; auto. intros [?|(p & [] & _)]; auto.
    + lia.
  - destruct (has_event p) eqn:HE; simpl in H.
    + destruct (p_exit p) eqn:EX; simpl in H; [discriminate|].
      destruct (ev_loop (event_list p) (p_action p) evs) as [evs1|] eqn:EL; [|discriminate].
      apply ev_loop_spec in EL. destruct EL as (A1 & A2 & A3 & A4).
      apply IH in H. destruct H as (B1 & B2 & B3 & B4 & B5 & B6 & B7).
      assert (NE : event_list p <> []).
      { intros C. apply (has_event_nonempty p HE). destruct (pol_events p) as [|e l] eqn:E; auto.
        assert (X : In e (event_list p)) by (apply event_list_In; rewrite E; simpl; auto).
        rewrite C in X. destruct X. }
      splits.
      * constructor; auto. constructor.
        -- intros _. auto.
        -- left. auto.
        -- intros _. split; [|apply A1; exact NE]. intros e He. apply event_list_In in He. apply A2; auto.
      * simpl. split; auto. intros q e Hq He Hc. apply (B5 q e Hq Hc). apply A3. right.
        now apply event_list_In.
      * simpl. rewrite EX. simpl. auto.
      * simpl. rewrite EX. simpl. auto.
      * intros q e [<-|Hq] He.
        -- apply event_list_In in He. apply A2; auto.
        -- intros Hc. apply (B5 q e Hq He). apply A3. auto.
      * intros x. rewrite B6. rewrite A3. split.
        -- intros [[Hx|Hx]|(q & Hq & Hx)].
           ++ left; auto.
           ++ right. exists p. split; [simpl; auto|now apply event_list_In].
           ++ right. exists q. simpl. auto.
        -- intros [Hx|(q & [<-|Hq] & Hx)].
           ++ left; left; auto.
           ++ left; right. now apply event_list_In.
           ++ right. eauto.
      * lia.
    + destruct (p_exit p) as [c|] eqn:EX; simpl in H; [|discriminate].
      destruct (c =? 0) eqn:C0; [discriminate|]. apply Z.eqb_neq in C0.
      destruct (memb c codes) eqn:MC; [discriminate|]. apply memb_false in MC.
      apply IH in H. destruct H as (B1 & B2 & B3 & B4 & B5 & B6 & B7).
      pose proof (no_event_empty p HE) as EE.
      splits.
      * constructor; auto. constructor.
        -- intros C. congruence.
        -- right. eauto.
        -- intros C. congruence.
      * simpl. split; auto. intros q e _ He. rewrite EE in He. destruct He.
      * simpl. rewrite EX. simpl. constructor; auto. intros Hc. apply (B4 c Hc). simpl. auto.
      * simpl. rewrite EX. simpl. intros c' [<-|Hc]; auto. intros Hc'. apply (B4 c' Hc). simpl. auto.
      * intros q e [<-|Hq] He; [rewrite EE in He; destruct He|]. eapply B5; eauto.
      * intros x. rewrite B6. split.
        -- intros [Hx|(q & Hq & Hx)]; auto. right. exists q. simpl. auto.
        -- intros [Hx|(q & [<-|Hq] & Hx)]; auto.
           ++ rewrite EE in Hx. destruct Hx.
           ++ right. eauto.
      * auto.
Qed.

Lemma policies_ok_sound ps : policies_ok ps = true -> policies_wf ps.
Proof.
  unfold policies_ok. destruct (pol_loop ps [] []) as [evs|] eqn:E; [|discriminate].
  intros H. apply pol_loop_spec in E. destruct E as (B1 & B2 & B3 & _ & _ & B6 & _).
  constructor; auto.
  intros p q e Hp Hany Hq He.
  assert (I1 : In EV_ANY evs) by (apply B6; right; eauto).
  assert (I2 : In e evs) by (apply B6; right; eauto).
  apply memb_In in I1. rewrite I1 in H. simpl in H. apply negb_true_iff in H. apply Z.ltb_ge in H.
  apply memb_In in I1.
  destruct evs as [|x [|y l]]; simpl in *; try tauto; try lia.
Qed.

(* ---------- volumes ---------- *)
Definition volume_wf (O : oracles) (v : volume) : Prop :=
  v_mount v <> 0 /\
  ((exists c, v_claim v = Some c /\ v_cname v = 0) \/
   (v_claim v = None /\ v_cname v <> 0 /\ o_pv O (v_cname v) = true)).
Definition volumes_wf (O : oracles) (vs : list volume) : Prop :=
  Forall (volume_wf O) vs /\ NoDup (map v_mount vs).

Lemma vol_loop_spec O : forall vs seen, vol_loop O vs seen = true ->
  Forall (volume_wf O) vs /\ NoDup (map v_mount vs) /\ forall v, In v vs -> ~ In (v_mount v) seen.
Proof.
  induction vs as [|v r IH]; intros seen H; simpl in H.
  - splits; [constructor|constructor|intros v []].
  - destruct (v_mount v =? 0) eqn:M0; [discriminate|]. apply Z.eqb_neq in M0.
    destruct (memb (v_mount v) seen) eqn:MS; [discriminate|]. apply memb_false in MS.
    assert (K : forall (H3 : forall w, In w r -> ~ In (v_mount w) (v_mount v :: seen)),
                ~ In (v_mount v) (map v_mount r) /\ forall w, In w (v :: r) -> ~ In (v_mount w) seen).
    { intros H3. split.
      - intros Hc. apply in_map_iff in Hc. destruct Hc as (w & E & Hw).
        apply (H3 w Hw). rewrite E. simpl. auto.
      - intros w [<-|Hw]; auto. intros Hc. apply (H3 w Hw). simpl. auto. }
    destruct (v_claim v) as [c|] eqn:CL; simpl in H.
    + destruct (v_cname v =? 0) eqn:CN; simpl in H; [|discriminate]. apply Z.eqb_eq in CN.
      apply IH in H. destruct H as (H1 & H2 & H3). destruct (K H3) as [K1 K2]. splits; auto.
      * constructor; auto. split; auto. left. eauto.
      * simpl. constructor; auto.
    + destruct (v_cname v =? 0) eqn:CN; simpl in H; [discriminate|]. apply Z.eqb_neq in CN.
      destruct (o_pv O (v_cname v)) eqn:PV; simpl in H; [|discriminate].
      apply IH in H. destruct H as (H1 & H2 & H3). destruct (K H3) as [K1 K2]. splits; auto.
      * constructor; auto. split; auto.
      * simpl. constructor; auto.
Qed.

(* ---------- tasks ---------- *)
Definition part_wf (t : task) : Prop :=
  forall p, t_part t = Some p ->
    0 < pp_total p /\ 0 < pp_size p /\ t_replicas t = wrap32 (pp_total p * pp_size p) /\
    (forall m, t_minavail t = Some m -> 0 < pp_min p -> m = wrap32 (pp_min p * pp_size p)) /\
    pp_nt p <> NT_CONFLICT.

Record task_wf (O : oracles) (jn : Z) (idx : nat) (t : task) : Prop := {
  tw_minavail : forall m, t_minavail t = Some m -> m <= t_replicas t;
  tw_tmpl : o_tmpl O (t_name t) (tm_id (t_tmpl t)) = true;
  tw_pod : o_pod O jn (t_name t) idx = true;
  tw_policies : policies_wf (t_policies t);
  tw_part : part_wf t }.

Lemma partition_ok_sound t : partition_ok t = true -> part_wf t.
Proof.
  unfold partition_ok, part_wf. intros H p E. rewrite E in H.
  apply andb_true_iff in H. destruct H as [H1 H2]. unfold part_arith_ok in H1.
  destruct (pp_total p <=? 0) eqn:A; [discriminate|]. apply Z.leb_gt in A.
  destruct (pp_size p <=? 0) eqn:B; [discriminate|]. apply Z.leb_gt in B.
  destruct (t_replicas t =? wrap32 (pp_total p * pp_size p)) eqn:C; simpl in H1; [|discriminate].
  apply Z.eqb_eq in C. repeat split; auto.
  - intros m Em Hm. rewrite Em in H1. apply Z.ltb_lt in Hm. rewrite Hm in H1. simpl in H1.
    destruct (wrap32 (pp_min p * pp_size p) =? m) eqn:D; simpl in H1; [|discriminate].
    apply Z.eqb_eq in D. auto.
  - apply negb_true_iff in H2. now apply Z.eqb_neq.
Qed.

Lemma task_loop_spec O jn : forall ts idx st,
  tl_bad (task_loop O jn idx ts st) = false ->
  tl_bad st = false /\ NoDup (map t_name ts) /\
  (forall t, In t ts -> ~ In (t_name t) (tl_seen st)) /\
  (forall k t, nth_error ts k = Some t -> task_wf O jn (idx + k) t) /\
  tl_total (task_loop O jn idx ts st) =
    fold_left (fun a x => wrap32 (a + x)) (map t_replicas ts) (tl_total st) /\
  tl_hasdeps (task_loop O jn idx ts st) =
    tl_hasdeps st || existsb (fun t => is_some (t_deps t)) ts.
Proof.
  induction ts as [|t r IH]; intros idx st H; simpl in *.
  - splits; auto.
    + constructor.
    + intros k t Hk. destruct k; discriminate.
    + now rewrite orb_false_r.
  - destruct (memb (t_name t) (tl_seen st)) eqn:MS; [simpl in H; discriminate|].
    apply memb_false in MS. apply IH in H. simpl in H.
    destruct H as (H1 & H2 & H3 & H4 & H5 & H6).
    apply orb_false_iff in H1. destruct H1 as [H1 Hb]. apply orb_false_iff in H1. destruct H1 as [H0 Hm].
    apply negb_false_iff in Hb, Hm. splits; auto.
    + constructor; auto. intros Hc. apply in_map_iff in Hc. destruct Hc as (w & E & Hw).
      apply (H3 w Hw). rewrite E. simpl. auto.
    + intros w [<-|Hw]; auto. intros Hc. apply (H3 w Hw). simpl. auto.
    + intros k w Hk. destruct k as [|k]; simpl in Hk.
      * inversion Hk; subst w. replace (idx + 0)%nat with idx by lia.
        unfold task_body_ok in Hb.
        apply andb_true_iff in Hb. destruct Hb as [Hb Hb4].
        apply andb_true_iff in Hb. destruct Hb as [Hb Hb3].
        apply andb_true_iff in Hb. destruct Hb as [Hb1 Hb2].
        constructor; auto.
        -- intros m Em. unfold minavail_le_replicas in Hm. rewrite Em in Hm. now apply Z.leb_le.
        -- now apply policies_ok_sound.
        -- now apply partition_ok_sound.
      * replace (idx + S k)%nat with (S idx + k)%nat by lia. exact (H4 _ _ Hk).
    + rewrite H6. simpl. now rewrite orb_assoc.
Qed.

(* ---------- queue ---------- *)
Definition queue_wf (qs : list queue) (qn : Z) : Prop :=
  exists q, In q qs /\ q_name q = qn /\ q_state q = ST_OPEN /\ qn <> Q_ROOT /\
            forall c, In c qs -> q_parent c <> qn.

Lemma queue_ok_sound qs qn : queue_ok qs qn = true -> queue_wf qs qn.
Proof.
  unfold queue_ok. destruct (find _ qs) as [q|] eqn:F; [|discriminate].
  apply find_some in F. destruct F as [F1 F2]. apply Z.eqb_eq in F2.
  intros H. apply andb_true_iff in H. destruct H as [H H3]. apply andb_true_iff in H. destruct H as [H1 H2].
  apply Z.eqb_eq in H1. apply negb_true_iff in H2, H3. apply Z.eqb_neq in H2.
  exists q. repeat split; auto; try congruence.
  intros c Hc E. rewrite <- not_true_iff_false in H3. apply H3. apply existsb_exists. exists c. split; auto.
  apply Z.eqb_eq. congruence.
Qed.

(* ---------- CREATE: Allowed implies every clause ---------- *)
Definition has_deps (ts : list task) : Prop := exists t, In t ts /\ t_deps t <> None.

Record create_spec (O : oracles) (qs : list queue) (j : job) : Prop := {
  cs_tasks : j_tasks j <> [];
  cs_names : NoDup (map t_name (j_tasks j));
  cs_task : forall k t, nth_error (j_tasks j) k = Some t -> task_wf O (j_name j) k t;
  (* what the code compares: the int32 running total *)
  cs_minavail32 : j_minavail j <= sum32 (map t_replicas (j_tasks j));
  (* with the CRD's lower bound on replicas this is the mathematical total *)
  cs_minavail : (forall t, In t (j_tasks j) -> 0 <= t_replicas t) ->
                j_minavail j <= sumZ (map t_replicas (j_tasks j));
  cs_deps : has_deps (j_tasks j) -> exists order, topo_order (graph_of (j_tasks j)) order;
  cs_policies : policies_wf (j_policies j);
  cs_volumes : volumes_wf O (j_volumes j);
  cs_plugins : forall p, In p (plugins_of j) -> plugin_known (pl_name p) = true;
  cs_mpi : forall p, mpi_plugin j = Some p ->
           exists t, In t (j_tasks j) /\ t_name t = mpi_master_name p;
  cs_queue : queue_wf qs (j_queue j);
  cs_nt : j_nt j <> NT_CONFLICT;
  cs_jobname : o_job O (j_name j) = true }.

Theorem admit_create_sound : forall O qs j,
  validate_create O qs j = true -> create_spec O qs j.
Proof.
  intros O qs j H. unfold validate_create in H.
  destruct (is_nil (j_tasks j)) eqn:NIL; [discriminate|].
  destruct (mpi_ok j) eqn:MPI; [|discriminate]. cbn [negb] in H.
  set (st := task_loop O (j_name j) 0 (j_tasks j) (mkTl false 0 false [])) in *.
  repeat (apply andb_true_iff in H; let H' := fresh "C" in destruct H as [H H']).
  apply negb_true_iff in H, C6, C4. apply Z.eqb_neq in H. apply Z.ltb_ge in C4.
  destruct (task_loop_spec O (j_name j) (j_tasks j) 0 (mkTl false 0 false []) C6)
    as (_ & T2 & _ & T4 & T5 & T6). fold st in T5, T6. simpl in T5, T6.
  assert (S32 : j_minavail j <= sum32 (map t_replicas (j_tasks j))) by (unfold sum32; rewrite <- T5; lia).
  constructor; auto.
  - intros Cn. rewrite Cn in NIL. discriminate.
  - intros Hr. eapply Z.le_trans; [exact S32|]. apply sum32_le_sumZ.
    intros x Hx. apply in_map_iff in Hx. destruct Hx as (t & <- & Ht). auto.
  - intros (t & Ht & Hd).
    assert (HD : tl_hasdeps st = true).
    { rewrite T6. apply existsb_exists. exists t. split; auto. destruct (t_deps t); [auto|congruence]. }
    rewrite HD in C. simpl in C. unfold is_dag in C.
    destruct (topo (graph_of (j_tasks j))) as [order| |] eqn:TP; try discriminate.
    exists order. now apply toposort_sound.
  - now apply policies_ok_sound.
  - unfold volumes_ok in C1. apply vol_loop_spec in C1. destruct C1 as (V1 & V2 & _). split; auto.
  - intros p Hp. rewrite forallb_forall in C2. auto.
  - intros p Hp. unfold mpi_ok in MPI. rewrite Hp in MPI. apply existsb_exists in MPI.
    destruct MPI as (t & Ht & E). apply Z.eqb_eq in E. eauto.
  - now apply queue_ok_sound.
Qed.

(* the names in the accepted dependency graph are the task names: so the
   order of cs_deps is an order of the tasks *)
Lemma gnames_graph_of ts : gnames (graph_of ts) = map t_name ts.
Proof. unfold gnames, graph_of. rewrite map_map. reflexivity. Qed.

(* without the CRD's lower bound the mathematical total is NOT guaranteed:
   the int32 total of two negative replica counts wraps to a positive number *)
Lemma create_minavail_needs_crd_bound :
  exists O qs j, validate_create O qs j = true /\
                 sumZ (map t_replicas (j_tasks j)) < j_minavail j.
Proof.
  exists (mkOracles (fun _ _ => true) (fun _ _ _ => true) (fun _ => true) (fun _ => true)).
  exists [mkQueue 2 1 1 false].
  exists (mkJob 7 [mkTask 4 (-2147483648) None (mkTmpl 1 false 0) [] 0 None None;
                   mkTask 5 (-1) None (mkTmpl 1 false 0) [] 0 None None]
                5 [] [] None 2 0 0 0 0 0 false).
  vm_compute. split; reflexivity.
Qed.

(* ---------- terminating queues (deletionTimestamp set, object still listed) ---------- *)
(* "leaf" means: no queue OBJECT names it as parent.  cs_queue quantifies over every
   element of the table, terminating ones included; concretely a child that is only
   terminating still makes its parent a non-leaf ... *)
Definition tq_oracles := mkOracles (fun _ _ => true) (fun _ _ _ => true) (fun _ => true) (fun _ => true).
Definition tq_job (q : Z) : job :=
  mkJob 7 [mkTask 4 1 (Some 1) (mkTmpl 1 false 0) [] 3 None None] 1 [] [] None q 1 3 0 0 0 false.
Lemma create_terminating_child_still_blocks :
  validate_create tq_oracles [mkQueue 1 1 0 false; mkQueue 4 1 1 false; mkQueue 5 1 4 true] (tq_job 4) = false /\
  validate_create tq_oracles [mkQueue 1 1 0 false; mkQueue 4 1 1 false] (tq_job 4) = true.
Proof. vm_compute. split; reflexivity. Qed.
(* ... and the webhook does admit a job into a queue that is itself terminating, as long
   as its state is Open and it has no children (the object exists, is open, is a leaf) *)
Lemma create_admits_terminating_target :
  exists qs q, In q qs /\ q_term q = true /\ validate_create tq_oracles qs (tq_job (q_name q)) = true.
Proof.
  exists [mkQueue 1 1 0 false; mkQueue 4 1 1 true], (mkQueue 4 1 1 true).
  split; [simpl; auto|]. split; [reflexivity|]. vm_compute. reflexivity.
Qed.
