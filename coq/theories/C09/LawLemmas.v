(* What the executable laws MEAN: law ... = true implies the property clause as a
   Prop (the same Prop records the admission theorems conclude), and for the leaf
   checkers the converse, so that the failing-input search and the theorems speak
   about the same predicates. *)
From Coq Require Import ZArith List Bool Lia Permutation Relations.
From V Require Import C09.Model C09.Laws C09.TopoLemmas C09.Lemmas C09.Lemmas2.
Import ListNotations.
Open Scope Z_scope.

Ltac bsplit H :=
  repeat match type of H with
         | (_ && _ = true) => let H2 := fresh "B" in apply andb_true_iff in H; destruct H as [H H2]
         end.

Lemma nodupb_NoDup l : nodupb l = true <-> NoDup l.
Proof.
  induction l as [|a l IH]; simpl.
  - split; [constructor|reflexivity].
  - rewrite andb_true_iff, negb_true_iff, IH, memb_false. split.
    + intros [A B]. now constructor.
    + intros H. inversion H; subst. auto.
Qed.

(* ---------- policies: the boolean checker is exactly policies_wf ---------- *)
Lemma pol_shape_ok_iff p : pol_shape_ok p = true <-> policy_wf p.
Proof.
  unfold pol_shape_ok. destruct (has_event p) eqn:HE.
  - split.
    + intros H. bsplit H. apply negb_true_iff in H. rewrite forallb_forall in B0.
      constructor.
      * intros _. destruct (p_exit p); [discriminate|reflexivity].
      * left. exact HE.
      * intros _. split; auto.
    + intros [A B C]. rewrite (A HE). destruct (C HE) as [C1 C2]. simpl.
      rewrite C2, andb_true_r. apply forallb_forall. exact C1.
  - split.
    + intros H. destruct (p_exit p) as [c|] eqn:E; [|discriminate]. apply negb_true_iff in H.
      apply Z.eqb_neq in H. constructor.
      * intros C. congruence.
      * right. eauto.
      * intros C. congruence.
    + intros [A [B|(c & E & N)] C]; [congruence|]. rewrite E. apply negb_true_iff. now apply Z.eqb_neq.
Qed.

Lemma pol_disjoint_iff ps : pol_disjoint ps = true <-> disjoint_pols ps.
Proof.
  induction ps as [|p r IH]; simpl; [tauto|].
  rewrite andb_true_iff, IH, forallb_forall. split.
  - intros [A B]. split; auto. intros q e Hq He Hc. specialize (A q Hq). rewrite forallb_forall in A.
    specialize (A e He). apply negb_true_iff in A. apply memb_false in A. contradiction.
  - intros [A B]. split; auto. intros q Hq. apply forallb_forall. intros e He.
    apply negb_true_iff. apply memb_false. eapply A; eauto.
Qed.

Theorem policies_wf_b_iff ps : policies_wf_b ps = true <-> policies_wf ps.
Proof.
  unfold policies_wf_b. split.
  - intros H. bsplit H. rewrite forallb_forall in H. constructor.
    + apply Forall_forall. intros p Hp. apply pol_shape_ok_iff. auto.
    + now apply pol_disjoint_iff.
    + now apply nodupb_NoDup.
    + intros p q e Hp Hany Hq He.
      assert (I1 : In EV_ANY (flat_map pol_events ps)) by (apply in_flat_map; eauto).
      assert (I2 : In e (flat_map pol_events ps)) by (apply in_flat_map; eauto).
      apply memb_In in I1. rewrite I1 in B. simpl in B. rewrite forallb_forall in B.
      specialize (B e I2). apply Z.eqb_eq in B. auto.
  - intros [A B C D]. rewrite Forall_forall in A.
    repeat (apply andb_true_iff; split).
    + apply forallb_forall. intros p Hp. apply pol_shape_ok_iff. auto.
    + now apply pol_disjoint_iff.
    + now apply nodupb_NoDup.
    + destruct (memb EV_ANY (flat_map pol_events ps)) eqn:M; [|reflexivity]. simpl.
      apply memb_In in M. apply in_flat_map in M. destruct M as (p & Hp & Hany).
      apply forallb_forall. intros e He. apply in_flat_map in He. destruct He as (q & Hq & He).
      apply Z.eqb_eq. symmetry. exact (D p q e Hp Hany Hq He).
Qed.

(* ---------- volumes ---------- *)
Lemma vol_shape_ok_iff O v : vol_shape_ok O v = true <-> volume_wf O v.
Proof.
  unfold vol_shape_ok, volume_wf. rewrite andb_true_iff, negb_true_iff, Z.eqb_neq.
  destruct (v_claim v) as [c|].
  - rewrite Z.eqb_eq. split.
    + intros [A B]. split; auto. left. eauto.
    + intros [A [(c' & _ & B)|(B & _)]]; [auto|discriminate].
  - rewrite andb_true_iff, negb_true_iff, Z.eqb_neq. split.
    + intros [A [B C]]. split; auto.
    + intros [A [(c' & B & _)|(_ & B & C)]]; [discriminate|auto].
Qed.
Lemma vol_shape_weak_iff O v : vol_shape_weak O v = true <-> volume_wf_weak O v.
Proof.
  unfold vol_shape_weak, volume_wf_weak. rewrite andb_true_iff, negb_true_iff, Z.eqb_neq.
  destruct (v_claim v) as [c|].
  - split; [intros [A _]; split; auto; intros C; discriminate|intros [A _]; auto].
  - rewrite andb_true_iff, negb_true_iff, Z.eqb_neq. split.
    + intros [A [B C]]. split; auto.
    + intros [A B]. destruct (B eq_refl). auto.
Qed.
Theorem volumes_wf_b_strong_iff O vs : volumes_wf_b O true vs = true <-> volumes_wf O vs.
Proof.
  unfold volumes_wf_b, volumes_wf. rewrite andb_true_iff, nodupb_NoDup, forallb_forall, Forall_forall.
  split; intros [A B]; split; auto; intros v Hv; apply vol_shape_ok_iff; auto.
Qed.
Theorem volumes_wf_b_weak_iff O vs : volumes_wf_b O false vs = true <->
  Forall (volume_wf_weak O) vs /\ NoDup (map v_mount vs).
Proof.
  unfold volumes_wf_b. rewrite andb_true_iff, nodupb_NoDup, forallb_forall, Forall_forall.
  split; intros [A B]; split; auto; intros v Hv; apply vol_shape_weak_iff; auto.
Qed.

(* ---------- queue: exists, Open, not root, no queue object names it as parent ---------- *)
Theorem queue_wf_b_iff qs qn : queue_wf_b qs qn = true <-> queue_wf qs qn.
Proof.
  unfold queue_wf_b, queue_wf. split.
  - intros H. bsplit H. apply existsb_exists in H. destruct H as (q & Hq & E).
    apply andb_true_iff in E. destruct E as [E1 E2]. apply Z.eqb_eq in E1. apply Z.eqb_eq in E2.
    apply negb_true_iff in B0. apply Z.eqb_neq in B0. rewrite forallb_forall in B.
    exists q. repeat split; auto. intros c Hc. specialize (B c Hc). apply negb_true_iff in B.
    now apply Z.eqb_neq.
  - intros (q & Hq & E1 & E2 & N & C). repeat (apply andb_true_iff; split).
    + apply existsb_exists. exists q. split; auto. apply andb_true_iff. split; now apply Z.eqb_eq.
    + apply negb_true_iff. now apply Z.eqb_neq.
    + apply forallb_forall. intros c Hc. apply negb_true_iff. apply Z.eqb_neq. auto.
Qed.

(* ---------- tasks ---------- *)
Lemma part_wf_b_sound t : part_wf_b t = true -> part_wf t.
Proof.
  unfold part_wf_b, part_wf. intros H p E. rewrite E in H. bsplit H.
  apply Z.ltb_lt in H. apply Z.ltb_lt in B2. apply Z.eqb_eq in B1. apply negb_true_iff in B.
  apply Z.eqb_neq in B. repeat split; auto.
  intros m Em Hm. rewrite Em in B0. apply Z.ltb_lt in Hm. rewrite Hm in B0. simpl in B0. now apply Z.eqb_eq.
Qed.

Lemma task_wf_b_sound O jn i t : task_wf_b O jn (i, t) = true -> task_wf O jn i t.
Proof.
  unfold task_wf_b. cbn [fst snd]. intros H. bsplit H. constructor; auto.
  - intros m Em. rewrite Em in H. now apply Z.leb_le.
  - now apply policies_wf_b_iff.
  - now apply part_wf_b_sound.
Qed.

Lemma indexed_nth {A} : forall (l : list A) i k x, nth_error l k = Some x -> In ((i + k)%nat, x) (indexed i l).
Proof.
  induction l as [|a l IH]; intros i k x H; destruct k; simpl in *; try discriminate.
  - inversion H; subst. left. f_equal. lia.
  - right. replace (i + S k)%nat with (S i + k)%nat by lia. auto.
Qed.

(* ---------- dependency graph: the peeling check yields a topological order ---------- *)
Lemma partition_facts {A} (f : A -> bool) : forall l a b, partition f l = (a, b) ->
  (forall x, In x a -> f x = true /\ In x l) /\ (forall x, In x b -> In x l) /\ Permutation l (a ++ b).
Proof.
  induction l as [|x l IH]; intros a b H; simpl in H.
  - inversion H; subst. split; [intros x []|split; [intros x []|constructor]].
  - destruct (partition f l) as [a0 b0]. destruct (IH _ _ eq_refl) as (I1 & I2 & I3).
    destruct (f x) eqn:F; inversion H; subst; (split; [|split]).
    + intros y [<-|Hy]; [split; simpl; auto|]. destruct (I1 _ Hy). simpl. auto.
    + intros y Hy. simpl. auto.
    + simpl. constructor. exact I3.
    + intros y Hy. destruct (I1 _ Hy). simpl. auto.
    + intros y [<-|Hy]; simpl; auto.
    + rewrite <- Permutation_middle. constructor. exact I3.
Qed.

Section Peel.
Variable G : graph.
Hypothesis NDG : NoDup (gnames G).

Lemma resp_ready : forall r done,
  (forall nd, In nd r -> In nd G /\ incl (snd nd) done) -> resp G done -> resp G (map fst r ++ done).
Proof.
  induction r as [|[n ds] r IH]; intros done H R; simpl; auto.
  split.
  - intros ds' Hd. destruct (H (n, ds) (or_introl eq_refl)) as [H1 H2]. simpl in H2.
    rewrite (node_unique G NDG _ _ _ Hd H1). intros x Hx. apply in_or_app. right. auto.
  - apply IH; auto. intros nd Hnd. apply H. right. exact Hnd.
Qed.

Lemma peel_sound : forall n g' done,
  incl g' G -> resp G done -> Permutation (gnames G) (gnames g' ++ done) ->
  peel n g' done = true -> exists rs, resp G rs /\ Permutation (gnames G) rs.
Proof.
  induction n as [|n IH]; intros g' done I R P H; simpl in H.
  - destruct g'; [|discriminate]. exists done. auto.
  - destruct g' as [|x g'']; [exists done; auto|].
    destruct (partition (ready done) (x :: g'')) as [r w] eqn:E.
    destruct (partition_facts _ _ _ _ E) as (F1 & F2 & F3).
    destruct r as [|y r']; [discriminate|].
    apply IH in H; auto.
    + intros z Hz. apply I. apply F2. exact Hz.
    + apply resp_ready; auto. intros nd Hnd. destruct (F1 _ Hnd) as [Rd Hin]. split; [apply I; exact Hin|].
      unfold ready in Rd. rewrite forallb_forall in Rd. intros d Hd. apply memb_In. auto.
    + rewrite P. unfold gnames at 1. rewrite (Permutation_map fst F3), map_app. fold (gnames w).
      rewrite (app_assoc (gnames w)). apply Permutation_app_tail. apply Permutation_app_comm.
Qed.
End Peel.

Theorem deps_ok_b_sound g : NoDup (gnames g) -> deps_ok_b g = true -> exists order, topo_order g order.
Proof.
  intros ND H. unfold deps_ok_b in H.
  destruct (peel_sound g ND (length g) g [] (fun x Hx => Hx) I) as (rs & R & P); auto.
  { rewrite app_nil_r. reflexivity. }
  exists (rev rs). split; auto. split.
  - rewrite P. symmetry. apply Permutation_rev.
  - intros n ds d Hn Hd.
    assert (Hin : In n rs).
    { eapply Permutation_in; [exact P|]. apply in_map_iff. exists (n, ds). auto. }
    destruct (resp_before g rs R _ _ _ Hn Hin Hd) as [H1 H2]. split; auto.
    eapply Permutation_in; [symmetry; exact P|exact H1].
Qed.

(* ---------- the clauses of the property that concern the job object alone ---------- *)
Record intrinsic_clauses (O : oracles) (strong : bool) (j : job) : Prop := {
  ic_tasks : j_tasks j <> [];
  ic_names : NoDup (map t_name (j_tasks j));
  ic_task : forall k t, nth_error (j_tasks j) k = Some t -> task_wf O (j_name j) k t;
  ic_minavail : (forall t, In t (j_tasks j) -> 0 <= t_replicas t) ->
                j_minavail j <= sumZ (map t_replicas (j_tasks j));
  ic_deps : has_deps (j_tasks j) -> exists order, topo_order (graph_of (j_tasks j)) order;
  ic_policies : policies_wf (j_policies j);
  ic_volumes : if strong then volumes_wf O (j_volumes j)
               else Forall (volume_wf_weak O) (j_volumes j) /\ NoDup (map v_mount (j_volumes j));
  ic_plugins : forall p, In p (plugins_of j) -> plugin_known (pl_name p) = true;
  ic_mpi : forall p, mpi_plugin j = Some p ->
           exists t, In t (j_tasks j) /\ t_name t = mpi_master_name p;
  ic_nt : j_nt j <> NT_CONFLICT;
  ic_jobname : o_job O (j_name j) = true }.

Theorem holds_intrinsic_sound O strong j :
  holds_intrinsic O strong j = true -> intrinsic_clauses O strong j.
Proof.
  unfold holds_intrinsic. intros H. bsplit H.
  apply negb_true_iff in H. apply nodupb_NoDup in B8. rewrite forallb_forall in B7.
  constructor; auto.
  - intros C. rewrite C in H. discriminate.
  - intros k t Hk. apply task_wf_b_sound. apply B7. apply (indexed_nth _ 0%nat k t Hk).
  - intros Hr. destruct (forallb _ (j_tasks j)) eqn:F in B6.
    + simpl in B6. now apply Z.leb_le.
    + exfalso. rewrite <- not_true_iff_false in F. apply F. apply forallb_forall.
      intros t Ht. apply Z.leb_le. auto.
  - intros (t & Ht & Hd).
    assert (E : existsb (fun t => is_some (t_deps t)) (j_tasks j) = true).
    { apply existsb_exists. exists t. split; auto. destruct (t_deps t); [reflexivity|congruence]. }
    rewrite E in B5. simpl in B5. apply deps_ok_b_sound; auto. now rewrite gnames_graph_of.
  - now apply policies_wf_b_iff.
  - destruct strong; [now apply volumes_wf_b_strong_iff|now apply volumes_wf_b_weak_iff].
  - intros p Hp. rewrite forallb_forall in B2. auto.
  - intros p Hp. rewrite Hp in B1. apply memb_In in B1. apply in_map_iff in B1.
    destruct B1 as (t & E & Ht). eauto.
  - apply negb_true_iff in B0. now apply Z.eqb_neq.
Qed.

(* law 101 means: every clause of the property holds for the accepted object *)
Theorem law_create_sound O qs j :
  law_create O qs j true = true -> intrinsic_clauses O true j /\ queue_wf qs (j_queue j).
Proof.
  unfold law_create, holds_create. simpl. intros H. apply andb_true_iff in H. destruct H as [H1 H2].
  split; [now apply holds_intrinsic_sound|now apply queue_wf_b_iff].
Qed.

(* ... and these are the clauses the admission theorem proves for the model *)
Theorem create_spec_clauses O qs j :
  create_spec O qs j -> intrinsic_clauses O true j /\ queue_wf qs (j_queue j).
Proof. intros C. destruct C. split; auto. constructor; auto. Qed.

(* law 106 / the persistence theorems *)
Theorem law_persist_sound O j : law_persist O j = true -> intrinsic_clauses O false j.
Proof. apply holds_intrinsic_sound. Qed.
Theorem job_inv_clauses O j : job_inv O j -> intrinsic_clauses O false j.
Proof.
  intros C. destruct C. constructor; auto.
  intros Hr. eapply Z.le_trans; [exact ji_minavail32|]. apply sum32_le_sumZ.
  intros x Hx. apply in_map_iff in Hx. destruct Hx as (t & <- & Ht). auto.
Qed.

(* ---------- law 104 means update_spec ---------- *)
Lemma task_update_ok_sound o n : task_update_ok o n = true ->
  same_immutable o n /\ 0 <= t_replicas n /\
  (forall m, t_minavail n = Some m -> 0 <= m <= t_replicas n) /\ part_wf n.
Proof.
  unfold task_update_ok. intros H. bsplit H. unfold sb in H.
  destruct (task_eq_dec _ n) as [E|]; [|discriminate]. apply Z.leb_le in B1.
  split; [|split; [auto|split; [|now apply part_wf_b_sound]]].
  - unfold same_immutable. rewrite <- E. simpl. tauto.
  - intros m Em. rewrite Em in B0. apply andb_true_iff in B0. destruct B0 as [X Y].
    apply Z.leb_le in X. apply Z.leb_le in Y. lia.
Qed.
Lemma tasks_update_ok_sound : forall os ns, tasks_update_ok os ns = true ->
  Forall2 same_immutable os ns /\
  forall t, In t ns -> 0 <= t_replicas t /\ (forall m, t_minavail t = Some m -> 0 <= m <= t_replicas t) /\ part_wf t.
Proof.
  induction os as [|o r IH]; intros [|n nr] H; simpl in H; try discriminate.
  - split; [constructor|intros t []].
  - apply andb_true_iff in H. destruct H as [H1 H2]. apply task_update_ok_sound in H1.
    destruct H1 as (S & R). destruct (IH _ H2) as [F A]. split; [constructor; auto|].
    intros t [<-|Ht]; auto.
Qed.
Lemma vols_update_ok_sound : forall os ns, vols_update_ok os ns = true -> map norm_vol ns = map norm_vol os.
Proof.
  induction os as [|o r IH]; intros [|n nr] H; simpl in H; try discriminate; [reflexivity|].
  apply andb_true_iff in H. destruct H as [H1 H2]. simpl. rewrite (IH _ H2). f_equal.
  unfold vol_update_ok in H1. apply andb_true_iff in H1. destruct H1 as [M C]. apply Z.eqb_eq in M.
  destruct o as [mo co [ao|]], n as [mn cn [an|]]; simpl in *; try discriminate; apply Z.eqb_eq in C; subst; reflexivity.
Qed.

Theorem law_update_sound old new : law_update old new true = true -> update_spec old new.
Proof.
  unfold law_update. simpl. intros H. bsplit H.
  apply tasks_update_ok_sound in H. destruct H as [F R]. apply vols_update_ok_sound in B9.
  unfold sb in B8. destruct (list_eq_dec policy_eq_dec _ _) as [EP|]; [|discriminate].
  apply Z.eqb_eq in B6, B5, B4, B3, B2. apply Z.leb_le in B1, B0. apply negb_true_iff in B. apply Z.eqb_neq in B.
  constructor; auto.
  unfold plugins_same, sb in B7. destruct (list_eq_dec plugin_eq_dec _ _) as [E|]; [|discriminate].
  unfold plugins_view. destruct (j_plugins old) as [[|a l]|], (j_plugins new) as [[|b l']|]; simpl in E; congruence.
Qed.

(* ---------- law 105 means topo_order for the order the real topoSort returned ---------- *)
Lemma before_all_spec g : forall order seen, before_all order seen g = true ->
  forall l1 n l2, order = l1 ++ n :: l2 -> forall ds d, In (n, ds) g -> In d ds -> In d seen \/ In d l1.
Proof.
  induction order as [|a r IH]; intros seen H l1 n l2 E ds d Hn Hd.
  - destruct l1; discriminate.
  - simpl in H. apply andb_true_iff in H. destruct H as [H1 H2]. destruct l1 as [|b l1]; simpl in E.
    + inversion E; subst. rewrite forallb_forall in H1. specialize (H1 _ Hn). simpl in H1.
      rewrite Z.eqb_refl in H1. simpl in H1. rewrite forallb_forall in H1. left. apply memb_In. auto.
    + inversion E; subst. destruct (IH _ H2 _ _ _ eq_refl _ _ Hn Hd) as [[<-|X]|X]; simpl; auto.
Qed.

Theorem law_topo_sound g order : law_topo g true order = true -> topo_order g order.
Proof.
  unfold law_topo. intros H. bsplit H.
  apply nodupb_NoDup in H. apply nodupb_NoDup in B0. apply Nat.eqb_eq in B3. rewrite forallb_forall in B2.
  assert (Incl : incl order (gnames g)) by (intros x Hx; apply memb_In; auto).
  assert (P : Permutation order (gnames g)).
  { apply NoDup_Permutation_bis; auto. unfold gnames. rewrite map_length. lia. }
  split; auto. split; auto.
  intros n ds d Hn Hd.
  assert (Hin : In n order).
  { eapply Permutation_in; [symmetry; exact P|]. apply in_map_iff. exists (n, ds). auto. }
  apply in_split in Hin. destruct Hin as (l1 & l2 & E).
  destruct (before_all_spec g _ _ B1 _ _ _ E _ _ Hn Hd) as [[]|X].
  split; [|exists l1, l2; auto]. apply Incl. rewrite E. apply in_or_app. auto.
Qed.

(* ---------- law 102: defaulting on the real webhook ---------- *)
Lemma tasks_defaulted_sound : forall ts ms i, tasks_defaulted i ts ms = true ->
  length ms = length ts /\
  forall m, In m ms -> t_name m <> 0 /\ t_minavail m <> None /\ t_maxretry m <> 0.
Proof.
  induction ts as [|t r IH]; intros [|m mr] i H; simpl in H; try discriminate.
  - split; [reflexivity|intros m []].
  - apply andb_true_iff in H. destruct H as [H1 H2]. destruct (IH _ _ H2) as [L A].
    split; [simpl; congruence|]. intros x [<-|Hx]; auto.
    unfold task_defaulted in H1. bsplit H1. repeat split.
    + destruct (t_name t =? 0) eqn:E.
      * apply Z.eqb_eq in H1. rewrite H1. unfold default_name. lia.
      * apply Z.eqb_eq in H1. apply Z.eqb_neq in E. congruence.
    + unfold opt_filled in B6. destruct (t_minavail t), (t_minavail m); try discriminate; congruence.
    + destruct (t_maxretry t =? 0) eqn:E.
      * apply negb_true_iff in B2. now apply Z.eqb_neq.
      * apply Z.eqb_eq in B2. apply Z.eqb_neq in E. congruence.
Qed.

(* j = request, m1 = object after the real patch, m2 = after a second pass: the second
   pass changes nothing, every defaultable field is set, set fields were kept *)
Theorem law_mutate_sound j m1 m2 : law_mutate j m1 m2 = true ->
  m2 = m1 /\ length (j_tasks m1) = length (j_tasks j) /\
  (forall t, In t (j_tasks m1) -> t_name t <> 0 /\ t_minavail t <> None /\ t_maxretry t <> 0) /\
  j_queue m1 <> 0 /\ j_maxretry m1 <> 0 /\
  (j_queue j <> 0 -> j_queue m1 = j_queue j) /\ (j_minavail j <> 0 -> j_minavail m1 = j_minavail j) /\
  (j_maxretry j <> 0 -> j_maxretry m1 = j_maxretry j) /\ (j_sched j <> 0 -> j_sched m1 = j_sched j) /\
  j_policies m1 = j_policies j /\ j_volumes m1 = j_volumes j /\ j_prio m1 = j_prio j /\ j_name m1 = j_name j.
Proof.
  unfold law_mutate. intros H. bsplit H. unfold sb in H, B7, B6.
  destruct (job_eq_dec m1 m2) as [E|]; [|discriminate].
  destruct (list_eq_dec policy_eq_dec (j_policies m1) (j_policies j)) as [EP|]; [|discriminate].
  destruct (list_eq_dec volume_eq_dec (j_volumes m1) (j_volumes j)) as [EV|]; [|discriminate].
  destruct (tasks_defaulted_sound _ _ _ B12) as [L A].
  apply Z.eqb_eq in B2. apply Z.eqb_eq in B.
  assert (Q1 : j_queue m1 <> 0 /\ (j_queue j <> 0 -> j_queue m1 = j_queue j)).
  { destruct (j_queue j =? 0) eqn:Q.
    - apply negb_true_iff in B11. apply Z.eqb_neq in B11. split; auto. intros N. apply Z.eqb_eq in Q. contradiction.
    - apply Z.eqb_eq in B11. apply Z.eqb_neq in Q. split; [congruence|auto]. }
  assert (Q2 : j_maxretry m1 <> 0 /\ (j_maxretry j <> 0 -> j_maxretry m1 = j_maxretry j)).
  { destruct (j_maxretry j =? 0) eqn:Q.
    - apply negb_true_iff in B9. apply Z.eqb_neq in B9. split; auto. intros N. apply Z.eqb_eq in Q. contradiction.
    - apply Z.eqb_eq in B9. apply Z.eqb_neq in Q. split; [congruence|auto]. }
  assert (Q3 : j_minavail j <> 0 -> j_minavail m1 = j_minavail j).
  { intros N. apply Z.eqb_neq in N. rewrite N in B8. now apply Z.eqb_eq. }
  assert (Q4 : j_sched j <> 0 -> j_sched m1 = j_sched j).
  { intros N. apply Z.eqb_neq in N. rewrite N in B10. now apply Z.eqb_eq. }
  destruct Q1 as [Q1a Q1b], Q2 as [Q2a Q2b].
  repeat match goal with |- _ /\ _ => split end; auto.
Qed.

(* law 103 *)
Theorem law_default_valid_sound j v0 v1 :
  law_default_valid j v0 v1 = true -> v0 = true -> request_in_range j = true -> v1 = true.
Proof. unfold law_default_valid. intros H -> R. rewrite R in H. exact H. Qed.

(* ---------- law 107 and the finding it isolates ---------- *)
Definition claimname_step_ok (O : oracles) (o n : volume) : Prop :=
  forall a b, v_claim o = Some a -> v_claim n = Some b ->
    v_cname n = v_cname o \/ (v_cname o = 0 /\ o_pv O (v_cname n) = true).

Lemma vols_fill_ok_sound O : forall os ns, length os = length ns -> vols_fill_ok O os ns = true ->
  Forall2 (claimname_step_ok O) os ns.
Proof.
  induction os as [|o r IH]; intros [|n nr] L H; simpl in *; try discriminate; constructor.
  - apply andb_true_iff in H. destruct H as [H _]. unfold vol_fill_ok in H. intros a b Ea Eb.
    rewrite Ea, Eb in H. apply orb_true_iff in H. destruct H as [H|H].
    + left. now apply Z.eqb_eq.
    + right. apply andb_true_iff in H. destruct H as [H1 H2]. apply Z.eqb_eq in H1. auto.
  - apply andb_true_iff in H. destruct H as [_ H]. apply IH; auto.
Qed.

Theorem law_update_claimname_sound O old new :
  law_update_claimname O old new true = true -> length (j_volumes old) = length (j_volumes new) ->
  Forall2 (claimname_step_ok O) (j_volumes old) (j_volumes new).
Proof. unfold law_update_claimname. simpl. intros H L. now apply vols_fill_ok_sound. Qed.

(* The webhook does NOT guarantee it (validateJobUpdate blanks the claim name of every volume
   with an inline claim on both sides before comparing and never runs validateIO): an admitted
   CREATE followed by an admitted UPDATE stores a claim name that CREATE's validator rejects; the
   update changed a field other than replicas / minAvailable / priority class, the strong volume
   clause fails and law 107 answers false, while update_spec, job_inv and laws 104 / 106 hold. *)
Definition cn_oracles := mkOracles (fun _ _ => true) (fun _ _ _ => true) (fun _ => true) (fun c => negb (c =? 10)).
Definition cn_job (v : volume) : job :=
  mkJob 7 [mkTask 4 1 (Some 1) (mkTmpl 1 false 0) [] 3 None None] 1 [] [v] None 2 1 3 0 0 0 false.
Theorem update_only_three_fields_refuted :
  exists O qs old new,
    validate_create O qs old = true /\ validate_update old new = true /\ j_name new = j_name old /\
    j_volumes new <> j_volumes old /\
    (exists v, In v (j_volumes new) /\ v_cname v <> 0 /\ o_pv O (v_cname v) = false) /\
    validate_create O qs new = false /\
    law_update old new true = true /\ law_persist O new = true /\
    law_update_claimname O old new true = false.
Proof.
  exists cn_oracles, [mkQueue 2 1 1 false], (cn_job (mkVol 1 0 (Some 1))), (cn_job (mkVol 1 10 (Some 1))).
  repeat match goal with |- _ /\ _ => split end; try (vm_compute; reflexivity).
  - vm_compute. discriminate.
  - exists (mkVol 1 10 (Some 1)). split; [simpl; auto|]. split; [simpl; discriminate|reflexivity].
Qed.
