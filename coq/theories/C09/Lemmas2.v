(* Proofs about defaulting (mutate) and UPDATE admission. *)
From Coq Require Import ZArith List Bool Lia Permutation.
From V Require Import C09.Model C09.Laws C09.TopoLemmas C09.Lemmas.
Import ListNotations.
Open Scope Z_scope.

Arguments default_name : simpl never.

(* ================= defaulting is idempotent ================= *)
Lemma default_name_nonzero i : (default_name i =? 0) = false.
Proof. unfold default_name. apply Z.eqb_neq. lia. Qed.

Lemma mutate_task_idem i t : mutate_task i (mutate_task i t) = mutate_task i t.
Proof.
  destruct t as [n r m [tid hn dns] ps mr dp pp]. unfold mutate_task. cbn.
  f_equal.
  - destruct (n =? 0) eqn:E; [now rewrite default_name_nonzero|now rewrite E].
  - destruct m as [m|]; [reflexivity|]. destruct pp as [p|]; [|reflexivity].
    destruct (0 <? pp_min p); reflexivity.
  - destruct hn; cbn; [|reflexivity]. destruct (dns =? 0) eqn:E; cbn; [reflexivity|now rewrite E].
  - destruct (mr =? 0) eqn:E; [reflexivity|now rewrite E].
Qed.

Lemma mutate_tasks_idem : forall ts i, mutate_tasks i (mutate_tasks i ts) = mutate_tasks i ts.
Proof. induction ts as [|t r IH]; intros i; simpl; [reflexivity|]. now rewrite mutate_task_idem, IH. Qed.

Lemma has_add n m l : has_plugin n (add_plugin m l) = (n =? m) || has_plugin n l.
Proof.
  unfold add_plugin. destruct (has_plugin m l) eqn:E.
  - destruct (n =? m) eqn:E2; [|reflexivity]. apply Z.eqb_eq in E2. subst. now rewrite E.
  - unfold has_plugin. rewrite existsb_app. simpl. rewrite orb_false_r.
    rewrite Z.eqb_sym. apply orb_comm.
Qed.
Lemma add_present n l : has_plugin n l = true -> add_plugin n l = l.
Proof. unfold add_plugin. now intros ->. Qed.

Definition Tb (l : list plugin) : bool :=
  has_plugin PL_TF l || has_plugin PL_MPI l || has_plugin PL_PYTORCH l || has_plugin PL_RAY l.
Lemma mutate_plugins_eq l : mutate_plugins l =
  let l1 := if Tb l then add_plugin PL_SVC l else l in
  if has_plugin PL_MPI l then add_plugin PL_SSH l1 else l1.
Proof. reflexivity. Qed.

Lemma has_mutate n l : has_plugin n (mutate_plugins l) =
  has_plugin n l || (Tb l && (n =? PL_SVC)) || (has_plugin PL_MPI l && (n =? PL_SSH)).
Proof.
  rewrite mutate_plugins_eq. cbv zeta.
  destruct (Tb l), (has_plugin PL_MPI l); rewrite ?has_add;
    destruct (has_plugin n l), (n =? PL_SVC), (n =? PL_SSH); reflexivity.
Qed.

Lemma mutate_plugins_idem l : mutate_plugins (mutate_plugins l) = mutate_plugins l.
Proof.
  rewrite (mutate_plugins_eq (mutate_plugins l)). cbv zeta.
  assert (ET : Tb (mutate_plugins l) = Tb l).
  { unfold Tb. rewrite !has_mutate. cbn [Z.eqb PL_TF PL_MPI PL_PYTORCH PL_RAY PL_SVC PL_SSH Pos.eqb].
    rewrite !andb_false_r, !orb_false_r. reflexivity. }
  assert (EM : has_plugin PL_MPI (mutate_plugins l) = has_plugin PL_MPI l).
  { rewrite has_mutate. cbn [Z.eqb PL_MPI PL_SVC PL_SSH Pos.eqb].
    rewrite !andb_false_r, !orb_false_r. reflexivity. }
  rewrite ET, EM.
  destruct (Tb l) eqn:T, (has_plugin PL_MPI l) eqn:M.
  - rewrite (add_present PL_SVC) by (rewrite has_mutate, T; cbn; now rewrite orb_true_r).
    apply add_present. rewrite has_mutate, M. cbn. now rewrite !orb_true_r.
  - apply add_present. rewrite has_mutate, T. cbn. now rewrite orb_true_r.
  - apply add_present. rewrite has_mutate, M. cbn. now rewrite !orb_true_r.
  - reflexivity.
Qed.

Theorem default_idempotent : forall d j, mutate d (mutate d j) = mutate d j.
Proof.
  intros d j. unfold mutate. cbn [j_name j_tasks j_minavail j_policies j_volumes j_plugins j_queue j_sched j_maxretry j_prio j_nt j_rest j_term].
  rewrite mutate_tasks_idem. f_equal.
  - destruct (j_minavail j =? 0) eqn:E.
    + destruct (sum32 _ =? 0) eqn:E2; [reflexivity|reflexivity].
    + now rewrite E.
  - destruct (j_plugins j) as [l|]; [|reflexivity]. now rewrite mutate_plugins_idem.
  - destruct (j_queue j =? 0) eqn:E; [reflexivity|now rewrite E].
  - destruct (j_sched j =? 0) eqn:E; [|now rewrite E]. destruct (d =? 0) eqn:E2; [|reflexivity].
    apply Z.eqb_eq in E2. auto.
  - destruct (j_maxretry j =? 0) eqn:E; [reflexivity|now rewrite E].
Qed.

(* ================= UPDATE ================= *)
(* everything in a task except replicas and minAvailable *)
Definition same_immutable (o n : task) : Prop :=
  t_name n = t_name o /\ t_tmpl n = t_tmpl o /\ t_policies n = t_policies o /\
  t_maxretry n = t_maxretry o /\ t_deps n = t_deps o /\ t_part n = t_part o.

Definition plugins_view (j : job) : option (list plugin) :=
  match j_plugins j with Some [] => None | x => x end.

Record update_spec (old new : job) : Prop := {
  us_tasks : Forall2 same_immutable (j_tasks old) (j_tasks new);
  us_policies : j_policies new = j_policies old;
  us_volumes : map norm_vol (j_volumes new) = map norm_vol (j_volumes old);
  us_plugins : plugins_view new = plugins_view old;
  us_queue : j_queue new = j_queue old;
  us_sched : j_sched new = j_sched old;
  us_maxretry : j_maxretry new = j_maxretry old;
  us_nt : j_nt new = j_nt old /\ j_nt new <> NT_CONFLICT;
  us_rest : j_rest new = j_rest old;
  (* the replica invariants hold for the new values, lower bounds included *)
  us_replicas : forall t, In t (j_tasks new) ->
      0 <= t_replicas t /\ (forall m, t_minavail t = Some m -> 0 <= m <= t_replicas t) /\ part_wf t;
  us_minavail : 0 <= j_minavail new <= sumZ (map t_replicas (j_tasks new)) }.

Lemma norm_tasks_eq : forall olds news,
  length olds = length news -> norm_tasks olds news = olds -> Forall2 same_immutable olds news.
Proof.
  induction olds as [|o r IH]; intros [|n nr] L H; simpl in *; try discriminate; [constructor|].
  injection L as L. injection H as H1 H2. constructor; auto.
  destruct o; simpl in *. inversion H1; subst. unfold same_immutable. simpl. tauto.
Qed.

Theorem update_only_allowed_fields : forall old new,
  validate_update old new = true -> update_spec old new.
Proof.
  intros old new H. unfold validate_update in H.
  repeat (apply andb_true_iff in H; let H' := fresh "U" in destruct H as [H H']).
  destruct (job_eq_dec _ _) as [E|]; [|discriminate]. clear U.
  apply Nat.eqb_eq in U0. apply negb_true_iff in U1, U3. apply Z.eqb_neq in U1.
  apply Z.leb_le in U2. apply Z.ltb_ge in U3. rewrite forallb_forall in H.
  unfold spec_view, normalize_new, normalize_old in E. cbn in E.
  injection E; intros.
  assert (R : forall t, In t (j_tasks new) ->
      0 <= t_replicas t /\ (forall m, t_minavail t = Some m -> 0 <= m <= t_replicas t) /\ part_wf t).
  { intros t Ht. apply H in Ht. unfold update_task_ok in Ht.
    apply andb_true_iff in Ht. destruct Ht as [Ht P]. apply andb_true_iff in Ht. destruct Ht as [A B].
    apply Z.leb_le in A. split; auto. split; [|now apply partition_ok_sound].
    intros m Em. rewrite Em in B. apply andb_true_iff in B. destruct B as [B1 B2].
    apply Z.leb_le in B1. apply Z.leb_le in B2. lia. }
  constructor; auto; try congruence.
  - apply norm_tasks_eq; auto.
  - split; auto. eapply Z.le_trans; [exact U3|]. apply sum32_le_sumZ.
    intros x Hx. apply in_map_iff in Hx. destruct Hx as (t & <- & Ht). destruct (R t Ht) as [X _]. exact X.
Qed.

(* ---------- the job-intrinsic invariant and its persistence ---------- *)
Definition volume_wf_weak (O : oracles) (v : volume) : Prop :=
  v_mount v <> 0 /\ (v_claim v = None -> v_cname v <> 0 /\ o_pv O (v_cname v) = true).

Record job_inv (O : oracles) (j : job) : Prop := {
  ji_tasks : j_tasks j <> [];
  ji_names : NoDup (map t_name (j_tasks j));
  ji_task : forall k t, nth_error (j_tasks j) k = Some t -> task_wf O (j_name j) k t;
  ji_minavail32 : j_minavail j <= sum32 (map t_replicas (j_tasks j));
  ji_deps : has_deps (j_tasks j) -> exists order, topo_order (graph_of (j_tasks j)) order;
  ji_policies : policies_wf (j_policies j);
  ji_volumes : Forall (volume_wf_weak O) (j_volumes j) /\ NoDup (map v_mount (j_volumes j));
  ji_plugins : forall p, In p (plugins_of j) -> plugin_known (pl_name p) = true;
  ji_mpi : forall p, mpi_plugin j = Some p ->
           exists t, In t (j_tasks j) /\ t_name t = mpi_master_name p;
  ji_nt : j_nt j <> NT_CONFLICT;
  ji_jobname : o_job O (j_name j) = true }.

Lemma create_spec_inv O qs j : create_spec O qs j -> job_inv O j.
Proof.
  intros C. destruct C. constructor; auto.
  destruct cs_volumes as [V1 V2]. split; auto.
  eapply Forall_impl; [|exact V1]. intros v [M [(c & E1 & E2)|(E1 & E2 & E3)]]; split; auto.
  intros C. congruence.
Qed.

Lemma Forall2_nth {A B} (R : A -> B -> Prop) : forall l l', Forall2 R l l' ->
  forall k b, nth_error l' k = Some b -> exists a, nth_error l k = Some a /\ R a b.
Proof.
  induction 1 as [|a b l l' H F IH]; intros k x Hk; destruct k; simpl in *; try discriminate.
  - inversion Hk; subst. eauto.
  - eauto.
Qed.
Lemma Forall2_names : forall l l', Forall2 same_immutable l l' ->
  map t_name l' = map t_name l /\ graph_of l' = graph_of l /\ length l' = length l.
Proof.
  induction 1 as [|a b l l' H F IH]; simpl; auto.
  destruct IH as (I1 & I2 & I3). destruct H as (H1 & _ & _ & _ & H5 & _).
  unfold deps_of. rewrite H1, H5, I1, I2, I3. auto.
Qed.
Lemma Forall2_In_r {A B} (R : A -> B -> Prop) : forall l l', Forall2 R l l' ->
  forall b, In b l' -> exists a, In a l /\ R a b.
Proof.
  induction 1 as [|a b l l' H F IH]; simpl; intros x Hx; [tauto|].
  destruct Hx as [<-|Hx]; eauto. destruct (IH _ Hx) as (y & ? & ?). eauto.
Qed.
Lemma Forall2_In_l {A B} (R : A -> B -> Prop) : forall l l', Forall2 R l l' ->
  forall a, In a l -> exists b, In b l' /\ R a b.
Proof.
  induction 1 as [|a b l l' H F IH]; simpl; intros x Hx; [tauto|].
  destruct Hx as [<-|Hx]; eauto. destruct (IH _ Hx) as (y & ? & ?). eauto.
Qed.

Lemma plugins_view_of j : plugins_of j = match plugins_view j with Some l => l | None => [] end.
Proof. unfold plugins_of, plugins_view. destruct (j_plugins j) as [[|]|]; reflexivity. Qed.
Lemma mpi_plugin_view j : mpi_plugin j =
  match plugins_view j with Some l => find (fun p => pl_name p =? PL_MPI) l | None => None end.
Proof. unfold mpi_plugin, plugins_view. destruct (j_plugins j) as [[|]|]; reflexivity. Qed.

Lemma norm_vol_facts v w : norm_vol v = norm_vol w ->
  v_mount v = v_mount w /\ v_claim v = v_claim w /\ (v_claim v = None -> v_cname v = v_cname w).
Proof.
  unfold norm_vol. destruct v as [m1 n1 [c1|]], w as [m2 n2 [c2|]]; simpl; intros E; inversion E; subst;
    repeat split; auto; discriminate.
Qed.

(* metadata.name is immutable at the API server; the webhook never sees it change *)
Theorem update_preserves_inv : forall O old new,
  j_name new = j_name old -> job_inv O old -> validate_update old new = true -> job_inv O new.
Proof.
  intros O old new EN I H. pose proof H as H0.
  unfold validate_update in H0.
  repeat (apply andb_true_iff in H0; let H' := fresh "U" in destruct H0 as [H0 H']).
  apply negb_true_iff in U3. apply Z.ltb_ge in U3. clear U U0 U1 U2 H0.
  apply update_only_allowed_fields in H. destruct H. destruct I.
  destruct (Forall2_names _ _ us_tasks0) as (N1 & N2 & N3).
  constructor.
  - intros C. rewrite C in N3. destruct (j_tasks old); [auto|discriminate].
  - now rewrite N1.
  - intros k t Hk. destruct (Forall2_nth _ _ _ us_tasks0 _ _ Hk) as (o & Ho & (S1 & S2 & S3 & _ & _ & _)).
    destruct (ji_task0 _ _ Ho). destruct (us_replicas0 t (nth_error_In _ _ Hk)) as (R1 & R2 & R3).
    constructor; rewrite ?EN, ?S1, ?S2, ?S3; auto. intros m Em. apply R2 in Em. lia.
  - exact U3.
  - intros (t & Ht & Hd). rewrite N2. apply ji_deps0.
    destruct (Forall2_In_r _ _ _ us_tasks0 _ Ht) as (o & Ho & (_ & _ & _ & _ & S5 & _)).
    exists o. split; auto. congruence.
  - now rewrite us_policies0.
  - destruct ji_volumes0 as [V1 V2]. split.
    + clear V2. revert V1 us_volumes0. generalize (j_volumes old). induction (j_volumes new) as [|v r IH];
        intros [|w wr] V1 E; simpl in E; try discriminate; constructor.
      * injection E as E1 E2. inversion V1; subst. apply norm_vol_facts in E1.
        destruct E1 as (A & B & C). destruct H1 as [M K]. split; [congruence|].
        intros Hn. rewrite C by auto. apply K. congruence.
      * injection E as E1 E2. inversion V1; subst. eapply IH; eauto.
    + assert (E : map v_mount (j_volumes new) = map v_mount (j_volumes old)).
      { clear - us_volumes0. revert us_volumes0. generalize (j_volumes old).
        induction (j_volumes new) as [|v r IH]; intros [|w wr] E; simpl in *; try discriminate; auto.
        injection E as E1 E2. apply norm_vol_facts in E1. destruct E1 as (A & _). rewrite A. f_equal. auto. }
      now rewrite E.
  - intros p. rewrite plugins_view_of, us_plugins0, <- plugins_view_of. auto.
  - intros p. rewrite mpi_plugin_view, us_plugins0, <- mpi_plugin_view. intros Hp.
    destruct (ji_mpi0 _ Hp) as (o & Ho & E).
    destruct (Forall2_In_l _ _ _ us_tasks0 _ Ho) as (t & Ht & (S1 & _)). exists t. split; auto. congruence.
  - apply us_nt0.
  - now rewrite EN.
Qed.

(* all histories of UPDATE requests: the stored object keeps the invariant *)
Theorem updates_preserve_inv : forall O us cur,
  Forall (fun u => j_name u = j_name cur) us -> job_inv O cur -> job_inv O (apply_updates cur us).
Proof.
  induction us as [|u r IH]; intros cur F I; simpl; auto.
  inversion F; subst. destruct (validate_update cur u) eqn:V.
  - apply IH.
    + eapply Forall_impl; [|exact H2]. intros a Ha. simpl in Ha. congruence.
    + eapply update_preserves_inv; eauto.
  - apply IH; auto.
Qed.

Corollary admitted_job_stays_well_formed : forall O qs j us,
  validate_create O qs j = true -> Forall (fun u => j_name u = j_name j) us ->
  job_inv O (apply_updates j us).
Proof.
  intros. apply updates_preserve_inv; auto. eapply create_spec_inv. apply admit_create_sound; eauto.
Qed.

(* the strong volume clause of CREATE (claim XOR claim name) does not survive
   updates: a claim name may be added next to a claim (by design: the
   controller fills it in) *)
Lemma update_volume_strong_refuted :
  exists O qs old new, validate_create O qs old = true /\ validate_update old new = true /\
    j_name new = j_name old /\ ~ volumes_wf O (j_volumes new).
Proof.
  set (t := mkTask 4 1 (Some 1) (mkTmpl 1 false 0) [] 3 None None).
  exists (mkOracles (fun _ _ => true) (fun _ _ _ => true) (fun _ => true) (fun _ => true)).
  exists [mkQueue 2 1 1 false].
  exists (mkJob 7 [t] 1 [] [mkVol 1 0 (Some 1)] None 2 1 3 0 0 0 false).
  exists (mkJob 7 [t] 1 [] [mkVol 1 5 (Some 1)] None 2 1 3 0 0 0 true).
  split; [vm_compute; reflexivity|]. split; [vm_compute; reflexivity|]. split; [reflexivity|].
  intros [V _]. inversion V; subst. destruct H1 as [_ [(c & _ & E)|(E & _)]]; simpl in E; discriminate.
Qed.

(* ================= defaulting and validity ================= *)
(* the request with only the fields filled in that validation itself needs
   (task names, queue): "valid modulo defaults" = prefill j is admitted *)
Fixpoint prefill_tasks (i : nat) (ts : list task) : list task :=
  match ts with
  | [] => []
  | t :: r => mkTask (if t_name t =? 0 then default_name i else t_name t) (t_replicas t) (t_minavail t)
                     (t_tmpl t) (t_policies t) (t_maxretry t) (t_deps t) (t_part t)
              :: prefill_tasks (S i) r
  end.
Definition prefill (j : job) : job :=
  mkJob (j_name j) (prefill_tasks 0 (j_tasks j)) (j_minavail j) (j_policies j) (j_volumes j)
        (j_plugins j) (if j_queue j =? 0 then Q_DEFAULT else j_queue j) (j_sched j) (j_maxretry j)
        (j_prio j) (j_nt j) (j_rest j) (j_term j).

(* The unconditional statement "prefill j admitted -> mutate j admitted" is
   refuted: with minAvailable left unset and minPartitions > totalPartitions the
   defaulted minAvailable (minPartitions*partitionSize) exceeds replicas, which
   validation only notices after defaulting. *)
Lemma default_validity_needs_range_refuted :
  exists O qs d j, validate_create O qs (prefill j) = true /\
                   validate_create O qs (mutate d j) = false.
Proof.
  exists (mkOracles (fun _ _ => true) (fun _ _ _ => true) (fun _ => true) (fun _ => true)).
  exists [mkQueue 2 1 1 false]. exists 1.
  exists (mkJob 7 [mkTask 4 4 None (mkTmpl 1 false 0) [] 0 None (Some (mkPart 2 2 3 0))]
                0 [] [] None 0 0 0 0 0 0 false).
  vm_compute. split; reflexivity.
Qed.

Lemma tl_bad_mono O jn : forall ts i st, tl_bad st = true -> tl_bad (task_loop O jn i ts st) = true.
Proof.
  induction ts as [|t r IH]; intros i st H; simpl; auto.
  destruct (memb (t_name t) (tl_seen st)); [reflexivity|]. apply IH. simpl. now rewrite H.
Qed.

Lemma partition_ok_mutate i t : partition_ok t = true -> partition_ok (mutate_task i t) = true.
Proof.
  unfold partition_ok, mutate_task. cbn [t_part]. destruct (t_part t) as [p|]; auto.
  intros H. apply andb_true_iff in H. destruct H as [H1 H2]. apply andb_true_iff. split; auto.
  unfold part_arith_ok in *. cbn [t_replicas t_minavail].
  destruct (pp_total p <=? 0); auto. destruct (pp_size p <=? 0); auto.
  destruct (negb (t_replicas t =? wrap32 (pp_total p * pp_size p))); auto.
  destruct (t_minavail t) as [m|]; auto.
  destruct (0 <? pp_min p) eqn:E; [|reflexivity].
  now rewrite Z.eqb_refl.
Qed.

Lemma loop_transfer O jn : forall ts i st,
  (forall t, In t (mutate_tasks i ts) -> task_min t <= t_replicas t) ->
  tl_bad (task_loop O jn i (prefill_tasks i ts) st) = false ->
  task_loop O jn i (mutate_tasks i ts) st = task_loop O jn i (prefill_tasks i ts) st.
Proof.
  induction ts as [|t r IH]; intros i st G H; [reflexivity|].
  cbn [prefill_tasks mutate_tasks] in *.
  remember (mkTask (if t_name t =? 0 then default_name i else t_name t) (t_replicas t) (t_minavail t)
                    (t_tmpl t) (t_policies t) (t_maxretry t) (t_deps t) (t_part t)) as tp eqn:Etp.
  remember (mutate_task i t) as tm eqn:Etm.
  assert (EN : t_name tm = t_name tp) by (subst; reflexivity).
  assert (ER : t_replicas tm = t_replicas tp) by (subst; reflexivity).
  assert (ED : t_deps tm = t_deps tp) by (subst; reflexivity).
  assert (EP : t_policies tm = t_policies tp) by (subst; reflexivity).
  assert (EI : tm_id (t_tmpl tm) = tm_id (t_tmpl tp)).
  { subst. unfold mutate_task. cbn [t_tmpl].
    destruct (tm_hostnet (t_tmpl t) && (tm_dns (t_tmpl t) =? 0)); reflexivity. }
  assert (EPa : partition_ok tp = true -> partition_ok tm = true).
  { subst. intros X. apply partition_ok_mutate. exact X. }
  cbn [task_loop] in *. rewrite EN, ER, ED.
  destruct (memb (t_name tp) (tl_seen st)) eqn:MS; [cbn in H; discriminate|].
  match type of H with tl_bad (task_loop _ _ _ _ ?s) = false =>
    destruct (tl_bad s) eqn:B; [rewrite tl_bad_mono in H by exact B; discriminate|] end.
  cbn [tl_bad] in B. apply orb_false_iff in B. destruct B as [B Bb]. apply orb_false_iff in B.
  destruct B as [B0 Bm]. apply negb_false_iff in Bb, Bm.
  assert (Mm : minavail_le_replicas tm = true).
  { pose proof (G tm (or_introl eq_refl)) as Gm. unfold minavail_le_replicas, task_min in *.
    destruct (t_minavail tm); [now apply Z.leb_le|reflexivity]. }
  assert (Mb : task_body_ok O jn i tm = true).
  { unfold task_body_ok in *. rewrite EN, EP, EI.
    apply andb_true_iff in Bb. destruct Bb as [Bb P4]. apply andb_true_iff in Bb. destruct Bb as [Bb P3].
    apply andb_true_iff in Bb. destruct Bb as [P1 P2].
    rewrite P1, P2, P3. cbn [andb]. auto. }
  rewrite B0, Bm, Bb, Mm, Mb. cbn [negb orb].
  rewrite B0, Bm, Bb in H. cbn [negb orb] in H.
  apply IH; auto. intros x Hx. apply G. right. exact Hx.
Qed.

Lemma names_mutate_prefill : forall ts i,
  map t_name (mutate_tasks i ts) = map t_name (prefill_tasks i ts) /\
  graph_of (mutate_tasks i ts) = graph_of (prefill_tasks i ts) /\
  map t_replicas (mutate_tasks i ts) = map t_replicas (prefill_tasks i ts).
Proof.
  induction ts as [|t r IH]; intros i; simpl; auto.
  destruct (IH (S i)) as (A & B & C). rewrite A, B, C. auto.
Qed.

Lemma existsb_names x (l l' : list task) : map t_name l = map t_name l' ->
  existsb (fun t => t_name t =? x) l = existsb (fun t => t_name t =? x) l'.
Proof.
  revert l'. induction l as [|a l IH]; intros [|b l'] H; simpl in *; try discriminate; auto.
  injection H as H1 H2. rewrite H1. f_equal. auto.
Qed.

Lemma find_add n l : (n =? PL_MPI) = false ->
  find (fun p => pl_name p =? PL_MPI) (add_plugin n l) = find (fun p => pl_name p =? PL_MPI) l.
Proof.
  intros Hn. unfold add_plugin. destruct (has_plugin n l); auto.
  induction l as [|a l IH]; simpl; [now rewrite Hn|]. destruct (pl_name a =? PL_MPI); auto.
Qed.
Lemma find_mutate l : find (fun p => pl_name p =? PL_MPI) (mutate_plugins l) = find (fun p => pl_name p =? PL_MPI) l.
Proof.
  rewrite mutate_plugins_eq. cbv zeta.
  destruct (has_plugin PL_MPI l), (Tb l); rewrite ?find_add; auto.
Qed.
Lemma known_add n l : plugin_known n = true ->
  forallb (fun p => plugin_known (pl_name p)) l = true ->
  forallb (fun p => plugin_known (pl_name p)) (add_plugin n l) = true.
Proof.
  intros Hn H. unfold add_plugin. destruct (has_plugin n l); auto.
  rewrite forallb_app, H. simpl. now rewrite Hn.
Qed.
Lemma known_mutate l : forallb (fun p => plugin_known (pl_name p)) l = true ->
  forallb (fun p => plugin_known (pl_name p)) (mutate_plugins l) = true.
Proof.
  intros H. rewrite mutate_plugins_eq. cbv zeta.
  destruct (has_plugin PL_MPI l), (Tb l); repeat apply known_add; auto.
Qed.

Lemma sumZ_map_le {A} (f g : A -> Z) l : (forall x, In x l -> f x <= g x) -> sumZ (map f l) <= sumZ (map g l).
Proof.
  induction l as [|a l IH]; simpl; intros H; [lia|].
  assert (f a <= g a) by auto. assert (sumZ (map f l) <= sumZ (map g l)) by auto. lia.
Qed.

(* defaulting produces an object that passes validation whenever the request
   was valid modulo defaults and the defaulted numbers are in range
   (per-task minAvailable within [0, replicas], int32 total) *)
Theorem default_preserves_validity : forall O qs d j,
  validate_create O qs (prefill j) = true ->
  defaults_in_range (mutate d j) = true ->
  validate_create O qs (mutate d j) = true.
Proof.
  intros O qs d j V G.
  unfold defaults_in_range in G. apply andb_true_iff in G. destruct G as [G1 G2].
  rewrite forallb_forall in G1. apply Z.leb_le in G2.
  change (j_tasks (mutate d j)) with (mutate_tasks 0 (j_tasks j)) in G1, G2.
  destruct (names_mutate_prefill (j_tasks j) 0) as (N1 & N2 & N3).
  unfold validate_create in V.
  destruct (is_nil (j_tasks (prefill j))) eqn:NILp; [discriminate|].
  destruct (mpi_ok (prefill j)) eqn:MPIp; [|discriminate]. cbn [negb] in V.
  set (stp := task_loop O (j_name (prefill j)) 0 (j_tasks (prefill j)) (mkTl false 0 false [])) in *.
  repeat (apply andb_true_iff in V; let H' := fresh "C" in destruct V as [V H']).
  assert (BAD : tl_bad stp = false) by (now apply negb_true_iff in C6).
  assert (LT : task_loop O (j_name (mutate d j)) 0 (j_tasks (mutate d j)) (mkTl false 0 false []) = stp).
  { unfold stp.
    change (task_loop O (j_name j) 0 (mutate_tasks 0 (j_tasks j)) (mkTl false 0 false []) =
            task_loop O (j_name j) 0 (prefill_tasks 0 (j_tasks j)) (mkTl false 0 false [])).
    apply loop_transfer.
    - intros t Ht. apply G1 in Ht. apply andb_true_iff in Ht. destruct Ht as [_ Ht]. now apply Z.leb_le.
    - exact BAD. }
  assert (NIL : is_nil (j_tasks (mutate d j)) = false).
  { change (is_nil (mutate_tasks 0 (j_tasks j)) = false).
    change (is_nil (prefill_tasks 0 (j_tasks j)) = false) in NILp.
    destruct (j_tasks j); [discriminate NILp|reflexivity]. }
  assert (MPI : mpi_ok (mutate d j) = true).
  { rewrite <- MPIp. unfold mpi_ok, mpi_plugin.
    change (j_plugins (mutate d j)) with (match j_plugins j with Some l => Some (mutate_plugins l) | None => None end).
    change (j_plugins (prefill j)) with (j_plugins j).
    change (j_tasks (mutate d j)) with (mutate_tasks 0 (j_tasks j)).
    change (j_tasks (prefill j)) with (prefill_tasks 0 (j_tasks j)).
    destruct (j_plugins j) as [l|]; [|reflexivity]. rewrite find_mutate.
    destruct (find _ l); [|reflexivity]. apply existsb_names. exact N1. }
  assert (PL : forallb (fun p => plugin_known (pl_name p)) (plugins_of (mutate d j)) = true).
  { unfold plugins_of in *.
    change (j_plugins (mutate d j)) with (match j_plugins j with Some l => Some (mutate_plugins l) | None => None end).
    change (j_plugins (prefill j)) with (j_plugins j) in C2.
    destruct (j_plugins j) as [l|]; auto. now apply known_mutate. }
  unfold validate_create. rewrite NIL, MPI. cbn [negb]. rewrite LT.
  repeat (apply andb_true_iff; split).
  - exact V.
  - exact C6.
  - exact C5.
  - change (j_minavail (mutate d j)) with
      (if j_minavail j =? 0 then sum32 (map task_min (mutate_tasks 0 (j_tasks j))) else j_minavail j).
    change (j_minavail (prefill j)) with (j_minavail j) in C4.
    destruct (j_minavail j =? 0) eqn:E0; [|exact C4].
    apply negb_true_iff. apply Z.ltb_ge.
    destruct (task_loop_spec O (j_name (prefill j)) _ 0 (mkTl false 0 false []) BAD) as (_ & _ & _ & _ & T5 & _).
    fold stp in T5. cbn [tl_total] in T5. rewrite T5.
    change (j_tasks (prefill j)) with (prefill_tasks 0 (j_tasks j)).
    fold (sum32 (map t_replicas (prefill_tasks 0 (j_tasks j)))).
    rewrite <- N3.
    set (M := mutate_tasks 0 (j_tasks j)) in *.
    assert (R0 : forall x, In x (map t_replicas M) -> 0 <= x).
    { intros x Hx. apply in_map_iff in Hx. destruct Hx as (t & <- & Ht). apply G1 in Ht.
      apply andb_true_iff in Ht. destruct Ht as [A B]. apply Z.leb_le in A. apply Z.leb_le in B. lia. }
    assert (M0 : forall x, In x (map task_min M) -> 0 <= x).
    { intros x Hx. apply in_map_iff in Hx. destruct Hx as (t & <- & Ht). apply G1 in Ht.
      apply andb_true_iff in Ht. destruct Ht as [A _]. now apply Z.leb_le. }
    assert (LE : sumZ (map task_min M) <= sumZ (map t_replicas M)).
    { apply sumZ_map_le. intros t Ht. apply G1 in Ht. apply andb_true_iff in Ht. destruct Ht as [_ B].
      now apply Z.leb_le. }
    rewrite (sum32_exact (map t_replicas M)) by auto.
    rewrite (sum32_exact (map task_min M)) by (auto; lia). exact LE.
  - exact C3.
  - exact PL.
  - exact C1.
  - exact C0.
  - change (j_tasks (mutate d j)) with (mutate_tasks 0 (j_tasks j)). rewrite N2. exact C.
Qed.

(* ---------- the range condition stated on the request (audit W1) ---------- *)
Lemma In_le_sumZ l : (forall x, In x l -> 0 <= x) -> forall x, In x l -> x <= sumZ l.
Proof.
  induction l as [|a l IH]; simpl; intros H x Hx; [tauto|].
  assert (0 <= a) by auto. assert (0 <= sumZ l) by (apply sumZ_nonneg; auto).
  destruct Hx as [<-|Hx]; [lia|]. assert (x <= sumZ l) by (apply IH; auto). lia.
Qed.

Lemma replicas_mutate : forall ts i, map t_replicas (mutate_tasks i ts) = map t_replicas ts.
Proof. induction ts as [|t r IH]; intros i; simpl; [reflexivity|]. now rewrite IH. Qed.

Lemma In_mutate_tasks : forall ts i t', In t' (mutate_tasks i ts) -> exists k t, In t ts /\ t' = mutate_task k t.
Proof.
  induction ts as [|t r IH]; intros i t' H; simpl in H; [tauto|].
  destruct H as [<-|H]; [exists i, t; simpl; auto|].
  destruct (IH _ _ H) as (k & t0 & H1 & H2). exists k, t0. simpl. auto.
Qed.

Lemma prefill_minavail_facts (P : option Z -> Z -> Prop) : forall ts i,
  (forall k t', nth_error (prefill_tasks i ts) k = Some t' -> P (t_minavail t') (t_replicas t')) ->
  forall t, In t ts -> P (t_minavail t) (t_replicas t).
Proof.
  induction ts as [|t r IH]; intros i H x Hx; simpl in *; [tauto|].
  destruct Hx as [<-|Hx].
  - apply (H O _ eq_refl).
  - apply (IH (S i)); auto. intros k t' Hk. apply (H (S k) t' Hk).
Qed.

Lemma mutate_task_in_range k t :
  task_in_range t = true -> t_replicas t <= max32 ->
  (forall m, t_minavail t = Some m -> m <= t_replicas t) ->
  0 <= task_min (mutate_task k t) <= t_replicas (mutate_task k t).
Proof.
  unfold task_in_range, task_min, mutate_task. cbn [t_minavail t_replicas].
  intros H Hmax Hle. apply andb_true_iff in H. destruct H as [H0 H1]. apply Z.leb_le in H0.
  destruct (t_minavail t) as [m|].
  - apply Z.leb_le in H1. specialize (Hle m eq_refl). lia.
  - destruct (t_part t) as [p|]; [|lia].
    destruct (0 <? pp_min p); [|lia].
    apply andb_true_iff in H1. destruct H1 as [A B]. apply Z.leb_le in A. apply Z.leb_le in B.
    rewrite wrap32_id by (unfold min32, max32 in *; lia). lia.
Qed.

Lemma request_range_defaults O qs d j :
  validate_create O qs (prefill j) = true -> request_in_range j = true ->
  defaults_in_range (mutate d j) = true.
Proof.
  intros V R. unfold request_in_range in R. apply andb_true_iff in R. destruct R as [R1 R2].
  rewrite forallb_forall in R1. apply Z.leb_le in R2.
  unfold defaults_in_range. change (j_tasks (mutate d j)) with (mutate_tasks 0 (j_tasks j)).
  rewrite replicas_mutate. apply andb_true_iff. split; [|now apply Z.leb_le].
  assert (NN : forall x, In x (map t_replicas (j_tasks j)) -> 0 <= x).
  { intros x Hx. apply in_map_iff in Hx. destruct Hx as (t & <- & Ht). apply R1 in Ht.
    unfold task_in_range in Ht. apply andb_true_iff in Ht. destruct Ht as [A _]. now apply Z.leb_le. }
  assert (LE : forall t, In t (j_tasks j) -> forall m, t_minavail t = Some m -> m <= t_replicas t).
  { apply admit_create_sound in V. destruct V.
    apply (prefill_minavail_facts (fun o r => forall m, o = Some m -> m <= r) (j_tasks j) 0).
    intros k t' Hk. change (j_tasks (prefill j)) with (prefill_tasks 0 (j_tasks j)) in cs_task.
    destruct (cs_task _ _ Hk). auto. }
  apply forallb_forall. intros t' Ht'. apply In_mutate_tasks in Ht'. destruct Ht' as (k & t & Ht & ->).
  assert (t_replicas t <= max32).
  { eapply Z.le_trans; [|exact R2]. apply In_le_sumZ; auto. apply in_map. auto. }
  destruct (mutate_task_in_range k t (R1 _ Ht) H (LE _ Ht)) as [A B].
  apply andb_true_iff. split; now apply Z.leb_le.
Qed.

(* Defaulting produces an object that passes validation whenever the request is
   valid modulo defaults and its OWN numbers are in range.  No hypothesis mentions
   the defaulted object. *)
Theorem default_preserves_validity_input : forall O qs d j,
  validate_create O qs (prefill j) = true -> request_in_range j = true ->
  validate_create O qs (mutate d j) = true.
Proof.
  intros O qs d j V R. apply default_preserves_validity; auto. eapply request_range_defaults; eauto.
Qed.

(* a three-step history with a refused update in the middle (audit W5) *)
Example history_with_refusal :
  let t r m := mkTask 4 r (Some m) (mkTmpl 1 false 0) [] 3 None None in
  let jb r m ma pr q := mkJob 7 [t r m] ma [] [] None q 1 3 pr 0 0 true in
  let j0 := jb 2 1 1 0 2 in
  let us := [jb 5 3 4 1 2; jb 5 3 4 1 5; jb 3 3 3 2 2] in
  validate_create tq_oracles [mkQueue 1 1 0 false; mkQueue 2 1 1 false] j0 = true /\
  update_verdicts j0 us = [true; false; true] /\
  apply_updates j0 us = jb 3 3 3 2 2 /\
  Forall (fun u => j_name u = j_name j0) us.
Proof. vm_compute. repeat split; try reflexivity. repeat constructor. Qed.

(* ---------- Terminating jobs (metadata.deletionTimestamp set) ----------
   AdmitJobs' Update case decodes both objects and runs validateJobUpdate whatever the
   deletionTimestamp of either object is; the model therefore never reads j_term, and every
   theorem above is quantified over terminating objects as well.  Explicitly: *)
Definition set_term (b : bool) (j : job) : job :=
  mkJob (j_name j) (j_tasks j) (j_minavail j) (j_policies j) (j_volumes j) (j_plugins j) (j_queue j)
        (j_sched j) (j_maxretry j) (j_prio j) (j_nt j) (j_rest j) b.
Lemma validate_update_ignores_term a b old new :
  validate_update (set_term a old) (set_term b new) = validate_update old new.
Proof. reflexivity. Qed.

(* a forbidden change (queue, an added dependsOn cycle, minAvailable above replicas) on a
   Terminating job is refused like on any other job, in every combination of the flag *)
Lemma update_on_terminating_job_still_checked :
  let t n r m d := mkTask n r (Some m) (mkTmpl 1 false 0) [] 3 d None in
  let jb ts ma q tm := mkJob 7 ts ma [] [] None q 1 3 0 0 0 tm in
  let old tm := jb [t 4 2 1 None; t 5 1 1 None] 2 2 tm in
  forall a b,
    validate_update (old a) (jb [t 4 2 1 None; t 5 1 1 None] 2 5 b) = false /\
    validate_update (old a) (jb [t 4 2 1 (Some ([5], 0)); t 5 1 1 (Some ([4], 0))] 2 2 b) = false /\
    validate_update (old a) (jb [t 4 2 3 None; t 5 1 1 None] 2 2 b) = false /\
    validate_update (old a) (jb [t 4 3 2 None; t 5 1 1 None] 3 2 b) = true.
Proof. intros t jb old a b. destruct a, b; vm_compute; repeat split; reflexivity. Qed.
