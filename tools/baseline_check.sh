#!/bin/bash
# Development aid: run the pinned baseline suite (build tag verif OFF) on a scratch worktree of
# /repo's HEAD and compare with BASELINE.json's stable_pass.  Usage: tools/baseline_check.sh
set -u
WT=/tmp/base-wt-$$
OUT=/tmp/base-run-$$.json
git -C /repo worktree add -q --detach $WT HEAD || exit 2
for m in $(cat /w/out/gomods.txt); do
  MF=$(cd $WT/$m && . /w/out/goenv.sh && gomodflag)
  (cd $WT/$m && GOPROXY=off go test $MF -json -vet=off -count=1 -timeout 25m ./...)
done > $OUT 2>/tmp/base-run-$$.err
python3 - $OUT <<'EOF'
import json, sys
st = json.load(open('/root/.vp/BASELINE.json'))['stable_pass']
if isinstance(st, str):
    st = eval(st)
res = {}
for l in open(sys.argv[1]):
    try:
        e = json.loads(l)
    except Exception:
        continue
    if e.get('Test') and e.get('Action') in ('pass', 'fail', 'skip'):
        res[e['Package'] + '::' + e['Test']] = e['Action']
bad = [(t, res.get(t)) for t in st if res.get(t) != 'pass']
print("stable:", len(st), "pass:", len(st) - len(bad), "not passing:", bad[:40])
EOF
git -C /repo rev-parse --short HEAD
git -C /repo worktree remove --force $WT
rm -f $OUT /tmp/base-run-$$.err
