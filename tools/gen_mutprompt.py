#!/usr/bin/env python3
"""gen_mutprompt.py <round> [Cxx ...]  — write /tmp/mutprompts/Cxx-r<round>.txt for the seeding agents.

The prompt contains ONLY the property text (title, statement, scope, anchor file names) from
properties.jsonl and, from round 2 on, the list of Go functions earlier seeds already modified
(read from the hunk headers of seeded/Cxx-*/patch.diff) so that a new agent picks other mechanisms.
Nothing else from /verif is given to the agent."""
import sys, os, json, glob, re
ROOT = os.path.dirname(os.path.dirname(os.path.abspath(__file__)))


def main():
    rnd = int(sys.argv[1])
    ids = sys.argv[2:]
    props = {json.loads(l)["id"]: json.loads(l) for l in open(os.path.join(ROOT, "properties.jsonl"))}
    tmpl = open(os.path.join(ROOT, "docs", "MUTATION_PROMPT.md")).read()
    os.makedirs("/tmp/mutprompts", exist_ok=True)
    for pid in ids or sorted(props):
        p = props[pid]
        text = "%s\n\n%s\n\nScope: %s\n\nRelevant code: %s" % (
            p["title"], p["statement"], p["quantifier"]["text"], ", ".join(p["anchors"]["files"]))
        wt, out = "/tmp/mut%d-%s" % (rnd, pid), "/tmp/mut%d-%s-out" % (rnd, pid)
        s = tmpl.replace("@WT@", wt).replace("@OUT@", out).replace("@ID@", pid).replace("@TEXT@", text)
        if rnd > 1:
            funcs = []
            for pf in sorted(glob.glob(os.path.join(ROOT, "seeded", pid + "-*", "patch.diff"))):
                for line in open(pf):
                    m = re.match(r"@@ .* @@ (func .*)", line)
                    if m and m.group(1) not in funcs:
                        funcs.append(m.group(1))
            s += ("\n\nROUND %d NOTE: earlier changes already exist for this property; pick DIFFERENT mechanisms. "
                  "Do not modify these functions again:\n" % rnd)
            s += "".join("  - %s\n" % f for f in funcs)
            s += ("Prefer parts of the property not yet attacked (look at every clause of the statement and every "
                  "file in 'Relevant code'), and changes that need a fault at a particular point, a particular order "
                  "of events, a crash/restart, a boundary value, or two cooperating sites.\n")
        open("/tmp/mutprompts/%s-r%d.txt" % (pid, rnd), "w").write(s)
        print("/tmp/mutprompts/%s-r%d.txt" % (pid, rnd))


if __name__ == "__main__":
    main()
