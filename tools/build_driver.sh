#!/bin/bash
# build_driver.sh <Cxx>: extract theories/<Cxx>/Extract.v and link the generic
# driver.  Output: /verif/ocaml/build/<Cxx>/driver
set -e
P=$1
B=/verif/ocaml/build/$P
mkdir -p $B
cd $B
timeout 600 coqc -R /verif/coq/theories V /verif/coq/theories/$P/Extract.v > extract.log 2>&1 || { cat extract.log; exit 2; }
cp /verif/ocaml/driver.ml .
timeout 600 ocamlfind ocamlopt -O3 -w -a model.mli model.ml driver.ml -o driver 2>&1 | grep -v "options -O3 is only relevant" || true
test -x driver
