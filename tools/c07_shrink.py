#!/usr/bin/env python3
"""shrink a disagreeing C07 history by deleting operations while model and implementation still disagree"""
import json,sys,subprocess,os,tempfile
ARITY={1:3,2:3,3:2,4:2,5:1,6:1,7:1,8:2,9:2,10:2,11:2,12:2,13:1,14:1,15:1}
def split(inp):
    i=1
    def skip_list(width):
        nonlocal i
        n=inp[i]; i+=1+n*width
    skip_list(6)
    nj=inp[i]; i+=1
    for _ in range(nj):
        i+=3; i+=1+2*inp[i]
    skip_list(10)
    head=inp[:i]; n=inp[i]; i+=1
    ops=[]
    for _ in range(n):
        c=inp[i]
        if c==16:
            j=i+1
            for _ in range(3):
                j+=1+inp[j]
            j+=1
        else:
            j=i+1+ARITY[c]
        ops.append(inp[i:j]); i=j
    return head,ops
def join(head,ops):
    out=list(head)+[len(ops)]
    for o in ops: out+=o
    return out
def disagree(inp):
    with tempfile.TemporaryDirectory() as d:
        rp=os.path.join(d,'r.jsonl'); out=os.path.join(d,'o.jsonl')
        json.dump({"id":"x","sel":1,"in":inp,"got":[]},open(rp,'w'))
        env=dict(os.environ,GOFLAGS='-mod=mod',GOPROXY='off')
        subprocess.run(['/verif/harness/bin/c07','-replay',rp,'-out',out],env=env,capture_output=True)
        cases=[json.loads(l) for l in open(out)]
        c=[c for c in cases if c.get('role')!='law'][0]
        if c.get('panic'): return False,None
        m=subprocess.run(['/verif/ocaml/build/C07/driver'],input='1 '+' '.join(map(str,inp))+'\n',capture_output=True,text=True).stdout.split('\n')[0]
        m=[int(x) for x in m.split()]
        laws=[x for x in cases if x.get('role')=='law']
        return m!=c['got'],(c['got'],m)
r=json.load(open(sys.argv[1]))
c=r.get('case') or r['correspondence']['minimal_disagreeing_case']
inp=c['in'] if c['sel']==1 else c['src_in']
head,ops=split(inp)
ok,_=disagree(join(head,ops))
print('initially disagrees:',ok,'ops',len(ops))
changed=True
while changed:
    changed=False
    for i in range(len(ops)-1,-1,-1):
        t=ops[:i]+ops[i+1:]
        ok,_=disagree(join(head,t))
        if ok:
            ops=t; changed=True
print('minimal ops:',ops)
print('head:',head)
ok,(g,m)=disagree(join(head,ops))
d=next((i for i,(a,b) in enumerate(zip(g,m)) if a!=b),None)
print('diff at',d,'steps before:',sum(1 for x in g[:d] if x==-101))
print('got',g[max(0,d-50):d+12]); print('mod',m[max(0,d-50):d+12])
json.dump({"id":"shrunk","sel":1,"in":join(head,ops),"got":[]},open('/verif/.work/c07-shrunk.json','w'))
