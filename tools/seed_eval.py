#!/usr/bin/env python3
"""seed_eval.py <Cxx> <outdir-of-mutation-agent> [--checks Cxx,Cyy]

For every patch<i>.diff in <outdir>: confirm in a scratch worktree of /repo that
  (1) the patch applies and the touched packages still build and pass their existing tests,
  (2) the agent's demonstration fails with the patch and passes without it,
then run /verif's check(s) against the patched worktree (VERIF_REPO) and record everything in
/verif/seeded/<Cxx>-<i>/ (patch.diff, the demonstration, meta.json).  The worktree is removed.
"""
import sys, os, json, subprocess, shutil, glob, time

ENV = dict(os.environ, GOFLAGS="-mod=mod", GOPROXY="off")
ENV.pop("GOTOOLCHAIN", None)
ENV.pop("GOSUMDB", None)


def sh(cmd, cwd=None, timeout=3000, env=ENV):
    p = subprocess.run(cmd, shell=True, cwd=cwd, env=env, stdout=subprocess.PIPE, stderr=subprocess.STDOUT, text=True, timeout=timeout)
    return p.returncode, p.stdout


def main():
    pid, out = sys.argv[1], sys.argv[2].rstrip("/")
    tag = ""
    if "--tag" in sys.argv:
        tag = sys.argv[sys.argv.index("--tag") + 1] + "-"
    checks = [pid]
    if "--checks" in sys.argv:
        checks = sys.argv[sys.argv.index("--checks") + 1].split(",")
    for patch in sorted(glob.glob(os.path.join(out, "patch*.diff"))):
        i = os.path.basename(patch)[5:-5]
        metaf = os.path.join(out, "meta%s.json" % i)
        meta = json.load(open(metaf)) if os.path.exists(metaf) else {}
        wt = "/tmp/seed-%s-%s" % (pid, i)
        sh("git -C /repo worktree remove --force %s" % wt)
        rc, o = sh("git -C /repo worktree add -q --detach %s HEAD" % wt)
        res = {"property": pid, "patch": os.path.basename(patch), "agent_meta": meta, "confirmed": {}}
        try:
            rc, o = sh("git apply --check %s && git apply %s" % (patch, patch), cwd=wt)
            res["confirmed"]["applies"] = rc == 0
            if rc != 0:
                res["confirmed"]["apply_error"] = o[-500:]
                continue
            rc, files = sh("git diff --name-only", cwd=wt)
            files = [f for f in files.split() if f.endswith(".go")]
            pkgs = sorted({"./" + os.path.dirname(f) + "/..." for f in files})
            res["confirmed"]["files"] = files
            rc, o = sh("go build ./pkg/... ./cmd/... ", cwd=wt, timeout=3000)
            res["confirmed"]["builds"] = rc == 0
            t0 = time.time()
            rc, o = sh("go test -count=1 -vet=off %s 2>&1 | tail -30" % " ".join(pkgs), cwd=wt, timeout=3000)
            res["confirmed"]["existing_tests_cmd"] = "go test -count=1 -vet=off " + " ".join(pkgs)
            res["confirmed"]["existing_tests_pass"] = ("FAIL" not in o)
            res["confirmed"]["existing_tests_tail"] = o[-600:]
            # demonstration
            demo = meta.get("demo", {})
            demofile = os.path.join(out, demo.get("file", "demo%s_test.go" % i))
            place = demo.get("place_in", "")
            runcmd = demo.get("run", "")
            if os.path.exists(demofile) and runcmd:
                dst_dir = os.path.join(wt, place)
                os.makedirs(dst_dir, exist_ok=True)
                dst = os.path.join(dst_dir, os.path.basename(demofile))
                shutil.copy(demofile, dst)
                rc1, o1 = sh(runcmd, cwd=wt, timeout=1800)
                res["confirmed"]["demo_fails_with_patch"] = rc1 != 0
                # never `git stash` here: refs/stash is shared by all worktrees of /repo
                sh("git apply -R %s" % patch, cwd=wt)
                rc2, o2 = sh(runcmd, cwd=wt, timeout=1800)
                res["confirmed"]["demo_passes_without_patch"] = rc2 == 0
                sh("git apply %s" % patch, cwd=wt)
                os.remove(dst)
                res["confirmed"]["demo_tail_with_patch"] = o1[-400:]
            else:
                res["confirmed"]["demo"] = "missing demo file or run command"
            # our checks
            res["checks"] = {}
            for c in checks:
                env = dict(ENV, VERIF_REPO=wt)
                t0 = time.time()
                rc, o = sh("./check %s --skip-proof" % c, cwd="/verif", env=env, timeout=3000)
                line = [l for l in o.splitlines() if l.startswith("VIOLATION")]
                r = {"exit": rc, "wall_s": round(time.time() - t0, 1), "violation_line": line[0] if line else None}
                if line:
                    rp = line[0].split("replay=")[1].split()[0]
                    try:
                        rj = json.load(open(rp))
                        r["replay_kind"] = rj.get("kind")
                        c0 = rj.get("case") or {}
                        r["replay_case"] = {k: c0.get(k) for k in ("id", "sel", "kind", "sig")}
                        sd = os.path.join("/verif/seeded", "%s-%s%s" % (pid, tag, i))
                        os.makedirs(sd, exist_ok=True)
                        shutil.copy(rp, os.path.join(sd, "replay-%s.json" % c))
                    except Exception as e:
                        r["replay_error"] = str(e)
                res["checks"][c] = r
            res["detected"] = any(v["exit"] == 1 for v in res["checks"].values())
        finally:
            sd = os.path.join("/verif/seeded", "%s-%s%s" % (pid, tag, i))
            os.makedirs(sd, exist_ok=True)
            shutil.copy(patch, os.path.join(sd, "patch.diff"))
            for f in glob.glob(os.path.join(out, "demo%s*" % i)):
                shutil.copy(f, sd)
            res["what_it_needs_to_manifest"] = meta.get("needs_to_manifest")
            res["what_breaks"] = meta.get("what_breaks")
            res["ran"] = "tools/seed_eval.py %s %s" % (pid, out)
            json.dump(res, open(os.path.join(sd, "meta.json"), "w"), indent=1)
            sh("git -C /repo worktree remove --force %s" % wt)
            print(pid, i, "confirmed:", {k: v for k, v in res["confirmed"].items() if isinstance(v, bool)},
                  "detected:", res.get("detected"), {c: (v["exit"], v.get("replay_kind")) for c, v in res.get("checks", {}).items()})


if __name__ == "__main__":
    main()
