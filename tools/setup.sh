#!/bin/bash
# setup_cmd: pre-build everything from files on disk (offline): the Coq development (full .vo
# build of every claimed property's closure), every extracted model driver, every Go harness
# against /repo's working tree.  This is only a warm-up: every ./check run rebuilds what it needs
# itself and reports for its own property, so a failure to build ONE property here must not keep
# the other properties' checks from running -- problems are printed and the script goes on.
cd /verif || exit 1
export GOFLAGS=-mod=mod GOPROXY=off
unset GOTOOLCHAIN GOSUMDB
mkdir -p .work evidence replay harness/bin
READY=$(python3 -c "import json; print(' '.join(json.load(open('ready.json'))))")
( cd coq || exit 0
  files=$(find theories -name '*.v' ! -name 'Extract.v' | sort)
  coq_makefile -f _CoqProject -o Makefile $files
  printf '%s' "$(echo "$files" | tr ' ' '\n')" > .filelist
  targets=""
  for id in $READY; do
    targets="$targets $(python3 -c "import json; d=json.load(open('/verif/props/$id.json')); print(d['props_file'][:-2]+'.vo', 'theories/%s/Entry.vo' % d['coq_dir'])")"
  done
  timeout 3000 make -k -j16 $targets > /verif/.work/coq-build.log 2>&1 \
    || { echo "setup: WARNING: part of the Coq development did not build (the affected property's check will report it):"; grep -B2 -A6 "Error" /verif/.work/coq-build.log | tail -40; } )
for id in $READY; do
  p=$(python3 -c "import json,sys; print(json.load(open('props/$id.json'))['coq_dir'])")
  ( tools/build_driver.sh "$p" > .work/driver-$id.log 2>&1 || echo "setup: WARNING: driver for $id did not build" ) &
done
wait
cp /repo/go.sum harness/go.sum 2>/dev/null || true
( cd harness || exit 0
  for id in $READY; do
    h=$(python3 -c "import json,sys; print(json.load(open('../props/$id.json'))['harness'])")
    timeout 3000 go build -tags verif -o bin/$h ./cmd/$h || echo "setup: WARNING: harness $h did not build"
  done )
echo "setup done"
exit 0
