#!/bin/bash
# setup_cmd: build everything from files on disk (offline): Coq development (full .vo
# build), every extracted model driver, every Go harness against /repo's working tree.
set -e
cd /verif
export GOFLAGS=-mod=mod GOPROXY=off
unset GOTOOLCHAIN GOSUMDB
mkdir -p .work evidence replay harness/bin
( cd coq
  files=$(find theories -name '*.v' ! -name 'Extract.v' | sort)
  coq_makefile -f _CoqProject -o Makefile $files
  printf '%s' "$(echo "$files" | tr ' ' '\n')" > .filelist
  targets=""
  for id in $(python3 -c "import json; print(' '.join(json.load(open('/verif/ready.json'))))"); do
    targets="$targets $(python3 -c "import json; print(json.load(open('/verif/props/$id.json'))['props_file'][:-2]+'.vo')")"
  done
  timeout 3000 make -j16 $targets > /verif/.work/coq-build.log 2>&1 || { tail -40 /verif/.work/coq-build.log; exit 1; } )
READY=$(python3 -c "import json; print(' '.join(json.load(open('ready.json'))))")
for id in $READY; do
  p=$(python3 -c "import json,sys; print(json.load(open('props/$id.json'))['coq_dir'])")
  tools/build_driver.sh "$p" &
done
wait
cp /repo/go.sum harness/go.sum 2>/dev/null || true
( cd harness
  for id in $READY; do
    h=$(python3 -c "import json,sys; print(json.load(open('../props/$id.json'))['harness'])")
    timeout 3000 go build -tags verif -o bin/$h ./cmd/$h
  done )
echo "setup done"
