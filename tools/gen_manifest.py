#!/usr/bin/env python3
"""regenerate /verif/MANIFEST.json from props/*.json, hooks.json and not_applicable.json"""
import json, glob, os
ROOT = os.path.dirname(os.path.dirname(os.path.abspath(__file__)))
checks = []
# only properties the coordinator has verified end-to-end are claimed
ready = set(json.load(open(os.path.join(ROOT, "ready.json"))))
for f in sorted(glob.glob(os.path.join(ROOT, "props", "*.json"))):
    c = json.load(open(f))
    pid = c["id"]
    if pid not in ready:
        continue
    checks.append({
        "property_id": pid,
        "quick_cmd": "./check %s --tier quick" % pid,
        "thorough_cmd": "./check %s --tier thorough" % pid,
        "evidence_file": "/verif/evidence/%s.json" % pid,
        "replay_cmd_template": "./check %s --replay {path}" % pid,
        "engine": "coq-proof+correspondence",
        "level_claimed": {"category": "proof", "text": c["level_text"], "design_ref": c.get("design_ref", "DESIGN.md section 6")},
        "level_note": c["level_note"],
        "technique": c["technique"],
    })
hooks = json.load(open(os.path.join(ROOT, "hooks.json")))
na = json.load(open(os.path.join(ROOT, "not_applicable.json")))
claimed = {c["property_id"] for c in checks}
na = [x for x in na if x["property_id"] not in claimed]
m = {
    "version": 1,
    "setup_cmd": "/verif/tools/setup.sh",
    "hooks": hooks,
    "engines": [{
        "name": "coq-proof+correspondence", "path": "/verif/check",
        "serves_properties": sorted(claimed),
        "kind_free_text": "Coq 8.16.1 theorems about hand-written Gallina models (coq/theories), tied to /repo on every run by "
                          "running the extracted OCaml model (ocaml/driver.ml) and the real Go code (harness/cmd/*) on the same "
                          "inputs; extracted executable property checkers evaluated on the implementation's results give the "
                          "concrete replay"}],
    "checks": checks,
    "not_applicable": na,
    "notes": "See DESIGN.md. ./check <Cxx> [--tier quick|thorough] [--replay f]; VERIF_SEED selects the PRNG seed. "
             "Exit 2 = infrastructure failure (e.g. /repo does not compile), no claim made.",
}
json.dump(m, open(os.path.join(ROOT, "MANIFEST.json"), "w"), indent=1)
print("MANIFEST.json: %d checks, %d not_applicable" % (len(checks), len(na)))
