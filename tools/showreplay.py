#!/usr/bin/env python3
import json,sys
r=json.load(open(sys.argv[1]))
print(r['kind'])
c=r.get('case') or (r.get('correspondence') or {}).get('minimal_disagreeing_case')
if not c: print(json.dumps(r)[:3000]); sys.exit()
print(c['id'],'sel',c['sel'],'diff_at',c.get('diff_at'),'field',c.get('field'),'len(in)',len(c['in']),'sig',c.get('sig'))
if c.get('panic'): print(c['panic'][:3000])
print('desc',c.get('desc'))
g=c['got']; m=c.get('model') or []
d=c.get('diff_at') or 0
w=int(sys.argv[2]) if len(sys.argv)>2 else 40
print('in',c['in'] if len(c['in'])<400 else c['in'][:400])
print('got',g[max(0,d-w):d+12]); print('mod',m[max(0,d-w):d+12])
