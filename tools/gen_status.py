#!/usr/bin/env python3
"""Regenerate the generated part of DESIGN.md (between the GENERATED markers): per-property status,
findings, seeded changes and which check catches which.  Sources: props/*.json, evidence/*.json,
known-findings.json, seeded/*/meta.json, ready.json, coq/theories/Props/*.v."""
import json, glob, os, re, subprocess
ROOT = os.path.dirname(os.path.dirname(os.path.abspath(__file__)))
BEGIN = "<!-- GENERATED:BEGIN (tools/gen_status.py) -->"
END = "<!-- GENERATED:END -->"


def load(p, default=None):
    try:
        return json.load(open(p))
    except Exception:
        return default


def main():
    props = {json.loads(l)["id"]: json.loads(l) for l in open(os.path.join(ROOT, "properties.jsonl"))}
    ready = set(load(os.path.join(ROOT, "ready.json"), []))
    out = [BEGIN, "", "## 14. Status per property (generated)", ""]
    out.append("| Prop | Claimed | Property theorems (Props/Cxx.v) | Obligations in closure | Quick tier: evaluations / distinct non-trivial / law cases | Known findings | Notes |")
    out.append("|---|---|---|---|---|---|---|")
    kf = load(os.path.join(ROOT, "known-findings.json"), {"findings": [], "fixed": []})
    for pid in sorted(props):
        cfg = load(os.path.join(ROOT, "props", pid + ".json"), {})
        ev = load(os.path.join(ROOT, "evidence", pid + ".json"), {})
        cov = ev.get("coverage", {})
        pf = os.path.join(ROOT, "coq", "theories", "Props", pid + ".v")
        nthm = 0
        if os.path.exists(pf):
            nthm = len(re.findall(r"^\s*Theorem\s", open(pf).read(), re.M))
        known = [f["sig"] for f in kf["findings"] if f["property"] == pid and f.get("status", "known") == "known"]
        notes = "docs/notes/%s.md" % pid if os.path.exists(os.path.join(ROOT, "docs", "notes", pid + ".md")) else ""
        out.append("| %s | %s | %d | %s | %s / %s / %s | %s | %s |" % (
            pid, "yes" if pid in ready else "no", nthm, cov.get("obligations", "-"),
            cov.get("evaluations", "-"), cov.get("distinct_nontrivial", "-"), cov.get("law_cases", "-"),
            "<br>".join(known) or "-", notes))
    out += ["", "### 14.1 Genuine defects found", "",
            "Repaired in /repo by `fix:` commits (each recorded in known-findings.json `fixed`; a fixed entry suppresses nothing):", ""]
    for f in kf.get("fixed", []):
        out.append("* " + f)
    for f in kf["findings"]:
        if f.get("status") == "fixed":
            out.append("* fixed: property=%s %s — %s" % (f["property"], f["sig"], f.get("what", "")))
    out += ["", "Recorded, not repaired (`KNOWN-FINDING` lines; identified by sig = failing law + the input class that explains it):", ""]
    for f in kf["findings"]:
        if f.get("status", "known") == "known":
            out.append("* **%s** `%s` — %s (%s)" % (f["property"], f["sig"], f.get("what", ""), f.get("anchor", "")))
    out += ["", "### 14.2 Independently seeded changes and which check catches them", "",
            "Each change was written by a fresh agent that saw only the property text and a scratch worktree; "
            "confirmed (applies, builds, existing tests of the touched packages pass, demonstration fails with it "
            "and passes without) and run against the checks by `tools/seed_eval.py`; kept under `seeded/<id>/`.", "",
            "| Seed | Breaks | Needs to manifest | Confirmed | Caught by (exit 1) | Layer |", "|---|---|---|---|---|---|"]
    for mf in sorted(glob.glob(os.path.join(ROOT, "seeded", "*", "meta.json"))):
        m = load(mf, {})
        sid = os.path.basename(os.path.dirname(mf))
        conf = m.get("confirmed", {})
        okc = all(conf.get(k) for k in ("applies", "existing_tests_pass", "demo_fails_with_patch", "demo_passes_without_patch"))
        caught = [c for c, v in m.get("checks", {}).items() if v.get("exit") == 1]
        layer = ", ".join(sorted({(v.get("replay_kind") or "?") for c, v in m.get("checks", {}).items() if v.get("exit") == 1}))
        out.append("| %s | %s | %s | %s | %s | %s |" % (
            sid, (m.get("what_breaks") or "")[:160].replace("|", "/").replace("\n", " "),
            (m.get("what_it_needs_to_manifest") or "")[:140].replace("|", "/").replace("\n", " "),
            "yes" if okc else "partly: " + ",".join(k for k, v in conf.items() if v is False),
            ", ".join(caught) or "**missed**", layer or "-"))
    out += ["", END]
    p = os.path.join(ROOT, "DESIGN.md")
    s = open(p).read()
    if BEGIN in s:
        s = s[:s.index(BEGIN)] + "\n".join(out) + s[s.index(END) + len(END):]
    else:
        s = s.rstrip("\n") + "\n\n---------------------------------------------------------------------------------------------------\n\n" + "\n".join(out) + "\n"
    open(p, "w").write(s)
    print("DESIGN.md status section regenerated")


if __name__ == "__main__":
    main()
