module verif/harness

go 1.26.0

require (
	github.com/prometheus/prometheus v0.311.3
	github.com/robfig/cron/v3 v3.0.1
	github.com/spf13/cobra v1.10.2
	k8s.io/api v0.36.1
	k8s.io/apimachinery v0.36.1
	k8s.io/apiserver v0.36.1
	k8s.io/client-go v0.36.1
	k8s.io/component-base v0.36.1
	k8s.io/component-helpers v0.36.1
	k8s.io/klog/v2 v2.140.0
	k8s.io/kubernetes v1.36.1
	k8s.io/utils v0.0.0-20260210185600-b8788abfbbc2
	sigs.k8s.io/yaml v1.6.0
	volcano.sh/apis v0.0.0
	volcano.sh/volcano v0.0.0
)

require (
	cel.dev/expr v0.25.1 // indirect
	github.com/antlr4-go/antlr/v4 v4.13.0 // indirect
	github.com/beorn7/perks v1.0.1 // indirect
	github.com/blang/semver/v4 v4.0.0 // indirect
	github.com/cespare/xxhash/v2 v2.3.0 // indirect
	github.com/coreos/go-systemd/v22 v22.7.0 // indirect
	github.com/cyphar/filepath-securejoin v0.6.1 // indirect
	github.com/davecgh/go-spew v1.1.2-0.20180830191138-d8f796af33cc // indirect
	github.com/distribution/reference v0.6.0 // indirect
	github.com/elastic/go-elasticsearch/v7 v7.17.10 // indirect
	github.com/emicklei/go-restful/v3 v3.13.0 // indirect
	github.com/fsnotify/fsnotify v1.10.1 // indirect
	github.com/fxamacker/cbor/v2 v2.9.0 // indirect
	github.com/go-logr/logr v1.4.3 // indirect
	github.com/go-logr/stdr v1.2.2 // indirect
	github.com/go-openapi/jsonpointer v0.22.5 // indirect
	github.com/go-openapi/jsonreference v0.21.4 // indirect
	github.com/go-openapi/swag v0.25.5 // indirect
	github.com/go-openapi/swag/cmdutils v0.25.5 // indirect
	github.com/go-openapi/swag/conv v0.25.5 // indirect
	github.com/go-openapi/swag/fileutils v0.25.5 // indirect
	github.com/go-openapi/swag/jsonname v0.25.5 // indirect
	github.com/go-openapi/swag/jsonutils v0.25.5 // indirect
	github.com/go-openapi/swag/loading v0.25.5 // indirect
	github.com/go-openapi/swag/mangling v0.25.5 // indirect
	github.com/go-openapi/swag/netutils v0.25.5 // indirect
	github.com/go-openapi/swag/stringutils v0.25.5 // indirect
	github.com/go-openapi/swag/typeutils v0.25.5 // indirect
	github.com/go-openapi/swag/yamlutils v0.25.5 // indirect
	github.com/godbus/dbus/v5 v5.2.2 // indirect
	github.com/gogo/protobuf v1.3.2 // indirect
	github.com/google/cadvisor v0.56.2 // indirect
	github.com/google/cel-go v0.26.0 // indirect
	github.com/google/gnostic-models v0.7.0 // indirect
	github.com/google/go-cmp v0.7.0 // indirect
	github.com/google/uuid v1.6.0 // indirect
	github.com/grafana/regexp v0.0.0-20250905093917-f7b3be9d1853 // indirect
	github.com/hashicorp/errwrap v1.1.0 // indirect
	github.com/hashicorp/go-multierror v1.1.1 // indirect
	github.com/json-iterator/go v1.1.12 // indirect
	github.com/mitchellh/mapstructure v1.5.0 // indirect
	github.com/moby/sys/mountinfo v0.7.2 // indirect
	github.com/moby/sys/userns v0.1.0 // indirect
	github.com/modern-go/concurrent v0.0.0-20180306012644-bacd9c7ef1dd // indirect
	github.com/modern-go/reflect2 v1.0.3-0.20250322232337-35a7c28c31ee // indirect
	github.com/munnerz/goautoneg v0.0.0-20191010083416-a7dc8b61c822 // indirect
	github.com/opencontainers/cgroups v0.0.8 // indirect
	github.com/opencontainers/go-digest v1.0.0 // indirect
	github.com/pkg/errors v0.9.1 // indirect
	github.com/pmezard/go-difflib v1.0.1-0.20181226105442-5d4384ee4fb2 // indirect
	github.com/prometheus/client_golang v1.23.2 // indirect
	github.com/prometheus/client_model v0.6.2 // indirect
	github.com/prometheus/common v0.70.0 // indirect
	github.com/prometheus/procfs v0.21.0 // indirect
	github.com/sirupsen/logrus v1.9.4 // indirect
	github.com/spf13/pflag v1.0.10 // indirect
	github.com/stoewer/go-strcase v1.3.0 // indirect
	github.com/stretchr/testify v1.11.1 // indirect
	github.com/x448/float16 v0.8.4 // indirect
	go.opentelemetry.io/auto/sdk v1.2.1 // indirect
	go.opentelemetry.io/contrib/instrumentation/google.golang.org/grpc/otelgrpc v0.65.0 // indirect
	go.opentelemetry.io/otel v1.43.0 // indirect
	go.opentelemetry.io/otel/metric v1.43.0 // indirect
	go.opentelemetry.io/otel/trace v1.43.0 // indirect
	go.yaml.in/yaml/v2 v2.4.4 // indirect
	go.yaml.in/yaml/v3 v3.0.4 // indirect
	golang.org/x/crypto v0.55.0 // indirect
	golang.org/x/exp v0.0.0-20260218203240-3dfff04db8fa // indirect
	golang.org/x/net v0.58.0 // indirect
	golang.org/x/oauth2 v0.36.0 // indirect
	golang.org/x/sync v0.22.0 // indirect
	golang.org/x/sys v0.47.0 // indirect
	golang.org/x/term v0.45.0 // indirect
	golang.org/x/text v0.41.0 // indirect
	golang.org/x/time v0.15.0 // indirect
	google.golang.org/genproto/googleapis/api v0.0.0-20260319201613-d00831a3d3e7 // indirect
	google.golang.org/genproto/googleapis/rpc v0.0.0-20260311181403-84a4fc48630c // indirect
	google.golang.org/grpc v1.79.3 // indirect
	google.golang.org/protobuf v1.36.12-0.20260120151049-f2248ac996af // indirect
	gopkg.in/evanphx/json-patch.v4 v4.13.0 // indirect
	gopkg.in/inf.v0 v0.9.1 // indirect
	gopkg.in/yaml.v2 v2.4.0 // indirect
	gopkg.in/yaml.v3 v3.0.1 // indirect
	k8s.io/apiextensions-apiserver v0.36.1 // indirect
	k8s.io/cloud-provider v0.0.0 // indirect
	k8s.io/controller-manager v0.36.1 // indirect
	k8s.io/cri-api v0.36.1 // indirect
	k8s.io/cri-client v0.0.0 // indirect
	k8s.io/csi-translation-lib v0.36.1 // indirect
	k8s.io/dynamic-resource-allocation v0.36.1 // indirect
	k8s.io/kube-openapi v0.0.0-20260317180543-43fb72c5454a // indirect
	k8s.io/kube-scheduler v0.0.0 // indirect
	k8s.io/kubelet v0.36.1 // indirect
	k8s.io/metrics v0.36.1 // indirect
	sigs.k8s.io/json v0.0.0-20250730193827-2d320260d730 // indirect
	sigs.k8s.io/randfill v1.0.0 // indirect
	sigs.k8s.io/structured-merge-diff/v6 v6.3.2 // indirect
	stathat.com/c/consistent v1.0.0 // indirect
)

replace (
	cloud.google.com/go => cloud.google.com/go v0.100.2
	go.opentelemetry.io/otel/exporters/otlp/otlptrace/otlptracegrpc => go.opentelemetry.io/otel/exporters/otlp/otlptrace/otlptracegrpc v1.42.0
	google.golang.org/grpc => google.golang.org/grpc v1.79.3
	k8s.io/api => k8s.io/api v0.36.1
	k8s.io/apiextensions-apiserver => k8s.io/apiextensions-apiserver v0.36.1
	k8s.io/apimachinery => k8s.io/apimachinery v0.36.1
	k8s.io/apiserver => k8s.io/apiserver v0.36.1
	k8s.io/cli-runtime => k8s.io/cli-runtime v0.36.1
	k8s.io/client-go => k8s.io/client-go v0.36.1
	k8s.io/cloud-provider => k8s.io/cloud-provider v0.36.1
	k8s.io/cluster-bootstrap => k8s.io/cluster-bootstrap v0.36.1
	k8s.io/code-generator => k8s.io/code-generator v0.36.1
	k8s.io/component-base => k8s.io/component-base v0.36.1
	k8s.io/component-helpers => k8s.io/component-helpers v0.36.1
	k8s.io/controller-manager => k8s.io/controller-manager v0.36.1
	k8s.io/cri-api => k8s.io/cri-api v0.36.1
	k8s.io/cri-client => k8s.io/cri-client v0.36.1
	k8s.io/cri-streaming => k8s.io/cri-streaming v0.36.1
	k8s.io/csi-translation-lib => k8s.io/csi-translation-lib v0.36.1
	k8s.io/dynamic-resource-allocation => k8s.io/dynamic-resource-allocation v0.36.1
	k8s.io/endpointslice => k8s.io/endpointslice v0.36.1
	k8s.io/externaljwt => k8s.io/externaljwt v0.36.1
	k8s.io/kube-aggregator => k8s.io/kube-aggregator v0.36.1
	k8s.io/kube-controller-manager => k8s.io/kube-controller-manager v0.36.1
	k8s.io/kube-proxy => k8s.io/kube-proxy v0.36.1
	k8s.io/kube-scheduler => k8s.io/kube-scheduler v0.36.1
	k8s.io/kubectl => k8s.io/kubectl v0.36.1
	k8s.io/kubelet => k8s.io/kubelet v0.36.1
	k8s.io/legacy-cloud-providers => k8s.io/legacy-cloud-providers v0.36.1
	k8s.io/metrics => k8s.io/metrics v0.36.1
	k8s.io/mount-utils => k8s.io/mount-utils v0.36.1
	k8s.io/node-api => k8s.io/node-api v0.36.1
	k8s.io/pod-security-admission => k8s.io/pod-security-admission v0.36.1
	k8s.io/sample-apiserver => k8s.io/sample-apiserver v0.36.1
	k8s.io/sample-cli-plugin => k8s.io/sample-cli-plugin v0.36.1
	k8s.io/sample-controller => k8s.io/sample-controller v0.36.1
	// Use local staging directory for APIs development
	// This allows API changes to be made and reviewed in the same PR as implementation changes
	volcano.sh/apis => /repo/staging/src/volcano.sh/apis
	volcano.sh/volcano => /repo
)
