package sched

import (
	"fmt"

	"verif/harness/internal/vh"
)

const EpsUnits = 2

// EncFinal is the model's eFinal: the projected session at the end of the cycle.
func (w *World) EncFinal() []int64 {
	return w.encStateNoStmts()
}

type lawStash struct {
	dump  []int64
	binds []int64
}

// CycleHarness builds the vh.Harness of an action property: the same cycles, a different law.
func CycleHarness(lawSel int, forceProportion bool) vh.Harness {
	var last lawStash
	run2 := func(sel int, in []int64) ([]int64, []int64) {
		r := &Tok{T: in}
		spec := DecCycleSpec(r)
		cw := NewCycleWorld(spec)
		limits := cw.QueueLimits()
		cw.RunActions()
		cops := cw.Reconstruct()
		modelIn := spec.Enc(EpsUnits)
		modelIn = append(modelIn, limits...)
		modelIn = append(modelIn, EncCops(cops)...)
		got := []int64{}
		covered := 0
		for _, c := range cops {
			got = append(got, cw.EncCopEvents(c)...)
			covered += c.To - c.From
		}
		if covered != len(cw.Trace) {
			panic(fmt.Sprintf("trace reconstruction left %d of %d events unexplained", len(cw.Trace)-covered, len(cw.Trace)))
		}
		got = append(got, -102)
		got = append(got, cw.EncFinal()...)
		binds := []int64{}
		for _, e := range cw.Trace {
			if e.Kind == 2 {
				binds = append(binds, e.Task)
			}
		}
		last = lawStash{dump: cw.EncLawDump(), binds: binds}
		return modelIn, got
	}
	laws := func(sel int, in, got []int64, law func(lsel int, lin []int64, sig string)) {
		lin := append([]int64{}, in...)
		lin = append(lin, last.dump...)
		lin = append(lin, int64(len(last.binds)))
		lin = append(lin, last.binds...)
		law(lawSel, lin, "")
	}
	gen := func(rng *vh.Rng, n int, emit func(id string, sel int, in []int64, kind string, nontrivial bool, desc any)) {
		for i := 0; i < n; i++ {
			r := rng.Fork()
			spec := GenCycle(r, forceProportion)
			pend := 0
			for _, t := range spec.Tasks {
				if t.Status == SPending {
					pend++
				}
			}
			kind := fmt.Sprintf("cycle/actions=%v/proportion=%v", spec.Actions, spec.Proportion)
			desc := map[string]any{"nodes": len(spec.Nodes), "queues": len(spec.Queues), "jobs": len(spec.Jobs), "tasks": len(spec.Tasks), "pending": pend}
			emit(fmt.Sprintf("cycle-%d", i), 1, spec.Enc(EpsUnits), kind, pend >= 2 && len(spec.Nodes) >= 1, desc)
		}
	}
	return vh.Harness{Run2: run2, Laws: laws, Gen: gen}
}

// GenCycle draws a cluster whose initial state is within capacity, with gangs of several shapes.
func GenCycle(r *vh.Rng, forceProportion bool) CycleSpec {
	spec := CycleSpec{PGPhase: map[int64]int64{}}
	nn := r.Range(1, 4)
	type free struct{ cpu, mem, pods, gpu int64 }
	room := map[int64]*free{}
	for i := 1; i <= nn; i++ {
		ns := NodeSpec{ID: int64(i), Has: true, CPU: int64(r.Range(1, 8)) * 1000, Mem: int64(r.Range(2, 16)) << 20, Pods: int64(r.Range(2, 8))}
		if r.Chance(1, 3) {
			ns.GPU = int64(r.Range(1, 4))
		}
		spec.Nodes = append(spec.Nodes, ns)
		room[ns.ID] = &free{ns.CPU, ns.Mem, ns.Pods, ns.GPU}
	}
	nq := r.Range(1, 3)
	for q := 1; q <= nq; q++ {
		qs := QueueSpec{ID: int64(q), Open: !r.Chance(1, 8), Weight: int64(r.Range(1, 4))}
		if r.Chance(1, 3) {
			qs.CapCPU = int64(r.Range(1, 10)) * 1000
		}
		if r.Chance(1, 4) {
			qs.CapMem = int64(r.Range(2, 24)) << 20
		}
		spec.Queues = append(spec.Queues, qs)
	}
	nj := r.Range(1, 5)
	tid := int64(0)
	for j := 1; j <= nj; j++ {
		js := JobSpec{ID: int64(j), Queue: int64(r.Range(1, nq))}
		nt := r.Range(1, 6)
		roles := r.Range(1, 2)
		perRole := map[int64]int64{}
		for k := 0; k < nt; k++ {
			tid++
			ts := TaskSpec{ID: tid, Job: js.ID, Role: int64(r.Range(1, roles)), Prio: int64(r.Range(0, 2)), Preemptable: r.Chance(1, 2)}
			perRole[ts.Role]++
			switch r.Intn(10) {
			case 0: // best effort
			case 1, 2:
				ts.CPU = int64(r.Range(1, 8)) * 500
			default:
				ts.CPU = int64(r.Range(1, 6)) * 250
				ts.Mem = int64(r.Range(1, 6)) << 19
				if r.Chance(1, 5) {
					ts.GPU = 1
				}
			}
			ts.Status = SPending
			switch r.Intn(10) {
			case 0, 1:
				ts.Status = vh.Pick(r, []int64{SRunning, SRunning, SBound, SReleasing})
			case 2:
				// finished pods of the gang: succeeded ones count towards minMember, failed ones do not
				ts.Status = vh.Pick(r, []int64{SSucceeded, SFailed, SFailed, SPending})
			}
			if ts.Status != SPending {
				nid := int64(r.Range(1, nn))
				f := room[nid]
				if ts.Status == SSucceeded || ts.Status == SFailed {
					ts.Node = nid
				} else if f.cpu >= ts.CPU && f.mem >= ts.Mem && f.pods >= 1 && f.gpu >= ts.GPU {
					f.cpu -= ts.CPU
					f.mem -= ts.Mem
					f.pods--
					f.gpu -= ts.GPU
					ts.Node = nid
				} else {
					ts.Status = SPending
				}
			}
			spec.Tasks = append(spec.Tasks, ts)
		}
		switch r.Intn(5) {
		case 0:
			js.Min = 0
		case 1:
			js.Min = int64(nt)
		case 2:
			js.Min = int64(nt) + 1 // can never be met
		default:
			js.Min = int64(r.Range(1, nt))
		}
		if r.Chance(1, 3) {
			total := int64(0)
			for role, cnt := range map[int64]int64{1: perRole[1], 2: perRole[2]} {
				if cnt > 0 && r.Chance(2, 3) {
					m := int64(r.Range(1, int(cnt)))
					js.RoleMin = append(js.RoleMin, [2]int64{role, m})
					total += m
				}
			}
			if len(js.RoleMin) == 2 && js.RoleMin[0][0] > js.RoleMin[1][0] {
				js.RoleMin[0], js.RoleMin[1] = js.RoleMin[1], js.RoleMin[0]
			}
			if r.Chance(2, 3) && total > js.Min {
				js.Min = total // role minimums are in force only when MinAvailable >= their total
			}
		}
		spec.Jobs = append(spec.Jobs, js)
		spec.PGPhase[js.ID] = vh.Pick(r, []int64{2, 2, 2, 3, 1})
	}
	spec.Proportion = forceProportion || r.Chance(1, 3)
	spec.Actions = vh.Pick(r, [][]int64{{1}, {1, 2}, {2, 1}, {1, 1}, {1, 2, 1}, {2}})
	return spec
}
