package sched

import (
	"fmt"
	"sort"

	v1 "k8s.io/api/core/v1"
	"k8s.io/apimachinery/pkg/api/resource"
	metav1 "k8s.io/apimachinery/pkg/apis/meta/v1"
	"k8s.io/apimachinery/pkg/types"
	"k8s.io/apimachinery/pkg/util/sets"

	"volcano.sh/apis/pkg/apis/scheduling"
	"volcano.sh/volcano/pkg/scheduler/actions/allocate"
	"volcano.sh/volcano/pkg/scheduler/actions/backfill"
	"volcano.sh/volcano/pkg/scheduler/api"
	"volcano.sh/volcano/pkg/scheduler/conf"
	"volcano.sh/volcano/pkg/scheduler/framework"
	"volcano.sh/volcano/pkg/scheduler/plugins"
	"volcano.sh/volcano/pkg/scheduler/plugins/gang"
	"volcano.sh/volcano/pkg/scheduler/plugins/priority"
	"volcano.sh/volcano/pkg/scheduler/plugins/proportion"
)

// QueueSpec: a flat queue.  Capability amounts of 0 mean "not set".
type QueueSpec struct {
	ID             int64
	Open           bool
	Weight         int64
	CapCPU, CapMem int64
}

// CycleSpec is the token-encoded input of one scheduling cycle.
type CycleSpec struct {
	Nodes      []NodeSpec
	Queues     []QueueSpec
	Jobs       []JobSpec
	PGPhase    map[int64]int64 // job -> 1 Pending, 2 Inqueue, 3 Running
	Tasks      []TaskSpec
	Proportion bool
	Actions    []int64 // 1 allocate, 2 backfill
}

func (c CycleSpec) Enc(eps int64) []int64 {
	out := []int64{eps, int64(len(c.Nodes))}
	for _, n := range c.Nodes {
		out = append(out, n.ID, b2i(n.Has), n.CPU, n.Mem, n.Pods, n.GPU)
	}
	out = append(out, int64(len(c.Queues)))
	for _, q := range c.Queues {
		out = append(out, q.ID, b2i(q.Open), q.Weight, q.CapCPU, q.CapMem)
	}
	out = append(out, int64(len(c.Jobs)))
	for _, j := range c.Jobs {
		out = append(out, j.ID, j.Queue, j.Min, int64(len(j.RoleMin)))
		for _, rm := range j.RoleMin {
			out = append(out, rm[0], rm[1])
		}
		out = append(out, c.PGPhase[j.ID])
	}
	out = append(out, int64(len(c.Tasks)))
	for _, t := range c.Tasks {
		out = append(out, t.ID, t.Job, t.Role, t.Prio, t.CPU, t.Mem, t.GPU, t.Status, t.Node, b2i(t.Preemptable))
	}
	out = append(out, b2i(c.Proportion), int64(len(c.Actions)))
	out = append(out, c.Actions...)
	return out
}

func b2i(b bool) int64 {
	if b {
		return 1
	}
	return 0
}

// DecCycleSpec reads the spec prefix of a case input; the reader is left after it.
func DecCycleSpec(r *Tok) CycleSpec {
	c := CycleSpec{PGPhase: map[int64]int64{}}
	_ = r.Next()
	r.List(func() {
		c.Nodes = append(c.Nodes, NodeSpec{ID: r.Next(), Has: r.Bool(), CPU: r.Next(), Mem: r.Next(), Pods: r.Next(), GPU: r.Next()})
	})
	r.List(func() {
		c.Queues = append(c.Queues, QueueSpec{ID: r.Next(), Open: r.Bool(), Weight: r.Next(), CapCPU: r.Next(), CapMem: r.Next()})
	})
	r.List(func() {
		j := JobSpec{ID: r.Next(), Queue: r.Next(), Min: r.Next()}
		r.List(func() { j.RoleMin = append(j.RoleMin, [2]int64{r.Next(), r.Next()}) })
		c.PGPhase[j.ID] = r.Next()
		c.Jobs = append(c.Jobs, j)
	})
	r.List(func() {
		c.Tasks = append(c.Tasks, TaskSpec{ID: r.Next(), Job: r.Next(), Role: r.Next(), Prio: r.Next(), CPU: r.Next(), Mem: r.Next(),
			GPU: r.Next(), Status: r.Next(), Node: r.Next(), Preemptable: r.Bool()})
	})
	c.Proportion = r.Bool()
	c.Actions = r.Ints()
	return c
}

// TraceEv is one entry of the single ordered event list of a cycle.
type TraceEv struct {
	Kind   int64 // 0 deallocate callback, 1 allocate callback, 2 AddBindTask accepted, 3 cache.Evict accepted
	Task   int64
	Status int64
	Node   int64
	Action int64 // which action of the list was running
}

// CycleWorld is a session over a cluster with real gang (+priority, +proportion) plugins.
type CycleWorld struct {
	*World
	Spec     CycleSpec
	Trace    []TraceEv
	curAct   int64
	PropSnap func() proportion.VerifSnapshot
	// Closes: trace positions at which allocate closed a statement that was not ready (it asked
	// JobPipelined): a placement of the same job after such a position belongs to a NEW attempt
	Closes []int
}

// PreOpenHook, when set, runs on the finished snapshot right before the session is opened (used by
// C01 to apply a PodGroup update to an already built JobInfo, or to script the cache).  Nil by default.
var PreOpenHook func(cw *CycleWorld, snap *api.ClusterInfo)

func (q QueueSpec) Object() *scheduling.Queue {
	qq := &scheduling.Queue{
		ObjectMeta: metav1.ObjectMeta{Name: QueueName(q.ID), UID: types.UID(QueueName(q.ID))},
		Spec:       scheduling.QueueSpec{Weight: int32(q.Weight)},
		Status:     scheduling.QueueStatus{State: scheduling.QueueStateOpen},
	}
	if !q.Open {
		qq.Status.State = scheduling.QueueStateClosed
	}
	rl := v1.ResourceList{}
	if q.CapCPU > 0 {
		rl[v1.ResourceCPU] = *resource.NewMilliQuantity(q.CapCPU, resource.DecimalSI)
	}
	if q.CapMem > 0 {
		rl[v1.ResourceMemory] = *resource.NewQuantity(q.CapMem, resource.BinarySI)
	}
	if len(rl) > 0 {
		qq.Spec.Capability = rl
	}
	return qq
}

func pgPhase(p int64) scheduling.PodGroupPhase {
	switch p {
	case 1:
		return scheduling.PodGroupPending
	case 3:
		return scheduling.PodGroupRunning
	}
	return scheduling.PodGroupInqueue
}

// NewCycleWorld builds the cluster and opens the session with tiers
// [recorder, priority, gang] [proportion?].
func NewCycleWorld(spec CycleSpec) *CycleWorld {
	w := &World{Tasks: map[int64]*api.TaskInfo{}, TSpec: map[int64]TaskSpec{}, NodesP: map[int64]*api.NodeInfo{},
		NSpec: map[int64]NodeSpec{}, Stmts: map[int64]*framework.Statement{}, Saved: map[int64]*framework.Statement{}}
	cw := &CycleWorld{World: w, Spec: spec}
	if mock == nil {
		mock = newMock()
	}
	snap := &api.ClusterInfo{
		Jobs: map[api.JobID]*api.JobInfo{}, Nodes: map[string]*api.NodeInfo{},
		Queues: map[api.QueueID]*api.QueueInfo{}, NamespaceInfo: map[api.NamespaceName]*api.NamespaceInfo{},
		RevocableNodes: map[string]*api.NodeInfo{},
		HyperNodes:     api.HyperNodeInfoMap{}, HyperNodesSetByTier: map[int]sets.Set[string]{},
		RealNodesSet: map[string]sets.Set[string]{}, HyperNodeTierNameMap: api.HyperNodeTierNameMap{},
		CSINodesStatus: map[string]*api.CSINodeStatusInfo{},
	}
	for _, q := range spec.Queues {
		qi := api.NewQueueInfo(q.Object())
		snap.Queues[qi.UID] = qi
	}
	tasks := append([]TaskSpec{}, spec.Tasks...)
	sort.Slice(tasks, func(i, j int) bool { return tasks[i].ID < tasks[j].ID })
	for _, j := range spec.Jobs {
		ji := api.NewJobInfo(JobID(j.ID))
		pg := &api.PodGroup{PodGroup: scheduling.PodGroup{
			ObjectMeta: metav1.ObjectMeta{Name: JobName(j.ID), Namespace: "ns", UID: types.UID(JobName(j.ID))},
			Spec:       scheduling.PodGroupSpec{MinMember: int32(j.Min), Queue: QueueName(j.Queue), MinTaskMember: map[string]int32{}},
			Status:     scheduling.PodGroupStatus{Phase: pgPhase(spec.PGPhase[j.ID])},
		}}
		for _, rm := range j.RoleMin {
			pg.Spec.MinTaskMember[RoleName(rm[0])] = int32(rm[1])
		}
		ji.SetPodGroup(pg)
		snap.Jobs[ji.UID] = ji
	}
	for _, t := range tasks {
		ti := api.NewTaskInfo(t.Pod())
		w.Tasks[t.ID] = ti
		w.TSpec[t.ID] = t
		if ji, ok := snap.Jobs[ti.Job]; ok {
			ji.AddTaskInfo(ti)
		}
	}
	for _, n := range spec.Nodes {
		ni := api.NewNodeInfo(n.Object())
		for _, t := range tasks {
			if t.Node == n.ID && t.Status != SSucceeded && t.Status != SFailed {
				_ = ni.AddTask(w.Tasks[t.ID])
			}
		}
		snap.Nodes[ni.Name] = ni
		snap.NodeList = append(snap.NodeList, ni.Name)
		w.NodesP[n.ID] = ni
		w.NSpec[n.ID] = n
	}
	w.Cache = &ScriptedCache{SchedulerCache: mock, Snap: snap, RefuseBind: map[int64]bool{}, RefuseEvict: map[int64]bool{},
		OnBind: func(t, n int64) { cw.Trace = append(cw.Trace, TraceEv{Kind: 2, Task: t, Status: SBinding, Node: n, Action: cw.curAct}) },
		OnEvict: func(t int64) { cw.Trace = append(cw.Trace, TraceEv{Kind: 3, Task: t, Action: cw.curAct}) }}
	w.Rec = &Recorder{Share: map[int64]*api.Resource{}, ErrFor: map[int64]bool{}, JobReady: true, NoJobReady: true,
		OnEvent: func(alloc int64, t *api.TaskInfo) {
			cw.Trace = append(cw.Trace, TraceEv{Kind: alloc, Task: ParseID(string(t.UID)), Status: StatusKey(t.Status), Node: NodeRef(t.NodeName), Action: cw.curAct})
		}}
	for _, t := range tasks {
		ti := w.Tasks[t.ID]
		if _, ok := snap.Jobs[ti.Job]; ok && api.AllocatedStatus(ti.Status) {
			if w.Rec.Share[t.Job] == nil {
				w.Rec.Share[t.Job] = api.EmptyResource()
			}
			w.Rec.Share[t.Job].Add(ti.Resreq)
		}
	}
	currentRecorder = w.Rec
	framework.RegisterPluginBuilder(gang.PluginName, gang.New)
	framework.RegisterPluginBuilder(priority.PluginName, priority.New)
	framework.RegisterPluginBuilder(proportion.PluginName, func(a framework.Arguments) framework.Plugin {
		p, snapf := proportion.VerifNew(a)
		cw.PropSnap = snapf
		return p
	})
	opt := func(name string) conf.PluginOption {
		o := conf.PluginOption{Name: name}
		plugins.ApplyPluginConfDefaults(&o)
		return o
	}
	tiers := []conf.Tier{{Plugins: []conf.PluginOption{opt(RecorderName), opt(priority.PluginName), opt(gang.PluginName)}}}
	if spec.Proportion {
		tiers = append(tiers, conf.Tier{Plugins: []conf.PluginOption{opt(proportion.PluginName)}})
	}
	w.Rec.OnJobPipelined = func(j *api.JobInfo) { cw.Closes = append(cw.Closes, len(cw.Trace)) }
	if PreOpenHook != nil {
		PreOpenHook(cw, snap)
	}
	w.Ssn = framework.OpenSession(w.Cache, tiers, nil)
	return cw
}

// RunActions executes the action list; allocate and backfill only (enqueue is not configured, so
// Pending PodGroups are moved to Inqueue by allocate itself).
func (cw *CycleWorld) RunActions() {
	conf.EnabledActionMap = map[string]bool{}
	for i, a := range cw.Spec.Actions {
		cw.curAct = int64(i + 1)
		var act framework.Action
		switch a {
		case 1:
			act = allocate.New()
		case 2:
			act = backfill.New()
		default:
			panic(fmt.Sprint("unknown action ", a))
		}
		conf.EnabledActionMap[act.Name()] = true
		act.Initialize()
		act.Execute(cw.Ssn)
		act.UnInitialize()
	}
	cw.Refresh()
}

// Cop is one reconstructed oracle choice: an allocate attempt (job, places) or a backfill placement.
type Cop struct {
	Kind   int64 // 1 attempt, 2 backfill
	Job    int64
	Places [][2]int64
	// the trace slice this choice produced (indices into Trace)
	From, To int
}

// Reconstruct groups the trace into oracle choices (see DESIGN 4.4 / CycleModel.v).
func (cw *CycleWorld) Reconstruct() []Cop {
	cops := []Cop{}
	var cur *Cop
	curAct := int64(0)
	closed := true
	flush := func(to int) {
		if cur != nil {
			cur.To = to
			cops = append(cops, *cur)
			cur = nil
		}
	}
	ci := 0
	for i, e := range cw.Trace {
		// allocate closed a statement without committing it (kept or about to be discarded) before
		// this event: what follows is a new attempt even for the same job in the same action
		for ci < len(cw.Closes) && cw.Closes[ci] <= i {
			closed = true
			ci++
		}
		act := cw.Spec.Actions[e.Action-1]
		placing := e.Kind == 1 && (e.Status == SAllocated || e.Status == SPipelined)
		job := cw.TSpec[e.Task].Job
		switch {
		case act == 2 && placing:
			flush(i)
			cur = &Cop{Kind: 2, Job: job, Places: [][2]int64{{e.Task, e.Node}}, From: i}
			closed = true
		case act == 1 && placing:
			// a new attempt also starts with every new action of the list: a statement kept by one
			// allocate run is not continued by the next one
			if cur == nil || closed || cur.Kind != 1 || cur.Job != job || e.Action != curAct {
				flush(i)
				cur = &Cop{Kind: 1, Job: job, From: i}
				curAct = e.Action
				closed = false
			}
			cur.Places = append(cur.Places, [2]int64{e.Task, e.Node})
		default:
			// bind / undo events close the current attempt: the next placement starts a new one
			closed = true
		}
	}
	flush(len(cw.Trace))
	return cops
}

func EncCops(cops []Cop) []int64 {
	out := []int64{int64(len(cops))}
	for _, c := range cops {
		out = append(out, c.Kind)
		if c.Kind == 1 {
			out = append(out, c.Job, int64(len(c.Places)))
			for _, p := range c.Places {
				out = append(out, p[0], p[1])
			}
		} else {
			out = append(out, c.Places[0][0], c.Places[0][1])
		}
	}
	return out
}

// EncCopEvents: what one choice produced, in the model's per-step encoding:
// verdict 0, handler events in order, binds sorted by task, evictions sorted.
func (cw *CycleWorld) EncCopEvents(c Cop) []int64 {
	out := []int64{-101, 0}
	hev := []TraceEv{}
	binds := [][2]int64{}
	evs := []int64{}
	for _, e := range cw.Trace[c.From:c.To] {
		switch e.Kind {
		case 0, 1:
			hev = append(hev, e)
		case 2:
			binds = append(binds, [2]int64{e.Task, e.Node})
		case 3:
			evs = append(evs, e.Task)
		}
	}
	out = append(out, int64(len(hev)))
	for _, e := range hev {
		out = append(out, e.Kind, e.Task, e.Status, e.Node)
	}
	sort.Slice(binds, func(i, j int) bool { return binds[i][0] < binds[j][0] })
	out = append(out, int64(len(binds)))
	for _, b := range binds {
		out = append(out, b[0], b[1])
	}
	sort.Slice(evs, func(i, j int) bool { return evs[i] < evs[j] })
	out = append(out, int64(len(evs)))
	out = append(out, evs...)
	return out
}

// QueueLimits reads deserved (floored to the grid) of every queue from the real proportion plugin.
func (cw *CycleWorld) QueueLimits() []int64 {
	out := []int64{}
	if cw.PropSnap == nil || !cw.Spec.Proportion {
		return []int64{0}
	}
	s := cw.PropSnap()
	ids := SortedIDs(s.Queues, func(q api.QueueID) int64 { return ParseID(string(q)) })
	out = append(out, int64(len(ids)))
	for _, id := range ids {
		r := s.Queues[api.QueueID(QueueName(id))]
		out = append(out, id)
		out = append(out, encResFloor(r.Deserved)...)
	}
	return out
}

func floorUnits(x float64) int64 {
	y := x * Grid
	f := int64(y)
	if float64(f) > y {
		f--
	}
	return f
}

func encResFloor(r *api.Resource) []int64 {
	if r == nil {
		return []int64{0, 0, 0, 0}
	}
	out := []int64{floorUnits(r.MilliCPU), floorUnits(r.Memory)}
	if r.ScalarResources == nil {
		return append(out, 0, 0)
	}
	keys := []int64{}
	for n := range r.ScalarResources {
		if k, ok := ScalarKey[string(n)]; ok {
			keys = append(keys, k)
		}
	}
	sort.Slice(keys, func(i, j int) bool { return keys[i] < keys[j] })
	out = append(out, 1, int64(len(keys)))
	for _, k := range keys {
		out = append(out, k, floorUnits(r.ScalarResources[ScalarName[k]]))
	}
	return out
}
