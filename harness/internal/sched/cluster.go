// Package sched holds what the scheduler-side harnesses (C07, C01-C04) share:
// building api objects from a token-encoded cluster spec, a scripted
// cache.Cache, and the canonical dump of session state.
package sched

import (
	"fmt"
	"sort"

	v1 "k8s.io/api/core/v1"
	"k8s.io/apimachinery/pkg/api/resource"
	metav1 "k8s.io/apimachinery/pkg/apis/meta/v1"
	"k8s.io/apimachinery/pkg/types"

	"volcano.sh/volcano/pkg/scheduler/api"
)

// Grid: one model unit = 1/16 of a Go float unit (see harness/cmd/c16).
const Grid = 16.0

type Tok struct {
	T []int64
	I int
}

func (r *Tok) Next() int64 {
	if r.I >= len(r.T) {
		panic("token underflow")
	}
	v := r.T[r.I]
	r.I++
	return v
}
func (r *Tok) Bool() bool { return r.Next() != 0 }
func (r *Tok) List(f func()) {
	n := int(r.Next())
	for i := 0; i < n; i++ {
		f()
	}
}
func (r *Tok) Ints() []int64 {
	n := int(r.Next())
	out := make([]int64, 0, n)
	for i := 0; i < n; i++ {
		out = append(out, r.Next())
	}
	return out
}

type NodeSpec struct {
	ID                  int64
	Has                 bool
	CPU, Mem, Pods, GPU int64
}
type JobSpec struct {
	ID, Queue, Min int64
	RoleMin        [][2]int64 // (role, minimum): PodGroup.Spec.MinTaskMember
}

func RoleName(r int64) string { return fmt.Sprintf("r%d", r) }
type TaskSpec struct {
	ID, Job, Role, Prio int64
	CPU, Mem, GPU       int64
	Status              int64 // model status key
	Node                int64 // 0 = none
	Preemptable         bool
}

const (
	SPending   = 1
	SAllocated = 2
	SPipelined = 3
	SBinding   = 4
	SBound     = 5
	SRunning   = 6
	SReleasing = 7
	SSucceeded = 8
	SFailed    = 9
	SUnknown   = 10
)

var statusKey = map[api.TaskStatus]int64{
	api.Pending: 1, api.Allocated: 2, api.Pipelined: 3, api.Binding: 4, api.Bound: 5,
	api.Running: 6, api.Releasing: 7, api.Succeeded: 8, api.Failed: 9, api.Unknown: 10,
}

func StatusKey(s api.TaskStatus) int64 { return statusKey[s] }

const GPUName = "nvidia.com/gpu"

func NodeName(id int64) string  { return fmt.Sprintf("n%d", id) }
func TaskName(id int64) string  { return fmt.Sprintf("t%d", id) }
func JobName(id int64) string   { return fmt.Sprintf("j%d", id) }
func QueueName(id int64) string { return fmt.Sprintf("q%d", id) }
func JobID(id int64) api.JobID  { return api.JobID("ns/" + JobName(id)) }

func ParseID(name string) int64 {
	var id int64
	for i := 0; i < len(name); i++ {
		c := name[i]
		if c >= '0' && c <= '9' {
			id = id*10 + int64(c-'0')
		} else if id > 0 {
			break
		}
	}
	return id
}

func (n NodeSpec) Object() *v1.Node {
	rl := v1.ResourceList{
		v1.ResourceCPU:    *resource.NewMilliQuantity(n.CPU, resource.DecimalSI),
		v1.ResourceMemory: *resource.NewQuantity(n.Mem, resource.BinarySI),
		v1.ResourcePods:   *resource.NewQuantity(n.Pods, resource.DecimalSI),
	}
	if n.GPU > 0 {
		rl[GPUName] = *resource.NewQuantity(n.GPU, resource.DecimalSI)
	}
	return &v1.Node{
		ObjectMeta: metav1.ObjectMeta{Name: NodeName(n.ID), UID: types.UID(NodeName(n.ID))},
		Status:     v1.NodeStatus{Allocatable: rl, Capacity: rl},
	}
}

func (t TaskSpec) Pod() *v1.Pod {
	rl := v1.ResourceList{}
	if t.CPU > 0 {
		rl[v1.ResourceCPU] = *resource.NewMilliQuantity(t.CPU, resource.DecimalSI)
	}
	if t.Mem > 0 {
		rl[v1.ResourceMemory] = *resource.NewQuantity(t.Mem, resource.BinarySI)
	}
	if t.GPU > 0 {
		rl[GPUName] = *resource.NewQuantity(t.GPU, resource.DecimalSI)
	}
	pod := &v1.Pod{
		ObjectMeta: metav1.ObjectMeta{
			Name: TaskName(t.ID), Namespace: "ns", UID: types.UID(TaskName(t.ID)),
			Annotations: map[string]string{"scheduling.k8s.io/group-name": JobName(t.Job)},
			Labels:      map[string]string{"volcano.sh/task-spec": fmt.Sprintf("r%d", t.Role)},
		},
		Spec: v1.PodSpec{
			Containers: []v1.Container{{Name: "c", Resources: v1.ResourceRequirements{Requests: rl}}},
		},
	}
	prio := int32(t.Prio)
	pod.Spec.Priority = &prio
	// GetPodPreemptable defaults to true when the annotation is absent: always write it
	if t.Preemptable {
		pod.Annotations["volcano.sh/preemptable"] = "true"
	} else {
		pod.Annotations["volcano.sh/preemptable"] = "false"
	}
	if t.Node != 0 {
		pod.Spec.NodeName = NodeName(t.Node)
	}
	now := metav1.Now()
	switch t.Status {
	case SPending, SBound:
		pod.Status.Phase = v1.PodPending
	case SRunning:
		pod.Status.Phase = v1.PodRunning
	case SReleasing:
		pod.Status.Phase = v1.PodRunning
		pod.DeletionTimestamp = &now
	case SSucceeded:
		pod.Status.Phase = v1.PodSucceeded
	case SFailed:
		pod.Status.Phase = v1.PodFailed
	default:
		pod.Status.Phase = v1.PodUnknown
	}
	return pod
}

// ---- resource encoding (same as harness/cmd/c16) ----

var ScalarKey = map[string]int64{"pods": 1, GPUName: 4}
var ScalarName = map[int64]v1.ResourceName{1: "pods", 4: GPUName}

func units(x float64) int64 {
	y := x * Grid
	if y != float64(int64(y)) {
		panic(fmt.Sprintf("value %v left the 1/16 grid", x))
	}
	return int64(y)
}

func EncRes(r *api.Resource) []int64 {
	if r == nil {
		return []int64{0, 0, 0, 0}
	}
	out := []int64{units(r.MilliCPU), units(r.Memory)}
	if r.ScalarResources == nil {
		return append(out, 0, 0)
	}
	keys := []int64{}
	for n := range r.ScalarResources {
		k, ok := ScalarKey[string(n)]
		if !ok {
			panic("unknown scalar " + string(n))
		}
		keys = append(keys, k)
	}
	sort.Slice(keys, func(i, j int) bool { return keys[i] < keys[j] })
	out = append(out, 1, int64(len(keys)))
	for _, k := range keys {
		out = append(out, k, units(r.ScalarResources[ScalarName[k]]))
	}
	return out
}

func SortedIDs[M ~map[K]V, K comparable, V any](m M, id func(K) int64) []int64 {
	out := make([]int64, 0, len(m))
	for k := range m {
		out = append(out, id(k))
	}
	sort.Slice(out, func(i, j int) bool { return out[i] < out[j] })
	return out
}

func NodeRef(name string) int64 {
	if name == "" {
		return 0
	}
	return ParseID(name)
}

func EncTaskBrief(t *api.TaskInfo) []int64 {
	return []int64{ParseID(string(t.UID)), StatusKey(t.Status), NodeRef(t.NodeName)}
}

func encIndex(ix map[api.TaskStatus]api.TasksMap) []int64 {
	keys := []int64{}
	byKey := map[int64]api.TasksMap{}
	for s, m := range ix {
		k := StatusKey(s)
		keys = append(keys, k)
		byKey[k] = m
	}
	sort.Slice(keys, func(i, j int) bool { return keys[i] < keys[j] })
	out := []int64{int64(len(keys))}
	for _, k := range keys {
		ids := SortedIDs(byKey[k], func(u api.TaskID) int64 { return ParseID(string(u)) })
		out = append(out, k, int64(len(ids)))
		out = append(out, ids...)
	}
	return out
}

// SubJobNumber maps the sub-job ids of a job to small numbers: the default
// sub-job is 1; policy sub-jobs are numbered by the harness that creates them.
var SubJobNumber = func(job *api.JobInfo, id api.SubJobID) int64 { return 1 }

func EncJob(j *api.JobInfo) []int64 {
	out := []int64{ParseID(string(j.UID)[3:])}
	ids := SortedIDs(j.Tasks, func(u api.TaskID) int64 { return ParseID(string(u)) })
	out = append(out, int64(len(ids)))
	out = append(out, ids...)
	out = append(out, encIndex(j.TaskStatusIndex)...)
	out = append(out, EncRes(j.Allocated)...)
	out = append(out, EncRes(j.TotalRequest)...)
	type sub struct {
		n  int64
		sj *api.SubJobInfo
	}
	subs := []sub{}
	for id, sj := range j.SubJobs {
		subs = append(subs, sub{SubJobNumber(j, id), sj})
	}
	sort.Slice(subs, func(a, b int) bool { return subs[a].n < subs[b].n })
	out = append(out, int64(len(subs)))
	for _, s := range subs {
		out = append(out, s.n)
		sids := SortedIDs(s.sj.Tasks, func(u api.TaskID) int64 { return ParseID(string(u)) })
		out = append(out, int64(len(sids)))
		out = append(out, sids...)
		out = append(out, encIndex(s.sj.TaskStatusIndex)...)
	}
	return out
}

func EncNode(n *api.NodeInfo, id int64) []int64 {
	out := []int64{id}
	out = append(out, EncRes(n.Idle)...)
	out = append(out, EncRes(n.Used)...)
	out = append(out, EncRes(n.Releasing)...)
	out = append(out, EncRes(n.Pipelined)...)
	ids := SortedIDs(n.Tasks, func(u api.TaskID) int64 { return ParseID(string(u)) })
	out = append(out, int64(len(ids)))
	byID := map[int64]*api.TaskInfo{}
	for k, t := range n.Tasks {
		byID[ParseID(string(k))] = t
	}
	for _, i := range ids {
		out = append(out, EncTaskBrief(byID[i])...)
	}
	return out
}
