package sched

import (
	"fmt"
	"sort"

	"k8s.io/apimachinery/pkg/util/sets"

	"volcano.sh/volcano/pkg/scheduler/api"
	"volcano.sh/volcano/pkg/scheduler/cache"
	"volcano.sh/volcano/pkg/scheduler/conf"
	"volcano.sh/volcano/pkg/scheduler/framework"
)

// ScriptedCache is a cache.Cache whose Snapshot is the cluster the harness
// built and whose AddBindTask / Evict only record (or refuse, by script).
// Everything else is answered by an idle mock SchedulerCache.
type ScriptedCache struct {
	*cache.SchedulerCache
	Snap        *api.ClusterInfo
	RefuseBind  map[int64]bool
	RefuseEvict map[int64]bool
	Binds       [][2]int64 // task, node
	Evicts      []int64
	OnBind      func(task, node int64)
	OnEvict     func(task int64)
}

func (c *ScriptedCache) Snapshot() *api.ClusterInfo { return c.Snap }
func (c *ScriptedCache) OnSessionOpen()             {}
func (c *ScriptedCache) OnSessionClose()            {}
func (c *ScriptedCache) AddBindTask(ctx *cache.BindContext) error {
	id := ParseID(string(ctx.TaskInfo.UID))
	if c.RefuseBind[id] {
		return fmt.Errorf("scripted: bind of t%d refused", id)
	}
	c.Binds = append(c.Binds, [2]int64{id, NodeRef(ctx.TaskInfo.NodeName)})
	if c.OnBind != nil {
		c.OnBind(id, NodeRef(ctx.TaskInfo.NodeName))
	}
	return nil
}
func (c *ScriptedCache) Evict(t *api.TaskInfo, reason string) error {
	id := ParseID(string(t.UID))
	if c.RefuseEvict[id] {
		return fmt.Errorf("scripted: eviction of t%d refused", id)
	}
	c.Evicts = append(c.Evicts, id)
	if c.OnEvict != nil {
		c.OnEvict(id)
	}
	return nil
}

// Recorder is the harness's own plugin: a per-job ledger fed by the session's
// allocate/deallocate events, an event log, a scripted Event.Err and a
// scripted JobReady answer.
type Recorder struct {
	Share    map[int64]*api.Resource
	Log      [][4]int64 // (1 = allocate / 0 = deallocate, task, status key, node) as seen by the callback
	ErrFor   map[int64]bool
	JobReady bool
	// NoJobReady: do not register the scripted JobReady function (the real gang plugin decides)
	NoJobReady bool
	OnEvent    func(alloc int64, t *api.TaskInfo)
	// OnJobPipelined: when set, the recorder registers an ABSTAINING JobPipelined vote and reports
	// every call (allocate asks JobPipelined exactly when it closes a statement that is not ready:
	// the marker that separates a kept attempt from a following one)
	OnJobPipelined func(j *api.JobInfo)
}

const RecorderName = "verif-recorder"

var currentRecorder *Recorder

type recorderPlugin struct{ r *Recorder }

func (p *recorderPlugin) Name() string { return RecorderName }
func (p *recorderPlugin) OnSessionOpen(ssn *framework.Session) {
	r := p.r
	// Two handlers, like a scheduler with predicates (may report Event.Err) in front of a queue
	// plugin (keeps a ledger): the erroring one is registered FIRST, so that the ledger handler is
	// called after a reported error — every handler gets every allocate and every deallocate.
	ssn.AddEventHandler(&framework.EventHandler{
		AllocateFunc: func(e *framework.Event) {
			id := ParseID(string(e.Task.UID))
			if r.ErrFor[id] {
				e.Err = fmt.Errorf("scripted: allocate callback fails for t%d", id)
			}
		},
		DeallocateFunc: func(e *framework.Event) {},
	})
	ssn.AddEventHandler(&framework.EventHandler{
		AllocateFunc: func(e *framework.Event) {
			j := ParseID(string(e.Task.Job)[3:])
			if r.Share[j] == nil {
				r.Share[j] = api.EmptyResource()
			}
			r.Share[j].Add(e.Task.Resreq)
			id := ParseID(string(e.Task.UID))
			r.Log = append(r.Log, [4]int64{1, id, StatusKey(e.Task.Status), NodeRef(e.Task.NodeName)})
			if r.OnEvent != nil {
				r.OnEvent(1, e.Task)
			}
		},
		DeallocateFunc: func(e *framework.Event) {
			j := ParseID(string(e.Task.Job)[3:])
			if r.Share[j] == nil {
				r.Share[j] = api.EmptyResource()
			}
			r.Share[j].SubWithoutAssert(e.Task.Resreq)
			r.Log = append(r.Log, [4]int64{0, ParseID(string(e.Task.UID)), StatusKey(e.Task.Status), NodeRef(e.Task.NodeName)})
			if r.OnEvent != nil {
				r.OnEvent(0, e.Task)
			}
		},
	})
	if !r.NoJobReady {
		ssn.AddJobReadyFn(RecorderName, func(obj interface{}) bool { return r.JobReady })
	}
	if r.OnJobPipelined != nil {
		ssn.AddJobPipelinedFn(RecorderName, func(obj interface{}) int {
			r.OnJobPipelined(obj.(*api.JobInfo))
			return 0 // abstain
		})
	}
}
func (p *recorderPlugin) OnSessionClose(ssn *framework.Session) {}

func init() {
	framework.RegisterPluginBuilder(RecorderName, func(framework.Arguments) framework.Plugin {
		return &recorderPlugin{r: currentRecorder}
	})
}

// World is one opened session over a cluster built from specs.
type World struct {
	Ssn    *framework.Session
	Cache  *ScriptedCache
	Rec    *Recorder
	Tasks  map[int64]*api.TaskInfo // canonical object per task (what the job holds)
	TSpec  map[int64]TaskSpec
	NodesP map[int64]*api.NodeInfo // node objects by id (kept when dropped from the session)
	NSpec  map[int64]NodeSpec
	Stmts  map[int64]*framework.Statement
	Saved  map[int64]*framework.Statement
}

var mock *cache.SchedulerCache

func newMock() *cache.SchedulerCache { return cache.NewDefaultMockSchedulerCache("verif") }

func yes() *bool { b := true; return &b }

// NewWorld builds jobs/nodes with the real constructors (NewTaskInfo,
// NewJobInfo + AddTaskInfo, NewNodeInfo + AddTask) and opens a session with
// the recorder plugin as the only plugin.
func NewWorld(nodes []NodeSpec, jobs []JobSpec, tasks []TaskSpec) *World {
	if mock == nil {
		mock = newMock()
	}
	w := &World{Tasks: map[int64]*api.TaskInfo{}, TSpec: map[int64]TaskSpec{}, NodesP: map[int64]*api.NodeInfo{},
		NSpec: map[int64]NodeSpec{}, Stmts: map[int64]*framework.Statement{}, Saved: map[int64]*framework.Statement{}}
	snap := &api.ClusterInfo{
		Jobs: map[api.JobID]*api.JobInfo{}, Nodes: map[string]*api.NodeInfo{},
		Queues: map[api.QueueID]*api.QueueInfo{}, NamespaceInfo: map[api.NamespaceName]*api.NamespaceInfo{},
		RevocableNodes: map[string]*api.NodeInfo{},
		HyperNodes:     api.HyperNodeInfoMap{}, HyperNodesSetByTier: map[int]sets.Set[string]{},
		RealNodesSet: map[string]sets.Set[string]{}, HyperNodeTierNameMap: api.HyperNodeTierNameMap{},
		CSINodesStatus: map[string]*api.CSINodeStatusInfo{},
	}
	sort.Slice(tasks, func(i, j int) bool { return tasks[i].ID < tasks[j].ID })
	for _, j := range jobs {
		ji := api.NewJobInfo(JobID(j.ID))
		ji.Name, ji.Namespace = JobName(j.ID), "ns"
		ji.Queue = api.QueueID(QueueName(j.Queue))
		ji.MinAvailable = int32(j.Min)
		for _, rm := range j.RoleMin {
			ji.TaskMinAvailable[RoleName(rm[0])] = int32(rm[1])
			ji.TaskMinAvailableTotal += int32(rm[1])
		}
		snap.Jobs[ji.UID] = ji
	}
	for _, t := range tasks {
		ti := api.NewTaskInfo(t.Pod())
		w.Tasks[t.ID] = ti
		w.TSpec[t.ID] = t
		if ji, ok := snap.Jobs[ti.Job]; ok {
			ji.AddTaskInfo(ti)
		}
	}
	for _, n := range nodes {
		var ni *api.NodeInfo
		if n.Has {
			ni = api.NewNodeInfo(n.Object())
		} else {
			ni = api.NewNodeInfo(nil)
			ni.Name = NodeName(n.ID)
		}
		for _, t := range tasks {
			if t.Node == n.ID && t.Status != SSucceeded && t.Status != SFailed {
				if err := ni.AddTask(w.Tasks[t.ID]); err != nil {
					_ = err // the model mirrors a refused add (acc unchanged)
				}
			}
		}
		snap.Nodes[ni.Name] = ni
		snap.NodeList = append(snap.NodeList, ni.Name)
		w.NodesP[n.ID] = ni
		w.NSpec[n.ID] = n
	}
	w.Cache = &ScriptedCache{SchedulerCache: mock, Snap: snap, RefuseBind: map[int64]bool{}, RefuseEvict: map[int64]bool{}}
	w.Rec = &Recorder{Share: map[int64]*api.Resource{}, ErrFor: map[int64]bool{}, JobReady: true}
	for _, t := range tasks {
		ti := w.Tasks[t.ID]
		if _, ok := snap.Jobs[ti.Job]; ok && api.AllocatedStatus(ti.Status) {
			if w.Rec.Share[t.Job] == nil {
				w.Rec.Share[t.Job] = api.EmptyResource()
			}
			w.Rec.Share[t.Job].Add(ti.Resreq)
		}
	}
	currentRecorder = w.Rec
	tiers := []conf.Tier{{Plugins: []conf.PluginOption{{Name: RecorderName, EnabledJobReady: yes()}}}}
	w.Ssn = framework.OpenSession(w.Cache, tiers, nil)
	for i := int64(1); i <= 3; i++ {
		w.Stmts[i] = framework.NewStatement(w.Ssn)
	}
	return w
}

// Refresh re-reads the canonical task objects: the pointer the job now holds.
func (w *World) Refresh() {
	for id, t := range w.Tasks {
		if j, ok := w.Ssn.Jobs[t.Job]; ok {
			if cur, ok := j.Tasks[t.UID]; ok {
				w.Tasks[id] = cur
			}
		}
	}
}

func (w *World) taskIDs() []int64 {
	ids := make([]int64, 0, len(w.Tasks))
	for id := range w.Tasks {
		ids = append(ids, id)
	}
	sort.Slice(ids, func(i, j int) bool { return ids[i] < ids[j] })
	return ids
}

// EncState is the model's eState.
func (w *World) EncState() []int64 {
	out := w.encStateNoStmts()
	for i := int64(1); i <= 3; i++ {
		ops := w.Stmts[i].VerifOps()
		out = append(out, int64(len(ops)))
		for _, o := range ops {
			out = append(out, int64(o.Kind), ParseID(string(o.Task.UID)))
		}
	}
	return out
}

func (w *World) encStateNoStmts() []int64 {
	out := []int64{}
	ids := w.taskIDs()
	out = append(out, int64(len(ids)))
	for _, id := range ids {
		out = append(out, EncTaskBrief(w.Tasks[id])...)
	}
	jids := SortedIDs(w.Ssn.Jobs, func(u api.JobID) int64 { return ParseID(string(u)[3:]) })
	out = append(out, int64(len(jids)))
	for _, j := range jids {
		out = append(out, EncJob(w.Ssn.Jobs[JobID(j)])...)
	}
	nids := SortedIDs(w.Ssn.Nodes, func(n string) int64 { return ParseID(n) })
	out = append(out, int64(len(nids)))
	for _, n := range nids {
		out = append(out, EncNode(w.Ssn.Nodes[NodeName(n)], n)...)
	}
	sids := SortedIDs(w.Rec.Share, func(j int64) int64 { return j })
	out = append(out, int64(len(sids)))
	for _, j := range sids {
		out = append(out, j)
		out = append(out, EncRes(w.Rec.Share[j])...)
	}
	return out
}

// EncLawDump is the model's dDump: what the invariant is evaluated on.
func (w *World) EncLawDump() []int64 {
	out := []int64{}
	ids := w.taskIDs()
	out = append(out, int64(len(ids)))
	for _, id := range ids {
		t := w.Tasks[id]
		sp := w.TSpec[id]
		out = append(out, EncTaskBrief(t)...)
		out = append(out, sp.Job, sp.CPU, sp.Mem, sp.GPU)
	}
	jids := SortedIDs(w.Ssn.Jobs, func(u api.JobID) int64 { return ParseID(string(u)[3:]) })
	out = append(out, int64(len(jids)))
	for _, j := range jids {
		out = append(out, EncJob(w.Ssn.Jobs[JobID(j)])...)
	}
	nids := SortedIDs(w.Ssn.Nodes, func(n string) int64 { return ParseID(n) })
	out = append(out, int64(len(nids)))
	for _, n := range nids {
		ni := w.Ssn.Nodes[NodeName(n)]
		out = append(out, n)
		out = append(out, EncRes(ni.Idle)...)
		out = append(out, EncRes(ni.Used)...)
		out = append(out, EncRes(ni.Releasing)...)
		out = append(out, EncRes(ni.Pipelined)...)
		out = append(out, EncRes(ni.Allocatable)...)
		if ni.Node != nil {
			out = append(out, 1)
		} else {
			out = append(out, 0)
		}
		tids := SortedIDs(ni.Tasks, func(u api.TaskID) int64 { return ParseID(string(u)) })
		out = append(out, int64(len(tids)))
		byID := map[int64]*api.TaskInfo{}
		for k, t := range ni.Tasks {
			byID[ParseID(string(k))] = t
		}
		for _, i := range tids {
			out = append(out, EncTaskBrief(byID[i])...)
		}
	}
	sids := SortedIDs(w.Rec.Share, func(j int64) int64 { return j })
	out = append(out, int64(len(sids)))
	for _, j := range sids {
		out = append(out, j)
		out = append(out, EncRes(w.Rec.Share[j])...)
	}
	return out
}
