package cachectl

import (
	"fmt"
	"hash/fnv"
	"math"
	"reflect"
	"strings"
	"time"
	"unsafe"

	v1 "k8s.io/api/core/v1"

	"volcano.sh/volcano/pkg/scheduler/cache"
)

// Types the walkers never enter: process-wide singletons and machinery
// (time.Location, mutexes, informers / listers / clients), and the API
// objects every clone shares BY DESIGN and the scheduler treats as immutable
// (*v1.Pod of a TaskInfo, *v1.Node of a NodeInfo).  *time.Duration
// (JobInfo.WaitingTime, shared between a job and its clone) falls under "time".
func skipType(t reflect.Type) bool {
	if t == reflect.TypeOf(v1.Pod{}) || t == reflect.TypeOf(v1.Node{}) {
		return true
	}
	p := t.PkgPath()
	for _, pre := range []string{"time", "sync", "reflect", "runtime", "unsafe", "context",
		"k8s.io/client-go", "k8s.io/klog", "k8s.io/apimachinery/pkg/runtime", "k8s.io/apimachinery/pkg/labels"} {
		if p == pre || strings.HasPrefix(p, pre+"/") {
			return true
		}
	}
	return false
}

func isTime(t reflect.Type) bool { return t == reflect.TypeOf(time.Time{}) }

// writable returns an addressable, settable view of v (also for unexported fields).
func writable(v reflect.Value) reflect.Value {
	if !v.CanAddr() {
		return v
	}
	return reflect.NewAt(v.Type(), unsafe.Pointer(v.UnsafeAddr())).Elem()
}

// ---------- deep fingerprint ----------

type fper struct {
	seen map[uintptr]bool
}

func mix(h uint64, x uint64) uint64 {
	h ^= x + 0x9e3779b97f4a7c15 + (h << 6) + (h >> 2)
	return h
}

func hashString(s string) uint64 {
	f := fnv.New64a()
	f.Write([]byte(s))
	return f.Sum64()
}

func (f *fper) walk(v reflect.Value) uint64 {
	if !v.IsValid() {
		return 1
	}
	t := v.Type()
	h := hashString(t.String())
	switch v.Kind() {
	case reflect.Ptr:
		if v.IsNil() {
			return mix(h, 2)
		}
		if skipType(t.Elem()) && t.Elem() != reflect.TypeOf(v1.Pod{}) && t.Elem() != reflect.TypeOf(v1.Node{}) {
			return mix(h, 3)
		}
		if f.seen[v.Pointer()] {
			return mix(h, 4)
		}
		f.seen[v.Pointer()] = true
		return mix(h, f.walk(v.Elem()))
	case reflect.Interface:
		if v.IsNil() {
			return mix(h, 2)
		}
		if skipType(v.Elem().Type()) || (v.Elem().Kind() == reflect.Ptr && skipType(v.Elem().Type().Elem())) {
			return mix(h, 3)
		}
		return mix(h, f.walk(v.Elem()))
	case reflect.Struct:
		if isTime(t) { // wall, ext (the location pointer is a process-wide singleton)
			return mix(mix(h, v.Field(0).Uint()), uint64(v.Field(1).Int()))
		}
		if skipType(t) && t != reflect.TypeOf(v1.Pod{}) && t != reflect.TypeOf(v1.Node{}) {
			return mix(h, 3)
		}
		for i := 0; i < v.NumField(); i++ {
			h = mix(h, f.walk(v.Field(i)))
		}
		return h
	case reflect.Slice:
		if v.IsNil() {
			return mix(h, 2)
		}
		fallthrough
	case reflect.Array:
		h = mix(h, uint64(v.Len()))
		for i := 0; i < v.Len(); i++ {
			h = mix(h, f.walk(v.Index(i)))
		}
		return h
	case reflect.Map:
		if v.IsNil() {
			return mix(h, 2)
		}
		var sum uint64
		it := v.MapRange()
		for it.Next() {
			sum += mix(f.walk(it.Key()), f.walk(it.Value()))
		}
		return mix(mix(h, uint64(v.Len())), sum)
	case reflect.String:
		return mix(h, hashString(v.String()))
	case reflect.Bool:
		if v.Bool() {
			return mix(h, 5)
		}
		return mix(h, 6)
	case reflect.Int, reflect.Int8, reflect.Int16, reflect.Int32, reflect.Int64:
		return mix(h, uint64(v.Int()))
	case reflect.Uint, reflect.Uint8, reflect.Uint16, reflect.Uint32, reflect.Uint64, reflect.Uintptr:
		return mix(h, v.Uint())
	case reflect.Float32, reflect.Float64:
		return mix(h, math.Float64bits(v.Float()))
	case reflect.Complex64, reflect.Complex128:
		return mix(h, math.Float64bits(real(v.Complex())))
	}
	return mix(h, 7) // func, chan, unsafe pointer
}

// Fingerprint hashes everything reachable from the cache's mirrors of the
// cluster (every field of every JobInfo, TaskInfo, PodGroup, NodeInfo,
// QueueInfo, ..., including the API objects they point to).
func Fingerprint(sc *cache.SchedulerCache) uint64 {
	f := &fper{seen: map[uintptr]bool{}}
	h := uint64(0)
	for _, x := range []interface{}{sc.Jobs, sc.Nodes, sc.Queues, sc.NodeList, sc.PriorityClasses, sc.NamespaceCollection,
		sc.CSINodesStatus, sc.HyperNodesInfo, sc.NodeShards, sc.InUseNodesInShard} {
		h = mix(h, f.walk(reflect.ValueOf(x)))
	}
	return h
}

// ---------- deep in-place mutation ----------

type mutator struct {
	seen   map[uintptr]bool
	Writes int
}

func (m *mutator) scalar(v reflect.Value) bool {
	switch v.Kind() {
	case reflect.String:
		v.SetString(v.String() + "~")
	case reflect.Bool:
		v.SetBool(!v.Bool())
	case reflect.Int, reflect.Int8, reflect.Int16, reflect.Int32, reflect.Int64:
		v.SetInt(v.Int() + 3)
	case reflect.Uint, reflect.Uint8, reflect.Uint16, reflect.Uint32, reflect.Uint64:
		v.SetUint(v.Uint() + 3)
	case reflect.Float32, reflect.Float64:
		v.SetFloat(v.Float() + 1000)
	default:
		return false
	}
	m.Writes++
	return true
}

// walk writes IN PLACE to every cell reachable from v: scalars through
// pointers, every element of every slice, every value of every map (plus one
// key deleted and one added), fields of structs (exported or not).
func (m *mutator) walk(v reflect.Value) {
	if !v.IsValid() {
		return
	}
	t := v.Type()
	switch v.Kind() {
	case reflect.Ptr:
		if v.IsNil() || skipType(t.Elem()) || m.seen[v.Pointer()] {
			return
		}
		m.seen[v.Pointer()] = true
		m.walk(v.Elem())
	case reflect.Interface:
		if v.IsNil() {
			return
		}
		e := v.Elem()
		switch e.Kind() {
		case reflect.Ptr, reflect.Map, reflect.Slice:
			m.walk(e)
		}
	case reflect.Struct:
		if skipType(t) {
			return
		}
		w := writable(v)
		if isTime(t) {
			if w.CanSet() {
				w.Set(reflect.ValueOf(time.Unix(12345, 0)))
				m.Writes++
			}
			return
		}
		for i := 0; i < w.NumField(); i++ {
			m.walk(writable(w.Field(i)))
		}
	case reflect.Slice, reflect.Array:
		if v.Kind() == reflect.Slice && v.IsNil() {
			return
		}
		for i := 0; i < v.Len(); i++ {
			m.walk(writable(v.Index(i))) // slice elements are addressable: the write goes to the backing array
		}
	case reflect.Map:
		if v.IsNil() {
			return
		}
		keys := v.MapKeys()
		for _, k := range keys {
			val := v.MapIndex(k)
			switch val.Kind() {
			case reflect.Ptr, reflect.Map, reflect.Slice, reflect.Interface:
				m.walk(val)
			default:
				cp := reflect.New(val.Type()).Elem()
				cp.Set(val)
				m.walk(cp)
				v.SetMapIndex(k, cp)
			}
		}
		if len(keys) > 0 {
			v.SetMapIndex(keys[0], reflect.Value{}) // delete
			m.Writes++
		}
		nk := reflect.New(t.Key()).Elem()
		if m.scalar(nk) {
			v.SetMapIndex(nk, reflect.Zero(t.Elem()))
		}
	default:
		if v.CanSet() {
			m.scalar(v)
		}
	}
}

// DeepMutate returns the number of cells written.
func DeepMutate(x interface{}) int {
	m := &mutator{seen: map[uintptr]bool{}}
	m.walk(reflect.ValueOf(x))
	return m.Writes
}

func mustf(cond bool, format string, a ...interface{}) {
	if !cond {
		panic(fmt.Sprintf(format, a...))
	}
}
