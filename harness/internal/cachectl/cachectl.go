// Package cachectl drives a real (mock-constructed) SchedulerCache from the
// C08 harness: an informer-like store that supplies the "old" objects, a
// deterministic replacement for the repair work queues, a scripted binder and
// evictor, the canonical dump and the snapshot mutator.
package cachectl

import (
	"context"
	"fmt"
	"sort"
	"strings"
	"sync"
	"time"

	v1 "k8s.io/api/core/v1"
	k8sschedulingv1 "k8s.io/api/scheduling/v1"
	"k8s.io/apimachinery/pkg/api/resource"
	metav1 "k8s.io/apimachinery/pkg/apis/meta/v1"
	k8sruntime "k8s.io/apimachinery/pkg/runtime"
	"k8s.io/apimachinery/pkg/types"
	"k8s.io/client-go/kubernetes"
	k8sfake "k8s.io/client-go/kubernetes/fake"
	k8stesting "k8s.io/client-go/testing"
	"k8s.io/client-go/tools/record"

	"verif/harness/internal/sched"
	"volcano.sh/apis/pkg/apis/scheduling"
	schedulingv1beta1 "volcano.sh/apis/pkg/apis/scheduling/v1beta1"
	"volcano.sh/volcano/pkg/scheduler/api"
	"volcano.sh/volcano/pkg/scheduler/cache"
	"volcano.sh/volcano/pkg/scheduler/framework"
	"volcano.sh/volcano/pkg/scheduler/util"
)

// EpsUnits is minResource (0.1) on the 1/16 grid.
const EpsUnits = 2

// ---------- deterministic work queue ----------

// Queue is a FIFO without duplicates.  AddRateLimited / AddAfter add at once:
// a retried key waits for the next drain instead of for a timer.
type Queue struct {
	mu       sync.Mutex
	items    []string
	adds     int
	requeues map[string]int // what a rate limiter counts: AddRateLimited since the last Forget
}

func (q *Queue) Add(item string) {
	q.mu.Lock()
	defer q.mu.Unlock()
	q.adds++
	for _, x := range q.items {
		if x == item {
			return
		}
	}
	q.items = append(q.items, item)
}
func (q *Queue) Len() int { q.mu.Lock(); defer q.mu.Unlock(); return len(q.items) }
func (q *Queue) Get() (string, bool) {
	q.mu.Lock()
	defer q.mu.Unlock()
	if len(q.items) == 0 {
		panic("cachectl.Queue: Get on an empty queue would block")
	}
	x := q.items[0]
	q.items = append([]string{}, q.items[1:]...)
	return x, false
}
func (q *Queue) Done(string)                           {}
func (q *Queue) ShutDown()                             {}
func (q *Queue) ShutDownWithDrain()                    {}
func (q *Queue) ShuttingDown() bool                    { return false }
func (q *Queue) AddAfter(item string, _ time.Duration) { q.Add(item) }
func (q *Queue) AddRateLimited(item string) {
	q.mu.Lock()
	if q.requeues == nil {
		q.requeues = map[string]int{}
	}
	q.requeues[item]++
	q.mu.Unlock()
	q.Add(item)
}
func (q *Queue) Forget(item string) { q.mu.Lock(); delete(q.requeues, item); q.mu.Unlock() }
func (q *Queue) NumRequeues(item string) int {
	q.mu.Lock()
	defer q.mu.Unlock()
	return q.requeues[item]
}
func (q *Queue) Adds() int { q.mu.Lock(); defer q.mu.Unlock(); return q.adds }
func (q *Queue) Keys() []string {
	q.mu.Lock()
	defer q.mu.Unlock()
	return append([]string{}, q.items...)
}

// ---------- scripted binder / evictor ----------

type Binder struct{ Fail map[int64]bool }

func (b *Binder) Bind(_ kubernetes.Interface, tasks []*api.TaskInfo) map[api.TaskID]string {
	out := map[api.TaskID]string{}
	for _, t := range tasks {
		if b.Fail[sched.ParseID(string(t.UID))] {
			out[t.UID] = "scripted bind failure"
		}
	}
	return out
}

// PreBinder is registered on the cache like a plugin's pre-binder (RegisterBinder):
// PreBind fails for the chosen pods; roll-backs are counted.
type PreBinder struct {
	Fail      map[int64]bool
	PreBinds  int
	RollBacks int
}

func (p *PreBinder) PreBind(_ context.Context, bc *cache.BindContext) error {
	p.PreBinds++
	if p.Fail[sched.ParseID(string(bc.TaskInfo.UID))] {
		return fmt.Errorf("scripted pre-bind failure")
	}
	return nil
}
func (p *PreBinder) PreBindRollBack(_ context.Context, _ *cache.BindContext) { p.RollBacks++ }

// StatusUpdater answers the pod status update a failed (pre-)bind triggers.
type StatusUpdater struct {
	util.FakeStatusUpdater
	FailPod    bool
	FailIDs    map[int64]bool // per pod
	PodUpdates int
}

func (u *StatusUpdater) UpdatePodStatus(pod *v1.Pod) (*v1.Pod, error) {
	u.PodUpdates++
	if u.FailPod || u.FailIDs[sched.ParseID(pod.Name)] {
		return nil, fmt.Errorf("scripted status update failure")
	}
	return pod, nil
}

type Evictor struct {
	Fail map[int64]bool
	Done chan struct{}
}

func (e *Evictor) Evict(p *v1.Pod, _ string) error {
	defer func() { e.Done <- struct{}{} }()
	if e.Fail[sched.ParseID(p.Name)] {
		return fmt.Errorf("scripted evict failure")
	}
	return nil
}

// ---------- specs ----------

type PodSpec struct {
	ID, Job, Node, Phase int64 // Job / Node 0 = none; Phase 1 Pending 2 Running 3 Succeeded 4 Failed 5 Unknown
	Deleting             bool
	Role, Prio           int64
	Preempt              bool
	CPU, Mem, GPU        int64
	Cond                 int64 // PodScheduled=False condition of an earlier failed bind: 0 none, k node n<k>, 9 pre-bind
}

// the messages taskUnschedulable writes for the scripted failures
func BindFailMsg(node int64) string {
	return fmt.Sprintf("failed to bind to node %s: %s", sched.NodeName(node), "scripted bind failure")
}
func PreBindFailMsg(pod int64) string {
	return fmt.Sprintf("execute preBind for pod ns/%s failed: scripted pre-bind failure, resync the task", sched.TaskName(pod))
}

// PGSpec: Conds = number of status conditions the PodGroup already carries
// (written by earlier scheduling cycles), Ann = it has annotations.
type PGSpec struct {
	ID, UID, Queue, Min int64
	Conds               int64
	Ann                 bool
	Class               int64 // spec.priorityClassName: 0 = none, k = "pc<k>" (the class need not exist)
}

// PrioSpec is a version of a PriorityClass.
type PrioSpec struct {
	ID, Value int64
	Global    bool
}

func PrioName(id int64) string { return fmt.Sprintf("pc%d", id) }

func (p PrioSpec) Object(rv string) *k8sschedulingv1.PriorityClass {
	return &k8sschedulingv1.PriorityClass{ObjectMeta: metav1.ObjectMeta{Name: PrioName(p.ID), ResourceVersion: rv},
		Value: int32(p.Value), GlobalDefault: p.Global}
}

// NodeX is a delivered version of a Node: the resources of sched.NodeSpec plus
// the labels / annotations / spec fields NodeInfo reads or ignores.
type NodeX struct {
	sched.NodeSpec
	OverCPUSet, OverMemSet   bool  // annotations volcano.sh/oversubscription-cpu / -memory present
	OverCPU, OverMem         int64 // milli-cpu, bytes
	OverNode, Offline        bool  // label volcano.sh/oversubscription, annotation volcano.sh/offline-job-evicting
	Zone                     int64 // label volcano.sh/revocable-zone (0 = absent)
	Unsched, Tainted, NotRdy bool  // spec.unschedulable, a NoSchedule taint, Ready condition false: ignored by the cache
}

func (n NodeX) Object() *v1.Node {
	o := n.NodeSpec.Object()
	o.Labels = map[string]string{}
	o.Annotations = map[string]string{}
	if n.OverNode {
		o.Labels["volcano.sh/oversubscription"] = "true"
	}
	if n.Zone != 0 {
		o.Labels["volcano.sh/revocable-zone"] = fmt.Sprintf("z%d", n.Zone)
	}
	if n.Offline {
		o.Annotations["volcano.sh/offline-job-evicting"] = "true"
	}
	if n.OverCPUSet {
		o.Annotations["volcano.sh/oversubscription-cpu"] = fmt.Sprint(n.OverCPU)
	}
	if n.OverMemSet {
		o.Annotations["volcano.sh/oversubscription-memory"] = fmt.Sprint(n.OverMem)
	}
	o.Spec.Unschedulable = n.Unsched
	if n.Tainted {
		o.Spec.Taints = []v1.Taint{{Key: "verif", Effect: v1.TaintEffectNoSchedule}}
	}
	st := v1.ConditionTrue
	if n.NotRdy {
		st = v1.ConditionFalse
	}
	o.Status.Conditions = []v1.NodeCondition{{Type: v1.NodeReady, Status: st}}
	return o
}

func QueueName(q int64) string {
	switch q {
	case 0:
		return ""
	case 1:
		return "default"
	}
	return fmt.Sprintf("q%d", q)
}
func QueueNum(name string) int64 {
	switch name {
	case "":
		return 0
	case "default":
		return 1
	}
	return sched.ParseID(name)
}

func (p PodSpec) Object() *v1.Pod {
	rl := v1.ResourceList{}
	if p.CPU > 0 {
		rl[v1.ResourceCPU] = *resource.NewMilliQuantity(p.CPU, resource.DecimalSI)
	}
	if p.Mem > 0 {
		rl[v1.ResourceMemory] = *resource.NewQuantity(p.Mem, resource.BinarySI)
	}
	if p.GPU > 0 {
		rl[sched.GPUName] = *resource.NewQuantity(p.GPU, resource.DecimalSI)
	}
	pod := &v1.Pod{
		ObjectMeta: metav1.ObjectMeta{
			Name: sched.TaskName(p.ID), Namespace: "ns", UID: types.UID(sched.TaskName(p.ID)),
			Annotations: map[string]string{},
			Labels:      map[string]string{"volcano.sh/task-spec": sched.RoleName(p.Role)},
		},
		Spec: v1.PodSpec{
			SchedulerName: "volcano",
			Containers:    []v1.Container{{Name: "c", Resources: v1.ResourceRequirements{Requests: rl}}},
		},
	}
	if p.Job != 0 {
		pod.Annotations["scheduling.k8s.io/group-name"] = sched.JobName(p.Job)
	}
	prio := int32(p.Prio)
	pod.Spec.Priority = &prio
	if p.Preempt {
		pod.Annotations["volcano.sh/preemptable"] = "true"
	}
	if p.Node != 0 {
		pod.Spec.NodeName = sched.NodeName(p.Node)
	}
	switch p.Phase {
	case 1:
		pod.Status.Phase = v1.PodPending
	case 2:
		pod.Status.Phase = v1.PodRunning
	case 3:
		pod.Status.Phase = v1.PodSucceeded
	case 4:
		pod.Status.Phase = v1.PodFailed
	default:
		pod.Status.Phase = v1.PodUnknown
	}
	if p.Deleting {
		now := metav1.Now()
		pod.DeletionTimestamp = &now
	}
	if p.Cond != 0 {
		msg := PreBindFailMsg(p.ID)
		if p.Cond != 9 {
			msg = BindFailMsg(p.Cond)
		}
		pod.Status.Conditions = []v1.PodCondition{{Type: v1.PodScheduled, Status: v1.ConditionFalse,
			Reason: api.PodReasonSchedulerError, Message: msg}}
	}
	return pod
}

// ---------- the controller ----------

type Ctl struct {
	SC        *cache.SchedulerCache
	ErrQ      *Queue
	DelQ      *Queue
	Binder    *Binder
	Evictor   *Evictor
	PreBinder *PreBinder
	Status    *StatusUpdater
	gone      map[int64]bool    // deleted on the API server, delete notification not delivered yet
	GetFails  bool              // every GET of a pod fails (API server unreachable)
	pods      map[int64]*v1.Pod // informer store: last delivered version
	pgs       map[int64]*schedulingv1beta1.PodGroup
	queues    map[int64]*schedulingv1beta1.Queue
	prios     map[int64]*k8sschedulingv1.PriorityClass
	rv        int
}

func New() *Ctl {
	c := &Ctl{
		ErrQ: &Queue{}, DelQ: &Queue{},
		Binder:    &Binder{Fail: map[int64]bool{}},
		Evictor:   &Evictor{Fail: map[int64]bool{}, Done: make(chan struct{}, 16)},
		PreBinder: &PreBinder{Fail: map[int64]bool{}}, Status: &StatusUpdater{}, gone: map[int64]bool{},
		prios: map[int64]*k8sschedulingv1.PriorityClass{},
		pods:  map[int64]*v1.Pod{}, pgs: map[int64]*schedulingv1beta1.PodGroup{}, queues: map[int64]*schedulingv1beta1.Queue{},
	}
	c.SC = cache.NewCustomMockSchedulerCache("volcano", c.Binder, c.Evictor, c.Status, nil, &record.FakeRecorder{})
	c.SC.RegisterBinder("verif-prebinder", c.PreBinder)
	c.SC.VerifSetErrTasksQueue(c.ErrQ)
	// the API server can be made unreachable for the GET syncTask issues
	c.SC.Client().(*k8sfake.Clientset).PrependReactor("get", "pods", func(k8stesting.Action) (bool, k8sruntime.Object, error) {
		if c.GetFails {
			return true, nil, fmt.Errorf("scripted: API server unreachable")
		}
		return false, nil, nil
	})
	c.SC.DeletedJobs = c.DelQ
	return c
}

func (c *Ctl) nextRV() string { c.rv++; return fmt.Sprint(c.rv) }

func (c *Ctl) PodEvent(p PodSpec) {
	pod := p.Object()
	pod.ResourceVersion = c.nextRV()
	pods := c.SC.Client().CoreV1().Pods("ns")
	old, known := c.pods[p.ID]
	if known && !c.gone[p.ID] {
		if _, err := pods.Update(context.TODO(), pod.DeepCopy(), metav1.UpdateOptions{}); err != nil {
			panic(err)
		}
	} else {
		if _, err := pods.Create(context.TODO(), pod.DeepCopy(), metav1.CreateOptions{}); err != nil {
			panic(err)
		}
	}
	delete(c.gone, p.ID)
	if known {
		c.SC.UpdatePod(old, pod)
	} else {
		c.SC.AddPod(pod)
	}
	c.pods[p.ID] = pod
}

// ApiGone deletes the pod on the (fake) API server only: the informer has not
// delivered the delete yet, a resync in between finds no object.
func (c *Ctl) ApiGone(id int64) {
	old, ok := c.pods[id]
	if !ok || c.gone[id] {
		return
	}
	if err := c.SC.Client().CoreV1().Pods("ns").Delete(context.TODO(), old.Name, metav1.DeleteOptions{}); err != nil {
		panic(err)
	}
	c.gone[id] = true
}

func (c *Ctl) PodDelete(id int64) {
	old, ok := c.pods[id]
	if !ok {
		return
	}
	if !c.gone[id] {
		if err := c.SC.Client().CoreV1().Pods("ns").Delete(context.TODO(), old.Name, metav1.DeleteOptions{}); err != nil {
			panic(err)
		}
	}
	delete(c.gone, id)
	c.SC.DeletePod(old)
	delete(c.pods, id)
}

func (c *Ctl) NodeEvent(n NodeX) {
	if err := c.SC.AddOrUpdateNode(n.Object()); err != nil {
		panic(err)
	}
}
func (c *Ctl) NodeDelete(id int64) { _ = c.SC.RemoveNode(sched.NodeName(id)) }

func (c *Ctl) PGEvent(g PGSpec) {
	pg := &schedulingv1beta1.PodGroup{
		ObjectMeta: metav1.ObjectMeta{Name: sched.JobName(g.ID), Namespace: "ns", UID: types.UID(fmt.Sprintf("pguid-%d", g.UID)),
			ResourceVersion: c.nextRV()},
		Spec:   schedulingv1beta1.PodGroupSpec{MinMember: int32(g.Min), Queue: QueueName(g.Queue)},
		Status: schedulingv1beta1.PodGroupStatus{Phase: schedulingv1beta1.PodGroupInqueue},
	}
	if g.Class != 0 {
		pg.Spec.PriorityClassName = PrioName(g.Class)
	}
	if g.Ann {
		pg.Annotations = map[string]string{"verif.io/note": "a", "volcano.sh/preemptable": "false"}
	}
	condTypes := []schedulingv1beta1.PodGroupConditionType{schedulingv1beta1.PodGroupUnschedulableType, schedulingv1beta1.PodGroupScheduled}
	for i := int64(0); i < g.Conds && i < 2; i++ {
		pg.Status.Conditions = append(pg.Status.Conditions, schedulingv1beta1.PodGroupCondition{
			Type: condTypes[i], Status: v1.ConditionTrue, TransitionID: "earlier-cycle", Reason: "NotEnoughResources", Message: "from an earlier cycle"})
	}
	if old, ok := c.pgs[g.ID]; ok {
		c.SC.UpdatePodGroupV1beta1(old, pg)
	} else {
		c.SC.AddPodGroupV1beta1(pg)
	}
	c.pgs[g.ID] = pg
}
func (c *Ctl) PGDelete(id int64) {
	// the handler is called even for a PodGroup the informer never delivered:
	// it reports "can not found job" and changes nothing
	old, ok := c.pgs[id]
	if !ok {
		old = &schedulingv1beta1.PodGroup{ObjectMeta: metav1.ObjectMeta{Name: sched.JobName(id), Namespace: "ns"}}
	}
	c.SC.DeletePodGroupV1beta1(old)
	delete(c.pgs, id)
}

// PrioEvent / PrioDelete: the PriorityClass informer's notifications
func (c *Ctl) PrioEvent(p PrioSpec) {
	obj := p.Object(c.nextRV())
	if old, ok := c.prios[p.ID]; ok {
		c.SC.UpdatePriorityClass(old, obj)
	} else {
		c.SC.AddPriorityClass(obj)
	}
	c.prios[p.ID] = obj
}
func (c *Ctl) PrioDelete(id int64) {
	old, ok := c.prios[id]
	if !ok {
		return
	}
	c.SC.DeletePriorityClass(old)
	delete(c.prios, id)
}

var queueStates = []schedulingv1beta1.QueueState{"", schedulingv1beta1.QueueStateOpen, schedulingv1beta1.QueueStateClosed, schedulingv1beta1.QueueStateClosing}

// QueueEvent delivers a Queue version.  metadata.generation is never set: a version may
// differ from the previous one in spec.weight only or in status.state only, with the same generation.
func (c *Ctl) QueueEvent(q, weight, state int64) {
	obj := &schedulingv1beta1.Queue{ObjectMeta: metav1.ObjectMeta{Name: QueueName(q), ResourceVersion: c.nextRV(),
		Annotations: map[string]string{"verif.io/note": "q"}},
		Spec:   schedulingv1beta1.QueueSpec{Weight: int32(weight)},
		Status: schedulingv1beta1.QueueStatus{State: queueStates[state%4]}}
	if old, ok := c.queues[q]; ok {
		c.SC.UpdateQueueV1beta1(old, obj)
	} else {
		c.SC.AddQueueV1beta1(obj)
	}
	c.queues[q] = obj
}
func (c *Ctl) QueueDelete(q int64) {
	c.SC.DeleteQueueV1beta1(&schedulingv1beta1.Queue{ObjectMeta: metav1.ObjectMeta{Name: QueueName(q)}})
	delete(c.queues, q)
}

func (c *Ctl) DrainCleanup() {
	for n := c.DelQ.Len(); n > 0; n-- {
		c.SC.VerifProcessCleanupJob()
	}
}

// DrainResyncFailing: k drains during which every GET fails; each failed sync re-queues its key
func (c *Ctl) DrainResyncFailing(k int64) {
	c.GetFails = true
	for i := int64(0); i < k; i++ {
		c.DrainResync()
	}
	c.GetFails = false
}

func (c *Ctl) DrainResync() {
	for n := c.ErrQ.Len(); n > 0; n-- {
		c.SC.VerifProcessResyncTask()
	}
}

// the TaskInfo a scheduling cycle would hand back: a clone of the cache's task
func (c *Ctl) cycleTask(j, t int64) *api.TaskInfo {
	if job, ok := c.SC.Jobs[sched.JobID(j)]; ok {
		if ti, ok := job.Tasks[api.TaskID(sched.TaskName(t))]; ok {
			return ti.Clone()
		}
	}
	return &api.TaskInfo{UID: api.TaskID(sched.TaskName(t)), Job: sched.JobID(j), Name: sched.TaskName(t), Namespace: "ns",
		Resreq: api.EmptyResource(), InitResreq: api.EmptyResource()}
}

func errCode(err error) int64 {
	switch {
	case err == nil:
		return 0
	case strings.Contains(err.Error(), "failed to find"):
		return 1
	case strings.Contains(err.Error(), "host does not exist"), strings.Contains(err.Error(), "host is not ready in the cache"):
		// a placeholder NodeInfo (no Node object) is refused like an unknown node (fix 8dab8c3)
		return 2
	case strings.Contains(err.Error(), "PodGroup of Job"):
		return 3
	}
	return 4
}

// Bind: AddBindTask, then the bind flow (pre-binders, Binder.Bind) inline.
// fault: 1 bound; 0 Binder.Bind fails; 2 PreBind fails; 3 PreBind fails and the pod status
// write fails too; 4 Binder.Bind fails and the status write fails too.  The status write is a
// no-op (not even attempted) when the pod already carries the identical condition.
func (c *Ctl) Bind(j, t, n int64, fault int64) int64 {
	ti := c.cycleTask(j, t)
	ti.NodeName = sched.NodeName(n)
	c.Binder.Fail[t] = fault == 0 || fault == 4
	c.PreBinder.Fail[t] = fault == 2 || fault == 3
	c.Status.FailPod = fault == 3 || fault == 4
	wantMsg := BindFailMsg(n)
	if fault == 2 || fault == 3 {
		wantMsg = PreBindFailMsg(t)
	}
	noop := false // the pod already carries exactly the condition taskUnschedulable would write
	if ti.Pod != nil {
		for _, cd := range ti.Pod.Status.Conditions {
			if cd.Type == v1.PodScheduled && cd.Status == v1.ConditionFalse && cd.Reason == api.PodReasonSchedulerError && cd.Message == wantMsg {
				noop = true
			}
		}
	}
	pre, rb, up := c.PreBinder.PreBinds, c.PreBinder.RollBacks, c.Status.PodUpdates
	err := c.SC.AddBindTask(&cache.BindContext{TaskInfo: ti})
	if err == nil {
		if c.SC.VerifProcessBindFlow() != 1 {
			panic("bind flow: expected exactly one queued bind context")
		}
		// harness-side assertions on the collaboration with the pre-binder
		if c.PreBinder.PreBinds != pre+1 {
			panic("bind flow: the registered pre-binder was not run exactly once")
		}
		// (not asserted for fault 4: what matters for the cache there is the resync, which law 102 checks)
		if fault == 0 && c.PreBinder.RollBacks != rb+1 {
			panic("bind flow: a failed Binder.Bind did not roll the pre-binder back")
		}
		if fault == 1 && (c.PreBinder.RollBacks != rb || c.Status.PodUpdates != up) {
			panic("bind flow: successful bind rolled back / reported unschedulable")
		}
		if fault != 1 && !noop && c.Status.PodUpdates != up+1 {
			panic("bind flow: a failed (pre-)bind did not report the pod unschedulable")
		}
		if fault != 1 && noop && c.Status.PodUpdates != up {
			panic("bind flow: the status write was expected to be a no-op")
		}
	}
	c.Status.FailPod = false
	return errCode(err)
}

// BindCtx is one context of a batch: job, task, node, API outcome (as for Bind).
type BindCtx struct{ J, T, N, F int64 }

// BindBatch: AddBindTask for every context, then the bind flow on the whole batch at once
// (BATCH_BIND_NUM > 1): the pre-binders walk the batch, Bind sends what passed them.
func (c *Ctl) BindBatch(l []BindCtx) []int64 {
	codes := []int64{}
	c.Status.FailIDs = map[int64]bool{}
	queued := 0
	for _, x := range l {
		ti := c.cycleTask(x.J, x.T)
		ti.NodeName = sched.NodeName(x.N)
		err := c.SC.AddBindTask(&cache.BindContext{TaskInfo: ti})
		if err == nil {
			// the outcome of the API side is scripted per accepted context (a task can be accepted once only)
			c.Binder.Fail[x.T] = x.F == 0 || x.F == 4
			c.PreBinder.Fail[x.T] = x.F == 2 || x.F == 3
			c.Status.FailIDs[x.T] = x.F == 3 || x.F == 4
			queued++
		}
		codes = append(codes, errCode(err))
	}
	if got := c.SC.VerifProcessBindFlowBatch(); got != queued {
		panic(fmt.Sprintf("bind flow: %d contexts queued, %d processed", queued, got))
	}
	c.Status.FailIDs = nil
	return codes
}

func (c *Ctl) Evict(j, t int64, ok bool) int64 {
	ti := c.cycleTask(j, t)
	c.Evictor.Fail[t] = !ok
	before := c.ErrQ.Adds()
	err := c.SC.Evict(ti, "verif")
	if err == nil {
		// Evict hands the API call to a goroutine; wait for it and for the resync it queues on failure
		<-c.Evictor.Done
		if !ok {
			deadline := time.Now().Add(5 * time.Second)
			for c.ErrQ.Adds() == before {
				if time.Now().After(deadline) {
					panic("failed eviction was not queued for resync")
				}
				time.Sleep(20 * time.Microsecond)
			}
		}
	}
	return errCode(err)
}

// ---------- dump ----------

func jobNum(id api.JobID) int64 {
	if id == "" {
		return 0
	}
	return sched.ParseID(string(id)[3:])
}

func EncTaskFull(t *api.TaskInfo) []int64 {
	out := []int64{sched.ParseID(string(t.UID)), sched.StatusKey(t.Status), sched.NodeRef(t.NodeName), jobNum(t.Job)}
	return append(out, sched.EncRes(t.Resreq)...)
}

func encTasks(ts []*api.TaskInfo) []int64 {
	sort.Slice(ts, func(a, b int) bool { return sched.ParseID(string(ts[a].UID)) < sched.ParseID(string(ts[b].UID)) })
	out := []int64{int64(len(ts))}
	for _, t := range ts {
		out = append(out, EncTaskFull(t)...)
	}
	return out
}

func pgUID(u types.UID) int64 {
	if u == "" {
		return 0
	}
	return sched.ParseID(string(u))
}

func EncCJob(j *api.JobInfo) []int64 {
	out := sched.EncJob(j)
	pg := int64(0)
	if j.PodGroup != nil {
		pg = 1
	}
	return append(out, pg, pgUID(j.PgUID), QueueNum(string(j.Queue)), int64(j.MinAvailable))
}

func EncNodeFull(n *api.NodeInfo, id int64) []int64 {
	has := int64(0)
	if n.Node != nil {
		has = 1
	}
	zone := int64(0)
	if n.RevocableZone != "" {
		zone = sched.ParseID(n.RevocableZone)
	}
	out := []int64{id, has, b2i(n.OversubscriptionNode), b2i(n.OfflineJobEvicting), zone}
	for _, r := range []*api.Resource{n.Idle, n.Used, n.Releasing, n.Pipelined, n.Allocatable} {
		out = append(out, sched.EncRes(r)...)
	}
	ts := []*api.TaskInfo{}
	for k, t := range n.Tasks {
		if string(k) != "ns/"+string(t.UID) {
			panic(fmt.Sprintf("node %s holds task %s under key %s", n.Name, t.UID, k))
		}
		ts = append(ts, t)
	}
	return append(out, encTasks(ts)...)
}

func b2i(b bool) int64 {
	if b {
		return 1
	}
	return 0
}

func sortedJobs(m map[api.JobID]*api.JobInfo) []*api.JobInfo {
	out := []*api.JobInfo{}
	for id, j := range m {
		if id != j.UID {
			panic("job stored under a foreign key")
		}
		out = append(out, j)
	}
	sort.Slice(out, func(a, b int) bool { return jobNum(out[a].UID) < jobNum(out[b].UID) })
	return out
}

func sortedNodes(m map[string]*api.NodeInfo) []*api.NodeInfo {
	out := []*api.NodeInfo{}
	for name, n := range m {
		if name != n.Name {
			panic("node stored under a foreign key")
		}
		out = append(out, n)
	}
	sort.Slice(out, func(a, b int) bool { return sched.ParseID(out[a].Name) < sched.ParseID(out[b].Name) })
	return out
}

func jobTasks(jobs []*api.JobInfo) []*api.TaskInfo {
	ts := []*api.TaskInfo{}
	for _, j := range jobs {
		for uid, t := range j.Tasks {
			if uid != t.UID {
				panic("task stored under a foreign key")
			}
			ts = append(ts, t)
		}
	}
	return ts
}

func encQueues(m map[api.QueueID]*api.QueueInfo) []int64 {
	qs := []int64{}
	for id := range m {
		qs = append(qs, QueueNum(string(id)))
	}
	sort.Slice(qs, func(a, b int) bool { return qs[a] < qs[b] })
	return append([]int64{int64(len(qs))}, qs...)
}

func encNodeList(l []string) []int64 {
	out := []int64{int64(len(l))}
	for _, n := range l {
		out = append(out, sched.ParseID(n))
	}
	return out
}

// Dump is the encoding C08/Entry.v eCache produces.
// what the cache holds of every queue: weight and state
func (c *Ctl) encQueueInfo() []int64 {
	ids := []int64{}
	by := map[int64]*api.QueueInfo{}
	for id, q := range c.SC.Queues {
		n := QueueNum(string(id))
		ids = append(ids, n)
		by[n] = q
	}
	sort.Slice(ids, func(a, b int) bool { return ids[a] < ids[b] })
	out := []int64{-116, int64(len(ids))}
	for _, n := range ids {
		q := by[n]
		st := int64(0)
		if q.Queue != nil {
			for k, v := range queueStates {
				if k > 0 && string(q.Queue.Status.State) == string(v) {
					st = int64(k)
				}
			}
		}
		out = append(out, n, int64(q.Weight), st)
	}
	return out
}

// JobStatusUpdate: what the session does at the end of a cycle for a job of its snapshot:
// SchedulerCache.UpdateJobStatus (PodGroup status through the StatusUpdater, the allocated-hypernode
// annotation and AllocatedHyperNode written back into the cache's JobInfo)
func (c *Ctl) JobStatusUpdate(j int64) {
	job, ok := c.SC.Snapshot().Jobs[sched.JobID(j)]
	if !ok || job.PodGroup == nil {
		return
	}
	job.AllocatedHyperNode = "hn-verif"
	if job.PodGroup.Annotations == nil {
		job.PodGroup.Annotations = map[string]string{}
	}
	job.PodGroup.Annotations[api.JobAllocatedHyperNode] = "hn-verif"
	job.PodGroup.Status.Running = int32(len(job.TaskStatusIndex[api.Running]))
	// the session has worked on its copy: a pending task is Allocated there
	for _, t := range jobTasks([]*api.JobInfo{job}) {
		if t.Status == api.Pending {
			job.UpdateTaskStatus(t, api.Allocated)
			break
		}
	}
	if _, err := c.SC.UpdateJobStatus(job, true, true, true); err != nil {
		panic(err)
	}
	// whatever the call kept of the session's job must not be the session's own cells
	DeepMutate(job)
}

func (c *Ctl) Dump() (out []int64) {
	sc := c.SC
	jobs := sortedJobs(sc.Jobs)
	out = []int64{-110}
	out = append(out, encTasks(jobTasks(jobs))...)
	out = append(out, -111, int64(len(jobs)))
	for _, j := range jobs {
		out = append(out, EncCJob(j)...)
	}
	nodes := sortedNodes(sc.Nodes)
	out = append(out, -112, int64(len(nodes)))
	for _, n := range nodes {
		out = append(out, EncNodeFull(n, sched.ParseID(n.Name))...)
	}
	out = append(out, -113)
	out = append(out, encNodeList(sc.NodeList)...)
	out = append(out, encQueues(sc.Queues)...)
	out = append(out, -114)
	ek := c.ErrQ.Keys()
	out = append(out, int64(len(ek)))
	for _, k := range ek { // "ns/j<N>/t<M>"
		i := strings.LastIndex(k, "/")
		out = append(out, jobNum(api.JobID(k[:i])), sched.ParseID(k[i+1:]))
	}
	dk := c.DelQ.Keys()
	out = append(out, int64(len(dk)))
	for _, k := range dk { // "ns/j<N>/<pguid>"
		i := strings.LastIndex(k, "/")
		out = append(out, jobNum(api.JobID(k[:i])), pgUID(types.UID(k[i+1:])))
	}
	defer func() { out = append(out, c.encQueueInfo()...) }()
	// the priority Snapshot() gives every job it contains (priorityClassName lookup, default fallback)
	snap := sortedJobs(sc.Snapshot().Jobs)
	out = append(out, -115, int64(len(snap)))
	for _, j := range snap {
		out = append(out, jobNum(j.UID), int64(j.Priority))
	}
	return out
}

func negative(r *api.Resource) bool {
	u := func(x float64) int64 { return int64(x * sched.Grid) }
	if !(-EpsUnits < u(r.MilliCPU)) || !(-EpsUnits < u(r.Memory)) {
		return true
	}
	for _, v := range r.ScalarResources {
		if !(-EpsUnits < u(v)) {
			return true
		}
	}
	return false
}

// Hazard: NodeInfo.Clone re-checks Binding tasks against Idle; with an
// overdrawn ledger which of them survive depends on map iteration order.
func Hazard(n *api.NodeInfo) bool {
	if n.Node == nil {
		return false
	}
	binding := false
	for _, t := range n.Tasks {
		if t.Status == api.Binding {
			binding = true
		}
	}
	return binding && negative(n.Idle)
}

// Snapshot takes a real snapshot and encodes it as C08/Entry.v eSnap does.
func (c *Ctl) Snapshot() (*api.ClusterInfo, []int64) {
	hz := []int64{}
	isHz := map[string]bool{}
	for _, n := range sortedNodes(c.SC.Nodes) {
		if Hazard(n) {
			hz = append(hz, sched.ParseID(n.Name))
			isHz[n.Name] = true
		}
	}
	ci := c.SC.Snapshot()
	jobs := sortedJobs(ci.Jobs)
	out := encTasks(jobTasks(jobs))
	out = append(out, int64(len(jobs)))
	for _, j := range jobs {
		out = append(out, EncCJob(j)...)
	}
	nodes := []*api.NodeInfo{}
	for _, n := range sortedNodes(ci.Nodes) {
		if !isHz[n.Name] {
			nodes = append(nodes, n)
		}
	}
	out = append(out, int64(len(nodes)))
	for _, n := range nodes {
		out = append(out, EncNodeFull(n, sched.ParseID(n.Name))...)
	}
	out = append(out, int64(len(hz)))
	out = append(out, hz...)
	out = append(out, encNodeList(ci.NodeList)...)
	out = append(out, encQueues(ci.Queues)...)
	return ci, out
}

func scramble(r *api.Resource) {
	if r == nil {
		return
	}
	r.MilliCPU += 1000
	r.Memory += 4096
	r.MaxTaskNum += 3
	for k := range r.ScalarResources {
		r.ScalarResources[k] += 1000
	}
	if r.ScalarResources != nil {
		r.ScalarResources["verif.io/foreign"] = 16
	}
}

func scrambleTask(t *api.TaskInfo) {
	t.Status = api.Pipelined
	t.NodeName = "n999"
	t.Job = "ns/j999"
	t.Priority += 7
	t.Preemptable = !t.Preemptable
	t.BestEffort = !t.BestEffort
	scramble(t.Resreq)
	scramble(t.InitResreq)
	if t.PodAnnotations != nil {
		t.PodAnnotations["verif"] = "x"
	}
}

// MutateSnapshot changes everything a scheduling cycle can reach through a
// snapshot without going through Bind / Evict / UpdateJobStatus.  The API
// objects themselves (*v1.Pod, *v1.Node), which clones share by design and
// which the scheduler treats as immutable, are left alone.
func MutateSnapshot(ci *api.ClusterInfo) {
	sessionWrites(ci)
	mustf(DeepMutate(ci) > 0 || (len(ci.Jobs) == 0 && len(ci.Nodes) == 0 && len(ci.Queues) == 0), "deep mutation wrote nothing")
	replaceFields(ci)
}

// sessionWrites does to the snapshot what actions and plugins do through the
// session API between OpenSession and CloseSession.
func sessionWrites(ci *api.ClusterInfo) {
	ssn := &framework.Session{Jobs: ci.Jobs, Nodes: ci.Nodes, Queues: ci.Queues}
	for _, j := range sortedJobs(ci.Jobs) {
		if j.PodGroup != nil {
			// refresh a condition of a type the PodGroup may already carry (overwritten in place),
			// and add one it does not carry (appended)
			for _, ty := range []scheduling.PodGroupConditionType{scheduling.PodGroupUnschedulableType, scheduling.PodGroupConditionType("VerifNew")} {
				if err := ssn.UpdatePodGroupCondition(j, &scheduling.PodGroupCondition{Type: ty, Status: v1.ConditionFalse,
					TransitionID: "this-cycle", Reason: "verif", Message: "written by the cycle"}); err != nil {
					panic(err)
				}
			}
			j.PodGroup.Status.Phase = scheduling.PodGroupRunning
		}
		for _, t := range jobTasks([]*api.JobInfo{j}) {
			j.UpdateTaskStatus(t, api.Allocated)
		}
		j.Allocated.Add(api.NewResource(v1.ResourceList{}).Add(j.TotalRequest))
	}
	for _, n := range sortedNodes(ci.Nodes) {
		for _, t := range n.Tasks {
			n.RemoveTask(t)
			t.Status = api.Pipelined
			_ = n.AddTask(t)
			break
		}
		n.Idle.Add(n.Used)
		n.Releasing.Add(n.Used)
		n.Pipelined.Add(n.Used)
	}
}

// replaceFields replaces / empties the containers themselves.
func replaceFields(ci *api.ClusterInfo) {
	for _, j := range ci.Jobs {
		if j == nil { // entries added by DeepMutate
			continue
		}
		j.MinAvailable += 5
		j.Queue = "q999"
		j.Priority += 3
		j.PgUID = "pguid-999"
		j.Preemptable = !j.Preemptable
		scramble(j.Allocated)
		scramble(j.TotalRequest)
		if j.PodGroup != nil {
			j.PodGroup.Spec.MinMember += 9
			j.PodGroup.Spec.Queue = "q999"
			j.PodGroup.Status.Phase = scheduling.PodGroupUnknown
			j.PodGroup.Status.Running += 4
			if j.PodGroup.Annotations != nil {
				j.PodGroup.Annotations["verif"] = "x"
			}
		}
		for _, t := range j.Tasks {
			if t == nil {
				continue
			}
			scrambleTask(t)
		}
		for role := range j.TaskMinAvailable {
			j.TaskMinAvailable[role] += 2
		}
		j.TaskMinAvailable["verif"] = 1
		for _, sj := range j.SubJobs {
			if sj == nil {
				continue
			}
			sj.MinAvailable += 2
			for uid := range sj.Tasks {
				delete(sj.Tasks, uid)
			}
			for s := range sj.TaskStatusIndex {
				delete(sj.TaskStatusIndex, s)
			}
		}
		for id := range j.SubJobs {
			delete(j.SubJobs, id)
		}
		for uid := range j.TaskToSubJob {
			delete(j.TaskToSubJob, uid)
		}
		for s, m := range j.TaskStatusIndex {
			for uid := range m {
				delete(m, uid)
			}
			delete(j.TaskStatusIndex, s)
		}
		for uid := range j.Tasks {
			delete(j.Tasks, uid)
		}
		j.Tasks["t998"] = &api.TaskInfo{UID: "t998", Job: j.UID, Resreq: api.EmptyResource(), InitResreq: api.EmptyResource()}
	}
	for _, n := range ci.Nodes {
		if n == nil {
			continue
		}
		for _, r := range []*api.Resource{n.Idle, n.Used, n.Releasing, n.Pipelined, n.Allocatable, n.Capacity, n.OversubscriptionResource} {
			scramble(r)
		}
		n.State = api.NodeState{Phase: api.NotReady, Reason: "verif"}
		n.Name = "n999"
		n.BindGeneration += 5
		for _, t := range n.Tasks {
			if t == nil {
				continue
			}
			scrambleTask(t)
		}
		for k := range n.Tasks {
			delete(n.Tasks, k)
		}
		n.Tasks["ns/t998"] = &api.TaskInfo{UID: "t998", Resreq: api.EmptyResource(), InitResreq: api.EmptyResource()}
		n.Others["verif"] = 1
		n.ImageStates["verif"] = nil
	}
	for _, q := range ci.Queues {
		if q == nil {
			continue
		}
		q.Weight += 4
		q.Name = "q999"
		q.UID = "q999"
		if q.Queue != nil {
			q.Queue.Spec.Weight += 4
			q.Queue.Name = "q999"
		}
	}
	for id := range ci.Jobs {
		delete(ci.Jobs, id)
	}
	for id := range ci.Nodes {
		delete(ci.Nodes, id)
	}
	for id := range ci.Queues {
		delete(ci.Queues, id)
	}
	for i := range ci.NodeList {
		ci.NodeList[i] = "n999"
	}
	ci.NodeList = append(ci.NodeList, "n998")
	ci.NodesInShard.Insert("n999")
}
