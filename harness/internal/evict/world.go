// Package evict is the C04 harness: real preempt / reclaim actions and real
// ssn.Preemptable / ssn.Reclaimable votes over a scripted cache with the real priority, gang,
// conformance and proportion plugins in generated tier layouts, plus a recorder plugin that
// yields ONE ordered trace of: PrePredicate calls (a preemptor task is being tried), vote calls
// (a node attempt: preemptor and the candidate list as the action built it), JobPipelined calls
// (a job statement is being closed), allocate / deallocate callbacks and accepted evictions.
// It builds on harness/internal/sched (cluster specs, scripted cache, encoders).
package evict

import (
	"fmt"
	"sync"
	"math"
	"sort"

	v1 "k8s.io/api/core/v1"
	"k8s.io/apimachinery/pkg/api/resource"
	metav1 "k8s.io/apimachinery/pkg/apis/meta/v1"
	"k8s.io/apimachinery/pkg/types"
	"k8s.io/apimachinery/pkg/util/sets"

	"volcano.sh/apis/pkg/apis/scheduling"
	"volcano.sh/volcano/pkg/scheduler/actions/preempt"
	"volcano.sh/volcano/pkg/scheduler/actions/reclaim"
	"volcano.sh/volcano/pkg/scheduler/api"
	"volcano.sh/volcano/pkg/scheduler/cache"
	"volcano.sh/volcano/pkg/scheduler/conf"
	"volcano.sh/volcano/pkg/scheduler/framework"
	"volcano.sh/volcano/pkg/scheduler/plugins"
	"volcano.sh/volcano/pkg/scheduler/plugins/capacity"
	"volcano.sh/volcano/pkg/scheduler/plugins/conformance"
	"volcano.sh/volcano/pkg/scheduler/plugins/drf"
	"volcano.sh/volcano/pkg/scheduler/plugins/gang"
	"volcano.sh/volcano/pkg/scheduler/plugins/priority"
	"volcano.sh/volcano/pkg/scheduler/plugins/proportion"

	"verif/harness/internal/sched"
)

const (
	KGang = 1
	KPrio = 2
	KConf = 3
	KProp = 4
	KCap  = 5
	KDrf  = 6
)

var kindName = map[int64]string{KGang: gang.PluginName, KPrio: priority.PluginName, KConf: conformance.PluginName, KProp: proportion.PluginName, KCap: capacity.PluginName, KDrf: drf.PluginName}

type Plug struct {
	Kind     int64
	Pre, Rec bool
}

// Spec is the token-encoded input of one case (the model's C04.Codec.spec).
type Spec struct {
	Nodes   []sched.NodeSpec
	Queues  []sched.QueueSpec
	Jobs    []sched.JobSpec
	PGPhase map[int64]int64 // 1 Pending, 2 Inqueue, 3 Running
	Tasks   []sched.TaskSpec
	JPrio   map[int64]int64 // JobInfo.Priority
	JSys    map[int64]bool  // the job's pods live in kube-system
	TClass  map[int64]int64 // 0 none, 1 system-cluster-critical, 2 system-node-critical
	QRecl   map[int64]int64 // Queue.Spec.Reclaimable: 0 nil, 1 true, 2 false
	QGuar   map[int64][2]int64 // Queue.Spec.Guarantee.Resource: cpu milli, memory bytes (0 = not set)
	QDes    map[int64][2]int64 // Queue.Spec.Deserved
	Tiers   [][]Plug
	Actions []int64 // 1 preempt, 2 reclaim, 3 preempt with topology-aware preemption
	Faults  [][2]int64 // (task, node): the allocate event handler reports Event.Err for this placement
	Refuse  []int64    // cache.Evict refuses these tasks
}

const EpsUnits = 2

func b2i(b bool) int64 {
	if b {
		return 1
	}
	return 0
}

func (c Spec) Enc() []int64 {
	out := []int64{EpsUnits, int64(len(c.Nodes))}
	for _, n := range c.Nodes {
		out = append(out, n.ID, b2i(n.Has), n.CPU, n.Mem, n.Pods, n.GPU)
	}
	out = append(out, int64(len(c.Queues)))
	for _, q := range c.Queues {
		out = append(out, q.ID, b2i(q.Open), q.Weight, q.CapCPU, q.CapMem)
	}
	out = append(out, int64(len(c.Jobs)))
	for _, j := range c.Jobs {
		out = append(out, j.ID, j.Queue, j.Min, int64(len(j.RoleMin)))
		for _, rm := range j.RoleMin {
			out = append(out, rm[0], rm[1])
		}
		out = append(out, c.PGPhase[j.ID])
	}
	out = append(out, int64(len(c.Tasks)))
	for _, t := range c.Tasks {
		out = append(out, t.ID, t.Job, t.Role, t.Prio, t.CPU, t.Mem, t.GPU, t.Status, t.Node, b2i(t.Preemptable))
	}
	out = append(out, int64(len(c.Jobs)))
	for _, j := range c.Jobs {
		out = append(out, j.ID, c.JPrio[j.ID], b2i(c.JSys[j.ID]))
	}
	out = append(out, int64(len(c.Tasks)))
	for _, t := range c.Tasks {
		out = append(out, t.ID, c.TClass[t.ID])
	}
	out = append(out, int64(len(c.Queues)))
	for _, q := range c.Queues {
		out = append(out, q.ID, c.QRecl[q.ID])
	}
	out = append(out, int64(len(c.Queues)))
	for _, q := range c.Queues {
		out = append(out, q.ID, c.QGuar[q.ID][0], c.QGuar[q.ID][1], c.QDes[q.ID][0], c.QDes[q.ID][1])
	}
	out = append(out, int64(len(c.Tiers)))
	for _, t := range c.Tiers {
		out = append(out, int64(len(t)))
		for _, p := range t {
			out = append(out, p.Kind, b2i(p.Pre), b2i(p.Rec))
		}
	}
	out = append(out, int64(len(c.Actions)))
	out = append(out, c.Actions...)
	out = append(out, int64(len(c.Faults)))
	for _, f := range c.Faults {
		out = append(out, f[0], f[1])
	}
	out = append(out, int64(len(c.Refuse)))
	out = append(out, c.Refuse...)
	return out
}

// DecSpec reads the spec prefix of a case input.
func DecSpec(r *sched.Tok) Spec {
	c := Spec{PGPhase: map[int64]int64{}, JPrio: map[int64]int64{}, JSys: map[int64]bool{}, TClass: map[int64]int64{}, QRecl: map[int64]int64{},
		QGuar: map[int64][2]int64{}, QDes: map[int64][2]int64{}}
	_ = r.Next()
	r.List(func() {
		c.Nodes = append(c.Nodes, sched.NodeSpec{ID: r.Next(), Has: r.Bool(), CPU: r.Next(), Mem: r.Next(), Pods: r.Next(), GPU: r.Next()})
	})
	r.List(func() {
		c.Queues = append(c.Queues, sched.QueueSpec{ID: r.Next(), Open: r.Bool(), Weight: r.Next(), CapCPU: r.Next(), CapMem: r.Next()})
	})
	r.List(func() {
		j := sched.JobSpec{ID: r.Next(), Queue: r.Next(), Min: r.Next()}
		r.List(func() { j.RoleMin = append(j.RoleMin, [2]int64{r.Next(), r.Next()}) })
		c.PGPhase[j.ID] = r.Next()
		c.Jobs = append(c.Jobs, j)
	})
	r.List(func() {
		c.Tasks = append(c.Tasks, sched.TaskSpec{ID: r.Next(), Job: r.Next(), Role: r.Next(), Prio: r.Next(), CPU: r.Next(), Mem: r.Next(),
			GPU: r.Next(), Status: r.Next(), Node: r.Next(), Preemptable: r.Bool()})
	})
	r.List(func() { id := r.Next(); c.JPrio[id] = r.Next(); c.JSys[id] = r.Bool() })
	r.List(func() { id := r.Next(); c.TClass[id] = r.Next() })
	r.List(func() { id := r.Next(); c.QRecl[id] = r.Next() })
	r.List(func() {
		id := r.Next()
		c.QGuar[id] = [2]int64{r.Next(), r.Next()}
		c.QDes[id] = [2]int64{r.Next(), r.Next()}
	})
	r.List(func() {
		t := []Plug{}
		r.List(func() { t = append(t, Plug{Kind: r.Next(), Pre: r.Bool(), Rec: r.Bool()}) })
		c.Tiers = append(c.Tiers, t)
	})
	c.Actions = r.Ints()
	r.List(func() { c.Faults = append(c.Faults, [2]int64{r.Next(), r.Next()}) })
	c.Refuse = r.Ints()
	return c
}

// TraceEv is one entry of the ordered trace.
type TraceEv struct {
	Kind   int64 // 0 deallocate cb, 1 allocate cb, 3 cache.Evict accepted, 10 PrePredicate, 11 vote call, 13 JobPipelined call
	Task   int64 // task (0/1/3/10/11: the preemptor for 11), job for 13
	Status int64
	Node   int64
	Cands  []int64 // 11: candidate ids in the order the action passed them
	CandSt []int64 // 11: their statuses as passed
	QOrder []int64 // 11: pop order of the victims queue over these candidates
	PAlloc []int64 // 11: what the preemptor's job holds (recorder ledger), EncRes
	Reached int64  // 11: 0-based index of the last tier this Preemptable / Reclaimable call reached (tier markers)
	Roles  []int64 // 13: (role, occupied pods of that role) for every role minimum of the job's spec
	Action int64   // index into Spec.Actions
	obs    []CandObs
}

type World struct {
	*sched.World
	Spec     Spec
	Trace    []TraceEv
	curAct   int64
	PropSnap func() proportion.VerifSnapshot
	CapSnap  func() capacity.VerifSnapshot
	jobKey   map[int64]api.JobID
	mu       sync.Mutex // the topology-aware dry run calls the votes from several goroutines
}

const recorderName = "verif-evict-recorder"

var current *World

type recPlugin struct{ w *World }

func (p *recPlugin) Name() string { return recorderName }
func (p *recPlugin) OnSessionOpen(ssn *framework.Session) {
	w := p.w
	share := w.Rec.Share
	jobNum := func(j api.JobID) int64 { return jobNumber(j) }
	// like a predicates / extender plugin in front of a queue plugin: this handler reports Event.Err
	// for the scripted (task, node) placements; it is registered FIRST, every handler still gets
	// every allocate and deallocate callback
	faults := map[[2]int64]bool{}
	for _, f := range w.Spec.Faults {
		faults[f] = true
	}
	ssn.AddEventHandler(&framework.EventHandler{
		AllocateFunc: func(e *framework.Event) {
			if faults[[2]int64{sched.ParseID(string(e.Task.UID)), sched.NodeRef(e.Task.NodeName)}] {
				e.Err = fmt.Errorf("scripted: allocate callback fails for %s on %s", e.Task.Name, e.Task.NodeName)
			}
		},
		DeallocateFunc: func(e *framework.Event) {},
	})
	ssn.AddEventHandler(&framework.EventHandler{
		AllocateFunc: func(e *framework.Event) {
			j := jobNum(e.Task.Job)
			if share[j] == nil {
				share[j] = api.EmptyResource()
			}
			share[j].Add(e.Task.Resreq)
			w.Trace = append(w.Trace, TraceEv{Kind: 1, Task: sched.ParseID(string(e.Task.UID)), Status: sched.StatusKey(e.Task.Status),
				Node: sched.NodeRef(e.Task.NodeName), Action: w.curAct})
		},
		DeallocateFunc: func(e *framework.Event) {
			j := jobNum(e.Task.Job)
			if share[j] == nil {
				share[j] = api.EmptyResource()
			}
			share[j].SubWithoutAssert(e.Task.Resreq)
			w.Trace = append(w.Trace, TraceEv{Kind: 0, Task: sched.ParseID(string(e.Task.UID)), Status: sched.StatusKey(e.Task.Status),
				Node: sched.NodeRef(e.Task.NodeName), Action: w.curAct})
		},
	})
	ssn.AddPrePredicateFn(recorderName, func(t *api.TaskInfo) error {
		w.Trace = append(w.Trace, TraceEv{Kind: 10, Task: sched.ParseID(string(t.UID)), Action: w.curAct})
		return nil
	})
	vote := func(p *api.TaskInfo, cands []*api.TaskInfo) ([]*api.TaskInfo, int) {
		ev := TraceEv{Kind: 11, Task: sched.ParseID(string(p.UID)), Action: w.curAct}
		for _, c := range cands {
			ev.Cands = append(ev.Cands, sched.ParseID(string(c.UID)))
			ev.CandSt = append(ev.CandSt, sched.StatusKey(c.Status))
			ev.Node = sched.NodeRef(c.NodeName)
			o := CandObs{ID: sched.ParseID(string(c.UID)), Status: sched.StatusKey(c.Status), JobReady: -1}
			if j, ok := ssn.Jobs[c.Job]; ok {
				o.JobReady = int64(j.ReadyTaskNum())
				o.QAlloc = sched.EncRes(w.queueAlloc(sched.ParseID(string(j.Queue))))
				o.JAlloc = sched.EncRes(w.jobAlloc(jobNum(j.UID)))
			} else {
				o.QAlloc = sched.EncRes(api.EmptyResource())
				o.JAlloc = sched.EncRes(api.EmptyResource())
			}
			ev.obs = append(ev.obs, o)
		}
		ev.QOrder = PopOrder(ssn, p, cands)
		ev.PAlloc = sched.EncRes(w.jobAlloc(jobNum(p.Job)))
		w.mu.Lock()
		w.Trace = append(w.Trace, ev)
		w.mu.Unlock()
		return nil, 0 // abstain
	}
	ssn.AddPreemptableFn(recorderName, vote)
	ssn.AddReclaimableFn(recorderName, vote)
	ssn.AddJobPipelinedFn(recorderName, func(obj interface{}) int {
		j := obj.(*api.JobInfo)
		// Status / Node carry what the job's own counters say at this moment: occupied and minimum
		w.Trace = append(w.Trace, TraceEv{Kind: 13, Task: jobNum(j.UID), Action: w.curAct,
			Status: int64(j.WaitingTaskNum() + j.ReadyTaskNum() + j.PendingBestEffortTaskNum()), Node: int64(j.MinAvailable),
			Roles: w.roleCounts(j)})
		return 0 // abstain
	})
}
func (p *recPlugin) OnSessionClose(ssn *framework.Session) {}

// tierPlugin: an abstaining marker in front of every tier after the first.  Session.Preemptable / Reclaimable call
// it exactly when the walk reaches its tier (no earlier tier decided), with the arguments of the call; it
// notes the tier on the vote event the recorder (first plugin of tier 0) made for the same call.
type tierPlugin struct {
	w    *World
	idx  int64
	name string
}

func tierMarkerName(i int) string { return fmt.Sprintf("verif-evict-tier-%d", i) }
func (p *tierPlugin) Name() string { return p.name }
func (p *tierPlugin) OnSessionOpen(ssn *framework.Session) {
	mark := func(pt *api.TaskInfo, cands []*api.TaskInfo) ([]*api.TaskInfo, int) {
		w := p.w
		pid := sched.ParseID(string(pt.UID))
		w.mu.Lock()
		defer w.mu.Unlock()
		for k := len(w.Trace) - 1; k >= 0; k-- {
			e := &w.Trace[k]
			if e.Kind != 11 || e.Task != pid || len(e.Cands) != len(cands) {
				continue
			}
			same := true
			for i, c := range cands {
				if e.Cands[i] != sched.ParseID(string(c.UID)) {
					same = false
					break
				}
			}
			if same {
				if e.Reached < p.idx {
					e.Reached = p.idx
				}
				break
			}
		}
		return nil, 0 // abstain
	}
	ssn.AddPreemptableFn(p.name, mark)
	ssn.AddReclaimableFn(p.name, mark)
}
func (p *tierPlugin) OnSessionClose(ssn *framework.Session) {}

// roleCounts: for every role minimum the job's SPEC declares (not what the JobInfo iterates over), the
// number of the job's pods of that role that hold or are promised resources at this moment (allocated
// statuses, succeeded, pipelined, pending best-effort), counted pod by pod from the job's task map
func (w *World) roleCounts(j *api.JobInfo) []int64 {
	var out []int64
	for _, js := range w.Spec.Jobs {
		if js.ID != jobNumber(j.UID) {
			continue
		}
		for _, rm := range js.RoleMin {
			n := int64(0)
			for _, t := range j.Tasks {
				if t.TaskRole != sched.RoleName(rm[0]) {
					continue
				}
				if api.AllocatedStatus(t.Status) || t.Status == api.Succeeded || t.Status == api.Pipelined ||
					(t.Status == api.Pending && t.InitResreq.IsEmpty()) {
					n++
				}
			}
			out = append(out, rm[0], n)
		}
	}
	return out
}

func init() {
	framework.RegisterPluginBuilder(recorderName, func(framework.Arguments) framework.Plugin { return &recPlugin{w: current} })
}

// jobNumber: "ns/j12" or "kube-system/j12" -> 12
func jobNumber(j api.JobID) int64 {
	s := string(j)
	for i := len(s) - 1; i >= 0; i-- {
		if s[i] == '/' {
			return sched.ParseID(s[i+1:])
		}
	}
	return sched.ParseID(s)
}

var mock *cache.SchedulerCache

func className(c int64) string {
	switch c {
	case 1:
		return "system-cluster-critical"
	case 2:
		return "system-node-critical"
	}
	return ""
}

func pgPhase(p int64) scheduling.PodGroupPhase {
	switch p {
	case 1:
		return scheduling.PodGroupPending
	case 3:
		return scheduling.PodGroupRunning
	}
	return scheduling.PodGroupInqueue
}

// NewWorld builds the cluster and opens a session with tiers [recorder + tier 1] [tier 2] ...
func NewWorld(spec Spec) *World {
	sw := &sched.World{Tasks: map[int64]*api.TaskInfo{}, TSpec: map[int64]sched.TaskSpec{}, NodesP: map[int64]*api.NodeInfo{},
		NSpec: map[int64]sched.NodeSpec{}, Stmts: map[int64]*framework.Statement{}, Saved: map[int64]*framework.Statement{}}
	w := &World{World: sw, Spec: spec, jobKey: map[int64]api.JobID{}}
	if mock == nil {
		mock = cache.NewDefaultMockSchedulerCache("verif")
	}
	snap := &api.ClusterInfo{
		Jobs: map[api.JobID]*api.JobInfo{}, Nodes: map[string]*api.NodeInfo{},
		Queues: map[api.QueueID]*api.QueueInfo{}, NamespaceInfo: map[api.NamespaceName]*api.NamespaceInfo{},
		RevocableNodes: map[string]*api.NodeInfo{},
		HyperNodes:     api.HyperNodeInfoMap{}, HyperNodesSetByTier: map[int]sets.Set[string]{},
		RealNodesSet: map[string]sets.Set[string]{}, HyperNodeTierNameMap: api.HyperNodeTierNameMap{},
		CSINodesStatus: map[string]*api.CSINodeStatusInfo{},
	}
	for _, q := range spec.Queues {
		qo := q.Object()
		switch spec.QRecl[q.ID] {
		case 1:
			t := true
			qo.Spec.Reclaimable = &t
		case 2:
			f := false
			qo.Spec.Reclaimable = &f
		}
		rl := func(v [2]int64) v1.ResourceList {
			out := v1.ResourceList{}
			if v[0] > 0 {
				out[v1.ResourceCPU] = *resource.NewMilliQuantity(v[0], resource.DecimalSI)
			}
			if v[1] > 0 {
				out[v1.ResourceMemory] = *resource.NewQuantity(v[1], resource.BinarySI)
			}
			return out
		}
		if g := rl(spec.QGuar[q.ID]); len(g) > 0 {
			qo.Spec.Guarantee.Resource = g
		}
		if d := rl(spec.QDes[q.ID]); len(d) > 0 {
			qo.Spec.Deserved = d
		}
		qi := api.NewQueueInfo(qo)
		snap.Queues[qi.UID] = qi
	}
	tasks := append([]sched.TaskSpec{}, spec.Tasks...)
	sort.Slice(tasks, func(i, j int) bool { return tasks[i].ID < tasks[j].ID })
	for _, j := range spec.Jobs {
		ns := "ns"
		if spec.JSys[j.ID] {
			ns = "kube-system"
		}
		key := api.JobID(ns + "/" + sched.JobName(j.ID))
		w.jobKey[j.ID] = key
		ji := api.NewJobInfo(key)
		pg := &api.PodGroup{PodGroup: scheduling.PodGroup{
			ObjectMeta: metav1.ObjectMeta{Name: sched.JobName(j.ID), Namespace: ns, UID: types.UID(sched.JobName(j.ID))},
			Spec:       scheduling.PodGroupSpec{MinMember: int32(j.Min), Queue: sched.QueueName(j.Queue), MinTaskMember: map[string]int32{}},
			Status:     scheduling.PodGroupStatus{Phase: pgPhase(spec.PGPhase[j.ID])},
		}}
		for _, rm := range j.RoleMin {
			pg.Spec.MinTaskMember[sched.RoleName(rm[0])] = int32(rm[1])
		}
		ji.SetPodGroup(pg)
		ji.Priority = int32(spec.JPrio[j.ID])
		snap.Jobs[ji.UID] = ji
	}
	for _, t := range tasks {
		pod := t.Pod()
		if spec.JSys[t.Job] {
			pod.Namespace = "kube-system"
		}
		pod.Spec.PriorityClassName = className(spec.TClass[t.ID])
		if spec.TClass[t.ID] != 0 && t.ID%2 == 0 {
			// a critical-class pod whose numeric priority is not resolved in the pod spec: TaskInfo.Priority then comes
			// from the volcano.sh/task-priority annotation (conformance must go by the class NAME)
			pod.Spec.Priority = nil
			pod.Annotations["volcano.sh/task-priority"] = fmt.Sprint(t.Prio)
		}
		if !t.Preemptable {
			// without the annotation a pod counts as preemptable (GetPodPreemptable)
			pod.Annotations["volcano.sh/preemptable"] = "false"
		}
		ti := api.NewTaskInfo(pod)
		// session-only statuses (what an allocate / backfill action run earlier in the same session leaves
		// behind: Allocated, Binding after dispatch, Pipelined) cannot come from a pod: they are set on
		// the task before it enters the job's index and the node's ledger, as Statement.Allocate /
		// Pipeline / dispatch would have left them
		switch t.Status {
		case sched.SAllocated:
			ti.Status = api.Allocated
		case sched.SBinding:
			ti.Status = api.Binding
		case sched.SPipelined:
			ti.Status = api.Pipelined
		}
		sw.Tasks[t.ID] = ti
		sw.TSpec[t.ID] = t
		if ji, ok := snap.Jobs[ti.Job]; ok {
			ji.AddTaskInfo(ti)
		}
	}
	for _, n := range spec.Nodes {
		ni := api.NewNodeInfo(n.Object())
		for _, t := range tasks {
			if t.Node == n.ID && t.Status != sched.SSucceeded && t.Status != sched.SFailed {
				_ = ni.AddTask(sw.Tasks[t.ID])
			}
		}
		snap.Nodes[ni.Name] = ni
		snap.NodeList = append(snap.NodeList, ni.Name)
		sw.NodesP[n.ID] = ni
		sw.NSpec[n.ID] = n
	}
	refuse := map[int64]bool{}
	for _, t := range spec.Refuse {
		refuse[t] = true
	}
	sw.Cache = &sched.ScriptedCache{SchedulerCache: mock, Snap: snap, RefuseBind: map[int64]bool{}, RefuseEvict: refuse,
		OnEvict: func(t int64) { w.Trace = append(w.Trace, TraceEv{Kind: 3, Task: t, Action: w.curAct}) }}
	sw.Rec = &sched.Recorder{Share: map[int64]*api.Resource{}, ErrFor: map[int64]bool{}}
	for _, t := range tasks {
		ti := sw.Tasks[t.ID]
		if _, ok := snap.Jobs[ti.Job]; ok && api.AllocatedStatus(ti.Status) {
			if sw.Rec.Share[t.Job] == nil {
				sw.Rec.Share[t.Job] = api.EmptyResource()
			}
			sw.Rec.Share[t.Job].Add(ti.Resreq)
		}
	}
	current = w
	framework.RegisterPluginBuilder(gang.PluginName, gang.New)
	framework.RegisterPluginBuilder(priority.PluginName, priority.New)
	framework.RegisterPluginBuilder(conformance.PluginName, conformance.New)
	framework.RegisterPluginBuilder(drf.PluginName, drf.New)
	framework.RegisterPluginBuilder(proportion.PluginName, func(a framework.Arguments) framework.Plugin {
		p, snapf := proportion.VerifNew(a)
		w.PropSnap = snapf
		return p
	})
	framework.RegisterPluginBuilder(capacity.PluginName, func(a framework.Arguments) framework.Plugin {
		p, snapf := capacity.VerifNew(a)
		w.CapSnap = snapf
		return p
	})
	opt := func(name string) conf.PluginOption {
		o := conf.PluginOption{Name: name}
		plugins.ApplyPluginConfDefaults(&o)
		return o
	}
	tiers := []conf.Tier{}
	for i, t := range spec.Tiers {
		ct := conf.Tier{}
		if i == 0 {
			ct.Plugins = append(ct.Plugins, opt(recorderName))
		} else {
			name, idx := tierMarkerName(i), int64(i)
			framework.RegisterPluginBuilder(name, func(framework.Arguments) framework.Plugin { return &tierPlugin{w: w, idx: idx, name: name} })
			ct.Plugins = append(ct.Plugins, opt(name))
		}
		for _, p := range t {
			o := conf.PluginOption{Name: kindName[p.Kind]}
			pre, rec := p.Pre, p.Rec
			o.EnabledPreemptable, o.EnabledReclaimable = &pre, &rec
			plugins.ApplyPluginConfDefaults(&o)
			ct.Plugins = append(ct.Plugins, o)
		}
		tiers = append(tiers, ct)
	}
	if len(tiers) == 0 {
		tiers = []conf.Tier{{Plugins: []conf.PluginOption{opt(recorderName)}}}
	}
	sw.Ssn = framework.OpenSession(sw.Cache, tiers, nil)
	return w
}

// jobAlloc: what the job holds now by the recorder's ledger.
func (w *World) jobAlloc(j int64) *api.Resource {
	if r := w.Rec.Share[j]; r != nil {
		return r.Clone()
	}
	return api.EmptyResource()
}

// queueAlloc: what the queue holds now by the recorder's own ledger (sum over its jobs).
func (w *World) queueAlloc(q int64) *api.Resource {
	r := api.EmptyResource()
	for _, j := range w.Spec.Jobs {
		if j.Queue == q && w.Rec.Share[j.ID] != nil {
			r.Add(w.Rec.Share[j.ID])
		}
	}
	return r
}

func (w *World) hasKind(k int64) bool {
	for _, t := range w.Spec.Tiers {
		for _, p := range t {
			if p.Kind == k {
				return true
			}
		}
	}
	return false
}

// CapLimits: per queue the capacity plugin holds a record for: id, deserved, guarantee, realCapability
// (all exact: sums / minima / maxima of Quantities).
func (w *World) CapLimits() []int64 {
	if w.CapSnap == nil || !w.hasKind(KCap) {
		return []int64{0}
	}
	s := w.CapSnap()
	ids := sched.SortedIDs(s.Queues, func(q api.QueueID) int64 { return sched.ParseID(string(q)) })
	out := []int64{int64(len(ids))}
	for _, id := range ids {
		r := s.Queues[api.QueueID(sched.QueueName(id))]
		out = append(out, id)
		out = append(out, sched.EncRes(r.Deserved)...)
		out = append(out, sched.EncRes(r.Guarantee)...)
		out = append(out, sched.EncRes(r.RealCapability)...)
	}
	return out
}

// PopOrder: the order in which the session's victims queue pops these candidates (what the capacity
// plugin's ReclaimableFn iterates over, and what the actions evict in).
func PopOrder(ssn *framework.Session, p *api.TaskInfo, cands []*api.TaskInfo) []int64 {
	out := []int64{}
	if len(cands) == 0 {
		return out
	}
	q := ssn.BuildVictimsPriorityQueue(cands, p)
	for !q.Empty() {
		out = append(out, sched.ParseID(string(q.Pop().(*api.TaskInfo).UID)))
	}
	return out
}

func (w *World) HasProp() bool {
	for _, t := range w.Spec.Tiers {
		for _, p := range t {
			if p.Kind == KProp {
				return true
			}
		}
	}
	return false
}

// RunActions executes the preempt / reclaim action list.
func (w *World) RunActions() {
	conf.EnabledActionMap = map[string]bool{}
	for i, a := range w.Spec.Actions {
		w.curAct = int64(i + 1)
		var act framework.Action
		w.Ssn.Configurations = nil
		switch a {
		case 1:
			act = preempt.New()
		case 2:
			act = reclaim.New()
		case 3:
			// preempt with enableTopologyAwarePreemption: dry run on node clones (SelectVictimsOnNode, in
			// parallel), then the chosen node's victims are evicted and the preemptor pipelined in a temporary statement
			act = preempt.New()
			w.Ssn.Configurations = []conf.Configuration{{Name: act.Name(),
				Arguments: map[string]interface{}{preempt.EnableTopologyAwarePreemptionKey: true}}}
		default:
			panic(fmt.Sprint("unknown action ", a))
		}
		conf.EnabledActionMap[act.Name()] = true
		act.Initialize()
		act.Execute(w.Ssn)
		act.UnInitialize()
	}
	w.Refresh()
}

// Refresh re-reads the canonical task objects (the pointer the job holds now).
func (w *World) Refresh() {
	for id, t := range w.Tasks {
		if j, ok := w.Ssn.Jobs[t.Job]; ok {
			if cur, ok := j.Tasks[t.UID]; ok {
				w.Tasks[id] = cur
			}
		}
	}
}

// ---- deserved of the real proportion plugin, pre-rounded for the three comparisons ----

func roundDim(x float64) int64 { return int64(math.Floor(x * sched.Grid)) }
func roundHi(x float64) int64  { return int64(math.Ceil(x*sched.Grid+0.1*sched.Grid)) - 2 }
func roundLo(x float64) int64  { return int64(math.Floor(x*sched.Grid-0.1*sched.Grid)) + 2 }

func encResRound(r *api.Resource, f func(float64) int64) []int64 {
	if r == nil {
		return []int64{0, 0, 0, 0}
	}
	out := []int64{f(r.MilliCPU), f(r.Memory)}
	if r.ScalarResources == nil {
		return append(out, 0, 0)
	}
	keys := []int64{}
	for n := range r.ScalarResources {
		if k, ok := sched.ScalarKey[string(n)]; ok {
			keys = append(keys, k)
		} else {
			panic("unknown scalar " + string(n))
		}
	}
	sort.Slice(keys, func(i, j int) bool { return keys[i] < keys[j] })
	out = append(out, 1, int64(len(keys)))
	for _, k := range keys {
		out = append(out, k, f(r.ScalarResources[sched.ScalarName[k]]))
	}
	return out
}

// QueueLimits: per queue known to proportion: id, deserved rounded three ways.
func (w *World) QueueLimits() []int64 {
	if w.PropSnap == nil || !w.HasProp() {
		return []int64{0}
	}
	s := w.PropSnap()
	ids := sched.SortedIDs(s.Queues, func(q api.QueueID) int64 { return sched.ParseID(string(q)) })
	out := []int64{int64(len(ids))}
	for _, id := range ids {
		r := s.Queues[api.QueueID(sched.QueueName(id))]
		out = append(out, id)
		out = append(out, encResRound(r.Deserved, roundDim)...)
		out = append(out, encResRound(r.Deserved, roundHi)...)
		out = append(out, encResRound(r.Deserved, roundLo)...)
	}
	return out
}

// ---- canonical dumps ----

func (w *World) taskIDs() []int64 {
	ids := make([]int64, 0, len(w.Tasks))
	for id := range w.Tasks {
		ids = append(ids, id)
	}
	sort.Slice(ids, func(i, j int) bool { return ids[i] < ids[j] })
	return ids
}

func (w *World) jobIDs() []int64 {
	ids := []int64{}
	for _, j := range w.Spec.Jobs {
		if _, ok := w.Ssn.Jobs[w.jobKey[j.ID]]; ok {
			ids = append(ids, j.ID)
		}
	}
	sort.Slice(ids, func(i, j int) bool { return ids[i] < ids[j] })
	return ids
}

func encJob(id int64, j *api.JobInfo) []int64 {
	out := sched.EncJob(j)
	out[0] = id
	return out
}

// EncFinal is the model's eFinal.
func (w *World) EncFinal() []int64 {
	out := []int64{}
	ids := w.taskIDs()
	out = append(out, int64(len(ids)))
	for _, id := range ids {
		out = append(out, sched.EncTaskBrief(w.Tasks[id])...)
	}
	jids := w.jobIDs()
	out = append(out, int64(len(jids)))
	for _, j := range jids {
		out = append(out, encJob(j, w.Ssn.Jobs[w.jobKey[j]])...)
	}
	nids := sched.SortedIDs(w.Ssn.Nodes, func(n string) int64 { return sched.ParseID(n) })
	out = append(out, int64(len(nids)))
	for _, n := range nids {
		out = append(out, sched.EncNode(w.Ssn.Nodes[sched.NodeName(n)], n)...)
	}
	sids := sched.SortedIDs(w.Rec.Share, func(j int64) int64 { return j })
	out = append(out, int64(len(sids)))
	for _, j := range sids {
		out = append(out, j)
		out = append(out, sched.EncRes(w.Rec.Share[j])...)
	}
	return out
}

var _ = v1.NamespaceDefault
