package evict

import (
	"verif/harness/internal/sched"
	"verif/harness/internal/vh"
)

// GenSpec draws a cluster with nearly full nodes, running jobs around their gang minimum,
// starving jobs of mixed priorities, queues around their share, and a random tier layout of
// the four voting plugins.
func GenSpec(r *vh.Rng) Spec {
	spec := Spec{PGPhase: map[int64]int64{}, JPrio: map[int64]int64{}, JSys: map[int64]bool{}, TClass: map[int64]int64{}, QRecl: map[int64]int64{}}
	nn := r.Range(1, 3)
	spec.Actions = vh.Pick(r, [][]int64{{1}, {2}, {1}, {2}, {1, 2}, {2, 1}})
	// three quarters of the clusters are staged: job 1 is a running low-priority victim above its gang
	// minimum, job 2 a starving high-priority preemptor (same queue for preempt, another for reclaim)
	staged := r.Chance(3, 4)
	type used struct{ cpu, mem, pods, gpu int64 }
	room := map[int64]*used{}
	for i := 1; i <= nn; i++ {
		room[int64(i)] = &used{}
	}
	nq := r.Range(1, 3)
	if staged && spec.Actions[0] == 2 && nq == 1 {
		nq = 2
	}
	for q := 1; q <= nq; q++ {
		qs := sched.QueueSpec{ID: int64(q), Open: !r.Chance(1, 12), Weight: int64(r.Range(1, 4))}
		if r.Chance(1, 5) {
			qs.CapCPU = int64(r.Range(2, 12)) * 1000
		}
		spec.Queues = append(spec.Queues, qs)
		spec.QRecl[qs.ID] = vh.Pick(r, []int64{0, 0, 1, 1, 1, 2})
	}
	nj := r.Range(2, 5)
	tid := int64(0)
	for j := 1; j <= nj; j++ {
		js := sched.JobSpec{ID: int64(j), Queue: int64(r.Range(1, nq))}
		if staged && j == 1 {
			js.Queue = 1
		}
		if staged && j == 2 {
			js.Queue = 1
			if spec.Actions[0] == 2 {
				js.Queue = 2
			}
		}
		spec.JSys[js.ID] = r.Chance(1, 12)
		nt := r.Range(1, 5)
		// a job is mostly running (victim side) or mostly pending (preemptor side) or mixed
		mode := r.Intn(3)
		if j == 1 {
			mode = 0
		} else if j == 2 {
			mode = 1
		}
		switch mode {
		case 0:
			spec.JPrio[js.ID] = int64(r.Range(0, 2))
		case 1:
			spec.JPrio[js.ID] = int64(r.Range(1, 3))
		default:
			spec.JPrio[js.ID] = int64(r.Range(0, 3))
		}
		if staged && j == 1 {
			spec.JPrio[js.ID] = int64(r.Range(0, 1))
		}
		if staged && j == 2 {
			spec.JPrio[js.ID] = int64(r.Range(2, 3))
		}
		running := 0
		for k := 0; k < nt; k++ {
			tid++
			ts := sched.TaskSpec{ID: tid, Job: js.ID, Role: 1, Prio: int64(r.Range(0, 2)), Preemptable: !r.Chance(1, 5)}
			switch r.Intn(12) {
			case 0: // best effort
			case 1, 2:
				ts.CPU = int64(r.Range(1, 6)) * 500
			default:
				ts.CPU = int64(r.Range(1, 6)) * 250
				ts.Mem = int64(r.Range(1, 6)) << 19
				if r.Chance(1, 8) {
					ts.GPU = 1
				}
			}
			if r.Chance(1, 10) {
				spec.TClass[ts.ID] = int64(r.Range(1, 2))
			}
			ts.Status = sched.SPending
			wantRun := (mode == 0 && !r.Chance(1, 6)) || (mode == 2 && r.Chance(1, 2)) || (mode == 1 && r.Chance(1, 8))
			if wantRun {
				ts.Status = vh.Pick(r, []int64{sched.SRunning, sched.SRunning, sched.SRunning, sched.SRunning, sched.SBound, sched.SReleasing, sched.SSucceeded})
				nid := int64(r.Range(1, nn))
				f := room[nid]
				ts.Node = nid
				if ts.Status != sched.SSucceeded {
					f.cpu += ts.CPU
					f.mem += ts.Mem
					f.pods++
					f.gpu += ts.GPU
					if ts.Status != sched.SReleasing {
						running++
					}
				}
			}
			spec.Tasks = append(spec.Tasks, ts)
		}
		switch r.Intn(6) {
		case 0:
			js.Min = 0
		case 1:
			js.Min = int64(nt)
		case 2:
			js.Min = int64(running) // exactly at the gang minimum
		case 3:
			if running > 0 {
				js.Min = int64(running) - 1 // one above
			}
		default:
			js.Min = int64(r.Range(1, nt))
		}
		if staged && j == 1 && running > 0 && r.Chance(4, 5) {
			js.Min = int64(r.Range(0, running-1))
		}
		if staged && j == 2 && r.Chance(4, 5) {
			js.Min = int64(r.Range(running+1, nt+1))
		}
		spec.Jobs = append(spec.Jobs, js)
		spec.PGPhase[js.ID] = vh.Pick(r, []int64{2, 2, 2, 2, 3, 3, 3, 3, 3, 1})
		if staged && j <= 2 && r.Chance(9, 10) {
			spec.PGPhase[js.ID] = 3
		}
	}
	// nodes: what their tasks use plus a small slack, so that pending tasks rarely fit as they are
	for i := 1; i <= nn; i++ {
		f := room[int64(i)]
		ns := sched.NodeSpec{ID: int64(i), Has: true,
			CPU:  f.cpu + vh.Pick(r, []int64{0, 0, 0, 250, 500, 1000}),
			Mem:  f.mem + vh.Pick(r, []int64{0, 1 << 19, 1 << 20, 8 << 20}),
			Pods: f.pods + vh.Pick(r, []int64{0, 1, 2, 5}),
			GPU:  f.gpu}
		if ns.CPU == 0 {
			ns.CPU = 1000
		}
		if ns.Mem == 0 {
			ns.Mem = 4 << 20
		}
		if ns.Pods == 0 {
			ns.Pods = 2
		}
		if r.Chance(1, 5) {
			ns.GPU++
		}
		spec.Nodes = append(spec.Nodes, ns)
	}
	// tier layout
	kinds := []int64{}
	for _, k := range []int64{KGang, KPrio, KConf, KProp} {
		if r.Chance(6, 7) {
			kinds = append(kinds, k)
		}
	}
	for i := len(kinds) - 1; i > 0; i-- {
		j := r.Intn(i + 1)
		kinds[i], kinds[j] = kinds[j], kinds[i]
	}
	nt := 1
	if len(kinds) > 1 && r.Chance(1, 2) {
		nt = r.Range(2, 3)
	}
	spec.Tiers = make([][]Plug, nt)
	for _, k := range kinds {
		i := r.Intn(nt)
		spec.Tiers[i] = append(spec.Tiers[i], Plug{Kind: k, Pre: !r.Chance(1, 8), Rec: !r.Chance(1, 8)})
	}
	for i := range spec.Tiers {
		if spec.Tiers[i] == nil {
			spec.Tiers[i] = []Plug{}
		}
	}
	// scripted faults: Statement.Pipeline fails for some (pending task, node) placements, so that the
	// action has to roll a node attempt back and go on with the next node; cache.Evict refusals
	if r.Chance(2, 5) {
		for _, t := range spec.Tasks {
			if t.Status != sched.SPending || !r.Chance(1, 2) {
				continue
			}
			switch {
			case nn >= 2 && r.Chance(1, 3): // every node but one
				keep := int64(r.Range(1, nn))
				for n := int64(1); n <= int64(nn); n++ {
					if n != keep {
						spec.Faults = append(spec.Faults, [2]int64{t.ID, n})
					}
				}
			default:
				spec.Faults = append(spec.Faults, [2]int64{t.ID, int64(r.Range(1, nn))})
			}
		}
	}
	if r.Chance(1, 4) {
		for _, t := range spec.Tasks {
			if (t.Status == sched.SRunning || t.Status == sched.SBound) && r.Chance(1, 3) {
				spec.Refuse = append(spec.Refuse, t.ID)
			}
		}
	}
	return spec
}

// GenVote: a vote case on the cluster of spec: any preemptor, a shuffled subset of the tasks that sit on nodes.
func GenVote(r *vh.Rng, spec Spec) ([]int64, map[string]any, bool) {
	if len(spec.Tasks) == 0 {
		return nil, nil, false
	}
	p := vh.Pick(r, spec.Tasks)
	cands := []int64{}
	for _, t := range spec.Tasks {
		if t.ID != p.ID && t.Node != 0 && t.Status != sched.SSucceeded && r.Chance(4, 5) {
			cands = append(cands, t.ID)
		}
	}
	for i := len(cands) - 1; i > 0; i-- {
		j := r.Intn(i + 1)
		cands[i], cands[j] = cands[j], cands[i]
	}
	reclaim := r.Chance(1, 2)
	if reclaim {
		// proportion's reclaimableFn subtracts every candidate from its queue's allocated amount
		// (Resource.Sub asserts): like the action, hand it tasks that hold resources only
		keep := cands[:0]
		st := map[int64]int64{}
		for _, t := range spec.Tasks {
			st[t.ID] = t.Status
		}
		for _, c := range cands {
			if st[c] == sched.SRunning || st[c] == sched.SBound {
				keep = append(keep, c)
			}
		}
		cands = keep
	}
	in := spec.Enc()
	in = append(in, b2i(reclaim), p.ID, int64(len(cands)))
	in = append(in, cands...)
	return in, map[string]any{"reclaim": reclaim, "preemptor": p.ID, "cands": cands, "tiers": spec.Tiers}, len(cands) >= 2
}
