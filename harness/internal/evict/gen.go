package evict

import (
	"verif/harness/internal/sched"
	"verif/harness/internal/vh"
)

// GenSpec draws a cluster with nearly full nodes, running jobs around their gang minimum,
// starving jobs of mixed priorities, queues around their share, and a random tier layout of
// the four voting plugins.
func hasAction(as []int64, a int64) bool {
	for _, x := range as {
		if x == a {
			return true
		}
	}
	return false
}

func newSpec() Spec {
	return Spec{PGPhase: map[int64]int64{}, JPrio: map[int64]int64{}, JSys: map[int64]bool{}, TClass: map[int64]int64{}, QRecl: map[int64]int64{},
		QGuar: map[int64][2]int64{}, QDes: map[int64][2]int64{}}
}

// GenCapStage: the capacity plugin at its guarantee / deserved boundaries.  Victim queue q1 runs k equal pods
// on node n1 (full); q3 (not reclaimable) fills n2 so that the cluster is large enough for q2's
// realCapability; q2's pending pod needs 1..3 victims; q1's guarantee (cpu only, or cpu and memory) lies
// around "k-1 pods" / "k-2 pods"; q1's deserved is unset, low, or above its allocation in one dimension.
func GenCapStage(r *vh.Rng) Spec {
	spec := newSpec()
	k := int64(r.Range(2, 5))
	c := int64(r.Range(1, 4)) * 500
	m := int64(r.Range(1, 4)) << 20
	need := int64(r.Range(1, 3))
	if need > k {
		need = k
	}
	big := int64(r.Range(4, 12)) * 1000
	spec.Nodes = []sched.NodeSpec{
		{ID: 1, Has: true, CPU: k*c + vh.Pick(r, []int64{0, 0, 250}), Mem: k*m + vh.Pick(r, []int64{0, 1 << 19}), Pods: k + 3},
		{ID: 2, Has: true, CPU: big, Mem: 64 << 20, Pods: 4}}
	for q := int64(1); q <= 3; q++ {
		spec.Queues = append(spec.Queues, sched.QueueSpec{ID: q, Open: true, Weight: 1})
	}
	spec.QRecl[1] = vh.Pick(r, []int64{0, 1})
	spec.QRecl[2] = 1
	spec.QRecl[3] = 2
	// guarantee of q1 around the boundary
	left := k - need // pods left if all needed victims go
	gc := vh.Pick(r, []int64{left * c, left*c + 250, (left + 1) * c, (left+1)*c - 250, (left+1)*c + 250, 0, (k - 1) * c, k * c})
	if gc < 0 {
		gc = 0
	}
	gm := int64(0)
	if r.Chance(1, 4) {
		gm = vh.Pick(r, []int64{left * m, (left + 1) * m, (k - 1) * m})
	}
	spec.QGuar[1] = [2]int64{gc, gm}
	spec.QDes[1] = [2]int64{vh.Pick(r, []int64{0, 0, c, k * c, k*c + 1000, (k - 1) * c}), vh.Pick(r, []int64{0, 0, m, k * m, (k + 2) * m})}
	spec.QDes[2] = [2]int64{vh.Pick(r, []int64{need * c, need*c + 1000, 4 * need * c, 0}), vh.Pick(r, []int64{need * m, 8 * need * m, 0})}
	spec.QDes[3] = [2]int64{big, 64 << 20}
	tid := int64(0)
	// job 1: the victims
	spec.Jobs = append(spec.Jobs, sched.JobSpec{ID: 1, Queue: 1, Min: vh.Pick(r, []int64{0, 0, 1, k - 1})})
	spec.PGPhase[1] = 3
	for i := int64(0); i < k; i++ {
		tid++
		spec.Tasks = append(spec.Tasks, sched.TaskSpec{ID: tid, Job: 1, Role: 1, Prio: int64(r.Range(0, 1)), CPU: c, Mem: m, Status: sched.SRunning, Node: 1, Preemptable: !r.Chance(1, 10)})
	}
	// job 2: the reclaimer
	spec.Jobs = append(spec.Jobs, sched.JobSpec{ID: 2, Queue: 2, Min: 1})
	spec.PGPhase[2] = 3
	spec.JPrio[2] = 2
	tid++
	spec.Tasks = append(spec.Tasks, sched.TaskSpec{ID: tid, Job: 2, Role: 1, Prio: 1, CPU: need*c - vh.Pick(r, []int64{0, 0, 250}), Mem: vh.Pick(r, []int64{need * m, m, 0}), Status: sched.SPending, Preemptable: true})
	if r.Chance(1, 3) {
		tid++
		spec.Tasks = append(spec.Tasks, sched.TaskSpec{ID: tid, Job: 2, Role: 1, Prio: 0, CPU: c, Mem: m, Status: sched.SPending, Preemptable: true})
	}
	// job 3: fills node 2, queue q3 is not reclaimable
	spec.Jobs = append(spec.Jobs, sched.JobSpec{ID: 3, Queue: 3, Min: 0})
	spec.PGPhase[3] = 3
	tid++
	spec.Tasks = append(spec.Tasks, sched.TaskSpec{ID: tid, Job: 3, Role: 1, CPU: big, Mem: 32 << 20, Status: sched.SRunning, Node: 2, Preemptable: true})
	spec.Tiers = [][]Plug{{{Kind: KGang, Pre: true, Rec: true}, {Kind: KCap, Pre: true, Rec: true}}}
	if r.Chance(1, 3) {
		spec.Tiers[0] = append(spec.Tiers[0], Plug{Kind: KConf, Pre: true, Rec: true})
	}
	spec.Actions = []int64{2}
	return spec
}

// CapGapWitness: the fixed cluster of CapLemmas.above_deserved_in_every_dimension_refuted on the real plugin:
// queue q1 holds cpu 1000m of deserved 4000m (far below) and memory 2Mi of deserved 1Mi (above); reclaim for a
// pod of q2 evicts q1's only pod.
func CapGapWitness() Spec {
	spec := newSpec()
	spec.Nodes = []sched.NodeSpec{{ID: 1, Has: true, CPU: 1000, Mem: 2 << 20, Pods: 4}, {ID: 2, Has: true, CPU: 8000, Mem: 64 << 20, Pods: 4}}
	for q := int64(1); q <= 3; q++ {
		spec.Queues = append(spec.Queues, sched.QueueSpec{ID: q, Open: true, Weight: 1})
	}
	spec.QRecl[3] = 2
	spec.QDes[1] = [2]int64{4000, 1 << 20}
	spec.QDes[2] = [2]int64{1000, 2 << 20}
	spec.QDes[3] = [2]int64{8000, 64 << 20}
	spec.Jobs = []sched.JobSpec{{ID: 1, Queue: 1, Min: 0}, {ID: 2, Queue: 2, Min: 1}, {ID: 3, Queue: 3, Min: 0}}
	spec.PGPhase[1], spec.PGPhase[2], spec.PGPhase[3] = 3, 3, 3
	spec.Tasks = []sched.TaskSpec{
		{ID: 1, Job: 1, Role: 1, CPU: 1000, Mem: 2 << 20, Status: sched.SRunning, Node: 1, Preemptable: true},
		{ID: 2, Job: 2, Role: 1, CPU: 1000, Mem: 1 << 20, Status: sched.SPending, Preemptable: true},
		{ID: 3, Job: 3, Role: 1, CPU: 8000, Mem: 32 << 20, Status: sched.SRunning, Node: 2, Preemptable: true}}
	spec.Tiers = [][]Plug{{{Kind: KGang, Pre: true, Rec: true}, {Kind: KCap, Pre: true, Rec: true}}}
	spec.Actions = []int64{2}
	return spec
}

// GenRoleStage: the preempting / reclaiming PodGroup has per-role minimums (minTaskMember).  Victim job 1 runs k equal
// pods on node n1 (full); job 2 has one pod of role 1 ("master", minimum 1) that mostly fits nowhere, and w+1 pods of role 2
// ("worker", minimum w) each of which fits in place of one victim.  With minMember = w+1 the workers alone reach minMember,
// but role 1 has no placed pod: JobPipelined must reject and the statement with the workers' evictions must be discarded.
// Variants: the master fits too (commit), minMember below the sum of the role minimums (the code then ignores the role
// minimums), a role-1 pod that already runs.
func GenRoleStage(r *vh.Rng) Spec {
	spec := newSpec()
	reclaim := r.Chance(1, 2)
	w := int64(r.Range(1, 2))
	k := w + 1 + int64(r.Range(0, 2))
	c := int64(r.Range(1, 4)) * 500
	m := int64(r.Range(1, 3)) << 20
	spec.Nodes = []sched.NodeSpec{{ID: 1, Has: true, CPU: k*c + vh.Pick(r, []int64{0, 0, 250}), Mem: k*m + vh.Pick(r, []int64{0, 1 << 19}), Pods: k + 4}}
	spec.Queues = []sched.QueueSpec{{ID: 1, Open: true, Weight: 1}}
	pq := int64(1)
	if reclaim {
		spec.Queues = append(spec.Queues, sched.QueueSpec{ID: 2, Open: true, Weight: int64(r.Range(1, 3))})
		spec.QRecl[1] = vh.Pick(r, []int64{0, 1})
		pq = 2
	}
	spec.Jobs = append(spec.Jobs, sched.JobSpec{ID: 1, Queue: 1, Min: vh.Pick(r, []int64{0, 0, 1})})
	spec.PGPhase[1] = 3
	tid := int64(0)
	for i := int64(0); i < k; i++ {
		tid++
		spec.Tasks = append(spec.Tasks, sched.TaskSpec{ID: tid, Job: 1, Role: 1, Prio: 0, CPU: c, Mem: m, Status: sched.SRunning, Node: 1, Preemptable: true})
	}
	masterMin := int64(1)
	min := masterMin + w
	switch r.Intn(6) {
	case 0:
		min = w // below the sum of the role minimums: CheckTaskPipelined does not look at the roles
	case 1:
		min = masterMin + w + 1 // above: the job must also place one more pod of any role
	}
	spec.Jobs = append(spec.Jobs, sched.JobSpec{ID: 2, Queue: pq, Min: min, RoleMin: [][2]int64{{1, masterMin}, {2, w}}})
	spec.PGPhase[2] = 3
	spec.JPrio[2] = 2
	// the master: fits nowhere (2 in 3), or fits in place of one victim
	tid++
	master := sched.TaskSpec{ID: tid, Job: 2, Role: 1, Prio: int64(r.Range(0, 2)), CPU: 64000, Mem: m, Status: sched.SPending, Preemptable: true}
	if r.Chance(1, 3) {
		master.CPU = c
	}
	if r.Chance(1, 8) {
		// a master that already runs elsewhere: role 1 is satisfied whatever happens to the pending one
		spec.Nodes = append(spec.Nodes, sched.NodeSpec{ID: 2, Has: true, CPU: 500, Mem: 1 << 20, Pods: 2})
		tid++
		spec.Tasks = append(spec.Tasks, sched.TaskSpec{ID: tid, Job: 2, Role: 1, Prio: 1, CPU: 500, Mem: 1 << 20, Status: sched.SRunning, Node: 2, Preemptable: false})
	}
	spec.Tasks = append(spec.Tasks, master)
	for i := int64(0); i < w+1; i++ {
		tid++
		spec.Tasks = append(spec.Tasks, sched.TaskSpec{ID: tid, Job: 2, Role: 2, Prio: int64(r.Range(0, 2)), CPU: c, Mem: m, Status: sched.SPending, Preemptable: true})
	}
	if reclaim {
		spec.Tiers = vh.Pick(r, [][][]Plug{
			{{{Kind: KGang, Pre: true, Rec: true}, {Kind: KConf, Pre: true, Rec: true}}},
			{{{Kind: KConf, Pre: true, Rec: true}, {Kind: KGang, Pre: true, Rec: true}, {Kind: KProp, Pre: true, Rec: true}}},
			{{{Kind: KGang, Pre: true, Rec: true}}, {{Kind: KConf, Pre: true, Rec: true}}},
		})
		spec.Actions = []int64{2}
	} else {
		spec.Tiers = vh.Pick(r, [][][]Plug{
			{{{Kind: KGang, Pre: true, Rec: true}, {Kind: KPrio, Pre: true, Rec: true}}},
			{{{Kind: KGang, Pre: true, Rec: true}, {Kind: KConf, Pre: true, Rec: true}}},
			{{{Kind: KPrio, Pre: true, Rec: true}, {Kind: KGang, Pre: true, Rec: true}, {Kind: KConf, Pre: true, Rec: true}}},
		})
		spec.Actions = vh.Pick(r, [][]int64{{1}, {1}, {3}})
	}
	return spec
}

// GenDrfStage: drf votes for preemption in the deciding tier and several victims belong to one job.  Victim job 1 runs k
// equal pods on node n1 (nearly full), preemptor job 2 (same queue, higher priority) has a pending pod that needs 1..3 of
// them; a bystander job fills other nodes so that the cluster total, and with it every dominant share, varies.  drf lets
// a pod of job 1 go only while job 2's share (with the preemptor) stays at or below what is LEFT of job 1.
func GenDrfStage(r *vh.Rng) Spec {
	spec := newSpec()
	k := int64(r.Range(2, 5))
	c := int64(r.Range(1, 4)) * 500
	m := int64(r.Range(1, 3)) << 20
	need := int64(r.Range(1, 3))
	if need > k {
		need = k
	}
	spec.Nodes = []sched.NodeSpec{{ID: 1, Has: true, CPU: k*c + vh.Pick(r, []int64{0, 0, 250, 500}), Mem: k*m + (1 << 20), Pods: k + 3}}
	extra := int64(r.Range(0, 2))
	for i := int64(0); i < extra; i++ {
		spec.Nodes = append(spec.Nodes, sched.NodeSpec{ID: 2 + i, Has: true, CPU: int64(r.Range(1, 6)) * 1000, Mem: int64(r.Range(2, 8)) << 20, Pods: 4})
	}
	spec.Queues = []sched.QueueSpec{{ID: 1, Open: true, Weight: 1}}
	tid := int64(0)
	spec.Jobs = append(spec.Jobs, sched.JobSpec{ID: 1, Queue: 1, Min: vh.Pick(r, []int64{0, 0, 1})})
	spec.PGPhase[1] = 3
	for i := int64(0); i < k; i++ {
		tid++
		spec.Tasks = append(spec.Tasks, sched.TaskSpec{ID: tid, Job: 1, Role: 1, Prio: int64(r.Range(0, 1)), CPU: c, Mem: m, Status: sched.SRunning, Node: 1, Preemptable: true})
	}
	spec.Jobs = append(spec.Jobs, sched.JobSpec{ID: 2, Queue: 1, Min: 1})
	spec.PGPhase[2] = 3
	spec.JPrio[2] = 2
	// job 2 may already hold something (its share then starts higher)
	if r.Chance(1, 3) && extra > 0 {
		tid++
		spec.Tasks = append(spec.Tasks, sched.TaskSpec{ID: tid, Job: 2, Role: 1, Prio: 1, CPU: 500, Mem: 1 << 19, Status: sched.SRunning, Node: 2, Preemptable: false})
	}
	tid++
	spec.Tasks = append(spec.Tasks, sched.TaskSpec{ID: tid, Job: 2, Role: 1, Prio: 1, CPU: need*c - vh.Pick(r, []int64{0, 0, 250}), Mem: vh.Pick(r, []int64{m, need * m, 0}), Status: sched.SPending, Preemptable: true})
	// a second victim job on the same node sometimes
	if r.Chance(1, 3) {
		spec.Jobs = append(spec.Jobs, sched.JobSpec{ID: 3, Queue: 1, Min: 0})
		spec.PGPhase[3] = 3
		spec.Nodes[0].CPU += c
		spec.Nodes[0].Mem += m
		tid++
		spec.Tasks = append(spec.Tasks, sched.TaskSpec{ID: tid, Job: 3, Role: 1, CPU: c, Mem: m, Status: sched.SRunning, Node: 1, Preemptable: true})
	}
	spec.Tiers = [][]Plug{{{Kind: KGang, Pre: true, Rec: true}, {Kind: KDrf, Pre: true, Rec: true}}}
	if r.Chance(1, 3) {
		spec.Tiers[0] = append(spec.Tiers[0], Plug{Kind: KPrio, Pre: true, Rec: true})
	}
	spec.Actions = vh.Pick(r, [][]int64{{1}, {1}, {3}})
	return spec
}

func GenSpec(r *vh.Rng) Spec {
	spec := newSpec()
	nn := r.Range(1, 3)
	spec.Actions = vh.Pick(r, [][]int64{{1}, {2}, {1}, {2}, {1, 2}, {2, 1}, {3}, {3}, {3, 2}})
	// three quarters of the clusters are staged: job 1 is a running low-priority victim above its gang
	// minimum, job 2 a starving high-priority preemptor (same queue for preempt, another for reclaim)
	staged := r.Chance(3, 4)
	afterAllocate := r.Chance(1, 3)
	type used struct{ cpu, mem, pods, gpu int64 }
	room := map[int64]*used{}
	for i := 1; i <= nn; i++ {
		room[int64(i)] = &used{}
	}
	nq := r.Range(1, 3)
	if staged && spec.Actions[0] == 2 && nq == 1 {
		nq = 2
	}
	for q := 1; q <= nq; q++ {
		qs := sched.QueueSpec{ID: int64(q), Open: !r.Chance(1, 12), Weight: int64(r.Range(1, 4))}
		if r.Chance(1, 5) {
			qs.CapCPU = int64(r.Range(2, 12)) * 1000
		}
		spec.Queues = append(spec.Queues, qs)
		spec.QRecl[qs.ID] = vh.Pick(r, []int64{0, 0, 1, 1, 1, 2})
	}
	nj := r.Range(2, 5)
	tid := int64(0)
	for j := 1; j <= nj; j++ {
		js := sched.JobSpec{ID: int64(j), Queue: int64(r.Range(1, nq))}
		if staged && j == 1 {
			js.Queue = 1
		}
		if staged && j == 2 {
			js.Queue = 1
			if spec.Actions[0] == 2 {
				js.Queue = 2
			}
		}
		spec.JSys[js.ID] = r.Chance(1, 12)
		nt := r.Range(1, 5)
		// a job is mostly running (victim side) or mostly pending (preemptor side) or mixed
		mode := r.Intn(3)
		if j == 1 {
			mode = 0
		} else if j == 2 {
			mode = 1
		}
		switch mode {
		case 0:
			spec.JPrio[js.ID] = int64(r.Range(0, 2))
		case 1:
			spec.JPrio[js.ID] = int64(r.Range(1, 3))
		default:
			spec.JPrio[js.ID] = int64(r.Range(0, 3))
		}
		if staged && j == 1 {
			spec.JPrio[js.ID] = int64(r.Range(0, 1))
		}
		if staged && j == 2 {
			spec.JPrio[js.ID] = int64(r.Range(2, 3))
		}
		running := 0
		for k := 0; k < nt; k++ {
			tid++
			ts := sched.TaskSpec{ID: tid, Job: js.ID, Role: 1, Prio: int64(r.Range(0, 2)), Preemptable: !r.Chance(1, 5)}
			switch r.Intn(12) {
			case 0: // best effort
			case 1, 2:
				ts.CPU = int64(r.Range(1, 6)) * 500
			default:
				ts.CPU = int64(r.Range(1, 6)) * 250
				ts.Mem = int64(r.Range(1, 6)) << 19
				if r.Chance(1, 8) {
					ts.GPU = 1
				}
			}
			if r.Chance(1, 10) {
				spec.TClass[ts.ID] = int64(r.Range(1, 2))
			}
			ts.Status = sched.SPending
			wantRun := (mode == 0 && !r.Chance(1, 6)) || (mode == 2 && r.Chance(1, 2)) || (mode == 1 && r.Chance(1, 8))
			if wantRun {
				ts.Status = vh.Pick(r, []int64{sched.SRunning, sched.SRunning, sched.SRunning, sched.SRunning, sched.SBound, sched.SReleasing, sched.SSucceeded})
				// reclaim must leave Bound pods alone (preempt may take them): offer some on the victim side
				if staged && j == 1 && hasAction(spec.Actions, 2) && ts.Status == sched.SRunning && r.Chance(1, 3) {
					ts.Status = sched.SBound
				}
				// a third of the clusters look like a session in which allocate / backfill ran before
				if afterAllocate && r.Chance(1, 3) {
					// (no Pipelined pods: a pod pipelined earlier in a real session is in the queue plugins' ledgers, which a
					// session opened from pods cannot reproduce)
					ts.Status = vh.Pick(r, []int64{sched.SAllocated, sched.SAllocated, sched.SBinding, sched.SBinding})
				}
				nid := int64(r.Range(1, nn))
				f := room[nid]
				ts.Node = nid
				if ts.Status != sched.SSucceeded {
					f.cpu += ts.CPU
					f.mem += ts.Mem
					f.pods++
					f.gpu += ts.GPU
					if ts.Status != sched.SReleasing && ts.Status != sched.SPipelined {
						running++
					}
				}
			}
			spec.Tasks = append(spec.Tasks, ts)
		}
		switch r.Intn(6) {
		case 0:
			js.Min = 0
		case 1:
			js.Min = int64(nt)
		case 2:
			js.Min = int64(running) // exactly at the gang minimum
		case 3:
			if running > 0 {
				js.Min = int64(running) - 1 // one above
			}
		default:
			js.Min = int64(r.Range(1, nt))
		}
		if staged && j == 1 && running > 0 && r.Chance(4, 5) {
			js.Min = int64(r.Range(0, running-1))
		}
		if staged && j == 2 && r.Chance(4, 5) {
			js.Min = int64(r.Range(running+1, nt+1))
		}
		spec.Jobs = append(spec.Jobs, js)
		spec.PGPhase[js.ID] = vh.Pick(r, []int64{2, 2, 2, 2, 3, 3, 3, 3, 3, 1})
		if staged && j <= 2 && r.Chance(9, 10) {
			spec.PGPhase[js.ID] = 3
		}
	}
	// nodes: what their tasks use plus a small slack, so that pending tasks rarely fit as they are
	for i := 1; i <= nn; i++ {
		f := room[int64(i)]
		ns := sched.NodeSpec{ID: int64(i), Has: true,
			CPU:  f.cpu + vh.Pick(r, []int64{0, 0, 0, 250, 500, 1000}),
			Mem:  f.mem + vh.Pick(r, []int64{0, 1 << 19, 1 << 20, 8 << 20}),
			Pods: f.pods + vh.Pick(r, []int64{0, 1, 2, 5}),
			GPU:  f.gpu}
		if ns.CPU == 0 {
			ns.CPU = 1000
		}
		if ns.Mem == 0 {
			ns.Mem = 4 << 20
		}
		if ns.Pods == 0 {
			ns.Pods = 2
		}
		if r.Chance(1, 5) {
			ns.GPU++
		}
		spec.Nodes = append(spec.Nodes, ns)
	}
	// tier layout
	kinds := []int64{}
	for _, k := range []int64{KGang, KPrio, KConf} {
		if r.Chance(6, 7) {
			kinds = append(kinds, k)
		}
	}
	if r.Chance(1, 5) {
		kinds = append(kinds, KDrf)
	}
	// at most one queue plugin
	qplug := vh.Pick(r, []int64{0, KProp, KProp, KProp, KCap, KCap, KCap})
	if qplug != 0 {
		kinds = append(kinds, qplug)
	}
	// guarantees and (capacity) deserved amounts around what the queues hold
	useC, useM := map[int64]int64{}, map[int64]int64{}
	jq := map[int64]int64{}
	for _, j := range spec.Jobs {
		jq[j.ID] = j.Queue
	}
	for _, t := range spec.Tasks {
		if t.Status == sched.SRunning || t.Status == sched.SBound {
			useC[jq[t.Job]] += t.CPU
			useM[jq[t.Job]] += t.Mem
		}
	}
	for _, q := range spec.Queues {
		if qplug == KCap || r.Chance(1, 5) {
			if r.Chance(2, 5) {
				g := [2]int64{vh.Pick(r, []int64{0, useC[q.ID] / 2, useC[q.ID] - 250, useC[q.ID] - 500, useC[q.ID]}), 0}
				if g[0] < 0 {
					g[0] = 0
				}
				if r.Chance(1, 4) {
					g[1] = useM[q.ID] / 2
				}
				spec.QGuar[q.ID] = g
			}
		}
		if qplug == KCap {
			spec.QDes[q.ID] = [2]int64{vh.Pick(r, []int64{0, useC[q.ID] / 2, useC[q.ID], useC[q.ID] + 1000, 8000}),
				vh.Pick(r, []int64{0, useM[q.ID] / 2, useM[q.ID] + (2 << 20), 32 << 20})}
		}
	}
	for i := len(kinds) - 1; i > 0; i-- {
		j := r.Intn(i + 1)
		kinds[i], kinds[j] = kinds[j], kinds[i]
	}
	nt := 1
	if len(kinds) > 1 && r.Chance(1, 2) {
		nt = r.Range(2, 3)
	}
	spec.Tiers = make([][]Plug, nt)
	for _, k := range kinds {
		i := r.Intn(nt)
		spec.Tiers[i] = append(spec.Tiers[i], Plug{Kind: k, Pre: !r.Chance(1, 8), Rec: !r.Chance(1, 8)})
	}
	for i := range spec.Tiers {
		if spec.Tiers[i] == nil {
			spec.Tiers[i] = []Plug{}
		}
	}
	// scripted faults: Statement.Pipeline fails for some (pending task, node) placements, so that the
	// action has to roll a node attempt back and go on with the next node; cache.Evict refusals
	if r.Chance(2, 5) {
		for _, t := range spec.Tasks {
			if t.Status != sched.SPending || !r.Chance(1, 2) {
				continue
			}
			switch {
			case nn >= 2 && r.Chance(1, 3): // every node but one
				keep := int64(r.Range(1, nn))
				for n := int64(1); n <= int64(nn); n++ {
					if n != keep {
						spec.Faults = append(spec.Faults, [2]int64{t.ID, n})
					}
				}
			default:
				spec.Faults = append(spec.Faults, [2]int64{t.ID, int64(r.Range(1, nn))})
			}
		}
	}
	// topology-aware preempt makes ONE real attempt per preemptor (on the node its dry run chose): a fault on every
	// node for one preemptor of a gang with several pending pods makes that attempt fail for sure while the
	// gang can still become pipelined through the others
	if spec.Actions[0] == 3 && r.Chance(1, 2) {
		pend := map[int64][]int64{}
		for _, t := range spec.Tasks {
			if t.Status == sched.SPending && t.CPU > 0 {
				pend[t.Job] = append(pend[t.Job], t.ID)
			}
		}
		for _, j := range spec.Jobs {
			if len(pend[j.ID]) >= 2 {
				victim := vh.Pick(r, pend[j.ID])
				for n := int64(1); n <= int64(nn); n++ {
					spec.Faults = append(spec.Faults, [2]int64{victim, n})
				}
				for i := range spec.Jobs {
					if spec.Jobs[i].ID == j.ID && spec.Jobs[i].Min >= int64(len(pend[j.ID])) && r.Chance(2, 3) {
						spec.Jobs[i].Min = int64(r.Range(1, len(pend[j.ID])-1))
					}
				}
				break
			}
		}
	}
	if r.Chance(1, 4) {
		for _, t := range spec.Tasks {
			if (t.Status == sched.SRunning || t.Status == sched.SBound) && r.Chance(1, 3) {
				spec.Refuse = append(spec.Refuse, t.ID)
			}
		}
	}
	return spec
}

// GenVote: a vote case on the cluster of spec: any preemptor, a shuffled subset of the tasks that sit on nodes.
func GenVote(r *vh.Rng, spec Spec) ([]int64, map[string]any, bool) {
	if len(spec.Tasks) == 0 {
		return nil, nil, false
	}
	p := vh.Pick(r, spec.Tasks)
	cands := []int64{}
	for _, t := range spec.Tasks {
		if t.ID != p.ID && t.Node != 0 && t.Status != sched.SSucceeded && r.Chance(4, 5) {
			cands = append(cands, t.ID)
		}
	}
	for i := len(cands) - 1; i > 0; i-- {
		j := r.Intn(i + 1)
		cands[i], cands[j] = cands[j], cands[i]
	}
	reclaim := r.Chance(1, 2)
	if true {
		// proportion's reclaimableFn (and drf's preemptableFn) subtracts every candidate from its queue's allocated amount
		// (Resource.Sub asserts): like the action, hand it tasks that hold resources only
		keep := cands[:0]
		st := map[int64]int64{}
		for _, t := range spec.Tasks {
			st[t.ID] = t.Status
		}
		for _, c := range cands {
			if st[c] == sched.SRunning || st[c] == sched.SBound {
				keep = append(keep, c)
			}
		}
		cands = keep
	}
	in := spec.Enc()
	in = append(in, b2i(reclaim), p.ID, int64(len(cands)))
	in = append(in, cands...)
	return in, map[string]any{"reclaim": reclaim, "preemptor": p.ID, "cands": cands, "tiers": spec.Tiers}, len(cands) >= 2
}
