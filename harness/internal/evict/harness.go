package evict

import (
	"fmt"
	"os"
	"sort"

	"volcano.sh/volcano/pkg/scheduler/api"

	"verif/harness/internal/sched"
	"verif/harness/internal/vh"
)

// Known findings (see docs/notes/C04.md): signature of the full-strength plugin law.
const SigFallThrough = "C04-lower-tier-overrides-veto"

type stash struct {
	evidence  []int64
	multiTier bool
	drfOnly   bool // one tier, drf votes for preemption
	gangAll   bool // one tier, gang votes for every action in the list
	capOnly   bool // reclaim only, one tier, capacity voting in it: every eviction went through its vote
}

// evidence for the laws: one record per accepted evictor call + the final task states
func (w *World) evidence(choices []Choice) []int64 {
	type at struct {
		a   *Attempt
		pos int
	}
	// attempts in trace order with the position of their first eviction
	atts := []*Attempt{}
	for _, c := range choices {
		for _, g := range c.Groups {
			atts = append(atts, g.Atts...)
		}
	}
	// position of each eviction callback in the trace -> attempt (walk again)
	owner := map[int]*Attempt{}
	{
		ai := -1
		var cur *Attempt
		left := 0
		for i, e := range w.Trace {
			if e.Kind == 0 && e.Status == sched.SReleasing {
				if left == 0 {
					ai++
					for ai < len(atts) && len(atts[ai].Order) == 0 {
						ai++
					}
					cur = atts[ai]
					left = len(cur.Order)
				}
				owner[i] = cur
				left--
			}
		}
	}
	out := []int64{}
	n := 0
	for i, e := range w.Trace {
		if e.Kind != 3 {
			continue
		}
		// the last eviction callback of this task before the evictor call
		var a *Attempt
		for k := i - 1; k >= 0; k-- {
			if w.Trace[k].Kind == 0 && w.Trace[k].Status == sched.SReleasing && w.Trace[k].Task == e.Task {
				a = owner[k]
				break
			}
		}
		if a == nil {
			panic(fmt.Sprintf("evictor call for t%d without a preceding Statement.Evict", e.Task))
		}
		n++
		// the JobPipelined call that closed the statement this eviction was committed with
		// (none for the intra-job phase, which commits per assigned preemptor)
		jpCount, jpMin := int64(-1), int64(-1)
		var jpRoles []int64
		for k := i - 1; k >= 0; k-- {
			if w.Trace[k].Kind == 13 {
				if w.Trace[k].Task == w.jobOfTask(a.Preemptor) && w.jobOfTask(e.Task) != w.jobOfTask(a.Preemptor) {
					jpCount, jpMin, jpRoles = w.Trace[k].Status, w.Trace[k].Node, w.Trace[k].Roles
				}
				break
			}
			if w.Trace[k].Kind == 10 || w.Trace[k].Kind == 11 {
				break // a task attempt lies between: this commit was not preceded by a JobPipelined call
			}
		}
		out = append(out, e.Task, a.Action, a.Preemptor, a.Node, a.Pipelined, jpCount, jpMin, int64(len(a.Order)))
		out = append(out, a.Order...)
		out = append(out, int64(len(a.Obs)))
		for _, o := range a.Obs {
			out = append(out, o.ID, o.Status, o.JobReady)
			out = append(out, o.QAlloc...)
			out = append(out, o.JAlloc...)
		}
		out = append(out, int64(len(a.QOrder)))
		out = append(out, a.QOrder...)
		out = append(out, a.PAlloc...)
		out = append(out, int64(len(jpRoles)/2))
		out = append(out, jpRoles...)
		out = append(out, a.Tier)
	}
	out = append([]int64{int64(n)}, out...)
	ids := w.taskIDs()
	out = append(out, int64(len(ids)))
	for _, id := range ids {
		out = append(out, sched.EncTaskBrief(w.Tasks[id])...)
	}
	return out
}

func drfOnly(spec Spec) bool {
	if len(spec.Tiers) != 1 {
		return false
	}
	for _, p := range spec.Tiers[0] {
		if p.Kind == KDrf && p.Pre {
			return true
		}
	}
	return false
}

func gangAll(spec Spec) bool {
	if len(spec.Tiers) != 1 {
		return false
	}
	for _, p := range spec.Tiers[0] {
		if p.Kind == KGang {
			for _, a := range spec.Actions {
				if ((a == 1 || a == 3) && !p.Pre) || (a == 2 && !p.Rec) {
					return false
				}
			}
			return true
		}
	}
	return false
}

func capOnly(spec Spec) bool {
	if len(spec.Actions) != 1 || spec.Actions[0] != 2 || len(spec.Tiers) != 1 {
		return false
	}
	for _, p := range spec.Tiers[0] {
		if p.Kind == KCap && p.Rec {
			return true
		}
	}
	return false
}

func runCycle(spec Spec) (*World, []Choice) {
	w := NewWorld(spec)
	w.RunActions()
	return w, w.Reconstruct()
}

func Harness() vh.Harness {
	var last stash
	run2 := func(sel int, in []int64) ([]int64, []int64) {
		r := &sched.Tok{T: in}
		spec := DecSpec(r)
		switch sel {
		case 1:
			w := NewWorld(spec)
			limits := append(w.QueueLimits(), w.CapLimits()...)
			w.RunActions()
			choices := w.Reconstruct()
			if os.Getenv("C04_DEBUG") != "" {
				for i, e := range w.Trace {
					fmt.Fprintf(os.Stderr, "%3d %+v\n", i, e)
				}
				for _, c := range choices {
					fmt.Fprintf(os.Stderr, "choice kind=%d first=%v job=%d [%d,%d)\n", c.Kind, c.First, c.Job, c.From, c.To)
					for _, g := range c.Groups {
						fmt.Fprintf(os.Stderr, "  task %d\n", g.Task)
						for _, a := range g.Atts {
							fmt.Fprintf(os.Stderr, "    att node=%d cands=%v order=%v pip=%d\n", a.Node, a.Cands, a.Order, a.Pipelined)
						}
					}
				}
			}
			modelIn := spec.Enc()
			modelIn = append(modelIn, limits...)
			base := len(modelIn)
			modelIn = append(modelIn, EncChoices(choices)...)
			got := []int64{}
			for _, c := range choices {
				got = append(got, w.EncChoiceEvents(c)...)
			}
			// every callback / evictor call must lie inside some choice
			if len(choices) == 0 {
				for _, e := range w.Trace {
					if e.Kind == 0 || e.Kind == 1 || e.Kind == 3 {
						panic("trace has events but no choice was reconstructed")
					}
				}
			}
			got = append(got, -102)
			got = append(got, w.EncFinal()...)
			got = append(got, -104, 1) // the session built from the spec is well-formed (model-side check)
			got = append(got, -105, 1) // its ledgers are sums over its pods (model-side check)
			last = stash{evidence: append(append([]int64{}, modelIn[:base]...), w.evidence(choices)...), multiTier: len(spec.Tiers) > 1, capOnly: capOnly(spec), gangAll: gangAll(spec), drfOnly: drfOnly(spec)}
			return modelIn, got
		case 2:
			reclaim := r.Bool()
			pid := r.Next()
			cands := r.Ints()
			w := NewWorld(spec)
			limits := append(w.QueueLimits(), w.CapLimits()...)
			p := w.Tasks[pid]
			cl := []*api.TaskInfo{}
			for _, c := range cands {
				cl = append(cl, w.Tasks[c].Clone())
			}
			qorder := PopOrder(w.Ssn, p, cl)
			var vs []*api.TaskInfo
			if reclaim {
				vs = w.Ssn.Reclaimable(p, cl)
			} else {
				vs = w.Ssn.Preemptable(p, cl)
			}
			ids := []int64{}
			for _, v := range vs {
				ids = append(ids, sched.ParseID(string(v.UID)))
			}
			sort.Slice(ids, func(i, j int) bool { return ids[i] < ids[j] })
			modelIn := spec.Enc()
			modelIn = append(modelIn, b2i(reclaim), pid, int64(len(cands)))
			modelIn = append(modelIn, cands...)
			modelIn = append(modelIn, limits...)
			modelIn = append(modelIn, int64(len(qorder)))
			modelIn = append(modelIn, qorder...)
			got := []int64{-103, int64(len(ids))}
			got = append(got, ids...)
			last = stash{}
			return modelIn, got
		}
		panic("unknown selector")
	}
	laws := func(sel int, in, got []int64, law func(lsel int, lin []int64, sig string)) {
		if sel != 1 {
			return
		}
		law(101, last.evidence, "")
		law(102, last.evidence, "")
		law(103, last.evidence, "")
		law(105, last.evidence, "")
		law(106, last.evidence, "")
		if last.capOnly {
			law(107, last.evidence, "")
		}
		if last.drfOnly {
			law(109, last.evidence, "")
		}
		if last.gangAll {
			law(108, last.evidence, "")
		}
		// law 110 (unsigned): the real walk decided in the tier the recomputed votes decide in.  Law 104 answers true
		// whenever 103 or 110 fails, so a failing 104 is exactly the documented mechanism as it HAPPENED: the real walk
		// passed over earlier tiers (observed by the tier markers), decided where the recomputation decides, and a
		// voter of a passed-over tier had vetoed the victim
		law(110, last.evidence, "")
		law(104, last.evidence, SigFallThrough)
	}
	gen := func(rng *vh.Rng, n int, emit func(id string, sel int, in []int64, kind string, nontrivial bool, desc any)) {
		for i := 0; i < n; i++ {
			r := rng.Fork()
			var spec Spec
			if i%6 == 2 {
				spec = GenDrfStage(r)
			} else if i == 0 {
				spec = CapGapWitness()
			} else if i%6 == 5 {
				spec = GenCapStage(r)
			} else if i%6 == 4 {
				spec = GenRoleStage(r)
			} else {
				spec = GenSpec(r)
			}
			// classify by what the real actions did (the case itself is re-run from its tokens)
			var w *World
			var choices []Choice
			crashed := false
			func() {
				defer func() {
					if recover() != nil {
						crashed = true
					}
				}()
				w, choices = runCycle(spec)
			}()
			if crashed {
				// the per-case run below panics again and vh reports it as a violation of this case
				emit(fmt.Sprintf("cycle-%d", i), 1, spec.Enc(), "cycle/panic", true, map[string]any{"tiers": spec.Tiers, "actions": spec.Actions})
				continue
			}
			evicted, pipelined, discarded := 0, 0, 0
			failedPipe := 0
			for _, c := range choices {
				for _, g := range c.Groups {
					for _, a := range g.Atts {
						if a.Failed {
							failedPipe++
						}
					}
				}
			}
			for _, e := range w.Trace {
				switch {
				case e.Kind == 3:
					evicted++
				case e.Kind == 1 && e.Status == sched.SPipelined:
					pipelined++
				case e.Kind == 1 && e.Status != sched.SPipelined:
					discarded++
				}
			}
			cls := "no-attempt"
			switch {
			case evicted > 0 && discarded > 0:
				cls = "evicted+rolled-back"
			case evicted > 0:
				cls = "evicted"
			case discarded > 0:
				cls = "rolled-back-only"
			case pipelined > 0:
				cls = "pipelined-without-eviction"
			}
			if failedPipe > 0 {
				cls += "+pipeline-fault"
			}
			for _, t := range spec.Tasks {
				if t.Status == sched.SAllocated || t.Status == sched.SBinding || t.Status == sched.SPipelined {
					cls += "+after-allocate"
					break
				}
			}
			refusedHit := 0
			for _, t := range spec.Refuse {
				for _, e := range w.Trace {
					if e.Kind == 0 && e.Status == sched.SReleasing && e.Task == t {
						refusedHit++
						break
					}
				}
			}
			if refusedHit > 0 {
				cls += "+evict-refused"
			}
			// guard hits of the guarded laws: 109 (single drf tier, preempt attempt that evicted; "set" = at least two pods
			// of one job in one attempt) and the role part of 105 (JobPipelined asked for a job with role minimums in a
			// cycle that evicted)
			g109, g109set, gRoles := 0, 0, 0
			if drfOnly(spec) {
				for _, c := range choices {
					for _, g := range c.Groups {
						for _, a := range g.Atts {
							if a.Action != 1 || len(a.Order) == 0 {
								continue
							}
							g109++
							perJob := map[int64]int{}
							for _, v := range a.Order {
								perJob[w.jobOfTask(v)]++
							}
							for _, n := range perJob {
								if n >= 2 {
									g109set++
									break
								}
							}
						}
					}
				}
			}
			for _, e := range w.Trace {
				if e.Kind == 13 && len(e.Roles) > 0 {
					gRoles++
				}
			}
			if g109 > 0 {
				cls += "+law109-guard"
			}
			if g109set > 0 {
				cls += "+drf-set"
			}
			if gRoles > 0 && evicted+discarded > 0 {
				cls += "+role-minimums-asked"
			}
			kind := fmt.Sprintf("cycle/actions=%v/tiers=%d/%s", spec.Actions, len(spec.Tiers), cls)
			desc := map[string]any{"nodes": len(spec.Nodes), "queues": len(spec.Queues), "jobs": len(spec.Jobs), "tasks": len(spec.Tasks),
				"tiers": spec.Tiers, "choices": len(choices), "evicted": evicted, "pipelined": pipelined, "undone": discarded, "failed_pipelines": failedPipe, "faults": len(spec.Faults), "refuse": len(spec.Refuse),
				"law109_guard": g109, "law109_set": g109set, "role_minimums_asked": gRoles}
			emit(fmt.Sprintf("cycle-%d", i), 1, spec.Enc(), kind, evicted+discarded+failedPipe > 0, desc)
			// votes on the same cluster
			for k := 0; k < 2; k++ {
				in, d, nt := GenVote(r, spec)
				if in != nil {
					emit(fmt.Sprintf("vote-%d-%d", i, k), 2, in, fmt.Sprintf("vote/reclaim=%v/tiers=%d", d["reclaim"], len(spec.Tiers)), nt, d)
				}
			}
		}
	}
	return vh.Harness{Run2: run2, Laws: laws, Gen: gen}
}
