package evict

import (
	"fmt"
	"sort"

	"verif/harness/internal/sched"
)

// Attempt is one node attempt that left a trace (an eviction or the preemptor's pipeline).
type Attempt struct {
	Node      int64
	Cands     []int64 // as the action passed them to the vote
	CandSt    []int64
	Order     []int64 // evictions in pop order
	QOrder    []int64 // the candidates in the pop order of the victims queue
	PAlloc    []int64 // what the preemptor's job held at the vote
	Tier      int64   // 1-based index of the last tier the real vote walk of this attempt reached
	Pipelined int64   // node the preemptor was pipelined on by this attempt, 0 = none
	Preemptor int64
	Action    int64 // 1 preempt, 2 reclaim
	Obs       []CandObs
	Failed    bool // the Pipeline of this attempt failed and was rolled back
	Topo      bool // made by topologyAwarePreempt
	done      bool
}

// CandObs: what the harness observed at vote time about a candidate (for the laws).
type CandObs struct {
	ID, Status int64
	JobReady   int64   // ReadyTaskNum of the candidate's job at vote time
	QAlloc     []int64 // allocated of the candidate's queue at vote time (recorder ledger), EncRes
	JAlloc     []int64 // allocated of the candidate's job at vote time
}

type TaskGroup struct {
	Task int64
	Atts []*Attempt
	From int
	Act  int64 // index of the action that was running
}

// Choice is one reconstructed oracle choice (C04.Model.choice).
type Choice struct {
	Kind     int64 // 1 inter-job preempt, 2 intra-job preempt, 3 reclaim
	First    bool
	Job      int64
	Groups   []TaskGroup
	From, To int
}

func (w *World) jobOfTask(t int64) int64 { return w.TSpec[t].Job }
func (w *World) queueOfJob(j int64) int64 {
	for _, js := range w.Spec.Jobs {
		if js.ID == j {
			return js.Queue
		}
	}
	return 0
}

// Reconstruct groups the trace into oracle choices.
func (w *World) Reconstruct() []Choice {
	pending := []TaskGroup{}
	choices := []Choice{}
	var cur *TaskGroup
	var att *Attempt
	dry := []TraceEv{} // topology-aware: the dry-run vote calls of the current task (one per node, any order)
	closeAtt := func() {
		if att != nil && cur != nil && (len(att.Order) > 0 || att.Pipelined != 0 || att.Failed) {
			cur.Atts = append(cur.Atts, att)
		}
		att = nil
	}
	closeGroup := func() {
		closeAtt()
		if cur != nil && len(cur.Atts) > 0 {
			pending = append(pending, *cur)
		}
		cur = nil
	}
	intra := func(gs []TaskGroup) {
		for _, g := range gs {
			choices = append(choices, Choice{Kind: 2, Job: w.jobOfTask(g.Task), Groups: []TaskGroup{g}, From: g.From})
		}
	}
	seenQueue := map[[2]int64]bool{}
	for i, e := range w.Trace {
		act := w.Spec.Actions[e.Action-1]
		switch e.Kind {
		case 10:
			closeGroup()
			cur = &TaskGroup{Task: e.Task, From: i, Act: e.Action}
			dry = dry[:0]
		case 11:
			closeAtt()
			if cur == nil || cur.Task != e.Task {
				panic(fmt.Sprintf("vote call for t%d outside its task group", e.Task))
			}
			if act == 3 {
				// a dry run on a clone: the real attempt, if any, follows after all of them
				dry = append(dry, e)
				att = nil
				continue
			}
			att = &Attempt{Node: e.Node, Cands: e.Cands, CandSt: e.CandSt, QOrder: e.QOrder, PAlloc: e.PAlloc, Tier: e.Reached + 1, Preemptor: e.Task, Action: act, Obs: e.obs}
		case 0:
			if e.Status == sched.SReleasing {
				if act == 3 && att == nil {
					att = topoAttempt(dry, e.Node, cur)
				}
				if att == nil || att.done {
					panic(fmt.Sprintf("eviction of t%d outside a node attempt", e.Task))
				}
				att.Order = append(att.Order, e.Task)
				if att.Node == 0 {
					att.Node = e.Node
				}
			}
		case 1:
			if e.Status == sched.SPipelined {
				if act == 3 && att == nil {
					att = topoAttempt(dry, e.Node, cur)
				}
				if att == nil || att.done || e.Task != att.Preemptor {
					panic(fmt.Sprintf("pipeline of t%d outside its node attempt", e.Task))
				}
				att.Pipelined = e.Node
				if att.Node == 0 {
					att.Node = e.Node
				}
				att.done = true
				// Statement.Pipeline that failed (a handler reported Event.Err) rolls itself back at
				// once: the very next callback is the deallocate of the same task, Pending again
				if i+1 < len(w.Trace) {
					if n := w.Trace[i+1]; n.Kind == 0 && n.Task == e.Task && n.Status == sched.SPending {
						att.Pipelined = 0
						att.Failed = true
					}
				}
			}
		case 13:
			closeGroup()
			k := len(pending)
			for k > 0 && w.jobOfTask(pending[k-1].Task) == e.Task && pending[k-1].Act == e.Action {
				k--
			}
			for _, g := range pending[:k] {
				if act == 2 && g.Act == e.Action {
					panic("reclaim: task groups of another job before JobPipelined")
				}
			}
			intra(pending[:k])
			mine := pending[k:]
			pending = nil
			if len(mine) == 0 {
				continue
			}
			c := Choice{Kind: 1, Job: e.Task, Groups: mine, From: mine[0].From}
			if act == 2 {
				c.Kind = 3
				key := [2]int64{e.Action, w.queueOfJob(e.Task)}
				c.First = !seenQueue[key]
				seenQueue[key] = true
			}
			choices = append(choices, c)
		}
	}
	closeGroup()
	intra(pending)
	for i := range choices {
		if i == 0 {
			choices[i].From = 0
		}
		if i+1 < len(choices) {
			choices[i].To = choices[i+1].From
		} else {
			choices[i].To = len(w.Trace)
		}
	}
	return choices
}

// topoAttempt: the node attempt topologyAwarePreempt really makes, from the dry-run vote call on that node.
func topoAttempt(dry []TraceEv, node int64, cur *TaskGroup) *Attempt {
	if cur == nil {
		return nil
	}
	for _, d := range dry {
		if d.Node == node && d.Task == cur.Task {
			return &Attempt{Node: node, Cands: d.Cands, CandSt: d.CandSt, QOrder: d.QOrder, PAlloc: d.PAlloc, Tier: d.Reached + 1, Preemptor: d.Task, Action: 1, Obs: d.obs, Topo: true}
		}
	}
	panic(fmt.Sprintf("topology-aware preempt acts on n%d without a dry run there", node))
}

func encAtts(atts []*Attempt) []int64 {
	out := []int64{int64(len(atts))}
	for _, a := range atts {
		out = append(out, a.Node, int64(len(a.Cands)))
		out = append(out, a.Cands...)
		out = append(out, int64(len(a.Order)))
		out = append(out, a.Order...)
		out = append(out, int64(len(a.QOrder)))
		out = append(out, a.QOrder...)
		out = append(out, b2i(a.Topo))
	}
	return out
}

func EncChoices(cs []Choice) []int64 {
	out := []int64{int64(len(cs))}
	for _, c := range cs {
		switch c.Kind {
		case 1, 3:
			out = append(out, c.Kind)
			if c.Kind == 3 {
				out = append(out, b2i(c.First))
			}
			out = append(out, c.Job, int64(len(c.Groups)))
			for _, g := range c.Groups {
				out = append(out, g.Task)
				out = append(out, encAtts(g.Atts)...)
			}
		case 2:
			out = append(out, 2, c.Job, c.Groups[0].Task)
			out = append(out, encAtts(c.Groups[0].Atts)...)
		}
	}
	return out
}

// EncChoiceEvents: the model's eStep for one choice (verdict 0).
func (w *World) EncChoiceEvents(c Choice) []int64 {
	out := []int64{-101, 0}
	hev := []TraceEv{}
	evs := []int64{}
	for _, e := range w.Trace[c.From:c.To] {
		switch e.Kind {
		case 0, 1:
			hev = append(hev, e)
		case 3:
			evs = append(evs, e.Task)
		}
	}
	out = append(out, int64(len(hev)))
	for _, e := range hev {
		out = append(out, e.Kind, e.Task, e.Status, e.Node)
	}
	out = append(out, 0) // no binds
	sort.Slice(evs, func(i, j int) bool { return evs[i] < evs[j] })
	out = append(out, int64(len(evs)))
	out = append(out, evs...)
	return out
}
