// Package vh holds what every property harness shares: one seeded PRNG from
// which all random choices derive, and the case writer.  A harness runs the
// REAL volcano code on generated inputs and writes, per case, the input in the
// token encoding the Coq model decodes plus the observables in the encoding
// the model produces; /verif/check feeds the inputs to the extracted model and
// diffs.
package vh

import (
	"bufio"
	"bytes"
	"encoding/json"
	"flag"
	"fmt"
	"io"
	"os"
	"time"

	"k8s.io/klog/v2"
)

// the code under test logs through klog; none of it is an observable
func init() {
	fs := flag.NewFlagSet("klog", flag.ContinueOnError)
	klog.InitFlags(fs)
	fs.Set("logtostderr", "false")
	fs.Set("alsologtostderr", "false")
	fs.Set("stderrthreshold", "FATAL")
	klog.SetOutput(io.Discard)
}

// Rng is splitmix64.
type Rng struct{ s uint64 }

func NewRng(seed uint64) *Rng { return &Rng{s: seed} }

func (r *Rng) U64() uint64 {
	r.s += 0x9e3779b97f4a7c15
	z := r.s
	z = (z ^ (z >> 30)) * 0xbf58476d1ce4e5b9
	z = (z ^ (z >> 27)) * 0x94d049bb133111eb
	return z ^ (z >> 31)
}

// Intn returns a value in [0,n).
func (r *Rng) Intn(n int) int {
	if n <= 0 {
		return 0
	}
	return int(r.U64() % uint64(n))
}

// Range returns a value in [lo,hi].
func (r *Rng) Range(lo, hi int) int { return lo + r.Intn(hi-lo+1) }

// Chance is true with probability num/den.
func (r *Rng) Chance(num, den int) bool { return r.Intn(den) < num }

// Fork derives an independent stream (so that adding draws in one place does
// not shift every later case).
func (r *Rng) Fork() *Rng { return NewRng(r.U64()) }

func Pick[T any](r *Rng, xs []T) T { return xs[r.Intn(len(xs))] }

// Case is one line of the harness output.
type Case struct {
	ID   string  `json:"id"`
	Sel  int     `json:"sel"`            // entry selector of the model
	In   []int64 `json:"in"`             // model input tokens
	Got  []int64 `json:"got"`            // what the implementation did, in model output encoding
	Kind string  `json:"kind,omitempty"` // generator stream / class, for the distribution report
	// Role: "corr" (default) = model and implementation must agree on Got;
	// "law" = In carries the implementation's own results and the model's
	// executable property checker must answer Got (= [1]): a disagreement
	// here is a concrete violation of the property itself.
	Role string `json:"role,omitempty"`
	// for a law case: the correspondence case it was derived from (what -replay re-runs)
	SrcSel int     `json:"src_sel,omitempty"`
	SrcIn  []int64 `json:"src_in,omitempty"`
	// Sig: stable signature of a failure class (matched against known-findings.json)
	Sig string `json:"sig,omitempty"`
	// Panic: the code under test (or a harness assertion about it) panicked on this case
	Panic string `json:"panic,omitempty"`
	// NonTrivial: by the harness's stated rule (see Rule in the summary)
	NonTrivial bool `json:"nontrivial"`
	Desc       any  `json:"desc,omitempty"` // human-readable form of the case (for samples / replay)
}

type Writer struct {
	f    *os.File
	w    *bufio.Writer
	n    int
	last time.Time // last flush: the caller watches the file grow to tell a slow run from a hang
}

func NewWriter(path string) *Writer {
	f, err := os.Create(path)
	if err != nil {
		fmt.Fprintln(os.Stderr, "cannot create", path, err)
		os.Exit(3)
	}
	return &Writer{f: f, w: bufio.NewWriterSize(f, 1<<20)}
}

func (w *Writer) Put(c Case) {
	b, err := json.Marshal(c)
	if err != nil {
		fmt.Fprintln(os.Stderr, "marshal:", err)
		os.Exit(3)
	}
	w.w.Write(b)
	w.w.WriteByte('\n')
	w.n++
	if time.Since(w.last) > 5*time.Second {
		w.w.Flush()
		w.last = time.Now()
	}
}

func (w *Writer) Close() { w.w.Flush(); w.f.Close() }
func (w *Writer) Count() int { return w.n }

// Args are the flags every harness takes.
type Args struct {
	Seed   uint64
	N      int
	Out    string
	Replay string
}

func ParseArgs() Args {
	var a Args
	flag.Uint64Var(&a.Seed, "seed", 1, "PRNG seed")
	flag.IntVar(&a.N, "n", 100, "number of cases (scale)")
	flag.StringVar(&a.Out, "out", "cases.jsonl", "output file")
	flag.StringVar(&a.Replay, "replay", "", "replay file: re-run only the case(s) in it")
	flag.Parse()
	return a
}

func B(b bool) int64 {
	if b {
		return 1
	}
	return 0
}

// Harness is the common main loop: Gen produces (selector, input tokens), Run
// executes the real code on them, Laws (optional) derives law cases from the
// implementation's results.  -replay re-runs the cases of a replay/corpus file.
type Harness struct {
	Run func(sel int, in []int64) []int64
	// Run2 (alternative to Run) may extend the input with what the execution itself chose
	// (e.g. the oracle choices reconstructed from the observed trace): the returned modelIn
	// replaces the case input, so that the model replays exactly this execution.  On replay
	// only the spec prefix of a stored input is used; the execution decides the rest again.
	Run2 func(sel int, in []int64) (modelIn []int64, got []int64)
	Laws func(sel int, in, got []int64, law func(lsel int, lin []int64, sig string))
	Gen  func(rng *Rng, n int, emit func(id string, sel int, in []int64, kind string, nontrivial bool, desc any))
}

func (h Harness) Main() {
	a := ParseArgs()
	w := NewWriter(a.Out)
	defer w.Close()
	emit := func(id string, sel int, in []int64, kind string, nontrivial bool, desc any) {
		c := Case{ID: id, Sel: sel, In: in, Kind: kind, NonTrivial: nontrivial, Desc: desc}
		func() {
			defer func() {
				if r := recover(); r != nil {
					c.Panic = fmt.Sprint(r)
					c.Got = []int64{}
				}
			}()
			if h.Run2 != nil {
				c.In, c.Got = h.Run2(sel, in)
			} else {
				c.Got = h.Run(sel, in)
			}
		}()
		in = c.In
		w.Put(c)
		if c.Panic != "" || h.Laws == nil {
			return
		}
		func() {
			defer func() {
				if r := recover(); r != nil {
					w.Put(Case{ID: id + "/law", Sel: 0, In: []int64{}, Got: []int64{}, Kind: "law/" + kind, Role: "law",
						SrcSel: sel, SrcIn: in, Panic: fmt.Sprint(r)})
				}
			}()
			k := 0
			h.Laws(sel, in, c.Got, func(lsel int, lin []int64, sig string) {
				k++
				w.Put(Case{ID: fmt.Sprintf("%s/law%d", id, lsel), Sel: lsel, In: lin, Got: []int64{1}, Kind: "law/" + kind,
					Role: "law", NonTrivial: nontrivial, SrcSel: sel, SrcIn: in, Sig: sig, Desc: desc})
			})
		}()
	}
	if a.Replay != "" {
		for _, c := range ReadReplay(a.Replay) {
			sel, in := c.Sel, c.In
			if c.Role == "law" {
				sel, in = c.SrcSel, c.SrcIn
			}
			emit("replay:"+c.ID, sel, in, "replay", true, c.Desc)
		}
		return
	}
	h.Gen(NewRng(a.Seed), a.N, emit)
	fmt.Fprintf(os.Stderr, "%d cases\n", w.Count())
}

// ReadReplay accepts a replay file written by /verif/check ({"case": {...}}) or
// a corpus file with one case per line.
func ReadReplay(path string) []Case {
	b, err := os.ReadFile(path)
	if err != nil {
		fmt.Fprintln(os.Stderr, err)
		os.Exit(3)
	}
	var wrap struct {
		Case           *Case `json:"case"`
		Correspondence *struct {
			C *Case `json:"minimal_disagreeing_case"`
		} `json:"correspondence"`
	}
	if json.Unmarshal(b, &wrap) == nil && (wrap.Case != nil || (wrap.Correspondence != nil && wrap.Correspondence.C != nil)) {
		if wrap.Case != nil {
			return []Case{*wrap.Case}
		}
		return []Case{*wrap.Correspondence.C}
	}
	var out []Case
	sc := bufio.NewScanner(bytes.NewReader(b))
	sc.Buffer(make([]byte, 1<<20), 1<<26)
	for sc.Scan() {
		line := bytes.TrimSpace(sc.Bytes())
		if len(line) == 0 {
			continue
		}
		var c Case
		if err := json.Unmarshal(line, &c); err != nil {
			fmt.Fprintln(os.Stderr, "bad corpus line:", err)
			os.Exit(3)
		}
		out = append(out, c)
	}
	return out
}
