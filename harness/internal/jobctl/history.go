package jobctl

// Histories: the token format shared with the Coq model (C05/Model.v, decoders
// in C05/Entry.v), the interpreter that runs a history on the real controller,
// and the encoding of what is observed after every step.

import (
	"fmt"
	"sort"
	"strconv"
	"strings"
	"time"

	v1 "k8s.io/api/core/v1"
	metav1 "k8s.io/apimachinery/pkg/apis/meta/v1"
	"k8s.io/apimachinery/pkg/types"

	batch "volcano.sh/apis/pkg/apis/batch/v1alpha1"
	scheduling "volcano.sh/apis/pkg/apis/scheduling/v1beta1"
	"volcano.sh/volcano/pkg/controllers/apis"
)

type Policy struct {
	Events  []int64
	Action  int64
	Exit    *int64
	Timeout int64 // 0: none; 1: a Timeout of duration 0 (acts at once); 2: a real Timeout (DelayD): a delayed action
}

type Task struct {
	Name     int64
	Replicas int64
	Min      *int64
	Policies []Policy
	HasDeps  bool
	DepAny   bool
	Deps     []int64
	// C06 only (ignored by the history model): resources and priority
	Cpu, Mem int64
	Prio     int64 // 0: no priority class; k>0: class "pc<k>" with value k*10
}

type Spec struct {
	Tasks    []Task
	Min      int64
	MinSucc  *int64
	MaxRetry int64
	Policies []Policy
}

type Counts [5]int64 // pending running succeeded failed unknown

type TaskCount struct {
	Task int64
	C    Counts
}

type Status struct {
	Phase, Retry, Version, Min int64
	C                          Counts
	Term                       int64
	Tsc                        []TaskCount
	TscNil, RunDur             bool
}

type Pod struct {
	Task, Idx, Phase int64
	Del, Oos         bool
}

type Fault struct{ Kind, A, B int64 } // 1 create(t,i) 2 delete(t,i) 3 patch(t,i) 4 status(n) 5 pg-create(errkind) 6 pg-update(errkind); 11-14 = 1-4 for the give-up execution of handleJobError; 21-25 = delete(t,i) refused with error class Timeout / ServerTimeout / TooManyRequests / Conflict / InternalError

type Req struct {
	Event    int64
	Action   *int64
	Task     *int64
	Pod      *[2]int64
	Exit     int64
	Version  int64
	UidMatch int64 // 0: a different job uid; 1: no uid; 2: the job's uid
	Faults   []Fault
}

type Op struct {
	Code int64 // 1 req 2 podphase 3 poddeleting 4 podgone 5 pgphase 6 syncjob 7 syncpods 8 syncpg 9 setspec 10 restart 11 replacejob 12 jobdeleting 13 stalejob 14 fire (the oldest armed delayed action expires) 15 resync(t,i,race): the resync worker's syncTask for the pod; race (Ph != 0): the pod goes away and its delete event is delivered between the worker's GET and its cache.UpdatePod
	Req  Req
	T, I int64
	Ph   int64
	Spec Spec
}

type History struct {
	Spec    Spec
	Status  Status
	Pods    []Pod
	Pg      *int64 // nil: no PodGroup; 0 "" 1 Pending 2 Inqueue 3 Running 4 Unknown 5 Completed
	NoQueue bool   // the job's queue is missing from the queue lister
	// --max-requeue-num of the controller for this case: -1 (the zero value of MaxRequeueP1) = re-queue
	// for ever, else MaxRequeueP1-1 in 0..3
	MaxRequeueP1 int64
	Ops     []Op
}

var PgPhaseNames = []scheduling.PodGroupPhase{"", scheduling.PodGroupPending, scheduling.PodGroupInqueue, scheduling.PodGroupRunning,
	scheduling.PodGroupUnknown, scheduling.PodGroupCompleted}

// ---------- token reader / writer ----------

type R struct {
	T []int64
	I int
}

func (r *R) Z() int64 {
	if r.I >= len(r.T) {
		panic("token underrun")
	}
	v := r.T[r.I]
	r.I++
	return v
}
func (r *R) B() bool { return r.Z() != 0 }
func (r *R) Opt() *int64 {
	if r.Z() == 0 {
		return nil
	}
	v := r.Z()
	return &v
}

type W struct{ T []int64 }

func (w *W) Z(v ...int64) { w.T = append(w.T, v...) }
func (w *W) B(b bool) {
	if b {
		w.Z(1)
	} else {
		w.Z(0)
	}
}
func (w *W) Opt(p *int64) {
	if p == nil {
		w.Z(0)
	} else {
		w.Z(1, *p)
	}
}

func (w *W) Policy(p Policy) {
	w.Z(int64(len(p.Events)))
	w.Z(p.Events...)
	w.Z(p.Action)
	w.Opt(p.Exit)
	w.Z(p.Timeout)
}
func (r *R) Policy() Policy {
	var p Policy
	n := int(r.Z())
	for i := 0; i < n; i++ {
		p.Events = append(p.Events, r.Z())
	}
	p.Action = r.Z()
	p.Exit = r.Opt()
	p.Timeout = r.Z()
	return p
}
func (w *W) Policies(ps []Policy) {
	w.Z(int64(len(ps)))
	for _, p := range ps {
		w.Policy(p)
	}
}
func (r *R) Policies() []Policy {
	n := int(r.Z())
	var out []Policy
	for i := 0; i < n; i++ {
		out = append(out, r.Policy())
	}
	return out
}

func (w *W) Spec(s Spec) {
	w.Z(int64(len(s.Tasks)))
	for _, t := range s.Tasks {
		w.Z(t.Name, t.Replicas)
		w.Opt(t.Min)
		w.Policies(t.Policies)
		if t.HasDeps {
			w.Z(1)
			w.B(t.DepAny)
			w.Z(int64(len(t.Deps)))
			w.Z(t.Deps...)
		} else {
			w.Z(0)
		}
		w.Z(t.Cpu, t.Mem, t.Prio)
	}
	w.Z(s.Min)
	w.Opt(s.MinSucc)
	w.Z(s.MaxRetry)
	w.Policies(s.Policies)
}
func (r *R) Spec() Spec {
	var s Spec
	n := int(r.Z())
	for i := 0; i < n; i++ {
		var t Task
		t.Name, t.Replicas = r.Z(), r.Z()
		t.Min = r.Opt()
		t.Policies = r.Policies()
		if r.Z() != 0 {
			t.HasDeps = true
			t.DepAny = r.B()
			m := int(r.Z())
			for k := 0; k < m; k++ {
				t.Deps = append(t.Deps, r.Z())
			}
		}
		t.Cpu, t.Mem, t.Prio = r.Z(), r.Z(), r.Z()
		s.Tasks = append(s.Tasks, t)
	}
	s.Min = r.Z()
	s.MinSucc = r.Opt()
	s.MaxRetry = r.Z()
	s.Policies = r.Policies()
	return s
}

func (w *W) Status(s Status) {
	w.Z(s.Phase, s.Retry, s.Version, s.Min)
	w.Z(s.C[:]...)
	w.Z(s.Term)
	w.Z(int64(len(s.Tsc)))
	for _, tc := range s.Tsc {
		w.Z(tc.Task)
		w.Z(tc.C[:]...)
	}
	w.B(s.TscNil)
	w.B(s.RunDur)
}
func (r *R) Status() Status {
	var s Status
	s.Phase, s.Retry, s.Version, s.Min = r.Z(), r.Z(), r.Z(), r.Z()
	for i := range s.C {
		s.C[i] = r.Z()
	}
	s.Term = r.Z()
	n := int(r.Z())
	for i := 0; i < n; i++ {
		var tc TaskCount
		tc.Task = r.Z()
		for k := range tc.C {
			tc.C[k] = r.Z()
		}
		s.Tsc = append(s.Tsc, tc)
	}
	s.TscNil = r.B()
	s.RunDur = r.B()
	return s
}

func (w *W) Pods(ps []Pod) {
	w.Z(int64(len(ps)))
	for _, p := range ps {
		w.Z(p.Task, p.Idx, p.Phase)
		w.B(p.Del)
		w.B(p.Oos)
	}
}
func (r *R) Pods() []Pod {
	n := int(r.Z())
	var out []Pod
	for i := 0; i < n; i++ {
		out = append(out, Pod{Task: r.Z(), Idx: r.Z(), Phase: r.Z(), Del: r.B(), Oos: r.B()})
	}
	return out
}

func (w *W) Op(o Op) {
	w.Z(o.Code)
	switch o.Code {
	case 1:
		w.Req(o.Req)
	case 2, 15:
		w.Z(o.T, o.I, o.Ph)
	case 3, 4:
		w.Z(o.T, o.I)
	case 5:
		w.Z(o.Ph)
	case 9, 11:
		w.Spec(o.Spec)
	}
}
func (w *W) Req(q Req) {
	w.Z(q.Event)
	w.Opt(q.Action)
	w.Opt(q.Task)
	if q.Pod == nil {
		w.Z(0)
	} else {
		w.Z(1, q.Pod[0], q.Pod[1])
	}
	w.Z(q.Exit, q.Version, q.UidMatch)
	w.Z(int64(len(q.Faults)))
	for _, f := range q.Faults {
		w.Z(f.Kind, f.A, f.B)
	}
}

func (r *R) Req() Req {
	var q Req
	q.Event = r.Z()
	q.Action = r.Opt()
	q.Task = r.Opt()
	if r.Z() != 0 {
		q.Pod = &[2]int64{r.Z(), r.Z()}
	}
	q.Exit, q.Version, q.UidMatch = r.Z(), r.Z(), r.Z()
	n := int(r.Z())
	for i := 0; i < n; i++ {
		q.Faults = append(q.Faults, Fault{r.Z(), r.Z(), r.Z()})
	}
	return q
}

func (r *R) Op() Op {
	o := Op{Code: r.Z()}
	switch o.Code {
	case 1:
		o.Req = r.Req()
	case 2, 15:
		o.T, o.I, o.Ph = r.Z(), r.Z(), r.Z()
	case 3, 4:
		o.T, o.I = r.Z(), r.Z()
	case 5:
		o.Ph = r.Z()
	case 6, 7, 8, 10, 12, 13, 14:
	case 9, 11:
		o.Spec = r.Spec()
	default:
		panic(fmt.Sprint("bad op code ", o.Code))
	}
	return o
}

func (w *W) History(h History) {
	w.Spec(h.Spec)
	w.Status(h.Status)
	w.Pods(h.Pods)
	w.Opt(h.Pg)
	q := 2 * h.MaxRequeueP1 // one token: bit 0 = queue present, the rest = maxRequeueNum + 1
	if !h.NoQueue {
		q++
	}
	w.Z(q)
	w.Z(int64(len(h.Ops)))
	for _, o := range h.Ops {
		w.Op(o)
	}
}
func (r *R) History() History {
	var h History
	h.Spec = r.Spec()
	h.Status = r.Status()
	h.Pods = r.Pods()
	h.Pg = r.Opt()
	q := r.Z()
	h.NoQueue, h.MaxRequeueP1 = q%2 == 0, q/2
	n := int(r.Z())
	for i := 0; i < n; i++ {
		h.Ops = append(h.Ops, r.Op())
	}
	if r.I != len(r.T) {
		panic("trailing tokens")
	}
	return h
}

// ---------- model types -> volcano objects ----------

func i32p(p *int64) *int32 {
	if p == nil {
		return nil
	}
	v := int32(*p)
	return &v
}

func goPolicies(ps []Policy) []batch.LifecyclePolicy {
	var out []batch.LifecyclePolicy
	for _, p := range ps {
		lp := batch.LifecyclePolicy{Action: ActionNames[p.Action], ExitCode: i32p(p.Exit)}
		for _, e := range p.Events {
			lp.Events = append(lp.Events, EventNames[e])
		}
		switch p.Timeout {
		case 1:
			lp.Timeout = &metav1.Duration{Duration: 0}
		case 2:
			lp.Timeout = &metav1.Duration{Duration: DelayD}
		}
		out = append(out, lp)
	}
	return out
}

func PCName(k int64) string {
	if k == 0 {
		return ""
	}
	return fmt.Sprintf("pc%d", k)
}

func GoSpec(s Spec) batch.JobSpec {
	js := batch.JobSpec{Queue: QueueName, SchedulerName: "volcano", MinAvailable: int32(s.Min), MinSuccess: i32p(s.MinSucc),
		MaxRetry: int32(s.MaxRetry), Policies: goPolicies(s.Policies)}
	for _, t := range s.Tasks {
		ts := batch.TaskSpec{Name: TaskName(t.Name), Replicas: int32(t.Replicas), MinAvailable: i32p(t.Min),
			Policies: goPolicies(t.Policies), Template: Template(t.Cpu, t.Mem, PCName(t.Prio))}
		if t.HasDeps {
			d := &batch.DependsOn{Iteration: batch.IterationAll}
			if t.DepAny {
				d.Iteration = batch.IterationAny
			}
			for _, n := range t.Deps {
				d.Name = append(d.Name, TaskName(n))
			}
			ts.DependsOn = d
		}
		js.Tasks = append(js.Tasks, ts)
	}
	return js
}

func GoStatus(s Status) batch.JobStatus {
	st := batch.JobStatus{State: batch.JobState{Phase: PhaseNames[s.Phase]}, RetryCount: int32(s.Retry), Version: int32(s.Version),
		MinAvailable: int32(s.Min), Pending: int32(s.C[0]), Running: int32(s.C[1]), Succeeded: int32(s.C[2]), Failed: int32(s.C[3]),
		Unknown: int32(s.C[4]), Terminating: int32(s.Term)}
	if !s.TscNil {
		st.TaskStatusCount = map[string]batch.TaskState{}
		for _, tc := range s.Tsc {
			ph := map[v1.PodPhase]int32{}
			for k, n := range tc.C {
				if n != 0 {
					ph[PodPhaseNames[k]] = int32(n)
				}
			}
			st.TaskStatusCount[TaskName(tc.Task)] = batch.TaskState{Phase: ph}
		}
	}
	if s.RunDur {
		st.RunningDuration = &metav1.Duration{Duration: 0}
	}
	return st
}

// ModelStatus reads a job status back into the model's form (canonical).
func ModelStatus(st batch.JobStatus) Status {
	s := Status{Phase: PhaseCode(st.State.Phase), Retry: int64(st.RetryCount), Version: int64(st.Version), Min: int64(st.MinAvailable),
		C: Counts{int64(st.Pending), int64(st.Running), int64(st.Succeeded), int64(st.Failed), int64(st.Unknown)}, Term: int64(st.Terminating),
		TscNil: st.TaskStatusCount == nil, RunDur: st.RunningDuration != nil}
	for name, ts := range st.TaskStatusCount {
		tc := TaskCount{Task: TaskID(name)}
		for ph, n := range ts.Phase {
			k := PodPhaseCode(ph)
			if PodPhaseNames[k] != ph {
				panic("unexpected phase key in TaskStatusCount: " + string(ph))
			}
			tc.C[k] += int64(n)
		}
		s.Tsc = append(s.Tsc, tc)
	}
	sort.Slice(s.Tsc, func(i, k int) bool { return s.Tsc[i].Task < s.Tsc[k].Task })
	return s
}

func ModelPods(ps []*v1.Pod) []Pod {
	var out []Pod
	for _, p := range ps {
		t, i := PodID(p.Name)
		_, oos := p.Annotations["volcano.sh/controller-out-of-sync"]
		out = append(out, Pod{Task: t, Idx: i, Phase: PodPhaseCode(p.Status.Phase), Del: p.DeletionTimestamp != nil, Oos: oos})
	}
	return out
}

func pgCode(pg *scheduling.PodGroup) *int64 {
	if pg == nil {
		return nil
	}
	for i, n := range PgPhaseNames {
		if n == pg.Status.Phase {
			v := int64(i)
			return &v
		}
	}
	panic("unknown PodGroup phase " + string(pg.Status.Phase))
}

// ---------- running a history ----------

// Obs is what is observed after one step.
type Obs struct {
	Err    bool
	GaveUp bool // the request's requeue budget was used up: handleJobError sent TerminateJob and dropped it
	Wrote  bool // a job UpdateStatus call succeeded in this step
	Status Status
	Cache  Status // the job status in the controller's cache
	Pods   []Pod
	Pg     *int64
	// not part of the model encoding; for the Go-side laws
	Created []*v1.Pod
	Calls   []Call
	// before the step (harness side, independent of what the cache made of the deliveries):
	// every current API pod has been delivered, the job is known to the controller and not
	// shown as terminating / the PodGroup lister shows a PodGroup past Pending / the delivered
	// job and PodGroup are the API server's current ones
	FreshBefore, PgViewBefore, JobFreshBefore, PgFreshBefore bool
	// the PodGroup on the API server after the step (EncPG encoding; nil: none), whether its
	// queue / owner reference / sub-group policy are as expected, and whether a PodGroup
	// write was refused in this step
	PgFields      []int64
	JobUID        string // uid of the job incarnation at this step
	Fired         *Req   // for a fire step: the expired delayed action as an explicit-action request (nil: none was pending)
	PgMetaOK      bool
	PgWriteFailed bool
}

func pcCode(name string) int64 {
	if name == "" {
		return 0
	}
	k, err := strconv.ParseInt(strings.TrimPrefix(name, "pc"), 10, 64)
	if err != nil {
		panic("unexpected priority class " + name)
	}
	return k
}

// ResOf reads (pods, milli-cpu, Mi) of a resource list.
func ResOf(rl *v1.ResourceList) []int64 {
	if rl == nil {
		return []int64{0, 0, 0}
	}
	get := func(n v1.ResourceName) int64 {
		q, ok := (*rl)[n]
		if !ok {
			return 0
		}
		if n == v1.ResourceCPU {
			return q.MilliValue()
		}
		return q.Value()
	}
	mem := get(v1.ResourceMemory)
	if mem%(1<<20) != 0 {
		panic("memory left the Mi grid")
	}
	return []int64{get(v1.ResourcePods), get(v1.ResourceCPU), mem >> 20}
}

// EncPG: minMember, MinTaskMember sorted by task, priority class code, minResources.
func EncPG(pg *scheduling.PodGroup) []int64 {
	out := []int64{int64(pg.Spec.MinMember)}
	type kv struct{ k, v int64 }
	var kvs []kv
	for n, v := range pg.Spec.MinTaskMember {
		kvs = append(kvs, kv{TaskID(n), int64(v)})
	}
	sort.Slice(kvs, func(i, j int) bool { return kvs[i].k < kvs[j].k })
	out = append(out, int64(len(kvs)))
	for _, e := range kvs {
		out = append(out, e.k, e.v)
	}
	out = append(out, pcCode(pg.Spec.PriorityClassName))
	return append(out, ResOf(pg.Spec.MinResources)...)
}

// PGMetaOK: queue, controller owner reference and (no partition policies) empty SubGroupPolicy.
func PGMetaOK(pg *scheduling.PodGroup) bool {
	return pg.Spec.Queue == QueueName && len(pg.OwnerReferences) == 1 && string(pg.OwnerReferences[0].UID) == JobUID &&
		len(pg.Spec.SubGroupPolicy) == 0
}

var caseSeq int

// Setup creates the case's namespace content: job (spec+status), pods,
// PodGroup; every controller view starts in sync with the API server.
func (e *Env) Setup(h History) (ns string) {
	caseSeq++
	ns = fmt.Sprintf("n%d", caseSeq)
	e.BeginStep()
	resetJobUID()
	e.Ctl.VerifSetMaxRequeueNum(int(h.MaxRequeueP1) - 1)
	e.Ctl.VerifResetRequeues()
	e.dJob, e.dPG, e.jobDelivered, e.prevJob = nil, nil, false, nil
	e.dPods = map[string]*v1.Pod{}
	qix := e.Ctl.VerifQueueIndexer()
	if obj, ok, _ := qix.GetByKey(QueueName); ok {
		must(qix.Delete(obj))
	}
	if !h.NoQueue {
		must(qix.Add(&scheduling.Queue{ObjectMeta: metav1.ObjectMeta{Name: QueueName}}))
	}
	j := NewJob(ns)
	// the starting resourceVersion is a function of the case's tokens (replay rebuilds it)
	k := h.Spec.Min + int64(len(h.Ops)) + int64(len(h.Pods))
	for _, t := range h.Spec.Tasks {
		k += t.Replicas
	}
	j.ResourceVersion = e.StartRV(k)
	j.Spec = GoSpec(h.Spec)
	j.Status = GoStatus(h.Status)
	e.APIAddJob(j)
	for _, p := range h.Pods {
		e.APIAddPod(NewPod(ns, p.Task, p.Idx, PodPhaseNames[p.Phase], p.Del, p.Oos, h.Status.Version))
	}
	e.SyncJob(ns)
	e.SyncPods(ns)
	if h.Pg != nil {
		// the PodGroup as the controller itself creates it for this spec
		must(e.Ctl.VerifCreateOrUpdatePodGroup(e.APIJob(ns).DeepCopy()))
		pg := e.APIPodGroup(ns).DeepCopy()
		pg.Status.Phase = PgPhaseNames[*h.Pg]
		e.APIUpdatePodGroup(pg)
	}
	e.SyncPodGroup(ns)
	e.BeginStep()
	return ns
}

func (e *Env) observe(ns string, err bool) Obs {
	o := Obs{Err: err, Wrote: e.CountCalls("update", "jobs", "status", true) > 0,
		Status: ModelStatus(e.APIJob(ns).Status), Cache: e.cacheStatus(ns),
		Pods: ModelPods(e.APIPods(ns)), Pg: pgCode(e.APIPodGroup(ns)), Created: e.Created, Calls: e.Calls,
		PgWriteFailed: e.FailedCalls("podgroups") > 0, PgMetaOK: true, JobUID: JobUID}
	if pg := e.APIPodGroup(ns); pg != nil {
		o.PgFields = EncPG(pg)
		o.PgMetaOK = PGMetaOK(pg)
	}
	return o
}

// the job status the controller holds; when its cache has no Job (restart, re-creation)
// the last one it held is reported (the model keeps it as well, unused)
func (e *Env) cacheStatus(ns string) Status {
	if j := e.CacheJob(ns); j != nil {
		e.lastCache = ModelStatus(j.Status)
	}
	return e.lastCache
}

func GoReq(ns string, q Req) apis.Request {
	r := apis.Request{Namespace: ns, JobName: JobName, Event: EventNames[q.Event], ExitCode: int32(q.Exit), JobVersion: int32(q.Version)}
	if q.Action != nil {
		r.Action = ActionNames[*q.Action]
	}
	if q.Task != nil {
		r.TaskName = TaskName(*q.Task)
	}
	if q.Pod != nil {
		r.PodName = PodName(q.Pod[0], q.Pod[1])
		r.PodUID = types.UID("p-" + r.PodName)
	}
	switch q.UidMatch {
	case 0:
		r.JobUid = "some-other-uid"
	case 2:
		r.JobUid = types.UID(JobUID)
	}
	return r
}

// Step runs one op on the real controller / fake API server.
func (e *Env) Step(ns string, o Op) Obs {
	e.BeginStep()
	failed := false
	var fired *Req
	fresh := e.PodsDelivered(ns) && e.JobKnown() && !e.JobViewDeleting()
	jobFresh, pgFresh := e.JobViewFresh(ns), e.PgViewFresh(ns)
	pgv := false
	if pg := e.ViewPodGroup(ns); pg != nil && pg.Status.Phase != "" && pg.Status.Phase != scheduling.PodGroupPending {
		pgv = true
	}
	switch o.Code {
	case 1:
		for _, f := range o.Req.Faults {
			switch f.Kind {
			case 1:
				e.FailCreate[PodName(f.A, f.B)] = true
			case 2:
				e.FailDelete[PodName(f.A, f.B)] = true
			case 3:
				e.FailPatch[PodName(f.A, f.B)] = true
			case 4:
				e.FailStatus[int(f.A)] = true
			case 5:
				e.FailPgCreate = int(f.A)
			case 6:
				e.FailPgUpdate = int(f.A)
			case 21, 22, 23, 24, 25:
				e.FailDelete[PodName(f.A, f.B)] = true
				e.DeleteClass[PodName(f.A, f.B)] = int(f.Kind - 20)
			case 11:
				e.GiveCreate[PodName(f.A, f.B)] = true
			case 12:
				e.GiveDelete[PodName(f.A, f.B)] = true
			case 13:
				e.GivePatch[PodName(f.A, f.B)] = true
			case 14:
				e.GiveStatus[int(f.A)] = true
			}
		}
		before := e.delaySnapshot(ns)
		failed = e.ProcessReq(GoReq(ns, o.Req))
		e.noteArming(ns, before)
	case 2:
		if p := e.APIPod(ns, PodName(o.T, o.I)); p != nil {
			p = p.DeepCopy()
			p.Status.Phase = PodPhaseNames[o.Ph]
			e.APIUpdatePod(p)
		}
	case 3:
		if p := e.APIPod(ns, PodName(o.T, o.I)); p != nil && p.DeletionTimestamp == nil {
			p = p.DeepCopy()
			now := metav1.Now()
			p.DeletionTimestamp = &now
			e.APIUpdatePod(p)
		}
	case 4:
		e.APIRemovePod(ns, PodName(o.T, o.I))
	case 5:
		if pg := e.APIPodGroup(ns); pg != nil {
			pg = pg.DeepCopy()
			pg.Status.Phase = PgPhaseNames[o.Ph]
			e.APIUpdatePodGroup(pg)
		}
	case 6:
		e.SyncJob(ns)
	case 7:
		e.SyncPods(ns)
	case 8:
		e.SyncPodGroup(ns)
	case 9:
		e.APISetJobSpec(ns, GoSpec(o.Spec))
	case 10:
		e.Restart(ns)
	case 11:
		e.ReplaceJob(ns, GoSpec(o.Spec))
	case 12:
		e.JobDeleting(ns)
	case 13:
		e.StaleJob(ns)
	case 14:
		fired = e.FireNext()
	case 15:
		e.ResyncPod(ns, PodName(o.T, o.I), o.Ph != 0)
	}
	if FakeClock {
		time.Sleep(time.Millisecond) // one tick per step: no two timers share a deadline
	}
	ob := e.observe(ns, failed)
	ob.GaveUp = e.GaveUp
	ob.Fired = fired
	ob.FreshBefore, ob.PgViewBefore, ob.JobFreshBefore, ob.PgFreshBefore = fresh, pgv, jobFresh, pgFresh
	return ob
}

func SamePods(a, b []Pod) bool {
	if len(a) != len(b) {
		return false
	}
	am := map[[2]int64]Pod{}
	for _, p := range a {
		am[[2]int64{p.Task, p.Idx}] = p
	}
	for _, p := range b {
		if q, ok := am[[2]int64{p.Task, p.Idx}]; !ok || q != p {
			return false
		}
	}
	return true
}

// EncodeObs is the per-step encoding the model's entry produces.
func (w *W) Obs(k int, o Obs) {
	w.Z(int64(-100 - (k + 1)))
	switch { // 1 = re-queued, 2 = the controller gave up on the request
	case o.GaveUp:
		w.Z(2)
	case o.Err:
		w.Z(1)
	default:
		w.Z(0)
	}
	w.B(o.Wrote)
	w.Status(o.Status)
	w.Status(o.Cache)
	w.Pods(o.Pods)
	w.Opt(o.Pg)
}

// Run executes the whole history; obs[0] is the initial state.
func (e *Env) Run(h History) (ns string, obs []Obs) {
	ns = e.Setup(h)
	obs = append(obs, e.observe(ns, false))
	for _, o := range h.Ops {
		obs = append(obs, e.Step(ns, o))
	}
	return ns, obs
}

// ---------- delayed actions (policies with a real timeout) ----------

// DelayD is the timeout of every delayed policy.  Under the fake clock nothing else lets that
// much time pass, so a timer expires exactly when a fire step advances the clock to its deadline.
const DelayD = time.Hour

type armed struct {
	at  time.Time
	req Req // the delayed action as a request with an explicit action (for the laws)
}

func (e *Env) delaySnapshot(ns string) map[string]uintptr {
	m := map[string]uintptr{}
	for _, d := range e.Ctl.VerifDelayedActions(jobKey(ns)) {
		m[d.PodName] = d.ID
	}
	return m
}

func actionCode(a string) int64 {
	for i, n := range ActionNames {
		if string(n) == a {
			return int64(i)
		}
	}
	return 9
}

// noteArming: AddDelayActionForJob stored a new entry (and started a timer) in this step
func (e *Env) noteArming(ns string, before map[string]uintptr) {
	for _, d := range e.Ctl.VerifDelayedActions(jobKey(ns)) {
		if id, ok := before[d.PodName]; ok && id == d.ID {
			continue
		}
		q := Req{UidMatch: 1}
		a := actionCode(d.Action)
		q.Action = &a
		if d.TaskName != "" {
			t := TaskID(d.TaskName)
			q.Task = &t
		}
		if d.PodName != "" {
			t, i := PodID(d.PodName)
			q.Pod = &[2]int64{t, i}
		}
		if d.DelayNs != int64(DelayD) {
			panic("a delayed action with an unexpected delay")
		}
		e.armedQ = append(e.armedQ, armed{at: time.Now(), req: q})
	}
}

// FireNext lets the oldest armed timer expire: the fake clock jumps to its deadline and the
// harness waits until the timer's goroutine (the controller's own) has finished.
func (e *Env) FireNext() *Req {
	if len(e.armedQ) == 0 {
		return nil
	}
	a := e.armedQ[0]
	e.armedQ = e.armedQ[1:]
	if !FakeClock {
		panic("delayed actions need the fake clock")
	}
	if d := time.Until(a.at.Add(DelayD)); d > 0 {
		time.Sleep(d)
	}
	WaitIdle()
	e.Ctl.VerifDrainRequests()
	q := a.req
	return &q
}
