// Package jobctl wires the REAL volcano job controller (through the `verif`
// export hook pkg/controllers/job/export_verif.go) to fake kube / volcano
// clientsets whose behaviour the harness controls:
//
//   - the controller WRITES through the fake clients (object trackers play the
//     API server; a pod delete is graceful: it sets a deletion timestamp, the
//     harness removes the pod later; a status update touches only .status);
//   - the controller READS through listers / its job cache, which the harness
//     fills from the trackers at explicit sync points (informer lag);
//   - faults: chosen pod create / delete / patch calls and the n-th job
//     UpdateStatus call of a step answer 500.
//
// One controller lives for the whole process; every case uses its own
// namespace.
package jobctl

import (
	"fmt"
	"sort"
	"strconv"
	"strings"

	v1 "k8s.io/api/core/v1"
	schedv1 "k8s.io/api/scheduling/v1"
	apierrors "k8s.io/apimachinery/pkg/api/errors"
	"k8s.io/apimachinery/pkg/api/resource"
	metav1 "k8s.io/apimachinery/pkg/apis/meta/v1"
	"k8s.io/apimachinery/pkg/runtime"
	"k8s.io/apimachinery/pkg/runtime/schema"
	"k8s.io/apimachinery/pkg/types"
	kubefake "k8s.io/client-go/kubernetes/fake"
	k8stesting "k8s.io/client-go/testing"

	batch "volcano.sh/apis/pkg/apis/batch/v1alpha1"
	bus "volcano.sh/apis/pkg/apis/bus/v1alpha1"
	scheduling "volcano.sh/apis/pkg/apis/scheduling/v1beta1"
	vcfake "volcano.sh/apis/pkg/client/clientset/versioned/fake"
	"volcano.sh/volcano/pkg/controllers/apis"
	"volcano.sh/volcano/pkg/controllers/job"
)

var (
	PodGVR   = schema.GroupVersionResource{Version: "v1", Resource: "pods"}
	JobGVR   = schema.GroupVersionResource{Group: "batch.volcano.sh", Version: "v1alpha1", Resource: "jobs"}
	PGGVR    = schema.GroupVersionResource{Group: "scheduling.volcano.sh", Version: "v1beta1", Resource: "podgroups"}
	QueueGVR = schema.GroupVersionResource{Group: "scheduling.volcano.sh", Version: "v1beta1", Resource: "queues"}
)

const (
	JobName   = "j"
	JobUID    = "u1"
	QueueName = "q1"
)

// Call is one write the controller issued in the current step.
type Call struct {
	Verb, Resource, Sub, Name string
	Failed                    bool
}

// Env is the controller plus its world.
type Env struct {
	Kube *kubefake.Clientset
	VC   *vcfake.Clientset
	Ctl  *job.VerifJobController

	// fault plan of the current step
	FailCreate, FailDelete, FailPatch map[string]bool
	FailStatus                        map[int]bool // indices of the UpdateStatus calls of this step that fail
	statusCalls                       int
	Calls                             []Call
	// objects the controller handed to Create (pods), for marker checks
	Created []*v1.Pod
}

var theEnv *Env

// Get returns the process-wide environment.
func Get() *Env {
	if theEnv != nil {
		return theEnv
	}
	e := &Env{Kube: kubefake.NewSimpleClientset(), VC: vcfake.NewSimpleClientset()}
	e.installReactors()
	ctl, err := job.VerifNewJobController(e.Kube, e.VC, -1)
	if err != nil {
		panic(err)
	}
	e.Ctl = ctl
	// the queue every job uses
	q := &scheduling.Queue{ObjectMeta: metav1.ObjectMeta{Name: QueueName}}
	if err := ctl.VerifQueueIndexer().Add(q); err != nil {
		panic(err)
	}
	for k := int64(1); k <= 4; k++ {
		if err := ctl.VerifPriorityClassIndexer().Add(NewPriorityClass(fmt.Sprintf("pc%d", k), int32(k*10))); err != nil {
			panic(err)
		}
	}
	theEnv = e
	return e
}

func injected(what string) error {
	return apierrors.NewInternalError(fmt.Errorf("injected fault: %s", what))
}

func (e *Env) installReactors() {
	e.Kube.PrependReactor("create", "pods", func(a k8stesting.Action) (bool, runtime.Object, error) {
		pod := a.(k8stesting.CreateAction).GetObject().(*v1.Pod)
		if e.FailCreate[pod.Name] {
			e.Calls = append(e.Calls, Call{"create", "pods", "", pod.Name, true})
			return true, nil, injected("create pod " + pod.Name)
		}
		e.Calls = append(e.Calls, Call{"create", "pods", "", pod.Name, false})
		e.Created = append(e.Created, pod.DeepCopy())
		// the API server defaults a new pod's phase to Pending
		if pod.Status.Phase == "" {
			pod.Status.Phase = v1.PodPending
		}
		return false, nil, nil
	})
	e.Kube.PrependReactor("delete", "pods", func(a k8stesting.Action) (bool, runtime.Object, error) {
		da := a.(k8stesting.DeleteAction)
		name, ns := da.GetName(), da.GetNamespace()
		if e.FailDelete[name] {
			e.Calls = append(e.Calls, Call{"delete", "pods", "", name, true})
			return true, nil, injected("delete pod " + name)
		}
		e.Calls = append(e.Calls, Call{"delete", "pods", "", name, false})
		obj, err := e.Kube.Tracker().Get(PodGVR, ns, name)
		if err != nil {
			return true, nil, err // NotFound
		}
		pod := obj.(*v1.Pod).DeepCopy()
		if pod.DeletionTimestamp == nil {
			now := metav1.Now()
			pod.DeletionTimestamp = &now
			if err := e.Kube.Tracker().Update(PodGVR, pod, ns); err != nil {
				panic(err)
			}
		}
		return true, nil, nil
	})
	e.Kube.PrependReactor("patch", "pods", func(a k8stesting.Action) (bool, runtime.Object, error) {
		pa := a.(k8stesting.PatchAction)
		if e.FailPatch[pa.GetName()] {
			e.Calls = append(e.Calls, Call{"patch", "pods", "", pa.GetName(), true})
			return true, nil, injected("patch pod " + pa.GetName())
		}
		e.Calls = append(e.Calls, Call{"patch", "pods", "", pa.GetName(), false})
		return false, nil, nil
	})
	e.VC.PrependReactor("update", "jobs", func(a k8stesting.Action) (bool, runtime.Object, error) {
		ua := a.(k8stesting.UpdateAction)
		j := ua.GetObject().(*batch.Job)
		if a.GetSubresource() != "status" {
			e.Calls = append(e.Calls, Call{"update", "jobs", "", j.Name, false})
			return false, nil, nil
		}
		ix := e.statusCalls
		e.statusCalls++
		if e.FailStatus[ix] {
			e.Calls = append(e.Calls, Call{"update", "jobs", "status", j.Name, true})
			return true, nil, injected("update job status")
		}
		e.Calls = append(e.Calls, Call{"update", "jobs", "status", j.Name, false})
		// a status update changes .status only
		obj, err := e.VC.Tracker().Get(JobGVR, j.Namespace, j.Name)
		if err != nil {
			return true, nil, err
		}
		stored := obj.(*batch.Job).DeepCopy()
		stored.Status = *j.Status.DeepCopy()
		if err := e.VC.Tracker().Update(JobGVR, stored, j.Namespace); err != nil {
			panic(err)
		}
		return true, stored.DeepCopy(), nil
	})
	for _, verb := range []string{"create", "update", "delete"} {
		verb := verb
		e.VC.PrependReactor(verb, "podgroups", func(a k8stesting.Action) (bool, runtime.Object, error) {
			name := ""
			switch x := a.(type) {
			case k8stesting.DeleteAction:
				name = x.GetName()
			case k8stesting.CreateAction: // also UpdateAction
				name = x.GetObject().(*scheduling.PodGroup).Name
			}
			e.Calls = append(e.Calls, Call{verb, "podgroups", "", name, false})
			return false, nil, nil
		})
	}
}

// BeginStep resets the fault plan and the call log.
func (e *Env) BeginStep() {
	e.FailCreate, e.FailDelete, e.FailPatch = map[string]bool{}, map[string]bool{}, map[string]bool{}
	e.FailStatus = map[int]bool{}
	e.statusCalls = 0
	e.Calls = nil
	e.Created = nil
	e.Kube.ClearActions()
	e.VC.ClearActions()
}

func (e *Env) CountCalls(verb, res, sub string, okOnly bool) int {
	n := 0
	for _, c := range e.Calls {
		if c.Verb == verb && c.Resource == res && c.Sub == sub && !(okOnly && c.Failed) {
			n++
		}
	}
	return n
}

// ---------- building objects ----------

func TaskName(id int64) string { return "t" + strconv.FormatInt(id, 10) }

func TaskID(name string) int64 {
	if !strings.HasPrefix(name, "t") {
		panic("not a harness task name: " + name)
	}
	v, err := strconv.ParseInt(name[1:], 10, 64)
	if err != nil {
		panic(err)
	}
	return v
}

func PodName(task int64, idx int64) string {
	return fmt.Sprintf("%s-%s-%d", JobName, TaskName(task), idx)
}

// PodID parses "j-t<task>-<idx>".
func PodID(name string) (task, idx int64) {
	parts := strings.Split(name, "-")
	if len(parts) < 3 || parts[0] != JobName {
		panic("not a harness pod name: " + name)
	}
	// idx may be negative: "j-t1--1"
	rest := strings.TrimPrefix(name, JobName+"-")
	k := strings.Index(rest, "-")
	task = TaskID(rest[:k])
	v, err := strconv.ParseInt(rest[k+1:], 10, 64)
	if err != nil {
		panic(err)
	}
	return task, v
}

func PGName() string { return JobName + "-" + JobUID }

// NewJob builds the job object of a case (spec filled by the caller).
func NewJob(ns string) *batch.Job {
	return &batch.Job{
		TypeMeta:   metav1.TypeMeta{APIVersion: "batch.volcano.sh/v1alpha1", Kind: "Job"},
		ObjectMeta: metav1.ObjectMeta{Name: JobName, Namespace: ns, UID: types.UID(JobUID), ResourceVersion: "1"},
		Spec:       batch.JobSpec{Queue: QueueName, SchedulerName: "volcano"},
	}
}

// Template is a one-container pod template with the given cpu request (milli).
func Template(cpuMilli int64, memMi int64, pc string) v1.PodTemplateSpec {
	req := v1.ResourceList{}
	if cpuMilli > 0 {
		req[v1.ResourceCPU] = *resource.NewMilliQuantity(cpuMilli, resource.DecimalSI)
	}
	if memMi > 0 {
		req[v1.ResourceMemory] = *resource.NewQuantity(memMi<<20, resource.BinarySI)
	}
	return v1.PodTemplateSpec{
		Spec: v1.PodSpec{
			PriorityClassName: pc,
			Containers:        []v1.Container{{Name: "c", Image: "busybox", Resources: v1.ResourceRequirements{Requests: req}}},
		},
	}
}

// NewPod builds a pre-existing pod of the job as the controller would have
// created it (same markers), with the given state.
func NewPod(ns string, task, idx int64, phase v1.PodPhase, deleting, outOfSync bool, version int64) *v1.Pod {
	t := true
	p := &v1.Pod{
		ObjectMeta: metav1.ObjectMeta{
			Name: PodName(task, idx), Namespace: ns, UID: types.UID("p-" + PodName(task, idx)),
			OwnerReferences: []metav1.OwnerReference{{APIVersion: "batch.volcano.sh/v1alpha1", Kind: "Job", Name: JobName,
				UID: types.UID(JobUID), Controller: &t, BlockOwnerDeletion: &t}},
			Annotations: map[string]string{
				batch.TaskSpecKey: TaskName(task), batch.JobNameKey: JobName, batch.JobVersion: strconv.FormatInt(version, 10),
				batch.TaskIndex: strconv.FormatInt(idx, 10), scheduling.KubeGroupNameAnnotationKey: PGName(),
				batch.QueueNameKey: QueueName,
			},
			Labels: map[string]string{batch.JobNameKey: JobName, batch.TaskSpecKey: TaskName(task)},
		},
		Spec:   v1.PodSpec{Containers: []v1.Container{{Name: "c", Image: "busybox"}}},
		Status: v1.PodStatus{Phase: phase},
	}
	if deleting {
		now := metav1.Now()
		p.DeletionTimestamp = &now
	}
	if outOfSync {
		p.Annotations["volcano.sh/controller-out-of-sync"] = "true"
	}
	return p
}

func NewPriorityClass(name string, value int32) *schedv1.PriorityClass {
	return &schedv1.PriorityClass{ObjectMeta: metav1.ObjectMeta{Name: name}, Value: value}
}

// ---------- API server side (trackers) ----------

func must(err error) {
	if err != nil {
		panic(err)
	}
}

func (e *Env) APIAddJob(j *batch.Job) { must(e.VC.Tracker().Add(j.DeepCopy())) }

func (e *Env) APIJob(ns string) *batch.Job {
	obj, err := e.VC.Tracker().Get(JobGVR, ns, JobName)
	must(err)
	return obj.(*batch.Job)
}

func (e *Env) APISetJobSpec(ns string, spec batch.JobSpec) {
	j := e.APIJob(ns).DeepCopy()
	j.Spec = spec
	must(e.VC.Tracker().Update(JobGVR, j, ns))
}

func (e *Env) APIAddPod(p *v1.Pod) { must(e.Kube.Tracker().Add(p.DeepCopy())) }

func (e *Env) APIPods(ns string) []*v1.Pod {
	obj, err := e.Kube.Tracker().List(PodGVR, schema.GroupVersionKind{Version: "v1", Kind: "Pod"}, ns)
	must(err)
	l := obj.(*v1.PodList)
	out := make([]*v1.Pod, 0, len(l.Items))
	for i := range l.Items {
		out = append(out, &l.Items[i])
	}
	sort.Slice(out, func(i, k int) bool {
		ti, ii := PodID(out[i].Name)
		tk, ik := PodID(out[k].Name)
		if ti != tk {
			return ti < tk
		}
		return ii < ik
	})
	return out
}

func (e *Env) APIPod(ns, name string) *v1.Pod {
	obj, err := e.Kube.Tracker().Get(PodGVR, ns, name)
	if err != nil {
		return nil
	}
	return obj.(*v1.Pod)
}

func (e *Env) APIUpdatePod(p *v1.Pod) { must(e.Kube.Tracker().Update(PodGVR, p, p.Namespace)) }

func (e *Env) APIRemovePod(ns, name string) {
	if e.APIPod(ns, name) != nil {
		must(e.Kube.Tracker().Delete(PodGVR, ns, name))
	}
}

func (e *Env) APIPodGroup(ns string) *scheduling.PodGroup {
	obj, err := e.VC.Tracker().Get(PGGVR, ns, PGName())
	if err != nil {
		return nil
	}
	return obj.(*scheduling.PodGroup)
}

func (e *Env) APIAddPodGroup(pg *scheduling.PodGroup) { must(e.VC.Tracker().Add(pg.DeepCopy())) }

func (e *Env) APIUpdatePodGroup(pg *scheduling.PodGroup) {
	must(e.VC.Tracker().Update(PGGVR, pg, pg.Namespace))
}

// ---------- controller side (listers, job cache): explicit informer syncs ----------

func jobKey(ns string) string { return ns + "/" + JobName }

// SyncJob copies the API server's job into the job lister and the job cache.
func (e *Env) SyncJob(ns string) {
	j := e.APIJob(ns).DeepCopy()
	ix := e.Ctl.VerifJobIndexer()
	if _, ok, _ := ix.GetByKey(ns + "/" + JobName); ok {
		must(ix.Update(j))
		must(e.Ctl.VerifCache().Update(j))
	} else {
		must(ix.Add(j))
		must(e.Ctl.VerifCache().Add(j))
	}
}

// SyncPods makes the pod lister and the cache's pods equal to the API server's.
func (e *Env) SyncPods(ns string) {
	api := map[string]*v1.Pod{}
	for _, p := range e.APIPods(ns) {
		api[p.Name] = p.DeepCopy()
	}
	c := e.Ctl.VerifCache()
	if ji, err := c.Get(jobKey(ns)); err == nil {
		for _, pods := range ji.Pods {
			for name, p := range pods {
				if _, ok := api[name]; !ok {
					must(c.DeletePod(p))
				}
			}
		}
	}
	ix := e.Ctl.VerifPodIndexer()
	for _, key := range ix.ListKeys() {
		if strings.HasPrefix(key, ns+"/") {
			if _, ok := api[strings.TrimPrefix(key, ns+"/")]; !ok {
				obj, _, _ := ix.GetByKey(key)
				must(ix.Delete(obj))
			}
		}
	}
	for _, p := range api {
		if c.HasPod(p) {
			must(c.UpdatePod(p))
		} else {
			must(c.AddPod(p))
		}
		if _, ok, _ := ix.GetByKey(ns + "/" + p.Name); ok {
			must(ix.Update(p))
		} else {
			must(ix.Add(p))
		}
	}
}

// SyncPodGroup makes the PodGroup lister equal to the API server's.
func (e *Env) SyncPodGroup(ns string) {
	ix := e.Ctl.VerifPodGroupIndexer()
	key := ns + "/" + PGName()
	pg := e.APIPodGroup(ns)
	old, ok, _ := ix.GetByKey(key)
	switch {
	case pg == nil && ok:
		must(ix.Delete(old))
	case pg != nil && ok:
		must(ix.Update(pg.DeepCopy()))
	case pg != nil:
		must(ix.Add(pg.DeepCopy()))
	}
}

// ViewPods is the controller's view of the job's pods (job cache), sorted.
func (e *Env) ViewPods(ns string) []*v1.Pod {
	ji, err := e.Ctl.VerifCache().Get(jobKey(ns))
	must(err)
	var out []*v1.Pod
	for _, pods := range ji.Pods {
		for _, p := range pods {
			out = append(out, p)
		}
	}
	sort.Slice(out, func(i, k int) bool { return out[i].Name < out[k].Name })
	return out
}

// CacheJob is the job object in the controller's cache (shared pointer!).
func (e *Env) CacheJob(ns string) *batch.Job {
	ji, err := e.Ctl.VerifCache().Get(jobKey(ns))
	must(err)
	return ji.Job
}

func (e *Env) ViewPodGroup(ns string) *scheduling.PodGroup {
	obj, ok, _ := e.Ctl.VerifPodGroupIndexer().GetByKey(ns + "/" + PGName())
	if !ok {
		return nil
	}
	return obj.(*scheduling.PodGroup)
}

// Cleanup drops the case's objects so that a long run does not grow.
func (e *Env) Cleanup(ns string) {
	for _, p := range e.APIPods(ns) {
		must(e.Kube.Tracker().Delete(PodGVR, ns, p.Name))
	}
	if e.APIPodGroup(ns) != nil {
		must(e.VC.Tracker().Delete(PGGVR, ns, PGName()))
	}
	_ = e.VC.Tracker().Delete(JobGVR, ns, JobName)
	for _, ix := range []interface {
		ListKeys() []string
		GetByKey(string) (interface{}, bool, error)
		Delete(interface{}) error
	}{e.Ctl.VerifPodIndexer(), e.Ctl.VerifPodGroupIndexer(), e.Ctl.VerifJobIndexer()} {
		for _, key := range ix.ListKeys() {
			if strings.HasPrefix(key, ns+"/") {
				obj, _, _ := ix.GetByKey(key)
				_ = ix.Delete(obj)
			}
		}
	}
	// the job cache keeps a tombstone per case (no cleanup worker runs); drop pods
	c := e.Ctl.VerifCache()
	if ji, err := c.Get(jobKey(ns)); err == nil {
		for _, pods := range ji.Pods {
			for _, p := range pods {
				_ = c.DeletePod(p)
			}
		}
		_ = c.Delete(ji.Job)
	}
}

// ProcessReq delivers a request through processNextReq; true = the action failed (re-queued).
func (e *Env) ProcessReq(req apis.Request) bool { return e.Ctl.VerifProcessReq(req) }

var EventNames = []bus.Event{"", bus.AnyEvent, bus.PodFailedEvent, bus.PodEvictedEvent, bus.PodPendingEvent, bus.PodRunningEvent,
	bus.JobUnknownEvent, bus.TaskCompletedEvent, bus.OutOfSyncEvent, bus.CommandIssuedEvent, bus.JobUpdatedEvent, bus.TaskFailedEvent}

var ActionNames = []bus.Action{bus.SyncJobAction, bus.AbortJobAction, bus.RestartJobAction, bus.RestartTaskAction, bus.RestartPodAction,
	bus.RestartPartitionAction, bus.TerminateJobAction, bus.CompleteJobAction, bus.ResumeJobAction, bus.EnqueueAction}

var PhaseNames = []batch.JobPhase{"", batch.Pending, batch.Aborting, batch.Aborted, batch.Running, batch.Restarting, batch.Completing,
	batch.Completed, batch.Terminating, batch.Terminated, batch.Failed}

var PodPhaseNames = []v1.PodPhase{v1.PodPending, v1.PodRunning, v1.PodSucceeded, v1.PodFailed, v1.PodUnknown}

func PhaseCode(p batch.JobPhase) int64 {
	for i, x := range PhaseNames {
		if x == p {
			return int64(i)
		}
	}
	panic("unknown job phase " + string(p))
}

func PodPhaseCode(p v1.PodPhase) int64 {
	for i, x := range PodPhaseNames {
		if x == p {
			return int64(i)
		}
	}
	return 4 // anything else (incl. "") counts as unknown
}
