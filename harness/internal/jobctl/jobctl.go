// Package jobctl wires the REAL volcano job controller (through the `verif`
// export hook pkg/controllers/job/export_verif.go) to fake kube / volcano
// clientsets whose behaviour the harness controls:
//
//   - the controller WRITES through the fake clients (object trackers play the
//     API server; a pod delete is graceful: it sets a deletion timestamp, the
//     harness removes the pod later; a status update touches only .status);
//   - the controller READS through listers / its job cache, which the harness
//     fills from the trackers at explicit sync points (informer lag);
//   - faults: chosen pod create / delete / patch calls and the n-th job
//     UpdateStatus call of a step answer 500.
//
// One controller lives for the whole process; every case uses its own
// namespace.
package jobctl

import (
	"fmt"
	"reflect"
	"sort"
	"strconv"
	"strings"

	v1 "k8s.io/api/core/v1"
	schedv1 "k8s.io/api/scheduling/v1"
	apierrors "k8s.io/apimachinery/pkg/api/errors"
	"k8s.io/apimachinery/pkg/api/resource"
	metav1 "k8s.io/apimachinery/pkg/apis/meta/v1"
	"k8s.io/apimachinery/pkg/runtime"
	"k8s.io/apimachinery/pkg/runtime/schema"
	"k8s.io/apimachinery/pkg/types"
	kubefake "k8s.io/client-go/kubernetes/fake"
	k8stesting "k8s.io/client-go/testing"

	batch "volcano.sh/apis/pkg/apis/batch/v1alpha1"
	bus "volcano.sh/apis/pkg/apis/bus/v1alpha1"
	scheduling "volcano.sh/apis/pkg/apis/scheduling/v1beta1"
	vcfake "volcano.sh/apis/pkg/client/clientset/versioned/fake"
	"volcano.sh/volcano/pkg/controllers/apis"
	"volcano.sh/volcano/pkg/controllers/job"
)

var (
	PodGVR   = schema.GroupVersionResource{Version: "v1", Resource: "pods"}
	JobGVR   = schema.GroupVersionResource{Group: "batch.volcano.sh", Version: "v1alpha1", Resource: "jobs"}
	PGGVR    = schema.GroupVersionResource{Group: "scheduling.volcano.sh", Version: "v1beta1", Resource: "podgroups"}
	QueueGVR = schema.GroupVersionResource{Group: "scheduling.volcano.sh", Version: "v1beta1", Resource: "queues"}
)

const (
	JobName   = "j"
	QueueName = "q1"
)

// JobUID is the uid of the job's current incarnation (a job deleted and
// re-created under the same name gets a new one; the PodGroup name follows).
var JobUID = "u1"
var jobGen = 1

func resetJobUID() { jobGen = 1; JobUID = "u1" }
func nextJobUID()  { jobGen++; JobUID = fmt.Sprintf("u%d", jobGen) }

// Call is one write the controller issued in the current step.
type Call struct {
	Verb, Resource, Sub, Name string
	Failed                    bool
}

// Env is the controller plus its world.
type Env struct {
	Kube *kubefake.Clientset
	VC   *vcfake.Clientset
	Ctl  *job.VerifJobController

	// fault plan of the current step
	FailCreate, FailDelete, FailPatch map[string]bool
	FailStatus                        map[int]bool // indices of the UpdateStatus calls of this step that fail
	statusCalls                       int
	// fault plan of the give-up execution (handleJobError sending TerminateJob once the requeue budget is
	// used up): installed at the moment the controller records "... for retry limit reached"
	GiveCreate, GiveDelete, GivePatch map[string]bool
	GiveStatus                        map[int]bool
	GaveUp                            bool
	raceGet                           string // pod name whose next GET is raced by its disappearance + delete event
	// error class of a refused pod DELETE (by pod name): 0 / absent = InternalError, 1 Timeout, 2 ServerTimeout,
	// 3 TooManyRequests, 4 Conflict, 5 InternalError; the delete is never applied when it is refused
	DeleteClass map[string]int
	Calls                             []Call
	// objects the controller handed to Create (pods), for marker checks
	Created []*v1.Pod
	// PodGroup write faults of the current step: 0 none, 1 Conflict, 2 InternalError
	FailPgCreate, FailPgUpdate int

	rv     int
	rvBase int64
	// what the informers have delivered to the controller so far (per case)
	dJob         *batch.Job
	prevJob      *batch.Job // the version delivered before dJob
	dPods        map[string]*v1.Pod
	dPG          *scheduling.PodGroup
	jobDelivered bool
	lastCache    Status
	armedQ       []armed // timers armed in this case and not yet reached by the clock, oldest first
}

// resourceVersions are decimal counters.  Every case starts from a value just below a power
// of ten (StartRVs, chosen from the case's own tokens), so that the job's version gains a
// digit within the history: "9" -> "10" must still compare as older -> newer.
func (e *Env) nextRV() string { e.rv++; return strconv.FormatInt(e.rvBase+int64(e.rv), 10) }

var StartRVs = []int64{1, 8, 9, 98, 99, 999, 99999999, 9999999999, 7, 1000}

// StartRV resets the counter for a case; the job object is created with exactly this version.
func (e *Env) StartRV(k int64) string {
	if k < 0 {
		k = -k
	}
	e.rvBase, e.rv = StartRVs[int(k%int64(len(StartRVs)))], 0
	return strconv.FormatInt(e.rvBase, 10)
}

// FakeClock: the harness runs under testing/synctest; every history step then advances the
// fake clock by one tick, and WaitIdle waits until every other goroutine is blocked.
var (
	FakeClock bool
	WaitIdle  = func() {}
)

var theEnv *Env

// Get returns the process-wide environment.
func Get() *Env {
	if theEnv != nil {
		return theEnv
	}
	e := &Env{Kube: kubefake.NewSimpleClientset(), VC: vcfake.NewSimpleClientset()}
	e.installReactors()
	ctl, err := job.VerifNewJobController(e.Kube, e.VC, -1)
	if err != nil {
		panic(err)
	}
	e.Ctl = ctl
	// handleJobError records this event right before it executes TerminateJob through the state object
	ctl.VerifOnEvent(func(_, _, message string) {
		if strings.Contains(message, "for retry limit reached") {
			e.GaveUp = true
			e.FailCreate, e.FailDelete, e.FailPatch, e.FailStatus = e.GiveCreate, e.GiveDelete, e.GivePatch, e.GiveStatus
			e.statusCalls = 0
		}
	})
	for k := int64(1); k <= 4; k++ {
		if err := ctl.VerifPriorityClassIndexer().Add(NewPriorityClass(fmt.Sprintf("pc%d", k), int32(k*10))); err != nil {
			panic(err)
		}
	}
	theEnv = e
	return e
}

func injected(what string) error {
	return apierrors.NewInternalError(fmt.Errorf("injected fault: %s", what))
}

func (e *Env) installReactors() {
	e.Kube.PrependReactor("create", "pods", func(a k8stesting.Action) (bool, runtime.Object, error) {
		pod := a.(k8stesting.CreateAction).GetObject().(*v1.Pod)
		if e.FailCreate[pod.Name] {
			e.Calls = append(e.Calls, Call{"create", "pods", "", pod.Name, true})
			return true, nil, injected("create pod " + pod.Name)
		}
		e.Calls = append(e.Calls, Call{"create", "pods", "", pod.Name, false})
		e.Created = append(e.Created, pod.DeepCopy())
		// the API server defaults a new pod's phase to Pending
		if pod.Status.Phase == "" {
			pod.Status.Phase = v1.PodPending
		}
		return false, nil, nil
	})
	// the resync worker's GET (syncTask): when armed for this pod, the pod goes away and its delete event
	// reaches the controller after the GET was served and before the worker touches the job cache
	e.Kube.PrependReactor("get", "pods", func(a k8stesting.Action) (bool, runtime.Object, error) {
		ga := a.(k8stesting.GetAction)
		if e.raceGet == "" || ga.GetName() != e.raceGet {
			return false, nil, nil
		}
		e.raceGet = ""
		obj, err := e.Kube.Tracker().Get(PodGVR, ga.GetNamespace(), ga.GetName())
		if err != nil {
			return true, nil, err
		}
		stale := obj.(*v1.Pod).DeepCopy()
		e.APIRemovePod(ga.GetNamespace(), ga.GetName())
		if d, ok := e.dPods[ga.GetName()]; ok {
			ix := e.Ctl.VerifPodIndexer()
			if o, found, _ := ix.GetByKey(ga.GetNamespace() + "/" + ga.GetName()); found {
				must(ix.Delete(o))
			}
			e.Ctl.VerifDeletePod(d)
			delete(e.dPods, ga.GetName())
		}
		return true, stale, nil
	})
	e.Kube.PrependReactor("delete", "pods", func(a k8stesting.Action) (bool, runtime.Object, error) {
		da := a.(k8stesting.DeleteAction)
		name, ns := da.GetName(), da.GetNamespace()
		if e.FailDelete[name] {
			e.Calls = append(e.Calls, Call{"delete", "pods", "", name, true})
			gr := schema.GroupResource{Resource: "pods"}
			switch e.DeleteClass[name] {
			case 1:
				return true, nil, apierrors.NewTimeoutError("injected fault: delete pod "+name+" timed out", 1)
			case 2:
				return true, nil, apierrors.NewServerTimeout(gr, "delete", 1)
			case 3:
				return true, nil, apierrors.NewTooManyRequests("injected fault: delete pod "+name, 1)
			case 4:
				return true, nil, apierrors.NewConflict(gr, name, fmt.Errorf("injected fault: the object has been modified"))
			}
			return true, nil, injected("delete pod " + name)
		}
		e.Calls = append(e.Calls, Call{"delete", "pods", "", name, false})
		obj, err := e.Kube.Tracker().Get(PodGVR, ns, name)
		if err != nil {
			return true, nil, err // NotFound
		}
		pod := obj.(*v1.Pod).DeepCopy()
		if pod.DeletionTimestamp == nil {
			now := metav1.Now()
			pod.DeletionTimestamp = &now
			if err := e.Kube.Tracker().Update(PodGVR, pod, ns); err != nil {
				panic(err)
			}
		}
		return true, nil, nil
	})
	e.Kube.PrependReactor("patch", "pods", func(a k8stesting.Action) (bool, runtime.Object, error) {
		pa := a.(k8stesting.PatchAction)
		if e.FailPatch[pa.GetName()] {
			e.Calls = append(e.Calls, Call{"patch", "pods", "", pa.GetName(), true})
			return true, nil, injected("patch pod " + pa.GetName())
		}
		e.Calls = append(e.Calls, Call{"patch", "pods", "", pa.GetName(), false})
		return false, nil, nil
	})
	e.VC.PrependReactor("update", "jobs", func(a k8stesting.Action) (bool, runtime.Object, error) {
		ua := a.(k8stesting.UpdateAction)
		j := ua.GetObject().(*batch.Job)
		if a.GetSubresource() != "status" {
			e.Calls = append(e.Calls, Call{"update", "jobs", "", j.Name, false})
			return false, nil, nil
		}
		ix := e.statusCalls
		e.statusCalls++
		if e.FailStatus[ix] {
			e.Calls = append(e.Calls, Call{"update", "jobs", "status", j.Name, true})
			return true, nil, injected("update job status")
		}
		e.Calls = append(e.Calls, Call{"update", "jobs", "status", j.Name, false})
		// a status update changes .status only
		obj, err := e.VC.Tracker().Get(JobGVR, j.Namespace, j.Name)
		if err != nil {
			return true, nil, err
		}
		stored := obj.(*batch.Job).DeepCopy()
		stored.Status = *j.Status.DeepCopy()
		stored.ResourceVersion = e.nextRV()
		if err := e.VC.Tracker().Update(JobGVR, stored, j.Namespace); err != nil {
			panic(err)
		}
		return true, stored.DeepCopy(), nil
	})
	pgErr := func(kind int, name string) error {
		if kind == 1 {
			return apierrors.NewConflict(schema.GroupResource{Group: "scheduling.volcano.sh", Resource: "podgroups"}, name,
				fmt.Errorf("injected fault: the object has been modified"))
		}
		return injected("podgroup write " + name)
	}
	e.VC.PrependReactor("create", "podgroups", func(a k8stesting.Action) (bool, runtime.Object, error) {
		pg := a.(k8stesting.CreateAction).GetObject().(*scheduling.PodGroup)
		if e.FailPgCreate != 0 {
			e.Calls = append(e.Calls, Call{"create", "podgroups", "", pg.Name, true})
			return true, nil, pgErr(e.FailPgCreate, pg.Name)
		}
		e.Calls = append(e.Calls, Call{"create", "podgroups", "", pg.Name, false})
		return false, nil, nil
	})
	e.VC.PrependReactor("update", "podgroups", func(a k8stesting.Action) (bool, runtime.Object, error) {
		pg := a.(k8stesting.UpdateAction).GetObject().(*scheduling.PodGroup)
		if e.FailPgUpdate != 0 {
			e.Calls = append(e.Calls, Call{"update", "podgroups", "", pg.Name, true})
			return true, nil, pgErr(e.FailPgUpdate, pg.Name)
		}
		// an update of the main resource does not touch .status
		obj, err := e.VC.Tracker().Get(PGGVR, pg.Namespace, pg.Name)
		if err != nil {
			e.Calls = append(e.Calls, Call{"update", "podgroups", "", pg.Name, true})
			return true, nil, err
		}
		e.Calls = append(e.Calls, Call{"update", "podgroups", "", pg.Name, false})
		n := pg.DeepCopy()
		n.Status = obj.(*scheduling.PodGroup).Status
		if err := e.VC.Tracker().Update(PGGVR, n, pg.Namespace); err != nil {
			panic(err)
		}
		return true, n.DeepCopy(), nil
	})
	e.VC.PrependReactor("delete", "podgroups", func(a k8stesting.Action) (bool, runtime.Object, error) {
		e.Calls = append(e.Calls, Call{"delete", "podgroups", "", a.(k8stesting.DeleteAction).GetName(), false})
		return false, nil, nil
	})
}

// BeginStep resets the fault plan and the call log.
func (e *Env) BeginStep() {
	e.FailCreate, e.FailDelete, e.FailPatch = map[string]bool{}, map[string]bool{}, map[string]bool{}
	e.FailStatus = map[int]bool{}
	e.GiveCreate, e.GiveDelete, e.GivePatch = map[string]bool{}, map[string]bool{}, map[string]bool{}
	e.GiveStatus = map[int]bool{}
	e.GaveUp = false
	e.DeleteClass = map[string]int{}
	e.FailPgCreate, e.FailPgUpdate = 0, 0
	e.statusCalls = 0
	e.Calls = nil
	e.Created = nil
	e.Kube.ClearActions()
	e.VC.ClearActions()
}

// FailedCalls counts refused calls on a resource in this step.
func (e *Env) FailedCalls(res string) int {
	n := 0
	for _, c := range e.Calls {
		if c.Resource == res && c.Failed {
			n++
		}
	}
	return n
}

func (e *Env) CountCalls(verb, res, sub string, okOnly bool) int {
	n := 0
	for _, c := range e.Calls {
		if c.Verb == verb && c.Resource == res && c.Sub == sub && !(okOnly && c.Failed) {
			n++
		}
	}
	return n
}

// ---------- building objects ----------

func TaskName(id int64) string { return "t" + strconv.FormatInt(id, 10) }

func TaskID(name string) int64 {
	if !strings.HasPrefix(name, "t") {
		panic("not a harness task name: " + name)
	}
	v, err := strconv.ParseInt(name[1:], 10, 64)
	if err != nil {
		panic(err)
	}
	return v
}

func PodName(task int64, idx int64) string {
	return fmt.Sprintf("%s-%s-%d", JobName, TaskName(task), idx)
}

// PodID parses "j-t<task>-<idx>".
func PodID(name string) (task, idx int64) {
	parts := strings.Split(name, "-")
	if len(parts) < 3 || parts[0] != JobName {
		panic("not a harness pod name: " + name)
	}
	// idx may be negative: "j-t1--1"
	rest := strings.TrimPrefix(name, JobName+"-")
	k := strings.Index(rest, "-")
	task = TaskID(rest[:k])
	v, err := strconv.ParseInt(rest[k+1:], 10, 64)
	if err != nil {
		panic(err)
	}
	return task, v
}

func PGName() string { return JobName + "-" + JobUID }

// NewJob builds the job object of a case (spec filled by the caller).
func NewJob(ns string) *batch.Job {
	return &batch.Job{
		TypeMeta:   metav1.TypeMeta{APIVersion: "batch.volcano.sh/v1alpha1", Kind: "Job"},
		ObjectMeta: metav1.ObjectMeta{Name: JobName, Namespace: ns, UID: types.UID(JobUID), ResourceVersion: "1"},
		Spec:       batch.JobSpec{Queue: QueueName, SchedulerName: "volcano"},
	}
}

const (
	UserLabel      = "example.com/app"
	UserAnnotation = "example.com/mem"
)

// Template is a one-container pod template with the given cpu request (milli).
func Template(cpuMilli int64, memMi int64, pc string) v1.PodTemplateSpec {
	req := v1.ResourceList{}
	if cpuMilli > 0 {
		req[v1.ResourceCPU] = *resource.NewMilliQuantity(cpuMilli, resource.DecimalSI)
	}
	if memMi > 0 {
		req[v1.ResourceMemory] = *resource.NewQuantity(memMi<<20, resource.BinarySI)
	}
	// user labels / annotations on the template (derived from the requests, so that the token
	// format needs no extra field): createJobPod must copy them per pod, never share the maps
	var lbl, ann map[string]string
	if cpuMilli > 0 {
		lbl = map[string]string{UserLabel: fmt.Sprintf("a%d", cpuMilli)}
	}
	if memMi > 0 {
		ann = map[string]string{UserAnnotation: fmt.Sprintf("m%d", memMi)}
	}
	return v1.PodTemplateSpec{
		ObjectMeta: metav1.ObjectMeta{Labels: lbl, Annotations: ann},
		Spec: v1.PodSpec{
			PriorityClassName: pc,
			Containers:        []v1.Container{{Name: "c", Image: "busybox", Resources: v1.ResourceRequirements{Requests: req}}},
		},
	}
}

// NewPod builds a pre-existing pod of the job as the controller would have
// created it (same markers), with the given state.
func NewPod(ns string, task, idx int64, phase v1.PodPhase, deleting, outOfSync bool, version int64) *v1.Pod {
	t := true
	p := &v1.Pod{
		ObjectMeta: metav1.ObjectMeta{
			Name: PodName(task, idx), Namespace: ns, UID: types.UID("p-" + PodName(task, idx)),
			OwnerReferences: []metav1.OwnerReference{{APIVersion: "batch.volcano.sh/v1alpha1", Kind: "Job", Name: JobName,
				UID: types.UID(JobUID), Controller: &t, BlockOwnerDeletion: &t}},
			Annotations: map[string]string{
				batch.TaskSpecKey: TaskName(task), batch.JobNameKey: JobName, batch.JobVersion: strconv.FormatInt(version, 10),
				batch.TaskIndex: strconv.FormatInt(idx, 10), scheduling.KubeGroupNameAnnotationKey: PGName(),
				batch.QueueNameKey: QueueName,
			},
			Labels: map[string]string{batch.JobNameKey: JobName, batch.TaskSpecKey: TaskName(task)},
		},
		Spec:   v1.PodSpec{Containers: []v1.Container{{Name: "c", Image: "busybox"}}},
		Status: v1.PodStatus{Phase: phase},
	}
	if deleting {
		now := metav1.Now()
		p.DeletionTimestamp = &now
	}
	if outOfSync {
		p.Annotations["volcano.sh/controller-out-of-sync"] = "true"
	}
	return p
}

func NewPriorityClass(name string, value int32) *schedv1.PriorityClass {
	return &schedv1.PriorityClass{ObjectMeta: metav1.ObjectMeta{Name: name}, Value: value}
}

// ---------- API server side (trackers) ----------

func must(err error) {
	if err != nil {
		panic(err)
	}
}

func (e *Env) APIAddJob(j *batch.Job) { must(e.VC.Tracker().Add(j.DeepCopy())) }

func (e *Env) APIJob(ns string) *batch.Job {
	obj, err := e.VC.Tracker().Get(JobGVR, ns, JobName)
	must(err)
	return obj.(*batch.Job)
}

func (e *Env) APISetJobSpec(ns string, spec batch.JobSpec) {
	j := e.APIJob(ns).DeepCopy()
	j.Spec = spec
	j.ResourceVersion = e.nextRV()
	must(e.VC.Tracker().Update(JobGVR, j, ns))
}

func (e *Env) APIAddPod(p *v1.Pod) { must(e.Kube.Tracker().Add(p.DeepCopy())) }

func (e *Env) APIPods(ns string) []*v1.Pod {
	obj, err := e.Kube.Tracker().List(PodGVR, schema.GroupVersionKind{Version: "v1", Kind: "Pod"}, ns)
	must(err)
	l := obj.(*v1.PodList)
	out := make([]*v1.Pod, 0, len(l.Items))
	for i := range l.Items {
		out = append(out, &l.Items[i])
	}
	sort.Slice(out, func(i, k int) bool {
		ti, ii := PodID(out[i].Name)
		tk, ik := PodID(out[k].Name)
		if ti != tk {
			return ti < tk
		}
		return ii < ik
	})
	return out
}

func (e *Env) APIPod(ns, name string) *v1.Pod {
	obj, err := e.Kube.Tracker().Get(PodGVR, ns, name)
	if err != nil {
		return nil
	}
	return obj.(*v1.Pod)
}

func (e *Env) APIUpdatePod(p *v1.Pod) { must(e.Kube.Tracker().Update(PodGVR, p, p.Namespace)) }

func (e *Env) APIRemovePod(ns, name string) {
	if e.APIPod(ns, name) != nil {
		must(e.Kube.Tracker().Delete(PodGVR, ns, name))
	}
}

func (e *Env) APIPodGroup(ns string) *scheduling.PodGroup {
	obj, err := e.VC.Tracker().Get(PGGVR, ns, PGName())
	if err != nil {
		return nil
	}
	return obj.(*scheduling.PodGroup)
}

func (e *Env) APIAddPodGroup(pg *scheduling.PodGroup) { must(e.VC.Tracker().Add(pg.DeepCopy())) }

func (e *Env) APIUpdatePodGroup(pg *scheduling.PodGroup) {
	must(e.VC.Tracker().Update(PGGVR, pg, pg.Namespace))
}

// ---------- controller side: explicit informer deliveries through the REAL handlers ----------
// (addJob / updateJob / deleteJob, addPod / updatePod / deletePod, updatePodGroup of
// job_controller_handler.go, which feed pkg/controllers/cache; the listers read the
// indexers the harness fills at the same moment).  The requests the handlers enqueue are
// dropped: histories deliver requests explicitly.

func jobKey(ns string) string { return ns + "/" + JobName }

// SyncJob delivers the API server's job: add on first delivery (after a restart / re-creation),
// update afterwards (the handler itself ignores an unchanged resourceVersion).
func (e *Env) SyncJob(ns string) {
	j := e.APIJob(ns).DeepCopy()
	ix := e.Ctl.VerifJobIndexer()
	if !e.jobDelivered {
		if _, ok, _ := ix.GetByKey(jobKey(ns)); ok {
			must(ix.Update(j))
		} else {
			must(ix.Add(j))
		}
		e.Ctl.VerifAddJob(j)
		e.jobDelivered = true
	} else {
		must(ix.Update(j))
		e.Ctl.VerifUpdateJob(e.dJob, j)
		if e.dJob.ResourceVersion != j.ResourceVersion {
			e.prevJob = e.dJob
		}
	}
	e.dJob = j
	e.Ctl.VerifDrainRequests()
}

// StaleJob delivers an update event that carries an OLDER version of the job than the one the
// controller already has (events arriving out of order): the job cache must refuse it.
func (e *Env) StaleJob(ns string) {
	if e.jobDelivered && e.prevJob != nil && e.dJob != nil {
		e.Ctl.VerifUpdateJob(e.dJob, e.prevJob.DeepCopy())
		e.Ctl.VerifDrainRequests()
	}
}

func samePodContent(a, b *v1.Pod) bool {
	_, ao := a.Annotations["volcano.sh/controller-out-of-sync"]
	_, bo := b.Annotations["volcano.sh/controller-out-of-sync"]
	return a.Status.Phase == b.Status.Phase && (a.DeletionTimestamp == nil) == (b.DeletionTimestamp == nil) && ao == bo
}

// SyncPods delivers pod add / update / delete events for everything that changed on the API
// server since the last delivery.
func (e *Env) SyncPods(ns string) {
	api := map[string]*v1.Pod{}
	var names []string
	for _, p := range e.APIPods(ns) {
		api[p.Name] = p.DeepCopy()
		names = append(names, p.Name)
	}
	ix := e.Ctl.VerifPodIndexer()
	var gone []string
	for name := range e.dPods {
		if _, ok := api[name]; !ok {
			gone = append(gone, name)
		}
	}
	sort.Strings(gone)
	for _, name := range gone {
		old := e.dPods[name]
		must(ix.Delete(old))
		e.Ctl.VerifDeletePod(old)
		delete(e.dPods, name)
	}
	for _, name := range names {
		p := api[name]
		old := e.dPods[name]
		switch {
		case old == nil:
			p.ResourceVersion = e.nextRV()
			must(ix.Add(p))
			e.Ctl.VerifAddPod(p)
			e.dPods[name] = p
		case !samePodContent(old, p):
			p.ResourceVersion = e.nextRV()
			must(ix.Update(p))
			e.Ctl.VerifUpdatePod(old, p)
			e.dPods[name] = p
		}
	}
	e.Ctl.VerifDrainRequests()
}

// SyncPodGroup makes the PodGroup lister equal to the API server's and delivers the update event.
func (e *Env) SyncPodGroup(ns string) {
	ix := e.Ctl.VerifPodGroupIndexer()
	key := ns + "/" + PGName()
	pg := e.APIPodGroup(ns)
	old, ok, _ := ix.GetByKey(key)
	switch {
	case pg == nil && ok:
		must(ix.Delete(old))
		e.dPG = nil
	case pg != nil && ok:
		n := pg.DeepCopy()
		must(ix.Update(n))
		e.Ctl.VerifUpdatePodGroup(old.(*scheduling.PodGroup), n)
		e.dPG = n
	case pg != nil:
		n := pg.DeepCopy()
		must(ix.Add(n))
		e.dPG = n
	default:
		e.dPG = nil
	}
	e.Ctl.VerifDrainRequests()
}

func (e *Env) dropIndexers(ns string) {
	for _, ix := range []interface {
		ListKeys() []string
		GetByKey(string) (interface{}, bool, error)
		Delete(interface{}) error
	}{e.Ctl.VerifPodIndexer(), e.Ctl.VerifPodGroupIndexer(), e.Ctl.VerifJobIndexer()} {
		for _, key := range ix.ListKeys() {
			if strings.HasPrefix(key, ns+"/") {
				obj, _, _ := ix.GetByKey(key)
				_ = ix.Delete(obj)
			}
		}
	}
}

// Restart: the controller process restarts -- empty job cache, empty listers; nothing delivered yet.
func (e *Env) Restart(ns string) {
	e.Ctl.VerifResetCache()
	e.Ctl.VerifResetRequeues() // a new process: a new worker queue
	e.Ctl.VerifDropDelayedActions(jobKey(ns))
	e.dropIndexers(ns)
	e.dJob, e.dPG, e.jobDelivered, e.prevJob = nil, nil, false, nil
	e.dPods = map[string]*v1.Pod{}
}

// ReplaceJob: the job is deleted (the delete event is delivered) and re-created under the same
// name with a new uid and no status; its old pods are still around.
func (e *Env) ReplaceJob(ns string, spec batch.JobSpec) {
	if e.jobDelivered {
		if obj, ok, _ := e.Ctl.VerifJobIndexer().GetByKey(jobKey(ns)); ok {
			must(e.Ctl.VerifJobIndexer().Delete(obj))
		}
		e.Ctl.VerifDeleteJob(e.dJob)
	}
	e.dJob, e.dPG, e.jobDelivered, e.prevJob = nil, nil, false, nil
	must(e.VC.Tracker().Delete(JobGVR, ns, JobName))
	nextJobUID()
	j := NewJob(ns)
	j.ResourceVersion = e.nextRV()
	j.Spec = spec
	must(e.VC.Tracker().Add(j))
	e.Ctl.VerifDrainRequests()
}

// ResyncPod runs the resync worker's syncTask for one pod (what processResyncTask does with a pod that a
// failed delete queued).  The harness's record of what the informers delivered follows what syncTask did to
// the job cache.
func (e *Env) ResyncPod(ns, name string, race bool) {
	var old *v1.Pod
	if d, ok := e.dPods[name]; ok {
		old = d
	} else if p := e.APIPod(ns, name); p != nil {
		old = p
	} else {
		// a pod nobody knows: the real syncTask GETs NotFound and finds nothing to delete in the cache
		t, i := PodID(name)
		old = NewPod(ns, t, i, v1.PodRunning, false, false, 0)
	}
	api := e.APIPod(ns, name)
	if race && api != nil {
		e.raceGet = name
	}
	_ = e.Ctl.VerifSyncTask(old.DeepCopy())
	e.raceGet = ""
	switch {
	case api == nil:
		// cache.DeletePod; the informer's delete event is still to come (SyncPods delivers it, the cache
		// then has nothing to delete)
	case race:
		// removed by the delete event inside the GET; the stale UpdatePod is refused
	default:
		if _, ok := e.dPods[name]; ok {
			p := api.DeepCopy() // cache.UpdatePod with the fetched object; the lister catches up as well
			must(e.Ctl.VerifPodIndexer().Update(p))
			e.dPods[name] = p
		}
	}
	e.Ctl.VerifDrainRequests()
}

// JobDeleting gives the API server's job a deletion timestamp.
func (e *Env) JobDeleting(ns string) {
	j := e.APIJob(ns).DeepCopy()
	if j.DeletionTimestamp == nil {
		now := metav1.Now()
		j.DeletionTimestamp = &now
	}
	j.ResourceVersion = e.nextRV()
	must(e.VC.Tracker().Update(JobGVR, j, ns))
}

// what the harness has delivered, compared with the API server (independent of what the
// controller's cache made of it)
func (e *Env) PodsDelivered(ns string) bool {
	api := e.APIPods(ns)
	if len(api) != len(e.dPods) {
		return false
	}
	for _, p := range api {
		d := e.dPods[p.Name]
		if d == nil || !samePodContent(d, p) {
			return false
		}
	}
	return true
}
func (e *Env) JobKnown() bool        { return e.jobDelivered }
func (e *Env) JobViewDeleting() bool { return e.dJob != nil && e.dJob.DeletionTimestamp != nil }
func (e *Env) JobViewFresh(ns string) bool {
	return e.dJob != nil && e.dJob.ResourceVersion == e.APIJob(ns).ResourceVersion
}
func (e *Env) PgViewFresh(ns string) bool {
	api := e.APIPodGroup(ns)
	if api == nil || e.dPG == nil {
		return api == nil && e.dPG == nil
	}
	return api.Status.Phase == e.dPG.Status.Phase && reflect.DeepEqual(api.Spec, e.dPG.Spec)
}

// ViewPods is the controller's view of the job's pods (job cache), sorted.
func (e *Env) ViewPods(ns string) []*v1.Pod {
	ji, err := e.Ctl.VerifCache().Get(jobKey(ns))
	if err != nil {
		return nil
	}
	var out []*v1.Pod
	for _, pods := range ji.Pods {
		for _, p := range pods {
			out = append(out, p)
		}
	}
	sort.Slice(out, func(i, k int) bool { return out[i].Name < out[k].Name })
	return out
}

// CacheJob is the job object in the controller's cache (shared pointer!).
func (e *Env) CacheJob(ns string) *batch.Job {
	ji, err := e.Ctl.VerifCache().Get(jobKey(ns))
	if err != nil {
		return nil
	}
	return ji.Job
}

func (e *Env) ViewPodGroup(ns string) *scheduling.PodGroup {
	obj, ok, _ := e.Ctl.VerifPodGroupIndexer().GetByKey(ns + "/" + PGName())
	if !ok {
		return nil
	}
	return obj.(*scheduling.PodGroup)
}

// Cleanup drops the case's objects so that a long run does not grow.
func (e *Env) Cleanup(ns string) {
	for _, p := range e.APIPods(ns) {
		must(e.Kube.Tracker().Delete(PodGVR, ns, p.Name))
	}
	for g := 1; g <= jobGen; g++ {
		_ = e.VC.Tracker().Delete(PGGVR, ns, fmt.Sprintf("%s-u%d", JobName, g))
	}
	_ = e.VC.Tracker().Delete(JobGVR, ns, JobName)
	e.dropIndexers(ns)
	e.Ctl.VerifResetCache()
	e.Ctl.VerifDropDelayedActions(jobKey(ns))
	e.armedQ = nil
	e.dJob, e.dPG, e.jobDelivered, e.prevJob = nil, nil, false, nil
	e.dPods = map[string]*v1.Pod{}
	resetJobUID()
}

// ProcessReq delivers a request through processNextReq on a worker queue whose requeue counters
// persist through the case; true = the action failed (the request was re-queued, or the controller
// gave up on it: e.GaveUp).
func (e *Env) ProcessReq(req apis.Request) bool { return e.Ctl.VerifProcessReqCounted(req) || e.GaveUp }

var EventNames = []bus.Event{"", bus.AnyEvent, bus.PodFailedEvent, bus.PodEvictedEvent, bus.PodPendingEvent, bus.PodRunningEvent,
	bus.JobUnknownEvent, bus.TaskCompletedEvent, bus.OutOfSyncEvent, bus.CommandIssuedEvent, bus.JobUpdatedEvent, bus.TaskFailedEvent}

var ActionNames = []bus.Action{bus.SyncJobAction, bus.AbortJobAction, bus.RestartJobAction, bus.RestartTaskAction, bus.RestartPodAction,
	bus.RestartPartitionAction, bus.TerminateJobAction, bus.CompleteJobAction, bus.ResumeJobAction, bus.EnqueueAction}

var PhaseNames = []batch.JobPhase{"", batch.Pending, batch.Aborting, batch.Aborted, batch.Running, batch.Restarting, batch.Completing,
	batch.Completed, batch.Terminating, batch.Terminated, batch.Failed}

var PodPhaseNames = []v1.PodPhase{v1.PodPending, v1.PodRunning, v1.PodSucceeded, v1.PodFailed, v1.PodUnknown}

func PhaseCode(p batch.JobPhase) int64 {
	for i, x := range PhaseNames {
		if x == p {
			return int64(i)
		}
	}
	panic("unknown job phase " + string(p))
}

func PodPhaseCode(p v1.PodPhase) int64 {
	for i, x := range PodPhaseNames {
		if x == p {
			return int64(i)
		}
	}
	return 4 // anything else (incl. "") counts as unknown
}
