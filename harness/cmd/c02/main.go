// c02 harness: real scheduling cycles (allocate / backfill with the real gang, priority and
// proportion plugins) against the action skeleton model; law selector 102.
package main

import "verif/harness/internal/sched"

func main() {
	sched.CycleHarness(102, false).Main()
}
