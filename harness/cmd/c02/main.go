// c02 harness.
//
//	stream 1 (selector 1, laws 102 + 113): real scheduling cycles (allocate / backfill with the real
//	    gang, priority and proportion plugins) against the action skeleton model; random clusters plus
//	    the directed family pipefirst/* (directed.go);
//	stream 2 (selector 2, law 112): the real cache.SchedulerCache.AddBindTask called by concurrent
//	    goroutines against nearly full nodes, replayed by the model in the order the cache
//	    serialised the calls;
//	stream 3 (selector 3, law 112): the same against the agent scheduler's cache;
//	stream 4 (selector 4, law 114): real preempt / reclaim / allocate / backfill action lists on
//	    clusters with evictable victims (see evict.go).
package main

import (
	"verif/harness/internal/sched"
	"verif/harness/internal/vh"
)

func main() {
	cyc := sched.CycleHarness(102, false)
	h := vh.Harness{
		Run2: func(sel int, in []int64) ([]int64, []int64) {
			switch sel {
			case 2:
				return runBind(in)
			case 3:
				return runAgent(in)
			case 6:
				return runBindInit(in)
			case 4:
				return runEvictCycle(in)
			}
			return cyc.Run2(sel, in)
		},
		Laws: func(sel int, in, got []int64, law func(lsel int, lin []int64, sig string)) {
			switch sel {
			case 2, 3, 6:
				bindLaws(in, law)
				return
			case 4:
				evictLaws(law)
				return
			}
			cyc.Laws(sel, in, got, func(lsel int, lin []int64, sig string) {
				law(lsel, lin, sig)
				if lsel == 102 {
					// the hypotheses of cycle_no_overcommit hold of this cycle's initial world
					law(113, lin, "")
				}
			})
		},
		Gen: func(rng *vh.Rng, n int, emit func(id string, sel int, in []int64, kind string, nontrivial bool, desc any)) {
			cyc.Gen(rng, n, emit)
			genPipefirst(rng.Fork(), max(12, n/10), emit)
			genBind(rng.Fork(), n, emit)
			genAgent(rng.Fork(), n, emit)
			genEvict(rng.Fork(), n, emit)
		},
	}
	h.Main()
}
