package main

import (
	"fmt"

	"volcano.sh/volcano/pkg/scheduler/actions/allocate"
	"volcano.sh/volcano/pkg/scheduler/actions/backfill"
	"volcano.sh/volcano/pkg/scheduler/actions/preempt"
	"volcano.sh/volcano/pkg/scheduler/actions/reclaim"
	"volcano.sh/volcano/pkg/scheduler/api"
	"volcano.sh/volcano/pkg/scheduler/conf"
	"volcano.sh/volcano/pkg/scheduler/framework"

	"verif/harness/internal/evict"
	"verif/harness/internal/sched"
	"verif/harness/internal/vh"
)

// Stream 4 (selector 4, law 114): real preempt / reclaim / allocate / backfill action lists over
// the C04 harness's cluster builder (internal/evict: scripted cache, real gang / priority /
// conformance / proportion plugins in generated tiers).  The choices of these actions are C04's
// correspondence; here the model only rebuilds the INITIAL node ledgers (so that "the node was
// within capacity before the cycle" is judged on a state both sides agree on), and law 114 states
// the property on what the real actions left behind.
//
// Actions: 1 preempt, 2 reclaim, 3 allocate, 4 backfill, 5 preempt with topology-aware preemption.

func encNodes(ssn *framework.Session) []int64 {
	nids := sched.SortedIDs(ssn.Nodes, func(n string) int64 { return sched.ParseID(n) })
	out := []int64{int64(len(nids))}
	for _, n := range nids {
		out = append(out, sched.EncNode(ssn.Nodes[sched.NodeName(n)], n)...)
	}
	return out
}

func runActionList(w *evict.World, actions []int64) {
	conf.EnabledActionMap = map[string]bool{}
	for _, a := range actions {
		var act framework.Action
		switch a {
		case 1:
			act = preempt.New()
		case 2:
			act = reclaim.New()
		case 3:
			act = allocate.New()
		case 4:
			act = backfill.New()
		case 5:
			// preempt with enableTopologyAwarePreemption: dry run over node clones
			// (SelectVictimsOnNode), then evictions + Pipeline WITHOUT a re-check
			act = preempt.New()
			w.Ssn.Configurations = []conf.Configuration{{Name: act.Name(),
				Arguments: map[string]interface{}{preempt.EnableTopologyAwarePreemptionKey: true}}}
		default:
			panic(fmt.Sprint("unknown action ", a))
		}
		conf.EnabledActionMap[act.Name()] = true
		act.Initialize()
		act.Execute(w.Ssn)
		act.UnInitialize()
	}
}

var lastEvictLaw []int64

// ---- C02's own wire format of an evict case (model side: C02/Entry.v dEvictSpec) ----
//
//	eps, nodes, jobs (id queue min rolemins), tasks      -- what the model reads
//	L, then L integers                                    -- read by the Go side only:
//	    queues (id open weight capcpu capmem reclaimable), per job (phase priority kube-system),
//	    per task (priority class), tiers of (kind pre rec), actions, fault script (task node)
//
// It is independent of harness/internal/evict's Spec.Enc (which belongs to C04 and changes with
// it).  Fields of evict.Spec that are not listed here are not carried: a case is always run from
// these tokens, so such features are switched off for this stream -- in particular refused
// evictions (the documented limit of the theorem; C07's), queue guarantee / deserved amounts and
// the capacity plugin (plugin kinds other than gang, priority, conformance, proportion are dropped
// from the tiers).
func encEvictCase(c evict.Spec) []int64 {
	out := []int64{sched.EpsUnits, int64(len(c.Nodes))}
	for _, n := range c.Nodes {
		out = append(out, n.ID, vh.B(n.Has), n.CPU, n.Mem, n.Pods, n.GPU)
	}
	out = append(out, int64(len(c.Jobs)))
	for _, j := range c.Jobs {
		out = append(out, j.ID, j.Queue, j.Min, int64(len(j.RoleMin)))
		for _, rm := range j.RoleMin {
			out = append(out, rm[0], rm[1])
		}
	}
	out = append(out, int64(len(c.Tasks)))
	for _, t := range c.Tasks {
		out = append(out, t.ID, t.Job, t.Role, t.Prio, t.CPU, t.Mem, t.GPU, t.Status, t.Node, vh.B(t.Preemptable))
	}
	tail := []int64{int64(len(c.Queues))}
	for _, q := range c.Queues {
		tail = append(tail, q.ID, vh.B(q.Open), q.Weight, q.CapCPU, q.CapMem, c.QRecl[q.ID])
	}
	for _, j := range c.Jobs {
		tail = append(tail, c.PGPhase[j.ID], c.JPrio[j.ID], vh.B(c.JSys[j.ID]))
	}
	for _, t := range c.Tasks {
		tail = append(tail, c.TClass[t.ID])
	}
	tiers := [][]evict.Plug{}
	for _, t := range c.Tiers {
		keep := []evict.Plug{}
		for _, p := range t {
			if p.Kind >= evict.KGang && p.Kind <= evict.KProp {
				keep = append(keep, p)
			}
		}
		tiers = append(tiers, keep)
	}
	tail = append(tail, int64(len(tiers)))
	for _, t := range tiers {
		tail = append(tail, int64(len(t)))
		for _, p := range t {
			tail = append(tail, p.Kind, vh.B(p.Pre), vh.B(p.Rec))
		}
	}
	tail = append(tail, int64(len(c.Actions)))
	tail = append(tail, c.Actions...)
	tail = append(tail, int64(len(c.Faults)))
	for _, f := range c.Faults {
		tail = append(tail, f[0], f[1])
	}
	out = append(out, int64(len(tail)))
	return append(out, tail...)
}

func decEvictCase(in []int64) evict.Spec {
	r := &sched.Tok{T: in}
	c := evict.Spec{PGPhase: map[int64]int64{}, JPrio: map[int64]int64{}, JSys: map[int64]bool{}, TClass: map[int64]int64{}, QRecl: map[int64]int64{},
		QGuar: map[int64][2]int64{}, QDes: map[int64][2]int64{}}
	_ = r.Next()
	r.List(func() {
		c.Nodes = append(c.Nodes, sched.NodeSpec{ID: r.Next(), Has: r.Bool(), CPU: r.Next(), Mem: r.Next(), Pods: r.Next(), GPU: r.Next()})
	})
	r.List(func() {
		j := sched.JobSpec{ID: r.Next(), Queue: r.Next(), Min: r.Next()}
		r.List(func() { j.RoleMin = append(j.RoleMin, [2]int64{r.Next(), r.Next()}) })
		c.Jobs = append(c.Jobs, j)
	})
	r.List(func() {
		c.Tasks = append(c.Tasks, sched.TaskSpec{ID: r.Next(), Job: r.Next(), Role: r.Next(), Prio: r.Next(), CPU: r.Next(), Mem: r.Next(),
			GPU: r.Next(), Status: r.Next(), Node: r.Next(), Preemptable: r.Bool()})
	})
	if int(r.Next()) != len(in)-r.I {
		panic("evict case: the Go-only block does not end with the input")
	}
	r.List(func() {
		q := sched.QueueSpec{ID: r.Next(), Open: r.Bool(), Weight: r.Next(), CapCPU: r.Next(), CapMem: r.Next()}
		c.QRecl[q.ID] = r.Next()
		c.Queues = append(c.Queues, q)
	})
	for _, j := range c.Jobs {
		c.PGPhase[j.ID], c.JPrio[j.ID], c.JSys[j.ID] = r.Next(), r.Next(), r.Bool()
	}
	for _, t := range c.Tasks {
		c.TClass[t.ID] = r.Next()
	}
	r.List(func() {
		t := []evict.Plug{}
		r.List(func() { t = append(t, evict.Plug{Kind: r.Next(), Pre: r.Bool(), Rec: r.Bool()}) })
		c.Tiers = append(c.Tiers, t)
	})
	c.Actions = r.Ints()
	r.List(func() { c.Faults = append(c.Faults, [2]int64{r.Next(), r.Next()}) })
	return c
}

func runEvictCycle(in []int64) ([]int64, []int64) {
	spec := decEvictCase(in)
	w := evict.NewWorld(spec)
	got := encNodes(w.Ssn)
	runActionList(w, spec.Actions)
	// law input: eps, node specs, task specs, and per node the copies it holds now (id, status)
	lin := []int64{sched.EpsUnits, int64(len(spec.Nodes))}
	for _, n := range spec.Nodes {
		lin = append(lin, n.ID, vh.B(n.Has), n.CPU, n.Mem, n.Pods, n.GPU)
	}
	lin = append(lin, int64(len(spec.Tasks)))
	for _, t := range spec.Tasks {
		lin = append(lin, t.ID, t.Job, t.Role, t.Prio, t.CPU, t.Mem, t.GPU, t.Status, t.Node, vh.B(t.Preemptable))
	}
	nids := sched.SortedIDs(w.Ssn.Nodes, func(n string) int64 { return sched.ParseID(n) })
	lin = append(lin, int64(len(nids)))
	for _, n := range nids {
		ni := w.Ssn.Nodes[sched.NodeName(n)]
		tids := sched.SortedIDs(ni.Tasks, func(u api.TaskID) int64 { return sched.ParseID(string(u)) })
		byID := map[int64]*api.TaskInfo{}
		for k, t := range ni.Tasks {
			byID[sched.ParseID(string(k))] = t
		}
		lin = append(lin, n, int64(len(tids)))
		for _, id := range tids {
			lin = append(lin, id, sched.StatusKey(byID[id].Status))
		}
	}
	lastEvictLaw = lin
	return encEvictCase(spec), got
}

func evictLaws(law func(lsel int, lin []int64, sig string)) {
	law(114, lastEvictLaw, "")
}

// stagedEvictSpec: one nearly full node holding several evictable victims of a low-priority running
// job (and possibly terminating pods), and a starving high-priority job with several pending tasks
// that all have to find room on it -- in another queue (reclaim) or the same one (preempt).
func stagedEvictSpec(r *vh.Rng) evict.Spec {
	spec := evict.Spec{PGPhase: map[int64]int64{}, JPrio: map[int64]int64{}, JSys: map[int64]bool{}, TClass: map[int64]int64{}, QRecl: map[int64]int64{}}
	spec.Actions = vh.Pick(r, [][]int64{{2}, {2}, {1}, {1}, {3, 2}, {3, 1}, {2, 1}, {1, 2}, {3, 1, 2}, {2, 3}, {1, 3}, {4, 2}, {3, 2, 1, 4}})
	sameQueue := spec.Actions[0] == 1 || (spec.Actions[0] == 3 && len(spec.Actions) > 1 && spec.Actions[1] == 1)
	spec.Queues = []sched.QueueSpec{{ID: 1, Open: true, Weight: 1}, {ID: 2, Open: true, Weight: int64(r.Range(1, 3))}}
	spec.QRecl[1] = vh.Pick(r, []int64{0, 1, 1})
	spec.QRecl[2] = 1
	nn := r.Range(1, 2)
	tid := int64(0)
	type used struct{ cpu, mem, pods int64 }
	room := map[int64]*used{}
	for i := 1; i <= nn; i++ {
		room[int64(i)] = &used{}
	}
	// job 1: the victims
	nv := r.Range(2, 5)
	j1 := sched.JobSpec{ID: 1, Queue: 1, Min: int64(r.Range(0, 1))}
	spec.JPrio[1] = 0
	for k := 0; k < nv; k++ {
		tid++
		ts := sched.TaskSpec{ID: tid, Job: 1, Role: 1, Preemptable: !r.Chance(1, 8), Status: sched.SRunning, Node: 1,
			CPU: int64(r.Range(2, 6)) * 500, Mem: int64(r.Range(1, 4)) << 20}
		if nn > 1 && r.Chance(1, 4) {
			ts.Node = 2
		}
		if r.Chance(1, 10) {
			ts.Status = sched.SBound
		}
		f := room[ts.Node]
		f.cpu += ts.CPU
		f.mem += ts.Mem
		f.pods++
		spec.Tasks = append(spec.Tasks, ts)
	}
	spec.Jobs = append(spec.Jobs, j1)
	spec.PGPhase[1] = 3
	// job 3: terminating pods (their room is already on its way back)
	if r.Chance(1, 2) {
		spec.Jobs = append(spec.Jobs, sched.JobSpec{ID: 3, Queue: 1, Min: 0})
		spec.PGPhase[3] = 3
		spec.JPrio[3] = 0
		for k := 0; k < r.Range(1, 2); k++ {
			tid++
			ts := sched.TaskSpec{ID: tid, Job: 3, Role: 1, Preemptable: true, Status: sched.SReleasing, Node: int64(r.Range(1, nn)),
				CPU: int64(r.Range(1, 4)) * 500, Mem: int64(r.Range(1, 2)) << 20}
			f := room[ts.Node]
			f.cpu += ts.CPU
			f.mem += ts.Mem
			f.pods++
			spec.Tasks = append(spec.Tasks, ts)
		}
	}
	// job 2: the starving one
	np := r.Range(2, 4)
	j2 := sched.JobSpec{ID: 2, Queue: 2}
	if sameQueue {
		j2.Queue = 1
	}
	spec.JPrio[2] = int64(r.Range(1, 3))
	for k := 0; k < np; k++ {
		tid++
		spec.Tasks = append(spec.Tasks, sched.TaskSpec{ID: tid, Job: 2, Role: 1, Prio: int64(r.Range(0, 2)), Preemptable: true, Status: sched.SPending,
			CPU: int64(r.Range(2, 5)) * 500, Mem: int64(r.Range(1, 3)) << 20})
	}
	j2.Min = int64(r.Range(1, np))
	spec.Jobs = append(spec.Jobs, j2)
	spec.PGPhase[2] = vh.Pick(r, []int64{2, 2, 3})
	for i := 1; i <= nn; i++ {
		f := room[int64(i)]
		ns := sched.NodeSpec{ID: int64(i), Has: true, CPU: f.cpu + vh.Pick(r, []int64{0, 0, 250, 500}), Mem: f.mem + vh.Pick(r, []int64{0, 1 << 20, 16 << 20}),
			Pods: f.pods + int64(r.Range(2, 6))}
		if ns.CPU == 0 {
			ns.CPU = 1000
		}
		if ns.Mem == 0 {
			ns.Mem = 4 << 20
		}
		spec.Nodes = append(spec.Nodes, ns)
	}
	spec.Tiers = vh.Pick(r, [][][]evict.Plug{
		{{{Kind: evict.KGang, Pre: true, Rec: true}}},
		{{{Kind: evict.KConf, Pre: true, Rec: true}, {Kind: evict.KGang, Pre: true, Rec: true}, {Kind: evict.KPrio, Pre: true, Rec: true}}},
		{{{Kind: evict.KPrio, Pre: true, Rec: true}, {Kind: evict.KGang, Pre: true, Rec: true}}, {{Kind: evict.KProp, Pre: true, Rec: true}}},
		{{{Kind: evict.KGang, Pre: true, Rec: true}, {Kind: evict.KProp, Pre: true, Rec: true}}},
	})
	return spec
}

// topoPreemptSpec (directed family topopreempt/*): ONE node that keeps some idle room and holds k
// equal running victims of a low-priority job; a starving high-priority gang of the same queue
// with two preemptors tried in one session (pod priority order): A = 2 victims' worth -- it is
// pipelined partly onto the idle room, so that Pipelined > Releasing on the node afterwards -- and B,
// larger than one victim: it needs two further victims.  SelectVictimsOnNode removes potential
// victims until the preemptor fits FutureIdle, then puts them back one by one ("reprieve") while
// it still fits; topologyAwarePreempt evicts the rest and pipelines WITHOUT a re-check.  Victims are
// equal, there is one node: the outcome does not depend on the order in which victims are popped.
func topoPreemptSpec(r *vh.Rng, variant int) evict.Spec {
	spec := evict.Spec{PGPhase: map[int64]int64{}, JPrio: map[int64]int64{}, JSys: map[int64]bool{}, TClass: map[int64]int64{}, QRecl: map[int64]int64{}}
	spec.Actions = []int64{5}
	if variant%4 == 3 {
		spec.Actions = []int64{3, 5}
	}
	spec.Queues = []sched.QueueSpec{{ID: 1, Open: true, Weight: 1}}
	s := int64(vh.Pick(r, []int64{1000, 1500, 2000}))
	k := int64(r.Range(3, 4))
	idle := s
	if variant%4 == 1 {
		idle = s + 500 // some more room: A still needs one victim, B still two
	}
	spec.Nodes = []sched.NodeSpec{{ID: 1, Has: true, CPU: k*s + idle, Mem: 64 << 20, Pods: 30}}
	tid := int64(0)
	for i := int64(0); i < k; i++ {
		tid++
		spec.Tasks = append(spec.Tasks, sched.TaskSpec{ID: tid, Job: 1, Role: 1, CPU: s, Mem: 1 << 20, Status: sched.SRunning, Node: 1, Preemptable: true})
	}
	spec.Jobs = append(spec.Jobs, sched.JobSpec{ID: 1, Queue: 1, Min: 0})
	spec.PGPhase[1] = 3
	spec.JPrio[1] = 0
	a := 2 * s
	bsz := s + 500*int64(r.Range(1, int(s/500)))
	if variant%4 == 2 {
		bsz = 2 * s
	}
	tid++
	spec.Tasks = append(spec.Tasks, sched.TaskSpec{ID: tid, Job: 2, Role: 1, Prio: 2, CPU: a, Mem: 1 << 20, Status: sched.SPending, Preemptable: true})
	tid++
	spec.Tasks = append(spec.Tasks, sched.TaskSpec{ID: tid, Job: 2, Role: 1, Prio: 1, CPU: bsz, Mem: 1 << 20, Status: sched.SPending, Preemptable: true})
	spec.Jobs = append(spec.Jobs, sched.JobSpec{ID: 2, Queue: 1, Min: 2})
	spec.PGPhase[2] = 2
	spec.JPrio[2] = 3
	spec.Tiers = [][]evict.Plug{{{Kind: evict.KPrio, Pre: true, Rec: true}, {Kind: evict.KGang, Pre: true, Rec: true}, {Kind: evict.KConf, Pre: true, Rec: true}}}
	return spec
}

func genTopoPreempt(rng *vh.Rng, n int, emit func(id string, sel int, in []int64, kind string, nontrivial bool, desc any)) {
	names := []string{"idle=victim", "idle>victim", "b=two-victims", "after-allocate"}
	for i := 0; i < n; i++ {
		spec := topoPreemptSpec(rng.Fork(), i)
		emit(fmt.Sprintf("topopreempt-%d", i), 4, encEvictCase(spec), fmt.Sprintf("topopreempt/%s/actions=%v", names[i%4], spec.Actions), true,
			map[string]any{"directed": "topology-aware preempt: two preemptors of one gang on one node: " + names[i%4], "tasks": len(spec.Tasks)})
	}
}

func genEvict(rng *vh.Rng, n int, emit func(id string, sel int, in []int64, kind string, nontrivial bool, desc any)) {
	genTopoPreempt(rng.Fork(), max(8, n/25), emit)
	k := n/2 + 1
	for i := 0; i < k; i++ {
		r := rng.Fork()
		var spec evict.Spec
		staged := r.Chance(2, 3)
		if staged {
			spec = stagedEvictSpec(r)
		} else {
			spec = evict.GenSpec(r)
			spec.Actions = vh.Pick(r, [][]int64{{1}, {2}, {1, 2}, {2, 1}, {3, 1}, {3, 2}, {3, 1, 2}, {1, 3}, {2, 3, 1}, {4, 1, 2}})
			// a refused eviction at Commit un-evicts the victim under the pipelined preemptor: the
			// documented limit of the theorem (commit_refused_eviction_refuted); refusals are C07's
			spec.Refuse = nil
		}
		pend, victims := 0, 0
		for _, t := range spec.Tasks {
			if t.Status == sched.SPending {
				pend++
			}
			if t.Status == sched.SRunning && t.Preemptable {
				victims++
			}
		}
		kind := fmt.Sprintf("evict/staged=%v/actions=%v", staged, spec.Actions)
		desc := map[string]any{"nodes": len(spec.Nodes), "jobs": len(spec.Jobs), "tasks": len(spec.Tasks), "pending": pend, "evictable": victims, "tiers": spec.Tiers}
		emit(fmt.Sprintf("evict-%d", i), 4, encEvictCase(spec), kind, pend >= 2 && victims >= 2, desc)
	}
}
