package main

import (
	"fmt"
	"sort"
	"strings"
	"sync"

	"volcano.sh/volcano/pkg/scheduler/api"
	"volcano.sh/volcano/pkg/scheduler/cache"
	"volcano.sh/volcano/pkg/scheduler/util"

	"verif/harness/internal/sched"
	"verif/harness/internal/vh"
)

// bindCase is the token-encoded input of the bind admission streams (model: C02/Entry.v dBindCase).
type bindCase struct {
	Nodes   []sched.NodeSpec
	Jobs    []sched.JobSpec
	Tasks   []sched.TaskSpec
	Workers int64
	Exact   bool       // true: the harness serialises the calls itself and compares the exact error class
	Calls   [][3]int64 // (job, task, node) named by the BindContext
}

func (b bindCase) enc() []int64 {
	out := []int64{sched.EpsUnits, int64(len(b.Nodes))}
	for _, n := range b.Nodes {
		out = append(out, n.ID, vh.B(n.Has), n.CPU, n.Mem, n.Pods, n.GPU)
	}
	out = append(out, int64(len(b.Jobs)))
	for _, j := range b.Jobs {
		out = append(out, j.ID, j.Queue, j.Min, 0)
	}
	out = append(out, int64(len(b.Tasks)))
	for _, t := range b.Tasks {
		out = append(out, t.ID, t.Job, t.Role, t.Prio, t.CPU, t.Mem, t.GPU, t.Status, t.Node, vh.B(t.Preemptable))
	}
	out = append(out, b.Workers, vh.B(b.Exact), int64(len(b.Calls)))
	for _, c := range b.Calls {
		out = append(out, c[0], c[1], c[2])
	}
	return out
}

func decBind(in []int64) bindCase {
	r := &sched.Tok{T: in}
	var b bindCase
	_ = r.Next() // eps
	r.List(func() {
		b.Nodes = append(b.Nodes, sched.NodeSpec{ID: r.Next(), Has: r.Bool(), CPU: r.Next(), Mem: r.Next(), Pods: r.Next(), GPU: r.Next()})
	})
	r.List(func() {
		j := sched.JobSpec{ID: r.Next(), Queue: r.Next(), Min: r.Next()}
		r.List(func() { j.RoleMin = append(j.RoleMin, [2]int64{r.Next(), r.Next()}) })
		b.Jobs = append(b.Jobs, j)
	})
	r.List(func() {
		b.Tasks = append(b.Tasks, sched.TaskSpec{ID: r.Next(), Job: r.Next(), Role: r.Next(), Prio: r.Next(), CPU: r.Next(), Mem: r.Next(),
			GPU: r.Next(), Status: r.Next(), Node: r.Next(), Preemptable: r.Bool()})
	})
	b.Workers = r.Next()
	b.Exact = r.Bool()
	r.List(func() { b.Calls = append(b.Calls, [3]int64{r.Next(), r.Next(), r.Next()}) })
	if b.Workers < 1 {
		b.Workers = 1
	}
	return b
}

func errClass(err error) int64 {
	if err == nil {
		return 0
	}
	s := err.Error()
	switch {
	case strings.Contains(s, "failed to find Job"):
		return 1
	case strings.Contains(s, "failed to find task"):
		return 2
	case strings.Contains(s, "host does not exist"):
		return 3
	case strings.Contains(s, "resource decision failed"):
		return 4
	case strings.Contains(s, "already on different node"):
		return 5
	case strings.Contains(s, "already on node"):
		return 6
	case strings.Contains(s, "are not enough"):
		return 7
	}
	panic("AddBindTask returned an error the model has no class for: " + s)
}

// runConcurrent distributes the calls over the workers (call i belongs to worker i mod G, each
// worker issues its calls in order) and returns the order in which the cache serialised them
// together with each call's error.  exact: a wrapper mutex around each call gives the order of
// all calls; otherwise the callers run free, the accepted calls are ordered by the cache's own
// BindFlowChannel (the send happens inside sc.Mutex) and the refused ones -- which change
// nothing -- are appended after them.
func runConcurrent(n int, workers int, exact bool, call func(i int) error, acceptedOrder func() []int) ([]int, []error) {
	errs := make([]error, n)
	var order []int
	var mu sync.Mutex
	var wg sync.WaitGroup
	start := make(chan struct{})
	for g := 0; g < workers; g++ {
		wg.Add(1)
		go func(g int) {
			defer wg.Done()
			<-start
			for i := g; i < n; i += workers {
				if exact {
					mu.Lock()
					errs[i] = call(i)
					order = append(order, i)
					mu.Unlock()
				} else {
					errs[i] = call(i)
				}
			}
		}(g)
	}
	close(start)
	wg.Wait()
	if exact {
		return order, errs
	}
	order = acceptedOrder()
	seen := map[int]bool{}
	for _, i := range order {
		if errs[i] != nil {
			panic(fmt.Sprintf("call %d is on BindFlowChannel but AddBindTask returned %v", i, errs[i]))
		}
		seen[i] = true
	}
	for i := 0; i < n; i++ {
		if !seen[i] {
			if errs[i] == nil {
				panic(fmt.Sprintf("call %d was accepted but never reached BindFlowChannel", i))
			}
			order = append(order, i)
		}
	}
	return order, errs
}

func unknownTask(jid, tid int64) *api.TaskInfo {
	return api.NewTaskInfo(sched.TaskSpec{ID: tid, Job: jid, Role: 1, CPU: 100, Status: sched.SPending}.Pod())
}

// runBind: selector 2.
func runBind(in []int64) ([]int64, []int64) {
	b := decBind(in)
	sc := cache.NewCustomMockSchedulerCache("volcano", util.NewFakeBinder(0), util.NewFakeEvictor(0), &util.FakeStatusUpdater{}, nil, nil)
	for _, n := range b.Nodes {
		if err := sc.AddOrUpdateNode(n.Object()); err != nil {
			panic(err)
		}
	}
	tasks := append([]sched.TaskSpec{}, b.Tasks...)
	sort.Slice(tasks, func(i, j int) bool { return tasks[i].ID < tasks[j].ID })
	for _, t := range tasks {
		sc.AddPod(t.Pod())
	}
	// every worker decides on its own snapshot, taken before any bind: clones of the cache's tasks
	snap := map[int64]*api.TaskInfo{}
	for _, j := range sc.Jobs {
		for _, t := range j.Tasks {
			snap[sched.ParseID(string(t.UID))] = t.Clone()
		}
	}
	ctxs := make([]*cache.BindContext, len(b.Calls))
	index := map[*cache.BindContext]int{}
	for i, c := range b.Calls {
		var ti *api.TaskInfo
		if s, ok := snap[c[1]]; ok {
			ti = s.Clone()
		} else {
			ti = unknownTask(c[0], c[1])
		}
		ti.Job = sched.JobID(c[0])
		ti.NodeName = sched.NodeName(c[2])
		ctxs[i] = &cache.BindContext{TaskInfo: ti, Extensions: map[string]cache.BindContextExtension{}}
		index[ctxs[i]] = i
	}
	order, errs := runConcurrent(len(b.Calls), int(b.Workers), b.Exact,
		func(i int) error { return sc.AddBindTask(ctxs[i]) },
		func() []int {
			out := []int{}
			for len(sc.BindFlowChannel) > 0 {
				out = append(out, index[<-sc.BindFlowChannel])
			}
			return out
		})
	for len(sc.BindFlowChannel) > 0 {
		<-sc.BindFlowChannel
	}
	replay := b
	replay.Calls = nil
	got := []int64{int64(len(order))}
	for _, i := range order {
		replay.Calls = append(replay.Calls, b.Calls[i])
		cls := errClass(errs[i])
		if !b.Exact && cls != 0 {
			cls = 1
		}
		got = append(got, cls)
	}
	got = append(got, -110)
	all := map[int64]*api.TaskInfo{}
	for _, j := range sc.Jobs {
		for _, t := range j.Tasks {
			all[sched.ParseID(string(t.UID))] = t
		}
	}
	ids := sched.SortedIDs(all, func(k int64) int64 { return k })
	got = append(got, int64(len(ids)))
	for _, id := range ids {
		got = append(got, sched.EncTaskBrief(all[id])...)
	}
	got = append(got, -111)
	jids := sched.SortedIDs(sc.Jobs, func(u api.JobID) int64 { return sched.ParseID(string(u)[3:]) })
	got = append(got, int64(len(jids)))
	for _, j := range jids {
		got = append(got, sched.EncJob(sc.Jobs[sched.JobID(j)])...)
	}
	got = append(got, -112)
	nids := sched.SortedIDs(sc.Nodes, func(n string) int64 { return sched.ParseID(n) })
	got = append(got, int64(len(nids)))
	held := []int64{int64(len(nids))}
	for _, n := range nids {
		ni := sc.Nodes[sched.NodeName(n)]
		got = append(got, sched.EncNode(ni, n)...)
		tids := sched.SortedIDs(ni.Tasks, func(u api.TaskID) int64 { return sched.ParseID(string(u)) })
		held = append(held, n, int64(len(tids)))
		held = append(held, tids...)
	}
	lastHeld = held
	return replay.enc(), got
}

// what the nodes hold after the calls, read from the real cache (law 112 input)
var lastHeld []int64

func bindLaws(in []int64, law func(lsel int, lin []int64, sig string)) {
	lin := append([]int64{}, in...)
	lin = append(lin, lastHeld...)
	law(112, lin, "")
}

// ---------- generator ----------

func genBindCase(r *vh.Rng) (bindCase, bool) {
	var b bindCase
	nn := r.Range(1, 3)
	type free struct{ cpu, mem, pods, gpu int64 }
	room := map[int64]*free{}
	for i := 1; i <= nn; i++ {
		ns := sched.NodeSpec{ID: int64(i), Has: true, CPU: int64(r.Range(2, 8)) * 500, Mem: int64(r.Range(4, 16)) << 20, Pods: int64(r.Range(4, 12))}
		if r.Chance(1, 2) {
			ns.GPU = int64(r.Range(1, 3))
		}
		b.Nodes = append(b.Nodes, ns)
		room[ns.ID] = &free{ns.CPU, ns.Mem, ns.Pods, ns.GPU}
	}
	nj := r.Range(1, 3)
	tid := int64(0)
	// tasks already on the nodes: fill them up to a random level, often nearly full
	for _, n := range b.Nodes {
		f := room[n.ID]
		k := r.Range(0, 3)
		for i := 0; i < k; i++ {
			ts := sched.TaskSpec{Job: int64(r.Range(1, nj)), Role: 1, CPU: int64(r.Range(1, 6)) * 250, Mem: int64(r.Range(1, 6)) << 19,
				Status: vh.Pick(r, []int64{sched.SRunning, sched.SRunning, sched.SBound, sched.SReleasing}), Node: n.ID}
			if f.gpu > 0 && r.Chance(1, 3) {
				ts.GPU = 1
			}
			if f.cpu < ts.CPU || f.mem < ts.Mem || f.pods < 1 || f.gpu < ts.GPU {
				continue
			}
			f.cpu -= ts.CPU
			f.mem -= ts.Mem
			f.pods--
			f.gpu -= ts.GPU
			tid++
			ts.ID = tid
			b.Tasks = append(b.Tasks, ts)
		}
	}
	// pending tasks the workers will try to bind
	var pending []sched.TaskSpec
	np := r.Range(2, 8)
	for i := 0; i < np; i++ {
		tid++
		ts := sched.TaskSpec{ID: tid, Job: int64(r.Range(1, nj)), Role: 1, Status: sched.SPending}
		switch r.Intn(8) {
		case 0: // best effort
		case 1:
			ts.CPU = int64(r.Range(1, 4)) * 250
		default:
			ts.CPU = int64(r.Range(1, 8)) * 250
			ts.Mem = int64(r.Range(1, 8)) << 19
			if r.Chance(1, 3) {
				ts.GPU = int64(r.Range(1, 2)) // also asked of nodes that have no such scalar
			}
		}
		b.Tasks = append(b.Tasks, ts)
		pending = append(pending, ts)
	}
	// the cache creates a job when it first sees one of its pods: list exactly the jobs in use
	used := map[int64]bool{}
	for _, t := range b.Tasks {
		used[t.Job] = true
	}
	for j := 1; j <= nj; j++ {
		if used[int64(j)] {
			b.Jobs = append(b.Jobs, sched.JobSpec{ID: int64(j), Queue: 1, Min: 0})
		}
	}
	b.Workers = int64(r.Range(1, 6))
	b.Exact = r.Chance(1, 2)
	m := r.Range(1, 4)
	asked := map[int64]map[int64]bool{}
	for i := 0; i < int(b.Workers)*m; i++ {
		t := vh.Pick(r, pending)
		c := [3]int64{t.Job, t.ID, int64(r.Range(1, nn))}
		switch r.Intn(20) {
		case 0:
			c[1] = 90 + int64(r.Intn(3)) // a task the cache has never seen
		case 1:
			c[2] = 9 // unknown node
		case 2:
			c[0] = int64(r.Range(1, nj+1)) // possibly the wrong / an unknown job
		case 3:
			if len(b.Tasks) > len(pending) {
				t2 := b.Tasks[r.Intn(len(b.Tasks)-len(pending))] // a task that is already on a node
				c[0], c[1] = t2.Job, t2.ID
			}
		}
		b.Calls = append(b.Calls, c)
		if asked[c[2]] == nil {
			asked[c[2]] = map[int64]bool{}
		}
		asked[c[2]][c[1]] = true
	}
	// non-trivial: >= 2 workers, >= 3 calls, and on some node the distinct tasks aimed at it ask
	// for more cpu than it has free (so that a missing re-check would overcommit it)
	contended := false
	byID := map[int64]sched.TaskSpec{}
	for _, t := range b.Tasks {
		byID[t.ID] = t
	}
	for nid, ts := range asked {
		f, ok := room[nid]
		if !ok {
			continue
		}
		sum := int64(0)
		for id := range ts {
			sum += byID[id].CPU
		}
		if sum > f.cpu {
			contended = true
		}
	}
	return b, b.Workers >= 2 && len(b.Calls) >= 3 && contended
}

func genBind(rng *vh.Rng, n int, emit func(id string, sel int, in []int64, kind string, nontrivial bool, desc any)) {
	k := n/2 + 1
	for i := 0; i < k; i++ {
		r := rng.Fork()
		b, nt := genBindCase(r)
		kind := fmt.Sprintf("bind/cache/exact=%v", b.Exact)
		desc := map[string]any{"nodes": len(b.Nodes), "tasks": len(b.Tasks), "workers": b.Workers, "calls": len(b.Calls)}
		emit(fmt.Sprintf("bind-%d", i), 2, b.enc(), kind, nt, desc)
	}
}
