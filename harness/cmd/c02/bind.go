package main

import (
	"fmt"
	metav1 "k8s.io/apimachinery/pkg/apis/meta/v1"
	"sort"
	"strings"
	"sync"

	v1 "k8s.io/api/core/v1"
	"k8s.io/apimachinery/pkg/api/resource"
	resourcehelper "k8s.io/component-helpers/resource"

	"volcano.sh/volcano/pkg/scheduler/api"
	"volcano.sh/volcano/pkg/scheduler/cache"
	"volcano.sh/volcano/pkg/scheduler/util"

	"verif/harness/internal/sched"
	"verif/harness/internal/vh"
)

// bindCase is the token-encoded input of the bind admission streams (model: C02/Entry.v dBindCase).
type bindCase struct {
	Nodes   []sched.NodeSpec
	Jobs    []sched.JobSpec
	Tasks   []sched.TaskSpec
	Workers int64
	Exact   bool   // true: the harness serialises the calls itself and compares the exact error class
	Items   []item // the history: AddBindTask calls and the cache events delivered in between
}

// item kinds (model: C02/Entry.v dBindReq)
const (
	itBind        = 0  // Bind = (job, task, node) named by the BindContext
	itNode        = 1  // node add / update event with this object
	itTerminating = 2  // pod update: deletionTimestamp set
	itDelete      = 3  // pod deleted
	itPodAdd      = 4  // a pod arrives (possibly before its node)
	itUnbound     = 5  // pod update / resync whose object still has no nodeName (Flag: same resourceVersion)
	itRemoveNode  = 7  // node deleted (Task = node id)
	itFlow        = 9  // agent stream: execute the queued binds (pre-binders, Binder.Bind); Fails = tasks whose PreBind fails
	itTermUnbound = 8  // pod update that carries a deletionTimestamp while the object still has no nodeName (Task = pod)
	itBatch       = 10 // agent stream: execute the queued binds as ONE batch (BATCH_BIND_NUM > 1); Fails = tasks whose PreBind fails, BindFails = tasks whose Binding the binder reports failed
	itBound       = 6  // the update that shows the pod bound to the node the cache bound it to (delivered only if the cache holds it as Binding)
)

type item struct {
	Kind      int64
	Bind      [3]int64
	Node      sched.NodeSpec
	Task      int64
	Pod       sched.TaskSpec
	Flag      bool
	Fails     []int64
	BindFails []int64
}

func (b bindCase) hasEvents() bool {
	for _, it := range b.Items {
		if it.Kind != itBind {
			return true
		}
	}
	return false
}

func (b bindCase) enc() []int64 {
	out := []int64{sched.EpsUnits, int64(len(b.Nodes))}
	for _, n := range b.Nodes {
		out = append(out, n.ID, vh.B(n.Has), n.CPU, n.Mem, n.Pods, n.GPU)
	}
	out = append(out, int64(len(b.Jobs)))
	for _, j := range b.Jobs {
		out = append(out, j.ID, j.Queue, j.Min, 0)
	}
	out = append(out, int64(len(b.Tasks)))
	for _, t := range b.Tasks {
		out = append(out, t.ID, t.Job, t.Role, t.Prio, t.CPU, t.Mem, t.GPU, t.Status, t.Node, vh.B(t.Preemptable))
	}
	out = append(out, b.Workers, vh.B(b.Exact), int64(len(b.Items)))
	for _, it := range b.Items {
		out = append(out, it.Kind)
		switch it.Kind {
		case itBind:
			out = append(out, it.Bind[0], it.Bind[1], it.Bind[2])
		case itNode:
			n := it.Node
			out = append(out, n.ID, vh.B(n.Has), n.CPU, n.Mem, n.Pods, n.GPU)
		case itTerminating, itDelete, itBound, itRemoveNode, itTermUnbound:
			out = append(out, it.Task)
		case itUnbound:
			out = append(out, it.Task, vh.B(it.Flag))
		case itFlow:
			out = append(out, int64(len(it.Fails)))
			out = append(out, it.Fails...)
		case itBatch:
			out = append(out, int64(len(it.Fails)))
			out = append(out, it.Fails...)
			out = append(out, int64(len(it.BindFails)))
			out = append(out, it.BindFails...)
		case itPodAdd:
			t := it.Pod
			out = append(out, sched.EpsUnits, t.ID, t.Job, t.Role, t.Prio, t.CPU, t.Mem, t.GPU, t.Status, t.Node, vh.B(t.Preemptable))
		}
	}
	return out
}

func decBind(in []int64) bindCase {
	r := &sched.Tok{T: in}
	var b bindCase
	_ = r.Next() // eps
	r.List(func() {
		b.Nodes = append(b.Nodes, sched.NodeSpec{ID: r.Next(), Has: r.Bool(), CPU: r.Next(), Mem: r.Next(), Pods: r.Next(), GPU: r.Next()})
	})
	r.List(func() {
		j := sched.JobSpec{ID: r.Next(), Queue: r.Next(), Min: r.Next()}
		r.List(func() { j.RoleMin = append(j.RoleMin, [2]int64{r.Next(), r.Next()}) })
		b.Jobs = append(b.Jobs, j)
	})
	r.List(func() {
		b.Tasks = append(b.Tasks, sched.TaskSpec{ID: r.Next(), Job: r.Next(), Role: r.Next(), Prio: r.Next(), CPU: r.Next(), Mem: r.Next(),
			GPU: r.Next(), Status: r.Next(), Node: r.Next(), Preemptable: r.Bool()})
	})
	b.Workers = r.Next()
	b.Exact = r.Bool()
	r.List(func() {
		it := item{Kind: r.Next()}
		switch it.Kind {
		case itBind:
			it.Bind = [3]int64{r.Next(), r.Next(), r.Next()}
		case itNode:
			it.Node = sched.NodeSpec{ID: r.Next(), Has: r.Bool(), CPU: r.Next(), Mem: r.Next(), Pods: r.Next(), GPU: r.Next()}
		case itTerminating, itDelete, itBound, itRemoveNode, itTermUnbound:
			it.Task = r.Next()
		case itUnbound:
			it.Task = r.Next()
			it.Flag = r.Bool()
		case itFlow:
			it.Fails = r.Ints()
		case itBatch:
			it.Fails = r.Ints()
			it.BindFails = r.Ints()
		case itPodAdd:
			_ = r.Next()
			it.Pod = sched.TaskSpec{ID: r.Next(), Job: r.Next(), Role: r.Next(), Prio: r.Next(), CPU: r.Next(), Mem: r.Next(),
				GPU: r.Next(), Status: r.Next(), Node: r.Next(), Preemptable: r.Bool()}
		default:
			panic("unknown item kind")
		}
		b.Items = append(b.Items, it)
	})
	if b.hasEvents() {
		b.Exact = true // the position of an event among the calls is only known when the harness serialises
	}
	if b.Workers < 1 {
		b.Workers = 1
	}
	return b
}

func errClass(err error) int64 {
	if err == nil {
		return 0
	}
	s := err.Error()
	switch {
	case strings.Contains(s, "failed to find Job"):
		return 1
	case strings.Contains(s, "failed to find task"):
		return 2
	case strings.Contains(s, "host does not exist"):
		return 3
	case strings.Contains(s, "resource decision failed"):
		return 4
	case strings.Contains(s, "already on different node"):
		return 5
	case strings.Contains(s, "already on node"):
		return 6
	case strings.Contains(s, "are not enough"):
		return 7
	case strings.Contains(s, "host is not ready in the cache"):
		return 8
	}
	panic("AddBindTask returned an error the model has no class for: " + s)
}

// runConcurrent distributes the calls over the workers (call i belongs to worker i mod G, each
// worker issues its calls in order) and returns the order in which the cache serialised them
// together with each call's error.  exact: a wrapper mutex around each call gives the order of
// all calls; otherwise the callers run free, the accepted calls are ordered by the cache's own
// BindFlowChannel (the send happens inside sc.Mutex) and the refused ones -- which change
// nothing -- are appended after them.
func runConcurrent(n int, workers int, exact bool, call func(i int) error, acceptedOrder func() []int, barrier func(i int) bool) ([]int, []error) {
	errs := make([]error, n)
	var order []int
	var mu sync.Mutex
	var wg sync.WaitGroup
	start := make(chan struct{})
	// cache events are barriers: an event starts when everything before it in the history is done,
	// and nothing after it starts before it is done; the calls between two events run freely.
	var gate sync.Mutex
	cond := sync.NewCond(&gate)
	done := make([]bool, n)
	canStart := func(i int) bool {
		for j := 0; j < i; j++ {
			if !done[j] && (barrier(i) || barrier(j)) {
				return false
			}
		}
		return true
	}
	for g := 0; g < workers; g++ {
		wg.Add(1)
		go func(g int) {
			defer wg.Done()
			<-start
			for i := g; i < n; i += workers {
				gate.Lock()
				for !canStart(i) {
					cond.Wait()
				}
				gate.Unlock()
				if exact {
					mu.Lock()
					errs[i] = call(i)
					order = append(order, i)
					mu.Unlock()
				} else {
					errs[i] = call(i)
				}
				gate.Lock()
				done[i] = true
				cond.Broadcast()
				gate.Unlock()
			}
		}(g)
	}
	close(start)
	wg.Wait()
	if exact {
		return order, errs
	}
	order = acceptedOrder()
	seen := map[int]bool{}
	for _, i := range order {
		if errs[i] != nil {
			panic(fmt.Sprintf("call %d is on BindFlowChannel but AddBindTask returned %v", i, errs[i]))
		}
		seen[i] = true
	}
	for i := 0; i < n; i++ {
		if !seen[i] {
			if errs[i] == nil {
				panic(fmt.Sprintf("call %d was accepted but never reached BindFlowChannel", i))
			}
			order = append(order, i)
		}
	}
	return order, errs
}

func unknownTask(jid, tid int64) *api.TaskInfo {
	return api.NewTaskInfo(sched.TaskSpec{ID: tid, Job: jid, Role: 1, CPU: 100, Status: sched.SPending}.Pod())
}

// nodeObject: the node object of an event; the revision label changes with every delivery so that
// an update with the same allocatable is still a different object.
var nodeRev int

func nodeObject(n sched.NodeSpec) *v1.Node {
	o := n.Object()
	nodeRev++
	o.Labels = map[string]string{"verif/rev": fmt.Sprint(nodeRev)}
	o.Annotations = map[string]string{"verif/note": fmt.Sprint(nodeRev % 3)}
	return o
}

// terminatingPod: the pod of the spec with a deletionTimestamp (Running + terminating = Releasing)
func terminatingPod(t sched.TaskSpec) *v1.Pod {
	t.Status = sched.SReleasing
	return t.Pod()
}

// touchedPod: a copy of the pod with a label, an annotation and a status condition changed; with a
// new resourceVersion (a real update) or the same one (informer resync)
var podRev int

func touchedPod(old *v1.Pod, newVersion bool) *v1.Pod {
	p := old.DeepCopy()
	podRev++
	if p.Labels == nil {
		p.Labels = map[string]string{}
	}
	p.Labels["verif/touch"] = fmt.Sprint(podRev)
	p.Annotations["verif/touch"] = fmt.Sprint(podRev)
	p.Status.Conditions = append(p.Status.Conditions, v1.PodCondition{Type: v1.PodConditionType(fmt.Sprintf("verif/c%d", podRev)), Status: v1.ConditionTrue})
	if newVersion {
		p.ResourceVersion = fmt.Sprint(1000 + podRev)
	}
	return p
}

// reservedBy: an accepted AddBindTask reserves the pod's request on its target node from then on,
// until the pod is deleted -- whatever the pod objects delivered so far say (a bind in flight is
// in no delivered pod object).  Law 112 counts these reservations together with what the node holds.
func reservedBy(b bindCase, order []int, errs []error) map[int64]int64 {
	res := map[int64]int64{}
	// the pods the case starts with on a node are there -- running or terminating -- until their own
	// delete events: a cache that loses one of them (node removed and re-added) must not go unnoticed
	for _, t := range b.Tasks {
		if t.Node != 0 && t.Status != sched.SSucceeded && t.Status != sched.SFailed && t.Status != sched.SPending {
			res[t.ID] = t.Node
		}
	}
	for _, i := range order {
		it := b.Items[i]
		switch it.Kind {
		case itBind:
			if errs[i] == nil {
				res[it.Bind[1]] = it.Bind[2]
			}
		case itDelete:
			delete(res, it.Task)
		}
	}
	return res
}

func mergeHeld(nid int64, tids []int64, reserved map[int64]int64) []int64 {
	seen := map[int64]bool{}
	for _, t := range tids {
		seen[t] = true
	}
	out := append([]int64{}, tids...)
	for t, n := range reserved {
		if n == nid && !seen[t] {
			out = append(out, t)
		}
	}
	sort.Slice(out, func(i, j int) bool { return out[i] < out[j] })
	return out
}

// finalSpecs: what law 112 judges against -- the last delivered object of every node and every pod
// that was ever delivered.
func (b bindCase) finalSpecs() bindCase {
	out := bindCase{Jobs: b.Jobs, Workers: b.Workers, Exact: b.Exact}
	last := map[int64]sched.NodeSpec{}
	order := []int64{}
	for _, n := range b.Nodes {
		last[n.ID] = n
		order = append(order, n.ID)
	}
	out.Tasks = append(out.Tasks, b.Tasks...)
	for _, it := range b.Items {
		switch it.Kind {
		case itNode:
			if _, ok := last[it.Node.ID]; !ok {
				order = append(order, it.Node.ID)
			}
			last[it.Node.ID] = it.Node
		case itPodAdd:
			out.Tasks = append(out.Tasks, it.Pod)
		case itRemoveNode:
			delete(last, it.Task)
		}
	}
	seen := map[int64]bool{}
	for _, id := range order {
		if n, ok := last[id]; ok && !seen[id] {
			seen[id] = true
			out.Nodes = append(out.Nodes, n)
		}
	}
	return out
}

// Selector 6 (seeded mutant C02-r7-2): the same admission path on pods whose request is not what their
// regular containers ask: a scalar (the GPU) is requested ONLY by an init container while the regular
// container carries another scalar.  The case's spec carries the EFFECTIVE request, computed here with the
// upstream helper resourcehelper.PodRequests -- independently of TaskInfo.Resreq -- so that a Resreq
// that understates the pod shows up as overcommit in law 112.  Only the admission results are compared
// with the model (the node ledgers carry the extra scalar the model does not know).
const FooName = "example.com/foo"

func init() {
	// the dump encoders of internal/sched know scalars by number
	sched.ScalarKey[FooName] = 5
	sched.ScalarName[5] = FooName
}

func initPod(t sched.TaskSpec) *v1.Pod {
	pod := t.Pod()
	if t.GPU == 0 {
		return pod
	}
	main := pod.Spec.Containers[0].Resources.Requests
	delete(main, sched.GPUName)
	main[FooName] = *resource.NewQuantity(1, resource.DecimalSI)
	pod.Spec.InitContainers = []v1.Container{{Name: "init", Resources: v1.ResourceRequirements{Requests: v1.ResourceList{
		v1.ResourceCPU: *resource.NewMilliQuantity(100, resource.DecimalSI),
		sched.GPUName:  *resource.NewQuantity(t.GPU, resource.DecimalSI),
	}}}}
	// the independent computation of what the pod asks for
	eff := resourcehelper.PodRequests(pod, resourcehelper.PodResourcesOptions{})
	if g := eff[sched.GPUName]; g.Value() != t.GPU {
		panic(fmt.Sprintf("upstream PodRequests gives %v GPUs for t%d, the spec says %d", g.Value(), t.ID, t.GPU))
	}
	if c := eff[v1.ResourceCPU]; c.MilliValue() != t.CPU {
		panic("the init container must not dominate the cpu request")
	}
	return pod
}

func runBindInit(in []int64) ([]int64, []int64) { return runBindWith(in, true) }

// runBind: selector 2.
func runBind(in []int64) ([]int64, []int64) { return runBindWith(in, false) }

func runBindWith(in []int64, initFam bool) ([]int64, []int64) {
	b := decBind(in)
	podOf := func(t sched.TaskSpec) *v1.Pod {
		if initFam {
			return initPod(t)
		}
		return t.Pod()
	}
	sc := cache.NewCustomMockSchedulerCache("volcano", util.NewFakeBinder(0), util.NewFakeEvictor(0), &util.FakeStatusUpdater{}, nil, nil)
	for _, n := range b.Nodes {
		o := n.Object()
		if initFam {
			o.Status.Allocatable[FooName] = *resource.NewQuantity(100, resource.DecimalSI)
			o.Status.Capacity[FooName] = *resource.NewQuantity(100, resource.DecimalSI)
		}
		if err := sc.AddOrUpdateNode(o); err != nil {
			panic(err)
		}
	}
	tasks := append([]sched.TaskSpec{}, b.Tasks...)
	sort.Slice(tasks, func(i, j int) bool { return tasks[i].ID < tasks[j].ID })
	curPod := map[int64]*v1.Pod{}
	specOf := map[int64]sched.TaskSpec{}
	for _, t := range tasks {
		curPod[t.ID] = podOf(t)
		specOf[t.ID] = t
		sc.AddPod(curPod[t.ID])
	}
	for _, it := range b.Items {
		if it.Kind == itPodAdd {
			specOf[it.Pod.ID] = it.Pod
		}
	}
	// every worker decides on its own snapshot, taken before any bind: clones of the cache's tasks
	snap := map[int64]*api.TaskInfo{}
	for _, j := range sc.Jobs {
		for _, t := range j.Tasks {
			snap[sched.ParseID(string(t.UID))] = t.Clone()
		}
	}
	ctxs := make([]*cache.BindContext, len(b.Items))
	index := map[*cache.BindContext]int{}
	for i, it := range b.Items {
		if it.Kind != itBind {
			continue
		}
		c := it.Bind
		var ti *api.TaskInfo
		if s, ok := snap[c[1]]; ok {
			ti = s.Clone()
		} else if sp, ok := specOf[c[1]]; ok {
			ti = api.NewTaskInfo(podOf(sp)) // a pod that arrives later, seen by a worker's later snapshot
		} else {
			ti = unknownTask(c[0], c[1])
		}
		ti.Job = sched.JobID(c[0])
		ti.NodeName = sched.NodeName(c[2])
		ctxs[i] = &cache.BindContext{TaskInfo: ti, Extensions: map[string]cache.BindContextExtension{}}
		index[ctxs[i]] = i
	}
	var evMu sync.Mutex
	placeholderAccepted := false
	step := func(i int) error {
		it := b.Items[i]
		switch it.Kind {
		case itBind:
			// (histories with events are serialised by the harness: nothing else runs now)
			ni := sc.Nodes[sched.NodeName(it.Bind[2])]
			onPlaceholder := b.Exact && ni != nil && ni.Node == nil
			err := sc.AddBindTask(ctxs[i])
			if err == nil && onPlaceholder {
				evMu.Lock()
				placeholderAccepted = true
				evMu.Unlock()
			}
			return err
		case itRemoveNode:
			_ = sc.RemoveNode(sched.NodeName(it.Task))
		case itNode:
			if err := sc.AddOrUpdateNode(nodeObject(it.Node)); err != nil {
				panic(err)
			}
		case itTerminating:
			evMu.Lock()
			old := curPod[it.Task]
			nw := terminatingPod(specOf[it.Task])
			curPod[it.Task] = nw
			evMu.Unlock()
			sc.UpdatePod(old, nw)
		case itDelete:
			evMu.Lock()
			old := curPod[it.Task]
			evMu.Unlock()
			sc.DeletePod(old)
		case itPodAdd:
			p := it.Pod.Pod()
			evMu.Lock()
			curPod[it.Pod.ID] = p
			evMu.Unlock()
			sc.AddPod(p)
		case itUnbound:
			// someone wrote to the still unbound pod (or the informer resyncs it)
			evMu.Lock()
			old := curPod[it.Task]
			nw := touchedPod(old, !it.Flag)
			curPod[it.Task] = nw
			evMu.Unlock()
			sc.UpdatePod(old, nw)
		case itTermUnbound:
			// the pod is deleted (graceful: deletionTimestamp set) while its object still has no nodeName
			evMu.Lock()
			old := curPod[it.Task]
			var nw *v1.Pod
			if old != nil && old.Spec.NodeName == "" {
				nw = touchedPod(old, true)
				now := metav1.Now()
				nw.DeletionTimestamp = &now
				curPod[it.Task] = nw
			}
			evMu.Unlock()
			if nw != nil {
				sc.UpdatePod(old, nw)
			}
		case itBound:
			// the binding reached the API server: the pod shows up with its nodeName
			node := ""
			for _, j := range sc.Jobs {
				for _, t := range j.Tasks {
					if sched.ParseID(string(t.UID)) == it.Task && t.Status == api.Binding {
						node = t.NodeName
					}
				}
			}
			if node != "" {
				evMu.Lock()
				old := curPod[it.Task]
				nw := touchedPod(old, true)
				nw.Spec.NodeName = node
				curPod[it.Task] = nw
				evMu.Unlock()
				sc.UpdatePod(old, nw)
			}
		}
		return nil
	}
	order, errs := runConcurrent(len(b.Items), int(b.Workers), b.Exact, step,
		func() []int {
			out := []int{}
			for len(sc.BindFlowChannel) > 0 {
				out = append(out, index[<-sc.BindFlowChannel])
			}
			return out
		}, func(i int) bool { return b.Items[i].Kind != itBind })
	for len(sc.BindFlowChannel) > 0 {
		<-sc.BindFlowChannel
	}
	replay := b
	replay.Items = nil
	got := []int64{int64(len(order))}
	for _, i := range order {
		replay.Items = append(replay.Items, b.Items[i])
		if b.Items[i].Kind != itBind {
			got = append(got, 9)
			continue
		}
		cls := errClass(errs[i])
		if !b.Exact && cls != 0 {
			cls = 1
		}
		got = append(got, cls)
	}
	got = append(got, -110)
	all := map[int64]*api.TaskInfo{}
	for _, j := range sc.Jobs {
		for _, t := range j.Tasks {
			all[sched.ParseID(string(t.UID))] = t
		}
	}
	ids := sched.SortedIDs(all, func(k int64) int64 { return k })
	got = append(got, int64(len(ids)))
	for _, id := range ids {
		got = append(got, sched.EncTaskBrief(all[id])...)
	}
	got = append(got, -111)
	jids := sched.SortedIDs(sc.Jobs, func(u api.JobID) int64 { return sched.ParseID(string(u)[3:]) })
	got = append(got, int64(len(jids)))
	for _, j := range jids {
		got = append(got, sched.EncJob(sc.Jobs[sched.JobID(j)])...)
	}
	got = append(got, -112)
	nids := sched.SortedIDs(sc.Nodes, func(n string) int64 { return sched.ParseID(n) })
	got = append(got, int64(len(nids)))
	held := []int64{int64(len(nids))}
	reserved := reservedBy(b, order, errs)
	for _, n := range nids {
		ni := sc.Nodes[sched.NodeName(n)]
		got = append(got, sched.EncNode(ni, n)...)
		tids := mergeHeld(n, sched.SortedIDs(ni.Tasks, func(u api.TaskID) int64 { return sched.ParseID(string(u)) }), reserved)
		held = append(held, n, int64(len(tids)))
		held = append(held, tids...)
	}
	lastLaw = append(replay.finalSpecs().enc(), held...)
	lastSig = ""
	lastLawExcused = nil
	lastBatchLaw = nil
	if initFam {
		got = got[:1+len(order)] // admission results only
	}
	// (An accepted call on an entry without Node object was known finding
	// C02-bind-to-placeholder-node-unchecked until /repo fix 8dab8c3; no signature is attached any
	// more: it is a plain law 112 / correspondence failure again.)
	_ = placeholderAccepted
	return replay.enc(), got
}

// law 112 input: the case with every node / pod as last delivered + what the real nodes hold
var lastLaw []int64
var lastSig string
var lastLawExcused []int64
var lastBatchLaw []int64 // law 117: per executed batch, the fault script and, per context, on-ledger before / after

func bindLaws(in []int64, law func(lsel int, lin []int64, sig string)) {
	law(112, lastLaw, lastSig)
	if lastSig != "" && lastLawExcused != nil {
		law(116, lastLawExcused, "")
	}
	// the initial cache of the case satisfies cinv, the hypothesis of bind_events_safe
	law(115, in, "")
	if lastBatchLaw != nil {
		law(117, lastBatchLaw, "")
	}
}

// ---------- generator ----------

func genBindCase(r *vh.Rng) (bindCase, bool) {
	var b bindCase
	nn := r.Range(1, 3)
	type free struct{ cpu, mem, pods, gpu int64 }
	room := map[int64]*free{}
	for i := 1; i <= nn; i++ {
		ns := sched.NodeSpec{ID: int64(i), Has: true, CPU: int64(r.Range(2, 8)) * 500, Mem: int64(r.Range(4, 16)) << 20, Pods: int64(r.Range(4, 12))}
		if r.Chance(1, 2) {
			ns.GPU = int64(r.Range(1, 3))
		}
		b.Nodes = append(b.Nodes, ns)
		room[ns.ID] = &free{ns.CPU, ns.Mem, ns.Pods, ns.GPU}
	}
	nj := r.Range(1, 3)
	tid := int64(0)
	// tasks already on the nodes: fill them up to a random level, often nearly full
	for _, n := range b.Nodes {
		f := room[n.ID]
		k := r.Range(0, 3)
		for i := 0; i < k; i++ {
			ts := sched.TaskSpec{Job: int64(r.Range(1, nj)), Role: 1, CPU: int64(r.Range(1, 6)) * 250, Mem: int64(r.Range(1, 6)) << 19,
				Status: vh.Pick(r, []int64{sched.SRunning, sched.SRunning, sched.SBound, sched.SReleasing}), Node: n.ID}
			if f.gpu > 0 && r.Chance(1, 3) {
				ts.GPU = 1
			}
			if f.cpu < ts.CPU || f.mem < ts.Mem || f.pods < 1 || f.gpu < ts.GPU {
				continue
			}
			f.cpu -= ts.CPU
			f.mem -= ts.Mem
			f.pods--
			f.gpu -= ts.GPU
			tid++
			ts.ID = tid
			b.Tasks = append(b.Tasks, ts)
		}
	}
	// pending tasks the workers will try to bind
	var pending []sched.TaskSpec
	np := r.Range(2, 8)
	for i := 0; i < np; i++ {
		tid++
		ts := sched.TaskSpec{ID: tid, Job: int64(r.Range(1, nj)), Role: 1, Status: sched.SPending}
		switch r.Intn(8) {
		case 0: // best effort
		case 1:
			ts.CPU = int64(r.Range(1, 4)) * 250
		default:
			ts.CPU = int64(r.Range(1, 8)) * 250
			ts.Mem = int64(r.Range(1, 8)) << 19
			if r.Chance(1, 3) {
				ts.GPU = int64(r.Range(1, 2)) // also asked of nodes that have no such scalar
			}
		}
		b.Tasks = append(b.Tasks, ts)
		pending = append(pending, ts)
	}
	// the cache creates a job when it first sees one of its pods: list exactly the jobs in use
	used := map[int64]bool{}
	for _, t := range b.Tasks {
		used[t.Job] = true
	}
	for j := 1; j <= nj; j++ {
		if used[int64(j)] {
			b.Jobs = append(b.Jobs, sched.JobSpec{ID: int64(j), Queue: 1, Min: 0})
		}
	}
	b.Workers = int64(r.Range(1, 6))
	b.Exact = r.Chance(1, 2)
	m := r.Range(1, 4)
	asked := map[int64]map[int64]bool{}
	for i := 0; i < int(b.Workers)*m; i++ {
		t := vh.Pick(r, pending)
		c := [3]int64{t.Job, t.ID, int64(r.Range(1, nn))}
		switch r.Intn(20) {
		case 0:
			c[1] = 90 + int64(r.Intn(3)) // a task the cache has never seen
		case 1:
			c[2] = 9 // unknown node
		case 2:
			c[0] = int64(r.Range(1, nj+1)) // possibly the wrong / an unknown job
		case 3:
			if len(b.Tasks) > len(pending) {
				t2 := b.Tasks[r.Intn(len(b.Tasks)-len(pending))] // a task that is already on a node
				c[0], c[1] = t2.Job, t2.ID
			}
		}
		b.Items = append(b.Items, item{Kind: itBind, Bind: c})
		if asked[c[2]] == nil {
			asked[c[2]] = map[int64]bool{}
		}
		asked[c[2]][c[1]] = true
	}
	// non-trivial: >= 2 workers, >= 3 calls, and on some node the distinct tasks aimed at it ask
	// for more cpu than it has free (so that a missing re-check would overcommit it)
	contended := false
	byID := map[int64]sched.TaskSpec{}
	for _, t := range b.Tasks {
		byID[t.ID] = t
	}
	for nid, ts := range asked {
		f, ok := room[nid]
		if !ok {
			continue
		}
		sum := int64(0)
		for id := range ts {
			sum += byID[id].CPU
		}
		if sum > f.cpu {
			contended = true
		}
	}
	nt := b.Workers >= 2 && len(b.Items) >= 3 && contended
	// half of the cases: cache events delivered between the calls (round 3)
	er := r.Fork()
	if er.Chance(1, 2) {
		free := map[int64][4]int64{}
		for id, f := range room {
			free[id] = [4]int64{f.cpu, f.mem, f.pods, f.gpu}
		}
		ev := weaveEvents(er, &b, free, tid, false)
		nt = b.Workers >= 2 && ev
	}
	return b, nt
}

// weaveEvents inserts cache events into the history of b (which holds only calls so far).
//
//	before the first call ("prefix"): a node whose pods arrive before it (placeholder NodeInfo), a
//	    pod arriving on a node with room, an allocatable decrease that still covers the node's pods
//	    -- the cluster states delivered are themselves within capacity, the calls come after;
//	between the calls: node updates with the same allocatable (labels / annotations changed), an
//	    allocatable increase, pods turning terminating, pods deleted.
//
// One third of the histories is staged: a full node whose room is partly held by a terminating
// pod, a node update, then calls for pods no larger than the terminating one.  Returns whether the
// history delivers a node update to a node that holds a terminating pod and then a call aimed at it.
func weaveEvents(r *vh.Rng, b *bindCase, free map[int64][4]int64, lastTid int64, agent bool) bool {
	b.Exact = true
	cur := map[int64]sched.NodeSpec{}
	for _, n := range b.Nodes {
		cur[n.ID] = n
	}
	nn := int64(len(b.Nodes))
	var onNode, pending []sched.TaskSpec
	for _, t := range b.Tasks {
		if t.Node != 0 {
			onNode = append(onNode, t)
		} else {
			pending = append(pending, t)
		}
	}
	jobOf := func() int64 { return b.Tasks[r.Intn(len(b.Tasks))].Job }
	tid := lastTid
	if tid < 50 {
		tid = 50 // ids of the pods that arrive as events
	}
	prefix := []item{}
	// a node that arrives after its pods
	if r.Chance(1, 3) {
		late := sched.NodeSpec{ID: nn + 1, Has: true, CPU: int64(r.Range(2, 6)) * 500, Mem: int64(r.Range(4, 12)) << 20, Pods: int64(r.Range(4, 8))}
		f := [4]int64{late.CPU, late.Mem, late.Pods, 0}
		pods := []item{}
		for k := 0; k < r.Range(1, 2); k++ {
			ts := sched.TaskSpec{Job: jobOf(), Role: 1, CPU: int64(r.Range(1, 4)) * 250, Mem: int64(r.Range(1, 4)) << 19,
				Status: vh.Pick(r, []int64{sched.SRunning, sched.SReleasing, sched.SBound}), Node: late.ID}
			if f[0] < ts.CPU || f[1] < ts.Mem {
				continue
			}
			f[0] -= ts.CPU
			f[1] -= ts.Mem
			f[2]--
			tid++
			ts.ID = tid
			pods = append(pods, item{Kind: itPodAdd, Pod: ts})
			onNode = append(onNode, ts)
		}
		if r.Chance(2, 3) {
			prefix = append(prefix, pods...)
			prefix = append(prefix, item{Kind: itNode, Node: late})
		} else {
			prefix = append(prefix, item{Kind: itNode, Node: late})
			prefix = append(prefix, pods...)
		}
		cur[late.ID] = late
		free[late.ID] = f
		// aim some of the calls at it
		for i := range b.Items {
			if b.Items[i].Kind == itBind && r.Chance(1, 3) {
				b.Items[i].Bind[2] = late.ID
			}
		}
		nn++
	}
	// a pod that arrives on a node that has room for it
	if r.Chance(1, 4) {
		nid := int64(r.Range(1, int(nn)))
		ts := sched.TaskSpec{Job: jobOf(), Role: 1, CPU: int64(r.Range(1, 3)) * 250, Mem: 1 << 19, Status: vh.Pick(r, []int64{sched.SRunning, sched.SReleasing}), Node: nid}
		f := free[nid]
		if f[0] >= ts.CPU && f[1] >= ts.Mem && f[2] >= 1 {
			f[0] -= ts.CPU
			f[1] -= ts.Mem
			f[2]--
			free[nid] = f
			tid++
			ts.ID = tid
			prefix = append(prefix, item{Kind: itPodAdd, Pod: ts})
			onNode = append(onNode, ts)
		}
	}
	// an allocatable decrease that still covers what the node holds
	if r.Chance(1, 4) {
		nid := int64(r.Range(1, int(nn)))
		n, f := cur[nid], free[nid]
		cut := (f[0] / 250) * 250 * int64(r.Range(0, 2)) / 2
		n.CPU -= cut
		f[0] -= cut
		cur[nid], free[nid] = n, f
		prefix = append(prefix, item{Kind: itNode, Node: n})
	}
	calls := b.Items
	staged := r.Chance(1, 3) && len(pending) > 0
	type timed struct {
		at float64
		it item
	}
	evs := []timed{}
	at := func(lo, hi int) float64 { return float64(r.Range(lo, hi)) - 0.5 + float64(r.Intn(100))/1000 }
	nc := len(calls)
	hit := false
	holdsTerminating := map[int64]bool{}
	for _, t := range onNode {
		if t.Status == sched.SReleasing {
			holdsTerminating[t.Node] = true
		}
	}
	if staged {
		// the node is full and part of what it holds is terminating: a node update must not turn
		// the terminating pod's room into free room
		nid := int64(r.Range(1, int(len(b.Nodes))))
		f := free[nid]
		big := sched.TaskSpec{Job: jobOf(), Role: 1, CPU: f[0], Mem: f[1] / 2, Status: sched.SReleasing, Node: nid}
		if big.CPU >= 250 && f[2] >= 1 {
			tid++
			big.ID = tid
			f[0], f[1], f[2] = 0, f[1]-big.Mem, f[2]-1
			free[nid] = f
			prefix = append(prefix, item{Kind: itPodAdd, Pod: big})
			onNode = append(onNode, big)
			holdsTerminating[nid] = true
		}
		for i := range calls {
			if r.Chance(2, 3) {
				calls[i].Bind[2] = nid
			}
		}
		evs = append(evs, timed{at(0, 1), item{Kind: itNode, Node: cur[nid]}})
		if r.Chance(1, 2) {
			evs = append(evs, timed{at(0, nc), item{Kind: itNode, Node: cur[nid]}})
		}
	}
	// pods turning terminating, pods going away
	termAt := map[int64]float64{}
	for k := 0; k < r.Range(0, 2) && len(onNode) > 0; k++ {
		t := vh.Pick(r, onNode)
		if _, done := termAt[t.ID]; done || t.Status == sched.SReleasing || t.Status == sched.SPending {
			continue
		}
		termAt[t.ID] = at(0, nc)
		evs = append(evs, timed{termAt[t.ID], item{Kind: itTerminating, Task: t.ID}})
		holdsTerminating[t.Node] = true
	}
	deleted := map[int64]bool{}
	if r.Chance(1, 3) && len(onNode) > 0 {
		t := vh.Pick(r, onNode)
		lo := 0
		if ta, ok := termAt[t.ID]; ok {
			lo = int(ta+0.5) + 1
		}
		if lo <= nc {
			evs = append(evs, timed{at(lo, nc) + 0.2, item{Kind: itDelete, Task: t.ID}})
			deleted[t.ID] = true
		}
	}
	// binds in flight (round 4): the pod object is still unbound while the cache holds it as Binding;
	// someone updates the object (new resourceVersion) or the informer resyncs it (same one), more
	// calls follow, and later the update that shows the pod bound arrives
	fr := r.Fork()
	touched := map[int64]bool{}
	{
		isPending := map[int64]bool{}
		for _, t := range pending {
			isPending[t.ID] = true
		}
		targets := []int64{}
		for _, c := range calls {
			if c.Kind == itBind && isPending[c.Bind[1]] {
				targets = append(targets, c.Bind[1])
			}
		}
		lastUnbound := map[int64]float64{}
		if fr.Chance(1, 3) && len(pending) >= 2 {
			// staged: p1 takes all that is free on the node, its object is updated, p2 is aimed at the node
			nid := int64(fr.Range(1, len(b.Nodes)))
			f := free[nid]
			if f[0] >= 500 && f[2] >= 2 {
				i1 := fr.Intn(len(pending))
				i2 := (i1 + 1 + fr.Intn(len(pending)-1)) % len(pending)
				p1, p2 := pending[i1], pending[i2]
				for k := range b.Tasks {
					switch b.Tasks[k].ID {
					case p1.ID:
						b.Tasks[k].CPU, b.Tasks[k].Mem, b.Tasks[k].GPU = (f[0]/250)*250, 0, 0
					case p2.ID:
						b.Tasks[k].CPU, b.Tasks[k].Mem, b.Tasks[k].GPU = int64(fr.Range(1, int(f[0]/250)))*250, 0, 0
					}
				}
				evs = append(evs, timed{-0.4, item{Kind: itBind, Bind: [3]int64{p1.Job, p1.ID, nid}}})
				evs = append(evs, timed{-0.3, item{Kind: itUnbound, Task: p1.ID, Flag: fr.Chance(1, 4)}})
				evs = append(evs, timed{-0.2, item{Kind: itBind, Bind: [3]int64{p2.Job, p2.ID, nid}}})
				touched[p1.ID], touched[p2.ID] = true, true
				lastUnbound[p1.ID] = 0
				targets = append(targets, p1.ID)
			}
		}
		for k := 0; k < fr.Range(0, 3) && len(targets) > 0; k++ {
			t := vh.Pick(fr, targets)
			when := at(0, nc)
			evs = append(evs, timed{when, item{Kind: itUnbound, Task: t, Flag: fr.Chance(1, 3)}})
			touched[t] = true
			if when > lastUnbound[t] {
				lastUnbound[t] = when
			}
		}
		if fr.Chance(1, 2) && len(targets) > 0 {
			t := vh.Pick(fr, targets)
			lo := int(lastUnbound[t]+0.5) + 1
			if lo <= nc {
				evs = append(evs, timed{at(lo, nc) + 0.3, item{Kind: itBound, Task: t}})
				touched[t] = true
			}
		}
	}
	if !agent && r.Chance(1, 6) && len(pending) > 0 {
		t := vh.Pick(r, pending)
		if !touched[t.ID] {
			evs = append(evs, timed{at(0, nc), item{Kind: itDelete, Task: t.ID}})
		}
	}
	// node updates: same allocatable (the common informer resync / label change), or more of it
	for k := 0; k < r.Range(1, 3); k++ {
		nid := int64(r.Range(1, int(nn)))
		n := cur[nid]
		when := at(0, nc)
		if r.Chance(1, 4) {
			n.CPU += int64(r.Range(1, 4)) * 250
			cur[nid] = n
		}
		evs = append(evs, timed{when, item{Kind: itNode, Node: n}})
	}
	sort.SliceStable(evs, func(i, j int) bool { return evs[i].at < evs[j].at })
	// allocatable only grows along the woven events: re-issue them in time order with the
	// running object of each node
	run := map[int64]sched.NodeSpec{}
	for _, it := range prefix {
		if it.Kind == itNode {
			run[it.Node.ID] = it.Node
		}
	}
	for _, n := range b.Nodes {
		if _, ok := run[n.ID]; !ok {
			run[n.ID] = n
		}
	}
	out := append([]item{}, prefix...)
	ei := 0
	updated := map[int64]bool{}
	for i := 0; i <= nc; i++ {
		for ei < len(evs) && evs[ei].at < float64(i)+0.5 {
			it := evs[ei].it
			if it.Kind == itNode {
				prev := run[it.Node.ID]
				if it.Node.CPU < prev.CPU {
					it.Node.CPU = prev.CPU
				}
				run[it.Node.ID] = it.Node
				if holdsTerminating[it.Node.ID] {
					updated[it.Node.ID] = true
				}
			}
			out = append(out, it)
			ei++
		}
		if i < nc {
			out = append(out, calls[i])
			if updated[calls[i].Bind[2]] {
				hit = true
			}
		}
	}
	b.Items = out
	return hit
}

// placeholderCase (directed, audit W7): a node that holds a running pod is deleted (its pods stay on a
// placeholder NodeInfo), a worker with a view from before the deletion binds a pod to it, the node comes
// back.  The call is admitted without any check.
func placeholderCase(r *vh.Rng) bindCase {
	var b bindCase
	cpu := int64(r.Range(2, 6)) * 1000
	b.Nodes = []sched.NodeSpec{{ID: 1, Has: true, CPU: cpu, Mem: 32 << 20, Pods: 20}}
	if r.Chance(1, 2) {
		b.Nodes = append(b.Nodes, sched.NodeSpec{ID: 2, Has: true, CPU: 4000, Mem: 32 << 20, Pods: 20})
	}
	p := int64(r.Range(1, int(cpu/500)-1)) * 500
	b.Tasks = []sched.TaskSpec{{ID: 1, Job: 1, Role: 1, CPU: p, Mem: 1 << 20, Status: sched.SRunning, Node: 1}}
	q := cpu - p + int64(r.Range(1, 2))*500 // does not fit beside p
	if q > cpu {
		q = cpu
	}
	b.Tasks = append(b.Tasks, sched.TaskSpec{ID: 2, Job: 1, Role: 1, CPU: q, Mem: 1 << 20, Status: sched.SPending})
	b.Tasks = append(b.Tasks, sched.TaskSpec{ID: 3, Job: 1, Role: 1, CPU: 500, Mem: 1 << 20, Status: sched.SPending})
	b.Jobs = []sched.JobSpec{{ID: 1, Queue: 1}}
	b.Workers = int64(r.Range(1, 3))
	b.Exact = true
	b.Items = []item{{Kind: itRemoveNode, Task: 1}, {Kind: itBind, Bind: [3]int64{1, 2, 1}}}
	if r.Chance(1, 2) {
		b.Items = append(b.Items, item{Kind: itBind, Bind: [3]int64{1, 3, 1}})
	}
	b.Items = append(b.Items, item{Kind: itNode, Node: b.Nodes[0]})
	if r.Chance(1, 2) {
		b.Items = append(b.Items, item{Kind: itBind, Bind: [3]int64{1, 3, 1}})
	}
	return b
}

// podsFullCase (directed): a node with plenty of cpu and memory whose POD capacity is nearly used up;
// several small pods are aimed at it.  The Binding re-check tests every dimension of the request,
// 'pods' included: only as many calls are admitted as pod slots are left.
func podsFullCase(r *vh.Rng, agent bool) bindCase {
	var b bindCase
	slots := int64(r.Range(1, 2))
	have := int64(r.Range(1, 3))
	b.Nodes = []sched.NodeSpec{{ID: 1, Has: true, CPU: 16000, Mem: 64 << 20, Pods: have + slots}}
	tid := int64(0)
	for k := int64(0); k < have; k++ {
		tid++
		b.Tasks = append(b.Tasks, sched.TaskSpec{ID: tid, Job: 1, Role: 1, CPU: 500, Mem: 1 << 20, Status: sched.SRunning, Node: 1})
	}
	np := int(slots) + r.Range(1, 3)
	for k := 0; k < np; k++ {
		tid++
		ts := sched.TaskSpec{ID: tid, Job: 1, Role: 1, CPU: int64(r.Range(0, 2)) * 250, Mem: 1 << 19, Status: sched.SPending}
		b.Tasks = append(b.Tasks, ts)
		b.Items = append(b.Items, item{Kind: itBind, Bind: [3]int64{1, tid, 1}})
	}
	b.Jobs = []sched.JobSpec{{ID: 1, Queue: 1}}
	b.Workers = int64(r.Range(1, 4))
	b.Exact = r.Chance(1, 2)
	_ = agent
	return b
}

// initScalarCase (directed): a node with g GPUs; pods whose GPU is asked by an init container only (the
// regular container carries another scalar); more of them than the node has GPUs for.
func initScalarCase(r *vh.Rng) bindCase {
	var b bindCase
	g := int64(r.Range(1, 3))
	b.Nodes = []sched.NodeSpec{{ID: 1, Has: true, CPU: 16000, Mem: 64 << 20, Pods: 30, GPU: g}}
	np := int(g) + r.Range(1, 3)
	for k := 1; k <= np; k++ {
		b.Tasks = append(b.Tasks, sched.TaskSpec{ID: int64(k), Job: 1, Role: 1, CPU: int64(r.Range(1, 3)) * 250, Mem: 1 << 20, GPU: 1, Status: sched.SPending})
		b.Items = append(b.Items, item{Kind: itBind, Bind: [3]int64{1, int64(k), 1}})
	}
	b.Jobs = []sched.JobSpec{{ID: 1, Queue: 1}}
	b.Workers = int64(r.Range(1, 4))
	b.Exact = r.Chance(1, 2)
	return b
}

func genBind(rng *vh.Rng, n int, emit func(id string, sel int, in []int64, kind string, nontrivial bool, desc any)) {
	ir := rng.Fork()
	for i := 0; i < max(4, n/50); i++ {
		b := initScalarCase(ir.Fork())
		emit(fmt.Sprintf("bind-initscalar-%d", i), 6, b.enc(), "bind/cache/initscalar", true,
			map[string]any{"directed": "GPU asked by an init container only, more pods than GPUs", "items": len(b.Items), "workers": b.Workers})
	}
	qr := rng.Fork()
	for i := 0; i < max(4, n/50); i++ {
		b := podsFullCase(qr.Fork(), false)
		emit(fmt.Sprintf("bind-podsfull-%d", i), 2, b.enc(), "bind/cache/podsfull", true,
			map[string]any{"directed": "pod capacity nearly used up, more small pods than slots", "items": len(b.Items), "workers": b.Workers})
	}
	pr := rng.Fork()
	for i := 0; i < max(3, n/60); i++ {
		b := placeholderCase(pr.Fork())
		emit(fmt.Sprintf("bind-placeholder-%d", i), 2, b.enc(), "bind/cache/placeholder", true,
			map[string]any{"directed": "node removed with pods, bind from a stale view, node re-added", "items": len(b.Items)})
	}
	k := n/2 + 1
	for i := 0; i < k; i++ {
		r := rng.Fork()
		b, nt := genBindCase(r)
		kind := fmt.Sprintf("bind/cache/exact=%v/events=%v", b.Exact, b.hasEvents())
		desc := map[string]any{"nodes": len(b.Nodes), "tasks": len(b.Tasks), "workers": b.Workers, "items": len(b.Items)}
		emit(fmt.Sprintf("bind-%d", i), 2, b.enc(), kind, nt, desc)
	}
	tr := rng.Fork()
	for i := 0; i < max(4, n/50); i++ {
		b := readdReleasingCase(tr.Fork())
		emit(fmt.Sprintf("bind-readd-releasing-%d", i), 2, b.enc(), "bind/cache/readd-releasing", b.eventThenBind(itRemoveNode),
			map[string]any{"directed": "node holding a terminating pod removed and re-added, then a bind that fits only into the terminating pod's room", "items": len(b.Items)})
	}
	ur := rng.Fork()
	for i := 0; i < max(4, n/50); i++ {
		b := termInFlightCase(ur.Fork())
		emit(fmt.Sprintf("bind-term-inflight-%d", i), 2, b.enc(), "bind/cache/term-inflight", b.eventThenBind(itTermUnbound),
			map[string]any{"directed": "bind in flight, its still unbound pod object gets a deletionTimestamp, then a bind that fits only into its room", "items": len(b.Items)})
	}
}

// termInFlightCase (directed, seeded mutant C02-r9-1): p1 takes most of the node, and while its bind
// is in flight its object -- nodeName still empty -- is updated with a deletionTimestamp (optionally
// after a plain update); the cache must keep the reservation: p2, which fits only into p1's room, is
// refused, a small p3 fits; optionally p1's delete event follows and p2 is aimed at the node again.  Variant: the same update
// reaches a pod that has no bind in flight yet.
func termInFlightCase(r *vh.Rng) bindCase {
	var b bindCase
	cpu := int64(r.Range(3, 6)) * 1000
	b.Nodes = []sched.NodeSpec{{ID: 1, Has: true, CPU: cpu, Mem: 32 << 20, Pods: 20}}
	if r.Chance(1, 2) {
		b.Nodes = append(b.Nodes, sched.NodeSpec{ID: 2, Has: true, CPU: 4000, Mem: 32 << 20, Pods: 20})
	}
	p := cpu - int64(r.Range(1, 2))*500
	b.Tasks = []sched.TaskSpec{{ID: 1, Job: 1, Role: 1, CPU: p, Mem: 1 << 20, Status: sched.SPending},
		{ID: 2, Job: 1, Role: 1, CPU: p, Mem: 1 << 20, Status: sched.SPending},
		{ID: 3, Job: 1, Role: 1, CPU: 250, Mem: 1 << 20, Status: sched.SPending}}
	b.Jobs = []sched.JobSpec{{ID: 1, Queue: 1}}
	b.Workers = int64(r.Range(1, 3))
	b.Exact = true
	if r.Chance(1, 4) {
		b.Items = append(b.Items, item{Kind: itTermUnbound, Task: 3}) // no bind in flight: a terminating pod without node
	}
	b.Items = append(b.Items, item{Kind: itBind, Bind: [3]int64{1, 1, 1}})
	if r.Chance(1, 3) {
		b.Items = append(b.Items, item{Kind: itUnbound, Task: 1, Flag: r.Chance(1, 2)})
	}
	b.Items = append(b.Items, item{Kind: itTermUnbound, Task: 1}, item{Kind: itBind, Bind: [3]int64{1, 2, 1}}, item{Kind: itBind, Bind: [3]int64{1, 3, 1}})
	if r.Chance(1, 2) {
		// the pod finally goes away: its room is free again
		b.Items = append(b.Items, item{Kind: itDelete, Task: 1}, item{Kind: itBind, Bind: [3]int64{1, 2, 1}})
	}
	return b
}

// readdReleasingCase (directed, seeded mutant C02-r8-1): a node that holds a TERMINATING pod (and
// possibly a running one) is removed and delivered again; the pods of a removed node stay on the
// placeholder (fix e29cb66) -- terminating ones included: they still run.  A pod that fits only into
// the terminating pod's room is then aimed at the node (refused: the Binding re-check is against
// Idle), and a small one that fits anyway.
func readdReleasingCase(r *vh.Rng) bindCase {
	var b bindCase
	cpu := int64(r.Range(3, 6)) * 1000
	b.Nodes = []sched.NodeSpec{{ID: 1, Has: true, CPU: cpu, Mem: 32 << 20, Pods: 20}}
	if r.Chance(1, 2) {
		b.Nodes = append(b.Nodes, sched.NodeSpec{ID: 2, Has: true, CPU: 4000, Mem: 32 << 20, Pods: 20})
	}
	p := int64(r.Range(2, int(cpu/500)-2)) * 500 // the terminating pod
	b.Tasks = []sched.TaskSpec{{ID: 1, Job: 1, Role: 1, CPU: p, Mem: 1 << 20, Status: sched.SReleasing, Node: 1}}
	q := int64(0)
	if r.Chance(1, 2) {
		q = 500
		b.Tasks = append(b.Tasks, sched.TaskSpec{ID: 5, Job: 1, Role: 1, CPU: q, Mem: 1 << 20, Status: sched.SRunning, Node: 1})
	}
	free := cpu - p - q // >= 500
	b.Tasks = append(b.Tasks, sched.TaskSpec{ID: 2, Job: 1, Role: 1, CPU: free + 500, Mem: 1 << 20, Status: sched.SPending},
		sched.TaskSpec{ID: 3, Job: 1, Role: 1, CPU: 250, Mem: 1 << 20, Status: sched.SPending})
	b.Jobs = []sched.JobSpec{{ID: 1, Queue: 1}}
	b.Workers = int64(r.Range(1, 3))
	b.Exact = true
	b.Items = []item{{Kind: itRemoveNode, Task: 1}}
	if r.Chance(1, 3) {
		b.Items = append(b.Items, item{Kind: itBind, Bind: [3]int64{1, 3, 1}}) // refused: no Node object
	}
	b.Items = append(b.Items, item{Kind: itNode, Node: b.Nodes[0]}, item{Kind: itBind, Bind: [3]int64{1, 2, 1}}, item{Kind: itBind, Bind: [3]int64{1, 3, 1}})
	return b
}

// eventThenBind (non-triviality of the directed event families, computed from the case): an event of
// the kind touches a node that holds something -- directly (node removed while a pod of the spec is on
// it) or through a pod whose call to that node precedes the event -- and a call to the same node follows.
func (b bindCase) eventThenBind(kind int64) bool {
	for i, it := range b.Items {
		if it.Kind != kind {
			continue
		}
		node := int64(0)
		if kind == itRemoveNode {
			for _, t := range b.Tasks {
				if t.Node == it.Task && t.Status != sched.SPending {
					node = it.Task
				}
			}
		} else {
			for _, e := range b.Items[:i] {
				if e.Kind == itBind && e.Bind[1] == it.Task {
					node = e.Bind[2]
				}
			}
		}
		if node == 0 {
			continue
		}
		for _, e := range b.Items[i+1:] {
			if e.Kind == itBind && e.Bind[2] == node {
				return true
			}
		}
	}
	return false
}
