package main

import (
	"fmt"
	"reflect"
	"unsafe"

	agentapi "volcano.sh/volcano/pkg/agentscheduler/api"
	agentcache "volcano.sh/volcano/pkg/agentscheduler/cache"
	"volcano.sh/volcano/pkg/scheduler/api"
	scache "volcano.sh/volcano/pkg/scheduler/cache"

	"verif/harness/internal/sched"
	"verif/harness/internal/vh"
)

// agentNodeInfo reads the NodeInfo behind an entry of the agent cache's exported Nodes map (the
// list item type and its field are unexported; nothing is written through this pointer).
func agentNodeInfo(sc *agentcache.SchedulerCache, name string) *api.NodeInfo {
	raw, ok := sc.Nodes[name]
	if !ok {
		return nil
	}
	item := reflect.ValueOf(raw)
	if item.IsNil() {
		return nil
	}
	f := item.Elem().FieldByName("info")
	return reflect.NewAt(f.Type(), unsafe.Pointer(f.UnsafeAddr())).Elem().Interface().(*api.NodeInfo)
}

// addAgentNode calls the real AddOrUpdateNode.  The mock cache has no scheduling queue, and the
// last statement of AddOrUpdateNode (event_handlers.go 349) notifies it: that nil dereference is
// recovered here (the deferred Unlock has run); everything before it -- NewNodeInfo, the Nodes
// map, NodeList -- is done, which is asserted.
func addAgentNode(sc *agentcache.SchedulerCache, n sched.NodeSpec) {
	func() {
		defer func() { _ = recover() }()
		_ = sc.AddOrUpdateNode(n.Object())
	}()
	ni := agentNodeInfo(sc, sched.NodeName(n.ID))
	if ni == nil || ni.Node == nil || !ni.Ready() {
		panic("agent cache did not take the node")
	}
}

// runAgent: selector 3.  The agent scheduler's cache starts with empty nodes; every task is a
// pending pod and each call carries the worker's own TaskInfo (bindContext.SchedCtx.Task), with
// NodeName already set to the chosen node as CheckAndBindPod does (binder.go 112-113).
func runAgent(in []int64) ([]int64, []int64) {
	b := decBind(in)
	sc := agentcache.NewDefaultMockSchedulerCache("volcano-agent")
	for _, n := range b.Nodes {
		addAgentNode(sc, n)
	}
	spec := map[int64]sched.TaskSpec{}
	for _, t := range b.Tasks {
		spec[t.ID] = t
	}
	ctxs := make([]*agentapi.BindContext, len(b.Calls))
	index := map[*agentapi.BindContext]int{}
	for i, c := range b.Calls {
		ts, ok := spec[c[1]]
		if !ok {
			panic("agent stream: call names a task outside the spec")
		}
		ti := api.NewTaskInfo(ts.Pod())
		ti.NodeName = sched.NodeName(c[2])
		ctxs[i] = &agentapi.BindContext{SchedCtx: &agentapi.SchedulingContext{Task: ti}, Extensions: map[string]scache.BindContextExtension{}}
		index[ctxs[i]] = i
	}
	order, errs := runConcurrent(len(b.Calls), int(b.Workers), b.Exact,
		func(i int) error { return sc.AddBindTask(ctxs[i]) },
		func() []int {
			out := []int{}
			for len(sc.BindFlowChannel) > 0 {
				out = append(out, index[<-sc.BindFlowChannel])
			}
			return out
		})
	for len(sc.BindFlowChannel) > 0 {
		<-sc.BindFlowChannel
	}
	replay := b
	replay.Calls = nil
	got := []int64{int64(len(order))}
	for _, i := range order {
		replay.Calls = append(replay.Calls, b.Calls[i])
		cls := errClass(errs[i])
		if !b.Exact && cls != 0 {
			cls = 1
		}
		got = append(got, cls)
		// a refused call must leave the worker's task with the status it had
		if errs[i] != nil && ctxs[i].SchedCtx.Task.Status != api.Pending {
			panic(fmt.Sprintf("refused call %d left its task in status %v", i, ctxs[i].SchedCtx.Task.Status))
		}
	}
	got = append(got, -112)
	nids := sched.SortedIDs(sc.Nodes, func(n string) int64 { return sched.ParseID(n) })
	got = append(got, int64(len(nids)))
	held := []int64{int64(len(nids))}
	for _, n := range nids {
		ni := agentNodeInfo(sc, sched.NodeName(n))
		got = append(got, sched.EncNode(ni, n)...)
		tids := sched.SortedIDs(ni.Tasks, func(u api.TaskID) int64 { return sched.ParseID(string(u)) })
		held = append(held, n, int64(len(tids)))
		held = append(held, tids...)
	}
	lastHeld = held
	return replay.enc(), got
}

func genAgentCase(r *vh.Rng) (bindCase, bool) {
	var b bindCase
	nn := r.Range(1, 3)
	cpu := map[int64]int64{}
	for i := 1; i <= nn; i++ {
		ns := sched.NodeSpec{ID: int64(i), Has: true, CPU: int64(r.Range(2, 8)) * 500, Mem: int64(r.Range(4, 16)) << 20, Pods: int64(r.Range(4, 12))}
		if r.Chance(1, 2) {
			ns.GPU = int64(r.Range(1, 3))
		}
		b.Nodes = append(b.Nodes, ns)
		cpu[ns.ID] = ns.CPU
	}
	b.Jobs = []sched.JobSpec{{ID: 1, Queue: 1}}
	np := r.Range(3, 10)
	for i := 1; i <= np; i++ {
		ts := sched.TaskSpec{ID: int64(i), Job: 1, Role: 1, Status: sched.SPending}
		switch r.Intn(8) {
		case 0:
		case 1:
			ts.CPU = int64(r.Range(1, 4)) * 250
		default:
			ts.CPU = int64(r.Range(1, 8)) * 250
			ts.Mem = int64(r.Range(1, 8)) << 19
			if r.Chance(1, 3) {
				ts.GPU = int64(r.Range(1, 2))
			}
		}
		b.Tasks = append(b.Tasks, ts)
	}
	b.Workers = int64(r.Range(1, 6))
	b.Exact = r.Chance(1, 2)
	m := r.Range(1, 5)
	sum := map[int64]int64{}
	seen := map[[2]int64]bool{}
	for i := 0; i < int(b.Workers)*m; i++ {
		t := vh.Pick(r, b.Tasks)
		c := [3]int64{1, t.ID, int64(r.Range(1, nn))}
		if r.Chance(1, 20) {
			c[2] = 9
		}
		b.Calls = append(b.Calls, c)
		if !seen[[2]int64{c[1], c[2]}] {
			seen[[2]int64{c[1], c[2]}] = true
			sum[c[2]] += t.CPU
		}
	}
	contended := false
	for nid, s := range sum {
		if c, ok := cpu[nid]; ok && s > c {
			contended = true
		}
	}
	return b, b.Workers >= 2 && len(b.Calls) >= 3 && contended
}

func genAgent(rng *vh.Rng, n int, emit func(id string, sel int, in []int64, kind string, nontrivial bool, desc any)) {
	k := n/3 + 1
	for i := 0; i < k; i++ {
		r := rng.Fork()
		b, nt := genAgentCase(r)
		kind := fmt.Sprintf("bind/agent/exact=%v", b.Exact)
		desc := map[string]any{"nodes": len(b.Nodes), "tasks": len(b.Tasks), "workers": b.Workers, "calls": len(b.Calls)}
		emit(fmt.Sprintf("agent-%d", i), 3, b.enc(), kind, nt, desc)
	}
}
