package main

import (
	"context"
	"fmt"
	"reflect"
	"sort"
	"sync"
	"unsafe"

	v1 "k8s.io/api/core/v1"
	"k8s.io/client-go/kubernetes"
	k8sfwk "k8s.io/kubernetes/pkg/scheduler/framework"

	agentapi "volcano.sh/volcano/pkg/agentscheduler/api"
	agentcache "volcano.sh/volcano/pkg/agentscheduler/cache"
	"volcano.sh/volcano/pkg/scheduler/api"
	scache "volcano.sh/volcano/pkg/scheduler/cache"

	"verif/harness/internal/sched"
	"verif/harness/internal/vh"
)

// agentNodeInfo reads the NodeInfo behind an entry of the agent cache's exported Nodes map (the
// list item type and its field are unexported; nothing is written through this pointer).
func agentNodeInfo(sc *agentcache.SchedulerCache, name string) *api.NodeInfo {
	raw, ok := sc.Nodes[name]
	if !ok {
		return nil
	}
	item := reflect.ValueOf(raw)
	if item.IsNil() {
		return nil
	}
	f := item.Elem().FieldByName("info")
	return reflect.NewAt(f.Type(), unsafe.Pointer(f.UnsafeAddr())).Elem().Interface().(*api.NodeInfo)
}

// addAgentNode calls the real AddOrUpdateNode.  The mock cache has no scheduling queue, and the
// last statement of AddOrUpdateNode (event_handlers.go 349) notifies it: that nil dereference is
// recovered here (the deferred Unlock has run); everything before it -- NewNodeInfo, the Nodes
// map, NodeList -- is done, which is asserted.
func addAgentNode(sc *agentcache.SchedulerCache, n sched.NodeSpec) {
	func() {
		defer func() { _ = recover() }()
		_ = sc.AddOrUpdateNode(n.Object())
	}()
	ni := agentNodeInfo(sc, sched.NodeName(n.ID))
	if ni == nil || ni.Node == nil || !ni.Ready() {
		panic("agent cache did not take the node")
	}
}

// logBinder is the API server's side of Binder.Bind: the Binding of a task of the current script
// fails and is reported PER TASK in the returned map (as DefaultBinder.Bind does); every other
// Binding succeeds -- the pod IS bound -- and is recorded in the log.  calls = sizes of the batches
// it was handed.
type logBinder struct {
	mu    sync.Mutex
	log   [][2]int64
	fail  map[int64]bool
	calls []int
}

func (b *logBinder) Bind(_ kubernetes.Interface, tasks []*api.TaskInfo) map[api.TaskID]string {
	b.mu.Lock()
	defer b.mu.Unlock()
	errMsg := map[api.TaskID]string{}
	b.calls = append(b.calls, len(tasks))
	for _, t := range tasks {
		if b.fail[sched.ParseID(string(t.UID))] {
			errMsg[t.UID] = "scripted: the Binding fails"
			continue
		}
		b.log = append(b.log, [2]int64{sched.ParseID(string(t.UID)), sched.ParseID(t.NodeName)})
	}
	return errMsg
}
func (b *logBinder) pairs() [][2]int64 {
	b.mu.Lock()
	defer b.mu.Unlock()
	return append([][2]int64{}, b.log...)
}
func (b *logBinder) has(t, n int64) bool {
	for _, p := range b.pairs() {
		if p[0] == t && p[1] == n {
			return true
		}
	}
	return false
}

type okUpdater struct{}

func (okUpdater) UpdatePodStatus(pod *v1.Pod) (*v1.Pod, error) { return pod, nil }

// scriptedPreBinder fails PreBind for the tasks of the current flow item's script.
type scriptedPreBinder struct {
	mu   sync.Mutex
	fail map[int64]bool
}

func (p *scriptedPreBinder) PreBind(_ context.Context, c *agentapi.BindContext) error {
	p.mu.Lock()
	defer p.mu.Unlock()
	if p.fail[sched.ParseID(string(c.SchedCtx.Task.UID))] {
		return fmt.Errorf("scripted: PreBind of %s fails", c.SchedCtx.Task.Name)
	}
	return nil
}
func (p *scriptedPreBinder) PreBindRollBack(context.Context, *agentapi.BindContext) {}

// recovered runs an agent-cache handler whose last statement notifies the scheduling queue the mock
// cache does not have: the nil dereference happens after the cache has been updated and the deferred
// Unlock has run.
func recovered(f func()) {
	defer func() { _ = recover() }()
	f()
}

// runAgent: selector 3.  Every call carries the worker's own TaskInfo (bindContext.SchedCtx.Task)
// with NodeName already set to the chosen node, as CheckAndBindPod does (binder.go 112-113); the
// pods already on nodes and the events in between go through AddPodToCache / UpdatePodInCache /
// DeletePodFromCache / AddOrUpdateNode.
func runAgent(in []int64) ([]int64, []int64) {
	b := decBind(in)
	// mock cache with a real scheduling queue and conflict-aware binder (/repo verif hook), a binder
	// that logs what it is handed, a status updater that accepts, and a scripted PreBinder
	binder := &logBinder{}
	pre := &scriptedPreBinder{fail: map[int64]bool{}}
	sc := agentcache.VerifNewMockSchedulerCache("volcano-agent", binder, okUpdater{})
	sc.RegisterBinder("verif-prebinder", pre)
	for _, n := range b.Nodes {
		addAgentNode(sc, n)
	}
	tasks := append([]sched.TaskSpec{}, b.Tasks...)
	sort.Slice(tasks, func(i, j int) bool { return tasks[i].ID < tasks[j].ID })
	spec := map[int64]sched.TaskSpec{}
	curPod := map[int64]*v1.Pod{}
	for _, t := range tasks {
		spec[t.ID] = t
		curPod[t.ID] = t.Pod()
		if t.Node != 0 && t.Status != sched.SSucceeded && t.Status != sched.SFailed {
			p := curPod[t.ID]
			recovered(func() { sc.AddPodToCache(p) })
		}
	}
	for _, it := range b.Items {
		if it.Kind == itPodAdd {
			spec[it.Pod.ID] = it.Pod
		}
	}
	ctxs := make([]*agentapi.BindContext, len(b.Items))
	index := map[*agentapi.BindContext]int{}
	for i, it := range b.Items {
		if it.Kind != itBind {
			continue
		}
		ts, ok := spec[it.Bind[1]]
		if !ok {
			panic("agent stream: call names a task outside the spec")
		}
		ti := api.NewTaskInfo(ts.Pod())
		ti.NodeName = sched.NodeName(it.Bind[2])
		pi, _ := k8sfwk.NewPodInfo(ti.Pod)
		ctxs[i] = &agentapi.BindContext{SchedCtx: &agentapi.SchedulingContext{Task: ti, QueuedPodInfo: &k8sfwk.QueuedPodInfo{PodInfo: pi}},
			Extensions: map[string]scache.BindContextExtension{}}
		index[ctxs[i]] = i
	}
	var evMu sync.Mutex
	removedWhileHolding := map[int64]bool{}
	forgotten := map[[2]int64]bool{} // (pod, node) pairs the cache dropped with a removed node
	forgot := false
	quiet := true // no cache events in the history: only calls and bind executions
	for _, it := range b.Items {
		if it.Kind != itBind && it.Kind != itFlow && it.Kind != itBatch {
			quiet = false
		}
	}
	var queued []int       // accepted calls whose bind has not been executed yet
	var batchObs [][]int64 // law 117
	step := func(i int) error {
		it := b.Items[i]
		switch it.Kind {
		case itBind:
			err := sc.AddBindTask(ctxs[i])
			if err == nil {
				evMu.Lock()
				queued = append(queued, i)
				// the pair is learned again: from now on it counts in law 116 like any other placement
				// (the finding only explains pods dropped with the removed node and not re-admitted since)
				delete(forgotten, [2]int64{it.Bind[1], it.Bind[2]})
				evMu.Unlock()
			}
			return err
		case itFlow:
			evMu.Lock()
			queued = nil
			evMu.Unlock()
			// the bind execution: pre-binders (scripted failures), then Binder.Bind
			pre.mu.Lock()
			pre.fail = map[int64]bool{}
			for _, t := range it.Fails {
				pre.fail[t] = true
			}
			pre.mu.Unlock()
			sc.VerifProcessBindFlow()
		case itBatch:
			// the same over ONE batch of all queued contexts, with per-Binding faults of the binder
			pre.mu.Lock()
			pre.fail = map[int64]bool{}
			for _, t := range it.Fails {
				pre.fail[t] = true
			}
			pre.mu.Unlock()
			binder.mu.Lock()
			binder.fail = map[int64]bool{}
			for _, t := range it.BindFails {
				binder.fail[t] = true
			}
			binder.mu.Unlock()
			evMu.Lock()
			batch := queued
			queued = nil
			evMu.Unlock()
			onLedger := func(j int) bool {
				ni := agentNodeInfo(sc, sched.NodeName(b.Items[j].Bind[2]))
				if ni == nil {
					return false
				}
				for k := range ni.Tasks { // keyed by PodKey
					if sched.ParseID(string(k)) == b.Items[j].Bind[1] {
						return true
					}
				}
				return false
			}
			before := make([]bool, len(batch))
			for k, j := range batch {
				before[k] = onLedger(j)
				// an accepted context is on its node's ledger until its bind is executed unless an event
				// in between took it off; without such events a miss means the observation is mis-keyed
				if !before[k] && quiet {
					panic(fmt.Sprintf("accepted call %d (task %d -> node %d) is not on the node's ledger before the batch", j, b.Items[j].Bind[1], b.Items[j].Bind[2]))
				}
			}
			if got := sc.VerifProcessBindFlowBatch(); got != len(batch) {
				panic(fmt.Sprintf("batch hook processed %d contexts, %d were accepted since the last execution", got, len(batch)))
			}
			binder.mu.Lock()
			binder.fail = map[int64]bool{}
			binder.mu.Unlock()
			obs := []int64{int64(len(it.Fails))}
			obs = append(obs, it.Fails...)
			obs = append(obs, int64(len(it.BindFails)))
			obs = append(obs, it.BindFails...)
			obs = append(obs, int64(len(batch)))
			for k, j := range batch {
				obs = append(obs, b.Items[j].Bind[1], b.Items[j].Bind[2], vh.B(before[k]), vh.B(onLedger(j)))
			}
			evMu.Lock()
			batchObs = append(batchObs, obs)
			evMu.Unlock()
		case itRemoveNode:
			if ni := agentNodeInfo(sc, sched.NodeName(it.Task)); ni != nil && len(ni.Tasks) > 0 {
				evMu.Lock()
				removedWhileHolding[it.Task] = true
				for k := range ni.Tasks {
					forgotten[[2]int64{sched.ParseID(string(k)), it.Task}] = true
				}
				evMu.Unlock()
			}
			recovered(func() { _ = sc.RemoveNode(sched.NodeName(it.Task)) })
		case itNode:
			o := nodeObject(it.Node)
			evMu.Lock()
			if removedWhileHolding[it.Node.ID] {
				forgot = true // the mechanism of SigAgentForgets: a node that held tasks was removed and comes back
			}
			evMu.Unlock()
			recovered(func() { _ = sc.AddOrUpdateNode(o) })
		case itTerminating:
			evMu.Lock()
			old := curPod[it.Task]
			nw := terminatingPod(spec[it.Task])
			curPod[it.Task] = nw
			evMu.Unlock()
			recovered(func() { sc.UpdatePodInCache(old, nw) })
		case itDelete:
			evMu.Lock()
			old := curPod[it.Task]
			evMu.Unlock()
			recovered(func() { sc.DeletePodFromCache(old) })
		case itPodAdd:
			p := it.Pod.Pod()
			evMu.Lock()
			curPod[it.Pod.ID] = p
			evMu.Unlock()
			recovered(func() { sc.AddPodToCache(p) })
		case itUnbound:
			evMu.Lock()
			old := curPod[it.Task]
			nw := touchedPod(old, !it.Flag)
			curPod[it.Task] = nw
			evMu.Unlock()
			recovered(func() { sc.UpdatePodInCache(old, nw) })
		case itBound:
			node := ""
			for _, n := range sched.SortedIDs(sc.Nodes, func(n string) int64 { return sched.ParseID(n) }) {
				ni := agentNodeInfo(sc, sched.NodeName(n))
				for k, t := range ni.Tasks {
					if node == "" && sched.ParseID(string(k)) == it.Task && t.Status == api.Binding {
						node = sched.NodeName(n)
					}
				}
			}
			if node != "" {
				evMu.Lock()
				old := curPod[it.Task]
				nw := touchedPod(old, true)
				nw.Spec.NodeName = node
				curPod[it.Task] = nw
				evMu.Unlock()
				recovered(func() { sc.UpdatePodInCache(old, nw) })
			}
		}
		return nil
	}
	order, errs := runConcurrent(len(b.Items), int(b.Workers), b.Exact, step,
		func() []int {
			out := []int{}
			for len(sc.BindFlowChannel) > 0 {
				out = append(out, index[<-sc.BindFlowChannel])
			}
			return out
		}, func(i int) bool { return b.Items[i].Kind != itBind })
	for len(sc.BindFlowChannel) > 0 {
		<-sc.BindFlowChannel
	}
	replay := b
	replay.Items = nil
	got := []int64{int64(len(order))}
	for _, i := range order {
		replay.Items = append(replay.Items, b.Items[i])
		if b.Items[i].Kind != itBind {
			got = append(got, 9)
			continue
		}
		cls := errClass(errs[i])
		if !b.Exact && cls != 0 {
			cls = 1
		}
		got = append(got, cls)
		// a refused call must leave the worker's task with the status it had
		if errs[i] != nil && ctxs[i].SchedCtx.Task.Status != api.Pending {
			panic(fmt.Sprintf("refused call %d left its task in status %v", i, ctxs[i].SchedCtx.Task.Status))
		}
	}
	placed := agentPlaced(b, order, errs)
	// bind execution: an accepted call is charged until its bind is executed; a failed PreBind releases
	// it (the pod is re-queued, not bound); what Binder.Bind was handed is REALLY bound: it counts on
	// its node until its pod object is deleted
	for _, i := range order {
		it := b.Items[i]
		if it.Kind != itFlow && it.Kind != itBatch {
			continue
		}
		failing := map[int64]bool{}
		for _, t := range it.Fails {
			failing[t] = true
		}
		for _, t := range it.BindFails {
			failing[t] = true
		}
		for _, j := range order {
			if j == i {
				break
			}
			jt := b.Items[j]
			if jt.Kind == itBind && errs[j] == nil && failing[jt.Bind[1]] && !binder.has(jt.Bind[1], jt.Bind[2]) {
				delete(placed, [2]int64{jt.Bind[1], jt.Bind[2]})
			}
		}
	}
	for _, p := range binder.pairs() {
		placed[p] = true
	}
	for _, i := range order {
		if it := b.Items[i]; it.Kind == itDelete {
			for k := range placed {
				if k[0] == it.Task {
					delete(placed, k)
				}
			}
		}
	}
	got = append(got, -112)
	nids := sched.SortedIDs(sc.Nodes, func(n string) int64 { return sched.ParseID(n) })
	got = append(got, int64(len(nids)))
	held := []int64{int64(len(nids))}
	for _, n := range nids {
		ni := agentNodeInfo(sc, sched.NodeName(n))
		got = append(got, sched.EncNode(ni, n)...)
		// what the node holds TOGETHER WITH what is placed on it by everything delivered so far: the
		// bound pods delivered (and not deleted) that name the node, and every accepted AddBindTask
		// aimed at it whose pod has not been deleted (the agent stream may bind one pod to several
		// nodes through separate TaskInfos: a reservation is a (pod, node) pair)
		tids := mergeHeldPairs(n, sched.SortedIDs(ni.Tasks, func(u api.TaskID) int64 { return sched.ParseID(string(u)) }), placed)
		held = append(held, n, int64(len(tids)))
		held = append(held, tids...)
	}
	got = append(got, -113)
	for _, p := range binder.pairs() {
		got = append(got, p[0], p[1])
	}
	lastLaw = append(replay.finalSpecs().enc(), held...)
	lastSig, lastLawExcused, lastBatchLaw = "", nil, nil
	if len(batchObs) > 0 {
		lastBatchLaw = []int64{int64(len(batchObs))}
		for _, o := range batchObs {
			lastBatchLaw = append(lastBatchLaw, o...)
		}
	}
	if forgot {
		// the finding explains exactly the pods dropped with the removed node: law 112 on the full
		// held sets carries the sig, and the same law is emitted UNSIGNED (selector 116) on the held
		// sets without those pods -- any other overcommit in this history still fails it
		lastSig = SigAgentForgets
		rest := map[[2]int64]bool{}
		for k := range placed {
			if !forgotten[k] {
				rest[k] = true
			}
		}
		exc := []int64{int64(len(nids))}
		for _, n := range nids {
			ni := agentNodeInfo(sc, sched.NodeName(n))
			tids := mergeHeldPairs(n, sched.SortedIDs(ni.Tasks, func(u api.TaskID) int64 { return sched.ParseID(string(u)) }), rest)
			exc = append(exc, n, int64(len(tids)))
			exc = append(exc, tids...)
		}
		lastLawExcused = append(replay.finalSpecs().enc(), exc...)
	}
	return replay.enc(), got
}

// SigAgentForgets (known-findings.json): the agent scheduler cache's RemoveNode deletes the entry
// together with the tasks it holds; when the node comes back it starts from an empty NodeInfo and the
// bind admission admits pods into room that is taken.  Attached to law 112 ONLY for histories in which
// the real cache removed a node that held at least one task and that node was delivered again.
const SigAgentForgets = "C02-agent-remove-node-forgets-held-tasks"

// agentPlaced: (pod, node) pairs placed by what has been delivered: bound pods of the spec and of
// pod-add events, accepted calls; a delete event removes the pod everywhere.
func agentPlaced(b bindCase, order []int, errs []error) map[[2]int64]bool {
	res := map[[2]int64]bool{}
	for _, t := range b.Tasks {
		if t.Node != 0 && t.Status != sched.SSucceeded && t.Status != sched.SFailed {
			res[[2]int64{t.ID, t.Node}] = true
		}
	}
	for _, i := range order {
		it := b.Items[i]
		switch it.Kind {
		case itBind:
			if errs[i] == nil {
				res[[2]int64{it.Bind[1], it.Bind[2]}] = true
			}
		case itPodAdd:
			if it.Pod.Node != 0 {
				res[[2]int64{it.Pod.ID, it.Pod.Node}] = true
			}
		case itDelete:
			for k := range res {
				if k[0] == it.Task {
					delete(res, k)
				}
			}
		}
	}
	return res
}

func mergeHeldPairs(nid int64, tids []int64, placed map[[2]int64]bool) []int64 {
	seen := map[int64]bool{}
	for _, t := range tids {
		seen[t] = true
	}
	out := append([]int64{}, tids...)
	for k := range placed {
		if k[1] == nid && !seen[k[0]] {
			seen[k[0]] = true
			out = append(out, k[0])
		}
	}
	sort.Slice(out, func(i, j int) bool { return out[i] < out[j] })
	return out
}

// readdCase (directed, second audit N2): a node that holds a running pod (and possibly a bind in
// flight) is removed and delivered again with the same allocatable; a pod that does not fit beside
// what the node really holds is then aimed at it.
func readdCase(r *vh.Rng) bindCase {
	var b bindCase
	cpu := int64(r.Range(2, 6)) * 1000
	b.Nodes = []sched.NodeSpec{{ID: 1, Has: true, CPU: cpu, Mem: 32 << 20, Pods: 20}}
	p := int64(r.Range(1, int(cpu/500)-1)) * 500
	b.Tasks = []sched.TaskSpec{{ID: 1, Job: 1, Role: 1, CPU: p, Mem: 1 << 20, Status: sched.SRunning, Node: 1}}
	q := cpu - p + 500
	if q > cpu {
		q = cpu
	}
	b.Tasks = append(b.Tasks, sched.TaskSpec{ID: 2, Job: 1, Role: 1, CPU: q, Mem: 1 << 20, Status: sched.SPending})
	b.Tasks = append(b.Tasks, sched.TaskSpec{ID: 3, Job: 1, Role: 1, CPU: 250, Mem: 1 << 20, Status: sched.SPending})
	b.Jobs = []sched.JobSpec{{ID: 1, Queue: 1}}
	b.Workers = int64(r.Range(1, 3))
	b.Exact = true
	if r.Chance(1, 2) {
		b.Items = append(b.Items, item{Kind: itBind, Bind: [3]int64{1, 3, 1}}) // a bind in flight
	}
	b.Items = append(b.Items, item{Kind: itRemoveNode, Task: 1}, item{Kind: itNode, Node: b.Nodes[0]}, item{Kind: itBind, Bind: [3]int64{1, 2, 1}})
	// a pod as large as the whole node: refused whatever the cache forgot
	b.Tasks = append(b.Tasks, sched.TaskSpec{ID: 4, Job: 1, Role: 1, CPU: cpu, Mem: 1 << 20, Status: sched.SPending})
	b.Items = append(b.Items, item{Kind: itBind, Bind: [3]int64{1, 4, 1}})
	return b
}

func genAgentCase(r *vh.Rng) (bindCase, bool) {
	var b bindCase
	nn := r.Range(1, 3)
	type free struct{ cpu, mem, pods, gpu int64 }
	room := map[int64]*free{}
	for i := 1; i <= nn; i++ {
		ns := sched.NodeSpec{ID: int64(i), Has: true, CPU: int64(r.Range(2, 8)) * 500, Mem: int64(r.Range(4, 16)) << 20, Pods: int64(r.Range(4, 12))}
		if r.Chance(1, 2) {
			ns.GPU = int64(r.Range(1, 3))
		}
		b.Nodes = append(b.Nodes, ns)
		room[ns.ID] = &free{ns.CPU, ns.Mem, ns.Pods, ns.GPU}
	}
	b.Jobs = []sched.JobSpec{{ID: 1, Queue: 1}}
	er := r.Fork()
	withEvents := er.Chance(1, 2)
	tid := int64(0)
	if withEvents {
		// pods already on the nodes, some of them terminating
		for _, n := range b.Nodes {
			f := room[n.ID]
			for k := 0; k < er.Range(0, 3); k++ {
				ts := sched.TaskSpec{Job: 1, Role: 1, CPU: int64(er.Range(1, 6)) * 250, Mem: int64(er.Range(1, 6)) << 19,
					Status: vh.Pick(er, []int64{sched.SRunning, sched.SRunning, sched.SBound, sched.SReleasing}), Node: n.ID}
				if f.cpu < ts.CPU || f.mem < ts.Mem || f.pods < 1 {
					continue
				}
				f.cpu -= ts.CPU
				f.mem -= ts.Mem
				f.pods--
				tid++
				ts.ID = tid
				b.Tasks = append(b.Tasks, ts)
			}
		}
	}
	var pending []sched.TaskSpec
	np := r.Range(3, 10)
	for i := 1; i <= np; i++ {
		tid++
		ts := sched.TaskSpec{ID: tid, Job: 1, Role: 1, Status: sched.SPending}
		switch r.Intn(8) {
		case 0:
		case 1:
			ts.CPU = int64(r.Range(1, 4)) * 250
		default:
			ts.CPU = int64(r.Range(1, 8)) * 250
			ts.Mem = int64(r.Range(1, 8)) << 19
			if r.Chance(1, 3) {
				ts.GPU = int64(r.Range(1, 2))
			}
		}
		b.Tasks = append(b.Tasks, ts)
		pending = append(pending, ts)
	}
	b.Workers = int64(r.Range(1, 6))
	b.Exact = r.Chance(1, 2)
	m := r.Range(1, 5)
	sum := map[int64]int64{}
	seen := map[[2]int64]bool{}
	for i := 0; i < int(b.Workers)*m; i++ {
		t := vh.Pick(r, pending)
		c := [3]int64{1, t.ID, int64(r.Range(1, nn))}
		if r.Chance(1, 20) {
			c[2] = 9
		}
		b.Items = append(b.Items, item{Kind: itBind, Bind: c})
		if !seen[[2]int64{c[1], c[2]}] {
			seen[[2]int64{c[1], c[2]}] = true
			sum[c[2]] += t.CPU
		}
	}
	contended := false
	for nid, s := range sum {
		if f, ok := room[nid]; ok && s > f.cpu {
			contended = true
		}
	}
	nt := b.Workers >= 2 && len(b.Items) >= 3 && contended
	if withEvents {
		free := map[int64][4]int64{}
		for id, f := range room {
			free[id] = [4]int64{f.cpu, f.mem, f.pods, f.gpu}
		}
		ev := weaveEvents(er, &b, free, tid, true)
		nt = b.Workers >= 2 && ev
	}
	if b.Exact && !withEvents {
		// bind execution inside random histories (third audit E3): the accepted calls so far are
		// executed -- one context at a time or as one batch -- with random PreBind / Binding faults,
		// somewhere in the middle and at the end
		xr := r.Fork()
		fault := func() item {
			it := item{Kind: vh.Pick(xr, []int64{itFlow, itBatch, itBatch})}
			for _, t := range pending {
				switch {
				case xr.Chance(1, 6):
					it.Fails = append(it.Fails, t.ID)
				case it.Kind == itBatch && xr.Chance(1, 4):
					it.BindFails = append(it.BindFails, t.ID)
				}
			}
			return it
		}
		if xr.Chance(2, 3) {
			at := xr.Range(1, len(b.Items))
			items := append([]item{}, b.Items[:at]...)
			items = append(items, fault())
			b.Items = append(items, b.Items[at:]...)
			if xr.Chance(1, 2) {
				b.Items = append(b.Items, fault())
			}
		}
	}
	return b, nt
}

// prebindCase (directed, seeded mutant C02-r7-1): pod a is admitted, its PreBind fails (the cache
// releases it and re-queues the pod: it must NOT be handed to the binder), pod b -- which fits only
// because of what a released -- is admitted and bound.
func prebindCase(r *vh.Rng) bindCase {
	var b bindCase
	cpu := int64(r.Range(2, 6)) * 1000
	b.Nodes = []sched.NodeSpec{{ID: 1, Has: true, CPU: cpu, Mem: 32 << 20, Pods: 20}}
	a := cpu/2 + int64(r.Range(1, int(cpu/1000)))*500
	if a > cpu {
		a = cpu
	}
	b.Tasks = []sched.TaskSpec{{ID: 1, Job: 1, Role: 1, CPU: a, Mem: 1 << 20, Status: sched.SPending},
		{ID: 2, Job: 1, Role: 1, CPU: a, Mem: 1 << 20, Status: sched.SPending},
		{ID: 3, Job: 1, Role: 1, CPU: 250, Mem: 1 << 20, Status: sched.SPending}}
	b.Jobs = []sched.JobSpec{{ID: 1, Queue: 1}}
	b.Workers = int64(r.Range(1, 3))
	b.Exact = true
	b.Items = []item{{Kind: itBind, Bind: [3]int64{1, 1, 1}}}
	if r.Chance(1, 2) {
		b.Items = append(b.Items, item{Kind: itBind, Bind: [3]int64{1, 3, 1}})
	}
	b.Items = append(b.Items, item{Kind: itFlow, Fails: []int64{1}}, item{Kind: itBind, Bind: [3]int64{1, 2, 1}}, item{Kind: itFlow})
	return b
}

// batchCase (directed, seeded mutant C02-r8-2): several pods are admitted to one node and executed
// as ONE batch; the Binding of exactly one of them fails (optionally the PreBind of another), the
// others ARE bound by the API server.  Then a pod is aimed at the node that fits only into the room
// of a pod that was really bound (refused by a cache that kept it), and a small one that fits anyway.
func batchCase(r *vh.Rng) bindCase {
	var b bindCase
	k := int64(r.Range(2, 4)) // contexts of the batch
	unit := int64(r.Range(1, 3)) * 500
	cpu := unit * (k + 1)
	b.Nodes = []sched.NodeSpec{{ID: 1, Has: true, CPU: cpu, Mem: 64 << 20, Pods: 20}}
	if r.Chance(1, 2) {
		b.Nodes = append(b.Nodes, sched.NodeSpec{ID: 2, Has: true, CPU: cpu, Mem: 64 << 20, Pods: 20})
	}
	for i := int64(1); i <= k; i++ {
		b.Tasks = append(b.Tasks, sched.TaskSpec{ID: i, Job: 1, Role: 1, CPU: unit, Mem: 1 << 20, Status: sched.SPending})
		b.Items = append(b.Items, item{Kind: itBind, Bind: [3]int64{1, i, 1}})
	}
	// after the batch the node has 'unit' free plus what the failed contexts released
	bf := int64(r.Range(1, int(k)))
	batch := item{Kind: itBatch, BindFails: []int64{bf}}
	released := unit
	if k >= 3 && r.Chance(1, 2) {
		pf := bf%k + 1
		batch.Fails = []int64{pf}
		released += unit
	}
	b.Items = append(b.Items, batch)
	// does not fit beside the bound pods; fits as soon as one of them is forgotten
	b.Tasks = append(b.Tasks, sched.TaskSpec{ID: k + 1, Job: 1, Role: 1, CPU: unit + released + 250, Mem: 1 << 20, Status: sched.SPending},
		sched.TaskSpec{ID: k + 2, Job: 1, Role: 1, CPU: unit + released, Mem: 1 << 20, Status: sched.SPending})
	b.Items = append(b.Items, item{Kind: itBind, Bind: [3]int64{1, k + 1, 1}}, item{Kind: itBind, Bind: [3]int64{1, k + 2, 1}}, item{Kind: itBatch})
	b.Jobs = []sched.JobSpec{{ID: 1, Queue: 1}}
	b.Workers = int64(r.Range(1, 3))
	b.Exact = true
	return b
}

func genAgent(rng *vh.Rng, n int, emit func(id string, sel int, in []int64, kind string, nontrivial bool, desc any)) {
	fr := rng.Fork()
	for i := 0; i < max(4, n/50); i++ {
		b := prebindCase(fr.Fork())
		emit(fmt.Sprintf("agent-prebind-%d", i), 3, b.enc(), "bind/agent/prebind", b.batchFaultActs(),
			map[string]any{"directed": "admitted pod whose PreBind fails, then a pod that fits only what it released", "items": len(b.Items)})
	}
	rr := rng.Fork()
	for i := 0; i < max(3, n/60); i++ {
		b := readdCase(rr.Fork())
		emit(fmt.Sprintf("agent-readd-%d", i), 3, b.enc(), "bind/agent/readd", true,
			map[string]any{"directed": "node holding a pod removed and re-added, then a bind that does not fit beside the pod", "items": len(b.Items)})
	}
	qr := rng.Fork()
	for i := 0; i < max(3, n/60); i++ {
		b := podsFullCase(qr.Fork(), true)
		emit(fmt.Sprintf("agent-podsfull-%d", i), 3, b.enc(), "bind/agent/podsfull", true,
			map[string]any{"directed": "pod capacity nearly used up, more small pods than slots", "items": len(b.Items), "workers": b.Workers})
	}
	k := n/3 + 1
	for i := 0; i < k; i++ {
		r := rng.Fork()
		b, nt := genAgentCase(r)
		kind := fmt.Sprintf("bind/agent/exact=%v/events=%v", b.Exact, b.hasEvents())
		if b.executes() {
			kind = fmt.Sprintf("bind/agent/exact=%v/exec=true", b.Exact)
		}
		desc := map[string]any{"nodes": len(b.Nodes), "tasks": len(b.Tasks), "workers": b.Workers, "items": len(b.Items)}
		emit(fmt.Sprintf("agent-%d", i), 3, b.enc(), kind, nt, desc)
	}
	br := rng.Fork()
	for i := 0; i < max(4, n/50); i++ {
		b := batchCase(br.Fork())
		emit(fmt.Sprintf("agent-batch-%d", i), 3, b.enc(), "bind/agent/batch", b.batchFaultActs(),
			map[string]any{"directed": "batch of admitted pods, one Binding fails, then a pod that fits only if a bound pod is forgotten", "items": len(b.Items)})
	}
}

// executes: the history runs the bind flow somewhere
func (b bindCase) executes() bool {
	for _, it := range b.Items {
		if it.Kind == itFlow || it.Kind == itBatch {
			return true
		}
	}
	return false
}

// batchFaultActs (non-triviality of the bind-execution families, computed from the case): some
// execution item names a fault for a task that has a call before it, at least one OTHER call precedes
// the same item or the fault is a PreBind one, and a call to the same node follows the item -- i.e. the
// per-context failure handling has something to get wrong and the admission afterwards can show it.
func (b bindCase) batchFaultActs() bool {
	for i, it := range b.Items {
		if it.Kind != itFlow && it.Kind != itBatch {
			continue
		}
		faulty := map[int64]bool{}
		for _, t := range it.Fails {
			faulty[t] = true
		}
		for _, t := range it.BindFails {
			faulty[t] = true
		}
		node, calls := int64(0), 0
		for _, e := range b.Items[:i] {
			if e.Kind == itBind {
				calls++
				if faulty[e.Bind[1]] {
					node = e.Bind[2]
				}
			}
		}
		if node == 0 || (calls < 2 && len(it.Fails) == 0) {
			continue
		}
		for _, e := range b.Items[i+1:] {
			if e.Kind == itBind && e.Bind[2] == node {
				return true
			}
		}
	}
	return false
}
