package main

import (
	"fmt"
	"reflect"
	"sort"
	"sync"
	"unsafe"

	v1 "k8s.io/api/core/v1"

	agentapi "volcano.sh/volcano/pkg/agentscheduler/api"
	agentcache "volcano.sh/volcano/pkg/agentscheduler/cache"
	"volcano.sh/volcano/pkg/scheduler/api"
	scache "volcano.sh/volcano/pkg/scheduler/cache"

	"verif/harness/internal/sched"
	"verif/harness/internal/vh"
)

// agentNodeInfo reads the NodeInfo behind an entry of the agent cache's exported Nodes map (the
// list item type and its field are unexported; nothing is written through this pointer).
func agentNodeInfo(sc *agentcache.SchedulerCache, name string) *api.NodeInfo {
	raw, ok := sc.Nodes[name]
	if !ok {
		return nil
	}
	item := reflect.ValueOf(raw)
	if item.IsNil() {
		return nil
	}
	f := item.Elem().FieldByName("info")
	return reflect.NewAt(f.Type(), unsafe.Pointer(f.UnsafeAddr())).Elem().Interface().(*api.NodeInfo)
}

// addAgentNode calls the real AddOrUpdateNode.  The mock cache has no scheduling queue, and the
// last statement of AddOrUpdateNode (event_handlers.go 349) notifies it: that nil dereference is
// recovered here (the deferred Unlock has run); everything before it -- NewNodeInfo, the Nodes
// map, NodeList -- is done, which is asserted.
func addAgentNode(sc *agentcache.SchedulerCache, n sched.NodeSpec) {
	func() {
		defer func() { _ = recover() }()
		_ = sc.AddOrUpdateNode(n.Object())
	}()
	ni := agentNodeInfo(sc, sched.NodeName(n.ID))
	if ni == nil || ni.Node == nil || !ni.Ready() {
		panic("agent cache did not take the node")
	}
}

// recovered runs an agent-cache handler whose last statement notifies the scheduling queue the mock
// cache does not have: the nil dereference happens after the cache has been updated and the deferred
// Unlock has run.
func recovered(f func()) {
	defer func() { _ = recover() }()
	f()
}

// runAgent: selector 3.  Every call carries the worker's own TaskInfo (bindContext.SchedCtx.Task)
// with NodeName already set to the chosen node, as CheckAndBindPod does (binder.go 112-113); the
// pods already on nodes and the events in between go through AddPodToCache / UpdatePodInCache /
// DeletePodFromCache / AddOrUpdateNode.
func runAgent(in []int64) ([]int64, []int64) {
	b := decBind(in)
	sc := agentcache.NewDefaultMockSchedulerCache("volcano-agent")
	for _, n := range b.Nodes {
		addAgentNode(sc, n)
	}
	tasks := append([]sched.TaskSpec{}, b.Tasks...)
	sort.Slice(tasks, func(i, j int) bool { return tasks[i].ID < tasks[j].ID })
	spec := map[int64]sched.TaskSpec{}
	curPod := map[int64]*v1.Pod{}
	for _, t := range tasks {
		spec[t.ID] = t
		curPod[t.ID] = t.Pod()
		if t.Node != 0 && t.Status != sched.SSucceeded && t.Status != sched.SFailed {
			p := curPod[t.ID]
			recovered(func() { sc.AddPodToCache(p) })
		}
	}
	for _, it := range b.Items {
		if it.Kind == itPodAdd {
			spec[it.Pod.ID] = it.Pod
		}
	}
	ctxs := make([]*agentapi.BindContext, len(b.Items))
	index := map[*agentapi.BindContext]int{}
	for i, it := range b.Items {
		if it.Kind != itBind {
			continue
		}
		ts, ok := spec[it.Bind[1]]
		if !ok {
			panic("agent stream: call names a task outside the spec")
		}
		ti := api.NewTaskInfo(ts.Pod())
		ti.NodeName = sched.NodeName(it.Bind[2])
		ctxs[i] = &agentapi.BindContext{SchedCtx: &agentapi.SchedulingContext{Task: ti}, Extensions: map[string]scache.BindContextExtension{}}
		index[ctxs[i]] = i
	}
	var evMu sync.Mutex
	step := func(i int) error {
		it := b.Items[i]
		switch it.Kind {
		case itBind:
			return sc.AddBindTask(ctxs[i])
		case itRemoveNode:
			recovered(func() { _ = sc.RemoveNode(sched.NodeName(it.Task)) })
		case itNode:
			o := nodeObject(it.Node)
			recovered(func() { _ = sc.AddOrUpdateNode(o) })
		case itTerminating:
			evMu.Lock()
			old := curPod[it.Task]
			nw := terminatingPod(spec[it.Task])
			curPod[it.Task] = nw
			evMu.Unlock()
			recovered(func() { sc.UpdatePodInCache(old, nw) })
		case itDelete:
			evMu.Lock()
			old := curPod[it.Task]
			evMu.Unlock()
			recovered(func() { sc.DeletePodFromCache(old) })
		case itPodAdd:
			p := it.Pod.Pod()
			evMu.Lock()
			curPod[it.Pod.ID] = p
			evMu.Unlock()
			recovered(func() { sc.AddPodToCache(p) })
		case itUnbound:
			evMu.Lock()
			old := curPod[it.Task]
			nw := touchedPod(old, !it.Flag)
			curPod[it.Task] = nw
			evMu.Unlock()
			recovered(func() { sc.UpdatePodInCache(old, nw) })
		case itBound:
			node := ""
			for _, n := range sched.SortedIDs(sc.Nodes, func(n string) int64 { return sched.ParseID(n) }) {
				ni := agentNodeInfo(sc, sched.NodeName(n))
				for k, t := range ni.Tasks {
					if node == "" && sched.ParseID(string(k)) == it.Task && t.Status == api.Binding {
						node = sched.NodeName(n)
					}
				}
			}
			if node != "" {
				evMu.Lock()
				old := curPod[it.Task]
				nw := touchedPod(old, true)
				nw.Spec.NodeName = node
				curPod[it.Task] = nw
				evMu.Unlock()
				recovered(func() { sc.UpdatePodInCache(old, nw) })
			}
		}
		return nil
	}
	order, errs := runConcurrent(len(b.Items), int(b.Workers), b.Exact, step,
		func() []int {
			out := []int{}
			for len(sc.BindFlowChannel) > 0 {
				out = append(out, index[<-sc.BindFlowChannel])
			}
			return out
		}, func(i int) bool { return b.Items[i].Kind != itBind })
	for len(sc.BindFlowChannel) > 0 {
		<-sc.BindFlowChannel
	}
	replay := b
	replay.Items = nil
	got := []int64{int64(len(order))}
	for _, i := range order {
		replay.Items = append(replay.Items, b.Items[i])
		if b.Items[i].Kind != itBind {
			got = append(got, 9)
			continue
		}
		cls := errClass(errs[i])
		if !b.Exact && cls != 0 {
			cls = 1
		}
		got = append(got, cls)
		// a refused call must leave the worker's task with the status it had
		if errs[i] != nil && ctxs[i].SchedCtx.Task.Status != api.Pending {
			panic(fmt.Sprintf("refused call %d left its task in status %v", i, ctxs[i].SchedCtx.Task.Status))
		}
	}
	got = append(got, -112)
	nids := sched.SortedIDs(sc.Nodes, func(n string) int64 { return sched.ParseID(n) })
	got = append(got, int64(len(nids)))
	held := []int64{int64(len(nids))}
	for _, n := range nids {
		ni := agentNodeInfo(sc, sched.NodeName(n))
		got = append(got, sched.EncNode(ni, n)...)
		// (the agent stream may bind one pod to several nodes through separate TaskInfos: every
		// accepted call is a copy on its node, so what the nodes hold already is every reservation)
		tids := sched.SortedIDs(ni.Tasks, func(u api.TaskID) int64 { return sched.ParseID(string(u)) })
		held = append(held, n, int64(len(tids)))
		held = append(held, tids...)
	}
	lastLaw = append(replay.finalSpecs().enc(), held...)
	return replay.enc(), got
}

func genAgentCase(r *vh.Rng) (bindCase, bool) {
	var b bindCase
	nn := r.Range(1, 3)
	type free struct{ cpu, mem, pods, gpu int64 }
	room := map[int64]*free{}
	for i := 1; i <= nn; i++ {
		ns := sched.NodeSpec{ID: int64(i), Has: true, CPU: int64(r.Range(2, 8)) * 500, Mem: int64(r.Range(4, 16)) << 20, Pods: int64(r.Range(4, 12))}
		if r.Chance(1, 2) {
			ns.GPU = int64(r.Range(1, 3))
		}
		b.Nodes = append(b.Nodes, ns)
		room[ns.ID] = &free{ns.CPU, ns.Mem, ns.Pods, ns.GPU}
	}
	b.Jobs = []sched.JobSpec{{ID: 1, Queue: 1}}
	er := r.Fork()
	withEvents := er.Chance(1, 2)
	tid := int64(0)
	if withEvents {
		// pods already on the nodes, some of them terminating
		for _, n := range b.Nodes {
			f := room[n.ID]
			for k := 0; k < er.Range(0, 3); k++ {
				ts := sched.TaskSpec{Job: 1, Role: 1, CPU: int64(er.Range(1, 6)) * 250, Mem: int64(er.Range(1, 6)) << 19,
					Status: vh.Pick(er, []int64{sched.SRunning, sched.SRunning, sched.SBound, sched.SReleasing}), Node: n.ID}
				if f.cpu < ts.CPU || f.mem < ts.Mem || f.pods < 1 {
					continue
				}
				f.cpu -= ts.CPU
				f.mem -= ts.Mem
				f.pods--
				tid++
				ts.ID = tid
				b.Tasks = append(b.Tasks, ts)
			}
		}
	}
	var pending []sched.TaskSpec
	np := r.Range(3, 10)
	for i := 1; i <= np; i++ {
		tid++
		ts := sched.TaskSpec{ID: tid, Job: 1, Role: 1, Status: sched.SPending}
		switch r.Intn(8) {
		case 0:
		case 1:
			ts.CPU = int64(r.Range(1, 4)) * 250
		default:
			ts.CPU = int64(r.Range(1, 8)) * 250
			ts.Mem = int64(r.Range(1, 8)) << 19
			if r.Chance(1, 3) {
				ts.GPU = int64(r.Range(1, 2))
			}
		}
		b.Tasks = append(b.Tasks, ts)
		pending = append(pending, ts)
	}
	b.Workers = int64(r.Range(1, 6))
	b.Exact = r.Chance(1, 2)
	m := r.Range(1, 5)
	sum := map[int64]int64{}
	seen := map[[2]int64]bool{}
	for i := 0; i < int(b.Workers)*m; i++ {
		t := vh.Pick(r, pending)
		c := [3]int64{1, t.ID, int64(r.Range(1, nn))}
		if r.Chance(1, 20) {
			c[2] = 9
		}
		b.Items = append(b.Items, item{Kind: itBind, Bind: c})
		if !seen[[2]int64{c[1], c[2]}] {
			seen[[2]int64{c[1], c[2]}] = true
			sum[c[2]] += t.CPU
		}
	}
	contended := false
	for nid, s := range sum {
		if f, ok := room[nid]; ok && s > f.cpu {
			contended = true
		}
	}
	nt := b.Workers >= 2 && len(b.Items) >= 3 && contended
	if withEvents {
		free := map[int64][4]int64{}
		for id, f := range room {
			free[id] = [4]int64{f.cpu, f.mem, f.pods, f.gpu}
		}
		ev := weaveEvents(er, &b, free, tid, true)
		nt = b.Workers >= 2 && ev
	}
	return b, nt
}

func genAgent(rng *vh.Rng, n int, emit func(id string, sel int, in []int64, kind string, nontrivial bool, desc any)) {
	qr := rng.Fork()
	for i := 0; i < max(3, n/60); i++ {
		b := podsFullCase(qr.Fork(), true)
		emit(fmt.Sprintf("agent-podsfull-%d", i), 3, b.enc(), "bind/agent/podsfull", true,
			map[string]any{"directed": "pod capacity nearly used up, more small pods than slots", "items": len(b.Items), "workers": b.Workers})
	}
	k := n/3 + 1
	for i := 0; i < k; i++ {
		r := rng.Fork()
		b, nt := genAgentCase(r)
		kind := fmt.Sprintf("bind/agent/exact=%v/events=%v", b.Exact, b.hasEvents())
		desc := map[string]any{"nodes": len(b.Nodes), "tasks": len(b.Tasks), "workers": b.Workers, "items": len(b.Items)}
		emit(fmt.Sprintf("agent-%d", i), 3, b.enc(), kind, nt, desc)
	}
}
