package main

import (
	"fmt"

	"verif/harness/internal/sched"
	"verif/harness/internal/vh"
)

// Directed family "pipefirst" of the cycle stream (selector 1, laws 102 + 113).
//
// On a node with terminating pods a BIG task is attempted first and can only be pipelined (it fits
// FutureIdle = Idle + Releasing - Pipelined, not Idle).  Smaller tasks follow -- of the same job
// (lower task priority) or of later jobs -- that
//
//	fit Idle but not what FutureIdle has become   (the case a predicate looking at Idle alone lets through),
//	fit both, or fit neither.
//
// Allocating one of the first kind takes idle resources the pipelined task was counting on:
// Pipelined > Idle + Releasing, the second clause of the property.  The real allocate action picks
// among equally scored feasible nodes at random (util.SelectBestNodeAndScore) and walks Go maps, so
// in the random clusters whether such a pair meets on one node differs from run to run; here every
// task has exactly ONE feasible node (the other nodes are full, or lack the memory / the GPU the
// task asks for), job order is fixed by the job ids (equal priorities, none ready: UID order) and
// task order by the pod priorities, so the outcome is the same on every run.
type pfNode struct {
	id, cpu, idle, rel int64
}

func pipefirstSpec(r *vh.Rng, variant int) (sched.CycleSpec, string) {
	names := []string{"same-job", "other-job-bound", "gang-bound", "after-a-fitting-one", "controls", "two-nodes"}
	spec := sched.CycleSpec{PGPhase: map[int64]int64{}}
	spec.Queues = []sched.QueueSpec{{ID: 1, Open: true, Weight: 1}}
	spec.Proportion = r.Chance(1, 4)
	spec.Actions = vh.Pick(r, [][]int64{{1}, {1}, {1}, {1, 2}, {1, 1}})
	tid := int64(0)
	add := func(t sched.TaskSpec) int64 {
		tid++
		t.ID = tid
		t.Role = 1
		spec.Tasks = append(spec.Tasks, t)
		return tid
	}
	// job 9 holds what already runs / terminates
	spec.Jobs = append(spec.Jobs, sched.JobSpec{ID: 9, Queue: 1, Min: 0})
	spec.PGPhase[9] = 3
	// scenario node(s)
	scen := 1
	if variant == 5 {
		scen = 2
	}
	nodes := []pfNode{}
	for s := 1; s <= scen; s++ {
		unit := int64(vh.Pick(r, []int64{500, 1000}))
		rel := unit * int64(r.Range(3, 5))  // what terminating pods hold
		idle := unit * int64(r.Range(3, 5)) // what is idle now
		run := unit * int64(r.Range(0, 2))  // what keeps running
		ns := sched.NodeSpec{ID: int64(s), Has: true, CPU: rel + idle + run, Mem: 64 << 20, Pods: 30}
		if s == 2 {
			ns.Mem = 16 << 20 // the tasks of scenario 1 ask for more memory than node 2 has ...
			ns.GPU = 4        // ... those of scenario 2 for a GPU node 1 lacks
		}
		spec.Nodes = append(spec.Nodes, ns)
		nterm := r.Range(1, 2)
		if nterm == 2 && rel >= 2*unit {
			add(sched.TaskSpec{Job: 9, CPU: unit, Mem: 1 << 19, Status: sched.SReleasing, Node: ns.ID})
			add(sched.TaskSpec{Job: 9, CPU: rel - unit, Mem: 1 << 19, Status: sched.SReleasing, Node: ns.ID})
		} else {
			add(sched.TaskSpec{Job: 9, CPU: rel, Mem: 1 << 19, Status: sched.SReleasing, Node: ns.ID})
		}
		if run > 0 {
			add(sched.TaskSpec{Job: 9, CPU: run, Mem: 1 << 19, Status: vh.Pick(r, []int64{sched.SRunning, sched.SBound}), Node: ns.ID})
		}
		nodes = append(nodes, pfNode{ns.ID, ns.CPU, idle, rel})
	}
	// full nodes: nothing fits, now or later
	for k := 0; k < r.Range(0, 2); k++ {
		id := int64(len(spec.Nodes) + 1)
		cpu := int64(r.Range(2, 8)) * 1000
		spec.Nodes = append(spec.Nodes, sched.NodeSpec{ID: id, Has: true, CPU: cpu, Mem: 64 << 20, Pods: 30})
		add(sched.TaskSpec{Job: 9, CPU: cpu, Mem: 1 << 19, Status: sched.SRunning, Node: id})
	}
	jid := int64(0)
	newJob := func(min int64) int64 {
		jid++
		spec.Jobs = append(spec.Jobs, sched.JobSpec{ID: jid, Queue: 1, Min: min})
		spec.PGPhase[jid] = 2
		return jid
	}
	for _, n := range nodes {
		unit := int64(250)
		mem, gpu := int64(24<<20), int64(0) // only node 1 has that much memory
		if n.id == 2 {
			mem, gpu = 1<<20, 1 // only node 2 has a GPU
		}
		if scen == 1 {
			mem = 1 << 20
		}
		pend := func(job, cpu, prio int64) {
			add(sched.TaskSpec{Job: job, Prio: prio, CPU: cpu, Mem: mem, GPU: gpu, Status: sched.SPending})
		}
		fut := n.idle + n.rel
		// the big one: more than Idle and more than Releasing, at most FutureIdle
		lo := n.idle
		if n.rel > lo {
			lo = n.rel
		}
		big := lo + unit*int64(r.Range(1, int((fut-lo)/unit)))
		left := fut - big // FutureIdle once the big one is pipelined (< Idle)
		// fits Idle, not the FutureIdle that is left
		between := func(idle, left int64) int64 { return left + unit*int64(r.Range(1, int((idle-left)/unit))) }
		switch variant {
		case 0: // same job, lower task priority
			j := newJob(int64(r.Range(1, 2)))
			pend(j, big, 2)
			pend(j, between(n.idle, left), int64(r.Range(0, 1)))
		case 1, 5: // a later job whose only task then gets bound
			j1 := newJob(1)
			pend(j1, big, 1)
			j2 := newJob(1)
			pend(j2, between(n.idle, left), int64(r.Range(0, 2)))
		case 2: // a later gang of two that becomes ready, is committed and bound
			j1 := newJob(1)
			pend(j1, big, 1)
			j2 := newJob(2)
			s1 := between(n.idle, left)
			pend(j2, s1, 1)
			if n.idle-s1 >= unit {
				pend(j2, unit*int64(r.Range(1, int((n.idle-s1)/unit))), 0)
			} else {
				pend(j2, 0, 0) // best effort
			}
		case 3: // first one that fits both (rightly allocated), then one that fits Idle only
			j1 := newJob(1)
			pend(j1, big, 2)
			idle := n.idle
			if left >= unit {
				small := unit * int64(r.Range(1, int(left/unit)))
				pend(j1, small, 1)
				idle -= small
				left -= small
			}
			j2 := newJob(1)
			pend(j2, between(idle, left), 0)
		case 4: // controls: fits neither / fits both / nothing pipelined first
			j1 := newJob(1)
			pend(j1, big, 2)
			j2 := newJob(1)
			pend(j2, n.idle+unit*int64(r.Range(1, 4)), 0) // neither (or FutureIdle only when nothing were pipelined)
			if left >= unit {
				j3 := newJob(1)
				pend(j3, unit*int64(r.Range(1, int(left/unit))), 0) // both
			}
		}
	}
	return spec, names[variant]
}

func genPipefirst(rng *vh.Rng, n int, emit func(id string, sel int, in []int64, kind string, nontrivial bool, desc any)) {
	for i := 0; i < n; i++ {
		r := rng.Fork()
		spec, name := pipefirstSpec(r, i%6)
		pend := 0
		for _, t := range spec.Tasks {
			if t.Status == sched.SPending {
				pend++
			}
		}
		emit(fmt.Sprintf("pipefirst-%d", i), 1, spec.Enc(sched.EpsUnits), fmt.Sprintf("pipefirst/%s/actions=%v", name, spec.Actions), true,
			map[string]any{"directed": "a big task is pipelined first, smaller ones follow: " + name, "nodes": len(spec.Nodes), "jobs": len(spec.Jobs), "tasks": len(spec.Tasks), "pending": pend})
	}
}
