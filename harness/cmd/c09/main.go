// C09 harness: the real /jobs/validate and /jobs/mutate admission handlers
// (reached through router.ForEachAdmission, fake queue lister / informer
// index), plus validate.topoSort through the verif hook.
package main

import (
	"encoding/json"
	"fmt"
	"sort"
	"strconv"
	"strings"
	"time"

	admissionv1 "k8s.io/api/admission/v1"
	v1 "k8s.io/api/core/v1"
	"k8s.io/apimachinery/pkg/api/resource"
	metav1 "k8s.io/apimachinery/pkg/apis/meta/v1"
	"k8s.io/apimachinery/pkg/runtime"
	k8svalidation "k8s.io/apimachinery/pkg/util/validation"
	"k8s.io/client-go/tools/cache"

	"verif/harness/internal/vh"
	batch "volcano.sh/apis/pkg/apis/batch/v1alpha1"
	bus "volcano.sh/apis/pkg/apis/bus/v1alpha1"
	sched "volcano.sh/apis/pkg/apis/scheduling/v1beta1"
	schedlister "volcano.sh/apis/pkg/client/listers/scheduling/v1beta1"
	"volcano.sh/volcano/cmd/webhook-manager/app/options"
	jobhelpers "volcano.sh/volcano/pkg/controllers/job/helpers"
	_ "volcano.sh/volcano/pkg/webhooks/admission/jobs/mutate"
	"volcano.sh/volcano/pkg/webhooks/admission/jobs/validate"
	"volcano.sh/volcano/pkg/webhooks/router"
)

// ---------------------------------------------------------------- name tables

type table struct {
	s2i map[string]int64
	i2s map[int64]string
}

func mkTable(m map[int64]string) *table {
	t := &table{s2i: map[string]int64{}, i2s: m}
	for i, s := range m {
		if _, dup := t.s2i[s]; dup {
			panic("duplicate table entry " + s)
		}
		t.s2i[s] = i
	}
	return t
}
func (t *table) str(i int64) string {
	s, ok := t.i2s[i]
	if !ok {
		panic(fmt.Sprintf("harness: id %d not in table", i))
	}
	return s
}
func (t *table) id(s string) int64 {
	i, ok := t.s2i[s]
	if !ok {
		panic(fmt.Sprintf("harness: string %q not in table", s))
	}
	return i
}

var long60 = strings.Repeat("a", 60)

// task names; 1000+i = "default<i>"
var taskNames = func() *table {
	m := map[int64]string{0: "", 1: "master", 2: "worker", 3: "ps", 4: "task-a", 5: "task-b", 6: "task-c", 7: "t7", 8: "t8",
		9: "a.b", 20: "Master", 21: "a_b", 22: "bad!name", 23: long60}
	for i := 0; i < 12; i++ {
		m[int64(1000+i)] = "default" + strconv.Itoa(i)
	}
	return mkTable(m)
}()

// what the Kubernetes validators say about them (checked against the real
// validators at start-up, see selfCheck)
var badSub = []int64{0, 20, 21, 22} // not a DNS-1123 subdomain (pod template name)
var badTQ = []int64{22, 23}         // makes jobname-taskname-index an invalid qualified name
var jobNames = mkTable(map[int64]string{2001: "job-a", 2002: "j2", 2011: "Job_X", 2010: "job!bad"})
var badJQ = []int64{2010}
var badTm = []int64{10, 11, 12, 13}
var claimNames = mkTable(map[int64]string{0: "", 1: "pvc-a", 2: "pvc-b", 3: "pvc-c", 10: "Bad_PVC"})
var badPV = []int64{10}
var pluginNames = mkTable(map[int64]string{1: "ssh", 2: "env", 3: "svc", 4: "tensorflow", 5: "mpi", 6: "pytorch", 7: "hcclrank", 8: "ray",
	9: "bogus", 10: "nonexistent"})
var queueNames = mkTable(map[int64]string{0: "", 1: "root", 2: "default", 3: "q3", 4: "q4", 5: "q5", 6: "q6", 7: "q7"})
var queueStates = mkTable(map[int64]string{0: "", 1: "Open", 2: "Closed", 3: "Closing", 4: "Unknown"})
var schedNames = mkTable(map[int64]string{0: "", 1: "volcano", 2: "other-sched", 3: "custom"})
var dnsNames = mkTable(map[int64]string{0: "", 1: "ClusterFirstWithHostNet", 2: "ClusterFirst", 3: "Default"})
var iterNames = mkTable(map[int64]string{0: "", 1: "any", 2: "all"})
var eventNames = mkTable(map[int64]string{0: "", 1: string(bus.AnyEvent), 2: string(bus.PodFailedEvent), 3: string(bus.PodEvictedEvent),
	4: string(bus.PodPendingEvent), 5: string(bus.JobUnknownEvent), 6: string(bus.TaskCompletedEvent), 7: string(bus.TaskFailedEvent),
	8: string(bus.JobUpdatedEvent), 9: string(bus.OutOfSyncEvent), 10: string(bus.CommandIssuedEvent), 11: string(bus.PodRunningEvent),
	12: "Bogus"})
var actionNames = mkTable(map[int64]string{0: "", 1: string(bus.AbortJobAction), 2: string(bus.RestartJobAction), 3: string(bus.RestartTaskAction),
	4: string(bus.RestartPodAction), 5: string(bus.RestartPartitionAction), 6: string(bus.TerminateJobAction), 7: string(bus.CompleteJobAction),
	8: string(bus.ResumeJobAction), 9: string(bus.SyncJobAction), 10: string(bus.EnqueueAction), 11: string(bus.SyncQueueAction),
	12: string(bus.OpenQueueAction), 13: string(bus.CloseQueueAction), 14: "Nope"})

// ---------------------------------------------------------------- abstract objects (mirror of Model.v)

type mPolicy struct {
	Action, Event int64
	Events        []int64
	Exit          *int64
	Timeout       int64
}
type mPart struct{ Total, Size, Min, NT int64 }
type mTask struct {
	Name, Replicas int64
	MinAvail       *int64
	Tm             int64
	HostNet        bool
	DNS            int64
	Policies       []mPolicy
	MaxRetry       int64
	HasDeps        bool
	Deps           []int64
	Iter           int64
	Part           *mPart
}
type mVol struct {
	Mount, CName int64
	Claim        *int64
}
type mPlugin struct{ Name, Master, Args int64 }

const argsUnparsable = 99
type mJob struct {
	Name       int64
	Tasks      []mTask
	MinAvail   int64
	Policies   []mPolicy
	Vols       []mVol
	HasPlugins bool
	Plugins    []mPlugin
	Queue      int64
	Sched      int64
	MaxRetry   int64
	Prio       int64
	NT         int64
	Rest       int64
	Term       bool // metadata.deletionTimestamp set: the job is Terminating, a finalizer is pending
}
type mQueue struct {
	Name, State, Parent int64
	Term                bool // metadata.deletionTimestamp set, a finalizer keeps the object
}

func p64(x int64) *int64 { return &x }

// ---- token encoding (the format Entry.v decodes)

func encOpt(out []int64, p *int64) []int64 {
	if p == nil {
		return append(out, 0)
	}
	return append(out, 1, *p)
}
func encList(out []int64, l []int64) []int64 {
	out = append(out, int64(len(l)))
	return append(out, l...)
}
func encPolicies(out []int64, ps []mPolicy) []int64 {
	out = append(out, int64(len(ps)))
	for _, p := range ps {
		out = append(out, p.Action, p.Event)
		out = encList(out, p.Events)
		out = encOpt(out, w32p(p.Exit))
		out = append(out, p.Timeout)
	}
	return out
}
// every int32 field leaves the generator as a number an int32 can hold (what the object built
// from it will contain); the injectors below are written not to rely on this net
func w32(x int64) int64 { return int64(int32(x)) }
func w32p(p *int64) *int64 {
	if p == nil {
		return nil
	}
	return p64(w32(*p))
}

func encTask(out []int64, t mTask) []int64 {
	out = append(out, t.Name, w32(t.Replicas))
	out = encOpt(out, w32p(t.MinAvail))
	out = append(out, t.Tm, vh.B(t.HostNet), t.DNS)
	out = encPolicies(out, t.Policies)
	out = append(out, w32(t.MaxRetry))
	if t.HasDeps {
		out = append(out, 1)
		out = encList(out, t.Deps)
		out = append(out, t.Iter)
	} else {
		out = append(out, 0)
	}
	if t.Part != nil {
		out = append(out, 1, w32(t.Part.Total), w32(t.Part.Size), w32(t.Part.Min), t.Part.NT)
	} else {
		out = append(out, 0)
	}
	return out
}
func tagTok(tagged bool, out []int64, i int64) []int64 {
	if tagged {
		return append(out, -100-i)
	}
	return out
}
func encJob(out []int64, j mJob, tagged bool) []int64 {
	out = tagTok(tagged, out, 1)
	out = append(out, j.Name)
	out = tagTok(tagged, out, 2)
	out = append(out, int64(len(j.Tasks)))
	for _, t := range j.Tasks {
		out = encTask(out, t)
	}
	out = tagTok(tagged, out, 3)
	out = append(out, w32(j.MinAvail))
	out = tagTok(tagged, out, 4)
	out = encPolicies(out, j.Policies)
	out = tagTok(tagged, out, 5)
	out = append(out, int64(len(j.Vols)))
	for _, v := range j.Vols {
		out = append(out, v.Mount, v.CName)
		out = encOpt(out, v.Claim)
	}
	out = tagTok(tagged, out, 6)
	if j.HasPlugins {
		out = append(out, 1, int64(len(j.Plugins)))
		for _, p := range j.Plugins {
			out = append(out, p.Name, p.Master, p.Args)
		}
	} else {
		out = append(out, 0)
	}
	out = tagTok(tagged, out, 7)
	return append(out, j.Queue, j.Sched, w32(j.MaxRetry), j.Prio, j.NT, j.Rest, vh.B(j.Term))
}
func encQueues(out []int64, qs []mQueue) []int64 {
	out = append(out, int64(len(qs)))
	for _, q := range qs {
		out = append(out, q.Name, q.State, q.Parent, vh.B(q.Term))
	}
	return out
}
func encOracles(out []int64) []int64 {
	out = encList(out, badSub)
	out = encList(out, badJQ)
	out = encList(out, badTQ)
	out = encList(out, badTm)
	return encList(out, badPV)
}

type rd struct {
	t   []int64
	i   int
	bad bool // an int32 field of the API types was given a number outside int32
}

// i32 reads an int32 field.  A number outside int32 cannot reach the webhook (JSON decoding of
// the request fails): the case is undecodable input, for the model (Entry.dI32) and here alike.
func (r *rd) i32() int64 {
	v := r.z()
	if v < -2147483648 || v > 2147483647 {
		r.bad = true
	}
	return v
}
func (r *rd) optI32() *int64 {
	if r.z() == 0 {
		return nil
	}
	return p64(r.i32())
}

var badInput = []int64{-999999}

func (r *rd) z() int64 { v := r.t[r.i]; r.i++; return v }
func (r *rd) opt() *int64 {
	if r.z() == 0 {
		return nil
	}
	return p64(r.z())
}
func (r *rd) list() []int64 {
	n := int(r.z())
	l := make([]int64, 0, n)
	for i := 0; i < n; i++ {
		l = append(l, r.z())
	}
	return l
}
func (r *rd) policies() []mPolicy {
	n := int(r.z())
	ps := make([]mPolicy, 0, n)
	for i := 0; i < n; i++ {
		p := mPolicy{Action: r.z(), Event: r.z()}
		p.Events = r.list()
		p.Exit = r.optI32()
		p.Timeout = r.z()
		ps = append(ps, p)
	}
	return ps
}
func (r *rd) task() mTask {
	t := mTask{Name: r.z(), Replicas: r.i32()}
	t.MinAvail = r.optI32()
	t.Tm = r.z()
	t.HostNet = r.z() != 0
	t.DNS = r.z()
	t.Policies = r.policies()
	t.MaxRetry = r.i32()
	if r.z() != 0 {
		t.HasDeps = true
		t.Deps = r.list()
		t.Iter = r.z()
	}
	if r.z() != 0 {
		t.Part = &mPart{r.i32(), r.i32(), r.i32(), r.z()}
	}
	return t
}
func (r *rd) job() mJob {
	j := mJob{Name: r.z()}
	n := int(r.z())
	for i := 0; i < n; i++ {
		j.Tasks = append(j.Tasks, r.task())
	}
	j.MinAvail = r.i32()
	j.Policies = r.policies()
	n = int(r.z())
	for i := 0; i < n; i++ {
		v := mVol{Mount: r.z(), CName: r.z()}
		v.Claim = r.opt()
		j.Vols = append(j.Vols, v)
	}
	if r.z() != 0 {
		j.HasPlugins = true
		n = int(r.z())
		for i := 0; i < n; i++ {
			j.Plugins = append(j.Plugins, mPlugin{r.z(), r.z(), r.z()})
		}
	}
	j.Queue, j.Sched, j.MaxRetry, j.Prio, j.NT, j.Rest = r.z(), r.z(), r.i32(), r.z(), r.z(), r.z()
	j.Term = r.z() != 0
	return j
}
func (r *rd) queues() []mQueue {
	n := int(r.z())
	qs := make([]mQueue, 0, n)
	for i := 0; i < n; i++ {
		qs = append(qs, mQueue{r.z(), r.z(), r.z(), r.z() != 0})
	}
	return qs
}
func (r *rd) skipOracles() {
	for i := 0; i < 5; i++ {
		r.list()
	}
}

// ---------------------------------------------------------------- abstract -> real objects

const tmAnno = "verif/tm"

func container(name, image string) v1.Container { return v1.Container{Name: name, Image: image} }
func cpu(c *v1.Container, req, lim string) {
	c.Resources.Requests = v1.ResourceList{}
	c.Resources.Limits = v1.ResourceList{}
	if req != "" {
		c.Resources.Requests[v1.ResourceCPU] = resource.MustParse(req)
	}
	if lim != "" {
		c.Resources.Limits[v1.ResourceCPU] = resource.MustParse(lim)
	}
}

// template catalog: id -> (pod template, task topology policy)
func buildTemplate(id int64) (v1.PodTemplateSpec, batch.NumaPolicy) {
	t := v1.PodTemplateSpec{}
	t.Annotations = map[string]string{tmAnno: strconv.FormatInt(id, 10)}
	var topo batch.NumaPolicy
	switch id {
	case 1:
		t.Spec.Containers = []v1.Container{container("c", "busybox")}
	case 2:
		t.Spec.Containers = []v1.Container{container("c1", "busybox"), container("c2", "nginx")}
		t.Labels = map[string]string{"app": "x"}
	case 3:
		c := container("c", "busybox")
		cpu(&c, "2", "2")
		t.Spec.Containers = []v1.Container{c}
		topo = batch.Restricted
	case 4:
		t.Spec.Containers = []v1.Container{container("c", "busybox")}
		t.Spec.RestartPolicy = v1.RestartPolicyOnFailure
		topo = batch.None
	case 10: // no containers
	case 11: // image missing
		t.Spec.Containers = []v1.Container{container("c", "")}
	case 12: // request above limit
		c := container("c", "busybox")
		cpu(&c, "6", "4")
		t.Spec.Containers = []v1.Container{c}
	case 13: // topology policy with a fractional cpu request
		c := container("c", "busybox")
		cpu(&c, "500m", "500m")
		t.Spec.Containers = []v1.Container{c}
		topo = batch.BestEffort
	default:
		panic(fmt.Sprintf("harness: template id %d", id))
	}
	return t, topo
}

func buildNT(id int64) *batch.NetworkTopologySpec {
	two := 2
	switch id {
	case 0:
		return nil
	case 1:
		return &batch.NetworkTopologySpec{Mode: batch.HardNetworkTopologyMode, HighestTierAllowed: &two}
	case 2:
		return &batch.NetworkTopologySpec{Mode: batch.HardNetworkTopologyMode, HighestTierName: "tier-x"}
	case 3:
		return &batch.NetworkTopologySpec{Mode: batch.HardNetworkTopologyMode, HighestTierAllowed: &two, HighestTierName: "tier-x"}
	}
	panic("harness: nt id")
}
func absNT(n *batch.NetworkTopologySpec) int64 {
	if n == nil {
		return 0
	}
	var id int64
	if n.HighestTierAllowed != nil {
		id |= 1
	}
	if n.HighestTierName != "" {
		id |= 2
	}
	if id == 0 {
		panic("harness: unexpected network topology")
	}
	return id
}

func buildPolicies(ps []mPolicy) []batch.LifecyclePolicy {
	var out []batch.LifecyclePolicy
	for _, p := range ps {
		lp := batch.LifecyclePolicy{Action: bus.Action(actionNames.str(p.Action)), Event: bus.Event(eventName(p.Event))}
		for _, e := range p.Events {
			lp.Events = append(lp.Events, bus.Event(eventName(e)))
		}
		if p.Exit != nil {
			c := int32(*p.Exit)
			lp.ExitCode = &c
		}
		if p.Timeout != 0 {
			lp.Timeout = &metav1.Duration{Duration: time.Duration(p.Timeout) * time.Second}
		}
		out = append(out, lp)
	}
	return out
}

// an event id 0 inside an Events list is the empty string, which the table handles
func eventName(e int64) string { return eventNames.str(e) }

func absPolicies(ps []batch.LifecyclePolicy) []mPolicy {
	var out []mPolicy
	for _, p := range ps {
		m := mPolicy{Action: actionNames.id(string(p.Action)), Event: eventNames.id(string(p.Event))}
		for _, e := range p.Events {
			m.Events = append(m.Events, eventNames.id(string(e)))
		}
		if p.ExitCode != nil {
			m.Exit = p64(int64(*p.ExitCode))
		}
		if p.Timeout != nil {
			m.Timeout = int64(p.Timeout.Duration / time.Second)
		}
		out = append(out, m)
	}
	return out
}

func buildClaim(id int64) *v1.PersistentVolumeClaimSpec {
	return &v1.PersistentVolumeClaimSpec{
		AccessModes: []v1.PersistentVolumeAccessMode{v1.ReadWriteOnce},
		Resources: v1.VolumeResourceRequirements{Requests: v1.ResourceList{
			v1.ResourceStorage: resource.MustParse(fmt.Sprintf("%dGi", id))}},
	}
}
func absClaim(c *v1.PersistentVolumeClaimSpec) int64 {
	q := c.Resources.Requests[v1.ResourceStorage]
	return q.Value() >> 30
}

func mountStr(id int64) string {
	if id == 0 {
		return ""
	}
	return fmt.Sprintf("/data%d", id)
}
func mountID(s string) int64 {
	if s == "" {
		return 0
	}
	n, err := strconv.ParseInt(strings.TrimPrefix(s, "/data"), 10, 64)
	if err != nil {
		panic("harness: mount path " + s)
	}
	return n
}
func prioStr(id int64) string {
	if id == 0 {
		return ""
	}
	return fmt.Sprintf("prio-%d", id)
}
func prioID(s string) int64 {
	if s == "" {
		return 0
	}
	n, err := strconv.ParseInt(strings.TrimPrefix(s, "prio-"), 10, 64)
	if err != nil {
		panic("harness: priority class " + s)
	}
	return n
}

func buildJob(m mJob) *batch.Job {
	j := &batch.Job{}
	j.APIVersion = "batch.volcano.sh/v1alpha1"
	j.Kind = "Job"
	j.Name = jobNames.str(m.Name)
	j.Namespace = "default"
	if m.Term {
		// deleted, a finalizer keeps the object: what the API server sends for later writes
		ts := metav1.NewTime(time.Unix(1700000000, 0))
		j.DeletionTimestamp = &ts
		j.Finalizers = []string{"verif.example/hold"}
	}
	s := &j.Spec
	for _, t := range m.Tasks {
		ts := batch.TaskSpec{Name: taskNames.str(t.Name), Replicas: int32(t.Replicas), MaxRetry: int32(t.MaxRetry)}
		if t.MinAvail != nil {
			v := int32(*t.MinAvail)
			ts.MinAvailable = &v
		}
		ts.Template, ts.TopologyPolicy = buildTemplate(t.Tm)
		ts.Template.Spec.HostNetwork = t.HostNet
		ts.Template.Spec.DNSPolicy = v1.DNSPolicy(dnsNames.str(t.DNS))
		ts.Policies = buildPolicies(t.Policies)
		if t.HasDeps {
			d := &batch.DependsOn{Iteration: batch.Iteration(iterNames.str(t.Iter))}
			for _, n := range t.Deps {
				d.Name = append(d.Name, taskNames.str(n))
			}
			ts.DependsOn = d
		}
		if t.Part != nil {
			ts.PartitionPolicy = &batch.PartitionPolicySpec{TotalPartitions: int32(t.Part.Total), PartitionSize: int32(t.Part.Size),
				MinPartitions: int32(t.Part.Min), NetworkTopology: buildNT(t.Part.NT)}
		}
		s.Tasks = append(s.Tasks, ts)
	}
	s.MinAvailable = int32(m.MinAvail)
	s.Policies = buildPolicies(m.Policies)
	for _, v := range m.Vols {
		vs := batch.VolumeSpec{MountPath: mountStr(v.Mount), VolumeClaimName: claimNames.str(v.CName)}
		if v.Claim != nil {
			vs.VolumeClaim = buildClaim(*v.Claim)
		}
		s.Volumes = append(s.Volumes, vs)
	}
	if m.HasPlugins {
		s.Plugins = map[string][]string{}
		for _, p := range m.Plugins {
			args := []string{}
			if p.Args == argsUnparsable {
				// the mpi plugin's FlagSet stops at the first unknown flag: --master is never read
				args = append(args, "--bogus=1")
			}
			if p.Master != 0 {
				args = append(args, "--master="+taskNames.str(p.Master))
			}
			if p.Args != 0 && p.Args != argsUnparsable {
				args = append(args, fmt.Sprintf("--port=%d", 1000+p.Args))
			}
			s.Plugins[pluginNames.str(p.Name)] = args
		}
	}
	s.Queue = queueNames.str(m.Queue)
	s.SchedulerName = schedNames.str(m.Sched)
	s.MaxRetry = int32(m.MaxRetry)
	s.PriorityClassName = prioStr(m.Prio)
	s.NetworkTopology = buildNT(m.NT)
	if m.Rest != 0 {
		ttl, ms := int32(m.Rest), int32(m.Rest)
		s.TTLSecondsAfterFinished = &ttl
		s.MinSuccess = &ms
	}
	return j
}

// jobJSON is what the API server would send: the marshalled object, with an
// explicitly empty plugin map kept (encoding/json would drop it)
func jobJSON(m mJob) []byte {
	raw, err := json.Marshal(buildJob(m))
	if err != nil {
		panic(err)
	}
	if m.HasPlugins && len(m.Plugins) == 0 {
		var obj map[string]any
		if err := json.Unmarshal(raw, &obj); err != nil {
			panic(err)
		}
		obj["spec"].(map[string]any)["plugins"] = map[string]any{}
		raw, _ = json.Marshal(obj)
	}
	return raw
}

func absJob(j *batch.Job) mJob {
	m := mJob{Name: jobNames.id(j.Name), Term: j.DeletionTimestamp != nil}
	s := &j.Spec
	for _, ts := range s.Tasks {
		t := mTask{Name: taskNames.id(ts.Name), Replicas: int64(ts.Replicas), MaxRetry: int64(ts.MaxRetry)}
		if ts.MinAvailable != nil {
			t.MinAvail = p64(int64(*ts.MinAvailable))
		}
		id, err := strconv.ParseInt(ts.Template.Annotations[tmAnno], 10, 64)
		if err != nil {
			panic("harness: template lost its id annotation")
		}
		t.Tm = id
		t.HostNet = ts.Template.Spec.HostNetwork
		t.DNS = dnsNames.id(string(ts.Template.Spec.DNSPolicy))
		t.Policies = absPolicies(ts.Policies)
		if ts.DependsOn != nil {
			t.HasDeps = true
			t.Iter = iterNames.id(string(ts.DependsOn.Iteration))
			for _, n := range ts.DependsOn.Name {
				t.Deps = append(t.Deps, taskNames.id(n))
			}
		}
		if ts.PartitionPolicy != nil {
			pp := ts.PartitionPolicy
			t.Part = &mPart{int64(pp.TotalPartitions), int64(pp.PartitionSize), int64(pp.MinPartitions), absNT(pp.NetworkTopology)}
		}
		m.Tasks = append(m.Tasks, t)
	}
	m.MinAvail = int64(s.MinAvailable)
	m.Policies = absPolicies(s.Policies)
	for _, vs := range s.Volumes {
		v := mVol{Mount: mountID(vs.MountPath), CName: claimNames.id(vs.VolumeClaimName)}
		if vs.VolumeClaim != nil {
			v.Claim = p64(absClaim(vs.VolumeClaim))
		}
		m.Vols = append(m.Vols, v)
	}
	if s.Plugins != nil {
		m.HasPlugins = true
		for name, args := range s.Plugins {
			p := mPlugin{Name: pluginNames.id(name)}
			for _, a := range args {
				switch {
				case a == "--bogus=1":
					p.Args = argsUnparsable
				case strings.HasPrefix(a, "--master="):
					p.Master = taskNames.id(strings.TrimPrefix(a, "--master="))
				case strings.HasPrefix(a, "--port="):
					n, _ := strconv.ParseInt(strings.TrimPrefix(a, "--port="), 10, 64)
					p.Args = n - 1000
				default:
					panic("harness: plugin argument " + a)
				}
			}
			m.Plugins = append(m.Plugins, p)
		}
		sort.Slice(m.Plugins, func(a, b int) bool { return m.Plugins[a].Name < m.Plugins[b].Name })
	}
	m.Queue = queueNames.id(s.Queue)
	m.Sched = schedNames.id(s.SchedulerName)
	m.MaxRetry = int64(s.MaxRetry)
	m.Prio = prioID(s.PriorityClassName)
	m.NT = absNT(s.NetworkTopology)
	if s.TTLSecondsAfterFinished != nil {
		m.Rest = int64(*s.TTLSecondsAfterFinished)
	}
	return m
}

// ---------------------------------------------------------------- the real webhooks

var validateSvc, mutateSvc *router.AdmissionService

func init() {
	err := router.ForEachAdmission(&options.Config{EnabledAdmission: "/jobs/validate,/jobs/mutate"}, func(s *router.AdmissionService) error {
		switch s.Path {
		case "/jobs/validate":
			validateSvc = s
		case "/jobs/mutate":
			mutateSvc = s
		}
		return nil
	})
	if err != nil || validateSvc == nil || mutateSvc == nil {
		panic(fmt.Sprint("admission services not registered: ", err))
	}
}

type fakeInformer struct {
	cache.SharedIndexInformer
	idx cache.Indexer
}

func (f fakeInformer) GetIndexer() cache.Indexer { return f.idx }

// the queue view of the validating webhook: a lister over an indexer that
// carries the production parent index; useInformer selects the index path of
// GetQueuesByParent, otherwise its list-and-filter fallback runs
func setQueues(qs []mQueue, useInformer bool) {
	idx := cache.NewIndexer(cache.MetaNamespaceKeyFunc, cache.Indexers{router.QueueParentIndexName: router.QueueParentIndexFunc})
	for _, q := range qs {
		obj := &sched.Queue{ObjectMeta: metav1.ObjectMeta{Name: queueNames.str(q.Name)},
			Spec:   sched.QueueSpec{Parent: queueNames.str(q.Parent)},
			Status: sched.QueueStatus{State: sched.QueueState(queueStates.str(q.State))}}
		if q.Term {
			// a deleted queue that a finalizer keeps alive: still served by lister and index
			ts := metav1.NewTime(time.Unix(1700000000, 0))
			obj.DeletionTimestamp = &ts
			obj.Finalizers = []string{"verif.example/hold"}
		}
		if err := idx.Add(obj); err != nil {
			panic(err)
		}
	}
	validateSvc.Config.QueueLister = schedlister.NewQueueLister(idx)
	if useInformer {
		validateSvc.Config.QueueInformer = fakeInformer{idx: idx}
	} else {
		validateSvc.Config.QueueInformer = nil
	}
}

var jobGVR = metav1.GroupVersionResource{Group: "batch.volcano.sh", Version: "v1alpha1", Resource: "jobs"}

func review(op admissionv1.Operation, obj, old []byte) admissionv1.AdmissionReview {
	req := &admissionv1.AdmissionRequest{Operation: op, Resource: jobGVR, Object: runtime.RawExtension{Raw: obj}}
	if old != nil {
		req.OldObject = runtime.RawExtension{Raw: old}
	}
	return admissionv1.AdmissionReview{Request: req}
}

func realValidateCreate(raw []byte) bool {
	resp := validateSvc.Func(review(admissionv1.Create, raw, nil))
	if resp == nil {
		panic("nil admission response")
	}
	if !resp.Allowed && (resp.Result == nil || resp.Result.Message == "") {
		panic("denied without a message")
	}
	return resp.Allowed
}

func realValidateUpdate(old, new []byte) bool {
	resp := validateSvc.Func(review(admissionv1.Update, new, old))
	if resp == nil {
		panic("nil admission response")
	}
	return resp.Allowed
}

type patchOp struct {
	Op    string          `json:"op"`
	Path  string          `json:"path"`
	Value json.RawMessage `json:"value"`
}

// realMutate runs /jobs/mutate and applies its JSON patch (RFC 6902 add /
// replace on members of /spec) to the request object
func realMutate(raw []byte, dsched int64) []byte {
	switch dsched {
	case 1:
		mutateSvc.Config.SchedulerNames = nil
	default:
		mutateSvc.Config.SchedulerNames = []string{schedNames.str(dsched), "volcano"}
	}
	resp := mutateSvc.Func(review(admissionv1.Create, raw, nil))
	if resp == nil || !resp.Allowed {
		panic("mutating webhook refused a CREATE")
	}
	var obj map[string]any
	if err := json.Unmarshal(raw, &obj); err != nil {
		panic(err)
	}
	if len(resp.Patch) == 0 || string(resp.Patch) == "null" {
		return raw
	}
	if resp.PatchType == nil || *resp.PatchType != admissionv1.PatchTypeJSONPatch {
		panic("patch without JSONPatch type")
	}
	var ops []patchOp
	if err := json.Unmarshal(resp.Patch, &ops); err != nil {
		panic("patch is not a JSON patch: " + err.Error())
	}
	spec, ok := obj["spec"].(map[string]any)
	if !ok {
		panic("request object has no spec")
	}
	for _, op := range ops {
		if !strings.HasPrefix(op.Path, "/spec/") || strings.Contains(op.Path[6:], "/") {
			panic("unexpected patch path " + op.Path)
		}
		key := op.Path[6:]
		var val any
		if err := json.Unmarshal(op.Value, &val); err != nil {
			panic("patch value: " + err.Error())
		}
		switch op.Op {
		case "add":
		case "replace":
			if _, present := spec[key]; !present {
				panic("patch replaces the missing member " + op.Path)
			}
		default:
			panic("unexpected patch op " + op.Op)
		}
		spec[key] = val
	}
	out, err := json.Marshal(obj)
	if err != nil {
		panic(err)
	}
	return out
}

func decodeJob(raw []byte) *batch.Job {
	j := &batch.Job{}
	if err := json.Unmarshal(raw, j); err != nil {
		panic(err)
	}
	return j
}

// ---------------------------------------------------------------- Run

type createIn struct {
	qs    []mQueue
	d     int64
	j     mJob
	useIn bool
	bad   bool
}

func decCreate(in []int64, withD bool) createIn {
	r := &rd{t: in}
	r.skipOracles()
	c := createIn{qs: r.queues()}
	if withD {
		c.d = r.z()
	}
	c.j = r.job()
	c.useIn = r.z() != 0
	c.bad = r.bad
	return c
}

type updIn struct {
	bad bool
	j   mJob
	us  []mJob
}

func decUpd(in []int64) updIn {
	r := &rd{t: in}
	r.skipOracles()
	u := updIn{j: r.job()}
	n := int(r.z())
	for i := 0; i < n; i++ {
		u.us = append(u.us, r.job())
	}
	u.bad = r.bad
	return u
}

func decGraph(in []int64) *batch.Job {
	r := &rd{t: in}
	n := int(r.z())
	j := &batch.Job{}
	for i := 0; i < n; i++ {
		ts := batch.TaskSpec{Name: taskNames.str(r.z())}
		deps := r.list()
		// makeGraph only looks at DependsOn != nil; an empty list stays nil here
		if len(deps) > 0 {
			d := &batch.DependsOn{}
			for _, x := range deps {
				d.Name = append(d.Name, taskNames.str(x))
			}
			ts.DependsOn = d
		}
		j.Spec.Tasks = append(j.Spec.Tasks, ts)
	}
	return j
}

func run(sel int, in []int64) []int64 {
	switch sel {
	case 1:
		c := decCreate(in, false)
		if c.bad {
			return badInput
		}
		setQueues(c.qs, c.useIn)
		return []int64{vh.B(realValidateCreate(jobJSON(c.j)))}
	case 2:
		r := &rd{t: in}
		d := r.z()
		j := r.job()
		if r.bad {
			return badInput
		}
		m1 := absJob(decodeJob(realMutate(jobJSON(j), d)))
		return encJob(nil, m1, true)
	case 3:
		u := decUpd(in)
		if u.bad {
			return badInput
		}
		setQueues(baseQueues, false)
		cur := jobJSON(u.j)
		out := []int64{int64(len(u.us))}
		for _, n := range u.us {
			nr := jobJSON(n)
			ok := realValidateUpdate(cur, nr)
			out = append(out, vh.B(ok))
			if ok {
				cur = nr
			}
		}
		return out
	case 4:
		c := decCreate(in, true)
		if c.bad {
			return badInput
		}
		setQueues(c.qs, c.useIn)
		return []int64{vh.B(realValidateCreate(realMutate(jobJSON(c.j), c.d)))}
	case 5:
		_, isDag := validate.TopoSortForVerif(decGraph(in))
		return []int64{vh.B(isDag)}
	}
	panic("unknown selector")
}

// ---------------------------------------------------------------- Laws

const sigClaimName = "C09-update-claimname-under-inline-claim"

// claimNameSig: the finding's mechanism is present in an ADMITTED update iff some volume that has
// an inline volumeClaim before and after changes its volumeClaimName otherwise than by the
// controller's fill (empty -> a name ValidatePersistentVolumeName accepts)
func claimNameSig(old, new mJob, admitted bool) string {
	if !admitted || len(old.Vols) != len(new.Vols) {
		return ""
	}
	for i := range old.Vols {
		o, n := old.Vols[i], new.Vols[i]
		if o.Claim == nil || n.Claim == nil || o.CName == n.CName {
			continue
		}
		validFill := o.CName == 0
		for _, b := range badPV {
			if n.CName == b {
				validFill = false
			}
		}
		if !validFill {
			return sigClaimName
		}
	}
	return ""
}

// prefill: the request with only the task names and the queue filled in
func prefill(j mJob) mJob {
	p := j
	p.Tasks = append([]mTask{}, j.Tasks...)
	for i := range p.Tasks {
		if p.Tasks[i].Name == 0 {
			p.Tasks[i].Name = int64(1000 + i)
		}
	}
	if p.Queue == 0 {
		p.Queue = 2
	}
	return p
}

func laws(sel int, in, got []int64, law func(lsel int, lin []int64, sig string)) {
	if len(got) == 1 && got[0] == badInput[0] {
		return // undecodable input (a number outside int32): nothing ran
	}
	switch sel {
	case 1:
		c := decCreate(in, false)
		l := encOracles(nil)
		l = encQueues(l, c.qs)
		l = encJob(l, c.j, false)
		law(101, append(l, got[0]), "")
	case 2, 4:
		var j mJob
		var d int64
		var c createIn
		if sel == 2 {
			r := &rd{t: in}
			d = r.z()
			j = r.job()
		} else {
			c = decCreate(in, true)
			j, d = c.j, c.d
		}
		raw1 := realMutate(jobJSON(j), d)
		m1 := absJob(decodeJob(raw1))
		raw2 := realMutate(raw1, d)
		m2 := absJob(decodeJob(raw2))
		l := encJob(nil, j, false)
		l = encJob(l, m1, false)
		l = encJob(l, m2, false)
		law(102, l, "")
		if sel == 4 {
			// the accepted (patched) object satisfies every clause
			l = encOracles(nil)
			l = encQueues(l, c.qs)
			l = encJob(l, m1, false)
			law(101, append(l, got[0]), "")
			// validity of the defaulted object when the request was valid modulo defaults
			setQueues(c.qs, c.useIn)
			v0 := realValidateCreate(jobJSON(prefill(j)))
			// the range condition of the law is evaluated on the REQUEST j, not on the defaulted object
			l = encJob(nil, j, false)
			law(103, append(l, vh.B(v0), got[0]), "")
		}
	case 3:
		u := decUpd(in)
		setQueues(baseQueues, false)
		admitted := realValidateCreate(jobJSON(u.j))
		cur := u.j
		for i, n := range u.us {
			ok := got[1+i] != 0
			l := encJob(nil, cur, false)
			l = encJob(l, n, false)
			law(104, append(l, vh.B(ok)), "")
			// law 107: the claim name of a volume with an inline claim may only be filled in (empty ->
			// valid name).  Known finding: the webhook admits any change of it.  The sig is attached only
			// when THIS request shows that mechanism; everything else an update must not change is law
			// 104's business and is never signed.
			l = encOracles(nil)
			l = encJob(l, cur, false)
			l = encJob(l, n, false)
			law(107, append(l, vh.B(ok)), claimNameSig(cur, n, ok))
			if ok {
				cur = n
				if admitted {
					l = encOracles(nil)
					law(106, encJob(l, cur, false), "")
				}
			}
		}
	case 5:
		order, isDag := validate.TopoSortForVerif(decGraph(in))
		l := append([]int64{}, in...)
		l = append(l, vh.B(isDag), int64(len(order)))
		for _, n := range order {
			l = append(l, taskNames.id(n))
		}
		law(105, l, "")
	}
}

// ---------------------------------------------------------------- generators

var baseQueues = []mQueue{{1, 1, 0, false}, {2, 1, 1, false}, {3, 1, 1, false}, {4, 2, 1, false}, {5, 1, 3, false}, {6, 3, 1, false}}

func genQueues(r *vh.Rng) []mQueue {
	if r.Chance(3, 4) {
		return baseQueues
	}
	qs := []mQueue{}
	for id := int64(1); id <= 6; id++ {
		if r.Chance(1, 6) {
			continue
		}
		q := mQueue{Name: id, State: int64(vh.Pick(r, []int{1, 1, 1, 1, 2, 3, 4, 0})), Parent: int64(vh.Pick(r, []int{0, 1, 1, 1, 2, 3, 4, 5, 6}))}
		if q.Parent == id {
			q.Parent = 1
		}
		if id == 1 {
			q.Parent = 0
		}
		q.Term = r.Chance(1, 4)
		qs = append(qs, q)
	}
	return qs
}

// queueWorld builds a queue table around a target queue (q4) for one queue-related class; the
// target's parent, its own terminating flag, the number / states / terminating flags of its
// children and the order of the table are drawn independently
func queueWorld(r *vh.Rng, kind string) ([]mQueue, int64) {
	term := func() bool { return r.Chance(1, 2) }
	anyState := func() int64 { return int64(vh.Pick(r, []int{1, 1, 2, 3, 4, 0})) }
	qs := []mQueue{{1, 1, 0, false}, {2, 1, 1, r.Chance(1, 8)}}
	const T = 4
	tq := mQueue{Name: T, State: 1, Parent: vh.Pick(r, []int64{1, 3})}
	if tq.Parent == 3 {
		qs = append(qs, mQueue{3, anyState(), 1, term()})
	}
	switch kind {
	case "queue-not-leaf":
		// 1-2 children in any state; each may be terminating (all of them, too)
		tq.Term = r.Chance(1, 4)
		for i := 0; i < r.Range(1, 2); i++ {
			qs = append(qs, mQueue{int64(5 + i), anyState(), T, term()})
		}
	case "queue-only-terminating-children":
		for i := 0; i < r.Range(1, 2); i++ {
			qs = append(qs, mQueue{int64(5 + i), anyState(), T, true})
		}
	case "queue-target-terminating":
		tq.Term = true // Open, childless, being deleted: admitted by the unchanged code
	case "queue-not-open":
		tq.State = int64(vh.Pick(r, []int{2, 3, 4, 0}))
		tq.Term = term()
	case "queue-leaf-with-nephews":
		// a sibling has children (terminating or not); the target itself is a leaf
		qs = append(qs, mQueue{5, anyState(), tq.Parent, term()}, mQueue{6, anyState(), 5, term()})
	default:
		panic(kind)
	}
	qs = append(qs, tq)
	for i := len(qs) - 1; i > 0; i-- {
		k := r.Intn(i + 1)
		qs[i], qs[k] = qs[k], qs[i]
	}
	return qs, T
}

func shuffle(r *vh.Rng, xs []int64) []int64 {
	out := append([]int64{}, xs...)
	for i := len(out) - 1; i > 0; i-- {
		k := r.Intn(i + 1)
		out[i], out[k] = out[k], out[i]
	}
	return out
}

// a policy list that validatePolicies accepts.  A policy's trigger is the union
// of its singular `event` and its plural `events` (getEventList): every shape of
// that union is produced: singular only, plural only, both, the singular repeated
// inside the plural, a duplicated entry inside the plural, '*' in either field.
func genPolicies(r *vh.Rng) []mPolicy {
	var ps []mPolicy
	to := func() int64 { return int64(vh.Pick(r, []int{0, 0, 0, 30, 600})) }
	switch r.Intn(6) {
	case 0:
		return nil
	case 1:
		p := mPolicy{Action: int64(r.Range(1, 8)), Timeout: to()}
		switch r.Intn(4) {
		case 0:
			p.Event = 1
		case 1:
			p.Events = []int64{1}
		case 2:
			p.Event, p.Events = 1, []int64{1}
		default:
			p.Events = []int64{1, 1}
		}
		ps = append(ps, p)
	default:
		evs := shuffle(r, []int64{2, 3, 4, 5, 6, 7, 8})
		n := r.Range(1, 3)
		for i := 0; i < n && len(evs) > 0; i++ {
			k := r.Range(1, 3)
			if k > len(evs) {
				k = len(evs)
			}
			chunk := append([]int64{}, evs[:k]...)
			evs = evs[k:]
			p := mPolicy{Action: int64(r.Range(1, 8)), Timeout: to()}
			switch r.Intn(4) {
			case 0:
				p.Event, p.Events = chunk[0], chunk[1:]
			case 1:
				p.Events = chunk
			case 2:
				p.Event, p.Events = chunk[0], append(append([]int64{}, chunk[1:]...), chunk[0])
			default:
				p.Events = append(chunk, chunk[r.Intn(len(chunk))])
			}
			ps = append(ps, p)
		}
	}
	codes := shuffle(r, []int64{1, 2, 3, 137, -1, 255})
	for i := 0; i < r.Intn(3); i++ {
		a := int64(r.Range(1, 8))
		if r.Chance(1, 6) {
			a = int64(vh.Pick(r, []int{0, 9, 14})) // the action of an exit-code policy is not checked
		}
		ps = append(ps, mPolicy{Action: a, Exit: p64(codes[i]), Timeout: to()})
	}
	return ps
}

type genOpts struct{ undefaulted bool }

// genValidJob: a job the validating webhook admits against baseQueues
func genValidJob(r *vh.Rng, o genOpts) mJob {
	j := mJob{Name: int64(vh.Pick(r, []int{2001, 2001, 2002, 2011}))}
	n := vh.Pick(r, []int{1, 1, 2, 2, 3, 3, 4, 5})
	names := shuffle(r, []int64{1, 2, 3, 4, 5, 6, 7, 8, 9})[:n]
	useDeps := r.Chance(3, 5)
	var total int64
	for i := 0; i < n; i++ {
		t := mTask{Name: names[i], Replicas: int64(vh.Pick(r, []int{0, 1, 1, 2, 3, 5, 8})), Tm: int64(vh.Pick(r, []int{1, 1, 2, 3, 4})),
			DNS: int64(vh.Pick(r, []int{0, 0, 2, 3, 1})), MaxRetry: int64(vh.Pick(r, []int{0, 0, 1, 3, 7}))}
		t.HostNet = r.Chance(1, 4)
		if r.Chance(1, 4) {
			tp := int64(r.Range(1, 3))
			sz := int64(r.Range(1, 3))
			mn := int64(r.Range(0, int(tp)))
			t.Part = &mPart{tp, sz, mn, int64(r.Intn(3))}
			t.Replicas = tp * sz
			if r.Chance(1, 2) {
				if mn > 0 {
					t.MinAvail = p64(mn * sz)
				} else {
					t.MinAvail = p64(int64(r.Range(0, int(t.Replicas))))
				}
			}
		} else if r.Chance(2, 3) {
			t.MinAvail = p64(int64(r.Range(0, int(t.Replicas))))
		}
		if r.Chance(1, 3) {
			t.Policies = genPolicies(r)
		}
		if useDeps && r.Chance(2, 3) {
			t.HasDeps = true
			t.Iter = int64(r.Intn(3))
			for k := 0; k < i; k++ {
				if r.Chance(1, 2) {
					t.Deps = append(t.Deps, names[k])
				}
			}
		}
		total += t.Replicas
		j.Tasks = append(j.Tasks, t)
	}
	// the task order in the object is unrelated to the dependency order
	if r.Chance(1, 2) {
		perm := make([]int64, n)
		for i := range perm {
			perm[i] = int64(i)
		}
		perm = shuffle(r, perm)
		ts := make([]mTask, n)
		for i, p := range perm {
			ts[i] = j.Tasks[p]
		}
		j.Tasks = ts
	}
	j.MinAvail = int64(r.Range(0, int(total)))
	if r.Chance(1, 2) {
		j.Policies = genPolicies(r)
	}
	mounts := shuffle(r, []int64{1, 2, 3, 4})
	for i := 0; i < r.Intn(4); i++ {
		v := mVol{Mount: mounts[i]}
		if r.Chance(1, 2) {
			v.CName = int64(r.Range(1, 3))
		} else {
			v.Claim = p64(int64(r.Range(1, 3)))
		}
		j.Vols = append(j.Vols, v)
	}
	if r.Chance(1, 2) {
		j.HasPlugins = true
		for id := int64(1); id <= 8; id++ {
			if r.Chance(1, 4) {
				p := mPlugin{Name: id, Args: int64(r.Intn(3))}
				if id == 5 {
					// the mpi master task must exist
					p.Master = j.Tasks[r.Intn(len(j.Tasks))].Name
					if p.Master == 1 && r.Chance(1, 2) {
						p.Master = 0
					}
				}
				j.Plugins = append(j.Plugins, p)
			}
		}
	}
	j.Queue = int64(vh.Pick(r, []int{2, 2, 5}))
	j.Sched = int64(r.Intn(4))
	j.MaxRetry = int64(vh.Pick(r, []int{0, 0, 2, 3, 9}))
	j.Prio = int64(r.Intn(3))
	j.NT = int64(r.Intn(3))
	j.Rest = int64(r.Intn(4))
	if o.undefaulted {
		for i := range j.Tasks {
			if r.Chance(1, 2) {
				// an unnamed task that others depend on makes the graph dangling: keep those named
				used := false
				for _, t := range j.Tasks {
					for _, d := range t.Deps {
						if d == j.Tasks[i].Name {
							used = true
						}
					}
				}
				for _, p := range j.Plugins {
					if p.Name == 5 && (p.Master == j.Tasks[i].Name || (p.Master == 0 && j.Tasks[i].Name == 1)) {
						used = true
					}
				}
				if !used {
					j.Tasks[i].Name = 0
				}
			}
			if r.Chance(1, 2) {
				j.Tasks[i].MinAvail = nil
			}
		}
		if r.Chance(1, 2) {
			j.Queue = 0
		}
		if r.Chance(1, 2) {
			j.MinAvail = 0
		}
	}
	return j
}

var defectNames = []string{"no-tasks", "dup-task-name", "task-minavail-gt-replicas", "job-minavail-gt-total", "bad-event", "bad-action",
	"event-and-exitcode", "empty-policy", "dup-event", "any-with-others", "exitcode-zero", "dup-exitcode", "task-policy-defect",
	"volume-no-mount", "volume-dup-mount", "volume-neither", "volume-both", "volume-bad-claimname", "unknown-plugin", "mpi-master-missing",
	"queue-missing", "queue-not-open", "queue-root", "queue-not-leaf", "deps-cycle", "deps-self", "deps-dangling", "deps-duplicate",
	"bad-template", "bad-task-name", "bad-job-name", "partition-total", "partition-size", "partition-replicas", "partition-minavail",
	"partition-nt-conflict", "job-nt-conflict", "negative-replicas", "replica-overflow", "dotted-task-name", "exitcode-bad-action",
	"explicit-default-name", "partition-overflow", "partition-negative-min", "mpi-unparsable-args", "mpi-unparsable-args-default-master",
	"same-trigger-job-and-task", "same-trigger-two-tasks",
	"queue-only-terminating-children", "queue-target-terminating", "queue-leaf-with-nephews",
	"int32-boundary", "int32-partition-product"}

func perm(r *vh.Rng, n int) []int {
	out := make([]int, n)
	for i := range out {
		out[i] = i
	}
	for i := n - 1; i > 0; i-- {
		k := r.Intn(i + 1)
		out[i], out[k] = out[k], out[i]
	}
	return out
}

func insertAt[T any](r *vh.Rng, xs []T, x T) []T {
	i := r.Intn(len(xs) + 1)
	out := append([]T{}, xs[:i]...)
	out = append(out, x)
	return append(out, xs[i:]...)
}

// a legal policy list without '*' that has at least one event policy and one exit-code policy
func genBasePolicies(r *vh.Rng) []mPolicy {
	for {
		ps := genPolicies(r)
		star, ev := false, false
		for _, p := range ps {
			for _, e := range polEvents(p) {
				if e == 1 {
					star = true
				}
				ev = true
			}
		}
		if star {
			continue
		}
		if !ev {
			ps = insertAt(r, ps, mPolicy{Action: int64(r.Range(1, 8)), Event: int64(r.Range(2, 8))})
		}
		hasExit := false
		for _, p := range ps {
			if p.Exit != nil {
				hasExit = true
			}
		}
		if !hasExit && r.Chance(1, 2) {
			ps = insertAt(r, ps, mPolicy{Action: int64(r.Range(1, 8)), Exit: p64(int64(vh.Pick(r, []int{4, 5, 6})))})
		}
		return ps
	}
}

func polEvents(p mPolicy) []int64 {
	out := append([]int64{}, p.Events...)
	if p.Event != 0 {
		out = append(out, p.Event)
	}
	return out
}

// an event policy carrying `must` (somewhere) and possibly one unused legal event, in a random
// shape: singular only / plural only / both with `must` in the singular / both with it in the plural
func policyWith(r *vh.Rng, must int64, free []int64) mPolicy {
	p := mPolicy{Action: int64(r.Range(1, 8)), Timeout: int64(vh.Pick(r, []int{0, 0, 30}))}
	other := int64(0)
	if len(free) > 0 {
		other = free[r.Intn(len(free))]
	}
	switch r.Intn(5) {
	case 0:
		p.Event = must
	case 1:
		p.Events = []int64{must}
	case 2:
		p.Event = must
		if other != 0 {
			p.Events = []int64{other}
		}
	case 3:
		p.Events = []int64{must}
		if other != 0 {
			p.Event = other
		}
	default:
		p.Events = []int64{must}
		if other != 0 {
			p.Events = insertAt(r, p.Events, other)
		}
	}
	return p
}

// put event e into an existing policy: its singular field when that is free, else a random
// position of its plural field
func addEventTo(r *vh.Rng, p *mPolicy, e int64) {
	if p.Event == 0 && r.Chance(1, 2) {
		p.Event = e
		return
	}
	p.Events = insertAt(r, append([]int64{}, p.Events...), e)
}

// policy lists validatePolicies must refuse: a legal list with ONE defect whose position in the
// list, position inside the policy, and field (event / events / exitCode) are drawn independently
func badPolicies(r *vh.Rng, kind string) []mPolicy {
	ps := genBasePolicies(r)
	var evIdx, exIdx []int
	used := map[int64]bool{}
	for i, p := range ps {
		if p.Exit != nil {
			exIdx = append(exIdx, i)
		} else {
			evIdx = append(evIdx, i)
		}
		for _, e := range polEvents(p) {
			used[e] = true
		}
	}
	var free, usedL []int64
	for e := int64(2); e <= 8; e++ {
		if used[e] {
			usedL = append(usedL, e)
		} else {
			free = append(free, e)
		}
	}
	internal := int64(vh.Pick(r, []int{9, 10, 11, 12}))
	switch kind {
	case "bad-event":
		bad := internal
		if r.Chance(1, 3) {
			// into an existing policy; the empty string can only sit in the plural field
			q := &ps[evIdx[r.Intn(len(evIdx))]]
			if r.Chance(1, 4) {
				q.Events = insertAt(r, append([]int64{}, q.Events...), 0)
			} else {
				addEventTo(r, q, bad)
			}
			return ps
		}
		return insertAt(r, ps, policyWith(r, bad, free))
	case "bad-action":
		ps[evIdx[r.Intn(len(evIdx))]].Action = int64(vh.Pick(r, []int{0, 9, 10, 13, 14}))
		return ps
	case "event-and-exitcode":
		if len(exIdx) > 0 && r.Chance(1, 2) {
			// an exit-code policy gains a trigger
			q := &ps[exIdx[r.Intn(len(exIdx))]]
			e := int64(r.Range(2, 8))
			if len(free) > 0 {
				e = free[r.Intn(len(free))]
			}
			addEventTo(r, q, e)
		} else {
			ps[evIdx[r.Intn(len(evIdx))]].Exit = p64(int64(vh.Pick(r, []int{3, 9, 0})))
		}
		return ps
	case "empty-policy":
		return insertAt(r, ps, mPolicy{Action: int64(r.Range(1, 8)), Timeout: int64(vh.Pick(r, []int{0, 30}))})
	case "dup-event":
		e := usedL[r.Intn(len(usedL))]
		if len(evIdx) >= 2 && r.Chance(1, 3) {
			// into another existing policy that does not have it yet
			for _, k := range perm(r, len(evIdx)) {
				q := &ps[evIdx[k]]
				has := false
				for _, x := range polEvents(*q) {
					if x == e {
						has = true
					}
				}
				if !has {
					addEventTo(r, q, e)
					return ps
				}
			}
		}
		return insertAt(r, ps, policyWith(r, e, free)) // before or after the policy that owns e
	case "any-with-others":
		if r.Chance(1, 2) {
			addEventTo(r, &ps[evIdx[r.Intn(len(evIdx))]], 1)
			return ps
		}
		return insertAt(r, ps, policyWith(r, 1, nil))
	case "exitcode-zero":
		if len(exIdx) > 0 && r.Chance(1, 2) {
			ps[exIdx[r.Intn(len(exIdx))]].Exit = p64(0)
			return ps
		}
		return insertAt(r, ps, mPolicy{Action: int64(r.Range(1, 8)), Exit: p64(0)})
	case "dup-exitcode":
		if len(exIdx) == 0 {
			ps = insertAt(r, ps, mPolicy{Action: int64(r.Range(1, 8)), Exit: p64(7)})
			for i, p := range ps {
				if p.Exit != nil {
					exIdx = append(exIdx, i)
				}
			}
		}
		c := *ps[exIdx[r.Intn(len(exIdx))]].Exit
		return insertAt(r, ps, mPolicy{Action: int64(r.Range(1, 8)), Exit: p64(c)})
	}
	panic(kind)
}

func genVolKind(r *vh.Rng, mount int64, inline bool) mVol {
	if inline {
		return mVol{Mount: mount, Claim: p64(int64(r.Range(1, 3)))}
	}
	return mVol{Mount: mount, CName: int64(r.Range(1, 3))}
}

func insertDep(r *vh.Rng, t *mTask, d int64) {
	t.HasDeps = true
	t.Deps = insertAt(r, append([]int64{}, t.Deps...), d)
}

// inject one defect into a valid job; returns false when the defect does not
// apply to this job
func inject(r *vh.Rng, j *mJob, kind string) bool {
	n := len(j.Tasks)
	ti := r.Intn(n)
	t := &j.Tasks[ti]
	switch kind {
	case "no-tasks":
		j.Tasks = nil
		j.MinAvail = 0
	case "dup-task-name":
		if n < 2 {
			return false
		}
		k := (ti + 1 + r.Intn(n-1)) % n
		j.Tasks[k].Name = t.Name
	case "task-minavail-gt-replicas":
		if t.Part != nil {
			return false
		}
		if t.Replicas > 2147483645 {
			t.Replicas = 2147483645 // keep minAvailable = replicas+1..2 inside int32
		}
		t.MinAvail = p64(t.Replicas + int64(r.Range(1, 2)))
	case "job-minavail-gt-total":
		var tot int64
		for _, x := range j.Tasks {
			tot += x.Replicas
		}
		if tot+3 > 2147483647 || tot < -2147483648 {
			return false // "above the total" is not expressible in int32 for this job
		}
		j.MinAvail = tot + int64(r.Range(1, 3))
	case "bad-event", "bad-action", "event-and-exitcode", "empty-policy", "dup-event", "any-with-others", "exitcode-zero", "dup-exitcode":
		j.Policies = badPolicies(r, kind)
	case "task-policy-defect":
		t.Policies = badPolicies(r, vh.Pick(r, []string{"bad-event", "bad-action", "event-and-exitcode", "empty-policy", "dup-event",
			"any-with-others", "exitcode-zero", "dup-exitcode"}))
	case "volume-no-mount":
		j.Vols = insertAt(r, j.Vols, genVolKind(r, 0, r.Chance(1, 2)))
	case "volume-dup-mount":
		// the two colliding volumes: kinds (named / inline) and positions drawn independently;
		// either a new pair, or a new volume colliding with one the job already has
		if len(j.Vols) > 0 && r.Chance(1, 2) {
			j.Vols = insertAt(r, j.Vols, genVolKind(r, j.Vols[r.Intn(len(j.Vols))].Mount, r.Chance(1, 2)))
		} else {
			j.Vols = insertAt(r, j.Vols, genVolKind(r, 7, r.Chance(1, 2)))
			j.Vols = insertAt(r, j.Vols, genVolKind(r, 7, r.Chance(1, 2)))
		}
	case "volume-neither":
		j.Vols = insertAt(r, j.Vols, mVol{Mount: 8})
	case "volume-both":
		j.Vols = insertAt(r, j.Vols, mVol{Mount: 8, CName: int64(r.Range(1, 3)), Claim: p64(1)})
	case "volume-bad-claimname":
		j.Vols = insertAt(r, j.Vols, mVol{Mount: 8, CName: 10})
	case "unknown-plugin":
		j.HasPlugins = true
		j.Plugins = append(j.Plugins, mPlugin{Name: int64(r.Range(9, 10))})
	case "mpi-master-missing":
		var ps []mPlugin
		for _, p := range j.Plugins {
			if p.Name != 5 {
				ps = append(ps, p)
			}
		}
		j.HasPlugins = true
		m := mPlugin{Name: 5, Master: int64(vh.Pick(r, []int{0, 7, 8}))}
		for _, x := range j.Tasks {
			if x.Name == m.Master || (m.Master == 0 && x.Name == 1) {
				return false
			}
		}
		j.Plugins = append(ps, m)
		sort.Slice(j.Plugins, func(a, b int) bool { return j.Plugins[a].Name < j.Plugins[b].Name })
	case "queue-missing":
		j.Queue = int64(vh.Pick(r, []int{0, 7}))
	case "queue-not-open":
		j.Queue = int64(vh.Pick(r, []int{4, 6}))
	case "queue-root":
		j.Queue = 1
	case "queue-not-leaf":
		j.Queue = 3
	case "queue-only-terminating-children", "queue-target-terminating", "queue-leaf-with-nephews":
		// the queue world is built by worldFor
	case "deps-cycle":
		if n < 2 {
			return false
		}
		// a directed cycle of random length through randomly chosen tasks, on top of the DAG
		perm := perm(r, n)
		l := r.Range(2, n)
		for k := 0; k < l; k++ {
			from := &j.Tasks[perm[k]]
			on := j.Tasks[perm[(k+1)%l]].Name
			present := false
			for _, d := range from.Deps {
				if d == on {
					present = true
				}
			}
			if !present {
				insertDep(r, from, on)
			}
			from.HasDeps = true
		}
	case "deps-self":
		insertDep(r, t, t.Name)
	case "deps-dangling":
		// a name no task has: an unused ordinary name, an invalid one, or a default<k> name
		cands := []int64{20, 21, 1000, 1001}
		for id := int64(1); id <= 9; id++ {
			usedName := false
			for _, x := range j.Tasks {
				if x.Name == id {
					usedName = true
				}
			}
			if !usedName {
				cands = append(cands, id, id)
			}
		}
		insertDep(r, t, cands[r.Intn(len(cands))])
	case "deps-duplicate":
		if n < 2 {
			return false
		}
		// a dependency listed twice (second copy anywhere in the list): acyclic, yet counted twice
		var with []int
		for i := range j.Tasks {
			if len(j.Tasks[i].Deps) > 0 {
				with = append(with, i)
			}
		}
		if len(with) > 0 {
			x := &j.Tasks[with[r.Intn(len(with))]]
			insertDep(r, x, x.Deps[r.Intn(len(x.Deps))])
			return true
		}
		// no edge yet: the dependency-free job gets one doubled edge between two random tasks
		a := r.Intn(n)
		b := (a + 1 + r.Intn(n-1)) % n
		j.Tasks[a].HasDeps = true
		j.Tasks[a].Deps = []int64{j.Tasks[b].Name, j.Tasks[b].Name}
	case "bad-template":
		t.Tm = int64(r.Range(10, 13))
	case "bad-task-name":
		old := t.Name
		t.Name = int64(vh.Pick(r, []int{0, 20, 21, 22, 23}))
		renameRefs(j, old, t.Name)
	case "bad-job-name":
		j.Name = 2010
	case "partition-total":
		t.Part = &mPart{int64(vh.Pick(r, []int{0, -1})), 2, 0, 0}
		t.MinAvail = nil
	case "partition-size":
		t.Part = &mPart{2, int64(vh.Pick(r, []int{0, -3})), 0, 0}
		t.MinAvail = nil
	case "partition-replicas":
		tp, sz := int64(r.Range(1, 3)), int64(r.Range(1, 3))
		t.Part = &mPart{tp, sz, 0, 0}
		t.Replicas = vh.Pick(r, []int64{0, 0, tp*sz - 1, tp*sz + 1, tp * sz * 2, tp + sz + 7})
		if t.Replicas == tp*sz {
			t.Replicas = 0
		}
		t.MinAvail = nil
		j.MinAvail = 0
	case "partition-minavail":
		t.Part = &mPart{3, 2, 2, 0}
		t.Replicas = 6
		t.MinAvail = p64(int64(vh.Pick(r, []int{0, 2, 3, 5, 6})))
	case "partition-nt-conflict":
		t.Part = &mPart{1, 1, 0, 3}
		t.Replicas = 1
		t.MinAvail = nil
		j.MinAvail = 0
	case "job-nt-conflict":
		j.NT = 3
	// ---- perturbations the webhook accepts (or that exercise int32 wrap)
	case "negative-replicas":
		t.Replicas = int64(vh.Pick(r, []int{-1, -5}))
		t.MinAvail = nil
		t.Part = nil
		if r.Chance(1, 2) {
			j.MinAvail = int64(vh.Pick(r, []int{-7, 0}))
		}
	case "replica-overflow":
		big := []int64{2147483647, 2147483647, 1073741824, 2147483646}
		for i := range j.Tasks {
			j.Tasks[i].Replicas = vh.Pick(r, big)
			j.Tasks[i].MinAvail = nil
			j.Tasks[i].Part = nil
		}
		j.MinAvail = int64(vh.Pick(r, []int{0, 1, 2147483647, 5}))
	case "int32-boundary":
		// replica counts and minAvailable values at the edges of int32 (all representable): the
		// running int32 total wraps, per-task comparisons sit at max32; mixed verdicts
		const max32 = int64(2147483647)
		var tot int64
		for i := range j.Tasks {
			x := &j.Tasks[i]
			x.Part = nil
			x.Replicas = vh.Pick(r, []int64{1 << 30, max32, max32 - 1, 1<<30 - 1, 0, 1})
			switch r.Intn(6) {
			case 0:
				x.MinAvail = nil
			case 1:
				x.MinAvail = p64(x.Replicas)
			case 2:
				x.MinAvail = p64(x.Replicas - 1)
			case 3:
				if x.Replicas < max32 {
					x.MinAvail = p64(x.Replicas + 1)
				} else {
					x.MinAvail = p64(max32)
				}
			case 4:
				x.MinAvail = p64(max32)
			default:
				x.MinAvail = p64(0)
			}
			tot += x.Replicas
		}
		wt := w32(tot)
		cands := []int64{0, 1, max32, wt}
		if wt < max32 {
			cands = append(cands, wt+1)
		}
		if wt > -2147483648 {
			cands = append(cands, wt-1)
		}
		if tot <= max32 {
			cands = append(cands, tot)
		}
		j.MinAvail = vh.Pick(r, cands)
	case "int32-partition-product":
		// totalPartitions*partitionSize and minPartitions*partitionSize around 2^31 / 2^32
		pr := vh.Pick(r, [][2]int64{{32768, 65536}, {46341, 46341}, {46340, 46340}, {65536, 65536}, {65536, 32767}, {2147483647, 2}, {2147483647, 1}})
		prod := pr[0] * pr[1]
		t.Part = &mPart{pr[0], pr[1], vh.Pick(r, []int64{0, 1, pr[0], 46341, 32768}), 0}
		reps := []int64{w32(prod), 0}
		if prod <= 2147483647 {
			reps = append(reps, prod)
		}
		t.Replicas = vh.Pick(r, reps)
		switch r.Intn(3) {
		case 0:
			t.MinAvail = nil
		case 1:
			t.MinAvail = p64(w32(t.Part.Min * t.Part.Size))
		default:
			t.MinAvail = p64(t.Replicas)
		}
		var tot int64
		for _, x := range j.Tasks {
			tot += x.Replicas
		}
		j.MinAvail = vh.Pick(r, []int64{0, 0, w32(tot)})
	case "dotted-task-name":
		for _, x := range j.Tasks {
			if x.Name == 9 {
				return false
			}
		}
		old := t.Name
		t.Name = 9
		renameRefs(j, old, 9)
	case "exitcode-bad-action":
		j.Policies = []mPolicy{{Action: int64(vh.Pick(r, []int{0, 9, 14})), Exit: p64(3)}}
	case "same-trigger-job-and-task":
		// the same events / exit codes at job level and at task level do not collide
		ps := genBasePolicies(r)
		j.Policies = ps
		t.Policies = append([]mPolicy{}, ps...)
	case "same-trigger-two-tasks":
		if n < 2 {
			return false
		}
		ps := genBasePolicies(r)
		t.Policies = ps
		j.Tasks[(ti+1+r.Intn(n-1))%n].Policies = append([]mPolicy{}, ps...)
	case "partition-overflow":
		// 65536*65536 wraps to 0 in int32: replicas 0 "equals" totalPartitions*partitionSize
		t.Part = &mPart{65536, 65536, int64(vh.Pick(r, []int{0, 65536})), 0}
		t.Replicas = 0
		t.MinAvail = vh.Pick(r, []*int64{nil, p64(0)})
		j.MinAvail = 0
	case "partition-negative-min":
		// minPartitions <= 0 switches the minAvailable relation off
		t.Part = &mPart{2, 2, int64(vh.Pick(r, []int{-1, 0})), 0}
		t.Replicas = 4
		t.MinAvail = p64(int64(r.Range(0, 4)))
		j.MinAvail = 0
	case "mpi-unparsable-args", "mpi-unparsable-args-default-master":
		// the mpi FlagSet stops at an unknown flag, so --master=<existing task> is ignored
		// and the lookup falls back to "master"
		var ps []mPlugin
		for _, p := range j.Plugins {
			if p.Name != 5 {
				ps = append(ps, p)
			}
		}
		hasMaster := false
		for _, x := range j.Tasks {
			if x.Name == 1 {
				hasMaster = true
			}
		}
		if kind == "mpi-unparsable-args" && hasMaster {
			return false
		}
		if kind == "mpi-unparsable-args-default-master" && !hasMaster {
			old := t.Name
			t.Name = 1
			renameRefs(j, old, 1)
		}
		other := t.Name
		for _, x := range j.Tasks {
			if x.Name != 1 {
				other = x.Name
			}
		}
		if other == 1 {
			other = 7 // no such task; irrelevant, the flag is never read
		}
		j.HasPlugins = true
		j.Plugins = append(ps, mPlugin{Name: 5, Master: other, Args: argsUnparsable})
		sort.Slice(j.Plugins, func(a, b int) bool { return j.Plugins[a].Name < j.Plugins[b].Name })
	case "explicit-default-name":
		// "default<k>" given explicitly; collides after defaulting only if task k is unnamed
		for _, x := range j.Tasks {
			if x.Name >= 1000 {
				return false
			}
		}
		old := t.Name
		t.Name = int64(1000 + r.Intn(n))
		renameRefs(j, old, t.Name)
	default:
		panic(kind)
	}
	return true
}

func renameRefs(j *mJob, old, new int64) {
	for i := range j.Tasks {
		for k := range j.Tasks[i].Deps {
			if j.Tasks[i].Deps[k] == old {
				j.Tasks[i].Deps[k] = new
			}
		}
	}
	for i := range j.Plugins {
		if j.Plugins[i].Name == 5 {
			if j.Plugins[i].Master == old {
				j.Plugins[i].Master = new
			} else if j.Plugins[i].Master == 0 && old == 1 {
				j.Plugins[i].Master = new
			}
			if j.Plugins[i].Master == 1 {
				j.Plugins[i].Master = 0
			}
		}
	}
}

func createTokens(qs []mQueue, j mJob, useIn bool) []int64 {
	l := encOracles(nil)
	l = encQueues(l, qs)
	l = encJob(l, j, false)
	return append(l, vh.B(useIn))
}
func pipelineTokens(qs []mQueue, d int64, j mJob, useIn bool) []int64 {
	l := encOracles(nil)
	l = encQueues(l, qs)
	l = append(l, d)
	l = encJob(l, j, false)
	return append(l, vh.B(useIn))
}

func descJob(j mJob) any {
	names := []string{}
	for _, t := range j.Tasks {
		names = append(names, fmt.Sprintf("%s(r=%d,deps=%v)", taskNames.i2s[t.Name], t.Replicas, t.Deps))
	}
	return map[string]any{"job": jobNames.i2s[j.Name], "tasks": names, "minAvailable": j.MinAvail, "queue": queueNames.i2s[j.Queue]}
}

// a request derived from cur for an UPDATE
func genUpdate(r *vh.Rng, cur mJob) (mJob, string) {
	n := cur
	n.Tasks = append([]mTask{}, cur.Tasks...)
	n.Vols = append([]mVol{}, cur.Vols...)
	n.Plugins = append([]mPlugin{}, cur.Plugins...)
	ti := r.Intn(len(n.Tasks))
	t := &n.Tasks[ti]
	kind := vh.Pick(r, []string{"replicas", "replicas", "replicas", "replicas-bad", "job-minavail", "job-minavail-bad", "prio", "prio",
		"identity", "task-name", "template", "policies", "queue", "deps", "volume-mount", "plugin", "maxretry", "sched", "rest", "nt",
		"add-task", "remove-task", "claimname-fill", "claimname-change", "plugins-empty", "task-maxretry", "partition", "combo", "combo",
		"policy-timeout", "policy-event-to-events", "iteration", "claim-spec", "plugin-args", "task-swap", "task-swap",
		"claimname-valid-fill", "claimname-invalid-under-claim", "claimname-repoint-under-claim", "claimname-clear-under-claim",
		"replicas-undefault", "int32-boundary", "int32-boundary"})
	switch kind {
	case "replicas", "combo":
		if t.Part != nil {
			tp := int64(r.Range(1, 3))
			np := *t.Part
			if r.Chance(1, 2) {
				// replicas must follow totalPartitions*partitionSize, which may not change
				t.Replicas = np.Total * np.Size
			} else {
				t.Replicas = tp * np.Size
			}
		} else {
			t.Replicas = int64(r.Range(0, 9))
		}
		if t.Part == nil || t.Part.Min == 0 {
			t.MinAvail = p64(int64(r.Range(0, int(t.Replicas))))
		}
		var tot int64
		for _, x := range n.Tasks {
			tot += x.Replicas
		}
		if n.MinAvail > tot || r.Chance(1, 2) {
			n.MinAvail = int64(r.Range(0, int(tot)))
		}
		if kind == "combo" {
			n.Prio = int64(r.Intn(3))
		}
	case "replicas-bad":
		switch r.Intn(3) {
		case 0:
			t.Replicas = -1
			t.MinAvail = nil
		case 1:
			t.MinAvail = p64(t.Replicas + 1)
		default:
			t.MinAvail = p64(-1)
		}
	case "job-minavail":
		var tot int64
		for _, x := range n.Tasks {
			tot += x.Replicas
		}
		n.MinAvail = int64(r.Range(0, int(tot)))
	case "job-minavail-bad":
		var tot int64
		for _, x := range n.Tasks {
			tot += x.Replicas
		}
		n.MinAvail = vh.Pick(r, []int64{tot + 1, -1, tot + 5})
	case "prio":
		n.Prio = int64(r.Intn(3))
	case "identity":
	case "task-name":
		t.Name = int64(vh.Pick(r, []int{7, 8, 9, 2}))
	case "template":
		t.Tm = int64(vh.Pick(r, []int{1, 2, 3, 4}))
		if r.Chance(1, 3) {
			t.HostNet = !t.HostNet
		}
	case "policies":
		if r.Chance(1, 2) {
			n.Policies = genPolicies(r)
		} else {
			t.Policies = genPolicies(r)
		}
	case "queue":
		n.Queue = int64(vh.Pick(r, []int{2, 5, 3}))
	case "deps":
		if t.HasDeps && r.Chance(1, 2) {
			t.HasDeps, t.Deps, t.Iter = false, nil, 0
		} else {
			t.HasDeps = true
			t.Iter = int64(r.Intn(3))
			t.Deps = nil
		}
	case "volume-mount":
		switch {
		case len(n.Vols) == 0 || r.Chance(1, 4):
			n.Vols = insertAt(r, n.Vols, genVolKind(r, 5, r.Chance(1, 2))) // a volume appears, anywhere
		case r.Chance(1, 3):
			k := r.Intn(len(n.Vols)) // a volume disappears
			n.Vols = append(append([]mVol{}, n.Vols[:k]...), n.Vols[k+1:]...)
		case len(n.Vols) >= 2 && r.Chance(1, 2):
			a, b := r.Intn(len(n.Vols)), r.Intn(len(n.Vols)) // two volumes trade places
			n.Vols[a], n.Vols[b] = n.Vols[b], n.Vols[a]
		default:
			k := r.Intn(len(n.Vols)) // one mount path changes, possibly onto another volume's path
			n.Vols[k].Mount = int64(vh.Pick(r, []int{9, 1, 2, 3}))
		}
	case "plugin":
		n.HasPlugins = true
		switch {
		case len(n.Plugins) > 0 && r.Chance(1, 3):
			k := r.Intn(len(n.Plugins)) // one plugin removed
			n.Plugins = append(append([]mPlugin{}, n.Plugins[:k]...), n.Plugins[k+1:]...)
		case r.Chance(1, 2):
			id := int64(r.Range(1, 8)) // one plugin added (ascending order kept)
			dup := false
			for _, q := range n.Plugins {
				if q.Name == id {
					dup = true
				}
			}
			if !dup && id != 5 {
				n.Plugins = append(n.Plugins, mPlugin{Name: id})
				sort.Slice(n.Plugins, func(a, b int) bool { return n.Plugins[a].Name < n.Plugins[b].Name })
			}
		default:
			n.Plugins = []mPlugin{{Name: 2, Args: int64(r.Intn(4))}}
		}
	case "maxretry":
		n.MaxRetry = cur.MaxRetry + 1
	case "task-maxretry":
		t.MaxRetry = t.MaxRetry + 1
	case "sched":
		n.Sched = (cur.Sched + 1) % 4
	case "rest":
		n.Rest = (cur.Rest + 1) % 4
	case "nt":
		n.NT = (cur.NT + 1) % 4
	case "add-task":
		nt := mTask{Name: 8, Replicas: 1, Tm: 1, MinAvail: p64(1), MaxRetry: 3}
		if r.Chance(1, 3) {
			nt = n.Tasks[ti] // a copy of an existing task
		}
		n.Tasks = insertAt(r, n.Tasks, nt)
	case "remove-task":
		n.Tasks = append(append([]mTask{}, n.Tasks[:ti]...), n.Tasks[ti+1:]...)
	case "task-swap":
		// two tasks trade places (a no-op only if they are equal up to replicas / minAvailable)
		if len(n.Tasks) >= 2 {
			k := (ti + 1 + r.Intn(len(n.Tasks)-1)) % len(n.Tasks)
			n.Tasks[ti], n.Tasks[k] = n.Tasks[k], n.Tasks[ti]
		} else {
			n.Prio = int64(r.Intn(3))
		}
	case "claimname-fill":
		// any subset of the inline volumes, wherever they sit among named ones
		for _, i := range perm(r, len(n.Vols)) {
			if n.Vols[i].Claim != nil && r.Chance(2, 3) {
				n.Vols[i].CName = int64(vh.Pick(r, []int{0, 1, 2, 3, 10}))
			}
		}
	case "claimname-valid-fill", "claimname-invalid-under-claim", "claimname-repoint-under-claim", "claimname-clear-under-claim":
		// one volume with an inline claim: the controller's fill (empty -> valid name), a name the
		// validator rejects, another name over a filled one, the name removed
		hit := false
		for _, i := range perm(r, len(n.Vols)) {
			v := &n.Vols[i]
			if v.Claim == nil || hit {
				continue
			}
			switch kind {
			case "claimname-valid-fill":
				if v.CName == 0 {
					v.CName, hit = int64(r.Range(1, 3)), true
				}
			case "claimname-invalid-under-claim":
				v.CName, hit = 10, true
			case "claimname-repoint-under-claim":
				if v.CName != 0 {
					v.CName, hit = v.CName%3+1, true
				}
			default:
				if v.CName != 0 {
					v.CName, hit = 0, true
				}
			}
		}
		if !hit {
			n.Prio = int64(r.Intn(3))
		}
	case "replicas-undefault":
		// legal replicas with the task's minAvailable left out: admitted, and nothing defaults it again
		if t.Part == nil {
			t.Replicas = int64(r.Range(0, 9))
		}
		t.MinAvail = nil
		var tot int64
		for _, x := range n.Tasks {
			tot += x.Replicas
		}
		if n.MinAvail > tot {
			n.MinAvail = int64(r.Range(0, int(tot)))
		}
	case "int32-boundary":
		// validateJobUpdate keeps its own int32 running total: replica counts at the int32 edge, job
		// minAvailable around the wrapped total (all values representable)
		const max32 = int64(2147483647)
		var tot int64
		for i := range n.Tasks {
			x := &n.Tasks[i]
			if x.Part != nil {
				tot += x.Replicas
				continue
			}
			x.Replicas = vh.Pick(r, []int64{1 << 30, max32, max32 - 1, 1<<30 - 1, 2, 1, 0})
			x.MinAvail = vh.Pick(r, []*int64{nil, p64(x.Replicas), p64(x.Replicas - 1), p64(0), p64(max32)})
			tot += x.Replicas
		}
		wt := w32(tot)
		cands := []int64{0, 1, max32, wt}
		if wt < max32 {
			cands = append(cands, wt+1)
		}
		if wt > -2147483648 {
			cands = append(cands, wt-1)
		}
		if tot <= max32 {
			cands = append(cands, tot)
		}
		n.MinAvail = vh.Pick(r, cands)
	case "claimname-change":
		hit := false
		for _, i := range perm(r, len(n.Vols)) {
			if n.Vols[i].Claim == nil && (!hit || r.Chance(1, 3)) {
				n.Vols[i].CName = n.Vols[i].CName%3 + 1
				hit = true
			}
		}
		if !hit {
			n.Prio = int64(r.Intn(3))
		}
	case "plugins-empty":
		// nil and empty plugin maps are semantically equal
		if len(n.Plugins) == 0 {
			n.HasPlugins = !n.HasPlugins
		}
	case "policy-timeout":
		// only the timeout of one policy changes
		switch {
		case len(t.Policies) > 0 && r.Chance(1, 2):
			t.Policies = append([]mPolicy{}, t.Policies...) // task level, any position
			t.Policies[r.Intn(len(t.Policies))].Timeout += 5
		case len(n.Policies) > 0:
			n.Policies = append([]mPolicy{}, cur.Policies...) // job level, any position
			n.Policies[r.Intn(len(n.Policies))].Timeout += 5
		default:
			n.Policies = []mPolicy{{Action: 2, Event: 2, Timeout: 5}}
		}
	case "policy-event-to-events":
		// same trigger set, written in the other field: the spec differs all the same
		hit := false
		n.Policies = append([]mPolicy{}, cur.Policies...)
		t.Policies = append([]mPolicy{}, t.Policies...)
		lists := [][]mPolicy{n.Policies, t.Policies}
		if r.Chance(1, 2) {
			lists[0], lists[1] = lists[1], lists[0]
		}
		for _, l := range lists {
			for _, i := range perm(r, len(l)) {
				if l[i].Event != 0 && !hit {
					l[i].Events = insertAt(r, append([]int64{}, l[i].Events...), l[i].Event)
					l[i].Event = 0
					hit = true
				}
			}
		}
		if !hit {
			n.Prio = int64(r.Intn(3))
		}
	case "iteration":
		if t.HasDeps {
			t.Iter = (t.Iter + 1) % 3
		} else {
			n.Prio = int64(r.Intn(3))
		}
	case "claim-spec":
		hit := false
		for _, i := range perm(r, len(n.Vols)) {
			if n.Vols[i].Claim != nil && (!hit || r.Chance(1, 3)) {
				n.Vols[i].Claim = p64(*n.Vols[i].Claim%3 + 1)
				hit = true
			}
		}
		if !hit {
			n.Prio = int64(r.Intn(3))
		}
	case "plugin-args":
		if len(n.Plugins) > 0 {
			k := r.Intn(len(n.Plugins))
			n.Plugins[k].Args = (n.Plugins[k].Args + 1) % 4
		} else {
			n.Prio = int64(r.Intn(3))
		}
	case "partition":
		if t.Part != nil {
			np := *t.Part
			np.Total++
			t.Part = &np
			t.Replicas = np.Total * np.Size
		} else {
			t.Part = &mPart{1, t.Replicas, 0, 0}
		}
	}
	return n, kind
}

func genGraph(r *vh.Rng, dag bool) []int64 {
	n := r.Range(0, 7)
	names := shuffle(r, []int64{1, 2, 3, 4, 5, 6, 7, 8, 9})[:n]
	deps := make([][]int64, n)
	edges := 0
	for i := 0; i < n; i++ {
		for k := 0; k < n; k++ {
			if dag {
				if k < i && r.Chance(2, 5) {
					deps[i] = append(deps[i], names[k])
				}
			} else if r.Chance(1, 5) {
				deps[i] = append(deps[i], names[k])
			}
		}
		if !dag && r.Chance(1, 12) {
			deps[i] = append(deps[i], int64(vh.Pick(r, []int{20, 21, 1000}))) // dangling
		}
		if !dag && len(deps[i]) > 0 && r.Chance(1, 12) {
			deps[i] = append(deps[i], deps[i][0]) // listed twice
		}
		edges += len(deps[i])
	}
	if !dag && n >= 2 && r.Chance(1, 10) {
		names[1] = names[0] // duplicate task name
	}
	order := make([]int64, n)
	for i := range order {
		order[i] = int64(i)
	}
	order = shuffle(r, order)
	out := []int64{int64(n)}
	for _, i := range order {
		out = append(out, names[i])
		out = encList(out, deps[i])
	}
	return out
}

func graphHasEdge(g []int64) bool {
	r := &rd{t: g}
	n := int(r.z())
	for i := 0; i < n; i++ {
		r.z()
		if len(r.list()) > 0 {
			return true
		}
	}
	return false
}

func gen(rng *vh.Rng, n int, emit func(id string, sel int, in []int64, kind string, nontrivial bool, desc any)) {
	selfCheck()
	// 0. the Coq witness C09_create_minavail_needs_crd_bound on the real code: two negative
	// replica counts wrap the int32 total to +2147483647, minAvailable 5 is admitted
	{
		one := mTask{Name: 4, Replicas: -2147483648, Tm: 1}
		two := mTask{Name: 5, Replicas: -1, Tm: 1}
		j := mJob{Name: 2001, Tasks: []mTask{one, two}, MinAvail: 5, Queue: 2}
		emit("create-negative-replicas-wrap", 1, createTokens(baseQueues, j, false), "create/negative-replicas-wrap", true, descJob(j))
	}
	// 1. every defect class once per round on a fresh valid job, plus the valid job itself
	rc := rng.Fork()
	for i := 0; i < n/10+1; i++ {
		base := genValidJob(rc, genOpts{})
		qs := baseQueues
		emit(fmt.Sprintf("create-valid-%d", i), 1, createTokens(qs, base, rc.Chance(1, 2)), "create/valid", true, descJob(base))
		for _, d := range defectNames {
			j := genValidJob(rc, genOpts{})
			if !inject(rc, &j, d) {
				continue
			}
			cqs := qs
			switch d {
			case "queue-not-leaf", "queue-not-open":
				if rc.Chance(2, 3) {
					cqs, j.Queue = queueWorld(rc, d)
				}
			case "queue-only-terminating-children", "queue-target-terminating", "queue-leaf-with-nephews":
				cqs, j.Queue = queueWorld(rc, d)
			}
			// both lookup paths of GetQueuesByParent: the parent index of the informer, the lister fallback
			emit(fmt.Sprintf("create-%s-%d", d, i), 1, createTokens(cqs, j, rc.Chance(1, 2)), "create/"+d, len(j.Tasks) > 0, descJob(j))
		}
	}
	// 2. random: valid jobs against random queue tables, several defects at once
	rr := rng.Fork()
	for i := 0; i < n; i++ {
		j := genValidJob(rr, genOpts{undefaulted: rr.Chance(1, 5)})
		qs := genQueues(rr)
		if rr.Chance(1, 4) {
			j.Queue = int64(rr.Intn(8))
		}
		for k := rr.Intn(3); k > 0 && len(j.Tasks) > 0; k-- {
			inject(rr, &j, vh.Pick(rr, defectNames))
		}
		j.Term = rr.Chance(1, 10) // metadata only: CREATE validation does not read it
		emit(fmt.Sprintf("create-rand-%d", i), 1, createTokens(qs, j, rr.Chance(1, 2)), "create/random", len(j.Tasks) > 0, descJob(j))
	}
	// 3. mutate alone (any object, also invalid ones)
	rm := rng.Fork()
	for i := 0; i < n/2; i++ {
		j := genValidJob(rm, genOpts{undefaulted: true})
		if rm.Chance(1, 3) && len(j.Tasks) > 0 {
			inject(rm, &j, vh.Pick(rm, defectNames))
		}
		if rm.Chance(1, 8) {
			j.HasPlugins, j.Plugins = true, nil
		}
		j.Term = rm.Chance(1, 10) // the patch must leave metadata alone
		l := []int64{int64(rm.Range(1, 3))}
		emit(fmt.Sprintf("mutate-%d", i), 2, encJob(l, j, false), "mutate/object", len(j.Tasks) > 0, descJob(j))
	}
	// 4. API-server order: mutate then validate
	rp := rng.Fork()
	for i := 0; i < n; i++ {
		j := genValidJob(rp, genOpts{undefaulted: true})
		kind := "pipeline/undefaulted"
		if rp.Chance(1, 4) && len(j.Tasks) > 0 {
			d := vh.Pick(rp, defectNames)
			if inject(rp, &j, d) {
				kind = "pipeline/defect"
			}
		} else if rp.Chance(1, 6) {
			// minPartitions above totalPartitions with minAvailable left to the default
			t := &j.Tasks[rp.Intn(len(j.Tasks))]
			t.Part = &mPart{2, 2, 3, 0}
			t.Replicas = 4
			t.MinAvail = nil
			j.MinAvail = 0
			kind = "pipeline/minpartitions-above-total"
		}
		qs := genQueues(rp)
		if rp.Chance(1, 5) {
			qs, j.Queue = queueWorld(rp, vh.Pick(rp, []string{"queue-not-leaf", "queue-only-terminating-children",
				"queue-target-terminating", "queue-not-open", "queue-leaf-with-nephews"}))
			kind = "pipeline/queue-world"
		}
		emit(fmt.Sprintf("pipeline-%d", i), 4, pipelineTokens(qs, int64(rp.Range(1, 3)), j, rp.Chance(1, 2)), kind, len(j.Tasks) > 0, descJob(j))
	}
	// 5. update histories
	ru := rng.Fork()
	for i := 0; i < n/3+1; i++ {
		j := genValidJob(ru, genOpts{})
		for k := range j.Tasks {
			if j.Tasks[k].MinAvail == nil {
				j.Tasks[k].MinAvail = p64(j.Tasks[k].Replicas)
			}
		}
		hkind := "update/history"
		if ru.Chance(1, 6) {
			// a stored object that CREATE would refuse today: UPDATE re-checks the numbers and
			// the topology conflict on its own
			d := vh.Pick(ru, []string{"job-nt-conflict", "task-minavail-gt-replicas", "partition-nt-conflict", "job-minavail-gt-total",
				"negative-replicas", "partition-replicas", "int32-boundary", "int32-boundary", "replica-overflow", "int32-partition-product"})
			if inject(ru, &j, d) {
				hkind = "update/history-invalid-stored"
			}
		}
		// deletionTimestamp: the stored object may be Terminating from the start; from a random
		// step on every request carries it (the job was deleted, a finalizer is pending); single
		// requests flip it independently, so old/new see all four combinations
		j.Term = ru.Chance(1, 6)
		termFrom := 99
		if ru.Chance(1, 2) {
			termFrom = ru.Intn(4)
		}
		cur := j
		var us []mJob
		kinds := []string{}
		steps := ru.Range(2, 7)
		for s := 0; s < steps; s++ {
			u, kind := genUpdate(ru, cur)
			u.Term = cur.Term || s >= termFrom
			if ru.Chance(1, 8) {
				u.Term = !u.Term
			}
			if u.Term {
				kind += "+terminating"
			}
			us = append(us, u)
			kinds = append(kinds, kind)
			// follow the likely-admitted ones so that histories make progress
			switch strings.TrimSuffix(kind, "+terminating") {
			case "replicas", "combo", "job-minavail", "prio", "identity", "claimname-fill", "plugins-empty", "claimname-valid-fill",
				"claimname-invalid-under-claim", "claimname-repoint-under-claim", "claimname-clear-under-claim", "replicas-undefault":
				cur = u
			}
		}
		l := encOracles(nil)
		l = encJob(l, j, false)
		l = append(l, int64(len(us)))
		for _, u := range us {
			l = encJob(l, u, false)
		}
		emit(fmt.Sprintf("update-%d", i), 3, l, hkind, true, map[string]any{"job": descJob(j), "updates": kinds})
	}
	// 6. topoSort on bare graphs
	rt := rng.Fork()
	for i := 0; i < 2*n; i++ {
		dag := rt.Chance(1, 2)
		g := genGraph(rt, dag)
		kind := "topo/random-graph"
		if dag {
			kind = "topo/dag"
		}
		emit(fmt.Sprintf("topo-%d", i), 5, g, kind, graphHasEdge(g), nil)
	}
}

func main() {
	vh.Harness{Run: run, Laws: laws, Gen: gen}.Main()
}

// selfCheck compares the oracle tables the model receives with the real
// Kubernetes validators the webhook calls
func selfCheck() {
	in := func(l []int64, x int64) bool {
		for _, y := range l {
			if x == y {
				return true
			}
		}
		return false
	}
	for id, s := range taskNames.i2s {
		if (len(k8svalidation.IsDNS1123Subdomain(s)) > 0) != in(badSub, id) {
			panic(fmt.Sprintf("harness: oracle table badSub is wrong for %q", s))
		}
		pod := jobhelpers.MakePodName("job-a", s, 0)
		if (len(k8svalidation.IsQualifiedName(pod)) > 0) != in(badTQ, id) {
			panic(fmt.Sprintf("harness: oracle table badTQ is wrong for %q", s))
		}
	}
	for id, s := range jobNames.i2s {
		if (len(k8svalidation.IsQualifiedName(s)) > 0) != in(badJQ, id) {
			panic(fmt.Sprintf("harness: oracle table badJQ is wrong for %q", s))
		}
		if in(badJQ, id) != (len(k8svalidation.IsQualifiedName(jobhelpers.MakePodName(s, "t7", 3))) > 0) {
			panic(fmt.Sprintf("harness: pod name validity does not follow job name %q", s))
		}
	}
	for id, s := range claimNames.i2s {
		if id != 0 && (len(k8svalidation.IsDNS1123Subdomain(s)) > 0) != in(badPV, id) {
			panic(fmt.Sprintf("harness: oracle table badPV is wrong for %q", s))
		}
	}
}
