// c03w: scratch driver of the two C03 regression streams (moved into harness/cmd/c03).
package main

import (
	"fmt"

	"verif/harness/internal/vh"
)

func main() {
	rng := vh.NewRng(1)
	bad, flips := 0, 0
	var first []int64
	for i := 0; i < 300; i++ {
		in := genAliasCase(rng.Fork())
		got := runAliasCase(in)
		if got[0] != got[2] || got[3] != 1 {
			bad++
			if got[0] == 0 && got[2] == 1 {
				flips++
			}
			if first == nil {
				first = append(append([]int64{}, in...), got...)
			}
		}
	}
	fmt.Println("alias: cases 300 violations", bad, "of which refusal turned into acceptance", flips, "first", first)
	placed, viol := 0, 0
	for i := 0; i < 300; i++ {
		in := genReclaimCase(rng.Fork())
		got := runReclaimCase(in)
		if got[2] == 1 {
			placed++
			for k := 0; k < int(got[4]); k++ {
				if got[6+3*k] > got[7+3*k] {
					viol++
					break
				}
			}
		}
	}
	fmt.Println("reclaim: cases 300 placed", placed, "violations", viol)
}
