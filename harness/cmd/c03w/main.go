// c03w: directed witness for C03 on the REAL code: with hierarchical queues the reclaim action
// pipelines a task for a leaf queue while the PARENT queue is already at its capability.
// (reclaim.go:150 guards only by ssn.Preemptive; capacity's PreemptiveFn looks at the leaf only.)
package main

import (
	"fmt"
	"os"

	v1 "k8s.io/api/core/v1"
	"k8s.io/apimachinery/pkg/api/resource"
	metav1 "k8s.io/apimachinery/pkg/apis/meta/v1"
	"k8s.io/apimachinery/pkg/types"
	"k8s.io/apimachinery/pkg/util/sets"

	"volcano.sh/apis/pkg/apis/scheduling"
	"volcano.sh/volcano/pkg/scheduler/actions/reclaim"
	"volcano.sh/volcano/pkg/scheduler/api"
	"volcano.sh/volcano/pkg/scheduler/cache"
	"volcano.sh/volcano/pkg/scheduler/conf"
	"volcano.sh/volcano/pkg/scheduler/framework"
	"volcano.sh/volcano/pkg/scheduler/plugins"
	"volcano.sh/volcano/pkg/scheduler/plugins/capacity"
	"volcano.sh/volcano/pkg/scheduler/plugins/gang"

	"verif/harness/internal/sched"
	_ "verif/harness/internal/vh"
)

func queue(name, parent string, capCPU, desCPU int64) *api.QueueInfo {
	q := &scheduling.Queue{
		ObjectMeta: metav1.ObjectMeta{Name: name, UID: types.UID(name)},
		Spec:       scheduling.QueueSpec{Weight: 1, Parent: parent},
		Status:     scheduling.QueueStatus{State: scheduling.QueueStateOpen},
	}
	if capCPU > 0 {
		q.Spec.Capability = v1.ResourceList{v1.ResourceCPU: *resource.NewMilliQuantity(capCPU, resource.DecimalSI)}
	}
	if desCPU > 0 {
		q.Spec.Deserved = v1.ResourceList{v1.ResourceCPU: *resource.NewMilliQuantity(desCPU, resource.DecimalSI)}
	}
	return api.NewQueueInfo(q)
}

func main() {
	snap := &api.ClusterInfo{
		Jobs: map[api.JobID]*api.JobInfo{}, Nodes: map[string]*api.NodeInfo{},
		Queues: map[api.QueueID]*api.QueueInfo{}, NamespaceInfo: map[api.NamespaceName]*api.NamespaceInfo{},
		RevocableNodes: map[string]*api.NodeInfo{},
		HyperNodes:     api.HyperNodeInfoMap{}, HyperNodesSetByTier: map[int]sets.Set[string]{},
		RealNodesSet: map[string]sets.Set[string]{}, HyperNodeTierNameMap: api.HyperNodeTierNameMap{},
		CSINodesStatus: map[string]*api.CSINodeStatusInfo{},
	}
	no := false
	qa := queue("qa", "qp", 0, 0)
	qa.Queue.Spec.Reclaimable = &no // victims can only come from qc (outside qp's subtree)
	for _, q := range []*api.QueueInfo{
		queue("root", "", 0, 0),
		queue("qp", "root", 10000, 0), // parent: capability cpu 10
		qa,
		queue("qb", "qp", 0, 8000),
		queue("qc", "root", 0, 5000),
	} {
		snap.Queues[q.UID] = q
	}
	type js struct {
		id    int64
		queue string
		min   int32
	}
	for _, j := range []js{{1, "qa", 1}, {2, "qb", 5}, {3, "qc", 1}} {
		ji := api.NewJobInfo(sched.JobID(j.id))
		pg := &api.PodGroup{PodGroup: scheduling.PodGroup{
			ObjectMeta: metav1.ObjectMeta{Name: sched.JobName(j.id), Namespace: "ns", UID: types.UID(sched.JobName(j.id))},
			Spec:       scheduling.PodGroupSpec{MinMember: j.min, Queue: j.queue, MinTaskMember: map[string]int32{}},
			Status:     scheduling.PodGroupStatus{Phase: scheduling.PodGroupRunning},
		}}
		ji.SetPodGroup(pg)
		snap.Jobs[ji.UID] = ji
	}
	tasks := []sched.TaskSpec{}
	id := int64(0)
	add := func(job int64, n int, cpu int64, st int64, pre bool) {
		for i := 0; i < n; i++ {
			id++
			t := sched.TaskSpec{ID: id, Job: job, Role: 1, CPU: cpu, Mem: 1 << 20, Status: st, Preemptable: pre}
			if st != sched.SPending {
				t.Node = 1
			}
			tasks = append(tasks, t)
		}
	}
	add(1, 6, 1000, sched.SRunning, false) // qa: 6 cpu
	add(2, 4, 1000, sched.SRunning, false) // qb: 4 cpu
	add(2, 1, 2000, sched.SPending, false) // qb: wants 2 more
	pendingID := id
	add(3, 10, 1000, sched.SRunning, true) // qc: 10 cpu, preemptable, deserved 5
	tinfo := map[int64]*api.TaskInfo{}
	for _, t := range tasks {
		ti := api.NewTaskInfo(t.Pod())
		tinfo[t.ID] = ti
		snap.Jobs[ti.Job].AddTaskInfo(ti)
	}
	ni := api.NewNodeInfo(sched.NodeSpec{ID: 1, Has: true, CPU: 20000, Mem: 64 << 30, Pods: 110}.Object())
	for _, t := range tasks {
		if t.Node == 1 {
			if err := ni.AddTask(tinfo[t.ID]); err != nil {
				panic(err)
			}
		}
	}
	snap.Nodes[ni.Name] = ni
	snap.NodeList = append(snap.NodeList, ni.Name)

	c := &sched.ScriptedCache{SchedulerCache: cache.NewDefaultMockSchedulerCache("verif"), Snap: snap,
		RefuseBind: map[int64]bool{}, RefuseEvict: map[int64]bool{}}
	var snapf func() capacity.VerifSnapshot
	framework.RegisterPluginBuilder(gang.PluginName, gang.New)
	framework.RegisterPluginBuilder(capacity.PluginName, func(a framework.Arguments) framework.Plugin {
		p, f := capacity.VerifNew(a)
		snapf = f
		return p
	})
	opt := func(name string) conf.PluginOption {
		o := conf.PluginOption{Name: name}
		plugins.ApplyPluginConfDefaults(&o)
		return o
	}
	co := opt(capacity.PluginName)
	yes := true
	co.EnabledHierarchy = &yes
	tiers := []conf.Tier{{Plugins: []conf.PluginOption{opt(gang.PluginName), co}}}
	ssn := framework.OpenSession(c, tiers, nil)

	show := func(when string) (float64, float64) {
		s := snapf()
		qp := s.Queues["qp"]
		qb := s.Queues["qb"]
		fmt.Printf("%s: qp allocated cpu=%v realCapability cpu=%v capability cpu=%v | qb allocated cpu=%v realCapability cpu=%v deserved cpu=%v\n",
			when, qp.Allocated.MilliCPU, qp.RealCapability.MilliCPU, qp.Capability.MilliCPU, qb.Allocated.MilliCPU, qb.RealCapability.MilliCPU, qb.Deserved.MilliCPU)
		return qp.Allocated.MilliCPU, qp.RealCapability.MilliCPU
	}
	show("session open")
	pt := ssn.Jobs[sched.JobID(2)].Tasks[api.TaskID(sched.TaskName(pendingID))]
	qb := ssn.Queues["qb"]
	fmt.Printf("ssn.Allocatable(qb, t%d) = %v   ssn.Preemptive(qb, [t%d]) = %v\n", pendingID, ssn.Allocatable(qb, pt), pendingID, ssn.Preemptive(qb, []*api.TaskInfo{pt}))

	conf.EnabledActionMap = map[string]bool{"reclaim": true}
	act := reclaim.New()
	act.Initialize()
	act.Execute(ssn)
	act.UnInitialize()

	alloc, realcap := show("after reclaim")
	pt = ssn.Jobs[sched.JobID(2)].Tasks[api.TaskID(sched.TaskName(pendingID))]
	fmt.Printf("t%d status=%v node=%q evictions sent=%v\n", pendingID, pt.Status, pt.NodeName, c.Evicts)
	if alloc > realcap {
		fmt.Println("WITNESS: parent queue qp holds more than its realCapability/capability after a reclaim placement")
		os.Exit(1)
	}
	fmt.Println("no violation")
}
