// c03w: scratch driver for the reclaim regression stream (see reclaim_stream.go, which is
// moved to harness/cmd/c03 once that package is final).
package main

import (
	"fmt"
	"os"
)

func main() {
	in := []int64{10, 6, 4, 2, 10, 8, 5, 0}
	got := runReclaimCase(in)
	fmt.Println("in:", in, "observed:", got)
	// got = [preemptive, allocatable, placed, evictions, n, (alloc, realcap)*]
	if got[2] == 1 {
		for i := 0; i < int(got[4]); i++ {
			if got[5+2*i] > got[6+2*i] {
				fmt.Println("WITNESS: a queue of the chain holds more than its realCapability after a reclaim placement")
				os.Exit(1)
			}
		}
	}
	fmt.Println("no violation")
}
