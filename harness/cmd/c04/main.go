// c04 harness: real preempt / reclaim actions and real ssn.Preemptable / ssn.Reclaimable votes
// (priority, gang, conformance, proportion in generated tier layouts) against the C04 model;
// law selectors 101-104.
package main

import "verif/harness/internal/evict"

func main() {
	evict.Harness().Main()
}
