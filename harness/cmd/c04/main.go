// c04 harness: real preempt / reclaim actions and real ssn.Preemptable / ssn.Reclaimable votes
// (priority, gang, conformance, proportion / capacity in generated tier layouts; preempt, reclaim and
// topology-aware preempt; scripted handler faults and evict refusals) against the C04 model; law selectors 101-108.
package main

import "verif/harness/internal/evict"

func main() {
	evict.Harness().Main()
}
