package main

import (
	"fmt"

	metav1 "k8s.io/apimachinery/pkg/apis/meta/v1"

	schedulingv1beta1 "volcano.sh/apis/pkg/apis/scheduling/v1beta1"
	"volcano.sh/volcano/pkg/scheduler/api"
	"volcano.sh/volcano/pkg/scheduler/conf"
	"volcano.sh/volcano/pkg/scheduler/framework"
	"volcano.sh/volcano/pkg/scheduler/plugins/capacity"
	"volcano.sh/volcano/pkg/scheduler/uthelper"
)

func q(name, parent string) *schedulingv1beta1.Queue {
	return &schedulingv1beta1.Queue{ObjectMeta: metav1.ObjectMeta{Name: name}, Spec: schedulingv1beta1.QueueSpec{Weight: 1, Parent: parent},
		Status: schedulingv1beta1.QueueStatus{State: schedulingv1beta1.QueueStateOpen}}
}

func ready(qs []*schedulingv1beta1.Queue, leaf string) bool {
	t := &uthelper.TestCommonStruct{Name: "x", Plugins: map[string]framework.PluginBuilder{"capacity": capacity.New}, Queues: qs}
	tr := true
	tiers := []conf.Tier{{Plugins: []conf.PluginOption{{Name: "capacity", EnabledHierarchy: &tr, EnabledAllocatable: &tr, EnabledJobEnqueued: &tr}}}}
	ssn := t.RegisterSession(tiers, nil)
	defer t.Close()
	qi := ssn.Queues[api.QueueID(leaf)]
	if qi == nil {
		panic("no queue " + leaf)
	}
	task := &api.TaskInfo{Name: "t", Resreq: api.EmptyResource(), InitResreq: api.EmptyResource()}
	return ssn.Allocatable(qi, task)
}

func main() {
	fmt.Println("tree", ready([]*schedulingv1beta1.Queue{q("root", ""), q("a", "root"), q("b", "a"), q("c", "b")}, "c"))
	fmt.Println("cycle", ready([]*schedulingv1beta1.Queue{q("root", ""), q("d", ""), q("a", "c"), q("b", "a"), q("c", "b")}, "d"))
	fmt.Println("dangling", ready([]*schedulingv1beta1.Queue{q("root", ""), q("d", ""), q("a", "zz")}, "d"))
}
